"""C16 — CKKS evaluator tracks values and precision metadata through any program."""
import os
from pathlib import Path

PROPS_VO = "Props/C16.vo"
EXTRA_VO = ["Model/C16Oracle.vo"]      # the oracle is extracted but is not a dependency of Props/C16.vo
PROFILES = ["release", "debug"]     # debug = overflow checks on: usize under/overflow panics instead of wrapping
RULE = ("harness c16: straight-line CKKS programs generated *while being executed* through the public traits on Module<FFT64Ref> "
        "and Module<NTT120Ref> (plus FFT64Avx / NTT120Avx when the harness manifest enables `ckks-avx`); n = 128/256; base2k 19/16 resp. 52/45; "
        "6 registers of unequal limb counts, fresh encryptions of unequal (log_delta, log_budget), 67 op codes (add/sub ct, vec znx/rnx, "
        "const znx/rnx; neg; mul/square/mul-add/mul-sub with ct, vectors, constants; x/: 2^k; rotate with present/missing keys; conjugate; "
        "rescale; align; compaction, reallocation, set_meta_checked; decrypt; add_many, mul_many and the five dot products over register "
        "lists of 0..5 entries) in into/in-place forms, destinations smaller than the natural result, near-limit constants, wild scalars; "
        "one probe program per (repaired or known) finding class and usize-overflow probes; both build profiles. "
        "One record = one program, one output row (status, log_delta, log_budget, limbs) per step, compared bit for bit with run_c16; "
        "distinct = distinct (params, program) lines. Extra phase (value stream): same kind of programs with a shadow complex f64 "
        "evaluation; floor(max slot error * 2^log_delta) per step against the explicit worst-case envelope of Model/C16Oracle.v; "
        "encode->decode identity of the f64 encoder for 2..4096 slots (<= 2 log2(n) + 4 ulps)")
ASSUMPTIONS = [
    "state of /repo: after the CKKS repairs fd924ce, 3326e5c, e31e2c8, 84cafa8, b042dad, 628058f (the model is faithful to the repaired code)",
    "theorem hypotheses: base2k >= 1; operands satisfy `good` (log_delta + log_budget <= limbs * base2k < 2^62); caller scalars are arbitrary "
    "usize values, plaintext metadata below 2^62 (`wf_op`)",
    "admissible calls (asserted by the layers below, not defects): ckks_encrypt_sk with 1 <= noise k and ceil(k/base2k) <= limbs of the "
    "destination; constants converted by to_znx/to_znx_at_k need k >= 1 (precision (0,0) has no limb); ciphertexts with at least one limb",
    "value theorems (C16_value_*) are over the exact phase model: shifts multiply the phase by powers of two, tensor products multiply "
    "phases; truncation to the destination, noise and wrap-around are measured by the value stream against an explicit worst-case envelope "
    "(derivation in Model/C16Oracle.v), not proved; the f64 rounding of encode/decode is outside every theorem; plaintext values are the "
    "quantised ones (what the plaintext digits really encode, constants wrapped at their encoding precision)",
    "representable magnitude: |coefficient| < 2^(log_budget-1) (1 - 2^-(base2k-2)); balanced base-2^b digits decode the top sliver "
    "[2^(lb-1)(1-2^-b), 2^(lb-1)) as negative values (observed; not counted as a finding)",
    "composites: proved: every Ok leaves metadata the destination can hold (C16_composite_meta_never_exceeds); their Err/panic conditions are "
    "checked by the correspondence only",
    "not exercised: f128 plaintexts (f128 is only a dev-dependency of poulpy-ckks); the AVX backends until /verif/harness/Cargo.toml has "
    "avx = [\"poulpy-cpu-avx/enable-avx\", \"poulpy-ckks/enable-avx\", \"ckks-avx\"] and ckks-avx = [] (tested on a scratch copy: 1213 "
    "programs, 0 differences); user-built CKKSPlaintextCstZnx (only to_znx / to_znx_at_k outputs); operands that violate the invariant "
    "beyond the one-call quarantine",
]
TRUSTED = ["shadow complex evaluation and decrypt/decode path of harness/src/bin/c16.rs (f64)"]

PRODUCT_CT = {32: ("a", "b"), 33: ("d", "a"), 34: ("a",), 35: ("d",), 36: ("a",), 37: ("d",), 38: ("a",), 39: ("d",),
              44: ("a", "b"), 45: ("a",), 46: ("a",), 49: ("a", "b"), 50: ("a",), 51: ("a",)}


def _hex(x):
    return -int(x[1:], 16) if x.startswith("-") else int(x, 16)


def _unpack(n, packed):
    return [(packed >> (3 * i)) & 7 for i in range(max(0, min(n, 5)))]


def classify(record):
    """Known classes still present in /repo:
    C16:mul.noncompact_operand_panics        a product (ct x ct, square, ct x vector plaintext, mul-add/-sub, mul_many, dot products)
                                             panics when a ciphertext operand has more limbs than ceil(effective_k / base2k);
    C16:dot_product_ct.mixed_meta_wrong_scale  the fused path of ckks_dot_product_ct places the products with max(effective_k) instead of
                                             max(log_budget) + max(log_delta) (same defect as the repaired ct x ct product);
    C16:many.single_input_stale_meta         ckks_add_many / ckks_mul_many with ONE input assign dst.meta before the budget check: a failed
                                             call leaves metadata the destination cannot hold, later calls on it succeed or panic.
    A key is returned only when every offending row (panic, or metadata beyond limbs * base2k) is explained."""
    try:
        code, ps, vs, outs = record.split("#")
        if int(code) not in (16001, 16002) or outs.startswith("PANIC"):
            return None
        B = _hex(ps.split()[2])
        steps = [[_hex(x) for x in s.split()] for s in vs.split(";")]
        rows = [[_hex(x) for x in r.split()] for r in outs.split(";")]
    except Exception:
        return None
    reg = {}              # register -> (log_delta, log_budget, limbs) as last reported
    stale = set()         # registers left with stale metadata by a single-input add_many / mul_many
    keys = []

    def noncompact(r):
        m = reg.get(r)
        return bool(m) and m[0] + m[1] > 0 and -(-(m[0] + m[1]) // B) != m[2]

    for s, r in zip(steps, rows):
        op, d, a, b = s[0], s[1], s[2], s[3]
        st = r[0]
        lists = []
        if 70 <= op <= 76:
            lists = _unpack(s[4], s[5]) + (_unpack(s[4], s[6]) if op == 72 else [])
        used = set(lists) | ({a} if op in (67,) else set()) | {d}
        if st == 99:
            if used & stale:
                keys.append("C16:many.single_input_stale_meta")
            elif op in PRODUCT_CT and any(noncompact({"d": d, "a": a, "b": b}[nm]) for nm in PRODUCT_CT[op]):
                keys.append("C16:mul.noncompact_operand_panics")
            elif op in (71, 72, 73, 74) and any(noncompact(x) for x in lists):
                keys.append("C16:mul.noncompact_operand_panics")
            else:
                return None
            break
        exceeds = r[1] + r[2] > r[3] * B or r[1] < 0 or r[2] < 0
        if exceeds:
            if st == 2 and op in (70, 71) and s[4] == 1:
                stale.add(d)
                keys.append("C16:many.single_input_stale_meta")
            elif d in stale:
                pass                          # a later call on the stale destination
            else:
                return None
        else:
            stale.discard(d)
        if st == 0 and op == 72 and s[4] >= 2:
            xs, ys = _unpack(s[4], s[5]), _unpack(s[4], s[6])
            mx, my = [reg.get(x) for x in xs], [reg.get(y) for y in ys]
            if all(mx) and all(my) and len({m[0] for m in mx}) == 1 and len({m[0] for m in my}) == 1:
                amin, bmin = min(m[1] for m in mx), min(m[1] for m in my)
                if (mx[0][0] - my[0][0]) * (amin - bmin) < 0:
                    keys.append("C16:dot_product_ct.mixed_meta_wrong_scale")
        reg[d] = (r[1], r[2], r[3])
        if op == 64 and len(r) >= 7:
            if r[4] + r[5] > r[6] * B and b not in stale:
                return None
            reg[b] = (r[4], r[5], r[6])
    return keys[0] if keys else None


def extra(ctx, ofails, notes):
    """value stream: shadow complex evaluation against the envelope oracle, and encode->decode identity (oracle only)"""
    from check import HARNESS, OCAML
    binp = HARNESS / "target" / "release" / "c16"
    drv = OCAML / "gen" / "c16" / "drv"
    recs = ctx.harness_gen(binp, "value:" + ctx.tier, ctx.seed, tag="_value")
    lines = recs.read_text().splitlines()
    verdicts = ctx.drive(drv, recs)
    cov = {"value_records": 0, "value_oracle_holds": 0, "value_oracle_fails": 0, "encdec_records": 0,
           "value_steps_measured": 0, "max_err_scaled_by_op": {}}
    for (n, c, o, _) in verdicts:
        line = lines[n - 1]
        code = line.split("#", 1)[0]
        if code == "16003":
            cov["encdec_records"] += 1
        else:
            cov["value_records"] += 1
        if o == 1:
            cov["value_oracle_holds"] += 1
        elif o == 0:
            cov["value_oracle_fails"] += 1
            ofails.append({"profile": "release", "record": line})
        if code == "16002" and not line.split("#")[3].startswith("PANIC"):
            _, _, vs, outs = line.split("#")
            for s, r in zip(vs.split(";"), outs.split(";")):
                op = str(_hex(s.split()[0]))
                rr = [_hex(x) for x in r.split()]
                if len(rr) >= 6 and rr[4] >= 0:
                    cov["value_steps_measured"] += 1
                    m = cov["max_err_scaled_by_op"]
                    m[op] = max(m.get(op, 0), rr[4])
    notes.append("value stream: %d programs, %d measured steps, %d encode/decode records; oracle fails %d" %
                 (cov["value_records"], cov["value_steps_measured"], cov["encdec_records"], cov["value_oracle_fails"]))
    return {"value_tracking": cov}
