"""C16 — CKKS evaluator tracks values and precision metadata through any program."""
import os
from pathlib import Path

PROPS_VO = "Props/C16.vo"
EXTRA_VO = ["Model/C16Oracle.vo"]      # the oracle is extracted but is not a dependency of Props/C16.vo
PROFILES = ["release", "debug"]     # debug = overflow checks on: usize under/overflow panics instead of wrapping
RULE = ("harness c16: straight-line CKKS programs generated *while being executed* through the public traits on Module<FFT64Ref> "
        "and Module<NTT120Ref> (n = 128/256; base2k 19/16 resp. 52/45), 6 registers of unequal limb counts, fresh encryptions "
        "of unequal (log_delta, log_budget), all 60 op codes (add/sub ct, vec znx/rnx, const znx/rnx; neg; mul/square/mul-add/mul-sub "
        "with ct, vectors, constants; x/: 2^k; rotate with present/missing keys; conjugate; rescale; align; compaction, reallocation, "
        "set_meta_checked; decrypt) in into/in-place forms, destinations smaller than the natural result, near-limit constants, "
        "wild scalars; one probe program per known-finding class and usize-overflow probes; both build profiles. "
        "One record = one program, one output row (status, log_delta, log_budget, limbs) per step, compared bit for bit with run_c16; "
        "distinct = distinct (params, program) lines. Extra phase (value stream): same kind of programs with a shadow complex f64 "
        "evaluation; floor(max slot error * 2^log_delta) per step against the explicit worst-case envelope of Model/C16Oracle.v; "
        "encode->decode identity of the f64 encoder for 2..4096 slots (<= 2 log2(n) + 4 ulps)")
ASSUMPTIONS = [
    "theorem hypotheses: base2k >= 1; operands satisfy `good` (log_delta + log_budget <= limbs * base2k < 2^62); caller scalars below 2^63 "
    "(wf_op); above that the usize additions overflow: C16_no_underflow_refuted_huge_scalar, harness probes",
    "admissible calls (asserted by the layers below, not defects): ckks_encrypt_sk with 1 <= noise k and ceil(k/base2k) <= limbs of the "
    "destination; constants converted by to_znx/to_znx_at_k need k >= 1 (precision (0,0) has no limb); ciphertexts with at least one limb",
    "value tracking is measured against an explicit worst-case envelope (derivation in Model/C16Oracle.v), not proved; the f64 rounding "
    "of encode/decode is outside every theorem; plaintext values are the quantised ones (what the plaintext really encodes)",
    "representable magnitude: |coefficient| < 2^(log_budget-1) (1 - 2^-(base2k-2)); balanced base-2^b digits decode the top sliver "
    "[2^(lb-1)(1-2^-b), 2^(lb-1)) as negative values (observed; not counted as a finding)",
    "not exercised: f128 plaintexts (f128 is only a dev-dependency of poulpy-ckks), AVX backends (CKKSImpl for them needs "
    "poulpy-ckks/enable-avx, which the shared harness manifest does not turn on), add_many / mul_many / dot_product composites, "
    "user-built CKKSPlaintextCstZnx (only to_znx / to_znx_at_k outputs), operands that violate the invariant beyond the one-call quarantine",
]
TRUSTED = ["shadow complex evaluation and decrypt/decode path of harness/src/bin/c16.rs (f64)"]

PRODUCT_CT = {32: ("a", "b"), 33: ("d", "a"), 34: ("a",), 35: ("d",), 36: ("a",), 37: ("d",), 38: ("a",), 39: ("d",),
              44: ("a", "b"), 45: ("a",), 46: ("a",), 49: ("a", "b"), 50: ("a",), 51: ("a",)}


def _hex(x):
    return -int(x[1:], 16) if x.startswith("-") else int(x, 16)


def classify(record):
    """The one remaining known class: a product (ct x ct, square, ct x vector plaintext, and their mul-add / mul-sub
    forms) panics when a ciphertext operand has more limbs than ceil(effective_k / base2k).  The key is returned only
    when the panic is the record's single offending row and an operand of that step really is not compact."""
    try:
        code, ps, vs, outs = record.split("#")
        if int(code) not in (16001, 16002) or outs.startswith("PANIC"):
            return None
        B = _hex(ps.split()[2])
        steps = [[_hex(x) for x in s.split()] for s in vs.split(";")]
        rows = [[_hex(x) for x in r.split()] for r in outs.split(";")]
    except Exception:
        return None
    reg = {}              # register -> (log_delta, log_budget, limbs) as last reported
    key = None
    for s, r in zip(steps, rows):
        op, d, a, b = s[0], s[1], s[2], s[3]
        st = r[0]
        if st == 99:
            names = PRODUCT_CT.get(op)
            if not names:
                return None
            opnd = {"d": d, "a": a, "b": b}
            noncompact = False
            for nm in names:
                m = reg.get(opnd[nm])
                if m and m[0] + m[1] > 0 and -(-(m[0] + m[1]) // B) != m[2]:
                    noncompact = True
            if not noncompact:
                return None
            key = "C16:mul.noncompact_operand_panics"
            break
        if r[1] + r[2] > r[3] * B or r[1] < 0 or r[2] < 0:
            return None                       # metadata that the destination cannot hold: never explained
        reg[d] = (r[1], r[2], r[3])
        if op == 64 and len(r) >= 7:
            if r[4] + r[5] > r[6] * B:
                return None
            reg[b] = (r[4], r[5], r[6])
    return key


def extra(ctx, ofails, notes):
    """value stream: shadow complex evaluation against the envelope oracle, and encode->decode identity (oracle only)"""
    from check import HARNESS, OCAML
    binp = HARNESS / "target" / "release" / "c16"
    drv = OCAML / "gen" / "c16" / "drv"
    recs = ctx.harness_gen(binp, "value:" + ctx.tier, ctx.seed, tag="_value")
    lines = recs.read_text().splitlines()
    verdicts = ctx.drive(drv, recs)
    cov = {"value_records": 0, "value_oracle_holds": 0, "value_oracle_fails": 0, "encdec_records": 0,
           "value_steps_measured": 0, "max_err_scaled_by_op": {}}
    for (n, c, o, _) in verdicts:
        line = lines[n - 1]
        code = line.split("#", 1)[0]
        if code == "16003":
            cov["encdec_records"] += 1
        else:
            cov["value_records"] += 1
        if o == 1:
            cov["value_oracle_holds"] += 1
        elif o == 0:
            cov["value_oracle_fails"] += 1
            ofails.append({"profile": "release", "record": line})
        if code == "16002" and not line.split("#")[3].startswith("PANIC"):
            _, _, vs, outs = line.split("#")
            for s, r in zip(vs.split(";"), outs.split(";")):
                op = str(_hex(s.split()[0]))
                rr = [_hex(x) for x in r.split()]
                if len(rr) >= 6 and rr[4] >= 0:
                    cov["value_steps_measured"] += 1
                    m = cov["max_err_scaled_by_op"]
                    m[op] = max(m.get(op, 0), rr[4])
    notes.append("value stream: %d programs, %d measured steps, %d encode/decode records; oracle fails %d" %
                 (cov["value_records"], cov["value_steps_measured"], cov["encdec_records"], cov["value_oracle_fails"]))
    return {"value_tracking": cov}
