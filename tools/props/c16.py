"""C16 — CKKS evaluator tracks values and precision metadata through any program."""
import os
from pathlib import Path

PROPS_VO = "Props/C16.vo"
EXTRA_VO = ["Model/C16Oracle.vo"]      # the oracle is extracted but is not a dependency of Props/C16.vo
PROFILES = ["release", "debug"]     # debug = overflow checks on: usize under/overflow panics instead of wrapping
RULE = ("harness c16: straight-line CKKS programs generated *while being executed* through the public traits on Module<FFT64Ref> "
        "Module<NTT120Ref>, Module<FFT64Avx>, Module<NTT120Avx>; n = 128/256; base2k 19/16 resp. 52/45; "
        "6 registers of unequal limb counts, fresh encryptions of unequal (log_delta, log_budget), 67 op codes (add/sub ct, vec znx/rnx, "
        "const znx/rnx; neg; mul/square/mul-add/mul-sub with ct, vectors, constants; x/: 2^k; rotate with present/missing keys; conjugate; "
        "rescale; align; compaction, reallocation, set_meta_checked; decrypt; add_many, mul_many and the five dot products over register "
        "lists of 0..5 entries) in into/in-place forms, destinations smaller than the natural result, near-limit constants, wild scalars; "
        "one probe program per (repaired or known) finding class and usize-overflow probes; both build profiles. "
        "One record = one program, one output row (status, log_delta, log_budget, limbs) per step, compared bit for bit with run_c16; "
        "distinct = distinct (params, program) lines. Extra phase (value stream): same kind of programs with a shadow complex f64 "
        "evaluation; floor(max slot error * 2^log_delta) per step against the explicit worst-case envelope of Model/C16Oracle.v; "
        "encode->decode identity of the f64 encoder for 2..4096 slots (<= 2 log2(n) + 4 ulps)")
ASSUMPTIONS = [
    "state of /repo: after the CKKS repairs fd924ce, 3326e5c, e31e2c8, 84cafa8, b042dad, 628058f, 18a4236, 1a5cef0, 45bddf7 (the model is faithful to the repaired code)",
    "theorem hypotheses: base2k >= 1; operands satisfy `good` (log_delta + log_budget <= limbs * base2k < 2^62); caller scalars are arbitrary "
    "usize values, plaintext metadata below 2^62 (`wf_op`)",
    "admissible calls (asserted by the layers below, not defects): ckks_encrypt_sk with 1 <= noise k and ceil(k/base2k) <= limbs of the "
    "destination; constants converted by to_znx/to_znx_at_k need k >= 1 (precision (0,0) has no limb); ciphertexts with at least one limb",
    "value theorems (C16_value_*) are over the exact phase model: shifts multiply the phase by powers of two, tensor products multiply "
    "phases; truncation to the destination, noise and wrap-around are measured by the value stream against an explicit worst-case envelope "
    "(derivation in Model/C16Oracle.v), not proved; the f64 rounding of encode/decode is outside every theorem; plaintext values are the "
    "quantised ones (what the plaintext digits really encode, constants wrapped at their encoding precision)",
    "representable magnitude: |coefficient| < 2^(log_budget-1) (1 - 2^-(base2k-2)); balanced base-2^b digits decode the top sliver "
    "[2^(lb-1)(1-2^-b), 2^(lb-1)) as negative values (observed; not counted as a finding)",
    "composites: proved: every Ok and every Err leaves metadata the destination can hold (C16_composite_meta_never_exceeds, "
    "C16_composite_fail_keeps_invariant); their exact Err conditions are checked by the correspondence only (no closed-form spec)",
    "not exercised: f128 plaintexts (f128 is only a dev-dependency of poulpy-ckks); user-built CKKSPlaintextCstZnx (only to_znx / to_znx_at_k outputs); operands that violate the invariant "
    "beyond the one-call quarantine",
]
TRUSTED = ["shadow complex evaluation and decrypt/decode path of harness/src/bin/c16.rs (f64)"]

def _hex(x):
    return -int(x[1:], 16) if x.startswith("-") else int(x, 16)


def classify(record):
    """No known-finding class is left for C16: all nine classes found so far were repaired in /repo
    (fd924ce, 3326e5c, e31e2c8, 84cafa8, b042dad, 628058f, 18a4236, 1a5cef0, 45bddf7).  Every oracle failure is a violation."""
    return None


def extra(ctx, ofails, notes):
    """value stream: shadow complex evaluation against the envelope oracle, and encode->decode identity (oracle only)"""
    from check import HARNESS, OCAML
    binp = HARNESS / "target" / "release" / "c16"
    drv = OCAML / "gen" / "c16" / "drv"
    recs = ctx.harness_gen(binp, "value:" + ctx.tier, ctx.seed, tag="_value")
    lines = recs.read_text().splitlines()
    verdicts = ctx.drive(drv, recs)
    cov = {"value_records": 0, "value_oracle_holds": 0, "value_oracle_fails": 0, "encdec_records": 0,
           "value_steps_measured": 0, "max_err_scaled_by_op": {}}
    for (n, c, o, _) in verdicts:
        line = lines[n - 1]
        code = line.split("#", 1)[0]
        if code == "16003":
            cov["encdec_records"] += 1
        else:
            cov["value_records"] += 1
        if o == 1:
            cov["value_oracle_holds"] += 1
        elif o == 0:
            cov["value_oracle_fails"] += 1
            ofails.append({"profile": "release", "record": line})
        if code == "16002" and not line.split("#")[3].startswith("PANIC"):
            _, _, vs, outs = line.split("#")
            for s, r in zip(vs.split(";"), outs.split(";")):
                op = str(_hex(s.split()[0]))
                rr = [_hex(x) for x in r.split()]
                if len(rr) >= 6 and rr[4] >= 0:
                    cov["value_steps_measured"] += 1
                    m = cov["max_err_scaled_by_op"]
                    m[op] = max(m.get(op, 0), rr[4])
    notes.append("value stream: %d programs, %d measured steps, %d encode/decode records; oracle fails %d" %
                 (cov["value_records"], cov["value_steps_measured"], cov["encdec_records"], cov["value_oracle_fails"]))
    return {"value_tracking": cov}
