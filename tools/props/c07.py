"""C07 — DFT-domain products equal exact negacyclic (bivariate) convolution."""
PROPS_VO = "Props/C07.vo"
PROFILES = ["release"]
RULE = ("harness c07: dft/idft round trip with (step, offset), dft add/sub/copy/add_scaled/zero, svp, vmp (limb_offset, mismatched shapes) "
        "on four backends, N=8..64 (to 1024 in thorough); value classes random / extreme aligned / alternating / sparse inside the backend's "
        "magnitude domain; output observed after idft and compared bit for bit with the exact integer product of the model; "
        "each case run twice from independent garbage fills (flags)")
ASSUMPTIONS = ["inputs generated inside the documented magnitude domain (FFT64: accumulated products below 2^50)",
               "the f64 FFT butterflies and the NTT butterfly network are not proved: their exactness enters through the bit-exact correspondence"]
def classify(record):
    return None

def translate(ctx):
    """regenerate coq/Gen/C07Consts_gen.v (primes, omega, CRT constants, Q_SHIFTED shift, accumulator budgets) from /repo"""
    import importlib, gen_c07
    importlib.reload(gen_c07)
    return {"C07Consts_gen": gen_c07.main()}
