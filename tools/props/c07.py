"""C07 — DFT-domain products equal exact negacyclic (bivariate) convolution."""
PROPS_VO = "Props/C07.vo"
EXTRA_VO = ["Props/C07Net.vo"]
PROFILES = ["release"]
RULE = ("harness c07: dft/idft round trip with (step, offset), dft add/sub/copy/add_scaled/zero, svp, vmp (limb_offset, mismatched shapes) "
        "on four backends, N=8..64 (to 1024 in thorough); value classes random / extreme aligned / alternating / sparse inside the backend's "
        "magnitude domain; output observed after idft and compared bit for bit with the exact integer product of the model; "
        "each case run twice from independent garbage fills (flags)")
ASSUMPTIONS = ["inputs generated inside the documented magnitude domain (FFT64: accumulated products below 2^50)",
               "the f64 FFT rounding-error bound is not proved: FFT64 exactness enters through the bit-exact correspondence (reduced to one numerical hypothesis by C07_fft_exact_if_close); the NTT120 butterfly networks ARE proved (Props/C07Net.v)"]
def classify(record):
    # add_bbb_ref::<Primes31>: Q[k] << 33 is just below 2^64, the u64 sum of two reduced operands wraps
    # (theorem C07_add_bbb_primes31_refuted); not reachable through a backend (Primes30 is hard-wired)
    f = record.split("#")
    if f[0] == "7106" and len(f) > 1 and f[1].split()[1:2] == ["1f"]:
        return "ntt120.add_bbb.primes31_wrap"
    return None

def translate(ctx):
    """regenerate coq/Gen/C07Consts_gen.v (primes, omega, CRT constants, Q_SHIFTED shift, accumulator budgets) from /repo"""
    import importlib, gen_c07
    importlib.reload(gen_c07)
    return {"C07Consts_gen": gen_c07.main()}
