"""C18 — serialisation round-trips; damaged input rejected without corruption."""
import re, subprocess
from pathlib import Path

PROPS_VO = "Props/C18.vo"
EXTRA_VO = ["Model/C18Run.vo"]          # run / oracle are extracted; Props/C18.vo does not depend on them
PROFILES = ["release", "debug"]         # before 206cd69: debug panicked on the usize products of the header, release wrapped and accepted
RULE = ("harness c18: the real write_to / read_from of the 30 serialisable layout types (+ Distribution) through "
        "std::io::Cursor, &[u8] and a 3-bytes-per-call reader (partial read_exact); per type 1-3 parameter sets; receivers of equal, "
        "larger, smaller and re-shaped capacity, with and without a smaller object read first; streams: untampered, "
        "every truncation point of the header region + every field boundary +-1 + points inside the data, every header / wrapper / "
        "count / tag field replaced by {0,1,2^31,2^61,2^64-1,v+-1} (u32: {0,1,2^31,2^32-1,v+-1}; seed counts also 4096, 4097, 2^31, 2^32-1), "
        "factor combinations whose product overflows usize (incl. products that wrap to the honest length), bit flips, trailing bytes; "
        "the receiver is observed through its own write_to under catch_unwind (words written before an error are kept), HAL types also "
        "through public fields (whole buffer); the model must predict outcome, every header / wrapper field and every visible byte; "
        "distinct = distinct (op, type, receiver, stream) lines; honest streams are assembled by the harness from its own field table "
        "(never read back through the library), automorphism keys carry the Galois elements -1 -5 -7 -25 5 25 -3 3 (setter and stream); "
        "the record list is produced in a child process (a crash there leaves the CONSTRUCT records of the grid: alloc + fill + write_to "
        "of each shape as records of their own); the oracle also requires that a stream which IS an honest serialisation fitting the "
        "receiver is accepted and reproduced (READ clause 5)")
ASSUMPTIONS = [
    "64-bit usize; the two integer semantics of the header products are both modelled (dbg flag of each record = the profile of the harness binary)",
    "a single allocation request above 131072 bytes is refused while read_from runs (allocator installed by the harness; `alloc_limit` of the model): "
    "this makes the outcome of `vec![[0u8;32]; seed_len]` with a count from the stream independent of the machine; the unlimited behaviour "
    "is shown by the probe (abort on a 128 GiB request)",
    "receivers are allocated by the library (`alloc`): buffers are padded to 64 bytes and zero-initialised",
    "round-trip theorems quantify over well-formed objects (header products do not overflow, payload within the buffer, Distribution canonical, base2k/dsize non-zero)",
    "composites (GGLWEToGGSWKey, BlindRotationKey, CircuitBootstrappingKey, BDDKey) are read in place: err_leaves_metadata holds per key and for the fields in front, "
    "not for the whole bundle (known finding composite.partial_update_on_error; proposed repair work/proposed_fixes/C18_composites_staged.diff)",
]
TRUSTED = ["the receiver state is read back through the implementation's own write_to (cross-checked against public accessors where they exist, "
           "and against the model's writer on every record)",
           "harness-side table of field widths per type (only used to aim the mutations)"]

VERIF = Path(__file__).resolve().parent.parent.parent
DRV = VERIF / "ocaml" / "gen" / "c18" / "drv"

# type codes of harness/src/bin/c18.rs and coq/Model/C18Run.v
TYPES = {
    "VecZnx": 1, "ScalarZnx": 2, "MatZnx": 3, "GLWE": 10, "LWE": 11, "GLWECompressed": 12, "LWECompressed": 13, "GGLWE": 14, "GGSW": 15,
    "GGLWECompressed": 16, "GGSWCompressed": 17, "GLWESwitchingKey": 18, "GLWEAutomorphismKey": 19, "GLWETensorKey": 20, "LWEToGLWEKey": 21,
    "LWESwitchingKey": 22, "GLWEToLWEKey": 23, "GLWESwitchingKeyCompressed": 24, "GLWEAutomorphismKeyCompressed": 25,
    "GLWETensorKeyCompressed": 26, "LWEToGLWEKeyCompressed": 27, "LWESwitchingKeyCompressed": 28, "GLWEToLWESwitchingKeyCompressed": 29,
    "GLWEPublicKey": 30, "GGLWEToGGSWKey": 40, "GGLWEToGGSWKeyCompressed": 41, "BlindRotationKey": 42, "BlindRotationKeyCompressed": 43,
    "CircuitBootstrappingKey": 50, "BDDKey": 51,
}
LEAF = {1: "vec_znx", 2: "scalar_znx", 3: "mat_znx", 10: "vec_znx", 11: "vec_znx", 12: "vec_znx", 13: "vec_znx", 30: "vec_znx"}


def _hex(x):
    return -int(x[1:], 16) if x.startswith("-") else int(x, 16)


def translate(ctx):
    """ties to the source text, recomputed on every run: the set of serialisable types, no backend in any codec, constants"""
    repo = Path("/repo")
    impls = {"ReaderFrom": set(), "WriterTo": set()}
    with_backend = []
    for f in repo.rglob("*.rs"):
        if "target" in f.parts:
            continue
        try:
            src = f.read_text()
        except Exception:
            continue
        for m in re.finditer(r"impl\s*(<[^{]*?>)?\s*(ReaderFrom|WriterTo)\s+for\s+(\w+)\s*(<[^{]*?>)?\s*(where[^{]*)?\{", src):
            impls[m.group(2)].add(m.group(3))
            if re.search(r"\bBackend\b|\bBE\b", (m.group(1) or "") + (m.group(4) or "") + (m.group(5) or "")):
                with_backend.append(f"{f.relative_to(repo)}:{m.group(3)}")
    modelled = set(TYPES)
    info = {
        "serialisable_types_in_repo": sorted(impls["ReaderFrom"] | impls["WriterTo"]),
        "unmodelled_types": sorted((impls["ReaderFrom"] | impls["WriterTo"]) - modelled),
        "modelled_but_absent": sorted(modelled - (impls["ReaderFrom"] | impls["WriterTo"])),
        "reader_without_writer": sorted(impls["ReaderFrom"] ^ impls["WriterTo"]),
        "codec_impls_mentioning_a_backend": with_backend,
    }
    lib = (repo / "poulpy-hal/src/lib.rs").read_text()
    m = re.search(r"pub const DEFAULTALIGN: usize = (\d+);", lib)
    info["DEFAULTALIGN"] = int(m.group(1)) if m else None
    dist = (repo / "poulpy-core/src/dist.rs").read_text()
    info["distribution_tags"] = {a: int(b) for a, b in re.findall(r"const TAG_(\w+): u8 = (\d+);", dist)}
    want_tags = {"TERNARY_FIXED": 0, "TERNARY_PROB": 1, "BINARY_FIXED": 2, "BINARY_PROB": 3, "BINARY_BLOCK": 4, "ZERO": 5, "NONE": 6}
    for k, v in info.items():
        if k in ("unmodelled_types", "modelled_but_absent", "codec_impls_mentioning_a_backend") and v:
            ctx.notes.append(f"C18 translate: {k} = {v}")
    if info["DEFAULTALIGN"] != 64:
        ctx.notes.append("C18 translate: DEFAULTALIGN is not 64: the capacity rule of Model/C18Run.v (pad64) no longer matches")
    if info["distribution_tags"] != want_tags:
        ctx.notes.append("C18 translate: Distribution tags differ from the model (dist_decode)")
    return info


# ------------------------------------------------------------------------------------------------
_clauses = {}      # record line (without outputs) -> set of failing clause digits


def _drive(lines):
    tmp = VERIF / "work" / "c18" / "clauses_in.txt"
    tmp.write_text("\n".join(lines) + "\n")
    out = subprocess.run([str(DRV), str(tmp)], stdout=subprocess.PIPE, text=True, timeout=1200).stdout.splitlines()
    return [l.split(" ", 3) for l in out]


def _clause_codes(code):
    return {18001: [18011, 18012, 18013, 18014, 18015, 18016], 18003: [18031, 18032, 18033, 18034, 18035, 18036]}.get(code, [])


def _eval_clauses(records):
    """which single clauses of the oracle fail on each record (the oracle in Coq stays the authority)"""
    todo, idx = [], []
    for r in records:
        code, rest = r.split("#", 1)
        if r in _clauses:
            continue
        for c in _clause_codes(int(code)):
            todo.append(f"{c}#{rest}")
            idx.append((r, str(c)[-1]))
        _clauses.setdefault(r, set())
    if not todo:
        return
    for (r, digit), v in zip(idx, _drive(todo)):
        if len(v) >= 3 and v[2] == "0":
            _clauses[r].add(digit)


def classify(record):
    try:
        code_s, ps_s, vs_s, outs = record.split("#", 3)
        code = int(code_s)
        ps = [_hex(x) for x in ps_s.split()]
    except Exception:
        return None
    if code == 18004:
        tag, pay = ps[0], ps[1]
        if outs.startswith("PANIC"):
            return None
        if tag in (1, 3):
            return "Distribution.f64.low8bits" if pay % 256 != 0 else None
        if tag in (0, 2, 4):
            return "Distribution.payload_ge_2^56" if pay >= 1 << 56 else None
        return None
    if code not in (18001, 18003):
        return None
    tcode = ps[2]
    leaf = LEAF.get(tcode, "mat_znx")
    if outs.startswith("PANIC"):
        if outs.startswith("PANIC:attempt to multiply with overflow"):
            return f"{leaf}.read_from.header_overflow"
        if outs.startswith("PANIC:abort") and "memory allocation" in outs:
            return "compressed.seed_len_unbounded_alloc"
        return None
    if record not in _clauses:
        _eval_clauses([record])
    failing = _clauses.get(record, set())
    keys = []
    for c in sorted(failing):
        if c == "1":
            keys.append(f"{leaf}.read_from.header_overflow")
        elif c == "2":
            keys.append("vec_znx.read_from.max_size_unchecked" if leaf == "vec_znx" else None)
        elif c == "3":
            # composites: known only when the metadata of the composite itself (dist, counts, Galois elements, ks_glwe tag:
            # clause 6) is unchanged and only sub-keys 0..k-1 have been replaced; a changed dist / count is never known
            keys.append(None if tcode < 10 else "wrapper.commit_before_inner_read" if tcode < 40
                        else "composite.partial_update_on_error" if "6" not in failing else None)
        elif c == "6":
            if tcode >= 40:
                keys.append(None)      # dist / counts / Galois elements of the composite changed although read_from failed
            # HAL types and wrappers: clause 6 is clause 3
        elif c == "4":
            keys.append("wrapper.zero_base2k_dsize_accepted" if tcode >= 10 else None)
        else:
            keys.append(None)          # the round trip itself is broken: never a known class
    if not keys or any(k is None for k in keys):
        return None
    return keys[0]


def extra(ctx, ofails, notes):
    cov = {}
    # 1. a panic / abort of read_from is a failure of the property (the generic driver reports it as "not applicable")
    npanic = 0
    for prof in PROFILES:
        cands = [x for x in (ctx.work / f"records_{prof}.txt", ctx.work / f"records_replay_{prof}.txt") if x.exists()]
        if not cands:
            continue
        f = max(cands, key=lambda x: x.stat().st_mtime)       # the file this run has just written (generated or replayed)
        for line in f.read_text().splitlines():
            if "#PANIC" in line:
                ofails.append({"profile": prof, "record": line})
                npanic += 1
    cov["implementation_panics_or_aborts"] = npanic
    # 2. clause of every failing record, in one batch
    _eval_clauses([f["record"] for f in ofails if not f["record"].split("#", 3)[3].startswith("PANIC")])
    hist = {}
    for f in ofails:
        k = classify(f["record"]) or "UNCLASSIFIED"
        hist[k] = hist.get(k, 0) + 1
    cov["failure_classes"] = hist
    # 3. the unchecked seed count without the harness's allocation limit: a 20-byte stream asks for 128 GiB
    binp = VERIF / "harness" / "target" / "release" / "c18"
    if binp.exists():
        try:
            p = subprocess.run([str(binp), "probe", "16", "4294967295"], env={"C18_NOLIMIT": "1", "PATH": "/usr/bin:/bin"},
                               stdout=subprocess.PIPE, stderr=subprocess.PIPE, text=True, timeout=120)
            cov["seed_len_probe"] = {"returncode": p.returncode, "stdout": p.stdout.strip()[:200],
                                     "stderr": (p.stderr.strip().splitlines() or [""])[0][:200]}
            p = subprocess.run([str(binp), "zero"], stdout=subprocess.PIPE, stderr=subprocess.PIPE, text=True, timeout=120)
            cov["zero_radix_probe"] = p.stdout.strip().splitlines()
        except Exception as e:
            notes.append(f"probe failed to run: {e}")
    return cov


def search(ctx, diffs):
    """widened search when a proof or the correspondence broke: other seeds and the thorough generator, looking for an
    input on which the property itself (oracle) fails outside the known classes"""
    import check
    known = {k["key"] for k in check.load_known() if k["property"] == "C18" and k.get("status") == "known"}
    for prof in PROFILES:
        binp = VERIF / "harness" / "target" / ("release" if prof == "release" else "debug") / "c18"
        if not binp.exists() or not DRV.exists():
            continue
        for tier, seed in [("quick", 2), ("quick", 3), ("thorough", 4)]:
            try:
                recs = ctx.harness_gen(binp, tier, seed, tag=f"_search_{prof}")
                lines = recs.read_text().splitlines()
                verdicts = ctx.drive(DRV, recs)
            except Exception:
                continue
            bad = [lines[n - 1] for (n, c, o, _) in verdicts if o == 0] + [l for l in lines if "#PANIC" in l]
            _eval_clauses([b for b in bad if "#PANIC" not in b])
            for b in bad:
                if classify(b) not in known:
                    return {"property": "C18", "kind": "oracle-failure-found-by-search", "profile": prof, "tier": tier, "seed": seed,
                            "records": [b.rsplit("#", 1)[0] + "#"], "observed": b[:2000],
                            "replay_cmd": "python3 tools/check.py C18 --replay <this file>"}
    return None
