"""C12 - declared scratch size always suffices; scratch contents never matter."""
import json, sys
from pathlib import Path

VERIF = Path(__file__).resolve().parent.parent.parent
sys.path.insert(0, str(VERIF / "tools"))

PROPS_VO = "Props/C12.vo"
EXTRA_VO = ["Model/C12Run.vo"]
PROFILES = ["release"]
RULE = ("harness c12: (i) formula records 120xx/121xx: every translated public *_tmp_bytes is called on the real crates "
        "(4 backends, n in {1,2,4,8,16,64}, odd limb counts, dsize 1..3, cross-radix) and must equal the value of the Gallina "
        "formula GENERATED from the same source; (ii) exact-window records 125xx/126xx: the operation runs with a scratch of "
        "EXACTLY tmp_bytes bytes at a 64-aligned address inside a canary-filled allocation, the observed panic class "
        "(none / 'Attempted to take' / 'scratch.available() <') must equal fail_kind of the hand-written take tree; "
        "(iii) independence records 127xx/128xx (extra phase): two different garbage fills, outputs compared byte for byte, with operand "
        "shapes in which every temporary is only PARTIALLY overwritten by the inputs (plaintext container shorter / longer than the "
        "ciphertext, result shorter / longer than the operands and than the key, ranks 0..3, cross radix); this phase also runs the "
        "operations that have no take tree (oracle only): automorphism-key automorphism, tensor add_assign, mul_plain(_assign), "
        "mul_const_assign, 23 CKKS leveled operations incl. the composites (mul_add / mul_sub / dot_product / mul_many / add_many) and the constant "
        "operations (mul / add / mul_add _pt_const_rnx_into with real-only, imaginary-only and complex constants), every `_into` with a destination of "
        "more, equal and fewer limbs than the operands and plaintext log_delta below / equal / above the ciphertext's (operations that reject "
        "their operands with Err are recorded by a marker; "
        "reference backends), CGGI blind rotation (key encryption, preparation, execute), circuit bootstrapping (constant and exponent "
        "mode), cmux / cmux_assign / cmux_assign_neg, fhe_uint preparation (prepare_custom and prepare_custom_multi_thread with 1..3 "
        "threads on exactly threads * fhe_uint_prepare_tmp_bytes bytes). Modelled with take trees since the deepening: LWE key-switch and "
        "LWE<->GLWE conversions, glwe_pack, GGSW key-switch / automorphism / expansion, tensor relinearize / square, the nine key / "
        "matrix encryption routines, the seven seeded (compressed) encryptions, the cmux family and the FheUint two-word operations through "
        "their _multi_thread entry point (add and slt at the crate's test parameter set, threads in {1,2,3,4,5,8,9,12,16,17,31,32,33}, scratch of "
        "exactly <op>_multi_thread_tmp_bytes bytes; the executor's threads x per-thread split is a take tree, the worker body a theorem). "
        "distinct = distinct (op, backend, shape)")
ASSUMPTIONS = [
    "take trees are hand transcriptions of the Rust control flow; they are tied to the implementation by the exact-window "
    "records (panic class predicted for every generated shape), not by a take-log hook",
    "base address of the scratch is 64-byte aligned (what ScratchOwned::alloc returns)",
    "usize arithmetic of the size formulas does not overflow (formulas are over Z)",
    "release profile only: debug_assert!s are compiled out",
]
TRUSTED = [
    "tools/gen_c12.py (Rust-subset parser + call-resolution table; guarded by the formula-value records on all 4 backends)",
]

OPN = {1: "vec_znx_normalize", 2: "vec_znx_normalize_assign", 3: "vec_znx_rsh", 4: "vec_znx_rsh_assign", 5: "vec_znx_lsh",
       6: "vec_znx_lsh_assign", 7: "vec_znx_rsh_add_into", 8: "vec_znx_lsh_add_into", 9: "vec_znx_rsh_sub", 10: "vec_znx_lsh_sub",
       11: "vec_znx_rotate_assign", 12: "vec_znx_automorphism_assign", 13: "vec_znx_mul_xp_minus_one_assign", 14: "vec_znx_split_ring",
       20: "vec_znx_big_normalize", 21: "vec_znx_big_automorphism_assign", 30: "vmp_prepare", 31: "vmp_apply_dft_to_dft",
       32: "vmp_apply_dft", 40: "vec_znx_idft_apply", 50: "cnv_prepare_left", 51: "cnv_prepare_right", 52: "cnv_prepare_self",
       60: "scratch_split_mut", 53: "cnv_apply_dft", 54: "cnv_by_const_apply", 55: "cnv_pairwise_apply_dft",
       101: "lwe_encrypt_sk", 102: "lwe_decrypt", 103: "glwe_encrypt_sk", 104: "glwe_encrypt_pk", 105: "glwe_decrypt",
       106: "glwe_keyswitch", 107: "glwe_keyswitch_assign", 108: "glwe_external_product", 109: "glwe_external_product_assign",
       110: "glwe_automorphism", 111: "glwe_automorphism_add", 112: "glwe_trace", 113: "glwe_normalize", 114: "glwe_rsh",
       115: "glwe_rotate_assign", 116: "glwe_mul_const", 117: "glwe_lsh_assign", 118: "glwe_public_key_generate", 119: "glwe_trace_assign", 120: "gglwe_prepare", 121: "ggsw_prepare", 122: "gglwe_keyswitch",
       123: "gglwe_external_product", 124: "ggsw_external_product", 125: "glwe_mul_plain", 126: "glwe_tensor_apply",
       130: "gglwe_encrypt_sk", 131: "ggsw_encrypt_sk", 132: "glwe_switching_key_encrypt_sk", 133: "glwe_automorphism_key_encrypt_sk",
       134: "glwe_tensor_key_encrypt_sk", 135: "gglwe_to_ggsw_key_encrypt_sk", 136: "lwe_switching_key_encrypt_sk",
       137: "glwe_to_lwe_key_encrypt_sk", 138: "lwe_to_glwe_key_encrypt_sk", 140: "ggsw_keyswitch", 141: "ggsw_automorphism",
       142: "glwe_automorphism_key_automorphism", 143: "lwe_keyswitch", 144: "glwe_from_lwe", 145: "lwe_from_glwe", 146: "ggsw_from_gglwe",
       147: "glwe_pack", 148: "glwe_tensor_relinearize", 149: "glwe_tensor_square_apply", 150: "glwe_mul_plain_assign",
       151: "glwe_mul_const_assign", 152: "glwe_tensor_apply_add_assign",
       160: "ckks_encrypt_sk", 161: "ckks_decrypt", 162: "ckks_add", 163: "ckks_mul", 164: "ckks_square", 165: "ckks_mul_pt_vec_znx",
       166: "ckks_rescale", 167: "ckks_rotate", 168: "ckks_conjugate", 169: "ckks_mul_pow2", 170: "ckks_div_pow2",
       171: "ckks_add_pt_vec_znx", 172: "ckks_neg", 173: "ckks_align", 174: "ckks_sub", 175: "ckks_mul_add_ct",
       176: "ckks_mul_sub_ct", 177: "ckks_dot_product_ct", 178: "ckks_mul_many", 179: "ckks_add_many",
       180: "blind_rotation_key_encrypt_sk", 181: "blind_rotation_key_prepare", 182: "blind_rotation_execute",
       183: "circuit_bootstrapping_execute", 184: "cmux", 185: "fhe_uint_prepare_custom", 186: "fhe_uint_prepare_custom_multi_thread", 187: "fhe_uint_2w_to_1w_multi_thread",
       190: "glwe_compressed_encrypt_sk", 191: "gglwe_compressed_encrypt_sk", 192: "ggsw_compressed_encrypt_sk",
       193: "glwe_switching_key_compressed_encrypt_sk", 194: "glwe_automorphism_key_compressed_encrypt_sk",
       195: "glwe_tensor_key_compressed_encrypt_sk", 196: "gglwe_to_ggsw_key_compressed_encrypt_sk",
       197: "ckks_mul_pt_const_rnx_into", 198: "ckks_add_pt_const_rnx_into", 199: "ckks_mul_add_pt_const_rnx_into"}


def _parse(record):
    f = record.strip().split("#")
    code = int(f[0])
    ps = [int(x, 16) for x in f[1].split()]
    outs = f[3] if len(f) > 3 else ""
    o = None if (outs.startswith("PANIC") or not outs.strip()) else [int(x, 16) for x in outs.split(";")[0].split()]
    return code, ps, o


def classify(record):
    """key of the known-finding class a failing record belongs to: "<operation>.<side-condition class>" """
    try:
        code, ps, o = _parse(record)
    except Exception:
        return None
    if o is None or code < 12500:
        return None
    op = code - 12500 if code < 12700 else code - 12700
    name = OPN.get(op)
    if name is None or len(o) < 3:
        return None
    be, n = ps[0], ps[1]
    ntt = be >= 3
    kind, can = o[1], o[2]
    eq = o[3] if len(o) > 3 else 1
    if can != 1 or kind == 3:
        return None                      # canary damage / foreign panics are never a known class
    if kind == 0:
        return f"{name}.scratch_dependent" if eq == 0 else None
    if op == 60:
        return "scratch_split_mut.unaligned_len"
    if n < 8:
        return f"{name}.small_n_unaligned"
    if op in (163, 164, 175, 176, 177, 178) and len(ps) > 5 and 0 < ps[5] < ps[3]:
        return "ckks_mul.operands_larger_than_res"     # ps = [be n base2k k_ct log_delta k_dst ..]
    return f"{name}.unclassified"


def translate(ctx):
    import gen_c12
    try:
        return gen_c12.main()
    except gen_c12.TranslateError as e:
        # a formula left the supported subset: the generated file is left untouched (stale) and the run must not pass
        ctx.notes.append("TRANSLATION FAILED: " + str(e))
        out = gen_c12.OUT
        out.write_text("(* translation failed: " + str(e).replace("*)", "* )") + " *)\nTranslation_of_tmp_bytes_failed.\n")
        return {"error": str(e)}


def _phase(ctx, tier, tag):
    import check
    drv = check.build_driver("C12")
    binp = check.HARNESS / "target" / "release" / "c12"
    recs = ctx.harness_gen(binp, tier, ctx.seed, tag=tag)
    lines = recs.read_text().splitlines()
    verdicts = ctx.drive(drv, recs)
    return lines, verdicts


def extra(ctx, ofails, notes):
    """independence phase: every (op, shape) run twice with two different garbage fills of the exact window;
    also covers shapes whose take tree is not modelled (oracle only)"""
    lines, verdicts = _phase(ctx, "indep-" + ("thorough" if ctx.tier == "thorough" else "quick"), "_indep")
    st = {"records": 0, "holds": 0, "fails": 0, "unmodelled": 0}
    for (n, c, o, extra_) in verdicts:
        st["records"] += 1
        if c == "none":
            st["unmodelled"] += 1
        if o == 1:
            st["holds"] += 1
        elif o == 0:
            st["fails"] += 1
            ofails.append({"profile": "release", "record": lines[n - 1]})
    notes.append(f"independence phase: {st}")
    return {"independence_phase": st}


def search(ctx, diffs):
    """proof or correspondence broke: look for an input on which the property statement itself fails and that is
    not a known class - the thorough grid of both phases, preferring aligned ring degrees"""
    import check
    known = {k["key"] for k in check.load_known() if k["property"] == "C12"}
    found = []
    for tier, tag in (("thorough", "_search"), ("indep-thorough", "_search_indep")):
        try:
            lines, verdicts = _phase(ctx, tier, tag)
        except Exception as e:   # the harness may not even run any more
            ctx.notes.append("search: " + str(e)[:300])
            continue
        for (n, c, o, extra_) in verdicts:
            if o == 0:
                key = classify(lines[n - 1])
                if key not in known:
                    found.append((key, lines[n - 1]))
        if found:
            break
    if not found:
        return None
    found.sort(key=lambda kl: (len(kl[1]), kl[1]))   # smallest record first
    key, line = found[0]
    return {"property": "C12", "kind": "search-found", "class": key,
            "what": "exact-size scratch window: the operation panics / damages a canary / depends on the scratch contents",
            "records": [line.rsplit("#", 1)[0] + "#"], "observed": line, "other_failures": len(found) - 1,
            "replay_cmd": "python3 tools/check.py C12 --replay <this file>"}
