"""C11 — outputs fully determined by inputs: no stale data, no stray writes."""
PROPS_VO = "Props/C11.vo"
PROFILES = ["release"]
RULE = ("harness c11: every flat-memory operation of C08 (normalise, lsh/rsh families) and C09 (ring operations) run as a PAIR from two "
        "different garbage fills of the whole destination buffer (1..3 columns, every target column, capacity beyond the active size), "
        "plus the DFT-domain operations of C07 (dft apply/copy/add/sub/scaled/zero, svp, vmp with offsets past the end) with their own "
        "two-fill flags; the model predicts both whole result buffers; the oracle requires: words outside the selected column unchanged "
        "in both runs, selected column identical in both runs")
ASSUMPTIONS = ["operations not yet in the list (convolution, core-level operations) are covered by their own properties' checks"]
def classify(record):
    return None
