"""C11 — outputs fully determined by inputs: no stale data, no stray writes."""
PROPS_VO = "Props/C11.vo"
PROFILES = ["release"]
RULE = ("harness c11: every flat-memory operation of C08 (normalise, lsh/rsh families) and C09 (ring operations) run as a PAIR from two "
        "different garbage fills of the whole destination buffer (1..3 columns, every target column, capacity beyond the active size), "
        "plus the DFT-domain operations of C07 (dft apply/copy/add/sub/scaled/zero, svp, vmp with offsets past the end) with their own "
        "two-fill flags; the model predicts both whole result buffers; the oracle requires: words outside the selected column unchanged "
        "in both runs, selected column identical in both runs")
ASSUMPTIONS = ["operations not yet in the list (convolution, core-level operations) are covered by their own properties' checks"]
def classify(record):
    return None


def search(ctx, diffs):
    """Model and implementation disagree on some records but C11's own oracle (frame + independence of the prior content)
    holds on them: the clause "the column index arguments are honoured" is the operation's own statement, so evaluate the
    owning property's spec-level oracle (C08 / C09 for the pair records, C05 / C07 for the pass-through ones) on the
    implementation's output of the disagreeing records."""
    import check
    groups = {}
    for d in diffs[:400]:
        line = d["record"]
        try:
            code_s, ps, vs, outs = line.split("#", 3)
            code = int(code_s)
        except ValueError:
            continue
        if outs.startswith("PANIC"):
            continue
        if code >= 110000:
            c = code - 110000
            owner = "C08" if 8000 <= c < 9000 else "C09"
            base = f"{c}#{ps}#{';'.join(vs.split(';')[:-1])}#{outs.split(';')[0]}"
        else:
            owner = "C05" if 5000 <= code < 6000 else "C07"
            base = line
        groups.setdefault(owner, []).append((base, line))
    for owner, items in groups.items():
        drv = check.build_driver(owner)
        f = ctx.work / f"search_{owner}.txt"
        f.write_text("\n".join(b for b, _ in items) + "\n")
        for (n, c, o, extra) in ctx.drive(drv, f):
            if o == 0:
                base, line = items[n - 1]
                return {"property": "C11", "kind": "oracle-failure",
                        "what": f"model and implementation disagree on this record and {owner}'s spec-level statement of the operation "
                                "(exact map of the SELECTED operand columns into the selected result column) is false on the implementation's "
                                "output: the column index arguments are not honoured / the output is not the function of the inputs the "
                                "operation defines",
                        "records": [line.rsplit("#", 1)[0] + "#"], "observed": line, "owner_record": base,
                        "replay_cmd": "python3 tools/check.py C11 --replay <this file>"}
    return None
