"""C14 - blind rotation evaluates the lookup table at the encrypted index."""
PROPS_VO = "Props/C14.vo"
EXTRA_VO = ["Model/C14Oracle.vo"]
PROFILES = ["release"]
RULE = ("harness c14: CLEAR PATH (4 backends, N in {8,16,32}, ext in {1,2,4,8}, 7 radix/precision combinations with the message in the "
        "first or a lower limb, scale 1 and > 1, every table length 2^i <= N plus rejected / non-dividing lengths): 14001 table after "
        "set (all limbs of all ext polynomials + drift), 14002 whole table after set;rotate(k), 14003 limbs of coefficient 0 after "
        "set;rotate(k) for EVERY k in [-2N ext, 2N ext) (both directions; N=8 all radices, N=16 and N=32/ext<=2 at the crate's radix, sampled "
        "otherwise in the quick tier, everything in the thorough tier) plus k beyond +-2N ext and i64::MIN/MAX; 14004 mod_switch_2n called "
        "directly: exhaustive first limb x second limb for 2N ext in {2..64}, radix 1..7, both directions, and boundary dictionaries at the "
        "real sizes; BLIND PATH: 14010 blind rotation with an all-zero mask (exact, noise free, every limb of the GLWE compared, every index at "
        "N=8, standard / block / extended paths, BinaryBlock / BinaryFixed / BinaryProb / ZERO keys); 14020 real keys at the crate's test "
        "parameters (N=512, n_lwe=224, radix 19) and a second set (N=256, n_lwe=96, GLWE radix 17, LWE radix 14): EVERY message of "
        "Z_{2^(p+1)} (p = 1..3 quick, 1..5 thorough; the upper half exercises the negacyclic sign), block sizes 1, 4, 7, ext 1..8, both "
        "directions, 1-3 keys, fresh encryptions, plus noise-free ciphertexts whose mod-switched mask takes boundary values; the decrypted "
        "accumulator is rounded to the table precision F = lut.size()*base2k bits (noise floor: 2^-(F+1)) and compared on all N coefficients "
        "with the model's accumulator phase; oracle = closed-form table rule / rounding rule (Model/C14Oracle.v).  The table limbs are read "
        "through a layout mirror of LookupTable (no public accessor exists); 14010 reads them through the public API only.")
ASSUMPTIONS = [
    "release-mode (wrapping) integer semantics",
    "blind path: the external product is abstracted by its phase equation (Section hypothesis external_product_phase, owned by C04); "
    "the executable phase model drops the noise term, the comparison with the implementation is exact on the F most significant bits "
    "(noise below 2^-(F+1) at the parameter sets used: observed on every record of every run)",
    "set_xai_plus_y is pub(crate): modelled and proved, exercised only through the block-binary blind rotations",
    "LookupTable limbs read through a field-for-field mirror struct (guarded by size/align and every public getter; cross-validated by 14010)",
]
TRUSTED = ["harness-side rounding of the decrypted plaintext to F bits (c14.rs, 10 lines)"]


def _parse(record):
    f = record.rstrip("\n").split("#")
    code = int(f[0])
    ps = [int(x, 16) for x in f[1].split()]
    vs = [[int(x, 16) for x in v.split()] for v in f[2].split(";")] if f[2].strip() else []
    outs = f[3] if len(f) > 3 else ""
    o = None if (outs.startswith("PANIC") or not outs.strip()) else [[int(x, 16) for x in v.split()] for v in outs.split(";")]
    return code, ps, vs, o


def classify(record):
    """key of the known-finding class a failing record belongs to"""
    try:
        code, ps, vs, o = _parse(record)
    except Exception:
        return None
    if o is None:
        return None
    if code == 14004:
        n2, b = ps[0], ps[1]
        log2n = (n2 - 1).bit_length() + 1
        # second branch of mod_switch_2n: lwe radix <= log2(2N ext) + 1
        return "mod_switch_2n.small_radix" if b <= log2n else None
    if code == 14020:
        n, ext, dist = ps[1], ps[2], ps[14]
        if ext > 1 and dist == 0 and len(vs) >= 3 and len(o) >= 1:
            t = 2 * n * ext
            for a, s in zip(o[0][1:], vs[2]):
                if s == 1:
                    hi, lo = divmod(a % t, ext)
                    if lo != 0 and (hi == 0 or hi == 2 * n - 1):
                        return "cggi.extended.unit_monomial_skipped"
        return None
    return None
