"""C14 - blind rotation evaluates the lookup table at the encrypted index."""
PROPS_VO = "Props/C14.vo"
EXTRA_VO = ["Model/C14Oracle.vo"]
PROFILES = ["release"]
RULE = ("harness c14: CLEAR PATH (4 backends, N in {8,16,32}, ext in {1,2,4,8}, 7 radix/precision combinations with the message in the "
        "first or a lower limb, scale 1 and > 1, every table length 2^i <= N plus rejected / non-dividing lengths): 14001 table after "
        "set (all limbs of all ext polynomials + drift), 14002 whole table after set;rotate(k), 14003 limbs of coefficient 0 after "
        "set;rotate(k) for EVERY k in [-2N ext, 2N ext) (both directions; N=8 all radices, N=16 and N=32/ext<=2 at the crate's radix, sampled "
        "otherwise in the quick tier, everything in the thorough tier) plus k beyond +-2N ext and i64::MIN/MAX; 14005 configuration HISTORIES: every word of length <= 3 (and sampled words of length 4-5) over {set_rotation_direction(Left), set_rotation_direction(Right), set(f1,k1), set(f2,k2)} from a fresh table, observed through rotation_direction() and the verif accessors (limbs, drift); 14021 the same histories followed by a blind rotation (standard / block / extended, 3 messages, decrypted); 14004 mod_switch_2n called "
        "directly: exhaustive first limb x second limb for 2N ext in {2..64}, radix 1..7, both directions, and boundary dictionaries at the "
        "real sizes, every combination of ALL limbs for radix 1..3 and 2..4 limbs; BLIND PATH: 14010 blind rotation with an all-zero mask (exact, noise free, every limb of the GLWE compared, every index at "
        "N=8, standard / block / extended paths, BinaryBlock / BinaryFixed / BinaryProb / ZERO keys); 14020 real keys at the crate's test "
        "parameters (N=512, n_lwe=224, radix 19) and a second set (N=256, n_lwe=96, GLWE radix 17, LWE radix 14): EVERY message of "
        "Z_{2^(p+1)} (p = 1..3 quick, 1..5 thorough; the upper half exercises the negacyclic sign), block sizes 1, 4, 7, ext 1..8, both "
        "directions, 1-3 keys (thorough: 3 keys, p = 1..5 for every variant including ext 8), fresh encryptions, plus noise-free ciphertexts whose mod-switched mask takes boundary values, plus the x_pow_a sweep (N = 8, 16, block-binary and extended: every value a in [0, 2N ext) of the selected mask coefficients, i.e. every monomial prepared by the pub(crate) set_xai_plus_y); the decrypted "
        "accumulator is rounded to the table precision F = lut.size()*base2k bits (noise floor: 2^-(F+1)) and compared on all N coefficients "
        "with the model's accumulator phase; oracle = closed-form table rule / rounding rule (Model/C14Oracle.v).  The table limbs are read "
        "through the verif accessors (feature c14hook) or a layout mirror of LookupTable; 14010 reads them through the public API only.")
ASSUMPTIONS = [
    "release-mode (wrapping) integer semantics",
    "blind path: the external product is abstracted by its phase equation (hypothesis external_product_phase; C14_external_product_phase_from_C04 derives it from C04 given the GGSW-cell statement of the key and a bound on gadget_err); block / extended variants also assume the per-block update equation (block_update_phase / ext_block_update_phase: DFT-domain linearity + normalisation); "
    "the executable phase model drops the noise term, the comparison with the implementation is exact on the F most significant bits "
    "(noise below 2^-(F+1) at the parameter sets used: observed on every record of every run)",
    "set_xai_plus_y is pub(crate) (only use: x_pow_a[i] = X^i of a prepared BinaryBlock key): modelled and proved, every entry exercised through the block-binary / extended blind rotations of the x_pow_a sweep",
    "LookupTable limbs read through the cfg(poulpy_verif) accessors when the harness is built with the cargo feature c14hook, otherwise "
    "through a field-for-field mirror struct (guarded by size/align and every public getter; cross-validated by 14010)",
]
TRUSTED = ["harness-side rounding of the decrypted plaintext to F bits (c14.rs, 10 lines)"]


def classify(record):
    """no open finding class (mod_switch_2n.small_radix fixed by /repo e75ed0e, cggi.extended.unit_monomial_skipped by acfeda9)"""
    return None
