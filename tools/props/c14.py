"""C14 — blind rotation evaluates the lookup table at the encrypted index."""
PROPS_VO = "Props/C14.vo"
EXTRA_VO = ["Model/C14Oracle.vo"]
PROFILES = ["release"]
RULE = "tbd"
ASSUMPTIONS = []
def classify(record):
    return None
