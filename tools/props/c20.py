"""C20 — thread count and scheduling never change results."""
PROPS_VO = "Props/C20.vo"
PROFILES = ["release"]
RULE = "stub"
ASSUMPTIONS = []

def classify(record):
    return None
