"""C20 — thread count and scheduling never change results.

Besides the configuration read by tools/check.py this file carries the mutation self-test:

    python3 tools/props/c20.py selftest            # all built-in mutations
    python3 tools/props/c20.py selftest floor_div  # one of them
    python3 tools/props/c20.py selftest-sched      # interleaving-dependent mutation: yield hook + forced schedules

which copies /repo to /tmp/c20_mut (never touching /repo), applies a mutation there, builds a temporary copy of the
harness crate against the copy, runs harness + extracted model/oracle and reports what is flagged; everything it
created is deleted afterwards.
"""
import json, os, re, shutil, subprocess, sys
from pathlib import Path

PROPS_VO = "Props/C20.vo"
EXTRA_VO = []
PROFILES = ["release"]
RULE = ("harness c20, every record produced by the real multi-threaded entry points: 20001 (items,threads) -> which OS thread asks "
        "for which circuit index (logging GetBitCircuitInfo, no work), all pairs of a square + random larger + degenerate 0s; "
        "20002 which item's result lands in which output slot (one real Cmux per item, N=16/64, garbage-prefilled outputs, tail slots); "
        "20003 fhe_uint_prepare_custom_multi_thread at the test parameter set: every thread count 1..40, 64, 2*cores for the full word and "
        "a covering subset (thorough: all 528) of (start,length) with cycling thread counts, result compared bit for bit, per bit, with the "
        "single-threaded full preparation, garbage-prefilled receiver; 20004 ten circuit wrappers x thread counts vs single-threaded raw limbs; "
        "20005 N threads on one shared Module + prepared keys + read-only operands with private scratch (nested multi-threaded calls) vs alone; "
        "20013 ONE module + prepared BDD/CBT key shared, sequentially (every ordered pair) and concurrently (every unordered pair, triples..sextuples), by workloads with different per-call parameters (integer preparation log_domain=1 next to execute_to_constant log_domain=2/3, two other output GGSW layouts, extension factor 2, exponent mode with two domains/layouts), each bit-identical to its solo run on a freshly built identical key; "
        "20006 addresses of the windows of the real Scratch::split_mut; 20007 the documented scratch sizing with nothing added. "
        "With the harness feature c20hook (yield hook work/proposed_hooks/c20_yield.diff in /repo): 20008/20009 the (site, thread_idx, item) "
        "events of an undisturbed evaluation / preparation, grouped by thread_idx, predicted from chunks / chunks_prepare; "
        "20010/20011/20012 FORCED schedules (turn-based scheduler in the hook callback: one worker at a time, the next one chosen by policy "
        "0 sequential, 1 reverse, 2/3 round robin up/down one item at a time, 4 last thread first, 5 random, 6 zig-zag, 7 random bursts, "
        "random stream in the record): events in grant order predicted by Model forced_sched run through the small-step `exec`, output "
        "bytes compared with the single-threaded entry point; a forced schedule is distinct when its (kind, thread sequence) is. "
        "distinct = distinct (op, params) lines")
ASSUMPTIONS = [
    "a module, prepared keys and read-only ciphertexts are immutable data in the model (part of the item function g, never of the state): hidden state written through &self (interior mutability, caches) is outside the Gallina model and is tied only by records 20005/20013 (shared vs solo on a fresh identical key)",
    "per-item results do not depend on the contents of the thread's scratch window (hypothesis Hg of the scheduling theorems; it is C11/C12's conclusion, here only observed: scratch is pre-filled with 0xa5 in 20003/20004)",
    "the model's threads interact only through the output slots and their private scratch: real data races inside Module (`unsafe impl Sync`), in backend handles or lazily initialised statics are outside the Gallina model (named gap; exercised only by 20004/20005 runs)",
    "without the harness feature c20hook OS scheduling is not controlled: adversarial interleavings are covered by the theorem, on the implementation only by oversubscription (threads up to 2*cores, nested scopes); with it, forced schedules serialise the workers at item granularity (one yield point per item, at the top of the loop body): interleavings INSIDE one item's computation are still whatever the OS produces",
    "forced schedules: the policy function `pick` exists twice (Model/C20Threads.v and the scheduler in harness/src/bin/c20.rs); a disagreement shows as a correspondence diff on the event sequence, never as a silent pass",
]
TRUSTED = ["std::thread::scope joins every spawned thread before returning (modelled as: a run is complete when nothing is pending)",
           "core::slice::chunks_mut / usize::div_ceil semantics as transcribed in Model/C20Threads.v (tied by records 20001/20002)",
           "c20hook: poulpy_hal::verif::{set_yield_hook, yield_point, YieldDone, yield_spawned} (cfg(poulpy_verif), add-only) report what the closures do: thread_idx / item are the closure's own variables, DONE is a drop guard, SPAWNED is counted in the spawn loop"]


ANCHORS = {
    "poulpy-bin-fhe/src/bdd_arithmetic/eval.rs": [
        "let chunk_size: usize = circuit.output_size().div_ceil(threads);",
        ".zip(out[..circuit.output_size()].chunks_mut(chunk_size))",
        "circuit.get_circuit(thread_idx * chunk_size + idx)",
        "for out_i in out.iter_mut().skip(circuit.output_size()) {",
        "let (mut scratches, _) = scratch.split_mut(threads, scratch_thread_size);",
    ],
    "poulpy-bin-fhe/src/bdd_arithmetic/ciphertexts/fhe_uint_prepared.rs": [
        "let chunk_size: usize = bit_count.div_ceil(threads);",
        ".zip(res.bits[bit_start..bit_end].chunks_mut(chunk_size))",
        "let start: usize = bit_start + thread_index * chunk_size;",
        "bits.get_bit_lwe(self, start + local_bit,",
        "assert!(bit_end <= T::BITS as usize);",
        "for i in 0..bit_start {",
        "for i in bit_end..T::BITS as usize {",
    ],
    "poulpy-hal/src/api/scratch.rs": ["assert!(self.available() >= n * len);", "let (tmp, scratch_new) = scratch.split_at_mut(len);"],
    "poulpy-cpu-ref/src/hal_defaults/scratch.rs": [
        "let aligned_offset: usize = ptr.align_offset(DEFAULTALIGN);",
        "let aligned_len: usize = self_len.saturating_sub(aligned_offset);",
        "if let Some(rem_len) = aligned_len.checked_sub(take_len) {",
    ],
}


HOOK_ANCHORS = {
    "poulpy-bin-fhe/src/bdd_arithmetic/eval.rs": [
        "poulpy_hal::verif::yield_point(\n                            poulpy_hal::verif::YIELD_SITE_EVAL,\n                            thread_idx,\n"
        "                            thread_idx * chunk_size + idx,\n                        );",
        "poulpy_hal::verif::yield_spawned(poulpy_hal::verif::YIELD_SITE_EVAL, verif_spawned);",
    ],
    "poulpy-bin-fhe/src/bdd_arithmetic/ciphertexts/fhe_uint_prepared.rs": [
        "poulpy_hal::verif::yield_point(poulpy_hal::verif::YIELD_SITE_PREPARE, thread_index, start + local_bit);",
        "poulpy_hal::verif::yield_spawned(poulpy_hal::verif::YIELD_SITE_PREPARE, verif_spawned);",
    ],
}
# quick-tier floors for the forced schedules (checked by extra() when hook records are present)
FORCED_FLOORS = {"eval": (30, 3), "prepare_partial": (10, 1)}


def hook_in_repo(repo=Path("/repo")):
    f = repo / "poulpy-hal/src/verif.rs"
    return f.exists() and "pub fn set_yield_hook" in f.read_text()


def translate(ctx):
    """regenerate coq/Gen/C20_gen.v (the alignment constant read from the source) and check that the source lines the
    hand-written model transcribes are still there (a missing anchor is reported, the correspondence check decides)"""
    repo = Path("/repo")
    verif = Path(__file__).resolve().parent.parent.parent
    m = re.search(r"pub const DEFAULTALIGN: usize = (\d+);", (repo / "poulpy-hal/src/lib.rs").read_text())
    align = int(m.group(1)) if m else -1
    want = ("(* generated by tools/props/c20.py from /repo/poulpy-hal/src/lib.rs — do not edit *)\n"
            "From Coq Require Import ZArith.\n"
            f"Definition DEFAULTALIGN_src : Z := {align}%Z.\n")
    gen = verif / "coq" / "Gen" / "C20_gen.v"
    gen.parent.mkdir(exist_ok=True)
    if not gen.exists() or gen.read_text() != want:
        gen.write_text(want)
    missing = []
    for rel, anchors in ANCHORS.items():
        src = (repo / rel).read_text() if (repo / rel).exists() else ""
        missing += [f"{rel}: {a}" for a in anchors if a not in src]
    hook = hook_in_repo(repo)
    if hook:
        for rel, anchors in HOOK_ANCHORS.items():
            src = (repo / rel).read_text() if (repo / rel).exists() else ""
            missing += [f"{rel}: {a}" for a in anchors if a not in src]
    if missing:
        ctx.notes.append("source drift: lines transcribed by Model/C20Threads.v no longer found: " + " | ".join(missing))
    return {"coq/Gen/C20_gen.v": {"DEFAULTALIGN": align}, "anchors_checked": sum(len(v) for v in ANCHORS.values()),
            "anchors_missing": missing, "yield_hook_in_repo": hook}


def classify(record):
    return None


def extra(ctx, ofails, notes):
    """coverage statistics and the observation about the documented scratch sizing (not part of the verdict)"""
    cov = {}
    pairs, preps, panics = set(), set(), []
    forced = {"eval": set(), "prepare_full": set(), "prepare_partial": set()}
    forced_tc = {"eval": set(), "prepare_full": set(), "prepare_partial": set()}
    policies, logged = set(), 0
    for f in sorted(ctx.work.glob("records_*.txt")):
        if "replay" in f.name:
            continue
        for line in f.read_text().splitlines():
            code, ps, _, outs = (line.split("#") + ["", "", ""])[:4]
            p = ps.split()
            if code in ("20008", "20009") and not outs.startswith("PANIC"):
                logged += 1
            if code in ("20010", "20011", "20012") and not outs.startswith("PANIC"):
                q = [int(x, 16) for x in p]
                threads, pol = (q[3], q[6]) if code == "20010" else (q[1], q[5]) if code == "20011" else (q[2], q[5])
                kind = "eval" if code != "20011" else ("prepare_partial" if q[3] < 32 else "prepare_full")
                forced[kind].add((code, outs.split(";")[0]))
                forced_tc[kind].add(threads)
                policies.add(pol)
            if code in ("20001", "20002") and len(p) >= 4:
                pairs.add((int(p[2], 16), int(p[3], 16)))
            elif code == "20003" and len(p) >= 4:
                preps.add((int(p[1], 16), int(p[2], 16), int(p[3], 16)))
            elif code == "20007" and outs.startswith("PANIC"):
                panics.append(f"kind={p[1]} threads={int(p[2], 16)} per_thread={int(p[3], 16)}: {outs[:90]}")
    cov["c20_items_threads_pairs"] = len(pairs)
    cov["c20_pairs_threads_not_dividing"] = sum(1 for (i, t) in pairs if t and i % t)
    cov["c20_pairs_threads_exceeding"] = sum(1 for (i, t) in pairs if t > i)
    cov["c20_prepare_threads_start_count"] = len(preps)
    cov["c20_prepare_start_count_pairs"] = len({(s, c) for (_, s, c) in preps})
    if panics:
        notes.append("OBSERVATION (C12 family, predicted by the split_mut model, theorem C20_scratch_assert_enough_refuted): "
                     "fhe_uint_prepare_tmp_bytes is not a multiple of 64, so prepare_custom_multi_thread with the documented "
                     "scratch of threads*tmp_bytes passes its own assert and panics inside split_mut for threads >= 2: "
                     + "; ".join(sorted(set(panics))[:4]))
    if logged or any(forced.values()):
        cov["c20_hook_logged_runs"] = logged
        for k in forced:
            cov[f"c20_forced_schedules_{k}"] = len(forced[k])
            cov[f"c20_forced_thread_counts_{k}"] = sorted(forced_tc[k])
        cov["c20_forced_policies"] = sorted(policies)
        for k, (n, t) in FORCED_FLOORS.items():
            if len(forced[k]) < n or len(forced_tc[k]) < t:
                notes.append(f"COVERAGE SHORTFALL: forced schedules '{k}': {len(forced[k])} distinct over {len(forced_tc[k])} thread counts "
                             f"(floor {n} over {t})")
    else:
        notes.append("gap: harness built without the feature c20hook: no (thread, item) event log and no forced schedules; "
                     "slot<->item identity is observed through per-item references instead")
    return cov


def search(ctx, diffs):
    """widened search when a proof or the correspondence broke: thorough tier under other seeds, first oracle failure wins"""
    sys.path.insert(0, str(Path(__file__).resolve().parent.parent))
    import check
    try:
        drv = check.build_driver("C20")
        binp, _ = check.build_harness("C20", "release")
        if binp is None:
            return None
        for seed in (ctx.seed + 1, ctx.seed + 2):
            recs = ctx.harness_gen(binp, "thorough", seed, tag=f"_search{seed}")
            lines = recs.read_text().splitlines()
            for (n, c, o, extra_) in ctx.drive(drv, recs):
                if o == 0:
                    line = lines[n - 1]
                    return {"property": "C20", "kind": "oracle-failure (widened search)", "records": [line.rsplit("#", 1)[0] + "#"],
                            "observed": line, "seed": seed}
    except Exception as e:  # noqa
        ctx.notes.append(f"search failed: {e}")
    return None


# ----------------------------------------------------------------------------------------------------------------
# mutation self-test (never touches /repo)
MUT = Path("/tmp/c20_mut")
MUT_H = Path("/tmp/c20_mut_harness")
EVAL = "poulpy-bin-fhe/src/bdd_arithmetic/eval.rs"
PREP = "poulpy-bin-fhe/src/bdd_arithmetic/ciphertexts/fhe_uint_prepared.rs"
SCR = "poulpy-hal/src/api/scratch.rs"

MUTATIONS = {
    # chunk size by floor division: the last items are skipped when threads does not divide the items
    "floor_div": (EVAL, "let chunk_size: usize = circuit.output_size().div_ceil(threads);",
                  "let chunk_size: usize = (circuit.output_size() / threads).max(1);"),
    # the prepare index formula forgets bit_start: only visible for multi-threaded partial preparation with start > 0
    "prepare_index": (PREP, "let start: usize = bit_start + thread_index * chunk_size;",
                      "let start: usize = thread_index * chunk_size;"),
    # the zero fill above the active range is dropped
    "no_tail_zero": (PREP, "for i in bit_end..T::BITS as usize {", "for i in T::BITS as usize..T::BITS as usize {"),
    # per-thread scratch windows overlap by half
    "overlap": (SCR, """        for _ in 0..n {
            let (tmp, scratch_new) = scratch.split_at_mut(len);
            scratch = scratch_new;
            scratches.push(tmp);
        }""", """        let base: *mut u8 = scratch.data.as_mut_ptr();
        let off0: usize = base.align_offset(crate::DEFAULTALIGN);
        for i in 0..n {
            let start: usize = off0 + i * (len / 2).next_multiple_of(crate::DEFAULTALIGN);
            let s: &mut [u8] = unsafe { std::slice::from_raw_parts_mut(base.add(start), len) };
            scratches.push(Self::from_bytes(s));
        }
        scratch = Self::from_bytes(unsafe { std::slice::from_raw_parts_mut(base, 0) });"""),
}


# mutations given as a unified diff (applied with `patch -p1` inside the scratch copy)
PATCHES = {
    # per-key OnceLock cache of the circuit-bootstrapping test vector, keyed by mode only: hidden state on a shared prepared key
    "lut_cache": "seeded/C20e/patch.diff",
}


def _sh(cmd, cwd=None, timeout=3000):
    p = subprocess.run(cmd, cwd=cwd, stdout=subprocess.PIPE, stderr=subprocess.STDOUT, text=True, timeout=timeout,
                       env=dict(os.environ, CARGO_NET_OFFLINE="true"))
    return p.returncode, p.stdout


def _cleanup():
    shutil.rmtree(MUT, ignore_errors=True)
    shutil.rmtree(MUT_H, ignore_errors=True)


def selftest(names):
    verif = Path(__file__).resolve().parent.parent.parent
    drv = verif / "ocaml" / "gen" / "c20" / "drv"
    if not drv.exists():
        print("run `python3 tools/check.py C20` first (the extracted driver is needed)")
        return 2
    results = {}
    try:
        _cleanup()
        shutil.copytree("/repo", MUT, ignore=shutil.ignore_patterns("target", ".git"))
        MUT_H.mkdir()
        shutil.copytree(verif / "harness" / "src", MUT_H / "src")
        shutil.copytree(verif / "harness" / ".cargo", MUT_H / ".cargo")
        for f in ["Cargo.lock", "rust-toolchain.toml"]:
            if (verif / "harness" / f).exists():
                shutil.copy(verif / "harness" / f, MUT_H / f)
        cargo = (verif / "harness" / "Cargo.toml").read_text().replace('"/repo/', f'"{os.environ.get("C20_REPO", str(MUT))}/')
        (MUT_H / "Cargo.toml").write_text(cargo)
        for name in names:
            if name in PATCHES:
                pf = str(verif / PATCHES[name])
                rc, out = _sh(["patch", "-p1", "-i", pf], cwd=MUT)
                assert rc == 0, f"{name}: patch does not apply: {out[-400:]}"
                restore = lambda pf=pf: _sh(["patch", "-R", "-p1", "-i", pf], cwd=MUT)
            else:
                rel, old, new = MUTATIONS[name]
                orig = (Path("/repo") / rel).read_text()
                assert orig.count(old) == 1, f"{name}: anchor not found exactly once in {rel}"
                (MUT / rel).write_text(orig.replace(old, new))
                restore = lambda rel=rel, orig=orig: (MUT / rel).write_text(orig)
            rc, out = _sh(["cargo", "build", "--offline", "--release", "--features", "avx", "--bin", "c20"], cwd=MUT_H)
            if rc != 0:
                results[name] = {"build": "FAILED", "log": out[-1500:]}
                restore()
                continue
            recs = MUT_H / f"records_{name}.txt"
            rc, out = _sh([str(MUT_H / "target" / "release" / "c20"), "gen", "quick", "1", str(recs)])
            if rc != 0:
                results[name] = {"harness": f"exit {rc}", "log": out[-800:]}
                restore()
                continue
            rc, out = _sh([str(drv), str(recs)])
            lines = recs.read_text().splitlines()
            diff, ofail, by_code, first = 0, 0, {}, None
            for l in out.splitlines():
                p = l.split(" ", 3)
                if len(p) < 3 or not p[0].isdigit():
                    continue
                bad = (p[1] != "ok") or (p[2] == "0")
                diff += p[1] != "ok"
                ofail += p[2] == "0"
                if bad:
                    code = lines[int(p[0]) - 1].split("#", 1)[0]
                    by_code[code] = by_code.get(code, 0) + 1
                    if first is None and p[2] == "0":
                        first = lines[int(p[0]) - 1][:200]
            results[name] = {"records": len(lines), "corr_diff": diff, "oracle_fails": ofail, "flagged_by_code": by_code,
                             "first_oracle_failure": first, "detected": bool(ofail or diff)}
            restore()
    finally:
        _cleanup()
    print(json.dumps(results, indent=1))
    return 0 if all(r.get("detected") for r in results.values()) else 1


# ----------------------------------------------------------------------------------------------------------------
# schedule self-test: a mutation that is wrong only under some interleavings (never touches /repo)
#   the item index comes from a shared, non-atomically updated cursor (`static mut`) instead of the chunk formula, and the
#   output slot is addressed through that index: a worker that runs its whole chunk undisturbed computes the right
#   indices; as soon as two workers alternate, one of them continues from the other's cursor, so two workers write the same
#   slot and another slot is never written.
_CURSOR = [
    (EVAL, "fn eval_level<M, R, G, BE: Backend>(", "static mut C20_MUT_CURSOR: usize = 0;\n\nfn eval_level<M, R, G, BE: Backend>("),
    (EVAL, "        thread::scope(|scope| {\n", "        let out_base: usize = out.as_mut_ptr() as usize;\n        thread::scope(|scope| {\n"),
    (EVAL, "                        let (nodes, state_size) = circuit.get_circuit(thread_idx * chunk_size + idx);\n",
     """                        let item: usize = unsafe {
                            if idx == 0 {
                                C20_MUT_CURSOR = thread_idx * chunk_size;
                            } else {
                                C20_MUT_CURSOR += 1;
                            }
                            C20_MUT_CURSOR % circuit.output_size()
                        };
                        let out_i: &mut GLWE<O> = unsafe { &mut *(out_base as *mut GLWE<O>).add(item) };
                        let (nodes, state_size) = circuit.get_circuit(item);
"""),
]
# second one, of the "lazily initialised shared state" kind: the first worker to arrive publishes the base index, written as
# if that were always worker 0.  Right whenever worker 0 passes its first yield point first (it is spawned first: nearly
# always so on an idle machine); wrong for every schedule that starts with another worker.
_LAZY_BASE = [
    (EVAL, "fn eval_level<M, R, G, BE: Backend>(", "static mut C20_MUT_BASE: usize = usize::MAX;\n\nfn eval_level<M, R, G, BE: Backend>("),
    (EVAL, "        thread::scope(|scope| {\n", "        unsafe {\n            C20_MUT_BASE = usize::MAX;\n        }\n        thread::scope(|scope| {\n"),
    (EVAL, "                        let (nodes, state_size) = circuit.get_circuit(thread_idx * chunk_size + idx);\n",
     """                        let item: usize = unsafe {
                            if C20_MUT_BASE == usize::MAX {
                                C20_MUT_BASE = thread_idx * chunk_size;
                            }
                            (C20_MUT_BASE + thread_idx * chunk_size + idx) % circuit.output_size()
                        };
                        let (nodes, state_size) = circuit.get_circuit(item);
"""),
]
SCHED_MUTATIONS = {"shared_cursor": _CURSOR, "lazy_base": _LAZY_BASE}
POLICY_NAMES = ["sequential", "reverse", "round-robin up", "round-robin down", "last-thread-first", "random", "zig-zag", "random bursts"]


def selftest_sched(names, runs=3):
    """hook + mutation on a copy of /repo, harness with the feature c20hook: which records flag it, run by run"""
    rc = 0
    for name in names:
        print(f"== schedule mutation {name}")
        rc |= _selftest_sched_one(SCHED_MUTATIONS[name], runs)
    return rc


def _selftest_sched_one(mutation, runs):
    verif = Path(__file__).resolve().parent.parent.parent
    drv = verif / "ocaml" / "gen" / "c20" / "drv"
    if not drv.exists():
        print("run `python3 tools/check.py C20` first (the extracted driver is needed)")
        return 2
    res = {}
    try:
        _cleanup()
        shutil.copytree("/repo", MUT, ignore=shutil.ignore_patterns("target", ".git"))
        if not hook_in_repo(MUT):
            rc, out = _sh(["git", "apply", str(verif / "work" / "proposed_hooks" / "c20_yield.diff")], cwd=MUT)
            assert rc == 0, "hook diff does not apply to /repo: " + out
        for rel, old, new in mutation:
            src = (MUT / rel).read_text()
            assert src.count(old) == 1, f"anchor not found exactly once in {rel}: {old[:60]}"
            (MUT / rel).write_text(src.replace(old, new))
        MUT_H.mkdir()
        shutil.copytree(verif / "harness" / "src", MUT_H / "src")
        shutil.copytree(verif / "harness" / ".cargo", MUT_H / ".cargo")
        for f in ["Cargo.lock", "rust-toolchain.toml"]:
            if (verif / "harness" / f).exists():
                shutil.copy(verif / "harness" / f, MUT_H / f)
        cargo = (verif / "harness" / "Cargo.toml").read_text().replace('"/repo/', f'"{MUT}/')
        if "c20hook" not in cargo:
            cargo = cargo.replace("[features]\n", "[features]\nc20hook = []\n")
        (MUT_H / "Cargo.toml").write_text(cargo)
        rc, out = _sh(["cargo", "build", "--offline", "--release", "--features", "avx,c20hook", "--bin", "c20"], cwd=MUT_H)
        if rc != 0:
            print(out[-3000:])
            return 2
        prev_forced = None
        for run in range(runs):
            recs = MUT_H / f"records_run{run}.txt"
            rc, out = _sh([str(MUT_H / "target" / "release" / "c20"), "gen", "quick", "1", str(recs)])
            if rc != 0:
                res[f"run{run}"] = {"harness": f"exit {rc}", "log": out[-800:]}
                continue
            rc, out = _sh([str(drv), str(recs)])
            lines = recs.read_text().splitlines()
            tot, bad, pol_tot, pol_bad = {}, {}, {}, {}
            for l in out.splitlines():
                v = l.split(" ", 3)
                if len(v) < 3 or not v[0].isdigit():
                    continue
                code, ps = lines[int(v[0]) - 1].split("#")[:2]
                flagged = (v[1] != "ok") or (v[2] == "0")
                tot[code] = tot.get(code, 0) + 1
                bad[code] = bad.get(code, 0) + flagged
                if code == "20010":
                    q = [int(x, 16) for x in ps.split()]
                    # the mutation can only show when >= 2 workers exist and one of them has >= 2 items
                    if q[3] >= 2 and q[2] > 2 and -(-q[2] // q[3]) >= 2 and -(-q[2] // -(-q[2] // q[3])) >= 2:
                        pol_tot[q[6]] = pol_tot.get(q[6], 0) + 1
                        pol_bad[q[6]] = pol_bad.get(q[6], 0) + flagged
            forced_lines = [l for l in lines if l.split("#", 1)[0] in ("20010", "20012")]
            res[f"run{run}"] = {
                "unforced_flagged/total": {c: f"{bad[c]}/{tot[c]}" for c in ("20001", "20002", "20004", "20008") if c in tot},
                "forced_flagged/total": {c: f"{bad[c]}/{tot[c]}" for c in ("20010", "20012") if c in tot},
                "forced_20010_by_policy(>=2 workers, a chunk of >=2)": {POLICY_NAMES[k]: f"{pol_bad[k]}/{pol_tot[k]}" for k in sorted(pol_tot)},
                "forced_records_identical_to_previous_run": (forced_lines == prev_forced) if prev_forced is not None else None,
            }
            prev_forced = forced_lines
    finally:
        _cleanup()
    print(json.dumps(res, indent=1))
    ok = all(isinstance(r, dict) and "forced_flagged/total" in r and int(r["forced_flagged/total"].get("20010", "0/1").split("/")[0]) > 0
             for r in res.values())
    return 0 if ok else 1


if __name__ == "__main__":
    if len(sys.argv) >= 2 and sys.argv[1] == "selftest":
        sys.exit(selftest(sys.argv[2:] or (list(MUTATIONS) + list(PATCHES))))
    if len(sys.argv) >= 2 and sys.argv[1] == "selftest-sched":
        sys.exit(selftest_sched(sys.argv[2:] or list(SCHED_MUTATIONS)))
    print(__doc__)
