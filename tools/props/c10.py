"""C10 — all backends give bit-identical results for identical inputs and seeds."""
PROPS_VO = "Props/C10.vo"
PROFILES = ["release"]
RULE = ("harness c10: every base record of C08 (step kernels with SIMD-tail lengths and 64-bit boundary values; normalise/shift), C09 (ring "
        "operations, N=1,2,4,...) and C07 (DFT-domain operations inside the common magnitude domain) executed on FFT64Ref, FFT64Avx, "
        "NTT120Ref, NTT120Avx; flags = byte equality of every backend's coefficient-domain output with FFT64Ref's; the backend-free model "
        "must also reproduce the output")
ASSUMPTIONS = ["CPU with AVX2+FMA (otherwise the AVX half cannot run and is reported as a harness failure)",
               "FFT64 vs NTT120 identity is claimed inside the common magnitude domain only"]
def classify(record):
    return None
