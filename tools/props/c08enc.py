"""C08ENC — scratch entry for the encoding clause of C08 (opcodes 8301..8307; to be dispatched from C08)."""
PROPS_VO = "Props/C08Encode.vo"
PROFILES = ["release"]
RULE = ("harness c08_enc: encode_vec_i64 / encode_vec_i128 / encode_coeff_i64 followed by the matching decoder, the three "
        "decoders alone on garbage and on clean limbs, decode_vec_float as exact scaled integers; every (b, k) for "
        "b in {2,3,7,12,17,31,50,62}, sizes 1..4 (quick: k < b, multiples of b and their neighbours, size*b), every b in 1..62 once, "
        "1..3 columns with garbage elsewhere, value classes 0, +-1, +-2^(k-2), +-2^(k-1) and neighbours, random, top of the type; "
        "distinct = distinct (op, params, inputs)")
ASSUMPTIONS = ["release-mode (wrapping) integer semantics; debug-build overflow panics are outside this check",
               "decode_vec_float: the harness converts each FBig exactly (repr(): significand * 2^exponent, radix 2), multiplies by "
               "2^(size*base2k), panics unless the result is an integer, and prints it as sign-carrying 64-bit magnitude words; the model "
               "prints sum_j limb_j 2^((size-1-j) base2k) the same way",
               "div_round_i64/i128 are private to poulpy-hal::layouts::encoding and are exercised only through the decoders (divisor 2^rem)"]


def classify(record):
    # no open finding: encode.first_carry_wraps was repaired in /repo (ba594a2) and the model follows the repaired code
    return None
