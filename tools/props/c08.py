"""C08 — limb representation: normalisation, shifts, encoding."""
PROPS_VO = "Props/C08.vo"
EXTRA_VO = ["Props/C08Encode.vo", "Props/C08Wide.vo"]
PROFILES = ["release"]
RULE = ("harness c08: digit/carry kernels (both widths, every radix), all step kernels on ZnxRef + four backends "
        "with SIMD-tail lengths, boundary-dictionary values; vector-level normalise (same/cross radix, big accumulators of both families, fused forms), "
        "lsh/rsh families on flat buffers through Module<BE>; encode/decode (i64, i128, coefficient, float) over a (b, k) grid with boundary values; "
        "distinct = distinct (op, params, inputs)")
ASSUMPTIONS = ["release-mode (wrapping) integer semantics for the kernels; debug-mode overflow panics are outside this check"]

def classify(record):
    # encode/decode records (83xx) are classified by the encode/decode development
    try:
        from props import c08enc
        key = c08enc.classify(record)
        if key:
            return key
    except Exception:
        pass
    return None
