"""C08 — limb representation: normalisation, shifts, encoding."""
PROPS_VO = "Props/C08.vo"
PROFILES = ["release"]
RULE = ("harness c08: digit/carry kernels (both widths, every radix), all step kernels on ZnxRef + four backends "
        "with SIMD-tail lengths, boundary-dictionary values; distinct = distinct (op, params, inputs)")
ASSUMPTIONS = ["release-mode (wrapping) integer semantics for the kernels; debug-mode overflow panics are outside this check"]

def classify(record):
    return None
