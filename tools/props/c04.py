"""C04 — external products and CMux multiply by the GGSW plaintext within noise."""
from props import ks_shared as K

PROPS_VO = "Props/C04.vo"
EXTRA_VO = ["Model/C04Run.vo"]
PROFILES = ["release"]
RULE = ("harness c04: real secrets, GGSW / tensor / switching / automorphism keys and ciphertexts built with the library at N in {8,16,32} "
        "on the four backends; glwe/gglwe/ggsw external product (in/out of place; result with fewer, as many and more rows / limbs), "
        "cmux / cmux_assign / cmux_assign_neg with bit 0 and 1, fresh GGSW cells, ggsw_from_gglwe, ggsw_expand_row, ggsw_keyswitch(_assign), "
        "ggsw_automorphism(_assign); ranks 1..3, dsize 1..4, dnum smaller/equal/larger than needed, GGSW precision below/above the GLWE "
        "precision, input/GGSW/output radix mismatches, m2 in {0, 1, -1, X^k, -X^k, small dense}, inputs with uniform/extreme/alternating/sparse "
        "digits.  Level L1 (4001/4002, 4010): output limbs recomputed bit for bit by the extracted model.  Level L2 (all): "
        "exact phases, m1*m2 by exact negacyclic product, deterministic envelope, every GGSW cell against m2 (resp. s_col (x) m2) * gadget; two "
        "scratch fills; cross-backend byte identity inside the common magnitude domain.  distinct = distinct (op, params, inputs) lines")
ASSUMPTIONS = [
    "proof over exact products (as C03); key-row / GGSW-cell statement is a named Section hypothesis of the phase theorems, checked on every fresh GGSW by the oracle (4020)",
    "cmux is specified for one common radix of t, f, res and the GGSW (the internal product asserts it)",
    "every operation runs in exactly its declared tmp_bytes",
]
TRUSTED = ["secret coefficients are read through glwe_decrypt of a crafted ciphertext"]


def classify(record):
    # no open finding class: cmux.dsize_ge3.stale_accumulator (8b73cd8) and gglwe_external_product.res_dnum_gt_a_dnum.oob (eed0d4a) were repaired
    return None


def extra(ctx, ofails, notes):
    return K.scan(ctx, ofails, notes, 4001)
