"""C19 — seed-compressed objects expand to exactly what full encryption would produce."""
PROPS_VO = "Props/C19.vo"
PROFILES = ["release"]
RULE = ("harness c19: compressed GLWE / GGSW / GGLWE / switching / automorphism / tensor / GGLWE->GGSW keys on four backends: "
        "compressed encryption, decompression, per cell the standard glwe_encrypt_sk with Source::new(stored seed) and the shared "
        "sequential error stream, serialise -> deserialise -> decompress; outputs are the stored seeds, every decompressed word and "
        "the byte-comparison flags; the model reproduces seeds and words from (plaintext, secret, raw u64 streams, replayed errors)")
ASSUMPTIONS = ["release-mode (wrapping) integer semantics", "DFT-domain products exact inside the backend's magnitude domain (C07)"]
TRUSTED = ["ChaCha8 (stream_of seed) and rand_distr::Normal are inputs of the model"]
def classify(record):
    """known class: compressed GGLWE->GGSW key (19002, kind ps[9] == 4): the drawn seeds are not stored"""
    try:
        code, ps = record.split("#")[:2]
        p = [int(x, 16) for x in ps.split()]
        if int(code) == 19002 and p[9] == 4:
            return "gglwe_to_ggsw_key_compressed.seeds_not_stored"
    except Exception:
        pass
    return None
