"""C19 — seed-compressed objects expand to exactly what full encryption would produce."""
PROPS_VO = "Props/C19.vo"
PROFILES = ["release"]
RULE = ("harness c19: compressed GLWE / GGSW / GGLWE / switching / automorphism / tensor / GGLWE->GGSW keys, entries of a compressed CGGI "
        "blind-rotation key, the LWE-related wrapper layouts (same bytes, same cells) and LWECompressed -> decompress_lwe on four backends: "
        "compressed encryption, decompression, per cell the standard glwe_encrypt_sk with Source::new(stored seed) and the shared "
        "sequential error stream, serialise -> deserialise -> decompress, into a receiver of the sender's layout AND into a generic receiver whose header fields (base2k, k, ranks, dnum, dsize) all differ and whose buffer is larger: written again it must give the sender's bytes, decompressed the same cells (GLWE, LWE, GGLWE, GGSW, switching / automorphism / tensor / GGLWE->GGSW keys and the LWE-related wrappers); outputs are the stored seeds, every decompressed word and "
        "the byte-comparison flags; the model reproduces seeds and words from (plaintext, secret, raw u64 streams, replayed errors)")
ASSUMPTIONS = ["release-mode (wrapping) integer semantics", "DFT-domain products exact inside the backend's magnitude domain (C07)"]
TRUSTED = ["ChaCha8 (stream_of seed) and rand_distr::Normal are inputs of the model"]
def classify(record):
    """no open class: `gglwe_to_ggsw_key_compressed.seeds_not_stored` was repaired by 3f87a93,
    `lwe_compressed.decompress_lwe_layout_assert` by 4fb6b93"""
    return None
