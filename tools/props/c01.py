"""C01 — encrypt-then-decrypt returns the message up to the configured bounded error."""
PROPS_VO = "Props/C01.vo"
PROFILES = ["release"]
RULE = ("harness c01: GLWE sk / LWE sk / GLWE pk / GLWE compressed encryption followed by decryption through the public API on "
        "four backends; the harness regenerates what the library drew (raw u64 of the mask source, replay of the library's own "
        "Gaussian sampler, replay of the secret / ephemeral samplers) and the model must reproduce every ciphertext word and "
        "every decrypted word; oracle = exact phase, message position and coefficient-wise error bound")
ASSUMPTIONS = ["release-mode (wrapping) integer semantics",
               "DFT-domain products are exact inside the backend's magnitude domain (C07)"]
TRUSTED = ["ChaCha8 stream and rand_distr::Normal are inputs of the model (their output is replayed, not modelled)"]
def classify(record):
    """known class: a secret-key encryption (GLWE 1001 / LWE 1002 / compressed 1004) given a plaintext that declares a radix
    different from the ciphertext's (ps[7] != ps[2])"""
    try:
        code, ps = record.split("#")[:2]
        p = [int(x, 16) for x in ps.split()]
        if int(code) in (1001, 1002, 1004) and p[7] != p[2]:
            return "sk_encrypt.plaintext_radix_ignored"
    except Exception:
        pass
    return None
