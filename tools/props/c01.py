"""C01 — encrypt-then-decrypt returns the message up to the configured bounded error."""
PROPS_VO = "Props/C01.vo"
PROFILES = ["release"]
RULE = ("harness c01: GLWE sk / LWE sk / GLWE pk / GLWE compressed encryption followed by decryption through the public API on "
        "four backends, rank 0..3, also glwe_encrypt_zero_sk; every scratch arena is pre-filled with garbage (two fills must agree) and "
        "dirtied by a warm-up encryption; the harness regenerates what the library drew (raw u64 of the mask source, replay of the library's own "
        "Gaussian sampler, replay of the secret / ephemeral samplers) and the model must reproduce every ciphertext word and "
        "every decrypted word; oracle = exact phase, message position and coefficient-wise error bound")
ASSUMPTIONS = ["release-mode (wrapping) integer semantics",
               "DFT-domain products are exact inside the backend's magnitude domain (C07)"]
TRUSTED = ["ChaCha8 stream and rand_distr::Normal are inputs of the model (their output is replayed, not modelled)"]
def classify(record):
    """no open class: `sk_encrypt.plaintext_radix_ignored` was repaired by b0d4f7c, `pk_encrypt.zero_dist_uninitialised_u` by fb6b3bd"""
    return None
