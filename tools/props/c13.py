"""C13 — compiled BDD circuits compute their 32-bit word functions for all inputs."""
import importlib, json, os, random, sys
from pathlib import Path

PROPS_VO = "Props/C13.vo"
EXTRA_VO = ["Model/C13Run.vo"]
PROFILES = ["release"]
RULE = ("harness c13: (i) 13200+op: node-by-node dump of the COMPILED tables (captured through the public "
        "ExecuteBDDCircuit{2W,1W}To1W traits) vs the tables generated from the *_codegen.rs text, and the proved "
        "checker re-run on the dumped tables by the oracle; (ii) 13000+op: 40 (a,b) pairs per record (boundary "
        "dictionary x shift amounts, then random mixes), compiled table evaluated in plain bool with eval_level's "
        "two-buffer slot discipline vs the model's eval_stale on the generated tables, oracle = plain word operation; "
        "(iii) 13100+op: bulk comparison inside the harness against the native Rust word operation. "
        "distinct = distinct (op, inputs) lines")
ASSUMPTIONS = [
    "a occupies input bits [0,32), b bits [32,64) (FheUintHelper::get_bit); identity reads a only",
    "the homomorphic cmux implements (hi - lo) * bit + lo (C15/C04 territory); here the evaluator is modelled on plain bits",
    "output bits >= OUTPUT_BITS (slt/sltu: bits 1..31) are the zero the evaluator writes for them",
]
TRUSTED = [
    "tools/gen_c13.py (textual translator *_codegen.rs -> Gen/C13Circuits_gen.v); cross-checked on every run against the "
    "tables compiled into the crate (13200+op records) and re-validated by running the extracted checker on the dump",
]

OPS = ["add", "sub", "sll", "srl", "sra", "slt", "sltu", "and", "or", "xor", "identity"]


def _gen():
    sys.path.insert(0, str(Path(__file__).resolve().parent.parent))
    return importlib.import_module("gen_c13")


def translate(ctx):
    g = _gen()
    info = g.main()
    if os.environ.get("VERIF_C13_SRC"):
        ctx.notes.append("VERIF_C13_SRC set: tables read from " + info["source_dir"] + " (self-test mode)")
    return info


def classify(record):
    return None


# ------------------------------------------------------------------------------------------------
# search: when the checker / the correspondence broke, find a concrete (a, b, i) on which a table differs
# from the word operation.  Works on the tables as parsed from the source text (the same input the Coq side saw);
# every candidate is confirmed by plain evaluation with eval.rs's slot discipline before it is reported.

def _paths_to(nodes, w, max_paths=4000):
    """all (partial assignments) reaching each Cmux from the root, breadth first, bounded"""
    g = _gen()
    lv = g.levels(nodes, w)
    out = []
    frontier = [(len(lv), 0, {})]
    seen = 0
    while frontier and seen < max_paths:
        L, j, asg = frontier.pop(0)
        if L == 0:
            continue
        n = lv[L - 1][j] if j < len(lv[L - 1]) else ("N",)
        seen += 1
        if n[0] == "P":
            frontier.append((L - 1, j, asg))
        elif n[0] == "C":
            v = n[1]
            out.append((L, j, dict(asg)))
            for val, child in ((1, n[2]), (0, n[3])):
                if asg.get(v, val) == val:
                    a2 = dict(asg)
                    a2[v] = val
                    frontier.append((L - 1, child, a2))
    return out


def _complete(asg, rng):
    a = b = 0
    for v in range(64):
        bit = asg[v] if v in asg else rng.getrandbits(1)
        if bit:
            if v < 32:
                a |= 1 << v
            else:
                b |= 1 << (v - 32)
    return a, b


BOUNDARY = [0, 1, 2, 3, 0x7FFFFFFF, 0x80000000, 0x80000001, 0xFFFFFFFE, 0xFFFFFFFF, 0x55555555, 0xAAAAAAAA] + \
           [1 << k for k in range(32)] + [(1 << k) - 1 for k in range(1, 32)] + [0xFFFFFFFF ^ (1 << k) for k in range(32)]


def _candidates(op, i, nodes, w, rng, n_random):
    """structured first (paths through every node of the table), then boundary pairs, then random"""
    if w > 0 and len(nodes) % w == 0 and nodes:
        for (_, _, asg) in _paths_to(nodes, w):
            for _ in range(4):
                yield _complete(asg, rng)
            # all-zeros / all-ones completions
            yield _complete({**{v: 0 for v in range(64)}, **asg}, rng)
            yield _complete({**{v: 1 for v in range(64)}, **asg}, rng)
    for x in BOUNDARY:
        for y in BOUNDARY[:11] + list(range(0, 66)) + [x, (x + 1) & 0xFFFFFFFF, (x - 1) & 0xFFFFFFFF, x ^ 0xFFFFFFFF]:
            yield x, y & 0xFFFFFFFF
    for _ in range(n_random):
        k = rng.randrange(4)
        a = rng.getrandbits(32)
        if k == 0:
            b = rng.getrandbits(32)
        elif k == 1:
            b = rng.randrange(64)
        elif k == 2:
            b = (a + rng.randrange(-2, 3)) & 0xFFFFFFFF
        else:
            a = rng.choice(BOUNDARY)
            b = rng.choice(BOUNDARY)
        yield a, b


def find_counterexample(tables, budget=1_200_000, seed=1, only_ops=None):
    """-> dict(op, i, a, b, got, expected, evaluations) | None.  `got` may be 'PANIC:<what>'."""
    g = _gen()
    rng = random.Random(seed)
    evals = 0
    ops = [op for op in OPS if not only_ops or op in only_ops]
    per_table = max(2000, budget // max(1, sum(min(32, max(1, tables[op][2])) for op in ops)))
    for op in ops:
        circuits, nin, nout = tables[op]
        f = g.WORD_OP[op]
        for i in range(32):
            if i < nout and i < len(circuits):
                nodes, w = circuits[i]
            elif i < nout:
                return {"op": op, "i": i, "a": 0, "b": 0, "got": "PANIC:missing table", "expected": (f(0, 0) >> i) & 1, "evaluations": evals}
            else:
                nodes, w = [], 0
            for (a, b) in _candidates(op, i, nodes, w, rng, per_table if i < nout else 64):
                evals += 1
                want = (f(a, b) >> i) & 1
                try:
                    got = int(g.eval_bit(nodes, w, g.env_of(a, b)))
                except (IndexError, ValueError, ZeroDivisionError) as ex:
                    got = "PANIC:" + str(ex)
                if got != want:
                    return {"op": op, "i": i, "a": a, "b": b, "got": got, "expected": want, "evaluations": evals}
    find_counterexample.last_evals = evals
    return None


def search(ctx, diffs):
    """widened search after a proof / correspondence break; returns a replay dict or None"""
    g = _gen()
    try:
        tables = g.parse_all()
    except Exception as ex:          # the source no longer parses: nothing to evaluate
        ctx.notes.append("search: tables could not be parsed: " + str(ex))
        return None
    # ops whose tables differ between compiled crate and generated text come first (from the disagreeing records)
    first = []
    for d in diffs or []:
        try:
            code = int(d["record"].split("#", 1)[0])
            first.append(OPS[code % 100 - 1])
        except Exception:
            pass
    order = list(dict.fromkeys(first)) or None
    cex = None
    if order:
        cex = find_counterexample(tables, budget=400_000, seed=ctx.seed, only_ops=order)
    if cex is None:
        cex = find_counterexample(tables, budget=1_200_000, seed=ctx.seed)
    if cex is None:
        ctx.notes.append(f"search: no failing input among {getattr(find_counterexample, 'last_evals', 0)} structured+random evaluations")
        return None
    code = 13000 + OPS.index(cex["op"]) + 1
    rec = f"{code}##{cex['a']:x};{cex['b']:x}#"
    return {"property": "C13", "kind": "search-counterexample",
            "what": (f"output bit {cex['i']} of the {cex['op']} table differs from the word operation on "
                     f"a=0x{cex['a']:08x} b=0x{cex['b']:08x}: table gives {cex['got']}, word operation gives {cex['expected']}"),
            "op": cex["op"], "i": cex["i"], "a": cex["a"], "b": cex["b"], "got": cex["got"], "expected": cex["expected"],
            "source_dir": str(g.src_dir()), "evaluations_before_hit": cex["evaluations"],
            "records": [rec],
            "replay_cmd": "python3 tools/check.py C13 --replay <this file>"
                          + ("   (with VERIF_C13_SRC=" + os.environ["VERIF_C13_SRC"] + ")" if os.environ.get("VERIF_C13_SRC") else "")}


def extra(ctx, ofails, notes):
    g = _gen()
    tables = g.parse_all()
    return {"tables": {op: {"circuits": len(tables[op][0]), "nodes": sum(len(n) for n, _ in tables[op][0]),
                            "max_width": max([w for _, w in tables[op][0]] + [0])} for op in OPS},
            "reflection": "check_family (vm_compute) on 11 families x 32 output bits; every (a,b) in [0,2^32)^2 decided symbolically"}


if __name__ == "__main__":
    g = _gen()
    print(json.dumps(find_counterexample(g.parse_all()), indent=1))
