"""C13 — compiled BDD circuits compute their 32-bit word functions for all inputs."""
import importlib, json, os, random, sys
from pathlib import Path

PROPS_VO = "Props/C13.vo"
EXTRA_VO = ["Model/C13Run.vo"]
PROFILES = ["release"]
RULE = ("harness c13: (i) 13200+op: node-by-node dump of the COMPILED tables (captured through the public "
        "ExecuteBDDCircuit{2W,1W}To1W traits) vs the tables generated from the *_codegen.rs text, and the proved "
        "checker re-run on the dumped tables by the oracle; (ii) 13000+op: 40 (a,b) pairs per record (boundary "
        "dictionary x shift amounts, then random mixes), compiled table evaluated in plain bool with eval_level's "
        "two-buffer slot discipline vs the model's eval_stale on the generated tables, oracle = plain word operation; "
        "(iii) 13100+op: bulk comparison inside the harness against the native Rust word operation; "
        "(iv) 13300+op: one real homomorphic evaluation per two-word circuit through the crate's public test_suite "
        "(ties Cmux(hi,lo) orientation and input-bit numbering to the real cmux / FheUintHelper). "
        "distinct = distinct (op, inputs) lines")
ASSUMPTIONS = [
    "a occupies input bits [0,32), b bits [32,64) (FheUintHelper::get_bit); identity reads a only",
    "the homomorphic cmux implements (hi - lo) * bit + lo (C15/C04 territory); here the evaluator is modelled on plain bits "
    "(one homomorphic evaluation per circuit is run through the crate's public test suite as a sanity tie)",
    "output bits >= OUTPUT_BITS (slt/sltu: bits 1..31) are the zero the evaluator writes for them",
]
TRUSTED = [
    "tools/gen_c13.py (textual translator *_codegen.rs -> Gen/C13Circuits_gen.v); cross-checked on every run against the "
    "tables compiled into the crate (13200+op records) and re-validated by running the extracted checker on the dump",
]

OPS = ["add", "sub", "sll", "srl", "sra", "slt", "sltu", "and", "or", "xor", "identity"]


def _gen():
    sys.path.insert(0, str(Path(__file__).resolve().parent.parent))
    return importlib.import_module("gen_c13")


def translate(ctx):
    g = _gen()
    info = g.main()
    if os.environ.get("VERIF_C13_SRC"):
        ctx.notes.append("VERIF_C13_SRC set: tables read from " + info["source_dir"] + " (self-test mode)")
    return info


def classify(record):
    return None


# ------------------------------------------------------------------------------------------------
# search: when the checker / the correspondence broke, find a concrete (a, b, i) on which a table differs
# from the word operation.  Works on the tables as parsed from the source text (the same input the Coq side saw);
# every candidate is confirmed by plain evaluation with eval.rs's slot discipline before it is reported.
#   1. an (untrusted) Python replica of the reflective checker locates the failing tables and, for each, the failing
#      pair (slot, spec state) together with the partial input assignment of the path leading to it; completions of
#      that assignment are tried first;
#   2. the harness compares 2*10^6 random/boundary pairs per op with the native word operation (bulk records);
#   3. structured candidates (paths through every node of every table, boundary dictionary) on the Python side.

def _maj(x, y, c):
    return (x and y) or (c and (x or y))


def automaton(op, i):
    """Python replica of A_<op> i of Model/C13Bdd.v: (next, start); next(q) -> ('L', b) | ('R', v, q1, q0)"""
    if op in ("add", "sub"):
        sub = op == "sub"

        def nxt(q):
            if q[0] == "CA":
                _, k, c = q
                return ("R", k, ("CB", k, c, True), ("CB", k, c, False))
            if q[0] == "CB":
                _, k, c, x = q
                if i <= k:
                    return ("R", 32 + k, ("CL", x ^ True ^ c), ("CL", x ^ False ^ c))
                xx = (not x) if sub else x
                return ("R", 32 + k, ("CA", k + 1, _maj(xx, True, c)), ("CA", k + 1, _maj(xx, False, c)))
            return ("L", q[1])
        return nxt, ("CA", 0, False)
    if op in ("slt", "sltu"):
        signed = op == "slt"

        def nxt(q):
            if q[0] == "PA":
                return ("R", q[1], ("PB", q[1], True), ("PB", q[1], False))
            if q[0] == "PB":
                _, k, x = q
                eq = ("PL", False) if k == 0 else ("PA", k - 1)

                def res(y):
                    return ("PL", x if (signed and k == 31) else y)
                return ("R", 32 + k, eq if x else res(True), res(False) if x else eq)
            return ("L", q[1])
        return nxt, (("PA", 31) if i == 0 else ("PL", False))
    if op in ("sll", "srl", "sra"):
        def nxt(q):
            if q[0] == "HS":
                _, k, s = q
                if k < 5:
                    return ("R", 32 + k, ("HS", k + 1, s + 2 ** k), ("HS", k + 1, s))
                if op == "sll":
                    j = i - s if s <= i else None
                elif op == "srl":
                    j = i + s if i + s < 32 else None
                else:
                    j = min(i + s, 31)
                return ("L", False) if j is None else ("R", j, ("HL", True), ("HL", False))
            return ("L", q[1])
        return nxt, ("HS", 0, 0)
    if op in ("and", "or", "xor"):
        f = {"and": lambda x, y: x and y, "or": lambda x, y: x or y, "xor": lambda x, y: x ^ y}[op]

        def nxt(q):
            if q[0] == "BA":
                return ("R", i, ("BB", True), ("BB", False))
            if q[0] == "BB":
                return ("R", 32 + i, ("BL", f(q[1], True)), ("BL", f(q[1], False)))
            return ("L", q[1])
        return nxt, ("BA",)

    def nxt(q):
        if q[0] == "BA":
            return ("R", i, ("BL", True), ("BL", False))
        return ("L", q[1])
    return nxt, ("BA",)


def _leaf_all(nxt, q, b, fuel=8):
    if fuel == 0:
        return False
    s = nxt(q)
    if s[0] == "L":
        return s[1] == b
    return _leaf_all(nxt, s[2], b, fuel - 1) and _leaf_all(nxt, s[3], b, fuel - 1)


def py_check(nodes, w, nin, nxt, q0, hint):
    """replica of `check`; returns None when the table is accepted, else a dict with the reason and the partial
    assignment (var -> 0/1) of a path from the root to the failing pair"""
    g = _gen()
    if w == 0:
        return None if _leaf_all(nxt, q0, False) else {"why": "empty table but spec not constant 0", "asg": {}}
    if not nodes or len(nodes) % w:
        return {"why": "length not a positive multiple of the width", "asg": {}}
    lv = g.levels(nodes, w)
    last = lv[-1]
    if last[0][0] != "C" or any(n[0] != "N" for n in last[1:]):
        return {"why": "last chunk is not [Cmux, None...]", "asg": {}}
    d = [True] * w
    for L, l in enumerate(lv, 1):
        nd = []
        for j, n in enumerate(l):
            if n[0] == "C":
                if n[1] >= nin or n[2] >= w or n[3] >= w or not (d[n[2]] and d[n[3]]):
                    return {"why": f"level {L} slot {j}: index out of range or read of an undefined slot", "asg": {}}
                nd.append(True)
            elif n[0] == "P":
                if not d[j]:
                    return {"why": f"level {L} slot {j}: copy of an undefined slot", "asg": {}}
                nd.append(True)
            else:
                nd.append(False)
        d = nd
    P = {(0, q0): {}}
    for L in range(len(lv), 0, -1):
        l = lv[L - 1]

        def expand(j, q, asg, fuel):
            if fuel == 0 or j >= w:
                return ("fail", asg)
            n = l[j]
            if n[0] == "N":
                return ("fail", asg)
            if n[0] == "P":
                return [(j, q, asg)]
            _, v, hi, lo = n
            s = nxt(q)
            a1, a0 = {**asg, v: 1}, {**asg, v: 0}
            if s[0] == "L":
                return [(hi, q, a1), (lo, q, a0)]
            _, v2, q1, q0_ = s
            if v2 == v:
                return [(hi, q1, a1), (lo, q0_, a0)]
            hl = hint[v2] if v2 < len(hint) else 0
            if hl == 0 or hl > L:
                x = expand(j, q1, {**asg, v2: 1}, fuel - 1)
                if isinstance(x, tuple):
                    return x
                y = expand(j, q0_, {**asg, v2: 0}, fuel - 1)
                if isinstance(y, tuple):
                    return y
                return x + y
            return [(hi, q, a1), (lo, q, a0)]
        NP = {}
        for (j, q), asg in P.items():
            r = expand(j, q, asg, 8)
            if isinstance(r, tuple):
                return {"why": f"level {L} slot {j}: no rule applies for spec state {q}", "asg": r[1]}
            for (j2, q2, a2) in r:
                NP.setdefault((j2, q2), a2)
        P = NP
    for (j, q), asg in P.items():
        if j >= w or not _leaf_all(nxt, q, j == 1):
            return {"why": f"initial slot {j} paired with spec state {q}", "asg": asg}
    return None


def _complete(asg, rng, fill=None):
    a = b = 0
    for v in range(64):
        bit = asg[v] if v in asg else (rng.getrandbits(1) if fill is None else fill)
        if bit:
            if v < 32:
                a |= 1 << v
            else:
                b |= 1 << (v - 32)
    return a, b


BOUNDARY = [0, 1, 2, 3, 0x7FFFFFFF, 0x80000000, 0x80000001, 0xFFFFFFFE, 0xFFFFFFFF, 0x55555555, 0xAAAAAAAA] + \
           [1 << k for k in range(32)] + [(1 << k) - 1 for k in range(1, 32)] + [0xFFFFFFFF ^ (1 << k) for k in range(32)]


def _paths_to(nodes, w, max_paths=3000):
    """partial assignments reaching the Cmux nodes from the root, breadth first, bounded"""
    g = _gen()
    if w == 0 or not nodes or len(nodes) % w:
        return []
    lv = g.levels(nodes, w)
    out, frontier, seen = [], [(len(lv), 0, {})], set()
    while frontier and len(out) < max_paths:
        L, j, asg = frontier.pop(0)
        if L == 0 or j >= w or (L, j) in seen:
            continue
        seen.add((L, j))
        n = lv[L - 1][j]
        if n[0] == "P":
            frontier.append((L - 1, j, asg))
        elif n[0] == "C":
            out.append(asg)
            for val, child in ((1, n[2]), (0, n[3])):
                if asg.get(n[1], val) == val:
                    frontier.append((L - 1, child, {**asg, n[1]: val}))
    return out


class Searcher:
    def __init__(self, tables, seed):
        self.g = _gen()
        self.tables = tables
        self.rng = random.Random(seed)
        self.evals = 0

    def table(self, op, i):
        circuits, nin, nout = self.tables[op]
        if i < nout and i < len(circuits):
            return circuits[i]
        return ([], 0)

    def test(self, op, i, a, b):
        """-> None when bit i of the table agrees with the word operation on (a, b), else a counterexample dict"""
        g = self.g
        circuits, nin, nout = self.tables[op]
        self.evals += 1
        want = (g.WORD_OP[op](a, b) >> i) & 1
        if i < nout and i >= len(circuits):
            got = "PANIC:missing table"
        else:
            nodes, w = self.table(op, i)
            try:
                got = int(g.eval_bit(nodes, w, g.env_of(a, b)))
            except (IndexError, ValueError, ZeroDivisionError) as ex:
                got = "PANIC:" + str(ex)
        if got != want:
            return {"op": op, "i": i, "a": a, "b": b, "got": got, "expected": want, "evaluations": self.evals}
        return None

    def guided(self, op, i, asg, n_random=4096):
        for fill in (0, 1):
            r = self.test(op, i, *_complete(asg, self.rng, fill))
            if r:
                return r
        for _ in range(n_random):
            r = self.test(op, i, *_complete(asg, self.rng))
            if r:
                return r
        return None

    def structured(self, op, i, n_random):
        nodes, w = self.table(op, i)
        for asg in _paths_to(nodes, w):
            for fill in (0, 1, None, None):
                r = self.test(op, i, *_complete(asg, self.rng, fill))
                if r:
                    return r
        for x in BOUNDARY[:11]:
            for y in BOUNDARY[:11] + list(range(0, 66)):
                r = self.test(op, i, x, y)
                if r:
                    return r
        for _ in range(n_random):
            k = self.rng.randrange(4)
            a = self.rng.getrandbits(32)
            if k == 0:
                b = self.rng.getrandbits(32)
            elif k == 1:
                b = self.rng.randrange(64)
            elif k == 2:
                b = (a + self.rng.randrange(-2, 3)) & 0xFFFFFFFF
            else:
                a, b = self.rng.choice(BOUNDARY), self.rng.choice(BOUNDARY)
            r = self.test(op, i, a, b)
            if r:
                return r
        return None

    def word_cex(self, op, a, b):
        """confirm a word-level mismatch (reported by the harness) bit by bit"""
        for i in range(32):
            r = self.test(op, i, a, b)
            if r:
                return r
        return None


def failing_tables(tables):
    """(op, i, reason-dict) for every table the Python replica of the checker rejects"""
    g = _gen()
    out = []
    for op in OPS:
        circuits, nin, nout = tables[op]
        for i in range(32):
            nxt, q0 = automaton(op, i)
            if i < nout and i < len(circuits):
                nodes, w = circuits[i]
                r = py_check(nodes, w, nin, nxt, q0, g.hint_of(nodes, w, nin))
            elif i < nout:
                r = {"why": "missing table", "asg": {}}
            else:
                r = py_check([], 0, nin, nxt, q0, [])
            if r:
                out.append((op, i, r))
    return out


def harness_bulk(ctx, n_per_op=2_000_000):
    """run the harness' bulk comparison (table word vs native Rust word op) on every op; -> [(op, a, b)] mismatches"""
    import subprocess
    binp = Path(__file__).resolve().parent.parent.parent / "harness" / "target" / "release" / "c13"
    if not binp.exists():
        return None, 0
    inp = ctx.work / "search_bulk_in.txt"
    outp = ctx.work / "search_bulk_out.txt"
    inp.write_text("".join(f"{13100 + k}#{n_per_op:x} {(ctx.seed * 1000003 + k) & 0xFFFFFFFF:x}##\n" for k in range(1, 12)))
    p = subprocess.run([str(binp), "exec", str(inp), str(outp)], stdout=subprocess.PIPE, stderr=subprocess.STDOUT, timeout=900)
    if p.returncode != 0 or not outp.exists():
        return None, 0
    hits = []
    for line in outp.read_text().splitlines():
        parts = line.split("#")
        if len(parts) == 4 and not parts[3].startswith("PANIC"):
            o = [int(x, 16) for x in parts[3].split()]
            if o and o[0] != 0:
                hits.append((OPS[int(parts[0]) % 100 - 1], o[1], o[2]))
    return hits, 11 * n_per_op


def find_counterexample(tables, ctx=None, seed=1, py_budget=300_000):
    """-> (counterexample dict | None, stats dict)"""
    S = Searcher(tables, seed)
    stats = {"failing_tables": [], "harness_bulk_evaluations": 0}
    # 1. guided by the failing pair of the checker replica
    bad = failing_tables(tables)
    stats["failing_tables"] = [f"{op}[{i}]: {r['why']}" for op, i, r in bad][:20]
    for op, i, r in bad:
        cex = S.guided(op, i, r["asg"])
        if cex:
            cex["found_by"] = "path assignment of the failing (slot, spec state) pair: " + r["why"]
            return cex, stats
    for op, i, r in bad:
        cex = S.structured(op, i, 20000)
        if cex:
            cex["found_by"] = "structured search in a table rejected by the checker: " + r["why"]
            return cex, stats
    # 2. bulk comparison inside the harness
    if ctx is not None:
        hits, n = harness_bulk(ctx)
        stats["harness_bulk_evaluations"] = n
        for (op, a, b) in hits or []:
            cex = S.word_cex(op, a, b)
            if cex:
                cex["found_by"] = "harness bulk comparison with the native word operation"
                return cex, stats
    # 3. structured candidates on every table
    n_tables = sum(min(32, max(1, tables[op][2])) for op in OPS)
    for op in OPS:
        for i in range(32):
            if i >= tables[op][2] and i > 1:
                continue          # tables beyond OUTPUT_BITS are all the same empty circuit
            cex = S.structured(op, i, max(200, py_budget // n_tables))
            if cex:
                cex["found_by"] = "structured + random search"
                return cex, stats
    stats["python_evaluations"] = S.evals
    return None, stats


def search(ctx, diffs):
    """widened search after a proof / correspondence break; returns a replay dict or None"""
    g = _gen()
    try:
        tables = g.parse_all()
    except Exception as ex:          # the source no longer parses: nothing to evaluate
        ctx.notes.append("search: tables could not be parsed: " + str(ex))
        return None
    cex, stats = find_counterexample(tables, ctx, seed=ctx.seed)
    if cex is None:
        ctx.notes.append("search: no failing input found; " + json.dumps(stats))
        return None
    return replay_of(cex, stats)


def replay_of(cex, stats=None):
    g = _gen()
    code = 13000 + OPS.index(cex["op"]) + 1
    rec = f"{code}##{cex['a']:x};{cex['b']:x}#"
    return {"property": "C13", "kind": "search-counterexample",
            "what": (f"output bit {cex['i']} of the {cex['op']} table differs from the word operation on "
                     f"a=0x{cex['a']:08x} b=0x{cex['b']:08x}: table gives {cex['got']}, word operation gives {cex['expected']}"),
            "op": cex["op"], "i": cex["i"], "a": cex["a"], "b": cex["b"], "got": cex["got"], "expected": cex["expected"],
            "found_by": cex.get("found_by"), "search": stats,
            "source_dir": str(g.src_dir()), "python_evaluations_before_hit": cex["evaluations"],
            "records": [rec],
            "replay_cmd": ("VERIF_C13_SRC=" + os.environ["VERIF_C13_SRC"] + " " if os.environ.get("VERIF_C13_SRC") else "")
                          + "python3 tools/check.py C13 --replay <this file>"}


def extra(ctx, ofails, notes):
    g = _gen()
    tables = g.parse_all()
    # count what the records actually exercised: (op, a, b) pairs, not record lines
    pairs, bulk, distinct = 0, 0, set()
    for f in sorted(ctx.work.glob("records_*.txt")):
        if "replay" in f.name:
            continue
        for line in f.read_text().splitlines():
            parts = line.split("#")
            if len(parts) < 4 or not parts[0].strip().isdigit():
                continue
            code = int(parts[0])
            if 13000 < code < 13100:
                vs = parts[2].split(";")
                if len(vs) == 2:
                    al, bl = vs[0].split(), vs[1].split()
                    pairs += len(al)
                    distinct.update((code, x, y) for x, y in zip(al, bl))
            elif 13100 < code < 13200:
                ps = parts[1].split()
                if ps:
                    bulk += int(ps[0], 16)
    return {"evaluations": pairs + bulk, "distinct_nontrivial": len(distinct),
            "pair_evaluations_model_vs_compiled": pairs, "bulk_evaluations_compiled_vs_native": bulk,
            "tables": {op: {"circuits": len(tables[op][0]), "nodes": sum(len(n) for n, _ in tables[op][0]),
                            "max_width": max([w for _, w in tables[op][0]] + [0])} for op in OPS},
            "reflection": "check_family (vm_compute) on 11 families x 32 output bits; every (a,b) in [0,2^32)^2 decided symbolically"}


def _pinpoint(rp):
    """add the exact (op, a, b, i) to an oracle-failure replay written by the generic pipeline"""
    g = _gen()
    obs = rp.get("observed", "")
    parts = obs.split("#")
    if len(parts) != 4 or parts[3].startswith("PANIC"):
        return None
    code = int(parts[0])
    op = OPS[code % 100 - 1]
    f = g.WORD_OP[op]
    if 13000 < code < 13100:
        vs = parts[2].split(";")
        al, bl = [int(x, 16) for x in vs[0].split()], [int(x, 16) for x in vs[1].split()]
        ws = [int(x, 16) for x in parts[3].split()]
        for a, b, w in zip(al, bl, ws):
            if w != f(a, b):
                d = w ^ f(a, b)
                i = (d & -d).bit_length() - 1
                return {"op": op, "a": a, "b": b, "i": i, "table_word": w, "expected_word": f(a, b)}
    elif 13100 < code < 13200:
        o = [int(x, 16) for x in parts[3].split()]
        if o and o[0]:
            d = o[3] ^ o[4]
            return {"op": op, "a": o[1], "b": o[2], "i": (d & -d).bit_length() - 1, "table_word": o[3], "expected_word": o[4],
                    "mismatches_in_bulk": o[0]}
    else:
        cex, stats = find_counterexample(g.parse_all(), None, seed=1)
        if cex:
            return {k: cex[k] for k in ("op", "a", "b", "i", "got", "expected", "found_by")}
    return None


def check(prop, tier, seed, replay):
    """the generic pipeline, then: make an oracle-failure replay name the exact (a, b, i)"""
    main = sys.modules.get("__main__")
    gc = getattr(main, "generic_check", None) or importlib.import_module("check").generic_check
    rp_file = Path(__file__).resolve().parent.parent.parent / "replays" / "C13_oracle.json"
    before = rp_file.stat().st_mtime_ns if rp_file.exists() else None
    rc = gc(prop, tier, seed, sys.modules[__name__], replay)
    if rc != 0 and rp_file.exists() and rp_file.stat().st_mtime_ns != before:
        try:
            rp = json.loads(rp_file.read_text())
            pin = _pinpoint(rp)
            if pin:
                rp["counterexample"] = pin
                rp["source_dir"] = str(_gen().src_dir())
                rp_file.write_text(json.dumps(rp, indent=1))
                print(f"C13 counterexample: op={pin['op']} a=0x{pin['a']:08x} b=0x{pin['b']:08x} bit={pin['i']}")
        except Exception as ex:      # never mask the verdict
            print("C13: could not pinpoint the counterexample:", ex)
    return rc


if __name__ == "__main__":
    g = _gen()
    cex, stats = find_counterexample(g.parse_all())
    print(json.dumps({"cex": cex, "stats": stats}, indent=1))
