"""C09 — coefficient-domain ring operations match Z[X]/(X^N+1)."""
PROPS_VO = "Props/C09.vo"
EXTRA_VO = ["Props/C09Big.vo"]      # big-accumulator family (Model/C09Big.v, Proofs/C09Big.v)
PROFILES = ["release"]
RULE = ("harness c09: 22 vec_znx ring operations through Module<BE> on four backends, flat buffers with 1..3 columns, "
        "capacity > active size, N=1..16 (to 512 in thorough), every k in [-4N,4N] plus random i64, odd g, ring ratios 1..8; "
        "whole result buffer compared with the model; oracle = spec-level image (Poly.v) written into the selected column. "
        "Big-accumulator family (harness/src/c09_big.rs, opcodes 9101..9116 = the 16 vec_znx_big_* ring operations: from_small, "
        "add_into, add_assign, add_small_into, add_small_assign, sub, sub_assign, sub_negate_assign, sub_small_a, "
        "sub_small_assign, sub_small_b, sub_small_negate_assign, negate, negate_assign, automorphism, automorphism_assign): "
        "destination a VecZnxBig whose raw words (i64 on FFT64Ref/Avx, i128 on NTT120Ref/Avx) are written/read as bytes; "
        "systematic part = every opcode x every size tuple (res, a, b) in 1..5 (every tail branch of the size rule) x three "
        "value domains (0: |x| < 2^60, both families must agree; 1: full i64 range with i64::MIN/MAX planted in every other "
        "limb, wrapping at 64 bits on the FFT64 family and exact on NTT120; 2: big words over the full i128 range with the "
        "i128 extremes and +-2^63 planted, NTT120 only), backends alternating inside each family (all four per tuple in "
        "thorough), N in {1,2,4,8}; random part = N in 1..16 plus vector lengths that are not a power of two (SIMD body + tail) "
        "for the element-wise opcodes, 1..3 columns with independent target/source columns, capacity above the active size, "
        "odd Galois exponents in [-4N,4N] and random odd i64; whole destination buffer compared word for word with the model "
        "(w = 64: Ring.v; w = 128: the ntt120 limb loops as they are); oracle = word-by-word linear spec "
        "wrap_w(ca*x + cb*y) with the size rule / sigma_p, plus the frame (every word outside the selected column unchanged)")
ASSUMPTIONS = ["release-mode (wrapping) integer semantics"]
def classify(record):
    return None
