"""C09 — coefficient-domain ring operations match Z[X]/(X^N+1)."""
PROPS_VO = "Props/C09.vo"
PROFILES = ["release"]
RULE = ("harness c09: 22 vec_znx ring operations through Module<BE> on four backends, flat buffers with 1..3 columns, "
        "capacity > active size, N=1..16 (to 512 in thorough), every k in [-4N,4N] plus random i64, odd g, ring ratios 1..8; "
        "whole result buffer compared with the model; oracle = spec-level image (Poly.v) written into the selected column")
ASSUMPTIONS = ["release-mode (wrapping) integer semantics"]
def classify(record):
    return None
