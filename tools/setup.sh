#!/bin/sh
# MANIFEST.setup_cmd: build everything from files on disk, offline.
set -e
cd "$(dirname "$0")/.."
export CARGO_NET_OFFLINE=true
mkdir -p work evidence replays
cp /repo/Cargo.lock harness/Cargo.lock
cp /repo/rust-toolchain.toml harness/rust-toolchain.toml
(cd coq && coq_makefile -f _CoqProject -o Makefile && timeout 3000 make -j16) 
(cd harness && cargo build --offline --release --features avx)
echo setup done
