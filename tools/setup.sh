#!/bin/sh
# MANIFEST.setup_cmd: build everything from files on disk, offline.  Each check rebuilds its own cone
# afterwards, so a failure in one property's files must not stop the others being prepared (-k, || true).
cd "$(dirname "$0")/.."
export CARGO_NET_OFFLINE=true
mkdir -p work evidence replays
cp /repo/Cargo.lock harness/Cargo.lock
cp /repo/rust-toolchain.toml harness/rust-toolchain.toml
python3 -c "import sys; sys.path.insert(0,'tools'); import check; check.coq_makefile()"
(cd coq && timeout 3000 make -k -j16 > ../work/setup_coq.log 2>&1) || echo "setup: some Coq files failed (see work/setup_coq.log)"
(cd harness && cargo build --offline --release --features avx --bins > ../work/setup_cargo.log 2>&1) || echo "setup: some harness binaries failed (see work/setup_cargo.log)"
echo setup done
exit 0
