#!/bin/bash
# usage: apply_fix.sh <diff file> <commit message file>
# Applies a proposed repair to /repo's working tree, runs the COMPLETE existing suite, commits only if all 651 tests pass.
diff=$1; msgf=$2; log=/tmp/apply_fix_$(basename $diff .diff).log
cd /repo || exit 2
[ -z "$(git status --porcelain --untracked-files=no)" ] || { echo "/repo not clean" | tee $log; exit 2; }
git apply "$diff" || { echo "does not apply" | tee $log; exit 3; }
export CARGO_NET_OFFLINE=true
timeout 3000 cargo test --workspace --no-fail-fast --offline > $log 2>&1
pass=$(grep -E "^test result" $log | awk '{p+=$4} END{print p}'); fail=$(grep -E "^test result" $log | awk '{f+=$6} END{print f}')
if [ "$pass" = "651" ] && [ "$fail" = "0" ]; then
  git add -A && git commit -q -F "$msgf" && echo "COMMITTED $(git rev-parse --short HEAD) $diff (651 passed)" | tee -a $log
else
  git checkout -- . ; echo "REJECTED $diff: pass=$pass fail=$fail" | tee -a $log; exit 1
fi
