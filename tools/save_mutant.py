#!/usr/bin/env python3
"""usage: save_mutant.py <lid e.g. c01b> "<needs to manifest>"   -- copies /tmp/mut_<lid>/{patch.diff,demo.rs,notes.md,confirm.log} to seeded/<LID>/ and writes meta.json"""
import sys, os, json, shutil
lid, needs = sys.argv[1], sys.argv[2]
V = os.path.dirname(os.path.dirname(os.path.abspath(__file__)))
src = f"/tmp/mut_{lid}"; dst = f"{V}/seeded/{lid[:3].upper() + lid[3:]}"
log = open(src + "/confirm.log").read()
assert "DONE" in log and "PATCH DOES NOT APPLY" not in log, "not confirmed"
wo, wi = log.split("== demo WITH change")[0], log.split("== demo WITH change")[1].split("== suite WITH change")[0]
assert "FAILED" not in wo and "test result: ok" in wo, "demo fails without the change"
assert "FAILED" in wi or "panicked" in wi, "demo does not fail with the change"
suite = log.split("== suite WITH change")[1]
passed = sum(int(l.split()[3]) for l in suite.splitlines() if l.startswith("test result"))
assert passed == 651 and "FAILED" not in suite, f"suite: {passed}"
os.makedirs(dst, exist_ok=True)
for f in ("patch.diff", "demo.rs", "notes.md", "confirm.log"):
    shutil.copy(f"{src}/{f}", dst)
meta = {"property": lid[:3].upper(), "round": 2, "needs_to_manifest": needs,
        "source": "written by an independent sub-agent given only the property text and a scratch worktree (second round: asked for a change different from the first-round one)",
        "confirmed": "lead re-ran in a fresh scratch worktree: demo fails with the change, passes without, the 651 existing tests pass with the change (confirm.log)",
        "detected_by": [], "runs": []}
json.dump(meta, open(dst + "/meta.json", "w"), indent=1)
print("saved", dst)
