#!/bin/sh
# Rewrites DESIGN.md §10.7 (the last section) from the files it is derived from.
cd "$(dirname "$0")/.." || exit 1
n=$(grep -n '^### 10.7 ' DESIGN.md | cut -d: -f1)
[ -n "$n" ] || { echo "no 10.7"; exit 1; }
head -n "$n" DESIGN.md > DESIGN.md.new
echo >> DESIGN.md.new
python3 tools/gen_design_tables.py >> DESIGN.md.new && mv DESIGN.md.new DESIGN.md
