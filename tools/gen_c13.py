#!/usr/bin/env python3
"""C13 translator: parse the `*_codegen.rs` node tables of /repo textually and write coq/Gen/C13Circuits_gen.v.

For each of the 11 u32 circuits it emits
  <op>_nin, <op>_nout : nat            INPUT_BITS / OUTPUT_BITS as declared in the file
  <op>_tab  : list circuit             one `mkC nin max_inter_state [nodes]` per output bit, in B0,B1,... order
  <op>_hint : list (list nat)          UNTRUSTED order hint per output bit: entry v = number (1 = first chunk) of the level
                                       in which input variable v first occurs, 0 = absent
The source directory can be overridden with VERIF_C13_SRC (self-tests only).  The output is rewritten only when it changes.
Also usable as a library: parse_all(), levels(), eval_word(), ...
"""
import hashlib, os, re, sys
from pathlib import Path

VERIF = Path(__file__).resolve().parent.parent
DEFAULT_SRC = Path("/repo/poulpy-bin-fhe/src/bdd_arithmetic/circuits/u32")
OUT = VERIF / "coq" / "Gen" / "C13Circuits_gen.v"

OPS = ["add", "sub", "sll", "srl", "sra", "slt", "sltu", "and", "or", "xor", "identity"]
FILES = {op: op + "_codegen.rs" for op in OPS}
FILES["identity"] = "identity_codgen.rs"   # (sic) the file name in the repository


def src_dir():
    return Path(os.environ.get("VERIF_C13_SRC") or DEFAULT_SRC)


def strip_comments(s):
    s = re.sub(r"/\*.*?\*/", " ", s, flags=re.S)
    return re.sub(r"//[^\n]*", " ", s)


NUM = r"(\d[\d_]*)\s*(?:usize|u32|u64)?"
NODE_RE = re.compile(r"Node\s*::\s*(?:(Cmux)\s*\(\s*" + NUM + r"\s*,\s*" + NUM + r"\s*,\s*" + NUM + r"\s*,?\s*\)|(Copy)|(None))")
HEAD_RE = re.compile(r"AnyBitCircuit\s*::\s*B(\d+)\s*\(\s*BitCircuit\s*::\s*new\s*\(\s*\[")
TAIL_RE = re.compile(r"\s*,\s*" + NUM + r"\s*,?\s*\)")


def num(s):
    return int(s.replace("_", ""))


def parse_file(path):
    """-> (circuits=[(nodes, max_inter_state)], input_bits, output_bits); nodes = ('C',v,hi,lo) | ('P',) | ('N',)"""
    s = strip_comments(Path(path).read_text())
    # the static table follows the enum/impl blocks; start at OUTPUT_CIRCUITS when present
    circuits = []
    for m in HEAD_RE.finditer(s):
        k = int(m.group(1))
        i = m.end()
        j = s.index("]", i)
        body = s[i:j]
        nodes = []
        pos = 0
        for t in NODE_RE.finditer(body):
            if body[pos:t.start()].strip(" \t\r\n,") != "":
                raise ValueError(f"{path}: unparsed text in circuit B{k}: {body[pos:t.start()]!r}")
            pos = t.end()
            if t.group(1):
                nodes.append(("C", num(t.group(2)), num(t.group(3)), num(t.group(4))))
            elif t.group(5):
                nodes.append(("P",))
            else:
                nodes.append(("N",))
        if body[pos:].strip(" \t\r\n,") != "":
            raise ValueError(f"{path}: unparsed text at the end of circuit B{k}: {body[pos:]!r}")
        m2 = TAIL_RE.match(s, j + 1)
        if not m2:
            raise ValueError(f"{path}: no max_inter_state after circuit B{k}")
        if k != len(circuits):
            raise ValueError(f"{path}: circuit B{k} found at position {len(circuits)}")
        circuits.append((nodes, num(m2.group(1))))
    ib = re.search(r"INPUT_BITS\s*:\s*usize\s*=\s*" + NUM, s)
    ob = re.search(r"OUTPUT_BITS\s*:\s*usize\s*=\s*" + NUM, s)
    if not ib or not ob or not circuits:
        raise ValueError(f"{path}: INPUT_BITS / OUTPUT_BITS / circuits not found")
    n_decl = re.search(r"Circuit\s*<\s*AnyBitCircuit\s*,\s*" + NUM + r"\s*>", s)
    if n_decl and num(n_decl.group(1)) != len(circuits):
        raise ValueError(f"{path}: declared {n_decl.group(1)} circuits, found {len(circuits)}")
    return circuits, num(ib.group(1)), num(ob.group(1))


def parse_all(d=None):
    d = Path(d) if d else src_dir()
    return {op: parse_file(d / FILES[op]) for op in OPS}


def levels(nodes, w):
    return [nodes[i:i + w] for i in range(0, len(nodes), w)]


def hint_of(nodes, w, nin):
    h = [0] * max(nin, 1 + max([n[1] for n in nodes if n[0] == "C"], default=0))
    if w > 0:
        for L, l in enumerate(levels(nodes, w), 1):
            for n in l:
                if n[0] == "C" and h[n[1]] == 0:
                    h[n[1]] = L
    return h


# ---- plain evaluation of a parsed table, same slot discipline as eval.rs (used by the search) ----
def eval_bit(nodes, w, bits):
    """bits: function var -> bool.  Raises IndexError/ValueError where the Rust evaluator would panic."""
    if w == 0:
        return False
    if len(nodes) % w:
        raise ValueError("len not multiple")
    level = [False] * (2 * w)
    level[1] = True
    prev, nxt = level[:w], level[w:]
    lv = levels(nodes, w)
    if not lv:
        raise ValueError("empty")
    for l in lv[:-1]:
        for j, n in enumerate(l):
            if n[0] == "C":
                h, lo = prev[n[2]], prev[n[3]]
                nxt[j] = h if bits(n[1]) else lo
            elif n[0] == "P":
                nxt[j] = prev[j]
        prev, nxt = nxt, prev
    n = lv[-1][0]
    if n[0] != "C":
        raise ValueError("invalid last node")
    h, lo = prev[n[2]], prev[n[3]]
    return h if bits(n[1]) else lo


def env_of(a, b):
    return lambda v: bool(((a >> v) & 1) if v < 32 else ((b >> (v - 32)) & 1))


def eval_word(circuits, nout, a, b):
    e = env_of(a, b)
    r = 0
    for i in range(32):
        if i < nout and i < len(circuits) and eval_bit(circuits[i][0], circuits[i][1], e):
            r |= 1 << i
    return r


def sgn(x):
    return x - (1 << 32) if x >> 31 else x


WORD_OP = {
    "add": lambda a, b: (a + b) & 0xFFFFFFFF, "sub": lambda a, b: (a - b) & 0xFFFFFFFF,
    "sll": lambda a, b: (a << (b & 31)) & 0xFFFFFFFF, "srl": lambda a, b: a >> (b & 31),
    "sra": lambda a, b: (sgn(a) >> (b & 31)) & 0xFFFFFFFF,
    "slt": lambda a, b: int(sgn(a) < sgn(b)), "sltu": lambda a, b: int(a < b),
    "and": lambda a, b: a & b, "or": lambda a, b: a | b, "xor": lambda a, b: a ^ b, "identity": lambda a, b: a,
}


# ---- Coq output ----
def coq_node(n):
    if n[0] == "C":
        return f"Cmux {n[1]} {n[2]} {n[3]}"
    return "Copy" if n[0] == "P" else "Nonode"


def coq_list(items, per_line=8, indent="   "):
    if not items:
        return "[]"
    lines = []
    for i in range(0, len(items), per_line):
        lines.append(indent + "; ".join(items[i:i + per_line]))
    return "[\n" + ";\n".join(lines) + "]"


def render(tables, d):
    h = hashlib.sha256()
    for op in OPS:
        h.update((d / FILES[op]).read_bytes())
    out = ["(* GENERATED by tools/gen_c13.py from " + str(d) + " -- never edit by hand.",
           "   sha256 of the eleven source files, concatenated in OPS order: " + h.hexdigest() + " *)",
           "From Coq Require Import List.", "From PV Require Import Model.C13Bdd.", "Import ListNotations.", ""]
    for op in OPS:
        circuits, nin, nout = tables[op]
        out.append(f"Definition {op}_nin : nat := {nin}.")
        out.append(f"Definition {op}_nout : nat := {nout}.")
        cs = []
        hs = []
        for (nodes, w) in circuits:
            cs.append(f"mkC {nin} {w} " + coq_list([coq_node(n) for n in nodes], 8, "     "))
            hs.append("[" + "; ".join(str(x) for x in hint_of(nodes, w, nin)) + "]")
        out.append(f"Definition {op}_tab : list circuit := " + ("[\n  " + ";\n  ".join(cs) + "]." if cs else "[]."))
        out.append(f"Definition {op}_hint : list (list nat) := " + ("[\n  " + ";\n  ".join(hs) + "]." if hs else "[]."))
        out.append("")
    return "\n".join(out), h.hexdigest()


def main():
    d = src_dir()
    tables = parse_all(d)
    text, digest = render(tables, d)
    OUT.parent.mkdir(parents=True, exist_ok=True)
    changed = not OUT.exists() or OUT.read_text() != text
    if changed:
        OUT.write_text(text)
    info = {"source_dir": str(d), "sha256": digest, "rewritten": changed, "output": str(OUT.relative_to(VERIF)),
            "circuits": {op: {"n": len(tables[op][0]), "input_bits": tables[op][1], "output_bits": tables[op][2],
                              "nodes": sum(len(n) for n, _ in tables[op][0])} for op in OPS}}
    return info


if __name__ == "__main__":
    import json
    print(json.dumps(main(), indent=1))
