#!/usr/bin/env python3
"""C15 translator: read the word-type constants and the bit-layout formula from
/repo/poulpy-bin-fhe/src/bdd_arithmetic/mod.rs and write coq/Gen/C15_gen.v.

For every `impl UnsignedInteger for uN` it emits
  uN_BITS, uN_LOG_BITS, uN_LOG_BYTES, uN_MASK : Z      the associated constants, translated expression by expression
  uN_bit_index : Z -> Z                                 the trait's default `bit_index` body (or the impl's override),
                                                        with Self::LOG_BYTES bound to uN_LOG_BYTES
and the list `word_types`.  Expressions are parsed with Rust's operator precedence (* / + - / << >> / & / ^ / |),
`.leading_zeros()` on a u32 value becomes `clz32`.  The repository root can be overridden with VERIF_C15_REPO
(self-tests only).  The output is rewritten only when it changes.
"""
import os, re, sys
from pathlib import Path

VERIF = Path(__file__).resolve().parent.parent
OUT = VERIF / "coq" / "Gen" / "C15_gen.v"


def repo():
    return Path(os.environ.get("VERIF_C15_REPO") or "/repo")


def strip_comments(s):
    s = re.sub(r"/\*.*?\*/", " ", s, flags=re.S)
    return re.sub(r"//[^\n]*", " ", s)


TOK = re.compile(r"\s*(?:(\d[\d_]*)(?:usize|u32|u64|i64)?|([A-Za-z_][A-Za-z_0-9]*(?:::[A-Za-z_][A-Za-z_0-9]*)*)|(<<|>>|[-+*&|^().]))")


def tokenize(s):
    out, i = [], 0
    s = s.strip()
    while i < len(s):
        m = TOK.match(s, i)
        if not m:
            raise ValueError(f"cannot tokenize {s[i:]!r}")
        i = m.end()
        if m.group(1):
            out.append(("num", int(m.group(1).replace("_", ""))))
        elif m.group(2):
            out.append(("id", m.group(2)))
        else:
            out.append(("op", m.group(3)))
    return out


class P:
    """recursive descent with Rust precedence; produces a Gallina term (string)"""
    LEVELS = [["|"], ["^"], ["&"], ["<<", ">>"], ["+", "-"], ["*"]]
    FN = {"|": "Z.lor", "^": "Z.lxor", "&": "Z.land", "<<": "Z.shiftl", ">>": "Z.shiftr", "+": "Z.add", "-": "Z.sub", "*": "Z.mul"}

    def __init__(self, toks, env):
        self.t, self.i, self.env = toks, 0, env

    def peek(self):
        return self.t[self.i] if self.i < len(self.t) else (None, None)

    def eat(self):
        x = self.t[self.i]
        self.i += 1
        return x

    def expr(self, lvl=0):
        if lvl == len(self.LEVELS):
            return self.postfix()
        a = self.expr(lvl + 1)
        while self.peek()[0] == "op" and self.peek()[1] in self.LEVELS[lvl]:
            op = self.eat()[1]
            b = self.expr(lvl + 1)
            a = f"({self.FN[op]} {a} {b})"
        return a

    def postfix(self):
        a = self.atom()
        while True:
            k, v = self.peek()
            if k == "op" and v == ".":
                self.eat()
                name = self.eat()
                if name != ("id", "leading_zeros"):
                    raise ValueError(f"unsupported method {name}")
                if self.eat() != ("op", "(") or self.eat() != ("op", ")"):
                    raise ValueError("leading_zeros()")
                a = f"(clz32 {a})"
            elif k == "id" and v == "as":
                self.eat()
                self.eat()          # the target type: all values are small non-negative integers here
            else:
                return a

    def atom(self):
        k, v = self.eat()
        if k == "num":
            return str(v)
        if k == "op" and v == "(":
            a = self.expr()
            if self.eat() != ("op", ")"):
                raise ValueError("expected )")
            return a
        if k == "id":
            if v in self.env:
                return self.env[v]
            m = re.fullmatch(r"u(\d+)::BITS", v)
            if m:
                return m.group(1)
            raise ValueError(f"unknown identifier {v}")
        raise ValueError(f"unexpected token {v}")


def gallina(expr, env):
    p = P(tokenize(expr), env)
    r = p.expr()
    if p.i != len(p.t):
        raise ValueError(f"trailing tokens in {expr!r}")
    return r


def block_after(s, start):
    """the {...} block whose opening brace is the first one at or after `start`"""
    i = s.index("{", start)
    depth, j = 0, i
    while True:
        if s[j] == "{":
            depth += 1
        elif s[j] == "}":
            depth -= 1
            if depth == 0:
                return s[i + 1:j]
        j += 1


def fn_body(block, name):
    m = re.search(r"fn\s+" + name + r"\s*\(\s*(\w+)\s*:\s*usize\s*\)\s*->\s*usize", block)
    if not m:
        return None
    return m.group(1), block_after(block, m.end()).strip()


def main():
    src = repo() / "poulpy-bin-fhe" / "src" / "bdd_arithmetic" / "mod.rs"
    s = strip_comments(src.read_text())
    tr = re.search(r"pub\s+trait\s+UnsignedInteger\b", s)
    if not tr:
        raise ValueError("trait UnsignedInteger not found")
    default = fn_body(block_after(s, tr.end()), "bit_index")
    if not default:
        raise ValueError("default bit_index not found")
    lines = ["(* generated by tools/gen_c15.py from " + str(src) + " -- do not edit *)",
             "From Coq Require Import ZArith List.", "Import ListNotations.", "Open Scope Z_scope.",
             "(* u32::leading_zeros *)",
             "Definition clz32 (x : Z) : Z := 32 - (if x =? 0 then 0 else Z.log2 x + 1)."]
    types = []
    for m in re.finditer(r"impl\s+UnsignedInteger\s+for\s+u(\d+)\b", s):
        nm = "u" + m.group(1)
        blk = block_after(s, m.end())
        consts = {}
        for cm in re.finditer(r"const\s+(\w+)\s*:\s*\w+\s*=\s*(.*?);", blk, flags=re.S):
            consts[cm.group(1)] = cm.group(2)
        env = {"u32::BITS": "32"}
        for c in ["BITS", "LOG_BITS", "LOG_BYTES", "LOG_BYTES_MASK"]:
            if c not in consts:
                raise ValueError(f"{nm}: const {c} missing")
            term = gallina(consts[c], env)
            coqname = f"{nm}_{'MASK' if c == 'LOG_BYTES_MASK' else c}"
            lines.append(f"Definition {coqname} : Z := {term}.")
            env["Self::" + c] = coqname
            env["T::" + c] = coqname
        ov = fn_body(blk, "bit_index")
        var, body = ov if ov else default
        env2 = dict(env)
        env2[var] = "i"
        lines.append(f"Definition {nm}_bit_index (i : Z) : Z := {gallina(body, env2)}.")
        types.append((nm, bool(ov)))
    if not types:
        raise ValueError("no impl UnsignedInteger found")
    lines.append("(* (BITS, LOG_BITS, LOG_BYTES, MASK, bit_index) per word type *)")
    lines.append("Definition word_types : list (Z * Z * Z * Z * (Z -> Z)) :=\n  [" +
                 ";\n   ".join(f"({n}_BITS, {n}_LOG_BITS, {n}_LOG_BYTES, {n}_MASK, {n}_bit_index)" for n, _ in types) + "].")
    text = "\n".join(lines) + "\n"
    if not OUT.exists() or OUT.read_text() != text:
        OUT.parent.mkdir(exist_ok=True)
        OUT.write_text(text)
    return {"source": str(src), "word_types": [n for n, _ in types], "bit_index_overrides": [n for n, o in types if o],
            "default_bit_index": default[1]}


if __name__ == "__main__":
    print(main())
