#!/usr/bin/env python3
"""Apply a batch of proposed repairs to /repo as separate commits, run the COMPLETE suite once on the result;
if it is not 651/0, roll the whole batch back.  usage: apply_batch.py <batch name>"""
import subprocess, sys, os
PF = "/verif/work/proposed_fixes/"
MSG = {
 "C19_gglwe_to_ggsw_key_compressed.diff": "fix: compressed GGLWE-to-GGSW key encryption stores the per-cell seeds it drew; add the missing decompression impl\n\nThe seeds were written into a to_mut() temporary holding clones of the seed vectors, so the object kept all-zero seeds and\ndecompression regenerated every mask from Source::new([0;32]): the decompressed key was not an encryption under sk.\nGGLWEToGGSWKeyDecompress had no impl for Module<B>.",
 "C01_sk_plaintext_radix.diff": "fix: secret-key encryption asserts that the plaintext uses the ciphertext's limb radix, as the public-key path does\n\nglwe_encrypt_sk, glwe_compressed_encrypt_sk and lwe_encrypt_sk never looked at pt.base2k: a plaintext of another radix was\nadded limb for limb at the wrong torus position and silently decrypted to another message.",
 "C18_hal_read_from_checked.diff": "fix: VecZnx/ScalarZnx/MatZnx::read_from use checked header arithmetic and keep max_size within the receiver\n\nThe header products n*cols*size*8 overflowed (debug: panic, release: wrapped acceptance committing e.g. n = 2^61 over a\n64-byte buffer) and max_size was committed unchecked, so that set_size(max_size) then addressed limbs outside the buffer.",
 "C18_core_wrappers_commit_after.diff": "fix: core layouts commit deserialised metadata only after the inner read succeeded\n\nGLWE, LWE, GGLWE, GGSW, keys and compressed forms assigned base2k, dsize, rank, seeds straight from the stream before\ndelegating, so a truncated stream returned Err with the metadata already changed; base2k = 0 / dsize = 0 were accepted\n(later size queries divide by zero) and the seed vector was allocated from an unchecked count.",
 "C18_binfhe_dist_commit_after.diff": "fix: blind-rotation key read_from commits the distribution after all keys were read",
 "C18_distribution_payload_checked.diff": "fix: Distribution writer rejects integer payloads that collide with the tag byte (>= 2^56)\n\nTernaryFixed(2^56) was written without error and read back as TernaryProb(0.0).",
 "C05_fft64_cnv_apply_res_col.diff": "fix: FFT64 cnv_apply_dft / cnv_pairwise_apply_dft honour res_col in a multi-column destination\n\nLimb k was stored at flat slot k of the whole buffer, ignoring res_col and res.cols() (NTT120 honours them).",
 "C05_relinearize_tensor_radix.diff": "fix: glwe_tensor_relinearize decides the radix conversion from the tensor's radix, not the result's\n\nWith tensor radix != key radix = result radix the key-switched columns were taken in the wrong radix and the\nresult decrypted to garbage.",
 "C05_gglwe_product_dsize3_stale_limb.diff": "fix: gglwe_product_dft zeroes its accumulator before the digit loop\n\nFor dsize >= 3 the first (truncated) product does not write the last dsize - 2 limbs, which the following digits\naccumulate into: the result depended on what the scratch held.",
 "C04_cmux_stale_accumulator.diff": "fix: glwe_external_product_internal zeroes the limbs its truncated first product does not write\n\ncmux takes res_dft from scratch without zeroing it; for dsize >= 3 the later digits accumulated into stale limbs,\nso cmux results depended on the scratch contents (and differed between backends).",
 "C04_gglwe_external_product_res_dnum.diff": "fix: gglwe_external_product iterates over min(res.dnum, a.dnum) rows before zeroing the extra ones\n\nWith res.dnum() > a.dnum() it indexed rows of a that do not exist (slice index panic); ggsw_external_product already uses min().",
 "C03_glwe_packer_cross_radix.diff": "fix: glwe_packer_add normalises an input of another radix before combining it\n\nOnly the empty-accumulator path normalised; combine() then panicked on a base2k assertion, or glwe_rotate copied the\nlimbs unchecked and the radix was silently re-labelled (wrong plaintext).",
 "C12_cnv_size_query_args.diff": "fix: core passes convolution size queries their arguments in the order the HAL reads them\n\nglwe_mul_plain/_const/tensor size queries passed (res_size, cnv_offset) where (cnv_offset, res_size) is read (and the\nconverse for the pairwise query), so the declared scratch was too small; the pairwise trait parameters are renamed to\nmatch what the delegate forwards.",
 "C12_big_normalize_tmp_bytes.diff": "fix: glwe_decrypt / glwe_encrypt_pk tmp_bytes reserve vec_znx_big_normalize_tmp_bytes for the call they make\n\nThey reserved vec_znx_normalize_tmp_bytes (24n) but call vec_znx_big_normalize (48n on NTT120): one-limb ciphertexts\nran out of scratch.",
 "C12_keyswitch_cross_radix_big_normalize.diff": "fix: key-switch tmp_bytes counts the big-normalisation beside the cross-radix temporary",
 "C12_glwe_trace_sizing.diff": "fix: glwe_trace tmp_bytes and inner assertion agree on one temporary\n\nglwe_trace took its temporary and called glwe_trace_assign, whose entry assertion demanded the temporary again: with\nexactly the declared size the call always panicked when the radices coincide (also through glwe_pack).",
 "C12_fhe_uint_prepare_thread_size.diff": "fix: fhe_uint_prepare_tmp_bytes rounds its levels up to the scratch alignment\n\nThe per-thread size was not a multiple of 64, so threads * tmp_bytes passed the assertion and split_mut then ran out of space.",
 "C12_ggsw_expand_rows_res_dft.diff": "fix: ggsw_expand_rows_tmp_bytes sizes res_dft with the key size the code takes",
 "C16_dot_product_ct_mixed_meta_scale.diff": "fix: ckks_dot_product_ct fused path uses max(log_budget) + max(log_delta) as convolution offset (as ct x ct mul)",
 "C16_many_single_input_stale_meta.diff": "fix: ckks_add_many / ckks_mul_many with one input check the budget before assigning metadata",
 "C16_mul_noncompact_operand_error.diff": "fix: CKKS products return OperandNotCompact instead of panicking in poulpy-core on operands with spare limbs",
 "C08_encode_first_carry.diff": "fix: integer encoders compute their carry without forming x - digit\n\n(x.wrapping_sub(digit)) >> base2k wraps for x at the top of the i64 / i128 range with a negative balanced digit, so for\nk above the word width the limbs encoded v - 2^w (base2k = 62, k = 124, v = i64::MAX gave limbs [-2, -1]).", "C14_extended_unit_monomial.diff": "fix: extended block-binary blind rotation no longer skips the unit-monomial terms\n\nWhen ai_lo != 0 the guards ai_hi != 0 and (ai_hi + 1) & (2N - 1) != 0 skipped the terms X^0 * acc[j] - acc[i] with j != i:\nthe accumulator ended on a neighbouring table entry (probability about (ext-1)/(N*ext) per selected coefficient).", "C14_mod_switch_small_radix.diff": "fix: mod_switch_2n for LWE radices not above log2(2N)+1 keeps log2(2N) bits, signs every limb and rounds once\n\nThe small-radix branch returned twice the torus value, truncated, and negated only limb 0 for the Left direction\n(mod_switch_2n(16, base2k = 5, limb0 = -8, Right) returned -8 instead of -4).", "C15_cbt_exponent_trace.diff": "fix: circuit bootstrapping post-processing traces down to multiples of 2^log_gap_in\n\nglwe_trace(log_n - log_gap_in + 1) keeps multiples of 2^(log_gap_in - 1): in the trace-only branch (exponent mode,\nlog_gap_out == log_gap_in) the lookup-table entry of another gadget row survived and every row but the first was wrong.",
}
BATCH = {
 "c18": ["C18_hal_read_from_checked.diff", "C18_core_wrappers_commit_after.diff", "C18_binfhe_dist_commit_after.diff", "C18_distribution_payload_checked.diff"],
 "c345": ["C05_fft64_cnv_apply_res_col.diff", "C05_relinearize_tensor_radix.diff", "C05_gglwe_product_dsize3_stale_limb.diff", "C04_cmux_stale_accumulator.diff", "C04_gglwe_external_product_res_dnum.diff", "C03_glwe_packer_cross_radix.diff"],
 "c12": ["C12_cnv_size_query_args.diff", "C12_big_normalize_tmp_bytes.diff", "C12_keyswitch_cross_radix_big_normalize.diff", "C12_glwe_trace_sizing.diff", "C12_fhe_uint_prepare_thread_size.diff", "C12_ggsw_expand_rows_res_dft.diff"],
 "misc1": ["C08_encode_first_carry.diff", "C15_cbt_exponent_trace.diff"],
 "enc": ["C19_gglwe_to_ggsw_key_compressed.diff", "C01_sk_plaintext_radix.diff"],
 "c14": ["C14_mod_switch_small_radix.diff", "C14_extended_unit_monomial.diff"],
 "c16": ["C16_dot_product_ct_mixed_meta_scale.diff", "C16_many_single_input_stale_meta.diff", "C16_mul_noncompact_operand_error.diff"],
}
def sh(*a, **k): return subprocess.run(a, capture_output=True, text=True, **k)
name = sys.argv[1]
os.chdir("/repo")
assert sh("git", "status", "--porcelain", "--untracked-files=no").stdout.strip() == "", "/repo not clean"
base = sh("git", "rev-parse", "HEAD").stdout.strip()
done = []
for d in BATCH[name]:
    r = sh("git", "apply", PF + d)
    if r.returncode != 0:
        print("DOES NOT APPLY", d, r.stderr[:300]); continue
    sh("git", "add", "-A"); sh("git", "commit", "-q", "-m", MSG[d])
    done.append((d, sh("git", "rev-parse", "--short", "HEAD").stdout.strip()))
env = dict(os.environ, CARGO_NET_OFFLINE="true")
r = subprocess.run(["timeout", "3000", "cargo", "test", "--workspace", "--no-fail-fast", "--offline"], capture_output=True, text=True, env=env)
out = r.stdout + r.stderr
p = sum(int(l.split()[3]) for l in out.splitlines() if l.startswith("test result"))
f = sum(int(l.split()[5]) for l in out.splitlines() if l.startswith("test result"))
open(f"/tmp/apply_batch_{name}.log", "w").write(out)
if p == 651 and f == 0:
    print("BATCH", name, "COMMITTED:", done)
else:
    sh("git", "reset", "--hard", base)
    print("BATCH", name, f"ROLLED BACK: pass={p} fail={f}; failing:", [l for l in out.splitlines() if "FAILED" in l or "panicked" in l][:10])
