#!/bin/bash
# usage: confirm_mutant.sh <cXX> <demo crate> [extra cargo args for the demo, quoted] [RUSTFLAGS for the demo]
# Confirms in the scratch worktree /tmp/wt_<cXX>: demo fails with the change, passes without, whole suite passes with the change.
id=$1; crate=$2; extra=$3; rf=$4
wt=/tmp/wt_$id; out=/tmp/mut_$id/confirm.log
cd $wt || exit 2
export CARGO_NET_OFFLINE=true
demo=$(git status --porcelain | grep '^??' | grep mut_demo | awk '{print $2}' | head -1)
echo "demo file: $demo" > $out
run_demo() { RUSTFLAGS="$rf" timeout 1800 cargo test -p $crate $extra --test mut_demo --offline 2>&1 | tail -15; }
echo "== demo WITH change" >> $out; run_demo >> $out; 
git stash -q; echo "== demo WITHOUT change" >> $out; run_demo >> $out; git stash pop -q
mv $demo /tmp/mut_$id/demo_aside.rs
echo "== suite WITH change" >> $out
timeout 3000 cargo test --workspace --no-fail-fast --offline 2>&1 | grep -E "^test result|FAILED|failed" >> $out
mv /tmp/mut_$id/demo_aside.rs $demo
echo DONE >> $out
