#!/bin/bash
# usage: confirm_mutant.sh <cXX> <demo crate dir> [extra cargo args for the demo, quoted] [RUSTFLAGS for the demo]
# Confirms in a FRESH scratch worktree of /repo's HEAD: demo passes without the change, fails with it, whole existing suite passes with it.
id=$1; crate=$2; extra=$3; rf=$4
cw=/tmp/cw_$id; out=/tmp/mut_$id/confirm.log
git -C /repo worktree remove --force $cw 2>/dev/null
git -C /repo worktree add -q $cw HEAD || exit 2
cd $cw
export CARGO_NET_OFFLINE=true
export CARGO_TARGET_DIR=/tmp/wt_$id/target
echo "base: $(git rev-parse --short HEAD)" > $out
mkdir -p $crate/tests; cp /tmp/mut_$id/demo.rs $crate/tests/mut_demo.rs
run_demo() { RUSTFLAGS="$rf" timeout 2400 cargo test -p $crate $extra --test mut_demo --offline 2>&1 | grep -E "^test |test result|panicked|error" | head -30; }
echo "== demo WITHOUT change" >> $out; run_demo >> $out
git apply /tmp/mut_$id/patch.diff || { echo "PATCH DOES NOT APPLY" >> $out; exit 3; }
echo "== demo WITH change" >> $out; run_demo >> $out
rm $crate/tests/mut_demo.rs
echo "== suite WITH change" >> $out
timeout 3000 cargo test --workspace --no-fail-fast --offline 2>&1 | grep -E "^test result|FAILED|failed" >> $out
echo DONE >> $out
cd /; git -C /repo worktree remove --force $cw
