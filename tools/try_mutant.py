#!/usr/bin/env python3
"""Apply a seeded change to /repo, run the given checks, undo the change, record which checks reported it.
usage: try_mutant.py <seeded dir name> <Cxx> [<Cyy> ...]"""
import json, os, subprocess, sys, time
from pathlib import Path
V = Path(__file__).resolve().parent.parent
name, checks = sys.argv[1], sys.argv[2:]
d = V / "seeded" / name
patch = d / "patch.diff"
assert subprocess.run(["git", "-C", "/repo", "status", "--porcelain", "--untracked-files=no"], capture_output=True, text=True).stdout.strip() == "", "/repo not clean"
subprocess.run(["git", "-C", "/repo", "apply", str(patch)], check=True)
res = {}
try:
    env = dict(os.environ, PV_OUT_DIR=str(V / "work" / "mutant_out" / name))
    procs = {c: subprocess.Popen(["python3", "tools/check.py", c], cwd=V, env=env, stdout=subprocess.PIPE, stderr=subprocess.STDOUT, text=True) for c in checks}
    for c, p in procs.items():
        out = p.communicate()[0]
        lines = [l for l in out.splitlines() if l.startswith("VIOLATION") or l.startswith(c + ":")]
        res[c] = {"exit": p.returncode, "lines": lines}
        print(c, p.returncode, *lines, sep="\n  ")
finally:
    subprocess.run(["git", "-C", "/repo", "checkout", "--", "."], check=True)
meta_f = d / "meta.json"
meta = json.loads(meta_f.read_text()) if meta_f.exists() else {}
meta.setdefault("runs", []).append({"at": time.strftime("%Y-%m-%dT%H:%M:%S"), "results": res})
meta["detected_by"] = sorted(set(meta.get("detected_by", [])) | {c for c, r in res.items() if r["exit"] == 1 and any(l.startswith("VIOLATION") for l in r["lines"])})
meta_f.write_text(json.dumps(meta, indent=1))
