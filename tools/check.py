#!/usr/bin/env python3
"""Single entry point of the poulpy verification machinery.

    check.py <Cxx> [--tier quick|thorough] [--replay <file>]

For one property it
  1. re-runs the translators that regenerate Coq sources from /repo (if the property has any),
  2. rebuilds the property's Coq cone (full .vo build through the coq_makefile Makefile) and audits it
     (forbidden vernacular, Print Assumptions against an allow-list),
  3. re-extracts the executable model and rebuilds the OCaml driver,
  4. rebuilds the Rust harness from /repo's current working tree, runs the implementation on generated
     inputs and the extracted model + the spec-level oracle on the same records,
  5. decides: exit 0 / KNOWN-FINDING lines / VIOLATION property=<id> replay=<file> [no-failing-input-found],
  6. rewrites evidence/<id>.json.
"""
import argparse, atexit, fcntl, hashlib, importlib, json, os, re, shutil, subprocess, sys, time
from pathlib import Path

VERIF = Path(__file__).resolve().parent.parent
COQ = VERIF / "coq"
OCAML = VERIF / "ocaml"
HARNESS = VERIF / "harness"
WORK = VERIF / "work"
sys.path.insert(0, str(VERIF / "tools"))

ENV = dict(os.environ, CARGO_NET_OFFLINE="true")

ALLOWED_AXIOMS = {
    # standard-library axioms that may appear (each is named in DESIGN.md §6 and in the evidence)
    "ClassicalDedekindReals.sig_forall_dec", "ClassicalDedekindReals.sig_not_dec",
    "FunctionalExtensionality.functional_extensionality_dep", "Classical_Prop.classic",
}

FORBIDDEN = [
    r"\bAdmitted\b", r"\badmit\b", r"\bAxiom\b", r"\bAxioms\b", r"\bParameter\b", r"\bParameters\b",
    r"\bConjecture\b", r"Unset\s+Guard\s+Checking", r"Unset\s+Positivity\s+Checking",
    r"Unset\s+Universe\s+Checking", r"bypass_check", r"type-in-type", r"impredicative-set",
    r"Admit\s+Obligations", r"\bnative_compute\b",
]


class Lock:
    def __init__(self, name):
        WORK.mkdir(exist_ok=True)
        self.path = WORK / (name + ".lock")
    def __enter__(self):
        self.f = open(self.path, "w")
        fcntl.flock(self.f, fcntl.LOCK_EX)
    def __exit__(self, *a):
        fcntl.flock(self.f, fcntl.LOCK_UN)
        self.f.close()


def run(cmd, cwd=None, timeout=1800, env=None):
    p = subprocess.run(cmd, cwd=cwd, env=env or ENV, stdout=subprocess.PIPE, stderr=subprocess.STDOUT,
                       timeout=timeout, text=True, errors="replace")
    return p.returncode, p.stdout


def strip_comments(src):
    out, depth, i = [], 0, 0
    while i < len(src):
        if src.startswith("(*", i):
            depth += 1; i += 2
        elif src.startswith("*)", i) and depth > 0:
            depth -= 1; i += 2
        else:
            if depth == 0:
                out.append(src[i])
            i += 1
    return "".join(out)


def cone(files):
    """the given .v files and everything they depend on inside the development (coqdep -sort)"""
    rc, out = run(["coqdep", "-Q", ".", "PV", "-sort"] + files, cwd=COQ)
    return [COQ / f for f in out.split() if f.endswith(".v") and (COQ / f).exists()]


def audit_sources(files):
    """grep the property's cone for forbidden vernacular; Variable/Hypothesis only inside sections"""
    problems = []
    for f in cone(files):
        src = strip_comments(f.read_text())
        for pat in FORBIDDEN:
            for m in re.finditer(pat, src):
                problems.append(f"{f.relative_to(VERIF)}: forbidden `{m.group(0)}`")
        depth = 0
        for sent in re.split(r"\.\s", src):
            s = sent.strip()
            if re.match(r"Section\s+\w+", s):
                depth += 1
            elif re.match(r"End\s+\w+", s) and depth > 0:
                depth -= 1
            elif depth == 0 and re.match(r"(Variable|Variables|Hypothesis|Hypotheses|Context)\b", s):
                problems.append(f"{f.relative_to(VERIF)}: `{s.split()[0]}` outside a section")
    return problems


def coq_makefile():
    with Lock("coq"):
        mk = COQ / "Makefile"
        cp = COQ / "_CoqProject"
        files = sorted(str(f.relative_to(COQ)) for d in ["Base", "Model", "Proofs", "Props", "Gen"] for f in (COQ / d).rglob("*.v"))
        want = "-Q . PV\n" + "\n".join(files) + "\n"
        if not cp.exists() or cp.read_text() != want:
            cp.write_text(want)
        if not mk.exists() or mk.stat().st_mtime < cp.stat().st_mtime:
            rc, out = run(["coq_makefile", "-f", "_CoqProject", "-o", "Makefile"], cwd=COQ)
            if rc != 0:
                raise RuntimeError("coq_makefile failed:\n" + out)


def coq_build(targets, timeout=1500):
    """full .vo build of the given targets; returns (ok, log)"""
    coq_makefile()
    with Lock("coq"):
        rc, out = run(["timeout", str(timeout), "make", "-j16"] + targets, cwd=COQ, timeout=timeout + 30)
    return rc == 0, out


def print_assumptions(props_v):
    """compile the property file on its own and parse the Print Assumptions output.
    returns (ok, [(theorem, [axioms])], raw)"""
    with Lock("coq"):
        rc, out = run(["timeout", "600", "coqc", "-Q", ".", "PV", props_v], cwd=COQ, timeout=700)
    if rc != 0:
        return False, [], out
    src = strip_comments((COQ / props_v).read_text())
    names = re.findall(r"Print\s+Assumptions\s+([\w.']+)\s*\.", src)
    blocks = []
    cur = None
    for line in out.splitlines():
        if line.startswith("Closed under the global context"):
            blocks.append([])
            cur = None
        elif line.startswith("Axioms:"):
            cur = []
            blocks.append(cur)
        elif cur is not None:
            m = re.match(r"^([\w.']+)\s*:", line)
            if m:
                cur.append(m.group(1))
    res = list(zip(names, blocks))
    ok = len(names) == len(blocks) and len(names) > 0
    return ok, res, out


def build_driver(prop):
    """extract the model of property `prop` and build its OCaml driver; returns path of the binary"""
    low = prop.lower()
    d = OCAML / "gen" / low
    d.mkdir(parents=True, exist_ok=True)
    ext = COQ / "Extract" / f"Extract{prop}.v"
    with Lock("ocaml_" + low):
        rc, out = run(["timeout", "600", "coqc", "-Q", str(COQ), "PV", "-o", str(d / f"Extract{prop}.vo"), str(ext)], cwd=d)
        if rc != 0:
            raise RuntimeError("extraction failed:\n" + out)
        h = hashlib.sha256()
        for f in [d / "model.ml", d / "model.mli", OCAML / "driver.ml"]:
            h.update(f.read_bytes())
        stamp = d / "drv.stamp"
        if not (d / "drv").exists() or not stamp.exists() or stamp.read_text() != h.hexdigest():
            shutil.copy(OCAML / "driver.ml", d / "driver.ml")
            rc, out = run(["ocamlfind", "ocamlopt", "-O3", "-w", "-a", "model.mli", "model.ml", "driver.ml", "-o", "drv"], cwd=d)
            if rc != 0:
                raise RuntimeError("driver build failed:\n" + out)
            stamp.write_text(h.hexdigest())
    return d / "drv"


def build_harness(prop, profile="release"):
    """rebuild the harness from /repo's working tree (cargo decides what changed)"""
    for f in ["Cargo.lock", "rust-toolchain.toml"]:
        src, dst = Path("/repo") / f, HARNESS / f
        if src.exists() and (not dst.exists() or src.read_bytes() != dst.read_bytes()):
            shutil.copy(src, dst)
    cmd = ["cargo", "build", "--offline", "--features", "avx", "--bin", prop.lower()] + (["--release"] if profile == "release" else [])
    with Lock("cargo"):
        rc, out = run(cmd, cwd=HARNESS, timeout=3000)
    if rc != 0:
        return None, out
    return HARNESS / "target" / ("release" if profile == "release" else "debug") / prop.lower(), out


def parse_verdicts(text):
    res = []
    for line in text.splitlines():
        parts = line.split(" ", 3)
        if len(parts) >= 3 and parts[0].isdigit():
            res.append((int(parts[0]), parts[1], int(parts[2]), parts[3] if len(parts) > 3 else ""))
    return res


def load_known():
    f = VERIF / "known_findings.json"
    if not f.exists():
        return []
    return json.loads(f.read_text()).get("findings", [])


# 128+signal as reported through a shell, and 101 = a Rust panic that escaped the per-record guard (the harness's own
# `expect` on a call that must succeed on honest inputs, e.g. reading back what was just written)
CRASH_CODES = (101, 132, 134, 135, 136, 139)


class ImplCrash(Exception):
    """the harness process (that is: the library under test) died with a signal on this record"""
    def __init__(self, record, rc):
        super().__init__(f"implementation died with signal/exit {rc}")
        self.record, self.rc = record, rc


class Ctx:
    """what a property module gets to work with"""
    def __init__(self, prop, tier, seed):
        self.prop, self.tier, self.seed = prop, tier, seed
        self.low = prop.lower()
        # one scratch directory per run: two concurrent runs of the same property must not share record files
        self.work = WORK / self.low / f"run{os.getpid()}"
        self.work.mkdir(parents=True, exist_ok=True)
        atexit.register(shutil.rmtree, str(self.work), True)
        self.notes = []
        self.t0 = time.time()

    def harness_gen(self, binpath, tier, seed, tag=""):
        out = self.work / f"records{tag}.txt"
        rc, log = run([str(binpath), "gen", tier, str(seed), str(out)], timeout=3000)
        if rc < 0 or rc in CRASH_CODES:
            # the implementation died with a signal (not a Rust panic: those are caught per record): find the record
            lst = self.work / f"list{tag}.txt"
            rc2, _ = run([str(binpath), "list", tier, str(seed), str(lst)], timeout=3000)
            if rc2 == 0:
                rec = self.find_crash(binpath, lst.read_text().splitlines(), tag)
                if rec is not None:
                    raise ImplCrash(rec, rc)
        if rc != 0:
            raise RuntimeError(f"harness gen failed ({rc}):\n{log[-3000:]}")
        return out

    def find_crash(self, binpath, lines, tag):
        """smallest prefix of the record list on which the harness process dies with a signal -> its last record"""
        inp, outp = self.work / f"crash_in{tag}.txt", self.work / f"crash_out{tag}.txt"
        def dies(k):
            inp.write_text("\n".join(lines[:k]) + "\n")
            rc, _ = run([str(binpath), "exec", str(inp), str(outp)], timeout=3000)
            return rc < 0 or rc in CRASH_CODES
        if not lines or not dies(len(lines)):
            return None
        lo, hi = 0, len(lines)          # dies(hi) holds, dies(lo) does not
        while hi - lo > 1:
            mid = (lo + hi) // 2
            if dies(mid):
                hi = mid
            else:
                lo = mid
        rec = lines[hi - 1]
        inp.write_text(rec + "\n")
        rc, _ = run([str(binpath), "exec", str(inp), str(outp)], timeout=3000)
        return rec if (rc < 0 or rc in CRASH_CODES) else None

    def harness_exec(self, binpath, inp, tag="_replay"):
        out = self.work / f"records{tag}.txt"
        rc, log = run([str(binpath), "exec", str(inp), str(out)], timeout=3000)
        if rc < 0 or rc in CRASH_CODES:
            rec = self.find_crash(binpath, Path(inp).read_text().splitlines(), tag)
            if rec is not None:
                raise ImplCrash(rec, rc)
        if rc != 0:
            raise RuntimeError(f"harness exec failed ({rc}):\n{log[-3000:]}")
        return out

    def drive(self, drv, records):
        # the extracted model recurses structurally on lists (not tail-recursive): large ring degrees of the thorough
        # tier need more than the default 8 MB of native stack
        rc, out = run(["bash", "-c", 'ulimit -s unlimited 2>/dev/null || ulimit -s 1000000; exec "$0" "$1"', str(drv), str(records)], timeout=3000)
        if rc != 0:
            raise RuntimeError("driver failed:\n" + out[-3000:])
        return parse_verdicts(out)


def out_root():
    # PV_OUT_DIR is set by tools/try_mutant.py only: a run against a seeded change must not overwrite the evidence
    # and replays of the unchanged tree
    o = os.environ.get("PV_OUT_DIR")
    if o:
        Path(o).mkdir(parents=True, exist_ok=True)
        return Path(o)
    return VERIF


def write_replay(prop, name, payload):
    d = out_root() / "replays"
    d.mkdir(exist_ok=True)
    f = d / f"{prop}_{name}.json"
    f.write_text(json.dumps(payload, indent=1))
    return f


def write_evidence(prop, ev):
    d = out_root() / "evidence"
    d.mkdir(exist_ok=True)
    (d / f"{prop}.json").write_text(json.dumps(ev, indent=1))


def generic_check(prop, tier, seed, cfg, replay=None):
    """The common pipeline.  `cfg` is the property module (tools/props/<cxx>.py)."""
    t0 = time.time()
    ctx = Ctx(prop, tier, seed)
    violations = []      # (kind, detail dict)
    known_lines = []
    notes = []
    trusted = ["Coq 8.16.1 kernel (coqc; vm_compute used for reflection/finite sweeps; no native_compute)",
               "extraction: ExtrOcamlBasic only (its Extract Inductive for bool/option/unit/list/prod/sumbool/sumor), no Extract Constant; ocamlopt 4.13.1",
               "correspondence harness (Rust generators/executor, OCaml driver, check.py)",
               "model hand-written; tied to /repo by differential execution on this run's records"]
    trusted += getattr(cfg, "TRUSTED", [])

    # 1. translators
    gen_info = {}
    if hasattr(cfg, "translate"):
        gen_info = cfg.translate(ctx) or {}

    # 2. Coq cone + audit
    proof_broken = []
    coq_makefile()
    ext_deps = [str(f.relative_to(COQ)) + "o" for f in cone([f"Extract/Extract{prop}.v"]) if f.parent.name != "Extract"]
    ok, log = coq_build([cfg.PROPS_VO] + getattr(cfg, "EXTRA_VO", []) + ext_deps)
    if not ok:
        m = re.findall(r'File "\./([^"]+)", line (\d+)', log)
        where = f"{m[-1][0]}:{m[-1][1]}" if m else "unknown"
        proof_broken.append({"where": where, "log_tail": log[-2500:]})
    problems = audit_sources([cfg.PROPS_VO[:-1], f"Extract/Extract{prop}.v"] + [x[:-1] for x in getattr(cfg, "EXTRA_VO", [])])
    if problems:
        proof_broken.append({"where": "audit", "log_tail": "\n".join(problems)})
    theorems = []
    if ok:
        pa_ok, theorems, raw = print_assumptions(cfg.PROPS_VO[:-1])
        if not pa_ok:
            proof_broken.append({"where": cfg.PROPS_VO[:-1], "log_tail": raw[-2500:]})
        for extra_vo in getattr(cfg, "EXTRA_VO", []):
            if extra_vo.startswith("Props/"):
                ok2, th2, raw2 = print_assumptions(extra_vo[:-1])
                if not ok2:
                    proof_broken.append({"where": extra_vo[:-1], "log_tail": raw2[-2500:]})
                theorems = theorems + th2
        for name, axs in theorems:
            bad = [a for a in axs if a not in ALLOWED_AXIOMS]
            if bad:
                proof_broken.append({"where": name, "log_tail": "axioms outside the allow-list: " + ", ".join(bad)})
        if tier == "thorough" and not proof_broken:
            with Lock("coq"):
                rc, out = run(["timeout", "1500", "coqchk", "-silent", "-o", "-Q", ".", "PV", "PV." + cfg.PROPS_VO[:-3].replace("/", ".")], cwd=COQ, timeout=1600)
            notes.append("coqchk: " + ("ok" if rc == 0 else "FAILED") + " " + " ".join(out.split())[-400:])
            if rc != 0:
                proof_broken.append({"where": "coqchk", "log_tail": out[-2500:]})

    # 3-4. correspondence + oracle
    stats = {"records": 0, "corr_ok": 0, "corr_diff": 0, "oracle_holds": 0, "oracle_fails": 0, "oracle_na": 0}
    samples, dist = [], {}
    diffs, ofails = [], []
    corr_error = None
    crash = None
    try:
        drv = build_driver(prop)
        builds = getattr(cfg, "PROFILES", ["release"])
        for prof in builds:
            binp, blog = build_harness(prop, prof)
            if binp is None:
                raise RuntimeError("harness build failed (the repository no longer compiles against the harness):\n" + blog[-3000:])
            if replay:
                rp = json.loads(Path(replay).read_text())
                inp = ctx.work / "replay_in.txt"
                inp.write_text("\n".join(rp.get("records", [])) + "\n")
                recs = ctx.harness_exec(binp, inp, tag="_replay_" + prof)
            else:
                recs = ctx.harness_gen(binp, tier, seed, tag="_" + prof)
            lines = recs.read_text().splitlines()
            verdicts = ctx.drive(drv, recs)
            for (n, c, o, extra) in verdicts:
                line = lines[n - 1]
                code = line.split("#", 1)[0]
                stats["records"] += 1
                dist[code] = dist.get(code, 0) + 1
                if c == "ok":
                    stats["corr_ok"] += 1
                else:
                    stats["corr_diff"] += 1
                    diffs.append({"profile": prof, "kind": c, "record": line, "model": extra})
                if o == 1:
                    stats["oracle_holds"] += 1
                elif o == 0:
                    stats["oracle_fails"] += 1
                    ofails.append({"profile": prof, "record": line})
                else:
                    stats["oracle_na"] += 1
            if len(samples) < 4 and lines:
                samples += [l[:400] for l in lines[:: max(1, len(lines) // 3)][:3]]
        stats["distinct"] = len(set(l.rsplit("#", 1)[0] for l in lines)) if lines else 0
    except ImplCrash as e:
        crash = e
        corr_error = str(e)
    except Exception as e:  # harness or driver could not run at all
        corr_error = str(e)

    # extra property-specific phases (own oracles, sweeps); may append to ofails / notes
    extra_cov = {}
    if hasattr(cfg, "extra") and corr_error is None:
        extra_cov = cfg.extra(ctx, ofails, notes) or {}

    # 5. verdict
    known = [k for k in load_known() if k["property"] == prop and k.get("status") == "known"]
    classify = getattr(cfg, "classify", lambda rec: None)
    new_fail = []
    seen_known = {}
    for f in ofails:
        key = classify(f["record"])
        hit = next((k for k in known if k["key"] == key), None) if key else None
        if hit:
            seen_known.setdefault(hit["key"], (hit, f))
        else:
            new_fail.append((key, f))
    for key, (k, f) in seen_known.items():
        known_lines.append(f"KNOWN-FINDING: property={prop} {k['what']} [class {key}]")

    exit_code = 0
    if new_fail:
        key, f = new_fail[0]
        rp = write_replay(prop, "oracle", {"property": prop, "kind": "oracle-failure", "class": key,
                                          "what": "the property statement, evaluated on the implementation's output, is false on this input",
                                          "records": [f["record"].rsplit("#", 1)[0] + "#"], "observed": f["record"], "profile": f["profile"],
                                          "replay_cmd": f"python3 tools/check.py {prop} --replay <this file>",
                                          "other_failures": len(new_fail) - 1})
        print(f"VIOLATION property={prop} replay={rp}")
        exit_code = 1
    elif crash is not None:
        rp = write_replay(prop, "crash", {"property": prop, "kind": "implementation-crash",
                                         "what": f"the harness process dies (exit status {crash.rc}: a signal, or 101 = a panic outside the guarded call, i.e. a step the harness "
                                                 "requires to succeed on honest inputs failed) while executing this record: no result is produced",
                                         "records": [crash.record.rsplit("#", 1)[0] + "#"],
                                         "replay_cmd": f"python3 tools/check.py {prop} --replay <this file>"})
        print(f"VIOLATION property={prop} replay={rp}")
        exit_code = 1
    elif corr_error or diffs or proof_broken:
        # property no longer shown to hold: widen the search for a failing input before reporting
        found = None
        # the harnesses that run every record under two different scratch fills report a difference between the two
        # runs with this message: the record is then itself a failing input (the result is not a function of the inputs)
        dep = next((d for d in diffs if d["record"].endswith("PANIC:output depends on the prior contents of the scratch arena")), None)
        if dep is not None:
            found = {"property": prop, "kind": "scratch-dependence",
                     "what": "the operation's output differs between two runs of this record that differ only in the bytes the scratch arena held beforehand "
                             "(the model, which has no scratch input, predicts one result)",
                     "records": [dep["record"].rsplit("#", 1)[0] + "#"], "observed": dep["record"][-300:], "profile": dep["profile"],
                     "n_such_records": sum(1 for d in diffs if d["record"].endswith("prior contents of the scratch arena")),
                     "replay_cmd": f"python3 tools/check.py {prop} --replay <this file>"}
        if found is None and corr_error is None and hasattr(cfg, "search"):
            found = cfg.search(ctx, diffs)
        if found is None:
            # the model transcribes the code's own admissibility assertions (it returns None where the code rejects a call):
            # a record on which the model predicts a result and the implementation panics is an admissible call that aborts
            ip = next((d for d in diffs if d["kind"] == "ipanic"), None)
            if ip is not None:
                found = {"property": prop, "kind": "implementation-panic",
                         "what": "the model (which carries the code's admissibility assertions) accepts this call and predicts a result; "
                                 "the implementation panics",
                         "records": [ip["record"].rsplit("#", 1)[0] + "#"], "observed": ip["record"][-300:], "profile": ip["profile"],
                         "n_such_records": sum(1 for d in diffs if d["kind"] == "ipanic"),
                         "replay_cmd": f"python3 tools/check.py {prop} --replay <this file>"}
        if found:
            rp = write_replay(prop, "search", found)
            print(f"VIOLATION property={prop} replay={rp}")
        else:
            what = {"property": prop, "kind": "proof-or-correspondence-broken",
                    "broken_proof_obligations": proof_broken, "correspondence_error": corr_error,
                    "disagreements": diffs[:20], "n_disagreements": len(diffs),
                    "records": [d["record"].rsplit("#", 1)[0] + "#" for d in diffs[:20]],
                    "note": "model and implementation disagree, or a theorem no longer checks; the spec-level oracle found no failing input on the disagreeing cases or the widened search"}
            rp = write_replay(prop, "broken", what)
            print(f"VIOLATION property={prop} replay={rp} no-failing-input-found")
        exit_code = 1
    for l in known_lines:
        print(l)

    n_thm = len(theorems)
    cov = {
        "obligations": max(n_thm, 1) if not proof_broken else n_thm + len(proof_broken),
        "discharged": n_thm if not proof_broken else max(n_thm - len(proof_broken), 0),
        "checker_cmd": f"make -C coq {cfg.PROPS_VO} (coqc 8.16.1, full .vo) + coqc {cfg.PROPS_VO[:-1]} (Print Assumptions)" + (" + coqchk -o" if tier == "thorough" else ""),
        "trusted_base": trusted,
        "theorems": [{"name": n, "axioms": a} for n, a in theorems],
        "evaluations": stats["records"],
        "distinct_nontrivial": stats.get("distinct", 0),
        "rule": getattr(cfg, "RULE", "records generated by the harness; distinct = distinct (op, params, inputs) lines"),
        "samples": samples[:6],
        "correspondence": stats,
        "op_distribution": dist,
        "generated_sources": gen_info,
        "known_findings_seen": [k for k in seen_known],
        "notes": notes + ctx.notes,
    }
    cov.update(extra_cov)
    ev = {"property_id": prop, "tier": tier, "seed": seed, "level": "proof", "coverage": cov,
          "assumptions": getattr(cfg, "ASSUMPTIONS", []), "wall_s": round(time.time() - t0, 1),
          "violations": (1 if exit_code else 0)}
    write_evidence(prop, ev)
    print(f"{prop}: theorems={n_thm} records={stats['records']} corr_diff={stats['corr_diff']} oracle_fails={stats['oracle_fails']} "
          f"known={len(seen_known)} wall={ev['wall_s']}s exit={exit_code}")
    return exit_code


def main():
    ap = argparse.ArgumentParser()
    ap.add_argument("prop")
    ap.add_argument("--tier", default=os.environ.get("VERIF_TIER", "quick"))
    ap.add_argument("--replay")
    a = ap.parse_args()
    prop = a.prop.upper()
    seed = int(os.environ.get("VERIF_SEED", "1") or 1)
    cfg = importlib.import_module("props." + prop.lower())
    if hasattr(cfg, "check"):
        rc = cfg.check(prop, a.tier, seed, a.replay)
    else:
        rc = generic_check(prop, a.tier, seed, cfg, a.replay)
    sys.exit(rc)


if __name__ == "__main__":
    main()
