#!/bin/bash
# run every claimed check once (quick tier) and print one line each; used before committing evidence
cd "$(dirname "$0")/.."
for p in $(python3 -c "import json; print(' '.join(c['property_id'] for c in json.load(open('MANIFEST.json'))['checks']))"); do
  timeout 3000 python3 tools/check.py $p --tier ${1:-quick} 2>&1 | grep -E "^(VIOLATION|$p:)" | tr '\n' ' '; echo
done
