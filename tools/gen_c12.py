#!/usr/bin/env python3
"""C12 translator: re-reads the `*_tmp_bytes` / `bytes_of` functions of the modelled (operation, tmp_bytes)
pairs from /repo's Rust sources and emits them as Gallina functions over Z in coq/Gen/C12TmpBytes_gen.v.

Supported Rust subset (anything else makes the translator fail loudly, naming file / function / token):
  fn f<..>(&self | module: &Module<..> | x: usize | infos: &A, ...) -> usize [where ..] { body }
  body  := { (let x[: T] = e; | assert!(..); | assert_eq!(..); | if c { ..; return e; })*  e }
  e     := int | ident | path(args) | recv.method(args) | recv.0 | e as T | &e | (e) | e op e | if c {body} else {body}
           | XxxLayout { f: e, .. }        op in  + - * / >> == != < > <= >= || &&
  methods: max min div_ceil next_multiple_of into as_usize as_u32 (numbers); DEFAULTALIGN; n base2k size max_k rank rank_in rank_out dnum dsize
           glwe_layout gglwe_layout (infos); self.<api>(..) and Type::f(..) through the resolution table below.

Every function is emitted with its source location; `self.foo(..)` calls go through the delegate chain
api -> oep -> *_default which is fixed by name in CALLS (the harness compares the value of every public
formula with the real Rust call on all four backends, which guards this table as well as the parser).
"""
import os, re, sys, hashlib
from pathlib import Path

REPO = Path(os.environ.get("C12_REPO", "/repo"))   # C12_REPO: self-test against a mutated copy
OUT_OVERRIDE = os.environ.get("C12_GEN_OUT")
VERIF = Path(__file__).resolve().parent.parent
OUT = VERIF / "coq" / "Gen" / "C12TmpBytes_gen.v"


if os.environ.get("C12_GEN_OUT"):
    OUT = Path(os.environ["C12_GEN_OUT"])


class TranslateError(Exception):
    pass


# ----------------------------------------------------------------------------------------------------------
# tokenizer
TOK = re.compile(r"""
    (?P<ws>\s+|//[^\n]*|/\*.*?\*/)
  | (?P<str>"(?:[^"\\]|\\.)*")
  | (?P<num>\d[\d_]*(?:usize|u32|u64|i64|isize)?)
  | (?P<id>[A-Za-z_][A-Za-z_0-9]*!?)
  | (?P<op>::|->|=>|==|!=|<=|>=|&&|\|\||>>|<<|[-+*/%<>=!&|^.,;:(){}\[\]#?'])
""", re.X | re.S)


def tokenize(src, where):
    out, i = [], 0
    while i < len(src):
        m = TOK.match(src, i)
        if not m:
            raise TranslateError(f"{where}: cannot tokenize at {src[i:i+30]!r}")
        i = m.end()
        if m.lastgroup == "ws":
            continue
        out.append((m.lastgroup, m.group(m.lastgroup)))
    return out


# ----------------------------------------------------------------------------------------------------------
# locating functions
def strip_comments(src):
    src = re.sub(r"/\*.*?\*/", lambda m: " " * len(m.group(0)), src, flags=re.S)
    return re.sub(r"//[^\n]*", lambda m: " " * len(m.group(0)), src)


def find_fn(path, container, name):
    """return (signature_text, body_text, line) of `fn name` with a body whose enclosing trait/impl/macro header
    contains `container` (None = any / top level)"""
    src = strip_comments((REPO / path).read_text())
    hits = []
    for m in re.finditer(r"\bfn\s+" + re.escape(name) + r"\b", src):
        # signature runs up to the first '{' or ';' at angle/paren depth 0
        i, depth = m.end(), 0
        while i < len(src):
            c = src[i]
            if c in "(<[":
                depth += 1
            elif c in ")]":
                depth -= 1
            elif c == ">" and src[i - 1] != "-":
                depth -= 1
            elif depth == 0 and c in "{;":
                break
            i += 1
        if src[i] == ";":
            continue
        # body by brace matching
        j, d = i, 0
        while j < len(src):
            if src[j] == "{":
                d += 1
            elif src[j] == "}":
                d -= 1
                if d == 0:
                    break
            j += 1
        # enclosing header: last line before m.start() that opens a trait / impl / macro_rules at smaller indentation
        head = ""
        for hm in re.finditer(r"^(?:pub(?:\([a-z]+\))?\s+)?(?:unsafe\s+)?(?:trait\b|impl\b|macro_rules!)[^\n{;]*", src[: m.start()], flags=re.M):
            head = hm.group(0)
        if container is None or container in head:
            hits.append((src[m.start(): i], src[i: j + 1], src.count("\n", 0, m.start()) + 1))
    if len(hits) != 1:
        raise TranslateError(f"{path}: expected exactly one `fn {name}` in `{container}`, found {len(hits)}")
    return hits[0]


# ----------------------------------------------------------------------------------------------------------
# parser -> small AST
class P:
    def __init__(self, toks, where):
        self.t, self.i, self.where = toks, 0, where

    def peek(self, k=0):
        return self.t[self.i + k][1] if self.i + k < len(self.t) else None

    def kind(self, k=0):
        return self.t[self.i + k][0] if self.i + k < len(self.t) else None

    def next(self):
        v = self.t[self.i][1]
        self.i += 1
        return v

    def expect(self, v):
        if self.peek() != v:
            raise TranslateError(f"{self.where}: expected `{v}` but found `{self.peek()}` (token {self.i})")
        return self.next()

    def fail(self, msg):
        ctx = " ".join(x[1] for x in self.t[max(0, self.i - 6): self.i + 6])
        raise TranslateError(f"{self.where}: {msg} near `{ctx}`")

    # ---- types (skipped, only used to find their end)
    def skip_type(self):
        depth = 0
        while True:
            p = self.peek()
            if p is None:
                self.fail("unterminated type")
            if p in "(<[":
                depth += 1
            elif p in ")]>":
                if depth == 0:
                    return
                depth -= 1
            elif p == ">>":
                if depth < 2:
                    self.fail("unbalanced >> in type")
                depth -= 2
            elif depth == 0 and p in (",", "=", ";", "{"):
                return
            self.next()

    def generic_args(self):
        """after `::` `<` ... `>`: returns the text"""
        self.expect("<")
        depth, txt = 1, []
        while depth:
            p = self.next()
            if p == "<":
                depth += 1
            elif p == ">":
                depth -= 1
            elif p == ">>":
                depth -= 2
                if depth == 0:
                    txt.append(">")
            if depth > 0:
                txt.append(p)
        return "".join(txt)

    # ---- blocks
    def block(self):
        self.expect("{")
        stmts = []
        while True:
            p = self.peek()
            if p == "}":
                self.fail("block without a final value")
            if p == "let":
                self.next()
                if self.peek() == "mut":
                    self.fail("`let mut` is outside the supported subset")
                name = self.next()
                if self.peek() == ":":
                    self.next()
                    self.skip_type()
                self.expect("=")
                e = self.expr()
                self.expect(";")
                stmts.append(("let", name, e))
                continue
            if p in ("assert!", "assert_eq!", "debug_assert!", "debug_assert_eq!"):
                self.next()
                self.expect("(")
                d = 1
                while d:
                    q = self.next()
                    d += (q == "(") - (q == ")")
                self.expect(";")
                continue
            if p == "return":
                self.next()
                e = self.expr()
                self.expect(";")
                self.expect("}")
                return ("block", stmts, e)
            if p == "if":
                # either the final `if .. else ..` value or an early-return `if c { ..; return e; }`
                save = self.i
                self.next()
                c = self.expr(no_struct=True)
                b = self.block()
                if self.peek() == "else":
                    self.i = save
                else:
                    rest = self.block_rest()
                    return ("block", stmts, ("if", c, b, rest))
            e = self.expr()
            if self.peek() == "}":
                self.next()
                return ("block", stmts, e)
            self.fail("statement outside the supported subset")

    def block_rest(self):
        """continue parsing the statements of the enclosing block after an early-return `if`"""
        self.t.insert(self.i, ("op", "{"))
        return self.block()

    # ---- expressions, Rust precedence
    LEVELS = [["||"], ["&&"], ["==", "!=", "<", ">", "<=", ">="], ["<<", ">>"], ["+", "-"], ["*", "/", "%"]]

    def expr(self, lvl=0, no_struct=False):
        if lvl == len(self.LEVELS):
            return self.unary(no_struct)
        e = self.expr(lvl + 1, no_struct)
        while self.peek() in self.LEVELS[lvl]:
            op = self.next()
            r = self.expr(lvl + 1, no_struct)
            e = ("bin", op, e, r)
        return e

    def unary(self, no_struct):
        p = self.peek()
        if p == "&":
            self.next()
            if self.peek() == "mut":
                self.fail("&mut in a size formula")
            return self.unary(no_struct)
        if p in ("-", "!", "*"):
            self.fail(f"unary `{p}` is outside the supported subset")
        e = self.postfix(no_struct)
        while self.peek() == "as":
            self.next()
            self.skip_type_simple()
        return e

    def skip_type_simple(self):
        t = self.next()
        if t not in ("usize", "u32", "u64", "i64", "isize"):
            self.fail(f"cast to `{t}` is outside the supported subset")

    def postfix(self, no_struct):
        e = self.primary(no_struct)
        while True:
            p = self.peek()
            if p == ".":
                self.next()
                if self.kind() == "num":
                    idx = self.next()
                    e = ("field", e, idx)
                    continue
                name = self.next()
                if self.peek() == "::":
                    self.next()
                    self.generic_args()
                if self.peek() == "(":
                    e = ("method", e, name, self.args())
                else:
                    e = ("field", e, name)
            elif p == "(":
                self.fail("call of a computed value")
            else:
                return e

    def args(self):
        self.expect("(")
        a = []
        while self.peek() != ")":
            a.append(self.expr())
            if self.peek() == ",":
                self.next()
        self.expect(")")
        return a

    def primary(self, no_struct):
        k, p = self.kind(), self.peek()
        if k == "num":
            self.next()
            return ("num", int(re.sub(r"[a-z_]+\d*$|_", "", p)))
        if p == "(":
            self.next()
            e = self.expr()
            self.expect(")")
            return e
        if p == "if":
            self.next()
            c = self.expr(no_struct=True)
            a = self.block()
            self.expect("else")
            b = self.block()
            return ("if", c, a, b)
        if p == "<":
            # qualified path  <Self as Backend>::f(..)
            self.next()
            ty = []
            while self.peek() != "as":
                ty.append(self.next())
            self.next()
            tr = []
            d = 0
            while True:
                q = self.peek()
                if q is None:
                    self.fail("unterminated qualified path")
                if q == ">" and d == 0:
                    self.next()
                    break
                if q == ">>" and d == 1:
                    self.next()
                    tr.append(">")
                    break
                self.next()
                d += (q == "<") - (q == ">") - 2 * (q == ">>")
                tr.append(q)
            segs = ["<" + "".join(ty) + " as " + "".join(tr) + ">"]
            return self.path_tail(segs, no_struct)
        if k == "id":
            if p.endswith("!"):
                self.fail(f"macro `{p}`")
            self.next()
            return self.path_tail([p], no_struct)
        self.fail(f"unexpected token `{p}`")

    def path_tail(self, segs, no_struct):
        gen = []
        while self.peek() == "::":
            self.next()
            if self.peek() == "<":
                gen.append(self.generic_args())
            else:
                segs.append(self.next())
        path = "::".join(segs)
        if self.peek() == "(":
            return ("call", path, gen, self.args())
        if self.peek() == "{" and not no_struct and segs[-1].endswith("Layout"):
            self.next()
            fields = {}
            while self.peek() != "}":
                f = self.next()
                self.expect(":")
                fields[f] = self.expr()
                if self.peek() == ",":
                    self.next()
            self.expect("}")
            return ("struct", segs[-1], fields)
        if segs[-1] == "DEFAULTALIGN":
            return ("const", "gen_DEFAULTALIGN")
        if len(segs) == 1:
            return ("var", segs[0])
        if path == "T::BITS":
            return ("var", "T_BITS")          # word size of the integer type: an extra parameter `T_BITS` of the Gallina function
        self.fail(f"path `{path}` used as a value")


# ----------------------------------------------------------------------------------------------------------
# what is translated.  (gallina name, file, container, rust fn, prefix kind)
#   prefix kind:  "free" no extra parameter, "be" takes (fam), "mod" takes (fam n) for the module / self
FREE, BE, MOD = "free", "be", "mod"
HD = "poulpy-cpu-ref/src/hal_defaults/"
RF = "poulpy-cpu-ref/src/reference/"
CO = "poulpy-core/src/"

FUNCS = [
    # layouts
    ("VecZnx_bytes_of", "poulpy-hal/src/layouts/vec_znx.rs", "impl", "bytes_of", FREE),
    ("ScalarZnx_bytes_of", "poulpy-hal/src/layouts/scalar_znx.rs", "impl", "bytes_of", FREE),
    ("MatZnx_bytes_of", "poulpy-hal/src/layouts/mat_znx.rs", "impl", "bytes_of", FREE),
    ("be_bytes_of_vec_znx_dft", "poulpy-hal/src/layouts/module.rs", "trait Backend", "bytes_of_vec_znx_dft", BE),
    ("be_bytes_of_vec_znx_big", "poulpy-hal/src/layouts/module.rs", "trait Backend", "bytes_of_vec_znx_big", BE),
    ("be_bytes_of_svp_ppol", "poulpy-hal/src/layouts/module.rs", "trait Backend", "bytes_of_svp_ppol", BE),
    ("be_bytes_of_vmp_pmat", "poulpy-hal/src/layouts/module.rs", "trait Backend", "bytes_of_vmp_pmat", BE),
    ("be_bytes_of_cnv_pvec_left", "poulpy-hal/src/layouts/module.rs", "trait Backend", "bytes_of_cnv_pvec_left", BE),
    ("be_bytes_of_cnv_pvec_right", "poulpy-hal/src/layouts/module.rs", "trait Backend", "bytes_of_cnv_pvec_right", BE),
    ("hal_bytes_of_vec_znx_dft", "poulpy-hal/src/delegates/vec_znx_dft.rs", "VecZnxDftBytesOf", "bytes_of_vec_znx_dft", MOD),
    ("hal_bytes_of_vec_znx_big", "poulpy-hal/src/delegates/vec_znx_big.rs", "VecZnxBigBytesOf", "bytes_of_vec_znx_big", MOD),
    ("hal_bytes_of_svp_ppol", "poulpy-hal/src/delegates/svp_ppol.rs", "SvpPPolBytesOf", "bytes_of_svp_ppol", MOD),
    ("hal_bytes_of_vmp_pmat", "poulpy-hal/src/delegates/vmp_pmat.rs", "VmpPMatBytesOf", "bytes_of_vmp_pmat", MOD),
    ("hal_bytes_of_cnv_pvec_left", "poulpy-hal/src/delegates/convolution.rs", "CnvPVecBytesOf", "bytes_of_cnv_pvec_left", MOD),
    ("hal_bytes_of_cnv_pvec_right", "poulpy-hal/src/delegates/convolution.rs", "CnvPVecBytesOf", "bytes_of_cnv_pvec_right", MOD),
    # reference formulas (free functions)
    ("ref_vec_znx_normalize_tmp_bytes", RF + "vec_znx/normalize.rs", None, "vec_znx_normalize_tmp_bytes", FREE),
    ("ref_vec_znx_lsh_tmp_bytes", RF + "vec_znx/shift.rs", None, "vec_znx_lsh_tmp_bytes", FREE),
    ("ref_vec_znx_rsh_tmp_bytes", RF + "vec_znx/shift.rs", None, "vec_znx_rsh_tmp_bytes", FREE),
    ("ref_vec_znx_rotate_assign_tmp_bytes", RF + "vec_znx/rotate.rs", None, "vec_znx_rotate_assign_tmp_bytes", FREE),
    ("ref_vec_znx_automorphism_assign_tmp_bytes", RF + "vec_znx/automorphism.rs", None, "vec_znx_automorphism_assign_tmp_bytes", FREE),
    ("ref_vec_znx_mul_xp_minus_one_assign_tmp_bytes", RF + "vec_znx/mul_xp_minus_one.rs", None, "vec_znx_mul_xp_minus_one_assign_tmp_bytes", FREE),
    ("ref_vec_znx_split_ring_tmp_bytes", RF + "vec_znx/split_ring.rs", None, "vec_znx_split_ring_tmp_bytes", FREE),
    ("ref_vec_znx_merge_rings_tmp_bytes", RF + "vec_znx/merge_rings.rs", None, "vec_znx_merge_rings_tmp_bytes", FREE),
    ("fft64_vec_znx_big_normalize_tmp_bytes", RF + "fft64/vec_znx_big.rs", None, "vec_znx_big_normalize_tmp_bytes", FREE),
    ("fft64_vec_znx_big_automorphism_assign_tmp_bytes", RF + "fft64/vec_znx_big.rs", None, "vec_znx_big_automorphism_assign_tmp_bytes", FREE),
    ("fft64_vmp_prepare_tmp_bytes", RF + "fft64/vmp.rs", None, "vmp_prepare_tmp_bytes", FREE),
    ("fft64_vmp_apply_dft_to_dft_tmp_bytes", RF + "fft64/vmp.rs", None, "vmp_apply_dft_to_dft_tmp_bytes", FREE),
    ("fft64_convolution_apply_dft_tmp_bytes", RF + "fft64/convolution.rs", None, "convolution_apply_dft_tmp_bytes", FREE),
    ("fft64_convolution_by_const_apply_tmp_bytes", RF + "fft64/convolution.rs", None, "convolution_by_const_apply_tmp_bytes", FREE),
    ("fft64_convolution_pairwise_apply_dft_tmp_bytes", RF + "fft64/convolution.rs", None, "convolution_pairwise_apply_dft_tmp_bytes", FREE),
    ("ntt120_vec_znx_big_normalize_tmp_bytes", RF + "ntt120/vec_znx_big.rs", None, "ntt120_vec_znx_big_normalize_tmp_bytes", FREE),
    ("ntt120_vec_znx_big_automorphism_assign_tmp_bytes", RF + "ntt120/vec_znx_big.rs", None, "ntt120_vec_znx_big_automorphism_assign_tmp_bytes", FREE),
    ("ntt120_vec_znx_idft_apply_tmp_bytes", RF + "ntt120/vec_znx_dft.rs", None, "ntt120_vec_znx_idft_apply_tmp_bytes", FREE),
    ("ntt120_vmp_prepare_tmp_bytes", RF + "ntt120/vmp.rs", None, "ntt120_vmp_prepare_tmp_bytes", FREE),
    ("ntt120_vmp_apply_dft_to_dft_tmp_bytes", RF + "ntt120/vmp.rs", None, "ntt120_vmp_apply_dft_to_dft_tmp_bytes", FREE),
    ("ntt120_cnv_prepare_left_tmp_bytes", RF + "ntt120/convolution.rs", None, "ntt120_cnv_prepare_left_tmp_bytes", FREE),
    ("ntt120_cnv_prepare_right_tmp_bytes", RF + "ntt120/convolution.rs", None, "ntt120_cnv_prepare_right_tmp_bytes", FREE),
    ("ntt120_cnv_prepare_self_tmp_bytes", RF + "ntt120/convolution.rs", None, "ntt120_cnv_prepare_self_tmp_bytes", FREE),
    ("ntt120_cnv_apply_dft_tmp_bytes", RF + "ntt120/convolution.rs", None, "ntt120_cnv_apply_dft_tmp_bytes", FREE),
    ("ntt120_cnv_by_const_apply_tmp_bytes", RF + "ntt120/convolution.rs", None, "ntt120_cnv_by_const_apply_tmp_bytes", FREE),
    ("ntt120_cnv_pairwise_apply_dft_tmp_bytes", RF + "ntt120/convolution.rs", None, "ntt120_cnv_pairwise_apply_dft_tmp_bytes", FREE),
]

# HAL defaults: (api name, file, [(family, container trait)], default fn name)
HAL_FAMILY = [
    ("vec_znx_big_normalize_tmp_bytes", HD + "vec_znx_big.rs"),
    ("vec_znx_big_automorphism_assign_tmp_bytes", HD + "vec_znx_big.rs"),
    ("vec_znx_idft_apply_tmp_bytes", HD + "vec_znx_dft.rs"),
    ("vmp_prepare_tmp_bytes", HD + "vmp_pmat.rs"),
    ("vmp_apply_dft_to_dft_tmp_bytes", HD + "vmp_pmat.rs"),
    ("cnv_prepare_left_tmp_bytes", HD + "convolution.rs"),
    ("cnv_prepare_right_tmp_bytes", HD + "convolution.rs"),
    ("cnv_prepare_self_tmp_bytes", HD + "convolution.rs"),
    ("cnv_apply_dft_tmp_bytes", HD + "convolution.rs"),
    ("cnv_by_const_apply_tmp_bytes", HD + "convolution.rs"),
    ("cnv_pairwise_apply_dft_tmp_bytes", HD + "convolution.rs"),
]
HAL_COMMON = [
    "vec_znx_normalize_tmp_bytes", "vec_znx_rsh_tmp_bytes", "vec_znx_lsh_tmp_bytes", "vec_znx_rotate_assign_tmp_bytes",
    "vec_znx_automorphism_assign_tmp_bytes", "vec_znx_mul_xp_minus_one_assign_tmp_bytes", "vec_znx_split_ring_tmp_bytes",
    "vec_znx_merge_rings_tmp_bytes",
]
for api, f in HAL_FAMILY:
    FUNCS.append((f"fft64_{api}_default", f, "trait FFT64", api + "_default", MOD))
    FUNCS.append((f"ntt120_{api}_default", f, "trait NTT120", api + "_default", MOD))
for api in HAL_COMMON:
    FUNCS.append((f"{api}_default", HD + "vec_znx.rs", "trait HalVecZnxDefaults", api + "_default", MOD))
# the two-level HAL op defined in the per-backend macro
FUNCS.append(("halimpl_vmp_apply_dft_tmp_bytes", "poulpy-cpu-ref/src/hal_impl/family_common.rs", "hal_impl_family_common", "vmp_apply_dft_tmp_bytes", MOD))
# the hal delegates of the convolution size queries permute their arguments: translated, not assumed
for api in ["cnv_apply_dft_tmp_bytes", "cnv_by_const_apply_tmp_bytes", "cnv_pairwise_apply_dft_tmp_bytes",
            "cnv_prepare_left_tmp_bytes", "cnv_prepare_right_tmp_bytes", "cnv_prepare_self_tmp_bytes"]:
    FUNCS.append((f"api_{api}", "poulpy-hal/src/delegates/convolution.rs", "Convolution<BE> for Module", api, MOD))

CORE = [
    ("LWEPlaintext_bytes_of", CO + "layouts/lwe_plaintext.rs", "impl LWEPlaintext<Vec<u8>>", "bytes_of", FREE),
    ("GLWE_bytes_of", CO + "layouts/glwe.rs", "impl GLWE<Vec<u8>>", "bytes_of", FREE),
    ("GLWE_bytes_of_from_infos", CO + "layouts/glwe.rs", "impl GLWE<Vec<u8>>", "bytes_of_from_infos", FREE),
    ("lwe_encrypt_sk_tmp_bytes", CO + "encryption/lwe.rs", "LWEEncryptSkDefault<BE> for Module", "lwe_encrypt_sk_tmp_bytes", MOD),
    ("lwe_decrypt_tmp_bytes", CO + "decryption/lwe.rs", "trait LWEDecryptDefault", "lwe_decrypt_tmp_bytes_default", MOD),
    ("glwe_encrypt_sk_tmp_bytes", CO + "encryption/glwe.rs", "GLWEEncryptSkDefault<BE> for Module", "glwe_encrypt_sk_tmp_bytes", MOD),
    ("glwe_encrypt_pk_tmp_bytes", CO + "encryption/glwe.rs", "GLWEEncryptPkDefault<BE> for Module", "glwe_encrypt_pk_tmp_bytes", MOD),
    ("glwe_decrypt_tmp_bytes", CO + "decryption/glwe.rs", "trait GLWEDecryptDefault", "glwe_decrypt_tmp_bytes_default", MOD),
    ("glwe_normalize_tmp_bytes", CO + "operations/glwe.rs", "trait GLWENormalizeDefault", "glwe_normalize_tmp_bytes", MOD),
    ("glwe_shift_tmp_bytes", CO + "operations/glwe.rs", "trait GLWEShiftDefault", "glwe_shift_tmp_bytes", MOD),
    ("glwe_rotate_tmp_bytes", CO + "operations/glwe.rs", "trait GLWERotateDefault", "glwe_rotate_tmp_bytes", MOD),
    ("glwe_mul_const_tmp_bytes", CO + "operations/glwe.rs", "GLWEMulConstDefault<BE> for Module", "glwe_mul_const_tmp_bytes", MOD),
    ("gglwe_product_dft_tmp_bytes", CO + "keyswitching/glwe.rs", "trait GGLWEProduct", "gglwe_product_dft_tmp_bytes", MOD),
    ("glwe_keyswitch_internal_tmp_bytes", CO + "keyswitching/glwe.rs", "trait GLWEKeySwitchInternal", "glwe_keyswitch_internal_tmp_bytes", MOD),
    ("glwe_keyswitch_tmp_bytes", CO + "keyswitching/glwe.rs", "trait GLWEKeyswitchDefault", "glwe_keyswitch_tmp_bytes_default", MOD),
    ("glwe_external_product_internal_tmp_bytes", CO + "external_product/glwe.rs", "GLWEExternalProductInternal<BE> for Module", "glwe_external_product_internal_tmp_bytes", MOD),
    ("glwe_external_product_tmp_bytes", CO + "external_product/glwe.rs", "trait GLWEExternalProductDefault", "glwe_external_product_tmp_bytes_default", MOD),
    ("gglwe_keyswitch_tmp_bytes", CO + "keyswitching/gglwe.rs", "trait GGLWEKeyswitchDefault", "gglwe_keyswitch_tmp_bytes_default", MOD),
    ("gglwe_external_product_tmp_bytes", CO + "external_product/gglwe.rs", "trait GGLWEExternalProductDefault", "gglwe_external_product_tmp_bytes_default", MOD),
    ("ggsw_external_product_tmp_bytes", CO + "external_product/ggsw.rs", "trait GGSWExternalProductDefault", "ggsw_external_product_tmp_bytes_default", MOD),
    ("gglwe_prepare_tmp_bytes", CO + "layouts/prepared/gglwe.rs", "trait GGLWEPreparedFactory", "gglwe_prepare_tmp_bytes", MOD),
    ("ggsw_prepare_tmp_bytes", CO + "layouts/prepared/ggsw.rs", "trait GGSWPreparedFactory", "ggsw_prepare_tmp_bytes", MOD),
    ("glwe_automorphism_tmp_bytes", CO + "automorphism/glwe_ct.rs", "trait GLWEAutomorphismDefault", "glwe_automorphism_tmp_bytes_default", MOD),
    ("glwe_trace_assign_same_radix_tmp_bytes", CO + "glwe_trace.rs", "trait GLWETraceDefault", "glwe_trace_assign_same_radix_tmp_bytes", MOD),
    ("glwe_trace_tmp_bytes", CO + "glwe_trace.rs", "trait GLWETraceDefault", "glwe_trace_tmp_bytes_default", MOD),
    ("glwe_pack_tmp_bytes_for_input", CO + "glwe_packing.rs", "trait GLWEPackingDefault", "glwe_pack_tmp_bytes_for_input", MOD),
    ("glwe_pack_tmp_bytes", CO + "glwe_packing.rs", "trait GLWEPackingDefault", "glwe_pack_tmp_bytes_default", MOD),
    ("glwe_from_lwe_tmp_bytes", CO + "conversion/lwe_to_glwe.rs", "trait GLWEFromLWEDefault", "glwe_from_lwe_tmp_bytes_default", MOD),
    ("lwe_from_glwe_tmp_bytes", CO + "api/conversion.rs", "trait LWEFromGLWE", "lwe_from_glwe_tmp_bytes", MOD),
    ("lwe_keyswitch_tmp_bytes", CO + "api/keyswitching.rs", "trait LWEKeySwitch", "lwe_keyswitch_tmp_bytes", MOD),
    ("GLWEPlaintext_bytes_of", CO + "layouts/glwe_plaintext.rs", "impl GLWEPlaintext<Vec<u8>>", "bytes_of", FREE),
    ("GLWEPlaintext_bytes_of_from_infos", CO + "layouts/glwe_plaintext.rs", "impl GLWEPlaintext<Vec<u8>>", "bytes_of_from_infos", FREE),
    ("GLWESecret_bytes_of", CO + "layouts/glwe_secret.rs", "impl GLWESecret<Vec<u8>>", "bytes_of", FREE),
    ("GLWESecret_bytes_of_from_infos", CO + "layouts/glwe_secret.rs", "impl GLWESecret<Vec<u8>>", "bytes_of_from_infos", FREE),
    ("GLWESecretTensor_pairs", CO + "layouts/glwe_secret_tensor.rs", "impl GLWESecretTensor<Vec<u8>>", "pairs", FREE),
    ("GLWESecretTensor_bytes_of", CO + "layouts/glwe_secret_tensor.rs", "impl GLWESecretTensor<Vec<u8>>", "bytes_of", FREE),
    ("GLWESecretTensor_bytes_of_from_infos", CO + "layouts/glwe_secret_tensor.rs", "impl GLWESecretTensor<Vec<u8>>", "bytes_of_from_infos", FREE),
    ("glwe_secret_prepared_bytes_of", CO + "layouts/prepared/glwe_secret.rs", "trait GLWESecretPreparedFactory", "glwe_secret_prepared_bytes_of", MOD),
    ("glwe_secret_prepared_bytes_of_from_infos", CO + "layouts/prepared/glwe_secret.rs", "trait GLWESecretPreparedFactory", "glwe_secret_prepared_bytes_of_from_infos", MOD),
    ("glwe_secret_tensor_prepare_tmp_bytes", CO + "layouts/glwe_secret_tensor.rs", "GLWESecretTensorFactory<BE> for Module", "glwe_secret_tensor_prepare_tmp_bytes", MOD),
    ("gglwe_encrypt_sk_tmp_bytes", CO + "encryption/gglwe.rs", "GGLWEEncryptSkDefault<BE> for Module", "gglwe_encrypt_sk_tmp_bytes", MOD),
    ("ggsw_encrypt_sk_tmp_bytes", CO + "encryption/ggsw.rs", "GGSWEncryptSkDefault<BE> for Module", "ggsw_encrypt_sk_tmp_bytes", MOD),
    ("glwe_switching_key_encrypt_sk_tmp_bytes", CO + "encryption/glwe_switching_key.rs", "GLWESwitchingKeyEncryptSkDefault<BE> for Module", "glwe_switching_key_encrypt_sk_tmp_bytes", MOD),
    ("glwe_automorphism_key_encrypt_sk_tmp_bytes", CO + "encryption/glwe_automorphism_key.rs", "GLWEAutomorphismKeyEncryptSkDefault<BE> for Module", "glwe_automorphism_key_encrypt_sk_tmp_bytes", MOD),
    ("glwe_tensor_key_encrypt_sk_tmp_bytes", CO + "encryption/glwe_tensor_key.rs", "GLWETensorKeyEncryptSkDefault<BE> for Module", "glwe_tensor_key_encrypt_sk_tmp_bytes", MOD),
    ("gglwe_to_ggsw_key_encrypt_sk_tmp_bytes", CO + "encryption/gglwe_to_ggsw_key.rs", "GGLWEToGGSWKeyEncryptSkDefault<BE> for Module", "gglwe_to_ggsw_key_encrypt_sk_tmp_bytes", MOD),
    ("lwe_switching_key_encrypt_sk_tmp_bytes", CO + "encryption/lwe_switching_key.rs", "LWESwitchingKeyEncryptDefault<BE> for Module", "lwe_switching_key_encrypt_sk_tmp_bytes", MOD),
    ("glwe_to_lwe_key_encrypt_sk_tmp_bytes", CO + "encryption/glwe_to_lwe_key.rs", "GLWEToLWESwitchingKeyEncryptSkDefault<BE> for Module", "glwe_to_lwe_key_encrypt_sk_tmp_bytes", MOD),
    ("lwe_to_glwe_key_encrypt_sk_tmp_bytes", CO + "encryption/lwe_to_glwe_key.rs", "LWEToGLWESwitchingKeyEncryptSkDefault<BE> for Module", "lwe_to_glwe_key_encrypt_sk_tmp_bytes", MOD),
    ("glwe_compressed_encrypt_sk_tmp_bytes", CO + "encryption/compressed/glwe_ct.rs", "GLWECompressedEncryptSkDefault<BE> for Module", "glwe_compressed_encrypt_sk_tmp_bytes", MOD),
    ("gglwe_compressed_encrypt_sk_tmp_bytes", CO + "encryption/compressed/gglwe.rs", "GGLWECompressedEncryptSkDefault<BE> for Module", "gglwe_compressed_encrypt_sk_tmp_bytes", MOD),
    ("ggsw_compressed_encrypt_sk_tmp_bytes", CO + "encryption/compressed/ggsw.rs", "GGSWCompressedEncryptSkDefault<BE> for Module", "ggsw_compressed_encrypt_sk_tmp_bytes", MOD),
    ("glwe_switching_key_compressed_encrypt_sk_tmp_bytes", CO + "encryption/compressed/glwe_switching_key.rs", "GLWESwitchingKeyCompressedEncryptSkDefault<BE> for Module", "glwe_switching_key_compressed_encrypt_sk_tmp_bytes", MOD),
    ("glwe_automorphism_key_compressed_encrypt_sk_tmp_bytes", CO + "encryption/compressed/glwe_automorphism_key.rs", "GLWEAutomorphismKeyCompressedEncryptSkDefault<BE> for Module", "glwe_automorphism_key_compressed_encrypt_sk_tmp_bytes", MOD),
    ("glwe_tensor_key_compressed_encrypt_sk_tmp_bytes", CO + "encryption/compressed/glwe_tensor_key.rs", "GLWETensorKeyCompressedEncryptSkDefault<BE> for Module", "glwe_tensor_key_compressed_encrypt_sk_tmp_bytes", MOD),
    ("gglwe_to_ggsw_key_compressed_encrypt_sk_tmp_bytes", CO + "encryption/compressed/gglwe_to_ggsw_key.rs", "GGLWEToGGSWKeyCompressedEncryptSkDefault<BE> for Module", "gglwe_to_ggsw_key_encrypt_sk_tmp_bytes", MOD),
    ("cmux_tmp_bytes", "poulpy-bin-fhe/src/bdd_arithmetic/eval.rs", "trait Cmux", "cmux_tmp_bytes", MOD),
    ("execute_bdd_circuit_tmp_bytes", "poulpy-bin-fhe/src/bdd_arithmetic/eval.rs", "ExecuteBDDCircuit<BE> for Module", "execute_bdd_circuit_tmp_bytes", MOD),
    ("execute_bdd_circuit_2w_to_1w_tmp_bytes", "poulpy-bin-fhe/src/bdd_arithmetic/bdd_2w_to_1w.rs", "trait ExecuteBDDCircuit2WTo1W", "execute_bdd_circuit_2w_to_1w_tmp_bytes", MOD),
    ("execute_bdd_circuit_2w_to_1w_multi_thread_tmp_bytes", "poulpy-bin-fhe/src/bdd_arithmetic/bdd_2w_to_1w.rs", "trait ExecuteBDDCircuit2WTo1W", "execute_bdd_circuit_2w_to_1w_multi_thread_tmp_bytes", MOD),
    ("normalize_input_limb_bound", CO + "operations/glwe.rs", None, "normalize_input_limb_bound", FREE),
    ("normalize_input_limb_bound_worst_case", CO + "operations/glwe.rs", None, "normalize_input_limb_bound_worst_case", FREE),
    ("glwe_mul_plain_tmp_bytes", CO + "operations/glwe.rs", "GLWEMulPlainDefault<BE> for Module", "glwe_mul_plain_tmp_bytes", MOD),
    ("glwe_tensor_square_apply_tmp_bytes", CO + "operations/glwe.rs", "GLWETensoringDefault<BE> for Module", "glwe_tensor_square_apply_tmp_bytes", MOD),
    ("glwe_tensor_apply_tmp_bytes", CO + "operations/glwe.rs", "GLWETensoringDefault<BE> for Module", "glwe_tensor_apply_tmp_bytes", MOD),
    ("glwe_tensor_relinearize_tmp_bytes", CO + "operations/glwe.rs", "GLWETensoringDefault<BE> for Module", "glwe_tensor_relinearize_tmp_bytes", MOD),
    ("ggsw_expand_rows_tmp_bytes", CO + "conversion/gglwe_to_ggsw.rs", "trait GGSWExpandRowsDefault", "ggsw_expand_rows_tmp_bytes_default", MOD),
    ("ggsw_from_gglwe_tmp_bytes", CO + "conversion/gglwe_to_ggsw.rs", "trait GGSWFromGGLWEDefault", "ggsw_from_gglwe_tmp_bytes_default", MOD),
    ("ggsw_keyswitch_tmp_bytes", CO + "keyswitching/ggsw.rs", "trait GGSWKeyswitchDefault", "ggsw_keyswitch_tmp_bytes_default", MOD),
    ("ggsw_automorphism_tmp_bytes", CO + "automorphism/ggsw_ct.rs", "trait GGSWAutomorphismDefault", "ggsw_automorphism_tmp_bytes_default", MOD),
]
FUNCS += CORE

# how calls inside bodies resolve:  rust callee -> (gallina name, prefix kind).  `self.x` = method on self / module.
CALLS = {
    "VecZnx::bytes_of": ("VecZnx_bytes_of", FREE), "Self::bytes_of": None,  # Self:: resolved per file below
    "VecZnx::<Vec<u8>>::bytes_of": ("VecZnx_bytes_of", FREE),
    "ScalarZnx::bytes_of": ("ScalarZnx_bytes_of", FREE),
    "LWEPlaintext::bytes_of": ("LWEPlaintext_bytes_of", FREE),
    "GLWE::<Vec<u8>>::bytes_of_from_infos": ("GLWE_bytes_of_from_infos", FREE),
    "BE::bytes_of_vec_znx_dft": ("be_bytes_of_vec_znx_dft", BE), "B::bytes_of_vec_znx_dft": ("be_bytes_of_vec_znx_dft", BE),
    "<Self as Backend>::bytes_of_vec_znx_dft": ("be_bytes_of_vec_znx_dft", BE),
    "B::bytes_of_vec_znx_big": ("be_bytes_of_vec_znx_big", BE), "B::bytes_of_svp_ppol": ("be_bytes_of_svp_ppol", BE),
    "B::bytes_of_vmp_pmat": ("be_bytes_of_vmp_pmat", BE),
    "BE::bytes_of_cnv_pvec_left": ("be_bytes_of_cnv_pvec_left", BE), "BE::bytes_of_cnv_pvec_right": ("be_bytes_of_cnv_pvec_right", BE),
    "Self::size_of_scalar_prep": ("size_of_scalar_prep", BE), "Self::size_of_scalar_big": ("size_of_scalar_big", BE),
    "Self::vmp_apply_dft_to_dft_tmp_bytes": ("hal_vmp_apply_dft_to_dft_tmp_bytes", "modarg"),
    "self.bytes_of_vec_znx_dft": ("hal_bytes_of_vec_znx_dft", MOD), "self.bytes_of_vec_znx_big": ("hal_bytes_of_vec_znx_big", MOD),
    "self.bytes_of_svp_ppol": ("hal_bytes_of_svp_ppol", MOD), "self.bytes_of_vmp_pmat": ("hal_bytes_of_vmp_pmat", MOD),
    "self.glwe_normalize_tmp_bytes": ("glwe_normalize_tmp_bytes", MOD),
    "self.glwe_keyswitch_internal_tmp_bytes": ("glwe_keyswitch_internal_tmp_bytes", MOD),
    "self.gglwe_product_dft_tmp_bytes": ("gglwe_product_dft_tmp_bytes", MOD),
    "self.glwe_keyswitch_tmp_bytes": ("glwe_keyswitch_tmp_bytes", MOD),
    "self.glwe_external_product_internal_tmp_bytes": ("glwe_external_product_internal_tmp_bytes", MOD),
    "self.glwe_automorphism_tmp_bytes": ("glwe_automorphism_tmp_bytes", MOD),
    "self.glwe_keyswitch_tmp_bytes_default": ("glwe_keyswitch_tmp_bytes", MOD),
    "self.glwe_rotate_tmp_bytes": ("glwe_rotate_tmp_bytes", MOD),
    "self.glwe_trace_tmp_bytes": ("glwe_trace_tmp_bytes", MOD),
    "self.glwe_pack_tmp_bytes_for_input": ("glwe_pack_tmp_bytes_for_input", MOD),
    "GLWEPlaintext::<Vec<u8>>::bytes_of_from_infos": ("GLWEPlaintext_bytes_of_from_infos", FREE),
    "GLWESecret::bytes_of": ("GLWESecret_bytes_of", FREE), "GLWESecret::bytes_of_from_infos": ("GLWESecret_bytes_of_from_infos", FREE),
    "GLWESecretTensor::pairs": ("GLWESecretTensor_pairs", FREE), "Self::pairs": ("GLWESecretTensor_pairs", FREE),
    "GLWESecretTensor::bytes_of_from_infos": ("GLWESecretTensor_bytes_of_from_infos", FREE),
    "self.glwe_secret_prepared_bytes_of": ("glwe_secret_prepared_bytes_of", MOD),
    "self.glwe_secret_prepared_bytes_of_from_infos": ("glwe_secret_prepared_bytes_of_from_infos", MOD),
    "self.glwe_secret_tensor_prepare_tmp_bytes": ("glwe_secret_tensor_prepare_tmp_bytes", MOD),
    "self.glwe_encrypt_sk_tmp_bytes": ("glwe_encrypt_sk_tmp_bytes", MOD),
    "self.gglwe_encrypt_sk_tmp_bytes": ("gglwe_encrypt_sk_tmp_bytes", MOD),
    "self.ggsw_encrypt_sk_tmp_bytes": ("ggsw_encrypt_sk_tmp_bytes", MOD),
    "self.gglwe_compressed_encrypt_sk_tmp_bytes": ("gglwe_compressed_encrypt_sk_tmp_bytes", MOD),
    "self.glwe_switching_key_encrypt_sk_tmp_bytes": ("glwe_switching_key_encrypt_sk_tmp_bytes", MOD),
    "normalize_input_limb_bound": ("normalize_input_limb_bound", FREE),
    "normalize_input_limb_bound_worst_case": ("normalize_input_limb_bound_worst_case", FREE),
    "self.bytes_of_cnv_pvec_left": ("hal_bytes_of_cnv_pvec_left", MOD), "self.bytes_of_cnv_pvec_right": ("hal_bytes_of_cnv_pvec_right", MOD),
    "self.cmux_tmp_bytes": ("cmux_tmp_bytes", MOD), "self.execute_bdd_circuit_tmp_bytes": ("execute_bdd_circuit_tmp_bytes", MOD),
    "self.glwe_pack_tmp_bytes": ("glwe_pack_tmp_bytes", MOD),
    "self.ggsw_expand_rows_tmp_bytes_default": ("ggsw_expand_rows_tmp_bytes", MOD),
    "self.ggsw_expand_rows_tmp_bytes": ("ggsw_expand_rows_tmp_bytes", MOD),
    "GLWE::<Vec<u8>>::bytes_of": ("GLWE_bytes_of", FREE),
    "self.glwe_trace_assign_same_radix_tmp_bytes": ("glwe_trace_assign_same_radix_tmp_bytes", MOD),
    "self.glwe_shift_tmp_bytes": ("glwe_shift_tmp_bytes", MOD),
    "self.glwe_external_product_tmp_bytes": ("glwe_external_product_tmp_bytes", MOD),
    # aliases of the reference functions inside hal_defaults (checked against the `use .. as ..` lines)
    "vec_znx_normalize_tmp_bytes": ("ref_vec_znx_normalize_tmp_bytes", FREE),
    "vec_znx_rsh_tmp_bytes": ("ref_vec_znx_rsh_tmp_bytes", FREE), "vec_znx_lsh_tmp_bytes": ("ref_vec_znx_lsh_tmp_bytes", FREE),
    "vec_znx_rotate_assign_tmp_bytes": ("ref_vec_znx_rotate_assign_tmp_bytes", FREE),
    "vec_znx_automorphism_assign_tmp_bytes": ("ref_vec_znx_automorphism_assign_tmp_bytes", FREE),
    "vec_znx_mul_xp_minus_one_assign_tmp_bytes": ("ref_vec_znx_mul_xp_minus_one_assign_tmp_bytes", FREE),
    "vec_znx_split_ring_tmp_bytes": ("ref_vec_znx_split_ring_tmp_bytes", FREE),
    "vec_znx_merge_rings_tmp_bytes": ("ref_vec_znx_merge_rings_tmp_bytes", FREE),
    "fft64_vec_znx_big_normalize_tmp_bytes": ("fft64_vec_znx_big_normalize_tmp_bytes", FREE),
    "fft64_vec_znx_big_automorphism_assign_tmp_bytes": ("fft64_vec_znx_big_automorphism_assign_tmp_bytes", FREE),
    "fft64_vmp_prepare_tmp_bytes": ("fft64_vmp_prepare_tmp_bytes", FREE),
    "fft64_vmp_apply_dft_to_dft_tmp_bytes": ("fft64_vmp_apply_dft_to_dft_tmp_bytes", FREE),
    "convolution_apply_dft_tmp_bytes": ("fft64_convolution_apply_dft_tmp_bytes", FREE),
    "convolution_by_const_apply_tmp_bytes": ("fft64_convolution_by_const_apply_tmp_bytes", FREE),
    "convolution_pairwise_apply_dft_tmp_bytes": ("fft64_convolution_pairwise_apply_dft_tmp_bytes", FREE),
    "ntt120_default_vec_znx_idft_apply_tmp_bytes": ("ntt120_vec_znx_idft_apply_tmp_bytes", FREE),
}
for n_ in ["vec_znx_big_normalize_tmp_bytes", "vec_znx_big_automorphism_assign_tmp_bytes", "vmp_prepare_tmp_bytes",
           "vmp_apply_dft_to_dft_tmp_bytes", "cnv_prepare_left_tmp_bytes", "cnv_prepare_right_tmp_bytes",
           "cnv_prepare_self_tmp_bytes", "cnv_apply_dft_tmp_bytes", "cnv_by_const_apply_tmp_bytes",
           "cnv_pairwise_apply_dft_tmp_bytes"]:
    CALLS["ntt120_" + n_] = ("ntt120_" + n_, FREE)
    # <BE as HalImpl<BE>>::x(self, ..) in the hal delegates -> family dispatcher
    CALLS["<BE as HalImpl<BE>>::" + n_] = ("hal_" + n_, "modarg")
for api in HAL_COMMON + [a for a, _ in HAL_FAMILY]:
    CALLS["self." + api] = (("api_" if api.startswith("cnv_") else "hal_") + api, MOD)

# the reference-function aliases above are only valid if the `use` lines of hal_defaults say so
ALIASES = [
    (HD + "vec_znx_big.rs", "vec_znx_big_normalize_tmp_bytes as fft64_vec_znx_big_normalize_tmp_bytes"),
    (HD + "vec_znx_big.rs", "vec_znx_big_automorphism_assign_tmp_bytes as fft64_vec_znx_big_automorphism_assign_tmp_bytes"),
    (HD + "vmp_pmat.rs", "vmp_prepare_tmp_bytes as fft64_vmp_prepare_tmp_bytes"),
    (HD + "vmp_pmat.rs", "vmp_apply_dft_to_dft_tmp_bytes as fft64_vmp_apply_dft_to_dft_tmp_bytes"),
    (HD + "vec_znx_dft.rs", "ntt120_vec_znx_idft_apply_tmp_bytes as ntt120_default_vec_znx_idft_apply_tmp_bytes"),
]

INFO_METHODS = {"n": "i_n", "base2k": "i_base2k", "size": "i_size", "max_k": "i_max_k", "rank": "i_rank",
                "rank_in": "i_rank_in", "rank_out": "i_rank", "dnum": "i_dnum", "dsize": "i_dsize"}
IDENT_METHODS = {"into", "as_usize", "as_u32", "glwe_layout", "gglwe_layout", "lwe_layout", "max_state_size", "automorphism_key_infos"}
SIZES = {"i64": 8, "u64": 8, "f64": 8, "i128": 16, "u128": 16, "u32": 4, "i32": 4, "u8": 1, "usize": 8}


# ----------------------------------------------------------------------------------------------------------
class Emit:
    def __init__(self, where, params, selfname):
        self.where, self.params, self.selfname = where, params, selfname   # params: name -> "Z" | "infos" | "module"
        self.env = dict(params)

    def fail(self, msg):
        raise TranslateError(f"{self.where}: {msg}")

    def is_module(self, e):
        return e[0] == "var" and self.env.get(e[1]) == "module"

    def kind(self, e):
        """'infos' or 'Z' (best effort; only used to pick accessor translation)"""
        if e[0] == "var":
            return self.env.get(e[1], "Z")
        if e[0] == "struct":
            return "infos"
        if e[0] == "method" and e[2] in ("glwe_layout", "gglwe_layout", "lwe_layout"):
            return "infos"
        return "Z"

    def block(self, b, ind):
        _, stmts, e = b
        saved = dict(self.env)
        out = ""
        for (_, name, v) in stmts:
            out += f"{ind}let {name} := {self.ex(v, ind + '  ')} in\n"
            self.env[name] = self.kind(v)
        out += ind + self.ex(e, ind + "  ")
        self.env = saved
        return out

    def ex(self, e, ind=""):
        t = e[0]
        if t == "num":
            return str(e[1])
        if t == "const":
            return e[1]
        if t == "var":
            if e[1] not in self.env:
                self.fail(f"unbound identifier `{e[1]}`")
            return e[1]
        if t == "bin":
            op, a, b = e[1], self.ex(e[2], ind), self.ex(e[3], ind)
            if op in ("+", "-", "*"):
                return f"({a} {op} {b})"
            if op == "/":
                return f"({a} / {b})"
            if op == ">>":
                return f"({a} / 2 ^ {b})"
            if op == "==":
                return f"({a} =? {b})"
            if op == "!=":
                return f"(negb ({a} =? {b}))"
            if op == "<":
                return f"({a} <? {b})"
            if op == ">":
                return f"({b} <? {a})"
            if op == "<=":
                return f"({a} <=? {b})"
            if op == ">=":
                return f"({b} <=? {a})"
            if op == "||":
                return f"({a} || {b})%bool"
            if op == "&&":
                return f"({a} && {b})%bool"
            self.fail(f"operator `{op}`")
        if t == "if":
            c = self.ex(e[1], ind)
            a = self.block(e[2], ind + "  ")
            b = self.block(e[3], ind + "  ")
            return f"(if {c} then\n{a}\n{ind}else\n{b})"
        if t == "field":
            if e[2] == "0":
                return self.ex(e[1], ind)
            self.fail(f"field `.{e[2]}`")
        if t == "struct":
            name, f = e[1], e[2]
            g = lambda k: self.ex(f[k], ind) if k in f else "0"
            if name == "GLWELayout" and set(f) == {"n", "base2k", "k", "rank"}:
                return f"(mk_glwe_layout {g('n')} {g('base2k')} {g('k')} {g('rank')})"
            if name == "GGLWELayout" and set(f) == {"n", "base2k", "k", "rank_in", "rank_out", "dnum", "dsize"}:
                return (f"(mk_gglwe_layout {g('n')} {g('base2k')} {g('k')} {g('rank_in')} {g('rank_out')} {g('dnum')} {g('dsize')})")
            self.fail(f"struct literal `{name}` with fields {sorted(f)}")
        if t == "method":
            recv, name, args = e[1], e[2], e[3]
            if self.is_module(recv):
                if name == "n" and not args:
                    return "n"
                return self.call("self." + name, args, ind)
            r = self.ex(recv, ind)
            if name in ("max", "min") and len(args) == 1:
                return f"(Z.{name} {r} {self.ex(args[0], ind)})"
            if name == "div_ceil" and len(args) == 1:
                return f"(div_ceil {r} {self.ex(args[0], ind)})"
            if name == "next_multiple_of" and len(args) == 1:
                return f"(next_multiple_of {r} {self.ex(args[0], ind)})"
            if name in IDENT_METHODS and not args:
                return r
            if name in INFO_METHODS and not args:
                if self.kind(recv) != "infos":
                    self.fail(f"`.{name}()` on something that is not a layout description")
                return f"({INFO_METHODS[name]} {r})"
            self.fail(f"method `.{name}(..)`")
        if t == "call":
            path, gen, args = e[1], e[2], e[3]
            if path == "size_of" and not args and len(gen) == 1:
                if gen[0] in SIZES:
                    return str(SIZES[gen[0]])
                if gen[0] == "Self::ScalarPrep":
                    return "(size_of_scalar_prep fam)"
                if gen[0] == "Self::ScalarBig":
                    return "(size_of_scalar_big fam)"
                self.fail(f"size_of::<{gen[0]}>")
            if path in ("Rank", "Degree", "Base2K", "TorusPrecision", "Dnum", "Dsize") and not gen and len(args) == 1:
                return self.ex(args[0], ind)
            full = path if not gen else None
            if gen:
                # re-insert turbofish for the lookup  GLWE::<Vec<u8>>::f
                segs = path.split("::")
                full = segs[0] + "::<" + gen[0] + ">::" + "::".join(segs[1:])
            return self.call(full, args, ind)
        self.fail(f"expression node {t}")

    def call(self, callee, args, ind):
        if callee == "Self::bytes_of" and self.selfname:
            callee = self.selfname + "::bytes_of"
        tgt = CALLS.get(callee)
        if tgt is None:
            self.fail(f"call of `{callee}` is not in the resolution table")
        g, kind = tgt
        a = [self.ex(x, ind) for x in args]
        if kind == "modarg":       # first Rust argument is the module itself
            if not args or not self.is_module(args[0]):
                self.fail(f"`{callee}`: first argument is expected to be the module")
            a = a[1:]
            kind = MOD
        pre = {"free": [], "be": ["fam"], "mod": ["fam", "n"]}[kind]
        return "(" + " ".join([g] + pre + a) + ")" if (pre or a) else g


def parse_params(sig, where):
    m = re.search(r"\((.*)\)\s*(->\s*usize)?", sig, flags=re.S)
    if not m or not m.group(2):
        raise TranslateError(f"{where}: signature is not `(..) -> usize`")
    inner = m.group(1)
    parts, depth, cur = [], 0, ""
    for c in inner:
        if c in "<([":
            depth += 1
        elif c in ">)]":
            depth -= 1
        if c == "," and depth == 0:
            parts.append(cur)
            cur = ""
        else:
            cur += c
    if cur.strip():
        parts.append(cur)
    params = []
    gen = dict(re.findall(r"(\w+)\s*:\s*(\w+Infos)", sig))   # generic params bounded by *Infos in `where`/<>
    if re.search(r"\bT\s*:\s*UnsignedInteger\b", sig):
        params.append(("T_BITS", "Z"))
    for p_ in parts:
        p_ = p_.strip()
        if p_ in ("&self", "self"):
            params.append(("self", "module"))
            continue
        name, ty = [x.strip() for x in p_.split(":", 1)]
        if ty == "usize":
            params.append((name, "Z"))
        elif ty.startswith("&Module<"):
            params.append((name, "module"))
        elif re.fullmatch(r"&[A-Z]\w*", ty) and ty[1:] in gen:
            params.append((name, "infos"))
        elif ty in ("Degree", "Base2K", "TorusPrecision", "Rank", "Dnum", "Dsize"):
            params.append((name, "Z"))
        elif re.fullmatch(r"&[A-Z]\w*", ty) and re.search(r"\b" + ty[1:] + r"\s*:\s*GetBitCircuitInfo\b", sig):
            params.append((name, "Z"))          # a BDD circuit enters the size queries only through max_state_size()
        elif re.fullmatch(r"&[A-Z]\w*", ty) and re.search(r"\b" + ty[1:] + r"\s*:\s*GLWEAutomorphismKeyHelper\b", sig):
            params.append((name, "infos"))      # a key helper enters only through automorphism_key_infos()
        else:
            raise TranslateError(f"{where}: parameter `{p_}` has a type outside the supported subset")
    return params


def translate_fn(gname, path, container, fname, kind):
    where = f"{path}::{fname}"
    sig, body, line = find_fn(path, container, fname)
    params = parse_params(sig, where)
    toks = tokenize(body, where)
    ast = P(toks, where).block()
    selfname = None
    if gname.startswith("LWEPlaintext"):
        selfname = "LWEPlaintext"
    if gname.startswith("GLWE_"):
        selfname = "GLWE"
    if gname.startswith("MatZnx"):
        selfname = "MatZnx"
    for sn in ("GLWEPlaintext", "GLWESecretTensor", "GLWESecret"):
        if gname.startswith(sn + "_"):
            selfname = sn
            CALLS[sn + "::bytes_of"] = (sn + "_bytes_of", FREE)
            break
    em = Emit(where, dict(params), selfname)
    if selfname == "GLWE":
        CALLS["GLWE::bytes_of"] = ("GLWE_bytes_of", FREE)
    text = em.block(ast, "  ")
    has_mod = any(k == "module" for _, k in params)
    if kind == MOD and not has_mod:
        raise TranslateError(f"{where}: expected a module / self parameter")
    pre = {"free": "", "be": "(fam : Z) ", "mod": "(fam n : Z) "}[kind]
    ps = " ".join(f"({n_} : {'infos' if k == 'infos' else 'Z'})" for n_, k in params if k != "module")
    hdr = f"(* {path}:{line}  {container or 'fn'} :: {fname} *)\n"
    return hdr + f"Definition {gname} {pre}{ps} : Z :=\n{text}.\n", hashlib.sha256((sig + body).encode()).hexdigest()[:16]


def scalar_sizes():
    """size_of::<ScalarPrep>/<ScalarBig> per family, read from the four backend modules"""
    res = {}
    for fam, files in (("fft64", ["poulpy-cpu-ref/src/fft64/module.rs", "poulpy-cpu-avx/src/fft64/module.rs"]),
                       ("ntt120", ["poulpy-cpu-ref/src/ntt120/module.rs", "poulpy-cpu-avx/src/ntt120/module.rs"])):
        vals = set()
        for f in files:
            src = strip_comments((REPO / f).read_text())
            p_ = re.search(r"type\s+ScalarPrep\s*=\s*(\w+)\s*;", src)
            b_ = re.search(r"type\s+ScalarBig\s*=\s*(\w+)\s*;", src)
            if not p_ or not b_:
                raise TranslateError(f"{f}: ScalarPrep / ScalarBig not found")
            vals.add((p_.group(1), b_.group(1)))
        if len(vals) != 1:
            raise TranslateError(f"{fam}: reference and AVX backends disagree on scalar types: {vals}")
        res[fam] = vals.pop()
    q = strip_comments((REPO / "poulpy-cpu-ref/src/reference/ntt120/types.rs").read_text())
    m = re.search(r"pub\s+struct\s+Q120bScalar\s*\(\s*pub\s*\[\s*(\w+)\s*;\s*(\d+)\s*\]\s*\)", q)
    if not m:
        raise TranslateError("Q120bScalar definition not recognised")
    sizes = dict(SIZES, Q120bScalar=SIZES[m.group(1)] * int(m.group(2)))
    out = {}
    for fam, (p_, b_) in res.items():
        if p_ not in sizes or b_ not in sizes:
            raise TranslateError(f"{fam}: unknown scalar type {p_}/{b_}")
        out[fam] = (sizes[p_], sizes[b_])
    return out


def generate():
    srcs = {}
    for f, needle in ALIASES:
        s = re.sub(r"\s+", " ", strip_comments((REPO / f).read_text()))
        if needle not in s:
            raise TranslateError(f"{f}: expected `use` alias `{needle}` not found (resolution table would be wrong)")
    m = re.search(r"pub const DEFAULTALIGN: usize = (\d+);", (REPO / "poulpy-hal/src/lib.rs").read_text())
    if not m:
        raise TranslateError("DEFAULTALIGN not found")
    sz = scalar_sizes()
    out = ["(* GENERATED by tools/gen_c12.py from /repo on every run of tools/check.py C12 - do not edit.\n"
           "   The *_tmp_bytes / bytes_of formulas of the modelled (operation, size query) pairs, as Gallina over Z.\n"
           "   fam = 0: FFT64 family (FFT64Ref, FFT64Avx); fam = 1: NTT120 family (NTT120Ref, NTT120Avx); n = module degree. *)",
           "From PV Require Import Base.MachineInt Model.C12Scratch.", "Open Scope Z_scope.", "",
           f"Definition gen_DEFAULTALIGN : Z := {m.group(1)}.",
           f"Definition size_of_scalar_prep (fam : Z) : Z := if fam =? 0 then {sz['fft64'][0]} else {sz['ntt120'][0]}.",
           f"Definition size_of_scalar_big (fam : Z) : Z := if fam =? 0 then {sz['fft64'][1]} else {sz['ntt120'][1]}.", ""]
    names = []
    emitted = set()
    pending_dispatch = {a for a, _ in HAL_FAMILY}

    def dispatcher(api):
        sig, _, _ = find_fn([f for a, f in HAL_FAMILY if a == api][0], "trait FFT64", api + "_default")
        ps = [n_ for n_, k in parse_params(sig, api) if k != "module"]
        args = " ".join(ps)
        decl = " ".join(f"({p_} : Z)" for p_ in ps)
        return (f"Definition hal_{api} (fam n : Z) {decl} : Z :=\n  if fam =? 0 then fft64_{api}_default fam n {args} "
                f"else ntt120_{api}_default fam n {args}.\n")

    for (g, path, cont, fn, kind) in FUNCS:
        # dispatchers are emitted as soon as both family members exist
        text, h = translate_fn(g, path, cont, fn, kind)
        out.append(text)
        names.append(g)
        emitted.add(g)
        srcs[g] = {"file": path, "fn": fn, "sha": h}
        for api in sorted(pending_dispatch):
            if f"fft64_{api}_default" in emitted and f"ntt120_{api}_default" in emitted:
                out.append(dispatcher(api))
                names.append("hal_" + api)
                pending_dispatch.discard(api)
        if g.endswith("_default") and g[:-8] in HAL_COMMON:
            api = g[:-8]
            out.append(f"Definition hal_{api} (fam n : Z) : Z := {g} fam n.\n")
            names.append("hal_" + api)
    if pending_dispatch:
        raise TranslateError(f"no dispatcher emitted for {pending_dispatch}")
    out.append("(* unfolding hints for the proofs *)")
    out.append("Create HintDb c12gen.")
    for i in range(0, len(names), 6):
        out.append("#[export] Hint Unfold " + " ".join(names[i:i + 6]) + " : c12gen.")
    out.append("#[export] Hint Unfold size_of_scalar_prep size_of_scalar_big : c12gen.")
    return "\n".join(out) + "\n", srcs


def order_check():
    """every callee must be defined before its caller: FUNCS is written in dependency order; verified by Coq."""
    return True


def main(write=True):
    text, srcs = generate()
    changed = (not OUT.exists()) or OUT.read_text() != text
    if write and changed:
        OUT.parent.mkdir(exist_ok=True)
        OUT.write_text(text)
    return {"file": str(OUT.relative_to(VERIF)) if str(OUT).startswith(str(VERIF)) else str(OUT), "changed": changed, "functions": len(srcs),
            "sha256": hashlib.sha256(text.encode()).hexdigest(), "sources": srcs}


if __name__ == "__main__":
    try:
        info = main()
    except TranslateError as e:
        print("gen_c12: TRANSLATION FAILED: " + str(e), file=sys.stderr)
        sys.exit(2)
    print(f"gen_c12: {info['functions']} functions -> {info['file']} (changed={info['changed']})")
