#!/usr/bin/env python3
"""Print the markdown tables of DESIGN.md §10 that are derived from files: findings per property, seeded changes, evidence."""
import json, glob, os
V = os.path.dirname(os.path.dirname(os.path.abspath(__file__)))
kf = json.load(open(V + "/known_findings.json"))["findings"]
print("#### Findings (from known_findings.json)\n")
print("| property | status | key | commit |")
print("|---|---|---|---|")
for f in sorted(kf, key=lambda f: (f["property"], f["status"], f["key"])):
    print(f"| {f['property']} | {f['status']} | `{f['key']}` | {f.get('commit','')} |")
print("\n#### Seeded changes (from seeded/*/meta.json)\n")
print("| id | what it needs in order to manifest | reported by |")
print("|---|---|---|")
for d in sorted(glob.glob(V + "/seeded/*/meta.json")):
    m = json.load(open(d))
    print(f"| {os.path.basename(os.path.dirname(d))} | {m['needs_to_manifest']} | {', '.join(m.get('detected_by', [])) or '(not yet run)'} |")
print("\n#### Evidence of the last run (from evidence/*.json)\n")
print("| property | theorems pinned | records | tier | wall s |")
print("|---|---|---|---|---|")
for f in sorted(glob.glob(V + "/evidence/C??.json")):
    e = json.load(open(f)); c = e["coverage"]
    print(f"| {e['property_id']} | {c.get('discharged')} | {c.get('evaluations')} | {e['tier']} | {e['wall_s']} |")

# `--splice`: rewrite DESIGN.md section 10.7 in place (10.7 is the last section of the file)
