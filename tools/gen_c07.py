#!/usr/bin/env python3
"""C07 translator: re-reads the numeric constants of the NTT120 scalar layer from /repo's Rust sources and emits
them as Gallina definitions in coq/Gen/C07Consts_gen.v (written only when the content changed).

Sources (poulpy-cpu-ref/src/reference/ntt120/):
  primes.rs      impl PrimeSet for Primes{29,30,31}: Q, OMEGA, CRT_CST, LOG_Q   (const expressions are evaluated)
  types.rs       Q_SHIFTED = (Primes30::Q[k] as u64) << S                        (S and the prime set)
  arithmetic.rs  add_bbb_ref: (qi as u64) << S'                                  (must agree with S)
  ntt.rs         fill_omegas: (1i64 << L) / n  and the `n <= (1 << L)` assertions (L = log2 of the largest NTT size)
  mat_vec.rs     MAX_ELL of every *Meta::new, the `for h in lo..hi` search ranges
The accumulator split points h of BbcMeta / BbbMeta / BaaMeta are *computed at run time in f64* by the Rust code;
the translator replays that search (same formula, IEEE doubles) and the harness record 7100 compares the replayed
h and the derived power-of-two residues with the real `BbcMeta::<Primes30>::new()` / `BbbMeta` / `BaaMeta` values.
Anything the parser does not recognise makes the translator fail loudly.
"""
import math, re, sys
from pathlib import Path

REPO = Path("/repo")
VERIF = Path(__file__).resolve().parent.parent
OUT = VERIF / "coq" / "Gen" / "C07Consts_gen.v"
SRC = REPO / "poulpy-cpu-ref" / "src" / "reference" / "ntt120"


class TranslateError(Exception):
    pass


def strip_comments(src):
    src = re.sub(r"/\*.*?\*/", " ", src, flags=re.S)
    return re.sub(r"//[^\n]*", " ", src)


def const_eval(expr, where):
    """evaluate a Rust integer constant expression built from literals, + - * << and parentheses"""
    e = re.sub(r"(\d[\d_]*)(u8|u16|u32|u64|u128|usize|i8|i16|i32|i64|i128|isize)?", lambda m: m.group(1).replace("_", ""), expr)
    if not re.fullmatch(r"[\d\s()+\-*<]+", e):
        raise TranslateError(f"{where}: unsupported constant expression {expr!r}")
    try:
        return int(eval(e, {"__builtins__": {}}, {}))
    except Exception as ex:
        raise TranslateError(f"{where}: cannot evaluate {expr!r}: {ex}")


def split_top(s):
    """split on commas at parenthesis depth 0"""
    out, depth, cur = [], 0, ""
    for ch in s:
        if ch == "(":
            depth += 1
        elif ch == ")":
            depth -= 1
        if ch == "," and depth == 0:
            out.append(cur); cur = ""
        else:
            cur += ch
    if cur.strip():
        out.append(cur)
    return [x.strip() for x in out if x.strip()]


def parse_primes():
    src = strip_comments((SRC / "primes.rs").read_text())
    sets = {}
    for m in re.finditer(r"impl\s+PrimeSet\s+for\s+(\w+)\s*\{(.*?)\n\}", src, flags=re.S):
        name, body = m.group(1), m.group(2)
        d = {}
        for field in ("Q", "OMEGA", "CRT_CST"):
            fm = re.search(r"const\s+" + field + r"\s*:\s*\[u32;\s*4\]\s*=\s*\[(.*?)\];", body, flags=re.S)
            if not fm:
                raise TranslateError(f"primes.rs: {name}::{field} not found")
            vals = [const_eval(x, f"primes.rs {name}::{field}") for x in split_top(fm.group(1))]
            if len(vals) != 4 or any(not (0 <= v < 2 ** 32) for v in vals):
                raise TranslateError(f"primes.rs: {name}::{field} is not four u32 values: {vals}")
            d[field] = vals
        lm = re.search(r"const\s+LOG_Q\s*:\s*u64\s*=\s*([^;]+);", body)
        if not lm:
            raise TranslateError(f"primes.rs: {name}::LOG_Q not found")
        d["LOG_Q"] = const_eval(lm.group(1), f"primes.rs {name}::LOG_Q")
        sets[name] = d
    for need in ("Primes29", "Primes30", "Primes31"):
        if need not in sets:
            raise TranslateError(f"primes.rs: impl PrimeSet for {need} not found")
    return sets


def parse_q_shifted():
    src = strip_comments((SRC / "types.rs").read_text())
    m = re.search(r"pub\s+const\s+Q_SHIFTED\s*:\s*\[u64;\s*4\]\s*=\s*\[(.*?)\];", src, flags=re.S)
    if not m:
        raise TranslateError("types.rs: Q_SHIFTED not found")
    items = split_top(m.group(1))
    shifts, sets = set(), set()
    for k, it in enumerate(items):
        im = re.fullmatch(r"\((\w+)::Q\[(\d)\]\s+as\s+u64\)\s*<<\s*(\d+)", it)
        if not im or int(im.group(2)) != k:
            raise TranslateError(f"types.rs: unsupported Q_SHIFTED entry {it!r}")
        sets.add(im.group(1)); shifts.add(int(im.group(3)))
    if len(items) != 4 or len(shifts) != 1 or len(sets) != 1:
        raise TranslateError(f"types.rs: Q_SHIFTED is not uniform: {items}")
    s = shifts.pop()
    src2 = strip_comments((SRC / "arithmetic.rs").read_text())
    m2 = re.search(r"fn\s+add_bbb_ref.*?P::Q\.map\(\|qi\|\s*\(qi\s+as\s+u64\)\s*<<\s*(\d+)\)", src2, flags=re.S)
    if not m2:
        raise TranslateError("arithmetic.rs: add_bbb_ref shift not found")
    if int(m2.group(1)) != s:
        raise TranslateError(f"add_bbb_ref shift {m2.group(1)} differs from Q_SHIFTED shift {s}")
    return sets.pop(), s


def parse_log_max_n():
    src = strip_comments((SRC / "ntt.rs").read_text())
    m = re.search(r"fn\s+fill_omegas.*?modq_pow\(P::OMEGA\[k\],\s*\(1i64\s*<<\s*(\d+)\)\s*/\s*n\s+as\s+i64", src, flags=re.S)
    if not m:
        raise TranslateError("ntt.rs: fill_omegas exponent not found")
    L = int(m.group(1))
    asserts = [int(x) for x in re.findall(r"n\s*<=\s*\(1\s*<<\s*(\d+)\)", src)]
    if not asserts or any(a != L for a in asserts):
        raise TranslateError(f"ntt.rs: size assertions {asserts} disagree with fill_omegas exponent {L}")
    return L


def fn_body(src, header_re, where):
    m = re.search(header_re, src, flags=re.S)
    if not m:
        raise TranslateError(f"{where}: not found")
    i = src.index("{", m.end() - 1) if src[m.end() - 1] != "{" else m.end() - 1
    depth, j = 0, i
    while j < len(src):
        if src[j] == "{":
            depth += 1
        elif src[j] == "}":
            depth -= 1
            if depth == 0:
                return src[i:j + 1]
        j += 1
    raise TranslateError(f"{where}: unbalanced braces")


def pow2_mod(e, q):
    return pow(2, e, q)


def bit_size_red(exp, Q):
    mx = 0.0
    for q in Q:
        v = pow2_mod(exp, q)
        if v > 1:
            mx = max(mx, math.log2(float(v)))
    return mx


def log2_sum(bs):
    return math.log2(sum(2.0 ** b for b in bs))


def parse_meta():
    """MAX_ELL and the h search range of each Meta::new; replays the f64 search for a prime set"""
    src = strip_comments((SRC / "mat_vec.rs").read_text())
    info = {}
    for name in ("BaaMeta", "BbbMeta", "BbcMeta"):
        impl = fn_body(src, r"impl<P:\s*PrimeSet>\s+" + name + r"<P>\s*\{", f"mat_vec.rs impl {name}")
        mm = re.search(r"const\s+MAX_ELL\s*:\s*f64\s*=\s*([\d_]+)\.0\s*;", impl)
        hm = re.search(r"for\s+h\s+in\s+(\d+)u64\s*\.\.\s*(\d+)\s*\{", impl)
        if not mm or not hm:
            raise TranslateError(f"mat_vec.rs: {name}::new: MAX_ELL / h range not found")
        info[name] = (int(mm.group(1).replace("_", "")), int(hm.group(1)), int(hm.group(2)))
    # guard the formulas that are replayed below (textual fingerprints of the Rust lines)
    need = [
        r"let\s+res_bs\s*=\s*log2_sum_two\(h\s+as\s+f64\s*\+\s*ell_bs,\s*\(64\.0\s*-\s*h\s+as\s+f64\)\s*\+\s*ell_bs\s*\+\s*h_pow2_bs\)",
        r"let\s+s2l_bs\s*=\s*pow2_32_bs\s*\+\s*h\s+as\s+f64;",
        r"let\s+s2h_bs\s*=\s*\(s1_bs\s*-\s*h\s+as\s+f64\)\s*\+\s*compute_bit_size_red\(32\s*\+\s*h,\s*P::Q\);",
        r"let\s+res_bs\s*=\s*log2_sum_n\(&\[s1_bs,\s*s2l_bs,\s*s2h_bs\]\);",
        r"let\s+res_bs\s*=\s*log2_sum_n\(&\[s1l_bs,\s*s1h_bs,\s*s2l_bs,\s*s2h_bs,\s*s3l_bs,\s*s3h_bs,\s*s4l_bs,\s*s4h_bs\]\);",
        r"let\s+s2_bs\s*=\s*32\.0\s*\+\s*ell_bs\s*\+\s*3\.0f64\.log2\(\);",
    ]
    for pat in need:
        if not re.search(pat, src):
            raise TranslateError(f"mat_vec.rs: formula fingerprint not found: {pat}")
    return info


def replay_h(info, Q):
    out = {}
    # BaaMeta
    ell, lo, hi = info["BaaMeta"]
    ell_bs = math.log2(float(ell))
    best, bh = float("inf"), 0
    for h in range(lo, hi):
        r = log2_sum([h + ell_bs, (64.0 - h) + ell_bs + bit_size_red(h, Q)])
        if r < best:
            best, bh = r, h
    out["baa_h"] = bh
    # BbbMeta
    ell, lo, hi = info["BbbMeta"]
    ell_bs = math.log2(float(ell))
    p32 = bit_size_red(32, Q)
    s1 = 32.0 + ell_bs; s2 = 32.0 + ell_bs + math.log2(3.0); s3 = s2; s4 = s1
    best, bh = float("inf"), lo
    for h in range(lo, hi):
        r = log2_sum([float(h), (s1 - h) + bit_size_red(h, Q), h + p32, (s2 - h) + bit_size_red(32 + h, Q),
                      h + bit_size_red(64, Q), (s3 - h) + bit_size_red(64 + h, Q),
                      h + bit_size_red(96, Q), (s4 - h) + bit_size_red(96 + h, Q)])
        if r < best:
            best, bh = r, h
    out["bbb_h"] = bh
    # BbcMeta
    ell, lo, hi = info["BbcMeta"]
    ell_bs = math.log2(float(ell))
    s1 = 32.0 + ell_bs
    best, bh = float("inf"), lo
    for h in range(lo, hi):
        r = log2_sum([s1, p32 + h, (s1 - h) + bit_size_red(32 + h, Q)])
        if r < best:
            best, bh = r, h
    out["bbc_h"] = bh
    return out


def zlist(vs):
    return "[" + "; ".join(str(v) for v in vs) + "]"


def generate():
    sets = parse_primes()
    qs_set, shift = parse_q_shifted()
    L = parse_log_max_n()
    info = parse_meta()
    lines = []
    w = lines.append
    w("(* GENERATED by tools/gen_c07.py from /repo/poulpy-cpu-ref/src/reference/ntt120/{primes,types,arithmetic,ntt,mat_vec}.rs")
    w("   -- do not edit; re-written on every run of `check.py C07` when the Rust constants change. *)")
    w("From Coq Require Import ZArith List.")
    w("Import ListNotations.")
    w("Open Scope Z_scope.")
    w("")
    w("Record primeset := { ps_Q : list Z; ps_OMEGA : list Z; ps_CRT : list Z; ps_LOG_Q : Z;")
    w("                     ps_baa_h : Z; ps_bbb_h : Z; ps_bbc_h : Z }.")
    w("")
    summary = {}
    for name in ("Primes29", "Primes30", "Primes31"):
        d = sets[name]
        hs = replay_h(info, d["Q"])
        lname = name.lower()
        w(f"(* primes.rs: impl PrimeSet for {name} *)")
        w(f"Definition {lname}_Q : list Z := {zlist(d['Q'])}.")
        w(f"Definition {lname}_OMEGA : list Z := {zlist(d['OMEGA'])}.")
        w(f"Definition {lname}_CRT_CST : list Z := {zlist(d['CRT_CST'])}.")
        w(f"Definition {lname}_LOG_Q : Z := {d['LOG_Q']}.")
        w(f"(* mat_vec.rs: split points found by the f64 search of BaaMeta/BbbMeta/BbcMeta::<{name}>::new (replayed) *)")
        w(f"Definition {lname}_baa_h : Z := {hs['baa_h']}.")
        w(f"Definition {lname}_bbb_h : Z := {hs['bbb_h']}.")
        w(f"Definition {lname}_bbc_h : Z := {hs['bbc_h']}.")
        w(f"Definition {lname} : primeset := {{| ps_Q := {lname}_Q; ps_OMEGA := {lname}_OMEGA; ps_CRT := {lname}_CRT_CST;")
        w(f"     ps_LOG_Q := {lname}_LOG_Q; ps_baa_h := {lname}_baa_h; ps_bbb_h := {lname}_bbb_h; ps_bbc_h := {lname}_bbc_h |}}.")
        w("")
        summary[name] = dict(d, **hs)
    w(f"(* types.rs: Q_SHIFTED[k] = ({qs_set}::Q[k] as u64) << {shift}; arithmetic.rs add_bbb_ref uses the same shift *)")
    w(f"Definition q_shift : Z := {shift}.")
    w(f"Definition q_shifted_set : primeset := {qs_set.lower()}.")
    w(f"Definition Q_SHIFTED : list Z := map (fun q => q * 2 ^ q_shift) (ps_Q q_shifted_set).")
    w(f"(* ntt.rs: largest NTT size 2^{L}; OMEGA[k] is used as a primitive 2^{L + 1}-th root of unity *)")
    w(f"Definition log_max_n : Z := {L}.")
    w("(* mat_vec.rs: MAX_ELL and the search range [lo, hi) of h in each Meta::new *)")
    for name in ("BaaMeta", "BbbMeta", "BbcMeta"):
        ell, lo, hi = info[name]
        p = name[:3].lower()
        w(f"Definition {p}_max_ell : Z := {ell}.")
        w(f"Definition {p}_h_lo : Z := {lo}.")
        w(f"Definition {p}_h_hi : Z := {hi}.")
    text = "\n".join(lines) + "\n"
    return text, {"prime_sets": summary, "q_shift": shift, "q_shifted_set": qs_set, "log_max_n": L,
                  "meta": {k: {"max_ell": v[0], "h_lo": v[1], "h_hi": v[2]} for k, v in info.items()}}


def main():
    text, summary = generate()
    changed = (not OUT.exists()) or OUT.read_text() != text
    if changed:
        OUT.parent.mkdir(parents=True, exist_ok=True)
        OUT.write_text(text)
    summary["written"] = changed
    summary["file"] = str(OUT.relative_to(VERIF))
    return summary


if __name__ == "__main__":
    try:
        s = main()
    except TranslateError as e:
        print("gen_c07: " + str(e), file=sys.stderr)
        sys.exit(2)
    import json
    print(json.dumps(s, indent=1))
