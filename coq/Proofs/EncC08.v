(* Discharge of the normaliser hypotheses of C01 / C06 from C08's theorems, for the same-radix 64-bit case:
   radix domain {b}, 1 <= b <= 62, word width 64 (FFT64Ref / FFT64Avx; decryption into the ciphertext's radix).
   C08 states its value theorems at a scaling exponent P' >= (rsz + asz) * b; the hypotheses of C01 are stated for every
   P >= max(rsz, asz) * b: the two are related by the exact rescaling val(P + d) = 2^d * val(P). *)
From PV Require Import Base.MachineInt Model.Znx Model.Limbs Model.C08Oracle Model.EncModel
  Proofs.EncValue Proofs.C01Sk Proofs.C01Lwe Props.C08.
Open Scope Z_scope.

Lemma wt_shift (P d b : Z) (j : nat) : 0 <= d -> 0 <= P - (zn j + 1) * b -> wt (P + d) b j = 2 ^ d * wt P b j.
Proof.
  intros Hd H. unfold wt. replace (P + d - (zn j + 1) * b) with (d + (P - (zn j + 1) * b)) by lia.
  rewrite Z.pow_add_r by lia. reflexivity.
Qed.

Lemma val_scaled_shift (P d b : Z) (l : list Z) : 0 <= d -> 0 <= b -> zn (length l) * b <= P ->
  val_scaled (P + d) b l = 2 ^ d * val_scaled P b l.
Proof.
  intros Hd Hb HP. rewrite !val_scaled_lval. unfold lval.
  rewrite (sumz_ext _ (fun j => 2 ^ d * (nthZ l j * wt P b j))).
  - clear. induction (length l); cbn [sumz]; lia.
  - intros j Hj. rewrite wt_shift; [ring|lia|]. unfold zn in *. nia.
Qed.

Lemma tor_abs_scale (P d x : Z) : 1 <= P -> 0 <= d -> tor_abs (P + d) (2 ^ d * x) = 2 ^ d * tor_abs P x.
Proof.
  intros HP Hd. unfold tor_abs. rewrite (Z.mul_comm (2 ^ d) x), wrap_mul_pow2 by lia.
  rewrite Z.abs_mul, (Z.abs_eq (2 ^ d)) by (apply Z.pow_nonneg; lia). lia.
Qed.

Section Same.
Variable b : Z.
Hypothesis Hb : 1 <= b <= 62.

(* the value statement of C08_normalize_inter_value at offset 0, rescaled to any P >= max(rsz, asz) * b *)
Lemma inter_value_any_P (a r0 : list Z) : Forall (fun x => Z.abs x <= 2 ^ 62) a ->
  let out := normalize_inter 64 b 0 a r0 in
  length out = length r0 /\ Forall (in_range b) out /\
  forall P, zn (length r0) * b <= P -> zn (length a) * b <= P ->
    tor_abs P (val_scaled P b out - val_scaled P b a) <= 2 ^ (P - zn (length r0) * b) /\
    (zn (length a) * b <= zn (length r0) * b -> tor_abs P (val_scaled P b out - val_scaled P b a) = 0).
Proof.
  intros HF. cbv zeta.
  destruct (C08_normalize_inter_value b Hb 0 a r0 HF) as (L & Rg & _ & V).
  split; [exact L|]. split; [exact Rg|].
  intros P HP1 HP2.
  assert (P0 : 0 <= P) by (unfold zn in *; nia).
  destruct (Z.eq_dec P 0) as [->|HPne].
  - (* degenerate scale: both lists are empty *)
    assert (length r0 = O) by (unfold zn in *; nia). assert (length a = O) by (unfold zn in *; nia).
    destruct a; [|discriminate]. assert (Lo : length (normalize_inter 64 b 0 [] r0) = O) by lia.
    destruct (normalize_inter 64 b 0 [] r0); [|discriminate]. cbn. split; [lia|intros; reflexivity].
  - specialize (V (P + P) ltac:(unfold zn in *; nia)). cbv zeta in V. rewrite Z.add_0_r in V.
    rewrite (val_scaled_shift P P b _) in V by (rewrite ?L; lia).
    rewrite (val_scaled_shift P P b a) in V by lia.
    rewrite <- Z.mul_sub_distr_l, tor_abs_scale in V by lia.
    replace (P + P - zn (length r0) * b) with (P + (P - zn (length r0) * b)) in V by lia.
    rewrite Z.pow_add_r in V by lia.
    pose proof (pow2_pos P ltac:(lia)) as Hp. destruct V as [V1 V2].
    split; [nia|]. intros Hx. specialize (V2 ltac:(lia)). nia.
Qed.

Theorem normalize_value_ok_small_same :
  normalize_value_ok_dom (fun x => x = b) (fun rb ab => normalize 64 rb ab 0) (2 ^ 62).
Proof.
  intros rb ab a r0 out -> -> HF Hn. unfold normalize in Hn. rewrite Z.eqb_refl in Hn. injection Hn as <-.
  destruct (inter_value_any_P a r0 HF) as (L & Rg & V). split; [exact L|]. split; [intros _; exact Rg|exact V].
Qed.

Lemma map_wrap64_id (l : list Z) : Forall (in_range b) l -> map (wrap 64) l = l.
Proof.
  intros H. rewrite <- (map_id l) at 2. apply map_ext_in. intros x Hx. rewrite Forall_forall in H. specialize (H x Hx).
  apply wrap_id; [lia|]. unfold in_range in *.
  assert (2 ^ (b - 1) <= 2 ^ (64 - 1)) by (apply Z.pow_le_mono_r; lia). lia.
Qed.

(* FFT64 family: vec_znx_big_normalize is the same routine on the i64 accumulator *)
Theorem normalize_value_ok_big_same : normalize_value_ok_dom (fun x => x = b) (bnorm 64) (2 ^ (64 - 2)).
Proof.
  intros rb ab a r0 out -> -> HF Hn. unfold bnorm in Hn. cbn [Z.eqb Pos.eqb] in Hn.
  unfold normalize in Hn. rewrite Z.eqb_refl in Hn. injection Hn as <-.
  change (2 ^ (64 - 2)) with (2 ^ 62) in HF.
  destruct (inter_value_any_P a r0 HF) as (L & Rg & V).
  rewrite (map_wrap64_id _ Rg). split; [exact L|]. split; [intros _; exact Rg|exact V].
Qed.

Theorem normalize_assign_value_ok_same : normalize_assign_value_ok_dom (fun x => x = b).
Proof.
  intros b' r -> HF. cbv zeta.
  destruct (C08_normalize_assign_value b Hb r HF) as (L & Rg & V).
  split; [exact L|]. split; [exact Rg|].
  intros P HP.
  assert (P0 : 0 <= P) by (unfold zn in *; nia).
  destruct (Z.eq_dec P 0) as [->|HPne].
  - assert (length r = O) by (unfold zn in *; nia). destruct r; [|discriminate].
    assert (Lo : length (normalize_assign 64 b []) = O) by lia. destruct (normalize_assign 64 b []); [|discriminate]. reflexivity.
  - specialize (V (P + P) ltac:(unfold zn in *; nia)).
    rewrite (val_scaled_shift P P b _) in V by (rewrite ?L; lia).
    rewrite (val_scaled_shift P P b r) in V by lia.
    rewrite <- Z.mul_sub_distr_l, tor_abs_scale in V by lia.
    pose proof (pow2_pos P ltac:(lia)). nia.
Qed.

End Same.
