(* C15 — the streaming GLWEBlindRetriever: after retrieve(data, selector, offset) the result is the element at index
   (k >> offset) mod 2^L (L = number of accumulators), for every number of inputs 1 <= len <= 2^L.
   Invariant: the accumulators are a binary counter of the blocks of inputs seen so far; the accumulator of level l holds,
   when its counter bit is set, a value that is right for every index inside its block (the last block may be partial
   during flush). *)
From Coq Require Import ZArith List Bool Lia.
From PV Require Import Gen.C15_gen Model.C15Uint Proofs.C15Layout Proofs.C15Blind.
Import ListNotations.
Open Scope Z_scope.

Lemma half_even c : c mod 2 = 0 -> (c + 1) / 2 = c / 2 /\ c = 2 * (c / 2).
Proof. intros H. pose proof (Z.div_mod c 2 ltac:(lia)). split; [|lia]. symmetry. apply (Z.div_unique (c + 1) 2 (c / 2) 1); lia. Qed.
Lemma half_odd c : c mod 2 = 1 -> (c + 1) / 2 = c / 2 + 1 /\ c = 2 * (c / 2) + 1.
Proof. intros H. pose proof (Z.div_mod c 2 ltac:(lia)). split; [|lia]. symmetry. apply (Z.div_unique (c + 1) 2 (c / 2 + 1) 0); lia. Qed.

Lemma skipn_app_cons {A} (pre : list A) y t : skipn (S (length pre)) (pre ++ y :: t) = t.
Proof. induction pre; cbn; auto. Qed.
Lemma firstn_app_len {A} (pre t : list A) : firstn (length pre) (pre ++ t) = pre.
Proof. induction pre; cbn; f_equal; auto. Qed.

Section Retr.
  Variables (kw off L : Z) (data : list Z).
  Hypothesis Hoff : 0 <= off.
  Hypothesis HL : 1 <= L.
  Hypothesis HoffL : off + L <= 32.
  Let idx := (kw / 2 ^ off) mod 2 ^ L.
  Let N := Z.of_nat (length data).
  Hypothesis Hidx : idx < N.
  Hypothesis HN : N <= 2 ^ L.
  Let kb := bits_of 32 kw.

  Lemma idx_nonneg : 0 <= idx. Proof. unfold idx. apply Z.mod_pos_bound. apply pow2_pos'. lia. Qed.

  (* d is the right answer whenever the index falls in [base, hi) *)
  Definition Good (base hi d : Z) : Prop := base <= idx < hi -> d = lget data idx.

  Fixpoint PInv (lvl c : Z) (acc : accs) : Prop :=
    match acc with
    | [] => True
    | (d, num) :: next =>
      num = c mod 2 /\
      (c mod 2 = 1 -> Good ((c - 1) * 2 ^ lvl) (Z.min N (c * 2 ^ lvl)) d) /\
      (next = [] -> c = 2 -> Good 0 (Z.min N (2 ^ (lvl + 1))) d) /\
      PInv (lvl + 1) (c / 2) next
    end.

  Lemma bit_of_idx lvl : 0 <= lvl < L -> kbit kb (lvl + off) = Some (Z.testbit idx lvl).
  Proof.
    intros Hl. unfold kb. rewrite kbit_bits_of by (cbn; lia). f_equal.
    unfold idx. rewrite Z.mod_pow2_bits_low by lia. rewrite Z.div_pow2_bits by lia. reflexivity.
  Qed.

  Lemma idx_bit lvl q : 0 <= lvl -> q * 2 ^ lvl <= idx < (q + 1) * 2 ^ lvl -> Z.b2z (Z.testbit idx lvl) = q mod 2.
  Proof.
    intros Hl Hq. rewrite Z.testbit_spec' by lia. pose proof (pow2_pos' lvl Hl).
    destruct (div_mod_small idx (2 ^ lvl) q (idx - q * 2 ^ lvl) ltac:(lia) ltac:(lia) ltac:(ring)) as [-> _]. reflexivity.
  Qed.

  (* merging the stored block (c-1) with the incoming block c of the same level, c odd *)
  Lemma sel_good lvl c a d : 0 <= lvl -> 0 <= c -> c mod 2 = 1 -> c * 2 ^ lvl < N ->
    Good ((c - 1) * 2 ^ lvl) (Z.min N (c * 2 ^ lvl)) d -> Good (c * 2 ^ lvl) (Z.min N ((c + 1) * 2 ^ lvl)) a ->
    Good ((c - 1) * 2 ^ lvl) (Z.min N ((c + 1) * 2 ^ lvl)) (if Z.testbit idx lvl then a else d).
  Proof.
    intros Hl Hc Hodd HcN Gd Ga Hr. pose proof (pow2_pos' lvl Hl) as HP. destruct (half_odd c Hodd) as [_ Ec].
    destruct (Z_lt_le_dec idx (c * 2 ^ lvl)).
    - pose proof (idx_bit lvl (c - 1) Hl ltac:(lia)) as Hb.
      replace ((c - 1) mod 2) with 0 in Hb by (rewrite Ec at 1; replace (2 * (c / 2) + 1 - 1) with ((c / 2) * 2) by ring; now rewrite Z.mod_mul).
      destruct (Z.testbit idx lvl); [discriminate|]. apply Gd. lia.
    - pose proof (idx_bit lvl c Hl ltac:(lia)) as Hb. rewrite Hodd in Hb.
      destruct (Z.testbit idx lvl); [|discriminate]. apply Ga. lia.
  Qed.

  Lemma PAdd acc : forall lvl c a, PInv lvl c acc -> acc <> [] -> 0 <= lvl -> lvl + Z.of_nat (length acc) <= L ->
    0 <= c < 2 ^ Z.of_nat (length acc) -> c * 2 ^ lvl < N -> Good (c * 2 ^ lvl) (Z.min N ((c + 1) * 2 ^ lvl)) a ->
    exists acc', add_core kb off lvl a acc = Some acc' /\ length acc' = length acc /\ PInv lvl (c + 1) acc'.
  Proof.
    induction acc as [|[d num] next IH]; intros lvl c a HI Hne Hl HlL Hc HcN Ga; [contradiction|].
    cbn [PInv] in HI. destruct HI as (Hnum & Hd & Htop & Hnext). cbn [add_core length] in *.
    pose proof (Z.mod_pos_bound c 2 ltac:(lia)) as Hm. pose proof (pow2_pos' lvl Hl) as HP.
    assert (Epow : 2 ^ (lvl + 1) = 2 * 2 ^ lvl) by (rewrite Z.pow_add_r by lia; change (2 ^ 1) with 2; ring).
    destruct (Z.eqb_spec num 0) as [E0|E0].
    - (* even: the incoming block is stored *)
      assert (Hev : c mod 2 = 0) by lia. destruct (half_even c Hev) as [E1 E2].
      eexists; split; [reflexivity|]. split; [reflexivity|]. cbn [PInv].
      assert (Hs : (c + 1) mod 2 = 1) by (rewrite E2 at 1; replace (2 * (c / 2) + 1) with (1 + (c / 2) * 2) by ring; now rewrite Z.mod_add).
      rewrite Hs, E1. split; [reflexivity|]. split; [intros _; replace (c + 1 - 1) with c by lia; exact Ga|]. split; [|exact Hnext].
      intros _ Hc2. lia.
    - (* odd: merge and carry *)
      assert (Hodd : c mod 2 = 1) by lia. destruct (half_odd c Hodd) as [E1 E2].
      rewrite bit_of_idx by lia.
      pose proof (sel_good lvl c a d Hl ltac:(lia) Hodd HcN (Hd Hodd) Ga) as Gm.
      set (d' := if Z.testbit idx lvl then a else d) in *.
      assert (Hs : (c + 1) mod 2 = 0) by (rewrite E2 at 1; replace (2 * (c / 2) + 1 + 1) with ((c / 2 + 1) * 2) by ring; now rewrite Z.mod_mul).
      assert (Ebase : (c - 1) * 2 ^ lvl = c / 2 * 2 ^ (lvl + 1)) by (rewrite Epow; rewrite E2 at 1; ring).
      assert (Ehi : (c + 1) * 2 ^ lvl = (c / 2 + 1) * 2 ^ (lvl + 1)) by (rewrite Epow; rewrite E2 at 1; ring).
      destruct next as [|x next'].
      + eexists; split; [reflexivity|]. split; [reflexivity|]. cbn [PInv]. rewrite Hs.
        split; [reflexivity|]. split; [intros; lia|]. split; [|exact I].
        intros _ Hc2. assert (c = 1) by lia. subst c. rewrite Epow. replace ((1 - 1) * 2 ^ lvl) with 0 in Gm by ring.
        replace ((1 + 1) * 2 ^ lvl) with (2 * 2 ^ lvl) in Gm by ring. exact Gm.
      + set (nx := x :: next') in *. cbn [length] in HlL, Hc.
        assert (Hlen : Z.of_nat (S (length nx)) = Z.of_nat (length nx) + 1) by lia.
        rewrite Hlen, Z.pow_add_r in Hc by lia. change (2 ^ 1) with 2 in Hc.
        destruct (IH (lvl + 1) (c / 2) d' Hnext ltac:(discriminate) ltac:(lia) ltac:(lia) ltac:(lia)) as (nx' & Ea & Hl' & HI').
        { rewrite <- Ebase. lia. }
        { rewrite <- Ebase, <- Ehi. exact Gm. }
        fold nx. rewrite Ea. eexists; split; [reflexivity|]. split; [cbn [length]; lia|]. cbn [PInv]. rewrite Hs, E1.
        split; [reflexivity|]. split; [intros; lia|]. split; [|exact HI'].
        intros En. destruct nx'; [cbn in Hl'; discriminate | discriminate].
  Qed.

  Lemma PInv_clean acc : forall lvl, Forall (fun dn : Z * Z => snd dn = 0) acc -> PInv lvl 0 acc.
  Proof.
    induction acc as [|[d num] next IH]; intros lvl Hc; cbn [PInv]; [exact I|].
    inversion Hc as [|? ? H1 H2]; subst. cbn [snd] in H1. rewrite Z.mod_0_l by lia.
    split; [exact H1|]. split; [intros; lia|]. split; [intros; lia|]. change (0 / 2) with 0. apply IH; exact H2.
  Qed.

  Lemma PInv_init n lvl : PInv lvl 0 (repeat (0, 0) n).
  Proof.
    revert lvl; induction n as [|n IH]; intros lvl; cbn [repeat PInv]; [exact I|].
    rewrite Z.mod_0_l by lia. split; [reflexivity|]. split; [intros; lia|]. split; [intros; lia|].
    change (0 / 2) with 0. apply IH.
  Qed.

  (* the flush loop on the suffix of levels >= |pre| *)
  Lemma flush_ok n : forall suf pre lvl c, length suf = S n -> PInv lvl c suf -> lvl = Z.of_nat (length pre) ->
    lvl + Z.of_nat (length suf) <= L -> (c - 1) * 2 ^ lvl < N <= c * 2 ^ lvl -> c <= 2 ^ Z.of_nat (length suf) ->
    exists acc', fold_left (flush_step kb off) (seq (length pre) (length suf - 1)) (Some (pre ++ suf)) = Some acc' /\
                 Good 0 N (fst (last acc' (0, 0))).
  Proof.
    induction n as [|n IH]; intros suf pre lvl c Hlen HI Hlvl HlL HSC Hcb;
      destruct suf as [|[d num] next]; try discriminate; cbn [length] in Hlen; injection Hlen as Hlen;
      cbn [PInv] in HI; destruct HI as (Hnum & Hd & Htop & Hnext);
      assert (Hl : 0 <= lvl) by lia; pose proof (pow2_pos' lvl Hl) as HP;
      assert (Epow : 2 ^ (lvl + 1) = 2 * 2 ^ lvl) by (rewrite Z.pow_add_r by lia; change (2 ^ 1) with 2; ring);
      pose proof idx_nonneg as Hi0;
      assert (Hc1 : 1 <= c) by (destruct (Z_lt_le_dec c 1); [|lia]; assert (c * 2 ^ lvl <= 0) by nia; lia);
      pose proof (Z.mod_pos_bound c 2 ltac:(lia)) as Hm.
    - (* the top accumulator *)
      destruct next; [|discriminate]. cbn [length seq fold_left]. replace (1 - 1)%nat with 0%nat by lia. cbn [seq fold_left].
      eexists; split; [reflexivity|]. rewrite last_last. cbn [fst]. cbn [length] in Hcb. change (2 ^ Z.of_nat 1) with 2 in Hcb.
      intros Hr. assert (c = 1 \/ c = 2) as [->| ->] by lia.
      + apply (Hd eq_refl). replace ((1 - 1) * 2 ^ lvl) with 0 by ring. lia.
      + apply (Htop eq_refl eq_refl). rewrite Epow. lia.
    - set (nx := next) in *.
      replace (length ((d, num) :: nx) - 1)%nat with (S (length nx - 1)) by (cbn [length]; lia).
      cbn [seq fold_left]. unfold flush_step at 2.
      rewrite nth_error_app2 by lia. replace (length pre - length pre)%nat with 0%nat by lia. cbn [nth_error].
      cbn [length] in HlL, Hcb.
      assert (Hlenz : Z.of_nat (S (length nx)) = Z.of_nat (length nx) + 1) by lia.
      rewrite Hlenz, Z.pow_add_r in Hcb by lia. change (2 ^ 1) with 2 in Hcb.
      assert (Happ : forall y t, pre ++ y :: t = (pre ++ [y]) ++ t) by (intros; now rewrite <- app_assoc).
      destruct (Z.eqb_spec num 0) as [E0|E0].
      + assert (Hev : c mod 2 = 0) by lia. destruct (half_even c Hev) as [_ E2].
        rewrite Happ. replace (S (length pre)) with (length (pre ++ [(d, num)])) by (rewrite app_length; cbn; lia).
        apply (IH nx (pre ++ [(d, num)]) (lvl + 1) (c / 2)); auto.
        * rewrite app_length. cbn [length]. lia.
        * lia.
        * rewrite Epow. split; nia.
        * lia.
      + assert (Hodd : c mod 2 = 1) by lia. destruct (half_odd c Hodd) as [E1 E2].
        pose proof (skipn_app_cons pre (d, num) nx) as Esk. pose proof (firstn_app_len pre ((d, num) :: nx)) as Efi.
        rewrite Esk, Efi.
        assert (Ebase : (c - 1) * 2 ^ lvl = c / 2 * 2 ^ (lvl + 1)) by (rewrite Epow; rewrite E2 at 1; ring).
        assert (Ehi : (c + 1) * 2 ^ lvl = (c / 2 + 1) * 2 ^ (lvl + 1)) by (rewrite Epow; rewrite E2 at 1; ring).
        assert (Hnx : nx <> []) by (destruct nx; [discriminate | discriminate]).
        destruct (PAdd nx (lvl + 1) (c / 2) d Hnext Hnx ltac:(lia) ltac:(lia) ltac:(lia)) as (nx' & Ea & Hl' & HI').
        { rewrite <- Ebase. lia. }
        { rewrite <- Ebase, <- Ehi. intros Hr. apply (Hd Hodd). lia. }
        replace (Z.of_nat (length pre) + 1) with (lvl + 1) by lia. rewrite Ea.
        rewrite Happ. replace (S (length pre)) with (length (pre ++ [(d, 0)])) by (rewrite app_length; cbn; lia).
        rewrite <- Hl'.
        apply (IH nx' (pre ++ [(d, 0)]) (lvl + 1) (c / 2 + 1)).
        * lia.
        * exact HI'.
        * rewrite app_length. cbn [length]. lia.
        * lia.
        * replace (c / 2 + 1 - 1) with (c / 2) by lia. rewrite <- Ebase, <- Ehi. nia.
        * rewrite Hl'. lia.
  Qed.

  (* the accumulation of the inputs one by one *)
  Definition rstep (st : option (accs * Z)) (a : Z) : option (accs * Z) :=
    match st with
    | None => None
    | Some (acc, cnt) =>
      if cnt <? 2 ^ Z.of_nat (length acc) then
        match add_core kb off 0 a acc with Some acc' => Some (acc', cnt + 1) | None => None end
      else None
    end.

  Lemma adds_ok l : forall done acc, data = done ++ l -> PInv 0 (Z.of_nat (length done)) acc -> Z.of_nat (length acc) = L ->
    exists acc', fold_left rstep l (Some (acc, Z.of_nat (length done))) = Some (acc', N) /\ PInv 0 N acc' /\ Z.of_nat (length acc') = L.
  Proof.
    induction l as [|a l IH]; intros done acc Hd HI Hlen.
    - rewrite app_nil_r in Hd. subst done. exists acc. fold N. auto.
    - assert (HcN : Z.of_nat (length done) < N) by (unfold N; rewrite Hd, app_length; cbn [length]; lia).
      cbn [fold_left rstep]. rewrite Hlen. destruct (Z.ltb_spec (Z.of_nat (length done)) (2 ^ L)); [|lia].
      assert (G1 : acc <> []) by (destruct acc; [cbn in Hlen; lia | discriminate]).
      assert (G2 : 0 <= Z.of_nat (length done) < 2 ^ Z.of_nat (length acc)) by (rewrite Hlen; lia).
      assert (G3 : Z.of_nat (length done) * 2 ^ 0 < N) by (change (2 ^ 0) with 1; lia).
      assert (G4 : Good (Z.of_nat (length done) * 2 ^ 0) (Z.min N ((Z.of_nat (length done) + 1) * 2 ^ 0)) a).
      { change (2 ^ 0) with 1. intros Hr. assert (E : idx = Z.of_nat (length done)) by lia.
        rewrite E. unfold lget. rewrite Nat2Z.id, Hd, app_nth2, Nat.sub_diag by lia. reflexivity. }
      destruct (PAdd acc 0 (Z.of_nat (length done)) a HI G1 ltac:(lia) ltac:(lia) G2 G3 G4) as (acc' & Ea & Hl' & HI').
      rewrite Ea. replace (Z.of_nat (length done) + 1) with (Z.of_nat (length (done ++ [a]))) by (rewrite app_length; cbn [length]; lia).
      apply IH; [rewrite <- app_assoc; exact Hd | | lia].
      replace (Z.of_nat (length (done ++ [a]))) with (Z.of_nat (length done) + 1) by (rewrite app_length; cbn [length]; lia). exact HI'.
  Qed.
End Retr.

(* GLWEBlindRetriever::retrieve returns the input at index (k >> offset) mod 2^L, L = ceil(log2 size) accumulators *)
Theorem retriever_index : forall size kw offset (data : list Z),
  0 <= size <= 2 ^ 31 -> 0 <= offset -> offset + retr_nacc size <= 32 ->
  Z.of_nat (length data) <= 2 ^ retr_nacc size ->
  (kw / 2 ^ offset) mod 2 ^ retr_nacc size < Z.of_nat (length data) ->
  retrieve size (bits_of 32 kw) offset data = Some (lget data ((kw / 2 ^ offset) mod 2 ^ retr_nacc size)).
Proof.
  intros size kw off data Hs Ho HoL HN Hidx.
  assert (HL : 1 <= retr_nacc size) by (unfold retr_nacc; lia).
  set (L := retr_nacc size) in *.
  assert (Hi0 : 0 <= (kw / 2 ^ off) mod 2 ^ L) by (apply Z.mod_pos_bound; apply pow2_pos'; lia).
  unfold retrieve. destruct (Z.leb_spec 0 size); [|lia]. destruct (Z.leb_spec size (2 ^ 31)); [|lia]. cbn [andb]. fold L.
  change (fun (st : option (accs * Z)) (a : Z) => _) with (rstep kw off).
  destruct (adds_ok kw off L data Ho HL HoL HN data [] (repeat (0, 0) (Z.to_nat L)) eq_refl (PInv_init kw off L data _ 0))
    as (acc & Ef & HI & Hlen); [rewrite repeat_length; lia|].
  cbn [length] in Ef. change (Z.of_nat 0) with 0 in Ef. rewrite Ef.
  destruct (Z.eqb_spec (Z.of_nat (length data)) 0); [lia|].
  destruct acc as [|x acc']; [cbn [length] in Hlen; lia|]. set (acc := x :: acc') in *.
  unfold flush_loop.
  assert (F5 : (Z.of_nat (length data) - 1) * 2 ^ 0 < Z.of_nat (length data) <= Z.of_nat (length data) * 2 ^ 0)
    by (change (2 ^ 0) with 1; lia).
  assert (F6 : Z.of_nat (length data) <= 2 ^ Z.of_nat (length acc)) by (rewrite Hlen; exact HN).
  destruct (flush_ok kw off L data Ho HL HoL Hidx (length acc') acc [] 0 (Z.of_nat (length data)) eq_refl HI eq_refl
              ltac:(lia) F5 F6) as (res & Er & Hg).
  unfold acc in *. cbn [app length] in Er. cbn [length].
  match goal with |- match ?X with _ => _ end = _ => replace X with (Some res) by (symmetry; exact Er) end.
  f_equal. apply Hg. lia.
Qed.

(* ------------------------------------------------------------------------------------------------ *)
(** * Histories: one retriever object through any number of rounds *)

Lemma add_core_length k off acc : forall lvl a acc', add_core k off lvl a acc = Some acc' -> length acc' = length acc.
Proof.
  induction acc as [|[d num] next IH]; intros lvl a acc' H; cbn [add_core] in H; [discriminate|].
  destruct (num =? 0); [injection H as <-; reflexivity|].
  destruct (kbit k (lvl + off)) as [bit|]; [|discriminate].
  destruct next as [|x nx]; [injection H as <-; reflexivity|].
  destruct (add_core k off (lvl + 1) (if bit then a else d) (x :: nx)) as [nx'|] eqn:E; [|discriminate].
  injection H as <-. cbn [length]. f_equal. apply (IH _ _ _ E).
Qed.

Lemma flush_step_length k off acc i acc' : flush_step k off (Some acc) i = Some acc' -> length acc' = length acc.
Proof.
  unfold flush_step. destruct (nth_error acc i) as [[d num]|] eqn:En; [|intros H; injection H as <-; reflexivity].
  destruct (num =? 0); [intros H; injection H as <-; reflexivity|].
  destruct (add_core k off (Z.of_nat i + 1) d (skipn (S i) acc)) as [nx'|] eqn:E; [|discriminate].
  intros H; injection H as <-. apply add_core_length in E.
  assert (Hi : (i < length acc)%nat) by (apply nth_error_Some; congruence).
  rewrite app_length, firstn_length. cbn [length]. rewrite E, skipn_length. lia.
Qed.

Lemma flush_fold_length k off l : forall acc acc', fold_left (flush_step k off) l (Some acc) = Some acc' -> length acc' = length acc.
Proof.
  induction l as [|i l IH]; intros acc acc' H; cbn [fold_left] in H; [injection H as <-; reflexivity|].
  destruct (flush_step k off (Some acc) i) as [a1|] eqn:E.
  - rewrite (IH _ _ H). apply (flush_step_length _ _ _ _ _ E).
  - exfalso. clear -H. induction l; cbn in H; [discriminate | auto].
Qed.

Definition r_clean (L : Z) (st : rstate) : Prop :=
  r_cnt st = 0 /\ Forall (fun dn : Z * Z => snd dn = 0) (r_acc st) /\ Z.of_nat (length (r_acc st)) = L.

Lemma reset_clean L st : Z.of_nat (length (r_acc st)) = L -> r_clean L (r_reset st).
Proof.
  intros H. unfold r_clean, r_reset. cbn [r_cnt r_acc]. split; [reflexivity|]. split; [|now rewrite map_length].
  apply Forall_forall. intros x Hx. apply in_map_iff in Hx as (y & <- & _). reflexivity.
Qed.

Lemma alloc_clean size : r_clean (retr_nacc size) (r_alloc size).
Proof.
  unfold r_clean, r_alloc. cbn [r_cnt r_acc]. split; [reflexivity|]. split.
  - apply Forall_forall. intros x Hx. apply repeat_spec in Hx. subst. reflexivity.
  - rewrite repeat_length. unfold retr_nacc. lia.
Qed.

Lemma r_adds_rstep kw off l : forall acc c,
  r_adds (bits_of 32 kw) off l (mkR acc c) =
  option_map (fun p : accs * Z => mkR (fst p) (snd p)) (fold_left (rstep kw off) l (Some (acc, c))).
Proof.
  unfold r_adds. induction l as [|a l IH]; intros acc c; [reflexivity|].
  cbn [fold_left rstep r_add r_acc r_cnt]. unfold r_add. cbn [r_acc r_cnt].
  destruct (c <? 2 ^ Z.of_nat (length acc)).
  - destruct (add_core (bits_of 32 kw) off 0 a acc) as [acc'|]; [apply IH|].
    clear. induction l; cbn; auto.
  - clear. induction l; cbn; auto.
Qed.

(* one complete round on a clean retriever: the addressed input comes out and the retriever is clean again *)
Lemma round_from_clean kw off L data st :
  0 <= off -> 1 <= L -> off + L <= 32 -> Z.of_nat (length data) <= 2 ^ L ->
  (kw / 2 ^ off) mod 2 ^ L < Z.of_nat (length data) ->
  r_clean L st ->
  exists st', r_round 1 (bits_of 32 kw) off data st = Some (lget data ((kw / 2 ^ off) mod 2 ^ L), st') /\ r_clean L st'.
Proof.
  intros Ho HL HoL HN Hidx (Hc & Hz & Hlen). destruct st as [acc c]. cbn [r_cnt r_acc] in *. subst c.
  assert (Hi0 : 0 <= (kw / 2 ^ off) mod 2 ^ L) by (apply Z.mod_pos_bound; apply pow2_pos'; lia).
  unfold r_round. change (1 =? 0) with false. cbn iota. rewrite r_adds_rstep.
  destruct (adds_ok kw off L data Ho HL HoL HN data [] acc eq_refl (PInv_clean kw off L data acc 0 Hz) Hlen) as (acc1 & Ef & HI & Hlen1).
  cbn [length] in Ef. change (Z.of_nat 0) with 0 in Ef. rewrite Ef. cbn [option_map fst snd]. change (1 =? 1) with true. cbn iota.
  unfold r_flush. cbn [r_cnt r_acc]. destruct (Z.eqb_spec (Z.of_nat (length data)) 0); [lia|].
  destruct acc1 as [|x acc1']; [cbn [length] in Hlen1; lia|]. set (acc2 := x :: acc1') in *.
  unfold flush_loop.
  assert (F5 : (Z.of_nat (length data) - 1) * 2 ^ 0 < Z.of_nat (length data) <= Z.of_nat (length data) * 2 ^ 0)
    by (change (2 ^ 0) with 1; lia).
  assert (F6 : Z.of_nat (length data) <= 2 ^ Z.of_nat (length acc2)) by (rewrite Hlen1; exact HN).
  destruct (flush_ok kw off L data Ho HL HoL Hidx (length acc1') acc2 [] 0 (Z.of_nat (length data)) eq_refl HI eq_refl
              ltac:(lia) F5 F6) as (res & Er & Hg).
  cbn [app length] in Er. unfold acc2 in *. cbn [length] in *.
  eexists. match goal with |- match ?X with _ => _ end = _ /\ _ => replace X with (Some res) by (symmetry; exact Er) end.
  split; [do 2 f_equal; apply Hg; lia|].
  apply reset_clean. cbn [r_acc]. rewrite (flush_fold_length _ _ _ _ _ Er). cbn [length]. exact Hlen1.
Qed.

(* the round kinds of a history: retrieve (0) on ANY state of the right size, add-all-then-flush (1) on a clean one *)
Lemma round_ok kind kw off L data st :
  kind = 0 \/ kind = 1 ->
  0 <= off -> 1 <= L -> off + L <= 32 -> Z.of_nat (length data) <= 2 ^ L ->
  (kw / 2 ^ off) mod 2 ^ L < Z.of_nat (length data) ->
  (if kind =? 0 then Z.of_nat (length (r_acc st)) = L else r_clean L st) ->
  exists st', r_round kind (bits_of 32 kw) off data st = Some (lget data ((kw / 2 ^ off) mod 2 ^ L), st') /\ r_clean L st'.
Proof.
  intros [-> | ->] Ho HL HoL HN Hidx Hst; cbn [Z.eqb] in Hst.
  - (* retrieve = reset; then the add-all-then-flush round *)
    destruct (round_from_clean kw off L data (r_reset st) Ho HL HoL HN Hidx (reset_clean L st Hst)) as (st' & E & Hc).
    exists st'. split; [|exact Hc]. unfold r_round in *. change (0 =? 0) with true. cbn iota. unfold r_retrieve.
    change (1 =? 0) with false in E. cbn iota in E. destruct (r_adds (bits_of 32 kw) off data (r_reset st)); [exact E | discriminate].
  - apply round_from_clean; auto.
Qed.

(* a history of complete rounds *)
Definition round_admissible (L : Z) (r : Z * Z * Z * list Z) : Prop :=
  let '(kind, kw, off, data) := r in
  (kind = 0 \/ kind = 1) /\ 0 <= off /\ off + L <= 32 /\ Z.of_nat (length data) <= 2 ^ L /\
  (kw / 2 ^ off) mod 2 ^ L < Z.of_nat (length data).
Definition round_answer (L : Z) (r : Z * Z * Z * list Z) : Z :=
  let '(kind, kw, off, data) := r in lget data ((kw / 2 ^ off) mod 2 ^ L).
Definition round_sel (r : Z * Z * Z * list Z) : Z * sel_bits * Z * list Z :=
  let '(kind, kw, off, data) := r in (kind, bits_of 32 kw, off, data).

Theorem retriever_history : forall (size : Z) (rounds : list (Z * Z * Z * list Z)),
  Forall (round_admissible (retr_nacc size)) rounds ->
  forall st, r_clean (retr_nacc size) st ->
  exists st', r_history (map round_sel rounds) st = Some (map (round_answer (retr_nacc size)) rounds, st') /\
              r_clean (retr_nacc size) st'.
Proof.
  intros size rounds. assert (HL : 1 <= retr_nacc size) by (unfold retr_nacc; lia). set (L := retr_nacc size) in *.
  induction rounds as [|[[[kind kw] off] data] tl IH]; intros Hall st Hc.
  - exists st. split; [reflexivity | exact Hc].
  - inversion Hall as [|? ? Hr Htl]; subst. destruct Hr as (Hk & Ho & HoL & HN & Hidx).
    destruct (round_ok kind kw off L data st Hk Ho HL HoL HN Hidx) as (st1 & E1 & Hc1).
    { destruct Hk as [-> | ->]; cbn [Z.eqb]; [exact (proj2 (proj2 Hc)) | exact Hc]. }
    destruct (IH Htl st1 Hc1) as (st2 & E2 & Hc2).
    exists st2. split; [|exact Hc2]. cbn [map r_history round_sel round_answer]. rewrite E1, E2. reflexivity.
Qed.
