(* C14: what lookup_table_set writes, and which entry a rotation brings to a given coefficient. *)
From PV Require Import Base.MachineInt Model.Znx Model.Limbs Model.Ring Model.Poly Model.C14Lut Model.C14Spec.
From PV Require Import Proofs.C09Lists Proofs.C09Ring Proofs.C14Rotate Proofs.C08ShiftValue.
Open Scope Z_scope.

(* ------------------------------------------------------------------ coefficient / limb views *)
Lemma hdZ_nthZ l : hdZ l = nthZ l 0.
Proof. destruct l; reflexivity. Qed.
Lemma nthZ_tl l t : nthZ (tl l) t = nthZ l (S t).
Proof. destruct l; [destruct t; reflexivity | reflexivity]. Qed.

Lemma cols_of_length n ls : length (cols_of n ls) = n.
Proof. revert ls; induction n; intros; cbn [cols_of length]; auto. Qed.
Lemma cols_of_nth n ls t : (t < n)%nat -> nth t (cols_of n ls) [] = map (fun l => nthZ l t) ls.
Proof.
  revert ls t; induction n as [|n IH]; intros ls t Ht; [lia|].
  cbn [cols_of]. destruct t as [|t]; cbn [nth].
  - apply map_ext. intros; apply hdZ_nthZ.
  - rewrite IH by lia. rewrite map_map. apply map_ext. intros; apply nthZ_tl.
Qed.
Lemma rows_of_length n ls : length (rows_of n ls) = n.
Proof. revert ls; induction n; intros; cbn [rows_of length]; auto. Qed.
Lemma rows_of_nth n ls t : (t < n)%nat -> nth t (rows_of n ls) [] = map (fun l => nthZ l t) ls.
Proof.
  revert ls t; induction n as [|n IH]; intros ls t Ht; [lia|].
  cbn [rows_of]. destruct t as [|t]; cbn [nth].
  - apply map_ext. intros; apply hdZ_nthZ.
  - rewrite IH by lia. rewrite map_map. apply map_ext. intros; apply nthZ_tl.
Qed.

Lemma nth_map_g {A B} (g : A -> B) (l : list A) (i : nat) (da : A) (db : B) :
  (i < length l)%nat -> nth i (map g l) db = g (nth i l da).
Proof.
  intros Hi. rewrite (nth_indep _ db (g da)) by (rewrite map_length; auto). apply map_nth.
Qed.

(* coefficient t, limb l of a normalised polynomial *)
Lemma poly_normalize_nth n b (p : limbs) l t :
  (l < length p)%nat -> (t < n)%nat ->
  nthZ (lnth (poly_normalize_assign n b p) l) t = nthZ (normalize_assign 64 b (map (fun limb => nthZ limb t) p)) l.
Proof.
  intros Hl Ht. unfold poly_normalize_assign, lnth.
  rewrite rows_of_nth by auto.
  unfold nthZ at 1. rewrite (nth_map_g (fun c => nthZ c l) _ t [] 0) by (rewrite map_length, cols_of_length; auto).
  rewrite (nth_map_g (normalize_assign 64 b) _ t [] []) by (rewrite cols_of_length; auto).
  rewrite cols_of_nth by auto. reflexivity.
Qed.
Lemma poly_normalize_shape n b (p : limbs) :
  length (poly_normalize_assign n b p) = length p /\
  Forall (fun limb : list Z => length limb = n) (poly_normalize_assign n b p).
Proof.
  unfold poly_normalize_assign. split; [apply rows_of_length|].
  apply Forall_forall. intros limb Hin. destruct (In_nth _ _ [] Hin) as [j [Hj Hx]].
  rewrite rows_of_length in Hj. rewrite rows_of_nth in Hx by auto. subst limb.
  rewrite !map_length. apply cols_of_length.
Qed.

(* ------------------------------------------------------------------ the filled limb *)
Lemma nthZ_repeat x s u : (u < s)%nat -> nthZ (repeat x s) u = x.
Proof. revert u; induction s as [|s IH]; intros [|u] Hu; cbn [repeat]; try lia; [reflexivity|]. unfold nthZ in *. cbn [nth]. apply IH. lia. Qed.
Lemma nthZ_zeros s u : nthZ (zeros s) u = 0.
Proof. unfold zeros. revert u; induction s as [|s IH]; intros [|u]; cbn [repeat]; try reflexivity. unfold nthZ in *. cbn [nth]. apply IH. Qed.

Lemma flat_map_repeat_length (g : Z -> Z) (f : list Z) (s : nat) :
  length (flat_map (fun x => repeat (g x) s) f) = (length f * s)%nat.
Proof. induction f as [|h t IH]; cbn [flat_map length]; [reflexivity|]. rewrite app_length, repeat_length, IH. lia. Qed.

Lemma flat_map_repeat_nth (g : Z -> Z) (f : list Z) (s u : nat) :
  (0 < s)%nat -> (u < length f * s)%nat ->
  nthZ (flat_map (fun x => repeat (g x) s) f) u = g (nthZ f (u / s)).
Proof.
  intros Hs. revert u. induction f as [|h t IH]; intros u Hu; cbn [length] in Hu; [lia|].
  cbn [flat_map]. destruct (Nat.lt_ge_cases u s) as [Hlt|Hge].
  - rewrite nthZ_app_l by (rewrite repeat_length; auto). rewrite nthZ_repeat by auto.
    rewrite Nat.div_small by auto. reflexivity.
  - rewrite nthZ_app_r by (rewrite repeat_length; auto). rewrite repeat_length.
    rewrite IH by lia.
    replace u with ((u - s) + 1 * s)%nat at 2 by lia. rewrite Nat.div_add by lia.
    replace ((u - s) / s + 1)%nat with (S ((u - s) / s)) by lia. reflexivity.
Qed.

(* ------------------------------------------------------------------ the split into ext polynomials *)
Definition rot1 : limbs -> limbs := vec_rotate_assign 64 (-1).

Fixpoint iterN {A} (k : nat) (g : A -> A) (a : A) : A := match k with O => a | S k' => g (iterN k' g a) end.
Lemma iter_shift {A} (g : A -> A) (i : nat) (a : A) : iterN i g (g a) = g (iterN i g a).
Proof. induction i; cbn [iterN]; [reflexivity|]. rewrite IHi. reflexivity. Qed.

Lemma split_fold (n : nat) (r0 : limbs) (k s : nat) (acc : lut) (cur : limbs) :
  fold_left (fun (st : lut * limbs) (_ : nat) => (fst st ++ [vec_switch_ring n (snd st) r0], rot1 (snd st))) (seq s k) (acc, cur)
  = (acc ++ map (fun i => vec_switch_ring n (iterN i rot1 cur) r0) (seq 0 k), iterN k rot1 cur).
Proof.
  revert s acc cur. induction k as [|k IH]; intros s acc cur.
  - cbn [seq fold_left map iterN]. rewrite app_nil_r. reflexivity.
  - cbn [seq fold_left fst snd]. rewrite IH. f_equal.
    + rewrite <- app_assoc. f_equal. cbn [app map iterN]. f_equal.
      rewrite <- seq_shift, map_map. apply map_ext. intros i.
      cbn [iterN]. rewrite iter_shift. reflexivity.
    + cbn [iterN]. apply iter_shift.
Qed.

Lemma iter_rot1_lnth (i : nat) (L : limbs) l :
  (l < length L)%nat -> lnth (iterN i rot1 L) l = iterN i (znx_rotate 64 (-1)) (lnth L l)
  /\ length (iterN i rot1 L) = length L.
Proof.
  intros Hl. induction i as [|i [IH1 IH2]]; cbn [iterN]; [auto|].
  unfold rot1 at 1 3. rewrite lnth_vec_rotate_assign. rewrite IH2.
  destruct (Nat.ltb_spec l (length L)); [|lia]. rewrite IH1. split; [reflexivity|].
  unfold vec_rotate_assign, vec_unary_assign. rewrite map_length. exact IH2.
Qed.

Lemma iter_rotate_nth (i : nat) (a : list Z) (u : nat) :
  (u + i < length a)%nat ->
  nthZ (iterN i (znx_rotate 64 (-1)) a) u = nthZ a (u + i) /\ length (iterN i (znx_rotate 64 (-1)) a) = length a.
Proof.
  revert u. induction i as [|i IH]; intros u Hu; cbn [iterN].
  - rewrite Nat.add_0_r. auto.
  - destruct (IH (S u) ltac:(lia)) as [IH1 IH2]. split; [|rewrite rotate_length; exact IH2].
    rewrite rotate_nth by (rewrite IH2; lia).
    replace (Z.of_nat u - -1) with (Z.of_nat (S u)) by lia.
    rewrite ext_small by (rewrite IH2; lia). rewrite IH1. f_equal. lia.
Qed.

Lemma switch_ring_down (n : nat) (r a : list Z) (g : nat) :
  (0 < n)%nat -> (2 <= g)%nat -> length a = (n * g)%nat ->
  znx_switch_ring n r a = map (fun t => nthZ a (t * g)) (seq 0 n).
Proof.
  intros Hn Hg Hl. unfold znx_switch_ring. rewrite Hl.
  destruct (Nat.eqb_spec (n * g) n); [nia|].
  destruct (Nat.ltb_spec n (n * g)); [|nia].
  rewrite Nat.mul_comm, Nat.div_mul by lia. reflexivity.
Qed.

(* ------------------------------------------------------------------ the table before the drift rotation *)
Section Set_.
Variables (m x : nat) (b klut kmsg : Z) (f : list Z).
Let n := (2 ^ m)%nat.
Let ext := (2 ^ x)%nat.
Let domain := (n * ext)%nat.
Let flen := Z.of_nat (length f).
Let nl := div_ceil kmsg b.
Let size := Z.to_nat (div_ceil klut b).
Let scale := lut_scale b kmsg.
Let step := Z.of_nat domain / flen.
Let drift := step / 2.

Hypothesis Hmx : (m + x + 1 <= 62)%nat.
Hypothesis Hb : 1 <= b <= 62.
Hypothesis Hlen : 1 <= flen <= Z.of_nat n.
Hypothesis Hdiv : Z.of_nat domain mod flen = 0.
(* the code's debug assertion (no overflow of f_i * scale), with two bits of headroom for the normalisation *)
Hypothesis Hhead : Forall (fun fi => Z.abs (wmul 64 fi scale) <= 2 ^ 62) f.

Variables (data : lut) (drift' : Z).
Hypothesis Hset : lookup_table_set n ext b klut kmsg f = Some (data, drift').

Lemma n_pos : (0 < n)%nat.
Proof. unfold n. pose proof (Nat.pow_nonzero 2 m ltac:(lia)). lia. Qed.
Lemma ext_pos : (0 < ext)%nat.
Proof. unfold ext. pose proof (Nat.pow_nonzero 2 x ltac:(lia)). lia. Qed.

Lemma step_exact : flen * step = Z.of_nat domain /\ 1 <= step.
Proof.
  unfold step. pose proof n_pos. pose proof ext_pos.
  pose proof (Z.div_mod (Z.of_nat domain) flen ltac:(lia)) as Hd. rewrite Hdiv in Hd.
  split; [lia|]. assert (Z.of_nat n <= Z.of_nat domain) by (unfold domain; nia). nia.
Qed.

Lemma div_round_exact : div_round (Z.of_nat domain) flen = step.
Proof.
  destruct step_exact as [Hs Hs1]. unfold div_round.
  rewrite <- Hs. replace (flen * step + flen / 2) with (flen / 2 + step * flen) by ring.
  rewrite Z.div_add by lia. rewrite Z.div_small; [lia|].
  pose proof (Z.div_lt_upper_bound flen 2 flen ltac:(lia)). split; [apply Z.div_pos; lia | apply H; lia].
Qed.

(* unfolding the definition under the hypotheses *)
Let lut_at := flat_map (fun fi => repeat (wmul 64 fi scale) (Z.to_nat step)) f
              ++ zeros (domain - Z.to_nat (flen * step)).
Let lut_full : limbs := map (fun j => if Z.of_nat j =? nl - 1 then lut_at else zeros domain) (seq 0 size).
Let r0 : limbs := repeat (zlimb n) size.
Let data0 : lut :=
    if Nat.ltb 1 ext then
      fst (fold_left (fun (s : lut * limbs) (_ : nat) =>
             (fst s ++ [vec_switch_ring n (snd s) r0], vec_rotate_assign 64 (-1) (snd s)))
           (seq 0 ext) ([], lut_full))
    else [vec_unary n (fun l => l) lut_full r0].
Let data1 := map (poly_normalize_assign n b) data0.

Lemma set_unfold :
  1 <= nl <= Z.of_nat size /\ drift' = drift /\ data = lookup_table_rotate n (wneg 64 drift) data1.
Proof.
  pose proof Hset as H. unfold lookup_table_set in H. cbv zeta in H.
  fold flen nl size domain in H. rewrite div_round_exact in H.
  destruct step_exact as [Hs Hs1].
  destruct (Z.ltb_spec (Z.of_nat n) flen); [lia|].
  destruct (Z.eqb_spec flen 0); [lia|].
  destruct (Z.ltb_spec nl 1); cbn [orb] in H; [discriminate|].
  destruct (Z.ltb_spec (Z.of_nat size) nl); cbn [orb] in H; [discriminate|].
  destruct (Z.ltb_spec (Z.of_nat domain) (flen * step)); [lia|].
  injection H as Hd1 Hd2. split; [lia|]. split; [symmetry; exact Hd2|]. symmetry. exact Hd1.
Qed.

Lemma lut_at_length : length lut_at = domain.
Proof.
  destruct step_exact as [Hs Hs1]. unfold lut_at. rewrite app_length, flat_map_repeat_length.
  unfold zeros. rewrite repeat_length. rewrite Hs. unfold flen in Hs. nia.
Qed.

Lemma lut_at_nth u : (u < domain)%nat ->
  nthZ lut_at u = wmul 64 (nthZ f (Z.to_nat (Z.of_nat u / step))) scale.
Proof.
  intros Hu. destruct step_exact as [Hs Hs1]. unfold lut_at.
  assert (Hfl : (length f * Z.to_nat step = domain)%nat) by (unfold flen in Hs; nia).
  rewrite nthZ_app_l by (rewrite flat_map_repeat_length; lia).
  rewrite (flat_map_repeat_nth (fun fi => wmul 64 fi scale)) by lia.
  f_equal. f_equal.
  rewrite <- (Z2Nat.id step) at 2 by lia. rewrite <- Nat2Z.inj_div, Nat2Z.id. reflexivity.
Qed.

Lemma lut_full_shape : length lut_full = size /\ forall l, (l < size)%nat -> length (lnth lut_full l) = domain.
Proof.
  unfold lut_full. split; [apply map_seq_length|]. intros l Hl. unfold lnth.
  rewrite nth_map_seq by auto. destruct (_ =? _); [apply lut_at_length | unfold zeros; apply repeat_length].
Qed.
Lemma lut_full_nth l u : (l < size)%nat ->
  nthZ (lnth lut_full l) u = if Z.of_nat l =? nl - 1 then nthZ lut_at u else 0.
Proof.
  intros Hl. unfold lut_full, lnth. rewrite nth_map_seq by auto.
  destruct (_ =? _); [reflexivity|]. apply nthZ_zeros.
Qed.

(* polynomial i, limb l, coefficient t of the table before normalisation = big-ring coefficient t*ext + i *)
Lemma data0_shape : length data0 = ext /\ lut_wf n size data0.
Proof.
  destruct lut_full_shape as [HL1 HL2]. pose proof n_pos as Hn. pose proof ext_pos as He.
  assert (Hr0 : length r0 = size) by (unfold r0; apply repeat_length).
  assert (Hsw : forall a, length (vec_switch_ring n a r0) = size /\ Forall (fun limb : list Z => length limb = n) (vec_switch_ring n a r0)).
  { intros a. unfold vec_switch_ring, build. rewrite Hr0. split; [apply map_seq_length|].
    apply Forall_forall. intros limb Hin. apply in_map_iff in Hin. destruct Hin as [j [<- _]].
    destruct (Nat.ltb j (length a)); [|unfold zlimb, zeros; apply repeat_length].
    unfold znx_switch_ring. destruct (Nat.eqb_spec (length (lnth a j)) n); [auto|].
    destruct (Nat.ltb n (length (lnth a j))); apply map_seq_length. }
  unfold data0. destruct (Nat.ltb_spec 1 ext).
  - rewrite split_fold. cbn [fst app]. split; [apply map_seq_length|].
    unfold lut_wf. apply Forall_forall. intros p Hp. apply in_map_iff in Hp. destruct Hp as [i [<- _]]. apply Hsw.
  - split; [cbn [length]; lia|]. unfold lut_wf. constructor; [|constructor].
    unfold vec_unary, build. rewrite Hr0. split; [apply map_seq_length|].
    apply Forall_forall. intros limb Hin. apply in_map_iff in Hin. destruct Hin as [j [<- Hj]].
    apply in_seq in Hj. rewrite HL1. destruct (Nat.ltb_spec j size); [|lia].
    rewrite HL2 by auto. unfold domain. replace ext with 1%nat by lia. lia.
Qed.

Lemma data0_nth i l t : (i < ext)%nat -> (l < size)%nat -> (t < n)%nat ->
  nthZ (lnth (nth i data0 []) l) t = nthZ (lnth lut_full l) (t * ext + i).
Proof.
  intros Hi Hl Ht. destruct lut_full_shape as [HL1 HL2]. pose proof n_pos as Hn.
  assert (Hr0 : length r0 = size) by (unfold r0; apply repeat_length).
  unfold data0. destruct (Nat.ltb_spec 1 ext) as [He|He].
  - rewrite split_fold. cbn [fst app]. rewrite nth_map_seq by auto.
    destruct (iter_rot1_lnth i lut_full l ltac:(lia)) as [HI1 HI2].
    unfold vec_switch_ring, build, lnth at 1. rewrite Hr0. rewrite nth_map_seq by auto.
    rewrite HI2, HL1. destruct (Nat.ltb_spec l size); [|lia].
    fold (lnth (iterN i rot1 lut_full) l). rewrite HI1.
    assert (Hd : (t * ext + i < domain)%nat) by (unfold domain; nia).
    destruct (iter_rotate_nth i (lnth lut_full l) (t * ext) ltac:(rewrite HL2 by auto; lia)) as [HR1 HR2].
    rewrite (switch_ring_down n _ _ ext) by (auto; rewrite HR2, HL2 by auto; reflexivity).
    rewrite nthZ_map_seq by auto. exact HR1.
  - assert (ext = 1%nat) by (pose proof ext_pos; lia). replace i with 0%nat by lia. cbn [nth].
    unfold vec_unary, build, lnth at 1. rewrite Hr0, nth_map_seq by auto. rewrite HL1.
    destruct (Nat.ltb_spec l size); [|lia]. f_equal. lia.
Qed.

(* the normalised table, read in the big ring *)
Lemma data1_shape : length data1 = ext /\ lut_wf n size data1.
Proof.
  destruct data0_shape as [H1 H2]. unfold data1. split; [rewrite map_length; auto|].
  unfold lut_wf in *. apply Forall_forall. intros p Hp. apply in_map_iff in Hp. destruct Hp as [p0 [<- Hp0]].
  rewrite Forall_forall in H2. destruct (H2 p0 Hp0) as [Hs _].
  destruct (poly_normalize_shape n b p0) as [Ha Hb']. rewrite Ha. auto.
Qed.

Definition col_of (xv : Z) : list Z := map (fun j => if Nat.eqb j (Z.to_nat nl - 1) then xv else 0) (seq 0 size).

Lemma data1_big l u : (l < size)%nat -> (u < domain)%nat ->
  nthZ (lut_big n data1 l) u
  = nthZ (entry_limbs b size (Z.to_nat nl) (wmul 64 (nthZ f (Z.to_nat (Z.of_nat u / step))) scale)) l.
Proof.
  intros Hl Hu. destruct data0_shape as [H01 H02]. destruct data1_shape as [H11 H12].
  destruct set_unfold as [Hnl _]. pose proof ext_pos as He.
  unfold lut_big. rewrite H11. rewrite interleave_nth by (fold domain; auto). rewrite map_length, H11.
  set (i := (u mod ext)%nat). set (t := (u / ext)%nat).
  assert (Hi : (i < ext)%nat) by (apply Nat.mod_upper_bound; lia).
  assert (Ht : (t < n)%nat) by (apply Nat.div_lt_upper_bound; unfold domain in Hu; lia).
  assert (Hut : u = (t * ext + i)%nat) by (pose proof (Nat.div_mod u ext ltac:(lia)); unfold t, i; lia).
  rewrite (nth_map_g (fun p : limbs => lnth p l) _ i [] []) by (rewrite H11; auto).
  unfold data1. rewrite (nth_map_g (poly_normalize_assign n b) _ i [] []) by (rewrite H01; auto).
  destruct (lut_wf_nth n size data0 i H02 ltac:(rewrite H01; auto)) as [Hs1 Hs2].
  rewrite poly_normalize_nth by (rewrite ?Hs1; auto).
  unfold entry_limbs. f_equal. f_equal.
  apply (nth_ext _ _ 0 0).
  - rewrite !map_length, seq_length. exact Hs1.
  - intros j Hj. rewrite map_length, Hs1 in Hj.
    rewrite (nth_map_g (fun limb => nthZ limb t) _ j [] 0) by (rewrite Hs1; auto).
    fold (lnth (nth i data0 []) j). rewrite data0_nth by auto.
    rewrite lut_full_nth by auto. rewrite <- Hut.
    fold (nthZ (map (fun j0 : nat => if Nat.eqb j0 (Z.to_nat nl - 1) then wmul 64 (nthZ f (Z.to_nat (Z.of_nat u / step))) scale else 0) (seq 0 size)) j).
    rewrite nthZ_map_seq by auto.
    destruct (Z.eqb_spec (Z.of_nat j) (nl - 1)); destruct (Nat.eqb_spec j (Z.to_nat nl - 1)); try lia.
    apply lut_at_nth; auto.
Qed.

Lemma entry_limbs_facts xv : Z.abs xv <= 2 ^ 62 ->
  length (entry_limbs b size (Z.to_nat nl) xv) = size /\ Forall (in_range 64) (entry_limbs b size (Z.to_nat nl) xv).
Proof.
  intros Hx. unfold entry_limbs.
  assert (Hh : hr62 (map (fun j : nat => if Nat.eqb j (Z.to_nat nl - 1) then xv else 0) (seq 0 size))).
  { unfold hr62. apply Forall_forall. intros y Hy. apply in_map_iff in Hy. destruct Hy as [j [<- _]].
    destruct (Nat.eqb j _); [exact Hx|]. cbn [Z.abs]. pose proof (pow2_pos 62 ltac:(lia)). lia. }
  destruct (normalize_assign_value b Hb _ Hh) as [HL [HB _]]. cbv zeta in HL, HB.
  split; [rewrite HL, map_seq_length; reflexivity|].
  eapply Forall_impl; [|exact HB]. intros a [Ha1 Ha2]. unfold in_range.
  assert (2 ^ (b - 1) <= 2 ^ (64 - 1)) by (apply Z.pow_le_mono_r; lia). lia.
Qed.

Lemma head_nth j : Z.abs (wmul 64 (nthZ f j) scale) <= 2 ^ 62.
Proof.
  destruct (Nat.lt_ge_cases j (length f)) as [Hj|Hj].
  - rewrite Forall_forall in Hhead. apply Hhead. unfold nthZ. apply nth_In. auto.
  - rewrite nthZ_overflow by auto. unfold wmul. rewrite Z.mul_0_l.
    rewrite wrap_id by (unfold in_range; pose proof (pow2_pos (64 - 1) ltac:(lia)); lia).
    cbn [Z.abs]. pose proof (pow2_pos 62 ltac:(lia)). lia.
Qed.

Lemma data1_big_range l : (l < size)%nat -> Forall (in_range 64) (lut_big n data1 l) /\ length (lut_big n data1 l) = domain.
Proof.
  intros Hl. destruct data1_shape as [H11 _].
  assert (HL : length (lut_big n data1 l) = domain) by (unfold lut_big; rewrite interleave_length, H11; reflexivity).
  split; [|exact HL]. apply Forall_of_nthZ. intros u Hu. rewrite HL in Hu.
  rewrite data1_big by auto.
  destruct (entry_limbs_facts _ (head_nth (Z.to_nat (Z.of_nat u / step)))) as [HA HB].
  apply Forall_nthZ; [exact HB | rewrite HA; exact Hl].
Qed.

Lemma drift_small : 0 <= drift < 2 ^ 61.
Proof.
  destruct step_exact as [Hs Hs1]. unfold drift.
  assert (Hd : Z.of_nat domain <= 2 ^ 61).
  { unfold domain, n, ext. rewrite Nat2Z.inj_mul, !Nat2Z.inj_pow. cbn [Z.of_nat Pos.of_succ_nat Pos.succ].
    rewrite <- Z.pow_add_r by lia. apply Z.pow_le_mono_r; lia. }
  assert (step <= Z.of_nat domain) by nia.
  split; [apply Z.div_pos; lia|]. apply Z.div_lt_upper_bound; lia.
Qed.

Lemma pow2_T : exists c, 2 ^ 64 = c * (2 * Z.of_nat n * Z.of_nat ext).
Proof.
  exists (2 ^ (64 - (Z.of_nat m + Z.of_nat x + 1))).
  unfold n, ext. rewrite !Nat2Z.inj_pow. cbn [Z.of_nat Pos.of_succ_nat Pos.succ].
  replace (2 * 2 ^ Z.of_nat m * 2 ^ Z.of_nat x) with (2 ^ (Z.of_nat m + Z.of_nat x + 1))
    by (rewrite !Z.pow_add_r by lia; ring).
  rewrite <- Z.pow_add_r by lia. f_equal. lia.
Qed.

(* ---- the table rule, every limb, every big-ring coefficient, every rotation ---- *)
Theorem set_then_rotate_limb (k : Z) (l u : nat) : (l < size)%nat -> (u < domain)%nat ->
  nthZ (lut_big n (lookup_table_rotate n k data) l) u
  = nthZ (selected_limbs (Z.of_nat domain) step drift b size (Z.to_nat nl) scale f k (Z.of_nat u)) l.
Proof.
  intros Hl Hu.
  destruct set_unfold as [Hnl [_ Hdata]]. destruct data1_shape as [H11 H12].
  destruct pow2_T as [c Hc]. pose proof n_pos as Hn. pose proof ext_pos as He.
  pose proof drift_small as Hdr.
  assert (Hwd : wneg 64 drift = - drift).
  { unfold wneg. apply wrap_id; [lia|]. unfold in_range. replace (64 - 1) with 63 by lia.
    assert (2 ^ 61 < 2 ^ 63) by (apply Z.pow_lt_mono_r; lia). lia. }
  assert (Hc1 : 2 ^ 64 = c * (2 * Z.of_nat n * Z.of_nat (length data1))) by (rewrite H11; exact Hc).
  pose proof (rot_wf n size data1 (wneg 64 drift) Hn ltac:(rewrite H11; auto) H12) as Hwf2.
  pose proof (rot_length n data1 (wneg 64 drift) Hn ltac:(rewrite H11; auto)) as Hlen2. rewrite <- Hdata in Hwf2, Hlen2. rewrite H11 in Hlen2.
  assert (Hc2 : 2 ^ 64 = c * (2 * Z.of_nat n * Z.of_nat (length data))) by (rewrite Hlen2; exact Hc).
  rewrite (rotate_is_big_ring_rotation_gen n size data k Hn ltac:(rewrite Hlen2; auto) Hwf2 c Hc2 l Hl).
  rewrite Hdata.
  rewrite (rotate_is_big_ring_rotation_gen n size data1 (wneg 64 drift) Hn ltac:(rewrite H11; auto) H12 c Hc1 l Hl).
  destruct (data1_big_range l Hl) as [HR HL].
  rewrite monomial_mul_compose by (auto; lia).
  rewrite monomial_mul_nth by (rewrite HL; auto).
  rewrite Hwd.
  unfold selected_limbs. cbv zeta.
  set (t := Z.of_nat u + drift - k).
  replace (Z.of_nat u - (k + - drift)) with t by (unfold t; lia).
  assert (Hdpos : 0 < Z.of_nat domain) by (unfold domain; nia).
  pose proof (Z.div_mod t (Z.of_nat domain) ltac:(lia)) as Hdm.
  pose proof (Z.mod_pos_bound t (Z.of_nat domain) Hdpos) as Hmb.
  rewrite (ext_at 64 (lut_big n data1 l) t (t / Z.of_nat domain) (t mod Z.of_nat domain)) by (rewrite HL; lia).
  rewrite data1_big by (auto; lia). rewrite Z2Nat.id by lia.
  destruct (entry_limbs_facts _ (head_nth (Z.to_nat (t mod Z.of_nat domain / step)))) as [HA HB].
  destruct (Z.even (t / Z.of_nat domain)); [reflexivity|].
  rewrite nthZ_map by (rewrite HA; auto). reflexivity.
Qed.

(* coefficient 0 of polynomial 0 *)
Theorem set_then_rotate_selects (k : Z) :
  coeff0 (lookup_table_rotate n k data) = selected_limbs (Z.of_nat domain) step drift b size (Z.to_nat nl) scale f k 0.
Proof.
  destruct set_unfold as [Hnl [_ Hdata]]. destruct data1_shape as [H11 H12].
  pose proof n_pos as Hn. pose proof ext_pos as He.
  pose proof (rot_wf n size data1 (wneg 64 drift) Hn ltac:(rewrite H11; auto) H12) as Hwf2.
  pose proof (rot_length n data1 (wneg 64 drift) Hn ltac:(rewrite H11; auto)) as Hlen2. rewrite <- Hdata in Hwf2, Hlen2. rewrite H11 in Hlen2.
  pose proof (rot_wf n size data k Hn ltac:(rewrite Hlen2; auto) Hwf2) as Hwf3.
  pose proof (rot_length n data k Hn ltac:(rewrite Hlen2; auto)) as Hlen3. rewrite Hlen2 in Hlen3.
  destruct (lut_wf_nth n size _ 0 Hwf3 ltac:(rewrite Hlen3; auto)) as [Hs1 Hs2].
  assert (Hsel : length (selected_limbs (Z.of_nat domain) step drift b size (Z.to_nat nl) scale f k 0) = size).
  { unfold selected_limbs. cbv zeta.
    destruct (entry_limbs_facts _ (head_nth (Z.to_nat ((0 + drift - k) mod Z.of_nat domain / step)))) as [HA _].
    destruct (Z.even _); [exact HA | rewrite map_length; exact HA]. }
  apply nthZ_ext.
  - unfold coeff0. rewrite map_length, Hs1, Hsel. reflexivity.
  - intros l Hl. unfold coeff0 in Hl. rewrite map_length, Hs1 in Hl.
    assert (Hd0 : (0 < domain)%nat) by (unfold domain; nia).
    pose proof (set_then_rotate_limb k l 0 Hl Hd0) as Hlimb. cbn [Z.of_nat] in Hlimb. rewrite <- Hlimb.
    unfold coeff0. unfold nthZ at 1. rewrite (nth_map_g hdZ _ l [] 0) by (rewrite Hs1; auto).
    fold (lnth (nth 0 (lookup_table_rotate n k data) []) l).
    unfold lut_big. rewrite Hlen3. rewrite interleave_nth by (fold domain; auto).
    rewrite map_length, Hlen3. rewrite Nat.mod_0_l, Nat.div_0_l by lia.
    rewrite (nth_map_g (fun p : limbs => lnth p l) _ 0 [] []) by (rewrite Hlen3; auto).
    rewrite hdZ_nthZ. reflexivity.
Qed.

End Set_.

(* ------------------------------------------------------------------ the rule in the form of the property text *)
Lemma mod_div_mul (t len step : Z) : 0 < len -> 0 < step -> (t mod (len * step)) / step = (t / step) mod len.
Proof.
  intros Hl Hs.
  pose proof (Z.div_mod t step ltac:(lia)) as H1. pose proof (Z.mod_pos_bound t step Hs) as B1.
  pose proof (Z.div_mod (t / step) len ltac:(lia)) as H2. pose proof (Z.mod_pos_bound (t / step) len Hl) as B2.
  set (q := t / step) in *. set (r := t mod step) in *. set (a := q / len) in *. set (c := q mod len) in *.
  assert (Hm : t mod (len * step) = step * c + r).
  { symmetry. apply (Z.mod_unique_pos t (len * step) a (step * c + r)); nia. }
  rewrite Hm. symmetry. apply (Z.div_unique_pos (step * c + r) step c r); lia.
Qed.

(* Left (standard) direction: after rotating by -j the constant coefficient holds the entry
   f[ floor((j + drift)/step) mod len ], negated iff floor((j + drift)/domain) is odd *)
Theorem set_then_rotate_selects_left (m x : nat) (b klut kmsg : Z) (f : list Z) (data : lut) (drift' j : Z) :
  let n := (2 ^ m)%nat in let ext := (2 ^ x)%nat in
  let domain := Z.of_nat (n * ext) in let len := Z.of_nat (length f) in
  let step := domain / len in let drift := step / 2 in
  let size := Z.to_nat (div_ceil klut b) in let nl := Z.to_nat (div_ceil kmsg b) in
  let scale := lut_scale b kmsg in
  (m + x + 1 <= 62)%nat -> 1 <= b <= 62 -> 1 <= len <= Z.of_nat n -> domain mod len = 0 ->
  Forall (fun fi => Z.abs (wmul 64 fi scale) <= 2 ^ 62) f ->
  lookup_table_set n ext b klut kmsg f = Some (data, drift') ->
  coeff0 (lookup_table_rotate n (- j) data) =
    let e := entry_limbs b size nl (wmul 64 (nthZ f (Z.to_nat (((j + drift) / step) mod len))) scale) in
    if Z.even ((j + drift) / domain) then e else map (wneg 64) e.
Proof.
  cbv zeta. intros Hmx Hb Hlen Hdiv Hhead Hset.
  rewrite (set_then_rotate_selects m x b klut kmsg f Hmx Hb Hlen Hdiv Hhead data drift' Hset (- j)).
  unfold selected_limbs. cbv zeta.
  set (domain := Z.of_nat (2 ^ m * 2 ^ x)) in *. set (len := Z.of_nat (length f)) in *.
  set (step := domain / len). set (drift := step / 2).
  replace (0 + drift - - j) with (j + drift) by lia.
  assert (Hs : len * step = domain).
  { unfold step. pose proof (Z.div_mod domain len ltac:(lia)) as Hd. rewrite Hdiv in Hd. lia. }
  assert (Hdpos : 0 < domain).
  { unfold domain. pose proof (Nat.pow_nonzero 2 m ltac:(lia)). pose proof (Nat.pow_nonzero 2 x ltac:(lia)). nia. }
  assert (Hs1 : 0 < step) by nia.
  assert (Hdm : ((j + drift) mod domain) / step = ((j + drift) / step) mod len).
  { rewrite <- Hs. apply mod_div_mul; lia. }
  rewrite Hdm. reflexivity.
Qed.
