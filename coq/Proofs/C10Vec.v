(* C10: vector level.  Each AVX kernel applied to whole slices (zipped into tuples of lanes) through the SIMD loop
   skeleton equals the map of the scalar reference kernel over the slice, for every length. *)
From PV Require Import Base.MachineInt Model.Znx Proofs.ZnxDigit Model.C10AvxLanes Proofs.C10Avx Proofs.C10Simd Proofs.C10Kernels.
Open Scope Z_scope.

(* ---------- vector level, all kernels: slices zipped into tuples, simd_map = map of the scalar kernel ---------- *)
Section Vec.
Variables (b lsh : Z).
Hypothesis Hb : 1 <= b <= 63.
Hypothesis Hl : 0 <= lsh < b.

Lemma avx_vec_first_step_carry_only (l : list Z) :
  simd_map (first_step_carry_only_avx b lsh) (first_step_carry_only 64 b lsh) l = map (first_step_carry_only 64 b lsh) l.
Proof. apply simd_loop_partition. intros x. apply avx_first_step_carry_only_eq_ref; assumption. Qed.

Lemma avx_vec_first_step_assign (l : list Z) :
  simd_map (first_step_assign_avx b lsh) (first_step_assign 64 b lsh) l = map (first_step_assign 64 b lsh) l.
Proof. apply simd_loop_partition. intros x. apply avx_first_step_assign_eq_ref; assumption. Qed.

Lemma avx_vec_first_step (ov : bool) (l : list (Z * Z)) :
  simd_map (fun t => first_step_avx ov b lsh (fst t) (snd t)) (fun t => first_step 64 ov b lsh (fst t) (snd t)) l
  = map (fun t => first_step 64 ov b lsh (fst t) (snd t)) l.
Proof. apply simd_loop_partition. intros t. apply avx_first_step_eq_ref; assumption. Qed.

Lemma avx_vec_middle_step_carry_only (l : list (Z * Z)) :
  simd_map (fun t => middle_step_carry_only_avx b lsh (fst t) (snd t)) (fun t => middle_step_carry_only 64 b lsh (fst t) (snd t)) l
  = map (fun t => middle_step_carry_only 64 b lsh (fst t) (snd t)) l.
Proof. apply simd_loop_partition. intros t. apply avx_middle_step_carry_only_eq_ref; assumption. Qed.

Lemma avx_vec_middle_step_assign (l : list (Z * Z)) :
  simd_map (fun t => middle_step_assign_avx b lsh (fst t) (snd t)) (fun t => middle_step_assign 64 b lsh (fst t) (snd t)) l
  = map (fun t => middle_step_assign 64 b lsh (fst t) (snd t)) l.
Proof. apply simd_loop_partition. intros t. apply avx_middle_step_assign_eq_ref; assumption. Qed.

Lemma avx_vec_middle_step_sub (l : list (Z * Z * Z)) :
  simd_map (fun t => middle_step_sub_avx b lsh (fst (fst t)) (snd (fst t)) (snd t))
           (fun t => middle_step_sub 64 b lsh (fst (fst t)) (snd (fst t)) (snd t)) l
  = map (fun t => middle_step_sub 64 b lsh (fst (fst t)) (snd (fst t)) (snd t)) l.
Proof. apply simd_loop_partition. intros t. apply avx_middle_step_sub_eq_ref; assumption. Qed.

Lemma avx_vec_final_step_assign (l : list (Z * Z)) :
  simd_map (fun t => final_step_assign_avx b lsh (fst t) (snd t)) (fun t => final_step_assign 64 b lsh (fst t) (snd t)) l
  = map (fun t => final_step_assign 64 b lsh (fst t) (snd t)) l.
Proof. apply simd_loop_partition. intros t. apply avx_final_step_assign_eq_ref; assumption. Qed.

Lemma avx_vec_final_step (ov : bool) (l : list (Z * Z * Z)) :
  simd_map (fun t => final_step_avx ov b lsh (fst (fst t)) (snd (fst t)) (snd t))
           (fun t => final_step 64 ov b lsh (fst (fst t)) (snd (fst t)) (snd t)) l
  = map (fun t => final_step 64 ov b lsh (fst (fst t)) (snd (fst t)) (snd t)) l.
Proof. apply simd_loop_partition. intros t. apply avx_final_step_eq_ref; assumption. Qed.

Lemma avx_vec_final_step_sub (l : list (Z * Z * Z)) :
  simd_map (fun t => final_step_sub_avx b lsh (fst (fst t)) (snd (fst t)) (snd t))
           (fun t => final_step_sub 64 b lsh (fst (fst t)) (snd (fst t)) (snd t)) l
  = map (fun t => final_step_sub 64 b lsh (fst (fst t)) (snd (fst t)) (snd t)) l.
Proof. apply simd_loop_partition. intros t. apply avx_final_step_sub_eq_ref; assumption. Qed.
End Vec.

Lemma avx_vec_extract_digit_addmul (b lsh : Z) (l : list (Z * Z)) : 1 <= b <= 63 -> 0 <= lsh <= 63 ->
  simd_map (fun t => extract_digit_addmul_avx b lsh (fst t) (snd t)) (fun t => extract_digit_addmul 64 b lsh (fst t) (snd t)) l
  = map (fun t => extract_digit_addmul 64 b lsh (fst t) (snd t)) l.
Proof. intros Hb Hl. apply simd_loop_partition. intros t. apply avx_extract_digit_addmul_eq_ref; assumption. Qed.

Lemma avx_vec_normalize_digit (b : Z) (l : list (Z * Z)) : 1 <= b <= 63 ->
  simd_map (fun t => normalize_digit_avx b (fst t) (snd t)) (fun t => normalize_digit 64 b (fst t) (snd t)) l
  = map (fun t => normalize_digit 64 b (fst t) (snd t)) l.
Proof. intros Hb. apply simd_loop_partition. intros t. apply avx_normalize_digit_eq_ref; assumption. Qed.

(* the lane function is only applied to slice elements: pointwise equality on the elements suffices *)
Lemma simd_loop_partition_in {A B : Type} (lane_f scalar_f : A -> B) (l : list A) :
  (forall x, In x l -> lane_f x = scalar_f x) -> simd_map lane_f scalar_f l = map scalar_f l.
Proof.
  intros Heq.
  assert (H1 : simd_map lane_f scalar_f l = simd_map scalar_f scalar_f l).
  { unfold simd_map. f_equal.
    generalize (Nat.shiftr (length l) 2) as span. intros span. revert l Heq.
    induction span as [|s IH]; intros l Heq; [reflexivity|].
    destruct l as [|a0 [|a1 [|a2 [|a3 r]]]]; try reflexivity.
    cbn [simd_main]. rewrite !Heq by (cbn [In]; auto 6).
    rewrite IH; [reflexivity|]. intros x Hx. apply Heq. cbn [In]. auto 6. }
  rewrite H1. apply simd_loop_partition. reflexivity.
Qed.

Lemma avx_vec_mul_power_of_two (k : Z) (l : list Z) : -63 <= k <= 63 -> Forall (in_range 64) l ->
  simd_map (mul_power_of_two_avx k) (mul_power_of_two 64 k) l = map (mul_power_of_two 64 k) l.
Proof.
  intros Hk Hr. apply simd_loop_partition_in. intros x Hx.
  apply avx_mul_power_of_two_eq_ref; [exact Hk|]. rewrite Forall_forall in Hr. apply Hr; exact Hx.
Qed.

Lemma avx_vec_mul_add_power_of_two (k : Z) (l : list (Z * Z)) : -63 <= k <= 63 -> Forall (fun t => in_range 64 (snd t)) l ->
  simd_map (fun t => mul_add_power_of_two_avx k (fst t) (snd t)) (fun t => mul_add_power_of_two 64 k (fst t) (snd t)) l
  = map (fun t => mul_add_power_of_two 64 k (fst t) (snd t)) l.
Proof.
  intros Hk Hr. apply simd_loop_partition_in. intros x Hx.
  apply avx_mul_add_power_of_two_eq_ref; [exact Hk|]. rewrite Forall_forall in Hr. apply Hr; exact Hx.
Qed.
