(* C09: list infrastructure (nthZ extensionality, map over seq, upd, folds of upd). *)
From PV Require Import Base.MachineInt Model.Znx Model.Limbs.
Open Scope Z_scope.

Lemma nthZ_ext (l1 l2 : list Z) :
  length l1 = length l2 ->
  (forall i, (i < length l1)%nat -> nthZ l1 i = nthZ l2 i) -> l1 = l2.
Proof.
  intros Hl H. apply (nth_ext l1 l2 0 0 Hl). exact H.
Qed.

Lemma nth_map_seq {A} (f : nat -> A) (d : A) (n i : nat) :
  (i < n)%nat -> nth i (map f (seq 0 n)) d = f i.
Proof.
  intros Hi.
  rewrite (nth_indep _ d (f 0%nat)) by (rewrite map_length, seq_length; exact Hi).
  rewrite (map_nth f (seq 0 n) 0%nat i), seq_nth by exact Hi. reflexivity.
Qed.

Lemma nthZ_map_seq (f : nat -> Z) (n i : nat) :
  (i < n)%nat -> nthZ (map f (seq 0 n)) i = f i.
Proof. apply nth_map_seq. Qed.

Lemma map_seq_length {A} (f : nat -> A) n : length (map f (seq 0 n)) = n.
Proof. rewrite map_length, seq_length; reflexivity. Qed.

Lemma nthZ_overflow (l : list Z) i : (length l <= i)%nat -> nthZ l i = 0.
Proof. apply nth_overflow. Qed.

Lemma nthZ_map (f : Z -> Z) (l : list Z) i :
  (i < length l)%nat -> nthZ (map f l) i = f (nthZ l i).
Proof.
  intros Hi. unfold nthZ.
  rewrite (nth_indep _ 0 (f 0)) by (rewrite map_length; exact Hi).
  apply map_nth.
Qed.

Lemma map_seq_ext {A} (f g : nat -> A) n :
  (forall i, (i < n)%nat -> f i = g i) -> map f (seq 0 n) = map g (seq 0 n).
Proof.
  intros H. apply map_ext_in. intros i Hi. apply in_seq in Hi. apply H. lia.
Qed.

(* a list is the map of its nth over seq *)
Lemma list_as_map_seq (l : list Z) : l = map (fun i => nthZ l i) (seq 0 (length l)).
Proof.
  apply nthZ_ext.
  - rewrite map_seq_length; reflexivity.
  - intros i Hi. rewrite nthZ_map_seq by exact Hi. reflexivity.
Qed.

(* ---------- upd ---------- *)
Lemma upd_length l i x : length (upd l i x) = length l.
Proof.
  revert i; induction l as [|h t IH]; intros [|i]; cbn [upd length]; auto.
Qed.

Lemma nthZ_upd_eq l i x : (i < length l)%nat -> nthZ (upd l i x) i = x.
Proof.
  revert i; induction l as [|h t IH]; intros [|i] Hi; cbn [upd length] in *; try lia.
  - reflexivity.
  - unfold nthZ in *. cbn [nth]. apply IH. lia.
Qed.

Lemma nthZ_upd_neq l i j x : i <> j -> nthZ (upd l i x) j = nthZ l j.
Proof.
  revert i j; induction l as [|h t IH]; intros [|i] [|j] Hij; cbn [upd]; try reflexivity; try lia.
  unfold nthZ in *. cbn [nth]. apply IH. lia.
Qed.

Lemma upd_oob l i x : (length l <= i)%nat -> upd l i x = l.
Proof.
  revert i; induction l as [|h t IH]; intros [|i] Hi; cbn [upd length] in *; try reflexivity; try lia.
  f_equal. apply IH. lia.
Qed.

(* ---------- fold of upd over a list of indices ---------- *)
Section FoldUpd.
Variables (pos : nat -> nat) (val : nat -> Z).

Definition fold_upd (js : list nat) (r0 : list Z) : list Z :=
  fold_left (fun r j => upd r (pos j) (val j)) js r0.

Lemma fold_upd_length js r0 : length (fold_upd js r0) = length r0.
Proof.
  revert r0; induction js as [|j js IH]; intros r0; cbn [fold_upd fold_left]; auto.
  unfold fold_upd in IH. rewrite IH. apply upd_length.
Qed.

Lemma fold_upd_other js r0 t :
  (forall j, In j js -> pos j <> t) -> nthZ (fold_upd js r0) t = nthZ r0 t.
Proof.
  revert r0; induction js as [|j js IH]; intros r0 H; cbn [fold_upd fold_left]; auto.
  unfold fold_upd in IH. rewrite IH by (intros; apply H; right; auto).
  apply nthZ_upd_neq. apply H. left; reflexivity.
Qed.

Lemma fold_upd_hit js r0 j :
  NoDup (map pos js) -> In j js -> (pos j < length r0)%nat ->
  nthZ (fold_upd js r0) (pos j) = val j.
Proof.
  revert r0; induction js as [|j0 js IH]; intros r0 Hnd Hin Hlt; [inversion Hin|].
  cbn [map] in Hnd. inversion Hnd as [|x l Hnotin Hnd']; subst.
  cbn [fold_upd fold_left]. destruct Hin as [->|Hin].
  - fold (fold_upd js (upd r0 (pos j) (val j))).
    rewrite fold_upd_other.
    + apply nthZ_upd_eq; exact Hlt.
    + intros j' Hj' Heq. apply Hnotin. rewrite <- Heq. apply in_map; exact Hj'.
  - unfold fold_upd in IH. apply IH; auto. rewrite upd_length; exact Hlt.
Qed.
End FoldUpd.

Lemma NoDup_map_inj_in {A B} (f : A -> B) (l : list A) :
  (forall x y, In x l -> In y l -> f x = f y -> x = y) -> NoDup l -> NoDup (map f l).
Proof.
  induction l as [|a l IH]; intros Hinj Hnd; cbn [map]; [constructor|].
  inversion Hnd as [|x l' Hnotin Hnd']; subst. constructor.
  - intros Hin. apply in_map_iff in Hin. destruct Hin as [y [Hy1 Hy2]].
    assert (y = a) by (apply Hinj; [right; auto|left; auto|auto]). subst. contradiction.
  - apply IH; auto. intros x y Hx Hy. apply Hinj; right; auto.
Qed.

Lemma inj_seq_NoDup (pos : nat -> nat) (n : nat) :
  (forall j1 j2, (j1 < n)%nat -> (j2 < n)%nat -> pos j1 = pos j2 -> j1 = j2) ->
  NoDup (map pos (seq 0 n)).
Proof.
  intros Hinj. apply NoDup_map_inj_in.
  - intros x y Hx Hy. apply in_seq in Hx, Hy. apply Hinj; lia.
  - apply seq_NoDup.
Qed.

(* pigeonhole: an injective map [0,n) -> [0,n) is onto *)
Lemma inj_seq_onto (pos : nat -> nat) (n : nat) :
  (forall j, (j < n)%nat -> (pos j < n)%nat) ->
  (forall j1 j2, (j1 < n)%nat -> (j2 < n)%nat -> pos j1 = pos j2 -> j1 = j2) ->
  forall t, (t < n)%nat -> exists j, (j < n)%nat /\ pos j = t.
Proof.
  intros Hr Hinj t Ht.
  assert (Hnd : NoDup (map pos (seq 0 n))) by (apply inj_seq_NoDup; exact Hinj).
  assert (Hincl : incl (map pos (seq 0 n)) (seq 0 n)).
  { intros x Hx. apply in_map_iff in Hx. destruct Hx as [j [<- Hj]].
    apply in_seq in Hj. apply in_seq. specialize (Hr j). lia. }
  assert (Hback : incl (seq 0 n) (map pos (seq 0 n))).
  { apply NoDup_length_incl; auto. rewrite map_length. lia. }
  assert (Hin : In t (map pos (seq 0 n))) by (apply Hback, in_seq; lia).
  apply in_map_iff in Hin. destruct Hin as [j [Hj1 Hj2]]. apply in_seq in Hj2.
  exists j; split; [lia|exact Hj1].
Qed.

Lemma fold_left_ext_in {A B} (f g : A -> B -> A) (l : list B) (a : A) :
  (forall x y, In y l -> f x y = g x y) -> fold_left f l a = fold_left g l a.
Proof.
  revert a; induction l as [|b l IH]; intros a H; cbn [fold_left]; auto.
  rewrite H by (left; reflexivity). apply IH. intros; apply H; right; auto.
Qed.

(* Forall in_range helpers *)
Lemma Forall_nthZ (P : Z -> Prop) (l : list Z) i : Forall P l -> (i < length l)%nat -> P (nthZ l i).
Proof.
  intros H Hi. rewrite Forall_forall in H. apply H. apply nth_In; exact Hi.
Qed.

Lemma Forall_of_nthZ (P : Z -> Prop) (l : list Z) :
  (forall i, (i < length l)%nat -> P (nthZ l i)) -> Forall P l.
Proof.
  intros H. apply Forall_forall. intros x Hx.
  destruct (In_nth l x 0 Hx) as [i [Hi <-]]. apply H; exact Hi.
Qed.

(* boolean reflection of the word-range hypothesis, to discharge it on concrete inputs *)
Lemma in_rangeb_sound w x : in_rangeb w x = true -> in_range w x.
Proof.
  unfold in_rangeb, in_range. intros H. apply andb_prop in H. destruct H as [H1 H2].
  apply Z.leb_le in H1. apply Z.ltb_lt in H2. split; assumption.
Qed.

Lemma Forall_in_rangeb w (l : list Z) : forallb (in_rangeb w) l = true -> Forall (in_range w) l.
Proof.
  intros H. apply Forall_forall. intros x Hx.
  rewrite forallb_forall in H. apply in_rangeb_sound. apply H; exact Hx.
Qed.
