(* C08: the executable oracle on vec_znx_normalize (record code 8101) never fails on the model, for every pair of
   radices and every offset (extends Proofs/C08CoeffOkCross.v, which needed offset >= 0 or equal radices). *)
From PV Require Import Base.MachineInt Model.Znx Model.Limbs Model.LimbsBig Model.C08Oracle
  Proofs.ZnxDigit Proofs.C08Steps Proofs.C08Chain Proofs.C08Loops Proofs.C08Value Proofs.C08Normalize
  Proofs.C08Shift Proofs.C08ShiftValue Proofs.C08CoeffOk Proofs.C08Cross Proofs.C08CrossTheorem
  Proofs.C08CrossNegTheorem.
Open Scope Z_scope.

Theorem coeff_ok_normalize_cross_all (rb ab off : Z) (a r0 : list Z) : 1 <= rb <= 62 -> 1 <= ab <= 62 ->
  exists out, normalize_cross 64 rb ab off a r0 = Some out /\ coeff_ok rb ab off 0 1 false a r0 out <> 0.
Proof.
  intros Hrb Hab.
  destruct (all_hr a) eqn:Ea.
  - destruct (normalize_cross_value_all rb ab Hrb Hab off a r0 (all_hr_hr62 a Ea)) as (out & E & L & V).
    exists out. split; [exact E|]. apply coeff_ok_holds. intros _ _. cbv zeta. rewrite L.
    specialize (V (Z.of_nat (length r0) * rb + Z.of_nat (length a) * ab + Z.abs off + 2)
                  ltac:(unfold zn; lia)).
    cbv zeta in V. unfold zn in V. destruct V as [V1 V2].
    rewrite Z.mul_0_l, Z.sub_0_r, Z.mul_1_l. split; [exact V1|]. split; [exact V2|discriminate].
  - (* outside the guard of the oracle: verdict 2 *)
    destruct (normalize_cross 64 rb ab off a r0) as [out|] eqn:E.
    + exists out. split; [reflexivity|]. unfold coeff_ok. rewrite Ea. cbn. discriminate.
    + exfalso. apply (normalize_cross_total rb ab ltac:(lia) ltac:(lia) off a r0). exact E.
Qed.

(* the dispatcher vec_znx_normalize: no restriction on the offset *)
Theorem coeff_ok_normalize_all (rb ab off : Z) (a r0 : list Z) : 1 <= rb <= 62 -> 1 <= ab <= 62 ->
  exists out, normalize 64 rb ab off a r0 = Some out /\ coeff_ok rb ab off 0 1 (rb =? ab) a r0 out <> 0.
Proof.
  intros Hrb Hab. unfold normalize.
  destruct (Z.eqb_spec rb ab) as [E|E].
  - subst ab. exists (normalize_inter 64 rb off a r0). split; [reflexivity|].
    apply coeff_ok_normalize_inter. exact Hrb.
  - apply coeff_ok_normalize_cross_all; auto.
Qed.
