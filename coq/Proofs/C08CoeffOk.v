(* C08: the executable per-coefficient oracle `coeff_ok` (Model/C08Oracle.v) never answers 0 (= fails)
   on the outputs of the same-radix models: it answers 1 (holds) whenever its headroom guard is met. *)
From PV Require Import Base.MachineInt Model.Znx Model.Limbs Model.C08Oracle
  Proofs.ZnxDigit Proofs.C08Steps Proofs.C08Chain Proofs.C08Loops Proofs.C08Value Proofs.C08Normalize
  Proofs.C08Shift Proofs.C08Rsh Proofs.C08ShiftValue Proofs.C08RshValue.
Open Scope Z_scope.

Lemma all_hr_hr62 (l : list Z) : all_hr l = true -> hr62 l.
Proof.
  unfold all_hr, hr62. intros Hf. rewrite forallb_forall in Hf. apply Forall_forall. intros x Hx.
  specialize (Hf x Hx). apply Z.leb_le in Hf. change (2 ^ 60) with 1152921504606846976 in Hf.
  change (2 ^ 62) with 4611686018427387904. lia.
Qed.

Lemma all_bal_of_Forall (b : Z) (l : list Z) : Forall (in_range b) l -> all_bal b l = true.
Proof.
  unfold all_bal. intros HF. apply forallb_forall. intros x Hx. rewrite Forall_forall in HF.
  destruct (HF x Hx) as [H1 H2]. unfold balanced, in_rangeb.
  apply andb_true_intro. split; [apply Z.leb_le|apply Z.ltb_lt]; auto.
Qed.

Lemma coeff_ok_holds (rb ab off keep sgn : Z) (nb : bool) (a r0 out : list Z) :
  (all_hr a = true -> (all_hr r0 = true \/ keep = 0) ->
   let rsz := Z.of_nat (length out) in let asz := Z.of_nat (length a) in
   let P := rsz * rb + asz * ab + Z.abs off + 2 in
   let D := tor_abs P (val_scaled P rb out - keep * val_scaled P rb r0 - sgn * val_scaled (P + off) ab a) in
   D <= 2 ^ (P - rsz * rb) /\ (asz * ab - off <= rsz * rb -> D = 0) /\
   (nb = true -> Forall (in_range rb) out)) ->
  coeff_ok rb ab off keep sgn nb a r0 out <> 0.
Proof.
  intros H. unfold coeff_ok.
  destruct (all_hr a) eqn:Ea; [|cbn; discriminate].
  destruct (all_hr r0 || (keep =? 0))%bool eqn:Er; [|cbn; discriminate].
  cbn [andb negb].
  assert (Hk : all_hr r0 = true \/ keep = 0).
  { apply Bool.orb_true_iff in Er. destruct Er as [E|E]; [left; exact E|right; apply Z.eqb_eq; exact E]. }
  specialize (H eq_refl Hk). cbv zeta in H. destruct H as (H1 & H2 & H3).
  cbv zeta.
  match goal with |- ob ?c <> 0 => assert (Hc : c = true); [|rewrite Hc; cbn; discriminate] end.
  apply andb_true_intro. split; [apply andb_true_intro; split|].
  - apply Z.leb_le. exact H1.
  - destruct (Z.leb_spec (Z.of_nat (length a) * ab - off) (Z.of_nat (length out) * rb)) as [Hx|Hx]; cbn [negb orb].
    + apply Z.eqb_eq. apply H2. exact Hx.
    + reflexivity.
  - destruct nb; cbn [negb orb]; [|reflexivity]. apply all_bal_of_Forall. apply H3. reflexivity.
Qed.

Section CoeffOk.
Variable b : Z.
Hypothesis Hb : 1 <= b <= 62.

(* 8101 with equal radices: vec_znx_normalize *)
Theorem coeff_ok_normalize_inter (off : Z) (a r0 : list Z) :
  coeff_ok b b off 0 1 true a r0 (normalize_inter 64 b off a r0) <> 0.
Proof.
  apply coeff_ok_holds. intros Ha _. cbv zeta.
  destruct (normalize_inter_value b Hb off a r0 (all_hr_hr62 a Ha)) as (L & B & _ & V).
  rewrite L. specialize (V (Z.of_nat (length r0) * b + Z.of_nat (length a) * b + Z.abs off + 2)
                           ltac:(unfold zn; lia)).
  cbv zeta in V. unfold zn in V. destruct V as [V1 V2].
  rewrite Z.mul_0_l, Z.sub_0_r, Z.mul_1_l.
  split; [exact V1|]. split; [exact V2|]. intros _. exact B.
Qed.

(* 8102: vec_znx_normalize_assign *)
Theorem coeff_ok_normalize_assign (r0 : list Z) :
  coeff_ok b b 0 0 1 true r0 r0 (normalize_assign 64 b r0) <> 0.
Proof.
  apply coeff_ok_holds. intros Ha _. cbv zeta.
  destruct (normalize_assign_value b Hb r0 (all_hr_hr62 r0 Ha)) as (L & B & V).
  rewrite L. set (P := Z.of_nat (length r0) * b + Z.of_nat (length r0) * b + Z.abs 0 + 2).
  specialize (V P ltac:(unfold P, zn; cbn [Z.abs]; lia)).
  rewrite Z.mul_0_l, Z.sub_0_r, Z.mul_1_l, Z.add_0_r.
  rewrite V. split; [|split; [reflexivity|intros _; exact B]].
  pose proof (pow2_pos (P - Z.of_nat (length r0) * b) ltac:(unfold P; cbn [Z.abs]; nia)). lia.
Qed.

(* 8103: vec_znx_lsh_assign *)
Theorem coeff_ok_lsh_assign (k : Z) (r0 : list Z) : 0 <= k ->
  coeff_ok b b k 0 1 true r0 r0 (lsh_assign 64 b k r0) <> 0.
Proof.
  intros Hk. apply coeff_ok_holds. intros Ha _. cbv zeta.
  destruct (lsh_assign_value b Hb k r0 Hk (all_hr_hr62 r0 Ha)) as (L & B & V).
  rewrite L. set (P := Z.of_nat (length r0) * b + Z.of_nat (length r0) * b + Z.abs k + 2).
  specialize (V P ltac:(unfold P, zn; lia)).
  rewrite Z.mul_0_l, Z.sub_0_r, Z.mul_1_l.
  rewrite V. split; [|split; [reflexivity|intros _; exact B]].
  pose proof (pow2_pos (P - Z.of_nat (length r0) * b) ltac:(unfold P; nia)). lia.
Qed.

(* 8104 / 8105: vec_znx_lsh<OVERWRITE> *)
Theorem coeff_ok_lsh (ov : bool) (k : Z) (a r0 : list Z) : 0 <= k ->
  coeff_ok b b k (if ov then 0 else 1) 1 ov a r0 (lsh 64 ov b k a r0) <> 0.
Proof.
  intros Hk. apply coeff_ok_holds. intros Ha Hr. cbv zeta.
  assert (Hr' : ov = false -> hr62 r0).
  { intros ->. destruct Hr as [Hr|Hr]; [apply all_hr_hr62; exact Hr|discriminate]. }
  destruct (lsh_value b Hb ov k a r0 Hk (all_hr_hr62 a Ha) Hr') as (L & B & V).
  rewrite L. set (P := Z.of_nat (length r0) * b + Z.of_nat (length a) * b + Z.abs k + 2).
  specialize (V P ltac:(unfold P, zn; lia)). cbv zeta in V. unfold zn in V. destruct V as [V1 V2].
  replace (val_scaled P b (lsh 64 ov b k a r0) - (if ov then 0 else 1) * val_scaled P b r0
           - 1 * val_scaled (P + k) b a)
    with (val_scaled P b (lsh 64 ov b k a r0) - (if ov then 0 else val_scaled P b r0)
          - val_scaled (P + k) b a) by (destruct ov; ring).
  split; [exact V1|]. split; [exact V2|exact B].
Qed.

(* 8106: vec_znx_lsh_sub *)
Theorem coeff_ok_lsh_sub (k : Z) (a r0 : list Z) : 0 <= k ->
  coeff_ok b b k 1 (-1) false a r0 (lsh_sub 64 b k a r0) <> 0.
Proof.
  intros Hk. apply coeff_ok_holds. intros Ha Hr. cbv zeta.
  assert (Hr' : hr62 r0) by (destruct Hr as [Hr|Hr]; [apply all_hr_hr62; exact Hr|discriminate]).
  destruct (lsh_sub_value b Hb k a r0 Hk (all_hr_hr62 a Ha) Hr') as (L & V).
  rewrite L. set (P := Z.of_nat (length r0) * b + Z.of_nat (length a) * b + Z.abs k + 2).
  specialize (V P ltac:(unfold P, zn; lia)). cbv zeta in V. unfold zn in V. destruct V as [V1 V2].
  replace (val_scaled P b (lsh_sub 64 b k a r0) - 1 * val_scaled P b r0 - -1 * val_scaled (P + k) b a)
    with (val_scaled P b (lsh_sub 64 b k a r0) - val_scaled P b r0 + val_scaled (P + k) b a) by ring.
  split; [exact V1|]. split; [exact V2|discriminate].
Qed.

(* 8107: vec_znx_rsh_assign *)
Theorem coeff_ok_rsh_assign (k : Z) (r0 : list Z) : 0 <= k ->
  coeff_ok b b (- k) 0 1 true r0 r0 (rsh_assign 64 b k r0) <> 0.
Proof.
  intros Hk. apply coeff_ok_holds. intros Ha _. cbv zeta.
  destruct (rsh_assign_value b Hb k r0 Hk (all_hr_hr62 r0 Ha)) as (L & B & V).
  rewrite L. set (P := Z.of_nat (length r0) * b + Z.of_nat (length r0) * b + Z.abs (- k) + 2).
  specialize (V P ltac:(unfold P, zn; lia)). cbv zeta in V. unfold zn in V. destruct V as [V1 V2].
  rewrite Z.mul_0_l, Z.sub_0_r, Z.mul_1_l. replace (P + - k) with (P - k) by lia.
  split; [exact V1|]. split; [|intros _; exact B].
  intros Hx. apply V2. nia.
Qed.

(* 8108: vec_znx_rsh<true> *)
Theorem coeff_ok_rsh_ov (k : Z) (a r0 : list Z) : 0 <= k ->
  coeff_ok b b (- k) 0 1 true a r0 (rsh 64 true b k a r0) <> 0.
Proof.
  intros Hk. apply coeff_ok_holds. intros Ha _. cbv zeta.
  destruct (rsh_ov_value b Hb k a r0 Hk (all_hr_hr62 a Ha)) as (L & B & V).
  rewrite L. set (P := Z.of_nat (length r0) * b + Z.of_nat (length a) * b + Z.abs (- k) + 2).
  specialize (V P ltac:(unfold P, zn; lia)). cbv zeta in V. unfold zn in V. destruct V as [V1 V2].
  rewrite Z.mul_0_l, Z.sub_0_r, Z.mul_1_l. replace (P + - k) with (P - k) by lia.
  split; [exact V1|]. split; [|intros _; exact B].
  intros Hx. apply V2. lia.
Qed.

(* 8109: vec_znx_rsh<false> *)
Theorem coeff_ok_rsh_add (k : Z) (a r0 : list Z) : 0 <= k ->
  coeff_ok b b (- k) 1 1 false a r0 (rsh 64 false b k a r0) <> 0.
Proof.
  intros Hk. apply coeff_ok_holds. intros Ha Hr. cbv zeta.
  assert (Hr' : hr62 r0) by (destruct Hr as [Hr|Hr]; [apply all_hr_hr62; exact Hr|discriminate]).
  destruct (rsh_add_value b Hb k a r0 Hk (all_hr_hr62 a Ha) Hr') as (L & V).
  rewrite L. set (P := Z.of_nat (length r0) * b + Z.of_nat (length a) * b + Z.abs (- k) + 2).
  specialize (V P ltac:(unfold P, zn; lia)). cbv zeta in V. unfold zn in V. destruct V as [V1 V2].
  rewrite !Z.mul_1_l. replace (P + - k) with (P - k) by lia.
  split; [exact V1|]. split; [|discriminate].
  intros Hx. apply V2. lia.
Qed.

(* 8110: vec_znx_rsh_sub *)
Theorem coeff_ok_rsh_sub (k : Z) (a r0 : list Z) : 0 <= k ->
  coeff_ok b b (- k) 1 (-1) false a r0 (rsh_sub 64 b k a r0) <> 0.
Proof.
  intros Hk. apply coeff_ok_holds. intros Ha Hr. cbv zeta.
  assert (Hr' : hr62 r0) by (destruct Hr as [Hr|Hr]; [apply all_hr_hr62; exact Hr|discriminate]).
  destruct (rsh_sub_value b Hb k a r0 Hk (all_hr_hr62 a Ha) Hr') as (L & V).
  rewrite L. set (P := Z.of_nat (length r0) * b + Z.of_nat (length a) * b + Z.abs (- k) + 2).
  specialize (V P ltac:(unfold P, zn; lia)). cbv zeta in V. unfold zn in V. destruct V as [V1 V2].
  replace (val_scaled P b (rsh_sub 64 b k a r0) - 1 * val_scaled P b r0 - -1 * val_scaled (P + - k) b a)
    with (val_scaled P b (rsh_sub 64 b k a r0) - val_scaled P b r0 + val_scaled (P - k) b a)
    by (replace (P + - k) with (P - k) by lia; ring).
  split; [exact V1|]. split; [|discriminate].
  intros Hx. apply V2. lia.
Qed.

End CoeffOk.
