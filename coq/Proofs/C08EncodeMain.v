(* C08 encoding, level 3: round trips of the three encoders with their decoders, shape of the written limbs. *)
From PV Require Import Base.MachineInt Model.Znx Model.Limbs Model.C08Encode Proofs.ZnxDigit Proofs.C08Steps
  Proofs.C08EncodeSpec Proofs.C08EncodeCoef Proofs.C08EncodeDec.
Open Scope Z_scope.

Lemma pow2_divide (a c : Z) : 0 <= a <= c -> (2 ^ a | 2 ^ c).
Proof. intros H. exists (2 ^ (c - a)). rewrite <- Z.pow_add_r by lia. f_equal. lia. Qed.

Lemma mod0_divide (x m : Z) : 0 < m -> (x mod m = 0 <-> (m | x)).
Proof. intros Hm. apply Z.mod_divide. lia. Qed.

Lemma mod0_weaken (x a c : Z) : 0 <= a <= c -> x mod 2 ^ c = 0 -> x mod 2 ^ a = 0.
Proof.
  intros H Hx. pose proof (pow2_pos a ltac:(lia)). pose proof (pow2_pos c ltac:(lia)).
  apply mod0_divide; [lia|]. apply mod0_divide in Hx; [|lia].
  eapply Z.divide_trans; [apply pow2_divide; exact H|exact Hx].
Qed.

Lemma wrap_congr0 (w x : Z) : 1 <= w -> (wrap w x - x) mod 2 ^ w = 0.
Proof.
  intros Hw. destruct (wrap_exists w x Hw) as [q Hq]. rewrite Hq.
  replace (x - q * 2 ^ w - x) with (- q * 2 ^ w) by ring. apply Z_mod_mult.
Qed.

Lemma mod0_add (x y m : Z) : 0 < m -> x mod m = 0 -> y mod m = 0 -> (x + y) mod m = 0.
Proof.
  intros Hm Hx Hy. apply mod0_divide; [lia|]. apply mod0_divide in Hx; [|lia]. apply mod0_divide in Hy; [|lia].
  apply Z.divide_add_r; assumption.
Qed.

Lemma enc_hi_nonneg (b k : Z) : 1 <= b -> 1 <= k -> 0 <= enc_hi b k.
Proof.
  intros Hb Hk. destruct (enc_params b k Hb Hk) as (Esz & Hr & Hs1).
  rewrite enc_hi_ghi by auto. unfold ghi.
  pose proof (geom_nonneg b (enc_size b k - 1) ltac:(lia)) as Hg.
  pose proof (pow2_pos (b - 1) ltac:(lia)). pose proof (pow2_pos (b - enc_krem b k) ltac:(lia)).
  pose proof (pow2_pos (b - enc_krem b k - 1) ltac:(lia)). nia.
Qed.

(* one limb: the usual centred range; two or more limbs: the range reaches below -2^(k-1) *)
Lemma enc_range_size1 (b k : Z) : 1 <= b -> 1 <= k -> enc_size b k = 1%nat ->
  enc_lo b k = - 2 ^ (k - 1) /\ enc_hi b k = 2 ^ (k - 1) - 1.
Proof.
  intros Hb Hk Hs. destruct (enc_params b k Hb Hk) as (Esz & Hr & Hs1).
  assert (Ek : b - enc_krem b k = k) by nia.
  unfold enc_hi. rewrite enc_lo_glo, Hs, Ek. unfold glo. cbn [Nat.sub geom].
  pose proof (pow2_split k ltac:(lia)). lia.
Qed.

Lemma enc_lo_size2 (b k : Z) : 1 <= b -> 1 <= k -> (2 <= enc_size b k)%nat ->
  enc_lo b k <= - 2 ^ (k - 1) - 1 /\ enc_hi b k < 2 ^ (k - 1) - 1.
Proof.
  intros Hb Hk Hs. destruct (enc_params b k Hb Hk) as (Esz & Hr & Hs1).
  assert (Hlo : enc_lo b k <= - 2 ^ (k - 1) - 1).
  { rewrite enc_lo_glo. set (k' := b - enc_krem b k) in *.
    pose proof (pow_k_split b k Hb Hk) as Hk2. fold k' in Hk2.
    destruct (enc_size b k - 1)%nat as [|m'] eqn:Em; [lia|].
    pose proof (pow2_split k ltac:(lia)) as Hsk.
    pose proof (pow2_pos k' ltac:(unfold k'; lia)) as Hp.
    pose proof (pow2_split k' ltac:(unfold k'; lia)) as Hs2.
    pose proof (pow2_pos (k' - 1) ltac:(unfold k'; lia)) as Hp1.
    pose proof (geom_ge_pow b m' ltac:(lia)) as Hg. unfold glo.
    pose proof (pow2_split b Hb) as Hsb. pose proof (pow2_pos (b - 1) ltac:(lia)) as Hpb.
    rewrite pow_nb in Hk2 by lia. pose proof (pow_nb_pos b m' ltac:(lia)) as Hpm. nia. }
  split; [exact Hlo|]. unfold enc_hi. pose proof (pow2_split k ltac:(lia)). lia.
Qed.

Section RT.
Variable b : Z.
Hypothesis Hb : 1 <= b <= 62.

(* decoding what the encoders write for an effective value V *)
Lemma dec_enc_spec (w k : Z) (a_size : nat) (V : Z) : 64 <= w -> 1 <= k <= Z.of_nat a_size * b ->
  dec_vec w b k (enc_spec b k a_size V) = wrap w (enc_rep b k V).
Proof.
  intros Hw Hk. destruct (enc_params b k ltac:(lia) ltac:(lia)) as (Esz & Hr & Hs1).
  pose proof (enc_size_le b k a_size ltac:(lia) Hk) as Hs2.
  rewrite (dec_vec_spec w b Hw Hb k);
    [|lia|rewrite enc_spec_length by lia; lia|apply enc_spec_in_range; lia].
  rewrite dec_exact_enc_spec by lia. reflexivity.
Qed.

(* the four facts about a round trip through limbs that encode V, V = v modulo 2^w *)
Lemma rt_generic (w k : Z) (a_size : nat) (V v : Z) : 64 <= w -> 1 <= k <= Z.of_nat a_size * b ->
  in_range w v -> (V - v) mod 2 ^ w = 0 ->
  let r := dec_vec w b k (enc_spec b k a_size V) in
  in_range w r /\ (r - v) mod 2 ^ (Z.min k w) = 0 /\
  (k <= w - 1 -> enc_lo b k <= r <= enc_hi b k /\ (r - v) mod 2 ^ k = 0) /\
  (enc_lo b k <= v <= enc_hi b k -> r = v).
Proof.
  intros Hw Hk Hv HV. cbv zeta. rewrite dec_enc_spec by auto.
  pose proof (wrap_range w (enc_rep b k V) ltac:(lia)) as Hrg.
  pose proof (enc_rep_congr b k V ltac:(lia) ltac:(lia)) as Hc.
  pose proof (enc_rep_range b k V ltac:(lia) ltac:(lia)) as Hrr.
  pose proof (enc_lo_le b k ltac:(lia) ltac:(lia)) as [Hlo Hhi].
  pose proof (enc_hi_nonneg b k ltac:(lia) ltac:(lia)) as Hh0.
  pose proof (pow2_pos (Z.min k w) ltac:(lia)) as Hpm.
  assert (Hmod : (wrap w (enc_rep b k V) - v) mod 2 ^ (Z.min k w) = 0).
  { replace (wrap w (enc_rep b k V) - v)
      with ((wrap w (enc_rep b k V) - enc_rep b k V) + ((enc_rep b k V - V) + (V - v))) by ring.
    apply mod0_add; [lia| |apply mod0_add; [lia| |]].
    - apply (mod0_weaken _ _ w); [lia|]. apply wrap_congr0. lia.
    - apply (mod0_weaken _ _ k); [lia|]. exact Hc.
    - apply (mod0_weaken _ _ w); [lia|]. exact HV. }
  assert (Hsmall : k <= w - 1 -> wrap w (enc_rep b k V) = enc_rep b k V).
  { intros Hkw. apply wrap_id; [lia|]. unfold in_range.
    assert (2 ^ k <= 2 ^ (w - 1)) by (apply Z.pow_le_mono_r; lia).
    unfold enc_hi in *. pose proof (pow2_split k ltac:(lia)). lia. }
  split; [exact Hrg|]. split; [exact Hmod|]. split.
  - intros Hkw. rewrite Hsmall by exact Hkw. split; [exact Hrr|].
    rewrite <- (Hsmall Hkw). rewrite Z.min_l in Hmod by lia. exact Hmod.
  - intros Hfit. destruct (Z_le_gt_dec k (w - 1)) as [Hkw|Hkw].
    + rewrite Hsmall by exact Hkw.
      apply (rep_unique k (enc_lo b k)); [lia| | |].
      * unfold enc_hi in Hrr. lia.
      * unfold enc_hi in Hfit. lia.
      * rewrite <- (Hsmall Hkw). rewrite Z.min_l in Hmod by lia. exact Hmod.
    + rewrite Z.min_r in Hmod by lia.
      destruct Hrg as [R1 R2]. destruct Hv as [V1 V2]. pose proof (pow2_split w ltac:(lia)) as Hsw.
      apply (rep_unique w (- 2 ^ (w - 1))); [lia|lia|lia|exact Hmod].
Qed.

(* ---------- the three encoders with their decoders ---------- *)

Theorem rt_i64 (k : Z) (a_size : nat) (v : Z) : 1 <= k <= Z.of_nat a_size * b -> in_range 64 v ->
  let r := dec_vec 64 b k (enc_i64 b k a_size v) in
  in_range 64 r /\ (r - v) mod 2 ^ (Z.min k 64) = 0 /\
  (k <= 63 -> enc_lo b k <= r <= enc_hi b k /\ (r - v) mod 2 ^ k = 0) /\
  (enc_lo b k <= v <= enc_hi b k -> r = v).
Proof.
  intros Hk Hv. rewrite (enc_i64_spec b Hb k a_size v Hk Hv).
  apply (rt_generic 64 k a_size v v); auto; try lia; rewrite Z.sub_diag; reflexivity.
Qed.

Theorem rt_i128 (k : Z) (a_size : nat) (v : Z) : 1 <= k <= Z.of_nat a_size * b -> in_range 128 v ->
  let r := dec_vec 128 b k (enc_i128 b k a_size v) in
  in_range 128 r /\ (r - v) mod 2 ^ (Z.min k 128) = 0 /\
  (k <= 127 -> enc_lo b k <= r <= enc_hi b k /\ (r - v) mod 2 ^ k = 0) /\
  (enc_lo b k <= v <= enc_hi b k -> r = v).
Proof.
  intros Hk Hv. rewrite (enc_i128_spec b Hb k a_size v Hk Hv).
  apply (rt_generic 128 k a_size v v); auto; try lia; rewrite Z.sub_diag; reflexivity.
Qed.

Lemma dec_coeff_enc (k : Z) (a_size : nat) (v : Z) : 1 <= k <= Z.of_nat a_size * b -> in_range 64 v ->
  dec_coeff_i64 b k (enc_i64 b k a_size v) = dec_vec 64 b k (enc_i64 b k a_size v).
Proof.
  intros Hk Hv. rewrite (enc_i64_spec b Hb k a_size v Hk Hv).
  destruct (enc_params b k ltac:(lia) ltac:(lia)) as (Esz & Hr & Hs1).
  pose proof (enc_size_le b k a_size ltac:(lia) Hk) as Hs2.
  apply dec_coeff_vec; try lia.
  - rewrite enc_spec_length by lia. lia.
  - apply enc_spec_in_range; lia.
Qed.

Theorem rt_coeff (k : Z) (a_size : nat) (v : Z) : 1 <= k <= Z.of_nat a_size * b -> in_range 64 v ->
  let r := dec_coeff_i64 b k (enc_i64 b k a_size v) in
  in_range 64 r /\ (r - v) mod 2 ^ (Z.min k 64) = 0 /\
  (k <= 63 -> enc_lo b k <= r <= enc_hi b k /\ (r - v) mod 2 ^ k = 0) /\
  (enc_lo b k <= v <= enc_hi b k -> r = v).
Proof. intros Hk Hv. cbv zeta. rewrite dec_coeff_enc by auto. apply rt_i64; auto. Qed.

(* an i64 encoding read back at 128 bits *)
Theorem rt_i64_dec128 (k : Z) (a_size : nat) (v : Z) : 1 <= k <= Z.of_nat a_size * b -> in_range 64 v ->
  enc_lo b k <= v <= enc_hi b k -> dec_vec 128 b k (enc_i64 b k a_size v) = v.
Proof.
  intros Hk Hv Hfit. rewrite (enc_i64_spec b Hb k a_size v Hk Hv).
  destruct (rt_generic 128 k a_size v v ltac:(lia) Hk) as (_ & _ & _ & H).
  - apply (in_range_weaken 64 128); [lia|exact Hv].
  - rewrite Z.sub_diag. reflexivity.
  - apply H. exact Hfit.
Qed.

(* ---------- what the encoders write ---------- *)

Lemma enc_spec_shape (k : Z) (a_size : nat) (V : Z) : 1 <= k <= Z.of_nat a_size * b ->
  let l := enc_spec b k a_size V in
  let size := enc_size b k in let krem := enc_krem b k in
  length l = a_size /\ Forall (in_range b) (firstn size l) /\ skipn size l = zeros (a_size - size) /\
  nthZ l (size - 1) mod 2 ^ krem = 0 /\ e_lval b (firstn size l) = enc_rep b k V * 2 ^ krem.
Proof.
  intros Hk. cbv zeta. destruct (enc_params b k ltac:(lia) ltac:(lia)) as (Esz & Hr & Hs1).
  pose proof (enc_size_le b k a_size ltac:(lia) Hk) as Hs2.
  split; [apply enc_spec_length; lia|].
  unfold enc_spec. cbv zeta.
  set (size := enc_size b k) in *. set (krem := enc_krem b k) in *.
  set (hi := rev (ldigs b (size - 1) (bdiv (b - krem) V))).
  set (d := wrap (b - krem) V * 2 ^ krem).
  assert (El : length hi = (size - 1)%nat) by (unfold hi; rewrite rev_length, ldigs_length; reflexivity).
  assert (Eapp : hi ++ [d] ++ zeros (a_size - size) = (hi ++ [d]) ++ zeros (a_size - size))
    by (rewrite <- app_assoc; reflexivity).
  assert (El2 : length (hi ++ [d]) = size) by (rewrite app_length; cbn [length]; lia).
  assert (Ef : firstn size (hi ++ [d] ++ zeros (a_size - size)) = hi ++ [d]).
  { rewrite Eapp. rewrite <- El2 at 1. rewrite firstn_app, firstn_all, Nat.sub_diag. cbn [firstn]. apply app_nil_r. }
  assert (Es : skipn size (hi ++ [d] ++ zeros (a_size - size)) = zeros (a_size - size)).
  { rewrite Eapp. rewrite <- El2 at 1. rewrite skipn_app, skipn_all, Nat.sub_diag. reflexivity. }
  rewrite Ef, Es. split; [|split; [reflexivity|split]].
  - apply Forall_app_intro.
    + unfold hi. apply Forall_rev. apply ldigs_balanced. lia.
    + constructor; [|constructor]. unfold d. apply shifted_digit_range; [lia|]. apply wrap_range; lia.
  - replace (size - 1)%nat with (length hi + 0)%nat by lia. rewrite nthZ_app_r. cbn [app nthZ nth].
    unfold d. apply Z_mod_mult.
  - rewrite lval_app1. unfold hi, d. rewrite lval_rev. unfold enc_rep. cbv zeta. fold size krem.
    assert (E : 2 ^ b = 2 ^ (b - krem) * 2 ^ krem) by (rewrite <- Z.pow_add_r by lia; f_equal; lia).
    rewrite E. ring.
Qed.

(* the torus value of the written limbs is v / 2^k modulo 1 *)
Lemma enc_spec_value_congr (k : Z) (a_size : nat) (v : Z) : 1 <= k <= Z.of_nat a_size * b ->
  (e_lval b (firstn (enc_size b k) (enc_spec b k a_size v)) - v * 2 ^ enc_krem b k)
    mod 2 ^ (Z.of_nat (enc_size b k) * b) = 0.
Proof.
  intros Hk. destruct (enc_params b k ltac:(lia) ltac:(lia)) as (Esz & Hr & Hs1).
  destruct (enc_spec_shape k a_size v Hk) as (_ & _ & _ & _ & Ev). cbv zeta in Ev. rewrite Ev.
  rewrite Esz. rewrite Z.pow_add_r by lia.
  pose proof (enc_rep_congr b k v ltac:(lia) ltac:(lia)) as Hc.
  pose proof (pow2_pos k ltac:(lia)) as Hpk. pose proof (pow2_pos (enc_krem b k) ltac:(lia)) as Hpr.
  replace (enc_rep b k v * 2 ^ enc_krem b k - v * 2 ^ enc_krem b k)
    with ((enc_rep b k v - v) * 2 ^ enc_krem b k) by ring.
  rewrite Zmult_mod_distr_r, Hc. reflexivity.
Qed.

End RT.
