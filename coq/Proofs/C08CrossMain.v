(* C08, cross-radix normalisation, offset >= 0: bit geometry, the loop, and the value theorem. *)
From PV Require Import Base.MachineInt Model.Znx Model.Limbs Model.C08Oracle
  Proofs.ZnxDigit Proofs.C08Steps Proofs.C08Chain Proofs.C08Loops Proofs.C08Value Proofs.C08Normalize
  Proofs.C08Shift Proofs.C08ShiftValue Proofs.C08CrossInner Proofs.C08CrossGeom Proofs.C08CrossOuter
  Proofs.C08CrossLoop.
Open Scope Z_scope.

(* ---------- bit geometry of normalize_cross for a non-negative limb offset lo ---------- *)

Lemma cross_geom (rb ab lo : Z) (asz rsz : nat) : 1 <= rb -> 1 <= ab -> 0 <= lo ->
  let a_tot := zn asz * ab in let r_tot := zn rsz * rb in
  let res_start_bit := clampZ (a_tot - lo * ab) 0 r_tot in
  let a_start_bit := clampZ (r_tot + lo * ab) 0 a_tot in
  let a_end_bit := clampZ (lo * ab) 0 a_tot in
  let res_start := Z.to_nat (div_ceil res_start_bit rb) in
  let a_start := Z.to_nat (div_ceil a_start_bit ab) in
  let a_end := Z.to_nat (a_end_bit / ab) in
  let take := (a_tot - a_start_bit) mod ab in
  let m := (r_tot - res_start_bit) mod rb in
  res_start <> 0%nat ->
  exists z g, 0 <= z /\ 0 <= g /\ (z = 0 \/ g = 0) /\ lo < zn asz /\
    (zn asz - lo) * ab = r_tot + g - z /\
    (a_start <= asz)%nat /\ a_end = Z.to_nat lo /\ (a_end < a_start)%nat /\
    g = zn (asz - a_start) * ab + take /\ 0 <= take < ab /\ 0 <= m < rb /\
    (1 <= res_start <= rsz)%nat /\ (zn rsz - zn res_start) * rb + m = z /\
    (take <> 0 -> z = 0 /\ res_start = rsz) /\ (0 < z -> (asz - a_start = 0)%nat).
Proof.
  intros Hrb Hab Hlo a_tot r_tot res_start_bit a_start_bit a_end_bit res_start a_start a_end take m Hrs.
  assert (Dat : a_tot = zn asz * ab) by reflexivity.
  assert (Drt : r_tot = zn rsz * rb) by reflexivity.
  assert (Drsb : res_start_bit = clampZ (a_tot - lo * ab) 0 r_tot) by reflexivity.
  assert (Dasb : a_start_bit = clampZ (r_tot + lo * ab) 0 a_tot) by reflexivity.
  assert (Daeb : a_end_bit = clampZ (lo * ab) 0 a_tot) by reflexivity.
  assert (Drs : res_start = Z.to_nat (div_ceil res_start_bit rb)) by reflexivity.
  assert (Das : a_start = Z.to_nat (div_ceil a_start_bit ab)) by reflexivity.
  assert (Dae : a_end = Z.to_nat (a_end_bit / ab)) by reflexivity.
  assert (Dtk : take = (a_tot - a_start_bit) mod ab) by reflexivity.
  assert (Dm : m = (r_tot - res_start_bit) mod rb) by reflexivity.
  clearbody a_tot r_tot res_start_bit a_start_bit a_end_bit res_start a_start a_end take m.
  set (A := zn asz) in *. set (R := zn rsz) in *.
  assert (HA : 0 <= A) by (unfold A, zn; lia). assert (HR : 0 <= R) by (unfold R, zn; lia).
  assert (EA : A = zn asz) by reflexivity. assert (ER : R = zn rsz) by reflexivity.
  clearbody A R.
  assert (Hloab : 0 <= lo * ab) by (apply Z.mul_nonneg_nonneg; lia).
  assert (HRrb : 0 <= r_tot) by (rewrite Drt; apply Z.mul_nonneg_nonneg; lia).
  assert (HAab : 0 <= a_tot) by (rewrite Dat; apply Z.mul_nonneg_nonneg; lia).
  set (Ta := a_tot - lo * ab) in *.
  assert (Hpos : 0 < Ta /\ 0 < r_tot).
  { destruct (Z_le_gt_dec Ta 0) as [H1|H1]; [|destruct (Z_le_gt_dec r_tot 0) as [H2|H2]; [|lia]]; exfalso; apply Hrs.
    - rewrite Drs, Drsb. unfold clampZ. replace (Z.max 0 (Z.min Ta r_tot)) with 0 by (clear - H1 HRrb; lia).
      unfold div_ceil. rewrite Z.div_small by (clear - Hrb; lia). reflexivity.
    - rewrite Drs, Drsb. unfold clampZ. replace (Z.max 0 (Z.min Ta r_tot)) with 0 by (clear - H2 HRrb; lia).
      unfold div_ceil. rewrite Z.div_small by (clear - Hrb; lia). reflexivity. }
  destruct Hpos as [HTa Hrt].
  assert (HloA : lo < A).
  { destruct (Z_lt_le_dec lo A) as [|Hge]; [assumption|]. exfalso.
    assert (A * ab <= lo * ab) by (apply Z.mul_le_mono_nonneg_r; lia). unfold Ta in HTa. clear - HTa H Dat. lia. }
  assert (ETa : Ta = (A - lo) * ab) by (unfold Ta; rewrite Dat; ring).
  assert (Eend : a_end = Z.to_nat lo).
  { rewrite Dae, Daeb. unfold clampZ.
    replace (Z.max 0 (Z.min (lo * ab) a_tot)) with (lo * ab) by (unfold Ta in HTa; clear - HTa Hloab; lia).
    rewrite Z.div_mul by (clear - Hab; lia). reflexivity. }
  clear Dae Daeb.
  destruct (Z_le_gt_dec r_tot Ta) as [Htr|Hex].
  - (* truncation: the stream is at least as long as res *)
    set (p0 := Ta - r_tot). assert (Hp0 : 0 <= p0) by (unfold p0; lia).
    assert (Ers : res_start_bit = R * rb).
    { rewrite Drsb. fold Ta. unfold clampZ. clear - Htr Hrt Drt. lia. }
    assert (Eas : a_start_bit = r_tot + lo * ab).
    { rewrite Dasb. unfold clampZ. unfold Ta in Htr. clear - Htr Hloab HRrb. lia. }
    assert (Etake : take = p0 mod ab) by (rewrite Dtk, Eas; f_equal; unfold p0, Ta; ring).
    clear Drsb Dasb Dtk.
    pose proof (Z.div_mod p0 ab ltac:(lia)) as Hdm. pose proof (Z.mod_pos_bound p0 ab ltac:(lia)) as Hmb.
    assert (Hq : 0 <= p0 / ab) by (apply Z.div_pos; lia).
    set (q := p0 / ab) in *. rewrite <- Etake in Hdm, Hmb. clearbody q. clear Etake.
    assert (Hqab : 0 <= q * ab) by (apply Z.mul_nonneg_nonneg; lia).
    assert (EAs : div_ceil a_start_bit ab = A - q).
    { rewrite Eas. replace (r_tot + lo * ab) with ((A - q) * ab - take) by (unfold p0, Ta in *; clear - Hdm Dat; lia).
      apply div_ceil_mul_sub; lia. }
    assert (HqA : q < A - lo).
    { destruct (Z_lt_le_dec q (A - lo)) as [|Hge]; [assumption|]. exfalso.
      assert ((A - lo) * ab <= q * ab) by (apply Z.mul_le_mono_nonneg_r; lia).
      unfold p0 in *. clear - H Hdm Hmb ETa Hrt. lia. }
    assert (ERs : div_ceil res_start_bit rb = R).
    { rewrite Ers. replace (R * rb) with (R * rb - 0) by ring. apply div_ceil_mul_sub; lia. }
    assert (Em : m = 0).
    { rewrite Dm, Ers, Drt, Z.sub_diag. apply Z.mod_0_l. lia. }
    assert (Eastart : zn a_start = A - q) by (rewrite Das, EAs; unfold zn; rewrite Z2Nat.id by lia; reflexivity).
    assert (Erstart : zn res_start = R) by (rewrite Drs, ERs; unfold zn; rewrite Z2Nat.id by lia; reflexivity).
    assert (HR1 : 1 <= R).
    { destruct (Z_le_gt_dec R 0) as [H0|]; [|lia]. assert (R = 0) by lia. rewrite Drt, H in Hrt. lia. }
    clear Das Drs Dm EAs ERs Eas Ers.
    exists 0, p0. split; [lia|]. split; [exact Hp0|]. split; [left; reflexivity|]. split; [exact HloA|].
    split; [unfold p0; lia|].
    split; [unfold zn in *; lia|]. split; [exact Eend|]. split; [rewrite Eend; unfold zn in *; lia|].
    split.
    { replace (zn (asz - a_start)) with q by (unfold zn in *; lia). lia. }
    split; [exact Hmb|]. split; [rewrite Em; lia|].
    split; [unfold zn in *; lia|]. split; [rewrite Erstart, Em; ring|].
    split; [intros _; split; [reflexivity|unfold zn in *; lia]|]. intros Hf. lia.
  - (* exact: the stream is shorter than res, res has z zero bits at the bottom *)
    set (zz := r_tot - Ta). assert (Hzz : 0 < zz) by (unfold zz; lia).
    assert (Ers : res_start_bit = Ta).
    { rewrite Drsb. fold Ta. unfold clampZ. clear - Hex HTa. lia. }
    assert (Eas : a_start_bit = A * ab).
    { rewrite Dasb. unfold clampZ. unfold Ta in Hex. clear - Hex HAab Dat. lia. }
    assert (Etake : take = 0).
    { rewrite Dtk, Eas, Dat, Z.sub_diag. apply Z.mod_0_l. lia. }
    assert (EAs : div_ceil a_start_bit ab = A).
    { rewrite Eas. replace (A * ab) with (A * ab - 0) by ring. apply div_ceil_mul_sub; lia. }
    assert (Em : m = zz mod rb) by (rewrite Dm, Ers; reflexivity).
    clear Drsb Dasb Dtk Dm.
    pose proof (Z.div_mod zz rb ltac:(lia)) as Hdm. pose proof (Z.mod_pos_bound zz rb ltac:(lia)) as Hmb.
    assert (Hq : 0 <= zz / rb) by (apply Z.div_pos; lia).
    set (q := zz / rb) in *. rewrite <- Em in Hdm, Hmb. clearbody q. clear Em.
    assert (Hqrb : 0 <= q * rb) by (apply Z.mul_nonneg_nonneg; lia).
    assert (ERs : div_ceil res_start_bit rb = R - q).
    { rewrite Ers. replace Ta with ((R - q) * rb - m) by (unfold zz in *; clear - Hdm Drt; lia).
      apply div_ceil_mul_sub; lia. }
    assert (HqR : q < R).
    { destruct (Z_lt_le_dec q R) as [|Hge]; [assumption|]. exfalso.
      assert (R * rb <= q * rb) by (apply Z.mul_le_mono_nonneg_r; lia).
      unfold zz in *. clear - H Hdm Hmb HTa Drt. lia. }
    assert (Eastart : zn a_start = A) by (rewrite Das, EAs; unfold zn; rewrite Z2Nat.id by lia; reflexivity).
    assert (Erstart : zn res_start = R - q) by (rewrite Drs, ERs; unfold zn; rewrite Z2Nat.id by lia; reflexivity).
    clear Das Drs EAs ERs Eas Ers.
    exists zz, 0. split; [lia|]. split; [lia|]. split; [right; reflexivity|]. split; [exact HloA|].
    split; [unfold zz; lia|].
    split; [unfold zn in *; lia|]. split; [exact Eend|]. split; [rewrite Eend; unfold zn in *; lia|].
    split.
    { replace (zn (asz - a_start)) with 0 by (unfold zn in *; lia). lia. }
    split; [lia|]. split; [exact Hmb|].
    split; [unfold zn in *; lia|]. split; [rewrite Erstart; lia|].
    split; [intros Hne; lia|]. intros _. unfold zn in *. lia.
Qed.

Lemma res_start_zero (rb ab lo : Z) (asz rsz : nat) : 1 <= rb -> 1 <= ab -> 0 <= lo ->
  Z.to_nat (div_ceil (clampZ (zn asz * ab - lo * ab) 0 (zn rsz * rb)) rb) = 0%nat ->
  zn asz - lo <= 0 \/ rsz = 0%nat.
Proof.
  intros Hrb Hab Hlo H0.
  destruct (Z_le_gt_dec (zn asz - lo) 0) as [|HT]; [left; assumption|].
  destruct (Nat.eq_dec rsz 0) as [|HR]; [right; assumption|]. exfalso.
  assert (H1 : 1 <= zn asz * ab - lo * ab).
  { replace (zn asz * ab - lo * ab) with ((zn asz - lo) * ab) by ring.
    assert (1 * 1 <= (zn asz - lo) * ab) by (apply Z.mul_le_mono_nonneg; lia). lia. }
  assert (H2 : 1 <= zn rsz * rb).
  { assert (1 * 1 <= zn rsz * rb) by (apply Z.mul_le_mono_nonneg; unfold zn; lia). lia. }
  set (x := clampZ (zn asz * ab - lo * ab) 0 (zn rsz * rb)) in *.
  assert (Hx : 1 <= x) by (unfold x, clampZ; lia). clearbody x.
  assert (1 <= div_ceil x rb).
  { unfold div_ceil. apply Z.div_le_lower_bound; lia. }
  lia.
Qed.

Section Main.
Variables rb ab : Z.
Hypothesis Hrb : 1 <= rb <= 62.
Hypothesis Hab : 1 <= ab <= 62.

Lemma val_zeros (P : Z) (n : nat) : val_scaled P rb (zeros n) = 0.
Proof.
  rewrite val_scaled_sumn. apply sumn_zero. intros t Ht. rewrite nth_zeros. apply Z.mul_0_l.
Qed.

(* nothing of a reaches res: the output is zero *)
Lemma zero_value (P lo lsh : Z) (a : list Z) (rsz : nat) : 0 <= lsh < ab -> 0 <= lo ->
  zn (length a) - lo <= 0 \/ rsz = 0%nat ->
  zn rsz * rb + zn (length a) * ab + (lo * ab + lsh) <= P ->
  let D := tor_abs P (val_scaled P rb (zeros rsz) - val_scaled (P + (lo * ab + lsh)) ab a) in
  D <= 2 ^ (P - zn rsz * rb) /\ (zn (length a) * ab - (lo * ab + lsh) <= zn rsz * rb -> D = 0).
Proof.
  intros Hl Hlo Hcase HP. cbv zeta. rewrite val_zeros.
  set (A := zn (length a)) in *. set (R := zn rsz) in *.
  assert (HA : 0 <= A) by (unfold A, zn; lia). assert (HR : 0 <= R) by (unfold R, zn; lia).
  assert (HRrb : 0 <= R * rb) by (apply Z.mul_nonneg_nonneg; lia).
  assert (HAab : 0 <= A * ab) by (apply Z.mul_nonneg_nonneg; lia).
  assert (Hloab : 0 <= lo * ab) by (apply Z.mul_nonneg_nonneg; lia).
  assert (HP0 : 0 <= P) by lia.
  destruct (Z_le_gt_dec (A - lo) 0) as [HT|HT].
  - (* a * 2^off is an integer *)
    assert (Hneg : 0 <= (lo - A) * ab) by (apply Z.mul_nonneg_nonneg; lia).
    rewrite (val_scaled_vin ab P lo lsh a ltac:(lia) ltac:(lia)) by (fold A; lia). fold A.
    replace (P - (A - lo) * ab) with (P + (lo - A) * ab) by ring.
    rewrite pow2_add by lia.
    replace (0 - 2 ^ P * 2 ^ ((lo - A) * ab) * ival ab (vin a lsh) (length a))
      with (0 + 2 ^ P * (- (2 ^ ((lo - A) * ab) * ival ab (vin a lsh) (length a)))) by ring.
    rewrite tor_abs_add_mul, tor_abs_0 by auto.
    split; [|reflexivity]. pose proof (pow2_pos (P - R * rb) ltac:(lia)). lia.
  - destruct Hcase as [Hc|Hc]; [lia|].
    assert (ER0 : R = 0) by (unfold R; rewrite Hc; reflexivity).
    rewrite ER0, Z.mul_0_l, Z.sub_0_r. split; [apply tor_abs_le_unit; auto|].
    intros Hx. exfalso.
    assert (1 * ab <= (A - lo) * ab) by (apply Z.mul_le_mono_nonneg_r; lia). lia.
Qed.

End Main.
