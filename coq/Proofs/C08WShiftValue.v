(* C08, level 3, width-generic: value theorems of normalize_assign, the left shifts and the overwriting right shifts at
   any word width w (right shifts: w - 2 <= 63 b).  Port of Proofs/C08ShiftValue.v (which fixes w = 64). *)
From PV Require Import Base.MachineInt Model.Znx Model.Limbs Model.C08Oracle
  Proofs.ZnxDigit Proofs.C08Steps Proofs.C08Chain Proofs.C08Loops Proofs.C08Value Proofs.C08Normalize
  Proofs.C08Shift Proofs.C08Rsh Proofs.C08ShiftValue
  Proofs.C08WChain Proofs.C08WLoops Proofs.C08WNormalize Proofs.C08WShift Proofs.C08WRsh.
Open Scope Z_scope.

Section ShiftValue.
Variable w : Z.
Variable b : Z.
Hypothesis Hb : 1 <= b <= w - 2.

Local Notation hrw := (Forall (fun x => Z.abs x <= 2 ^ (w - 2))).

Let Hb1 : 1 <= b. Proof. lia. Qed.

(* ---------- normalize_assign: same torus value, balanced digits ---------- *)

Theorem normalize_assign_valueW (r0 : list Z) : hrw r0 ->
  let out := normalize_assign w b r0 in
  length out = length r0 /\ Forall (in_range b) out /\
  forall P, 2 * zn (length r0) * b <= P -> tor_abs P (val_scaled P b out - val_scaled P b r0) = 0.
Proof.
  intros Hr. apply hrlw_of_Forall in Hr. cbv zeta.
  destruct (normalize_assign_nthW w b Hb r0 Hr) as [L N].
  split; [exact L|]. split.
  - apply (window_balanced b (vin r0 0) (zn (length r0) - 0)); [lia|].
    intros i Hi. apply N. lia.
  - intros P HP.
    destruct (affine_window_value b P 0 0 0 1 r0 r0 (normalize_assign w b r0) Hb1 ltac:(lia)
                ltac:(left; reflexivity) L
                ltac:(intros i Hi; rewrite N by lia; ring)
                ltac:(rewrite L; cbn [Z.abs]; lia)) as [_ H2].
    cbv zeta in H2. rewrite L in H2. specialize (H2 ltac:(lia)).
    replace (P + (0 * b + 0)) with P in H2 by lia.
    rewrite <- H2. f_equal. ring.
Qed.

(* ---------- left shifts ---------- *)

Lemma off_posW (k : Z) : 0 <= k -> k / b * b + k mod b = k /\ 0 <= k mod b < b.
Proof.
  intros Hk. pose proof (Z.div_mod k b ltac:(lia)). pose proof (Z.mod_pos_bound k b ltac:(lia)). lia.
Qed.

Theorem lsh_assign_valueW (k : Z) (r0 : list Z) : 0 <= k -> hrw r0 ->
  let out := lsh_assign w b k r0 in
  length out = length r0 /\ Forall (in_range b) out /\
  forall P, 2 * zn (length r0) * b + k <= P ->
    tor_abs P (val_scaled P b out - val_scaled (P + k) b r0) = 0.
Proof.
  intros Hk Hr. apply hrlw_of_Forall in Hr. cbv zeta.
  destruct (lsh_assign_nthW w b Hb k r0 Hk Hr) as [L N].
  destruct (off_posW k Hk) as [Eo Hl].
  split; [exact L|]. split.
  - apply (window_balanced b (vin r0 (k mod b)) (zn (length r0) - k / b)); [lia|].
    intros i Hi. apply N. lia.
  - intros P HP.
    destruct (affine_window_value b P (k / b) (k mod b) 0 1 r0 r0 (lsh_assign w b k r0) Hb1 Hl
                ltac:(left; reflexivity) L
                ltac:(intros i Hi; rewrite N by lia; ring)
                ltac:(rewrite L, Eo; lia)) as [_ H2].
    cbv zeta in H2. rewrite L, Eo in H2. specialize (H2 ltac:(lia)).
    rewrite <- H2. f_equal. ring.
Qed.

Theorem lsh_valueW (ov : bool) (k : Z) (a r0 : list Z) : 0 <= k -> hrw a -> (ov = false -> hrw r0) ->
  let out := lsh w ov b k a r0 in
  length out = length r0 /\ (ov = true -> Forall (in_range b) out) /\
  forall P, zn (length r0) * b + zn (length a) * b + k <= P ->
    let D := tor_abs P (val_scaled P b out - (if ov then 0 else val_scaled P b r0)
                        - val_scaled (P + k) b a) in
    D <= 2 ^ (P - zn (length r0) * b) /\ (zn (length a) * b - k <= zn (length r0) * b -> D = 0).
Proof.
  intros Hk Ha Hr. apply hrlw_of_Forall in Ha.
  assert (Hr' : ov = false -> hrlw w r0) by (intros E; apply hrlw_of_Forall; apply Hr; exact E).
  cbv zeta.
  destruct (lsh_nthW w b Hb ov k a r0 Hk Ha Hr') as [L N].
  destruct (off_posW k Hk) as [Eo Hl].
  split; [exact L|]. split.
  - intros ->. apply (window_balanced b (vin a (k mod b)) (zn (length a) - k / b)); [lia|].
    intros i Hi. rewrite N by lia. ring.
  - intros P HP.
    pose proof (affine_window_value b P (k / b) (k mod b) (if ov then 0 else 1) 1 a r0 (lsh w ov b k a r0)
                  Hb1 Hl ltac:(left; reflexivity) L
                  ltac:(intros i Hi; rewrite N by lia; destruct ov; ring)
                  ltac:(rewrite L, Eo; lia)) as HV.
    cbv zeta in HV. rewrite L, Eo in HV.
    replace (val_scaled P b (lsh w ov b k a r0) - (if ov then 0 else val_scaled P b r0) - val_scaled (P + k) b a)
      with (val_scaled P b (lsh w ov b k a r0) - (if ov then 0 else 1) * val_scaled P b r0
            - 1 * val_scaled (P + k) b a) by (destruct ov; ring).
    exact HV.
Qed.

Theorem lsh_sub_valueW (k : Z) (a r0 : list Z) : 0 <= k -> hrw a -> hrw r0 ->
  let out := lsh_sub w b k a r0 in
  length out = length r0 /\
  forall P, zn (length r0) * b + zn (length a) * b + k <= P ->
    let D := tor_abs P (val_scaled P b out - val_scaled P b r0 + val_scaled (P + k) b a) in
    D <= 2 ^ (P - zn (length r0) * b) /\ (zn (length a) * b - k <= zn (length r0) * b -> D = 0).
Proof.
  intros Hk Ha Hr. apply hrlw_of_Forall in Ha. apply hrlw_of_Forall in Hr. cbv zeta.
  destruct (lsh_sub_nthW w b Hb k a r0 Hk Ha Hr) as [L N].
  destruct (off_posW k Hk) as [Eo Hl].
  split; [exact L|].
  intros P HP.
  pose proof (affine_window_value b P (k / b) (k mod b) 1 (-1) a r0 (lsh_sub w b k a r0)
                Hb1 Hl ltac:(right; reflexivity) L
                ltac:(intros i Hi; rewrite N by lia; ring)
                ltac:(rewrite L, Eo; lia)) as HV.
  cbv zeta in HV. rewrite L, Eo in HV.
  replace (val_scaled P b (lsh_sub w b k a r0) - val_scaled P b r0 + val_scaled (P + k) b a)
    with (val_scaled P b (lsh_sub w b k a r0) - 1 * val_scaled P b r0 - -1 * val_scaled (P + k) b a) by ring.
  exact HV.
Qed.

(* ---------- right shifts whose whole output is the window ---------- *)

(* the right shifts propagate a carry through a gap capped at 64 steps: it must saturate *)
Hypothesis Hcap : w - 2 <= 63 * b.

Lemma off_negW (k : Z) : 0 <= k ->
  - zn (fst (rsh_params b k)) * b + snd (rsh_params b k) = - k /\ 0 <= snd (rsh_params b k) < b.
Proof. intros Hk. destruct (rsh_params_spec b k Hb1 Hk). lia. Qed.

Theorem rsh_assign_valueW (k : Z) (r0 : list Z) : 0 <= k -> hrw r0 ->
  let out := rsh_assign w b k r0 in
  length out = length r0 /\ Forall (in_range b) out /\
  forall P, 2 * zn (length r0) * b + k <= P ->
    let D := tor_abs P (val_scaled P b out - val_scaled (P - k) b r0) in
    D <= 2 ^ (P - zn (length r0) * b) /\ (k = 0 -> D = 0).
Proof.
  intros Hk Hr. apply hrlw_of_Forall in Hr. cbv zeta.
  destruct (rsh_assign_nthW w b Hb Hcap k r0 Hk Hr) as [L N]. cbv zeta in N.
  destruct (off_negW k Hk) as [Eo Hl].
  set (steps := fst (rsh_params b k)) in *. set (lsh := snd (rsh_params b k)) in *.
  split; [exact L|]. split.
  - apply (window_balanced b (vin r0 lsh) (zn (length r0) - - zn steps)); [lia|].
    intros i Hi. apply N. lia.
  - intros P HP.
    pose proof (affine_window_value b P (- zn steps) lsh 0 1 r0 r0 (rsh_assign w b k r0) Hb1 Hl
                  ltac:(left; reflexivity) L
                  ltac:(intros i Hi; rewrite N by lia; ring)
                  ltac:(rewrite L, Eo; lia)) as HV.
    cbv zeta in HV. rewrite L, Eo in HV.
    replace (val_scaled P b (rsh_assign w b k r0) - val_scaled (P - k) b r0)
      with (val_scaled P b (rsh_assign w b k r0) - 0 * val_scaled P b r0 - 1 * val_scaled (P + - k) b r0)
      by (replace (P + - k) with (P - k) by lia; ring).
    destruct HV as [H1 H2]. split; [exact H1|]. intros ->. apply H2. lia.
Qed.

Theorem rsh_ov_valueW (k : Z) (a r0 : list Z) : 0 <= k -> hrw a ->
  let out := rsh w true b k a r0 in
  length out = length r0 /\ Forall (in_range b) out /\
  forall P, zn (length r0) * b + zn (length a) * b + k <= P ->
    let D := tor_abs P (val_scaled P b out - val_scaled (P - k) b a) in
    D <= 2 ^ (P - zn (length r0) * b) /\ (zn (length a) * b + k <= zn (length r0) * b -> D = 0).
Proof.
  intros Hk Ha. apply hrlw_of_Forall in Ha. cbv zeta.
  destruct (rsh_ov_nthW w b Hb Hcap k a r0 Hk Ha) as [L N]. cbv zeta in N.
  destruct (off_negW k Hk) as [Eo Hl].
  set (steps := fst (rsh_params b k)) in *. set (lsh := snd (rsh_params b k)) in *.
  split; [exact L|]. split.
  - apply (window_balanced b (vin a lsh) (zn (length a) - - zn steps)); [lia|].
    intros i Hi. apply N. lia.
  - intros P HP.
    pose proof (affine_window_value b P (- zn steps) lsh 0 1 a r0 (rsh w true b k a r0) Hb1 Hl
                  ltac:(left; reflexivity) L
                  ltac:(intros i Hi; rewrite N by lia; ring)
                  ltac:(rewrite L, Eo; lia)) as HV.
    cbv zeta in HV. rewrite L, Eo in HV.
    replace (val_scaled P b (rsh w true b k a r0) - val_scaled (P - k) b a)
      with (val_scaled P b (rsh w true b k a r0) - 0 * val_scaled P b r0 - 1 * val_scaled (P + - k) b a)
      by (replace (P + - k) with (P - k) by lia; ring).
    destruct HV as [H1 H2]. split; [exact H1|]. intros Hx. apply H2. lia.
Qed.

End ShiftValue.
