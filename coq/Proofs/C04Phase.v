From PV Require Import Base.MachineInt Model.Znx Model.Limbs Model.Flat Model.Ring Model.Poly Model.DftAbs Model.Gadget Model.GadgetSpec Proofs.C07Dft Proofs.C07Ring Proofs.GadgetDecomp Proofs.GadgetPhase Proofs.C03Phase.
Open Scope Z_scope.

(* C04 — external product GLWE x GGSW.
   The GGSW hypothesis `ggsw_cells` is TAKEN AS A NAMED SECTION HYPOTHESIS: cell (row, ci) of the GGSW is a GLWE under Sk whose
   phase is  2^(P-(row+1) dsize b) (m2 (x) Sk ci) + e_{row,ci} + 2^P I_{row,ci}   (Sk 0 = 1, Sk (i+1) = s_i: the cell encrypts
   m2 2^(..) for ci = 0 and s_{ci-1} m2 2^(..) for ci >= 1; with the phase convention ct[0] + sum ct[i+1] (x) s_i the sign is +). *)
Definition sk_ext (n : nat) (sk : list (list Z)) (co : nat) : list Z :=
  match co with O => pone n | S i => nth i sk (pzero n) end.

Definition C04_ggsw_cells (P b : Z) (n rank msize dsize dnum : nat) (K : pmat) (sk : list (list Z)) (m2 : list Z)
           (e I : nat -> nat -> list Z) : Prop :=
  key_rows_ok P b n (S rank) (S rank) msize dsize dnum K (sk_ext n sk) (fun ci => pmul m2 (sk_ext n sk ci)) e I.

Section C04.
Variables (P b : Z) (n rank msize a_size dsize dnum : nat) (clamp : bool).
Variable a : cols_t.                       (* all rank+1 columns of the input GLWE (GGSW radix) *)
Variable K : pmat.
Variable Sk : nat -> list Z.
Variable m2 : list Z.
Variables (e I : nat -> nat -> list Z).
Hypothesis Ha : wf_cols n (S rank) a_size a.
Hypothesis HK : wf_pmat n K.
Hypothesis Hd : (1 <= dsize)%nat.
Hypothesis Hdrop : (dsize - 2 <= msize)%nat.
Hypothesis HS : forall co, length (Sk co) = n.
Hypothesis Hm2 : length m2 = n.
Hypothesis He : forall row ci, length (e row ci) = n.
Hypothesis HI : forall row ci, length (I row ci) = n.
Hypothesis Hb : 0 <= b.
Hypothesis HP : Z.of_nat msize * b <= P.
Hypothesis HP2 : Z.of_nat dnum * Z.of_nat dsize * b <= P.
Hypothesis ggsw_cells : key_rows_ok P b n (S rank) (S rank) msize dsize dnum K Sk (fun ci => pmul m2 (Sk ci)) e I.

(* the message factors out of the main term *)
Lemma m2_factor (V : nat -> list Z) cols : (forall ci, length (V ci) = n) ->
  psumf n (fun ci => pmul (V ci) (pmul m2 (Sk ci))) cols = pmul m2 (psumf n (fun ci => pmul (V ci) (Sk ci)) cols).
Proof.
  intros HV. rewrite pmul_psumf_l by (try assumption; intros; rewrite pmul_length; apply HV).
  apply psumf_ext; intros ci _.
  rewrite <- pmul_assoc by (rewrite ?HV, ?Hm2, ?HS; reflexivity).
  rewrite (pmul_comm (V ci) m2) by (rewrite HV, Hm2; reflexivity).
  apply pmul_assoc; rewrite ?HV, ?Hm2, ?HS; reflexivity.
Qed.

(* (3c) phase(res) = m2 (x) phase'(ct) + E + 2^P Iq ; phase' = phase of the limbs l < min(a_size, dnum*dsize) *)
Theorem C04_external_product_phase_lemma :
  exists res, gadget_product n (S rank) msize (zcols n (S rank) msize) a a_size dsize dnum msize clamp K = Some res /\
    wf_cols n (S rank) msize res /\
    phase_f P b n (S rank) msize (limbs_of res) Sk
    = padd (padd (pmul m2 (phase_f P b n (S rank) (Nat.min a_size (dnum * dsize)) (acol n a) Sk))
                 (gadget_err P b n (S rank) (S rank) msize dsize dnum (acol n a) K Sk e))
           (pscale (2 ^ P) (gadget_int b n (S rank) (S rank) msize dsize dnum (acol n a) K Sk I)).
Proof.
  destruct (gadget_product_spec n (S rank) (S rank) msize a_size dsize dnum clamp a K Ha Hd Hdrop) as [res [E1 [E2 E3]]].
  exists res. split; [exact E1|]. split; [exact E2|].
  rewrite (phase_f_ext P b n (S rank) msize (limbs_of res)
             (gp_spec n (S rank) (S rank) msize a_size dsize dnum clamp (acol n a) K) Sk) by (intros; apply E3; assumption).
  pose proof (acol_length n (S rank) a_size a Ha) as LA.
  rewrite (gadget_phase_rows P b n (S rank) (S rank) msize a_size dsize dnum clamp (acol n a) K Sk (fun ci => pmul m2 (Sk ci)) e I);
    try assumption.
  - do 2 f_equal. unfold pval_used, phase_f. apply m2_factor. intros. apply pval_length. intros; apply LA.
  - apply (acol_zero n (S rank) a_size a Ha).
  - intros. rewrite pmul_length. exact Hm2.
Qed.
End C04.

(* the GGSW hypothesis is satisfiable: a noise-free GGSW-like matrix, n = 2, rank = 1, dsize = 1, dnum = 2, msize = 2, b = 4, P = 8,
   secret s = X, message m2 = 3 + X.  Cell (row, ci) has m2 (x) Sk ci in limb `row` of its body column and zero elsewhere. *)
Definition ex_sk : list (list Z) := [[0; 1]].
Definition ex_m2 : list Z := [3; 1].
Definition ex_K : pmat := fun q c =>
  let row := (q / 2)%nat in let ci := (q mod 2)%nat in
  let limb := (c / 2)%nat in let co := (c mod 2)%nat in
  if Nat.eqb co 0 && Nat.eqb limb row then pmul ex_m2 (sk_ext 2 ex_sk ci) else pzero 2.

Example C04_ggsw_cells_satisfiable :
  C04_ggsw_cells 8 4 2 1 2 1 2 ex_K ex_sk ex_m2 (fun _ _ => pzero 2) (fun _ _ => pzero 2).
Proof.
  unfold C04_ggsw_cells, key_rows_ok. intros row ci Hrow Hci.
  destruct row as [|[|row]]; [| |lia]; (destruct ci as [|[|ci]]; [| |lia]); vm_compute; reflexivity.
Qed.

