(* C04 — external product GLWE x GGSW and CMux: phase theorems on the model Gadget.gadget_product / cmux.
   C04_external_product_phase_lemma  (3c) phase(res) = m2 (x) phase'(ct) + E + 2^P Iq
   C04_ggsw_cells                    the GGSW-cell hypothesis as a Definition; C04_ggsw_cells_satisfiable: a concrete instance
   gadget_product_spec_any_acc       the product from ANY prior accumulator content of the right shape (the repaired code zeroes it)
   C04_cmux_phase_lemma / C04_cmux_selects_lemma   cmux before its final normalisation *)
From PV Require Import Base.MachineInt Model.Znx Model.Limbs Model.Flat Model.Ring Model.Poly Model.DftAbs Model.Gadget Model.GadgetSpec Proofs.C07Dft Proofs.C07Ring Proofs.GadgetDecomp Proofs.GadgetPhase Proofs.C03Phase.
Open Scope Z_scope.

(* C04 — external product GLWE x GGSW.
   The GGSW hypothesis `ggsw_cells` is TAKEN AS A NAMED SECTION HYPOTHESIS: cell (row, ci) of the GGSW is a GLWE under Sk whose
   phase is  2^(P-(row+1) dsize b) (m2 (x) Sk ci) + e_{row,ci} + 2^P I_{row,ci}   (Sk 0 = 1, Sk (i+1) = s_i: the cell encrypts
   m2 2^(..) for ci = 0 and s_{ci-1} m2 2^(..) for ci >= 1; with the phase convention ct[0] + sum ct[i+1] (x) s_i the sign is +). *)
Definition C04_ggsw_cells (P b : Z) (n rank msize dsize dnum : nat) (K : pmat) (sk : list (list Z)) (m2 : list Z)
           (e I : nat -> nat -> list Z) : Prop :=
  key_rows_ok P b n (S rank) (S rank) msize dsize dnum K (sk_ext n sk) (fun ci => pmul m2 (sk_ext n sk ci)) e I.

Section C04.
Variables (P b : Z) (n rank msize a_size dsize dnum : nat) (clamp : bool).
Variable a : cols_t.                       (* all rank+1 columns of the input GLWE (GGSW radix) *)
Variable res0 : cols_t.                    (* prior content of the accumulator: only its shape matters *)
Variable K : pmat.
Variable Sk : nat -> list Z.
Variable m2 : list Z.
Variables (e I : nat -> nat -> list Z).
Hypothesis Ha : wf_cols n (S rank) a_size a.
Hypothesis Hres0 : acc_shape (S rank) msize clamp res0.
Hypothesis HK : wf_pmat_in n (dnum * S rank) (msize * S rank) K.
Hypothesis Hd : (1 <= dsize)%nat.
Hypothesis Hdrop : (dsize - 2 <= msize)%nat.
Hypothesis HS : forall co, length (Sk co) = n.
Hypothesis Hm2 : length m2 = n.
Hypothesis He : forall row ci, length (e row ci) = n.
Hypothesis HI : forall row ci, length (I row ci) = n.
Hypothesis Hb : 0 <= b.
Hypothesis HP : Z.of_nat msize * b <= P.
Hypothesis HP2 : Z.of_nat dnum * Z.of_nat dsize * b <= P.
Hypothesis ggsw_cells : key_rows_ok P b n (S rank) (S rank) msize dsize dnum K Sk (fun ci => pmul m2 (Sk ci)) e I.

(* the message factors out of the main term *)
Lemma m2_factor (V : nat -> list Z) cols : (forall ci, length (V ci) = n) ->
  psumf n (fun ci => pmul (V ci) (pmul m2 (Sk ci))) cols = pmul m2 (psumf n (fun ci => pmul (V ci) (Sk ci)) cols).
Proof.
  intros HV. rewrite pmul_psumf_l by (try assumption; intros; rewrite pmul_length; apply HV).
  apply psumf_ext; intros ci _.
  rewrite <- pmul_assoc by (rewrite ?HV, ?Hm2, ?HS; reflexivity).
  rewrite (pmul_comm (V ci) m2) by (rewrite HV, Hm2; reflexivity).
  apply pmul_assoc; rewrite ?HV, ?Hm2, ?HS; reflexivity.
Qed.

(* (3c) phase(res) = m2 (x) phase'(ct) + E + 2^P Iq ; phase' = phase of the limbs l < min(a_size, dnum*dsize) *)
Theorem C04_external_product_phase_lemma :
  exists res, gadget_product n (S rank) msize res0 a a_size dsize dnum msize clamp K = Some res /\
    wf_cols n (S rank) msize res /\
    phase_f P b n (S rank) msize (limbs_of res) Sk
    = padd (padd (pmul m2 (phase_f P b n (S rank) (Nat.min a_size (dnum * dsize)) (acol n a) Sk))
                 (gadget_err P b n (S rank) (S rank) msize dsize dnum (acol n a) K Sk e))
           (pscale (2 ^ P) (gadget_int b n (S rank) (S rank) msize dsize dnum (acol n a) K Sk I)).
Proof.
  destruct (gadget_product_spec n (S rank) (S rank) msize a_size dsize dnum clamp a K res0 Ha Hd Hdrop Hres0) as [res [E1 [E2 E3]]].
  exists res. split; [exact E1|]. split; [exact E2|].
  rewrite (phase_f_ext P b n (S rank) msize (limbs_of res)
             (gp_spec n (S rank) (S rank) msize a_size dsize dnum clamp (acol n a) K) Sk) by (intros; apply E3; assumption).
  pose proof (acol_length n (S rank) a_size a Ha) as LA.
  rewrite (gadget_phase_rows_in P b n (S rank) (S rank) msize a_size dsize dnum clamp (acol n a) K Sk (fun ci => pmul m2 (Sk ci)) e I);
    try assumption.
  - do 2 f_equal. unfold pval_used, phase_f. apply m2_factor. intros. apply pval_length. intros; apply LA.
  - apply (acol_zero n (S rank) a_size a Ha).
  - intros. rewrite pmul_length. exact Hm2.
Qed.
End C04.

(* the GGSW hypothesis is satisfiable: a noise-free GGSW-like matrix, n = 2, rank = 1, dsize = 1, dnum = 2, msize = 2, b = 4, P = 8,
   secret s = X, message m2 = 3 + X.  Cell (row, ci) has m2 (x) Sk ci in limb `row` of its body column and zero elsewhere. *)
Definition ex_sk : list (list Z) := [[0; 1]].
Definition ex_m2 : list Z := [3; 1].
Definition ex_K : pmat := fun q c =>
  let row := (q / 2)%nat in let ci := (q mod 2)%nat in
  let limb := (c / 2)%nat in let co := (c mod 2)%nat in
  if Nat.eqb co 0 && Nat.eqb limb row then pmul ex_m2 (sk_ext 2 ex_sk ci) else pzero 2.

Example C04_ggsw_cells_satisfiable :
  C04_ggsw_cells 8 4 2 1 2 1 2 ex_K ex_sk ex_m2 (fun _ _ => pzero 2) (fun _ _ => pzero 2).
Proof.
  unfold C04_ggsw_cells, key_rows_ok. intros row ci Hrow Hci.
  destruct row as [|[|row]]; [| |lia]; (destruct ci as [|[|ci]]; [| |lia]); vm_compute; reflexivity.
Qed.


Section Linear.
Lemma pscale_psub c a b : pscale c (psub a b) = psub (pscale c a) (pscale c b).
Proof.
  unfold pscale, psub, map2. revert b; induction a as [|x a IH]; intros [|y b]; cbn [combine map]; try reflexivity.
  cbn [fst snd]. rewrite IH. f_equal. ring.
Qed.

Lemma psumf_psub n f g m : (forall i, (i < m)%nat -> length (f i) = n) -> (forall i, (i < m)%nat -> length (g i) = n) ->
  psumf n (fun i => psub (f i) (g i)) m = psub (psumf n f m) (psumf n g m).
Proof.
  intros Hf Hg.
  assert (L1 : length (psumf n f m) = n) by (apply psumf_length; exact Hf).
  assert (L2 : length (psumf n g m) = n) by (apply psumf_length; exact Hg).
  apply list_eq_nth.
  - rewrite psub_length, L1, L2, psumf_length; [lia|]. intros. apply psub_len; auto.
  - intros k _. rewrite nth_psub by lia. rewrite !psumf_coeff by (intros; try apply psub_len; auto).
    rewrite <- zsum_sub. apply zsum_ext; intros i Hi. apply nth_psub. rewrite Hf, Hg by exact Hi. reflexivity.
Qed.

Lemma pval_psub P b n f g size : (forall j, (j < size)%nat -> length (f j) = n) -> (forall j, (j < size)%nat -> length (g j) = n) ->
  pval P b n (fun j => psub (f j) (g j)) size = psub (pval P b n f size) (pval P b n g size).
Proof.
  intros Hf Hg. unfold pval. rewrite <- psumf_psub by (intros; rewrite pscale_length; auto).
  apply psumf_ext; intros j _. apply pscale_psub.
Qed.

Lemma phase_f_padd P b n cols size R F Sk :
  (forall co j, (co < cols)%nat -> (j < size)%nat -> length (R co j) = n) ->
  (forall co j, (co < cols)%nat -> (j < size)%nat -> length (F co j) = n) ->
  (forall co, (co < cols)%nat -> length (Sk co) = n) ->
  phase_f P b n cols size (fun co j => padd (R co j) (F co j)) Sk = padd (phase_f P b n cols size R Sk) (phase_f P b n cols size F Sk).
Proof.
  intros HR HF HS. unfold phase_f. rewrite <- psumf_padd. apply psumf_ext; intros co Hc.
  rewrite pval_padd. apply pmul_padd_distr_r; rewrite !pval_length; auto.
Qed.

Lemma phase_f_psub P b n cols size R F Sk :
  (forall co j, (co < cols)%nat -> (j < size)%nat -> length (R co j) = n) ->
  (forall co j, (co < cols)%nat -> (j < size)%nat -> length (F co j) = n) ->
  (forall co, (co < cols)%nat -> length (Sk co) = n) ->
  phase_f P b n cols size (fun co j => psub (R co j) (F co j)) Sk = psub (phase_f P b n cols size R Sk) (phase_f P b n cols size F Sk).
Proof.
  intros HR HF HS. unfold phase_f.
  rewrite <- psumf_psub by (intros; rewrite pmul_length; apply pval_length; auto).
  apply psumf_ext; intros co Hc.
  rewrite pval_psub by auto. apply pmul_psub_distr_r; rewrite !pval_length; auto.
Qed.

Lemma phase_f_length P b n cols size R Sk :
  (forall co j, (co < cols)%nat -> (j < size)%nat -> length (R co j) = n) -> length (phase_f P b n cols size R Sk) = n.
Proof. intros H. unfold phase_f. apply psumf_length. intros co Hc. rewrite pmul_length. apply pval_length. auto. Qed.

(* zero-extended families: the value does not depend on how many zero limbs are counted *)
Lemma phase_f_cut P b n cols k size R Sk : (k <= size)%nat ->
  (forall co j, length (R co j) = n) -> (forall co j, (k <= j)%nat -> (j < size)%nat -> R co j = pzero n) ->
  phase_f P b n cols size R Sk = phase_f P b n cols k R Sk.
Proof.
  intros Hk HR Hz. unfold phase_f. apply psumf_ext; intros co _. f_equal.
  apply pval_cut; [exact Hk|apply HR|apply Hz].
Qed.

Lemma psub_pzero_l' n x : length x = n -> psub (pzero n) x = pneg x.
Proof.
  intros H. apply list_eq_nth; [rewrite psub_length, pzero_length, pneg_length; lia|].
  intros k _. rewrite nth_psub by (rewrite pzero_length; exact H). rewrite nth_pzero, nth_pneg. ring.
Qed.
Lemma psub_pzero_r' n x : length x = n -> psub x (pzero n) = x.
Proof.
  intros H. apply list_eq_nth; [rewrite psub_length, pzero_length; lia|].
  intros k _. rewrite nth_psub by (rewrite pzero_length; lia). rewrite nth_pzero. ring.
Qed.
End Linear.

(* the columns t - f of cmux *)
Section ColSub.
Variables (n ncols res_size t_size f_size : nat) (t f : cols_t).
Hypothesis Ht : wf_cols n ncols t_size t.
Hypothesis Hf : wf_cols n ncols f_size f.

Lemma col_sub_limb ci j : (ci < ncols)%nat -> (j < res_size)%nat ->
  lim (col_sub n res_size (col t ci) (col f ci)) j = psub (acol n t ci j) (acol n f ci j).
Proof.
  intros Hci Hj. destruct Ht as [Hlt Hct]. destruct Hf as [Hlf Hcf].
  destruct (Hct ci Hci) as [Lt Wt]. destruct (Hcf ci Hci) as [Lf Wf].
  unfold col_sub, dft_sub. cbv zeta. rewrite lim_mk' by exact Hj. rewrite Lt, Lf.
  unfold acol, limz. rewrite Lt, Lf.
  destruct (Nat.ltb_spec j (Nat.min t_size f_size)) as [H1|H1].
  - destruct (Nat.ltb_spec j t_size); destruct (Nat.ltb_spec j f_size); try lia. reflexivity.
  - destruct (Nat.ltb_spec j (Nat.max t_size f_size)) as [H2|H2].
    + destruct (Nat.leb_spec t_size f_size).
      * destruct (Nat.ltb_spec j t_size); destruct (Nat.ltb_spec j f_size); try lia.
        symmetry; apply psub_pzero_l', Wf; assumption.
      * destruct (Nat.ltb_spec j t_size); destruct (Nat.ltb_spec j f_size); try lia.
        symmetry; apply psub_pzero_r', Wt; assumption.
    + destruct (Nat.ltb_spec j t_size); destruct (Nat.ltb_spec j f_size); try lia.
      symmetry; apply psub_pzero_r', pzero_length.
Qed.

Lemma cmux_d_wf : wf_cols n ncols res_size (map2 (col_sub n res_size) t f).
Proof.
  pose proof (acol_length n ncols t_size t Ht) as LT. pose proof (acol_length n ncols f_size f Hf) as LF.
  destruct Ht as [Hlt Hct]. destruct Hf as [Hlf Hcf].
  split; [rewrite map2_length; unfold plimbs in *; lia|].
  intros ci Hci. rewrite (col_map2 (col_sub n res_size) t f [] [] ci) by (unfold plimbs in *; lia).
  change (nth ci t []) with (col t ci). change (nth ci f []) with (col f ci).
  split; [unfold col_sub, dft_sub; apply mk_length|].
  intros l Hl. rewrite col_sub_limb by assumption. apply psub_len; auto.
Qed.

Lemma cmux_d_acol ci j : (ci < ncols)%nat -> (j < res_size)%nat ->
  acol n (map2 (col_sub n res_size) t f) ci j = psub (acol n t ci j) (acol n f ci j).
Proof.
  intros Hci Hj. destruct cmux_d_wf as [Hl Hc]. destruct (Hc ci Hci) as [Hlen _].
  unfold acol at 1. unfold limz. rewrite Hlen. destruct (Nat.ltb_spec j res_size); [|lia].
  destruct Ht as [Hlt _]. destruct Hf as [Hlf _].
  rewrite (col_map2 (col_sub n res_size) t f [] [] ci) by (unfold plimbs in *; lia).
  apply col_sub_limb; assumption.
Qed.
End ColSub.


(* the product in external-product mode from ANY accumulator content of the right shape: the repaired code zeroes the first msize
   limbs (Gadget.acc_start), so the result does not depend on what the scratch space held *)
Section AnyAcc.
Theorem gadget_product_spec_any_acc n cin cols_out msize a_size dsize dnum (a : cols_t) (m : pmat) (res0 : cols_t) :
  wf_cols n cin a_size a -> (1 <= dsize)%nat -> (dsize - 2 <= msize)%nat ->
  length res0 = cols_out -> (forall co, (co < cols_out)%nat -> length (col res0 co) = msize) ->
  exists res, gadget_product n cols_out msize res0 a a_size dsize dnum msize false m = Some res /\
    wf_cols n cols_out msize res /\
    forall co j, (co < cols_out)%nat -> (j < msize)%nat ->
      lim (col res co) j = gp_spec n cin cols_out msize a_size dsize dnum false (acol n a) m co j.
Proof. intros Ha Hd Hdrop Hl Hc. apply gadget_product_spec; try assumption. right. split; assumption. Qed.
End AnyAcc.

Section Cmux.
Variables (be : Z) (P b : Z) (n rank res_size t_size f_size dsize dnum msize : nat).
Variables (res0 t f : cols_t).
Variable K : pmat.
Variable Sk : nat -> list Z.
Variable bit : Z.
Variables (e I : nat -> nat -> list Z).
Let m2 : list Z := pscale bit (pone n).
Let d : cols_t := map2 (col_sub n res_size) t f.
Let L1 : nat := Nat.min res_size (dnum * dsize).
Hypothesis Hn : (1 <= n)%nat.
Hypothesis Ht : wf_cols n (S rank) t_size t.
Hypothesis Hf : wf_cols n (S rank) f_size f.
Hypothesis Hres0 : length res0 = S rank.
Hypothesis Hres0c : forall co, (co < S rank)%nat -> length (col res0 co) = msize.
Hypothesis HK : wf_pmat_in n (dnum * S rank) (msize * S rank) K.
Hypothesis Hd : (1 <= dsize)%nat.
Hypothesis Hdrop : (dsize - 2 <= msize)%nat.
Hypothesis HS : forall co, length (Sk co) = n.
Hypothesis He : forall row ci, length (e row ci) = n.
Hypothesis HI : forall row ci, length (I row ci) = n.
Hypothesis Hb : 0 <= b.
Hypothesis HP : Z.of_nat msize * b <= P.
Hypothesis HP2 : Z.of_nat dnum * Z.of_nat dsize * b <= P.
Hypothesis ggsw_cells : key_rows_ok P b n (S rank) (S rank) msize dsize dnum K Sk (fun ci => pmul m2 (Sk ci)) e I.

Let E : list Z := gadget_err P b n (S rank) (S rank) msize dsize dnum (acol n d) K Sk e.
Let Iq : list Z := gadget_int b n (S rank) (S rank) msize dsize dnum (acol n d) K Sk I.
(* phases of t, f over the limbs that meet a GGSW row, and of the part of f that add_small adds *)
Let PT1 : list Z := phase_f P b n (S rank) L1 (acol n t) Sk.
Let PF1 : list Z := phase_f P b n (S rank) L1 (acol n f) Sk.
Let PF2 : list Z := phase_f P b n (S rank) (Nat.min msize f_size) (acol n f) Sk.

Lemma m2_length : length m2 = n.
Proof. unfold m2. rewrite pscale_length. apply pone_length; exact Hn. Qed.

Lemma m2_mul x : length x = n -> pmul m2 x = pscale bit x.
Proof.
  intros H. unfold m2. rewrite pscale_pmul_l. f_equal. rewrite <- H. apply pmul_one_l. lia.
Qed.

(* cmux before its final normalisation: (t - f) (x) GGSW(bit) + f *)
Theorem C04_cmux_phase_lemma :
  exists big, gadget_product n (S rank) msize res0 d res_size dsize dnum msize false K = Some big /\
    cmux be n b rank res_size t_size f_size dsize dnum msize res0 t f K
      = sequence (map (big_normalize (wbig be) n b b res_size) (map2 add_small big f)) /\
    wf_cols n (S rank) msize (map2 add_small big f) /\
    phase_f P b n (S rank) msize (limbs_of (map2 add_small big f)) Sk
    = padd (padd (padd (pscale bit (psub PT1 PF1)) PF2) E) (pscale (2 ^ P) Iq).
Proof.
  pose proof (cmux_d_wf n (S rank) res_size t_size f_size t f Ht Hf) as Hdw. fold d in Hdw.
  destruct (gadget_product_spec_any_acc n (S rank) (S rank) msize res_size dsize dnum d K res0 Hdw Hd Hdrop Hres0 Hres0c)
    as [big [E1 [E2 E3]]].
  exists big. split; [exact E1|]. split; [unfold cmux; fold d; rewrite E1; reflexivity|].
  pose proof (acol_length n (S rank) f_size f Hf) as LF. pose proof (acol_zero n (S rank) f_size f Hf) as ZF.
  pose proof (acol_length n (S rank) t_size t Ht) as LT.
  pose proof (acol_length n (S rank) res_size d Hdw) as LD.
  destruct E2 as [Hlb Hcb]. destruct Hf as [Hlf Hcf].
  (* limbs of the result *)
  assert (Hlimb : forall co j, (co < S rank)%nat -> (j < msize)%nat ->
            limbs_of (map2 add_small big f) co j = padd (limbs_of big co j) (acol n f co j)).
  { intros co j Hc Hj. unfold limbs_of. rewrite (col_map2 add_small big f [] [] co) by (unfold plimbs in *; lia).
    change (nth co big []) with (col big co). change (nth co f []) with (col f co).
    destruct (Hcb co Hc) as [Lb Wb]. destruct (Hcf co Hc) as [Lfc _].
    unfold add_small. rewrite Lb, lim_mk' by exact Hj. rewrite Lfc. unfold acol, limz. rewrite Lfc.
    destruct (Nat.ltb_spec j f_size); [reflexivity|]. symmetry. apply padd_pzero_r. apply Wb; exact Hj. }
  split.
  - split; [rewrite map2_length; unfold plimbs in *; lia|]. intros co Hc. split.
    + rewrite (col_map2 add_small big f [] [] co) by (unfold plimbs in *; lia).
      unfold add_small. rewrite mk_length. apply (Hcb co Hc).
    + intros j Hj. change (lim (col (map2 add_small big f) co) j) with (limbs_of (map2 add_small big f) co j).
      rewrite Hlimb by assumption. apply padd_len; [apply (Hcb co Hc); exact Hj|apply LF].
  - rewrite (phase_f_ext P b n (S rank) msize _ (fun co j => padd (limbs_of big co j) (acol n f co j)) Sk) by exact Hlimb.
    rewrite phase_f_padd by (intros; try apply LF; try apply HS; apply (Hcb co); assumption).
    (* the product part *)
    rewrite (phase_f_ext P b n (S rank) msize (limbs_of big)
               (gp_spec n (S rank) (S rank) msize res_size dsize dnum false (acol n d) K) Sk) by (intros; apply E3; assumption).
    rewrite (gadget_phase_rows_in P b n (S rank) (S rank) msize res_size dsize dnum false (acol n d) K Sk (fun ci => pmul m2 (Sk ci)) e I);
      try assumption;
      [|apply (acol_zero n (S rank) res_size d Hdw)|intros; rewrite pmul_length; apply m2_length].
    fold E Iq.
    (* main term: m2 (x) phase'(t - f) = bit (phase'(t) - phase'(f)) *)
    assert (Emain : psumf n (fun ci => pmul (pval_used P b n res_size dsize dnum (acol n d) ci) (pmul m2 (Sk ci))) (S rank)
                    = pscale bit (psub PT1 PF1)).
    { rewrite (m2_factor n Sk m2 HS m2_length) by (intros; unfold pval_used; apply pval_length; intros; apply LD).
      rewrite m2_mul by (apply psumf_length; intros; rewrite pmul_length; unfold pval_used; apply pval_length; intros; apply LD).
      f_equal. unfold PT1, PF1. rewrite <- phase_f_psub by (intros; auto).
      unfold phase_f, pval_used. fold L1. apply psumf_ext; intros ci Hci. f_equal.
      unfold pval. apply psumf_ext; intros j Hj. f_equal.
      apply (cmux_d_acol n (S rank) res_size t_size f_size t f Ht); [split; assumption|exact Hci|unfold L1 in Hj; lia]. }
    rewrite Emain.
    (* the part of f that add_small adds *)
    assert (EF : phase_f P b n (S rank) msize (acol n f) Sk = PF2).
    { unfold PF2. apply phase_f_cut; [lia|exact LF|]. intros co j H1 H2. apply ZF. lia. }
    rewrite EF.
    set (M := pscale bit (psub PT1 PF1)).
    rewrite !padd_assoc. f_equal. rewrite <- !padd_assoc. rewrite (padd_comm (padd E (pscale (2 ^ P) Iq)) PF2).
    rewrite !padd_assoc. reflexivity.
Qed.

(* bit = 0 selects f, bit = 1 selects t (when no limb of f is lost: f_size <= min(res_size, dnum*dsize), f_size <= msize) *)
Theorem C04_cmux_selects_lemma : (bit = 0 \/ bit = 1) ->
  (bit = 1 -> (f_size <= L1)%nat /\ (f_size <= msize)%nat) ->
  exists big, gadget_product n (S rank) msize res0 d res_size dsize dnum msize false K = Some big /\
    cmux be n b rank res_size t_size f_size dsize dnum msize res0 t f K
      = sequence (map (big_normalize (wbig be) n b b res_size) (map2 add_small big f)) /\
    phase_f P b n (S rank) msize (limbs_of (map2 add_small big f)) Sk
    = padd (padd (if bit =? 1 then PT1 else PF2) E) (pscale (2 ^ P) Iq).
Proof.
  intros Hbit Hsz. destruct C04_cmux_phase_lemma as [big [E1 [E2 [_ E3]]]].
  exists big. split; [exact E1|]. split; [exact E2|]. rewrite E3. do 2 f_equal.
  pose proof (acol_length n (S rank) f_size f Hf) as LF. pose proof (acol_zero n (S rank) f_size f Hf) as ZF.
  pose proof (acol_length n (S rank) t_size t Ht) as LT.
  assert (LT1 : length PT1 = n) by (apply phase_f_length; intros; apply LT).
  assert (LF1 : length PF1 = n) by (apply phase_f_length; intros; apply LF).
  assert (LF2 : length PF2 = n) by (apply phase_f_length; intros; apply LF).
  destruct Hbit as [-> | ->]; cbn [Z.eqb Pos.eqb].
  - rewrite pscale_0, psub_length, LT1, LF1, Nat.min_id. apply padd_pzero_l; exact LF2.
  - rewrite pscale_1. destruct (Hsz eq_refl) as [H1 H2].
    assert (EF : PF1 = PF2).
    { unfold PF1, PF2. rewrite (Nat.min_r msize f_size) by exact H2.
      apply phase_f_cut; [exact H1|exact LF|]. intros co j G1 G2. apply ZF; exact G1. }
    rewrite EF. apply list_eq_nth; [rewrite padd_length, psub_length; lia|].
    intros k _. rewrite nth_padd by (rewrite psub_length; lia). rewrite nth_psub by lia. ring.
Qed.
End Cmux.

(* (3c) stated with Gadget.phase_val, when no input limb is lost (a_size <= dnum*dsize):
   phase(res) = m2 (x) phase(ct) + E + 2^P Iq *)
Section C04PhaseVal.
Variables (P b : Z) (n msize a_size dsize dnum : nat) (clamp : bool).
Variable a : cols_t.
Variable res0 : cols_t.
Variable K : pmat.
Variable sk : list (list Z).
Variable m2 : list Z.
Variables (e I : nat -> nat -> list Z).
Let rank := length sk.
Let Sk := sk_ext n sk.
Hypothesis Ha : wf_cols n (S rank) a_size a.
Hypothesis Hres0 : acc_shape (S rank) msize clamp res0.
Hypothesis HK : wf_pmat_in n (dnum * S rank) (msize * S rank) K.
Hypothesis Hn : (1 <= n)%nat.
Hypothesis Hd : (1 <= dsize)%nat.
Hypothesis Hdrop : (dsize - 2 <= msize)%nat.
Hypothesis Hfit : (a_size <= dnum * dsize)%nat.
Hypothesis Hsk : forall s, In s sk -> length s = n.
Hypothesis Hm2 : length m2 = n.
Hypothesis He : forall row ci, length (e row ci) = n.
Hypothesis HI : forall row ci, length (I row ci) = n.
Hypothesis Hb : 0 <= b.
Hypothesis HP : Z.of_nat msize * b <= P.
Hypothesis HP2 : Z.of_nat dnum * Z.of_nat dsize * b <= P.
Hypothesis ggsw_cells : C04_ggsw_cells P b n rank msize dsize dnum K sk m2 e I.

Theorem C04_external_product_phase_val_lemma :
  exists res, gadget_product n (S rank) msize res0 a a_size dsize dnum msize clamp K = Some res /\
    phase_val P b n sk res
    = padd (padd (pmul m2 (phase_val P b n sk a))
                 (gadget_err P b n (S rank) (S rank) msize dsize dnum (acol n a) K Sk e))
           (pscale (2 ^ P) (gadget_int b n (S rank) (S rank) msize dsize dnum (acol n a) K Sk I)).
Proof.
  pose proof (sk_ext_length n sk Hn Hsk) as HS.
  destruct (C04_external_product_phase_lemma P b n rank msize a_size dsize dnum clamp a res0 K Sk m2 e I
              Ha Hres0 HK Hd Hdrop HS Hm2 He HI Hb HP HP2 ggsw_cells) as [res [E1 [E2 E3]]].
  exists res. split; [exact E1|].
  assert (Hnth : forall i, (i < length sk)%nat -> length (nth i sk (pzero n)) = n) by (intros; apply Hsk, nth_In; assumption).
  rewrite (phase_val_phase_f P b n sk res msize Hn E2 Hnth).
  rewrite (phase_val_phase_f P b n sk a a_size Hn Ha Hnth).
  fold rank Sk. rewrite E3. do 3 f_equal.
  rewrite Nat.min_l by exact Hfit. apply phase_f_ext. intros co j Hc Hj.
  destruct Ha as [_ Hcols]. destruct (Hcols co Hc) as [Hlen _].
  unfold acol, limz, limbs_of. rewrite Hlen. destruct (Nat.ltb_spec j a_size); [reflexivity|lia].
Qed.
End C04PhaseVal.

(* ---- the hypotheses of the C04 phase theorems are satisfiable: a concrete small instance (stated as Examples in Props/C04.v) ---- *)
(* a concrete small external product: n = 2, rank = 1, a_size = 2, dsize = 1, dnum = 2, msize = 2, b = 4, P = 8, s = X;
   noise-free GGSW-like matrix of the message m2: cell (row, ci) holds m2 (x) Sk ci in limb `row` of its body column *)
Definition ex4_sk : list (list Z) := [[0; 1]].
Definition ex4_K (m2 : list Z) : pmat := fun q c =>
  let row := (q / 2)%nat in let ci := (q mod 2)%nat in
  let limb := (c / 2)%nat in let co := (c mod 2)%nat in
  if Nat.eqb co 0 && Nat.eqb limb row then pmul m2 (sk_ext 2 ex4_sk ci) else pzero 2.
Definition ex4_m2 : list Z := [3; 1].
Definition ex4_ct : cols_t := [[[1; 2]; [3; 4]]; [[5; 6]; [7; 8]]].
Definition ex4_f : cols_t := [[[2; 0]; [1; 1]]; [[0; 3]; [4; 5]]].
Definition ex4_zero : nat -> nat -> list Z := fun _ _ => pzero 2.

Ltac ex4_cells_tac :=
  intros row ci Hrow Hci;
  destruct row as [|[|row]]; [| |lia]; (destruct ci as [|[|ci]]; [| |lia]); vm_compute; reflexivity.

Lemma ex4_wf_cols c : c = ex4_ct \/ c = ex4_f \/ c = zcols 2 2 2 -> wf_cols 2 2 2 c.
Proof.
  intros [-> | [-> | ->]]; (split; [reflexivity|]); intros ci H; (destruct ci as [|[|ci]]; [| |lia]);
    (split; [reflexivity|]); intros l Hl; destruct l as [|[|l]]; try lia; reflexivity.
Qed.

Lemma ex4_sk_len co : length (sk_ext 2 ex4_sk co) = 2%nat.
Proof. destruct co as [|[|co]]; try reflexivity. cbn. destruct co; reflexivity. Qed.

Lemma ex4_K_wf m2 : length m2 = 2%nat -> wf_pmat_in 2 (2 * 2) (2 * 2) (ex4_K m2).
Proof. intros H q c _ _. unfold ex4_K. cbv zeta. destruct (_ && _); [rewrite pmul_length; exact H|reflexivity]. Qed.

Lemma C04_hypotheses_satisfiable_lemma :
  wf_cols 2 2 2 ex4_ct /\ wf_pmat_in 2 (2 * 2) (2 * 2) (ex4_K ex4_m2) /\ (1 <= 1)%nat /\ (1 - 2 <= 2)%nat /\
  (forall co, length (sk_ext 2 ex4_sk co) = 2%nat) /\ length ex4_m2 = 2%nat /\
  (forall row ci, length (ex4_zero row ci) = 2%nat) /\ 0 <= 4 /\ Z.of_nat 2 * 4 <= 8 /\ Z.of_nat 2 * Z.of_nat 1 * 4 <= 8 /\
  C04_ggsw_cells 8 4 2 1 2 1 2 (ex4_K ex4_m2) ex4_sk ex4_m2 ex4_zero ex4_zero.
Proof.
  repeat match goal with |- _ /\ _ => split end; try lia; try reflexivity.
  - apply ex4_wf_cols; auto.
  - apply ex4_K_wf; reflexivity.
  - apply ex4_sk_len.
  - unfold C04_ggsw_cells. ex4_cells_tac.
Qed.

Lemma C04_instance_runs_lemma :
  exists res, gadget_product 2 2 2 (zcols 2 2 2) ex4_ct 2 1 2 2 false (ex4_K ex4_m2) = Some res /\
    phase_f 8 4 2 2 2 (limbs_of res) (sk_ext 2 ex4_sk)
    = padd (padd (pmul ex4_m2 (phase_f 8 4 2 2 (Nat.min 2 (2 * 1)) (acol 2 ex4_ct) (sk_ext 2 ex4_sk)))
                 (gadget_err 8 4 2 2 2 2 1 2 (acol 2 ex4_ct) (ex4_K ex4_m2) (sk_ext 2 ex4_sk) ex4_zero))
           (pscale (2 ^ 8) (gadget_int 4 2 2 2 2 1 2 (acol 2 ex4_ct) (ex4_K ex4_m2) (sk_ext 2 ex4_sk) ex4_zero)).
Proof. eexists. split; vm_compute; reflexivity. Qed.

(* cmux with bit = 1 on the same shapes: t = ex4_ct, f = ex4_f, GGSW of the constant polynomial 1 *)
Lemma C04_cmux_hypotheses_satisfiable_lemma :
  (1 <= 2)%nat /\ wf_cols 2 2 2 ex4_ct /\ wf_cols 2 2 2 ex4_f /\ length (zcols 2 2 2) = 2%nat /\ (forall co, (co < 2)%nat -> length (col (zcols 2 2 2) co) = 2%nat) /\
  wf_pmat_in 2 (2 * 2) (2 * 2) (ex4_K (pscale 1 (pone 2))) /\
  key_rows_ok 8 4 2 2 2 2 1 2 (ex4_K (pscale 1 (pone 2))) (sk_ext 2 ex4_sk) (fun ci => pmul (pscale 1 (pone 2)) (sk_ext 2 ex4_sk ci)) ex4_zero ex4_zero /\
  (1 = 0 \/ 1 = 1) /\ (1 = 1 -> (2 <= Nat.min 2 (2 * 1))%nat /\ (2 <= 2)%nat).
Proof.
  repeat match goal with |- _ /\ _ => split end; try lia; try (apply ex4_wf_cols; auto).
  - apply ex4_K_wf; reflexivity.
  - ex4_cells_tac.

Qed.

(* the meaning of the GGSW-cell hypothesis, spelled out (pinned in Props/C04.v) *)
Lemma C04_ggsw_cells_meaning_lemma (P b : Z) (n rank msize dsize dnum : nat) (K : pmat) (sk : list (list Z)) (m2 : list Z)
      (e I : nat -> nat -> list Z) :
  C04_ggsw_cells P b n rank msize dsize dnum K sk m2 e I <->
  (forall row ci, (row < dnum)%nat -> (ci < S rank)%nat ->
     kphase P b n (S rank) msize K (sk_ext n sk) (row * S rank + ci)%nat
     = padd (padd (pscale (2 ^ (P - (Z.of_nat row + 1) * Z.of_nat dsize * b)) (pmul m2 (sk_ext n sk ci))) (e row ci))
            (pscale (2 ^ P) (I row ci))).
Proof. unfold C04_ggsw_cells, key_rows_ok. tauto. Qed.
