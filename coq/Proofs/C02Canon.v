(* C02: every exact GLWE operation of C02Ops.v, when it accepts its operands and no 64-bit wrap occurs, returns the
   canonical column-wise map `gmap2 F n res x y` of its operands (x, y as listed in C02Ops.exact_F). *)
From PV Require Import Base.MachineInt Model.Znx Model.Limbs Model.Flat Model.Ring Model.DftAbs Model.C02Ops
                       Proofs.C02Poly Proofs.C02Exact.
Open Scope Z_scope.

Lemma gmap2_cols F n res a b : wf_glwe n a -> wf_glwe n b ->
  gmap2 F n res a b =
  with_cols res (map (fun i => build (g_size res) (fun j => F (cl n (gcol a i) j) (cl n (gcol b i) j))) (seq 0 (g_ncols res))).
Proof.
  intros Ha Hb. unfold gmap2. f_equal. apply map_seq_ext. intros i _. apply build_ext. intros j _.
  rewrite !gl_cl by assumption. reflexivity.
Qed.

Lemma ncols_rank n g : wf_glwe n g -> g_ncols g = S (g_rank g).
Proof. intros (_ & H & _). unfold g_rank. lia. Qed.

Ltac split_andb E :=
  repeat match type of E with
         | (_ && _)%bool = true => let E1 := fresh "E" in apply andb_prop in E; destruct E as [E E1]
         end.

(* hypotheses of the form  forall i j, fw (gl ..) (gl ..) = F (gl ..) (gl ..)  specialised to a column *)
Ltac to_cl H n := repeat (rewrite gl_cl in H by assumption).

Section Canon.
Variable n : nat.

Lemma cl_gcol_length g i j : wf_glwe n g -> length (cl n (gcol g i) j) = n.
Proof. intros Hw. rewrite <- gl_cl by exact Hw. apply gl_length. exact Hw. Qed.

Lemma gcol_wf_any g i : wf_glwe n g -> exists sz, wf_col n sz (gcol g i).
Proof.
  intros Hw. destruct (Nat.lt_ge_cases i (g_ncols g)) as [Hi|Hi].
  - exists (g_size g). apply gcol_wf; assumption.
  - exists 0%nat. rewrite gcol_out by exact Hi. apply wf_col_nil.
Qed.

(* ---------------- add ---------------- *)
Theorem add_into_canon res a b r : wf_glwe n res -> wf_glwe n a -> wf_glwe n b ->
  (forall i j, vadd W64 (gl n a i j) (gl n b i j) = padd (gl n a i j) (gl n b i j)) ->
  glwe_add_into n res a b = Some r ->
  r = gmap2 Fadd n res a b /\ (g_ncols a <= g_ncols res)%nat /\ (g_ncols b <= g_ncols res)%nat.
Proof.
  intros Hres Ha Hb Hw. unfold glwe_add_into.
  destruct (_ && _)%bool eqn:E; [|discriminate]. intros [= <-]. split_andb E.
  pose proof (ncols_rank n res Hres) as Nr. pose proof (ncols_rank n a Ha) as Na. pose proof (ncols_rank n b Hb) as Nb.
  split.
  - rewrite gmap2_cols by assumption. unfold mapi_cols. f_equal. apply map_seq_ext. intros i Hi.
    rewrite <- (gcol_length n res i Hres Hi).
    destruct (gcol_wf_any a i Ha) as [sa Wa]. destruct (gcol_wf_any b i Hb) as [sb Wb].
    destruct (Nat.ltb_spec i (S (Nat.min (g_rank a) (g_rank b)))) as [H1|H1].
    + apply (col_add n _ _ _ sa sb Wa Wb). intros j. specialize (Hw i j). rewrite !gl_cl in Hw by assumption. exact Hw.
    + destruct (Nat.ltb_spec i (S (Nat.max (g_rank a) (g_rank b)))) as [H2|H2].
      * destruct (Nat.ltb_spec (g_rank b) (g_rank a)) as [H3|H3]; unfold vec_copy, Fadd.
        -- rewrite (col_unary n (fun l => l) (fun l => l)) by reflexivity.
           apply build_ext. intros j _. rewrite (gcol_out b i) by lia. rewrite cl_nil.
           rewrite padd_pzero_r' by (apply cl_gcol_length; exact Ha). reflexivity.
        -- rewrite (col_unary n (fun l => l) (fun l => l)) by reflexivity.
           apply build_ext. intros j _. rewrite (gcol_out a i) by lia. rewrite cl_nil.
           rewrite padd_pzero_l' by (apply cl_gcol_length; exact Hb). reflexivity.
      * rewrite col_zero. apply build_ext. intros j _. unfold Fadd.
        rewrite (gcol_out a i), (gcol_out b i) by lia. rewrite !cl_nil.
        rewrite padd_pzero_r' by apply pzero_length. reflexivity.
  - unfold rank_rule3 in E0.
    destruct (Nat.eqb_spec (g_rank a) 0); [apply Nat.eqb_eq in E0; lia|].
    destruct (Nat.eqb_spec (g_rank b) 0); [apply Nat.eqb_eq in E0; lia|].
    apply andb_prop in E0. destruct E0 as [X Y]. apply Nat.eqb_eq in X, Y. lia.
Qed.

Theorem add_assign_canon res a r : wf_glwe n res -> wf_glwe n a ->
  (forall i j, vadd W64 (gl n res i j) (gl n a i j) = padd (gl n res i j) (gl n a i j)) ->
  glwe_add_assign n res a = Some r ->
  r = gmap2 Fadd n res res a /\ (g_ncols res <= g_ncols res)%nat /\ (g_ncols a <= g_ncols res)%nat.
Proof.
  intros Hres Ha Hw. unfold glwe_add_assign.
  destruct (_ && _)%bool eqn:E; [|discriminate]. intros [= <-]. split_andb E.
  pose proof (ncols_rank n res Hres) as Nr. pose proof (ncols_rank n a Ha) as Na.
  apply Nat.leb_le in E0.
  split; [|lia].
  rewrite gmap2_cols by assumption. unfold mapi_cols. f_equal. apply map_seq_ext. intros i Hi.
  pose proof (gcol_wf n res i Hres Hi) as Wr.
  destruct (Nat.leb_spec i (g_rank a)) as [H1|H1].
  - rewrite (col_add_assign n _ _ (g_size a) (g_size res)); [| apply gcol_wf; [assumption|lia] | assumption |].
    + rewrite (gcol_length n res i Hres Hi). reflexivity.
    + intros j. specialize (Hw i j). rewrite !gl_cl in Hw by assumption. exact Hw.
  - unfold Fadd. apply (nth_ext _ _ [] []); [rewrite build_length; apply (gcol_length n res i Hres Hi)|].
    intros j Hj. rewrite (gcol_length n res i Hres Hi) in Hj. rewrite build_nth by exact Hj.
    rewrite (gcol_out a i) by lia. rewrite cl_nil.
    rewrite padd_pzero_r' by (apply cl_gcol_length; exact Hres).
    rewrite cl_in by (rewrite (gcol_length n res i Hres Hi); exact Hj). reflexivity.
Qed.

(* ---------------- sub ---------------- *)
Theorem sub_canon res a b r : wf_glwe n res -> wf_glwe n a -> wf_glwe n b ->
  (forall i j, vsub W64 (gl n a i j) (gl n b i j) = psub (gl n a i j) (gl n b i j)) ->
  glwe_sub n res a b = Some r ->
  r = gmap2 Fsub n res a b /\ (g_ncols a <= g_ncols res)%nat /\ (g_ncols b <= g_ncols res)%nat.
Proof.
  intros Hres Ha Hb Hw. unfold glwe_sub.
  destruct (_ && _)%bool eqn:E; [|discriminate]. intros [= <-]. split_andb E.
  pose proof (ncols_rank n res Hres) as Nr. pose proof (ncols_rank n a Ha) as Na. pose proof (ncols_rank n b Hb) as Nb.
  split.
  - rewrite gmap2_cols by assumption. unfold mapi_cols. f_equal. apply map_seq_ext. intros i Hi.
    rewrite <- (gcol_length n res i Hres Hi).
    destruct (gcol_wf_any a i Ha) as [sa Wa]. destruct (gcol_wf_any b i Hb) as [sb Wb].
    destruct (Nat.ltb_spec i (S (Nat.min (g_rank a) (g_rank b)))) as [H1|H1].
    + apply (col_sub n _ _ _ sa sb Wa Wb). intros j. specialize (Hw i j). rewrite !gl_cl in Hw by assumption. exact Hw.
    + destruct (Nat.ltb_spec i (S (Nat.max (g_rank a) (g_rank b)))) as [H2|H2].
      * destruct (Nat.ltb_spec (g_rank b) (g_rank a)) as [H3|H3]; unfold vec_copy, vec_negate, Fsub.
        -- rewrite (col_unary n (fun l => l) (fun l => l)) by reflexivity.
           apply build_ext. intros j _. rewrite (gcol_out b i) by lia. rewrite cl_nil.
           rewrite psub_pzero_r' by (apply cl_gcol_length; exact Ha). reflexivity.
        -- rewrite (col_unary n (vneg W64) pneg); [| apply pneg_pzero |].
           ++ apply build_ext. intros j _. rewrite (gcol_out a i) by lia. rewrite cl_nil.
              rewrite psub_pzero_l' by (apply cl_gcol_length; exact Hb). reflexivity.
           ++ intros j. specialize (Hw i j). rewrite !gl_cl in Hw by assumption.
              rewrite (gcol_out a i) in Hw by lia. rewrite cl_nil in Hw.
              rewrite psub_pzero_l' in Hw by (apply cl_gcol_length; exact Hb).
              unfold pzero in Hw. rewrite vsub_zero_l in Hw by (apply cl_gcol_length; exact Hb). exact Hw.
      * rewrite col_zero. apply build_ext. intros j _. unfold Fsub.
        rewrite (gcol_out a i), (gcol_out b i) by lia. rewrite !cl_nil.
        rewrite psub_pzero_r' by apply pzero_length. reflexivity.
  - unfold rank_rule3 in E0.
    destruct (Nat.eqb_spec (g_rank a) 0); [apply Nat.eqb_eq in E0; lia|].
    destruct (Nat.eqb_spec (g_rank b) 0); [apply Nat.eqb_eq in E0; lia|].
    apply andb_prop in E0. destruct E0 as [X Y]. apply Nat.eqb_eq in X, Y. lia.
Qed.

Lemma rank_eq_or_0_le res a : wf_glwe n res -> wf_glwe n a -> rank_eq_or_0 res a = true -> (g_ncols a <= g_ncols res)%nat.
Proof.
  intros Hres Ha H. pose proof (ncols_rank n res Hres). pose proof (ncols_rank n a Ha).
  unfold rank_eq_or_0 in H. apply orb_prop in H. destruct H as [H|H]; apply Nat.eqb_eq in H; lia.
Qed.

Theorem sub_assign_canon res a r : wf_glwe n res -> wf_glwe n a ->
  (forall i j, vsub W64 (gl n res i j) (gl n a i j) = psub (gl n res i j) (gl n a i j)) ->
  glwe_sub_assign n res a = Some r ->
  r = gmap2 Fsub n res res a /\ (g_ncols res <= g_ncols res)%nat /\ (g_ncols a <= g_ncols res)%nat.
Proof.
  intros Hres Ha Hw. unfold glwe_sub_assign.
  destruct (_ && _)%bool eqn:E; [|discriminate]. intros [= <-]. split_andb E.
  pose proof (ncols_rank n res Hres) as Nr. pose proof (ncols_rank n a Ha) as Na.
  pose proof (rank_eq_or_0_le res a Hres Ha E0) as Hle.
  split; [|lia].
  rewrite gmap2_cols by assumption. unfold mapi_cols. f_equal. apply map_seq_ext. intros i Hi.
  pose proof (gcol_wf n res i Hres Hi) as Wr.
  destruct (Nat.leb_spec i (g_rank a)) as [H1|H1].
  - rewrite (col_sub_assign n _ _ (g_size a) (g_size res)); [| apply gcol_wf; [assumption|lia] | assumption |].
    + rewrite (gcol_length n res i Hres Hi). reflexivity.
    + intros j. specialize (Hw i j). rewrite !gl_cl in Hw by assumption. exact Hw.
  - unfold Fsub. apply (nth_ext _ _ [] []); [rewrite build_length; apply (gcol_length n res i Hres Hi)|].
    intros j Hj. rewrite (gcol_length n res i Hres Hi) in Hj. rewrite build_nth by exact Hj.
    rewrite (gcol_out a i) by lia. rewrite cl_nil.
    rewrite psub_pzero_r' by (apply cl_gcol_length; exact Hres).
    rewrite cl_in by (rewrite (gcol_length n res i Hres Hi); exact Hj). reflexivity.
Qed.

(* res <- a - res; the columns of res beyond a.rank are negated (a's missing columns read as 0) *)
Theorem sub_negate_assign_canon res a r : wf_glwe n res -> wf_glwe n a ->
  (forall i j, vsub W64 (gl n a i j) (gl n res i j) = psub (gl n a i j) (gl n res i j)) ->
  glwe_sub_negate_assign n res a = Some r ->
  r = gmap2 Fsub n res a res /\ (g_ncols a <= g_ncols res)%nat /\ (g_ncols res <= g_ncols res)%nat.
Proof.
  intros Hres Ha Hw. unfold glwe_sub_negate_assign.
  destruct (_ && _)%bool eqn:E; [|discriminate]. intros [= <-]. split_andb E.
  pose proof (ncols_rank n res Hres) as Nr. pose proof (ncols_rank n a Ha) as Na.
  pose proof (rank_eq_or_0_le res a Hres Ha E0) as Hle.
  split; [|lia].
  rewrite gmap2_cols by assumption. unfold mapi_cols. f_equal. apply map_seq_ext. intros i Hi.
  pose proof (gcol_wf n res i Hres Hi) as Wr.
  destruct (Nat.leb_spec i (g_rank a)) as [H1|H1].
  - rewrite (col_sub_negate_assign n _ _ (g_size a) (g_size res)); [| apply gcol_wf; [assumption|lia] | assumption |].
    + rewrite (gcol_length n res i Hres Hi). reflexivity.
    + intros j. specialize (Hw i j). rewrite !gl_cl in Hw by assumption. exact Hw.
  - unfold Fsub. rewrite (col_unary_assign n (vneg W64) pneg).
    + rewrite (gcol_length n res i Hres Hi). apply build_ext. intros j _.
      rewrite (gcol_out a i) by lia. rewrite cl_nil.
      rewrite psub_pzero_l' by (apply cl_gcol_length; exact Hres). reflexivity.
    + intros j. specialize (Hw i j). rewrite !gl_cl in Hw by assumption.
      rewrite (gcol_out a i) in Hw by lia. rewrite cl_nil in Hw.
      rewrite psub_pzero_l' in Hw by (apply cl_gcol_length; exact Hres).
      unfold pzero in Hw. rewrite vsub_zero_l in Hw by (apply cl_gcol_length; exact Hres). exact Hw.
Qed.

(* ---------------- unary: negate / copy / rotate / mul_xp_minus_one ---------------- *)
Theorem negate_canon res a r : wf_glwe n res -> wf_glwe n a ->
  (forall i j, vneg W64 (gl n a i j) = pneg (gl n a i j)) ->
  glwe_negate n res a = Some r ->
  r = gmap2 Fneg n res a a /\ (g_ncols a <= g_ncols res)%nat /\ (g_ncols a <= g_ncols res)%nat.
Proof.
  intros Hres Ha Hw. unfold glwe_negate.
  destruct (_ && _)%bool eqn:E; [|discriminate]. intros [= <-]. split_andb E.
  pose proof (ncols_rank n res Hres) as Nr. pose proof (ncols_rank n a Ha) as Na. apply Nat.eqb_eq in E0.
  split; [|lia].
  rewrite gmap2_cols by assumption. unfold mapi_cols. f_equal. apply map_seq_ext. intros i Hi.
  unfold vec_negate, Fneg. rewrite (col_unary n (vneg W64) pneg); [| apply pneg_pzero |].
  - rewrite (gcol_length n res i Hres Hi). reflexivity.
  - intros j. specialize (Hw i j). rewrite !gl_cl in Hw by assumption. exact Hw.
Qed.

Theorem negate_assign_canon res r : wf_glwe n res ->
  (forall i j, vneg W64 (gl n res i j) = pneg (gl n res i j)) ->
  glwe_negate_assign n res = Some r ->
  r = gmap2 Fneg n res res res /\ (g_ncols res <= g_ncols res)%nat /\ (g_ncols res <= g_ncols res)%nat.
Proof.
  intros Hres Hw. unfold glwe_negate_assign.
  destruct (same_n n res) eqn:E; [|discriminate]. intros [= <-].
  split; [|lia].
  rewrite gmap2_cols by assumption. unfold mapi_cols. f_equal. apply map_seq_ext. intros i Hi.
  unfold Fneg. rewrite (col_unary_assign n (vneg W64) pneg).
  - rewrite (gcol_length n res i Hres Hi). reflexivity.
  - intros j. specialize (Hw i j). rewrite !gl_cl in Hw by assumption. exact Hw.
Qed.

Theorem copy_canon res a r : wf_glwe n res -> wf_glwe n a ->
  glwe_copy n res a = Some r ->
  r = gmap2 Fid n res a a /\ (g_ncols a <= g_ncols res)%nat /\ (g_ncols a <= g_ncols res)%nat.
Proof.
  intros Hres Ha. unfold glwe_copy.
  destruct (_ && _)%bool eqn:E; [|discriminate]. intros [= <-]. split_andb E.
  pose proof (ncols_rank n res Hres) as Nr. pose proof (ncols_rank n a Ha) as Na.
  pose proof (rank_eq_or_0_le res a Hres Ha E0) as Hle.
  split; [|lia].
  rewrite gmap2_cols by assumption. unfold mapi_cols. f_equal. apply map_seq_ext. intros i Hi.
  unfold Fid. rewrite <- (gcol_length n res i Hres Hi).
  destruct (Nat.ltb_spec i (S (Nat.min (g_rank res) (g_rank a)))) as [H1|H1].
  - unfold vec_copy. rewrite (col_unary n (fun l => l) (fun l => l)) by reflexivity. reflexivity.
  - rewrite col_zero. apply build_ext. intros j _. rewrite (gcol_out a i) by lia. rewrite cl_nil. reflexivity.
Qed.

Theorem rotate_canon k res a r : wf_glwe n res -> wf_glwe n a ->
  (forall i j, znx_rotate W64 k (gl n a i j) = xmono k (gl n a i j)) ->
  glwe_rotate n k res a = Some r ->
  r = gmap2 (Frot k) n res a a /\ (g_ncols a <= g_ncols res)%nat /\ (g_ncols a <= g_ncols res)%nat.
Proof.
  intros Hres Ha Hw. unfold glwe_rotate.
  destruct (_ && _)%bool eqn:E; [|discriminate]. intros [= <-]. split_andb E.
  pose proof (ncols_rank n res Hres) as Nr. pose proof (ncols_rank n a Ha) as Na.
  pose proof (rank_eq_or_0_le res a Hres Ha E0) as Hle.
  split; [|lia].
  rewrite gmap2_cols by assumption. unfold mapi_cols. f_equal. apply map_seq_ext. intros i Hi.
  unfold Frot. rewrite <- (gcol_length n res i Hres Hi).
  destruct (Nat.ltb_spec i (g_ncols a)) as [H1|H1].
  - unfold vec_rotate. rewrite (col_unary n (znx_rotate W64 k) (xmono k)); [reflexivity | apply xmono_pzero |].
    intros j. specialize (Hw i j). rewrite !gl_cl in Hw by assumption. exact Hw.
  - rewrite col_zero. apply build_ext. intros j _. rewrite (gcol_out a i) by lia. rewrite cl_nil.
    rewrite xmono_pzero. reflexivity.
Qed.

Theorem rotate_assign_canon scr k res r : wf_glwe n res ->
  (forall i j, znx_rotate W64 k (gl n res i j) = xmono k (gl n res i j)) ->
  glwe_rotate_assign n scr k res = Some r ->
  r = gmap2 (Frot k) n res res res /\ (g_ncols res <= g_ncols res)%nat /\ (g_ncols res <= g_ncols res)%nat.
Proof.
  intros Hres Hw. unfold glwe_rotate_assign.
  destruct (_ <=? _) eqn:E; [|discriminate]. intros [= <-].
  split; [|lia].
  rewrite gmap2_cols by assumption. unfold mapi_cols. f_equal. apply map_seq_ext. intros i Hi.
  unfold Frot, vec_rotate_assign. rewrite (col_unary_assign n (znx_rotate W64 k) (xmono k)).
  - rewrite (gcol_length n res i Hres Hi). reflexivity.
  - intros j. specialize (Hw i j). rewrite !gl_cl in Hw by assumption. exact Hw.
Qed.

Theorem mul_xp_canon k res a r : wf_glwe n res -> wf_glwe n a ->
  (forall i j, vsub W64 (znx_rotate W64 k (gl n a i j)) (gl n a i j) = xmono_m1 k (gl n a i j)) ->
  glwe_mul_xp_minus_one n k res a = Some r ->
  r = gmap2 (Fmx1 k) n res a a /\ (g_ncols a <= g_ncols res)%nat /\ (g_ncols a <= g_ncols res)%nat.
Proof.
  intros Hres Ha Hw. unfold glwe_mul_xp_minus_one.
  destruct (_ && _)%bool eqn:E; [|discriminate]. intros [= <-]. split_andb E.
  pose proof (ncols_rank n res Hres) as Nr. pose proof (ncols_rank n a Ha) as Na. apply Nat.eqb_eq in E0.
  split; [|lia].
  rewrite gmap2_cols by assumption. unfold mapi_cols. f_equal. apply map_seq_ext. intros i Hi.
  unfold Fmx1. rewrite (col_mul_xp n k).
  - rewrite (gcol_length n res i Hres Hi). reflexivity.
  - intros j. specialize (Hw i j). rewrite !gl_cl in Hw by assumption. exact Hw.
Qed.

Theorem mul_xp_assign_canon scr k res r : wf_glwe n res ->
  (forall i j, vsub W64 (znx_rotate W64 k (gl n res i j)) (gl n res i j) = xmono_m1 k (gl n res i j)) ->
  glwe_mul_xp_minus_one_assign n scr k res = Some r ->
  r = gmap2 (Fmx1 k) n res res res /\ (g_ncols res <= g_ncols res)%nat /\ (g_ncols res <= g_ncols res)%nat.
Proof.
  intros Hres Hw. unfold glwe_mul_xp_minus_one_assign.
  destruct (_ && _)%bool eqn:E; [|discriminate]. intros [= <-].
  split; [|lia].
  rewrite gmap2_cols by assumption. unfold mapi_cols. f_equal. apply map_seq_ext. intros i Hi.
  unfold Fmx1. rewrite (col_mul_xp_assign n k).
  - rewrite (gcol_length n res i Hres Hi). reflexivity.
  - intros j. specialize (Hw i j). rewrite !gl_cl in Hw by assumption. exact Hw.
Qed.

End Canon.

(* ---------------------------------------------------------------- one statement for the twelve exact opcodes *)

(* the word-level limb function each opcode applies *)
Definition Fw (opc k : Z) : option (list Z -> list Z -> list Z) :=
  match opc with
  | 1 | 2 => Some (vadd W64)
  | 3 | 4 | 5 => Some (vsub W64)
  | 6 | 7 => Some (fun x _ => vneg W64 x)
  | 8 => Some (fun x _ => x)
  | 9 | 10 => Some (fun x _ => znx_rotate W64 k x)
  | 11 | 12 => Some (fun x _ => vsub W64 (znx_rotate W64 k x) x)
  | _ => None
  end.

(* "this call is exact": no 64-bit wrap on any (zero-extended) limb pair the call combines *)
Definition step_exact (n : nat) (opc k : Z) (res a b : glwe) : Prop :=
  match exact_F opc k, Fw opc k with
  | Some (F, ix, iy), Some fw =>
      let x := pick3 ix res a b in let y := pick3 iy res a b in
      forall i j, fw (gl n x i j) (gl n y i j) = F (gl n x i j) (gl n y i j)
  | _, _ => False
  end.

Theorem exec_op_canon n opc scr k res a b r F ix iy :
  exact_F opc k = Some (F, ix, iy) ->
  wf_glwe n res -> wf_glwe n a -> wf_glwe n b ->
  step_exact n opc k res a b ->
  exec_op opc n scr k res a b = Some r ->
  r = gmap2 F n res (pick3 ix res a b) (pick3 iy res a b) /\
  (g_ncols (pick3 ix res a b) <= g_ncols res)%nat /\ (g_ncols (pick3 iy res a b) <= g_ncols res)%nat.
Proof.
  intros HF Hres Ha Hb Hs He. unfold step_exact in Hs. rewrite HF in Hs.
  unfold exact_F in HF.
  destruct opc as [|p|p]; try discriminate.
  repeat (match goal with q : positive |- _ => destruct q end; try (cbn in HF; discriminate)).
  all: injection HF as <- <- <-; cbn [Fw pick3] in Hs; rename Hs into Hw; cbn [exec_op pick3] in *.
  all: first [ solve [eapply add_into_canon; eauto] | solve [eapply add_assign_canon; eauto]
             | solve [eapply sub_canon; eauto] | solve [eapply sub_assign_canon; eauto]
             | solve [eapply sub_negate_assign_canon; eauto] | solve [eapply negate_canon; eauto]
             | solve [eapply negate_assign_canon; eauto] | solve [eapply copy_canon; eauto]
             | solve [eapply rotate_canon; eauto] | solve [eapply rotate_assign_canon; eauto]
             | solve [eapply mul_xp_canon; eauto] | solve [eapply mul_xp_assign_canon; eauto] ].
Qed.
