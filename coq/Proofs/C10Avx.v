(* C10: lane-level models of the AVX kernels and their equality with the scalar kernels (grows). *)
From PV Require Import Base.MachineInt Model.Znx.
Open Scope Z_scope.

(* AVX get_digit: ((x land mask) lxor sign) - sign with mask = 2^b - 1, sign = 2^(b-1), on the b low bits *)
Definition get_digit_masked (b x : Z) : Z := Z.lxor (Z.land x (2 ^ b - 1)) (2 ^ (b - 1)) - 2 ^ (b - 1).

Lemma land_mask_mod (b x : Z) : 0 <= b -> Z.land x (2 ^ b - 1) = x mod 2 ^ b.
Proof. intros Hb. rewrite <- Z.land_ones by lia. f_equal. rewrite Z.ones_equiv. lia. Qed.
