(* C10: bit-vector lemmas on 64-bit lanes, and the AVX digit / carry helpers equal the scalar ones. *)
From PV Require Import Base.MachineInt Model.Znx Proofs.ZnxDigit Model.C10AvxLanes.
From Coq Require Import Znumtheory.
Open Scope Z_scope.

(* ---------- generic facts on powers of two and mod ---------- *)
Lemma pow2_le (a b : Z) : 0 <= a <= b -> 2 ^ a <= 2 ^ b.
Proof. intros H; apply Z.pow_le_mono_r; lia. Qed.

Lemma pow2_lt (a b : Z) : 0 <= a < b -> 2 ^ a < 2 ^ b.
Proof. intros H; apply Z.pow_lt_mono_r; lia. Qed.

Lemma pow2_sum (a b : Z) : 0 <= a -> 0 <= b -> 2 ^ (a + b) = 2 ^ a * 2 ^ b.
Proof. intros; apply Z.pow_add_r; lia. Qed.

Lemma pow2_64_split (k : Z) : 0 <= k <= 64 -> 2 ^ 64 = 2 ^ (64 - k) * 2 ^ k.
Proof. intros H; rewrite <- pow2_sum by lia. f_equal; lia. Qed.

Lemma mod_mod_pow2 (x n b : Z) : 0 <= b <= n -> (x mod 2 ^ n) mod 2 ^ b = x mod 2 ^ b.
Proof.
  intros H. symmetry. apply Zmod_div_mod.
  - apply pow2_pos; lia.
  - apply pow2_pos; lia.
  - exists (2 ^ (n - b)). rewrite <- pow2_sum by lia. f_equal; lia.
Qed.

Lemma land_mask_mod (b x : Z) : 0 <= b -> Z.land x (2 ^ b - 1) = x mod 2 ^ b.
Proof. intros Hb. rewrite <- Z.land_ones by lia. f_equal. rewrite Z.ones_equiv. lia. Qed.

(* ---------- unsigned / signed views ---------- *)
Lemma to_u_small (u : Z) : 0 <= u < 2 ^ 64 -> to_u u = u.
Proof. intros H; unfold to_u, wrapu; apply Z.mod_small; lia. Qed.

Lemma to_u_range (x : Z) : 0 <= to_u x < 2 ^ 64.
Proof. unfold to_u, wrapu; apply Z.mod_pos_bound; lia. Qed.

Lemma to_u_neg (x : Z) : - 2 ^ 64 <= x < 0 -> to_u x = x + 2 ^ 64.
Proof.
  intros H; unfold to_u, wrapu. symmetry; apply Z.mod_unique with (q := -1); lia.
Qed.

Lemma of_u_small (u : Z) : - 2 ^ 63 <= u < 2 ^ 63 -> of_u u = u.
Proof. intros H; unfold of_u; apply wrap_id; [lia|]. unfold in_range; simpl Z.sub; lia. Qed.

Lemma of_u_to_u (x : Z) : of_u (to_u x) = wrap 64 x.
Proof.
  unfold of_u, to_u, wrapu. apply wrap_eq_mod; [lia|]. apply Z.mod_mod; lia.
Qed.

Lemma of_u_add_2_64 (q : Z) : of_u (q + 2 ^ 64) = wrap 64 q.
Proof.
  unfold of_u. apply wrap_eq_mod; [lia|].
  replace (q + 2 ^ 64) with (q + 1 * 2 ^ 64) by lia. apply Z.mod_add; lia.
Qed.

Lemma in_range_64 (x : Z) : - 2 ^ 63 <= x < 2 ^ 63 -> in_range 64 x.
Proof. unfold in_range; simpl Z.sub; tauto. Qed.
Lemma in_range_64_elim (x : Z) : in_range 64 x -> - 2 ^ 63 <= x < 2 ^ 63.
Proof. unfold in_range; simpl Z.sub; tauto. Qed.

(* ---------- bitwise facts ---------- *)
Lemma testbit_small_high (a m n : Z) : 0 <= a < 2 ^ m -> m <= n -> Z.testbit a n = false.
Proof.
  intros Ha Hn. destruct (Z.eq_dec a 0) as [->|Hne]; [apply Z.bits_0|].
  apply Z.bits_above_log2; [lia|].
  assert (Z.log2 a < m); [|lia].
  apply Z.log2_lt_pow2; lia.
Qed.

Lemma land_low_high (a h m : Z) : 0 <= m -> 0 <= a < 2 ^ m -> Z.land a (h * 2 ^ m) = 0.
Proof.
  intros Hm Ha. apply Z.bits_inj'. intros n Hn.
  rewrite Z.land_spec, Z.bits_0.
  destruct (Z_lt_le_dec n m) as [Hlt|Hge].
  - rewrite Z.mul_pow2_bits_low by lia. apply andb_false_r.
  - rewrite (testbit_small_high a m n) by lia. reflexivity.
Qed.

Lemma lor_disjoint_add (a b : Z) : Z.land a b = 0 -> Z.lor a b = a + b.
Proof. intros H. rewrite <- Z.lxor_lor by exact H. symmetry; apply Z.add_nocarry_lxor; exact H. Qed.

Lemma lxor_disjoint_add (a b : Z) : Z.land a b = 0 -> Z.lxor a b = a + b.
Proof. intros H. symmetry; apply Z.add_nocarry_lxor; exact H. Qed.

(* the xor / sub sign-extension trick: flipping bit b-1 of a b-bit value *)
Lemma lxor_sign (b v : Z) : 1 <= b -> 0 <= v < 2 ^ b ->
  Z.lxor v (2 ^ (b - 1)) = if v <? 2 ^ (b - 1) then v + 2 ^ (b - 1) else v - 2 ^ (b - 1).
Proof.
  intros Hb Hv. pose proof (pow2_split b Hb) as Hs. set (s := 2 ^ (b - 1)) in *.
  assert (Hlow : forall u, 0 <= u < s -> Z.lxor u s = u + s).
  { intros u Hu. apply lxor_disjoint_add.
    replace s with (1 * 2 ^ (b - 1)) by (unfold s; lia). apply land_low_high; [lia|]. exact Hu. }
  destruct (Z.ltb_spec v s) as [Hlt|Hge].
  - apply Hlow; lia.
  - replace v with ((v - s) + s) at 1 by lia. rewrite <- (Hlow (v - s)) by lia.
    rewrite Z.lxor_assoc, Z.lxor_nilpotent, Z.lxor_0_r. reflexivity.
Qed.

(* ---------- intrinsic-level rewriting lemmas ---------- *)
Lemma mm_and_mask (b x : Z) : 0 <= b <= 63 -> mm_and x (2 ^ b - 1) = x mod 2 ^ b.
Proof.
  intros Hb. unfold mm_and.
  pose proof (pow2_le b 63 ltac:(lia)) as Hle. pose proof (pow2_pos b ltac:(lia)) as Hp.
  rewrite (to_u_small (2 ^ b - 1)) by lia.
  rewrite land_mask_mod by lia. unfold to_u, wrapu. rewrite mod_mod_pow2 by lia.
  pose proof (Z.mod_pos_bound x (2 ^ b) Hp). apply of_u_small; lia.
Qed.

Lemma mm_and_neg_mask (y t : Z) : in_range 64 t ->
  mm_and (mm_cmpgt mm_setzero y) t = if y <? 0 then t else 0.
Proof.
  intros Ht. unfold mm_cmpgt, mm_setzero, mm_and.
  destruct (y <? 0).
  - rewrite (to_u_neg (-1)) by lia.
    replace (-1 + 2 ^ 64) with (2 ^ 64 - 1) by lia.
    rewrite Z.land_comm, land_mask_mod by lia.
    pose proof (to_u_range t). rewrite Z.mod_small by lia.
    rewrite of_u_to_u. apply wrap_id; [lia|exact Ht].
  - rewrite (to_u_small 0) by lia. rewrite Z.land_0_l. reflexivity.
Qed.

Lemma mm_shl_eq (d c : Z) : 0 <= c -> of_u (Z.shiftl (to_u d) c) = shl 64 d c.
Proof.
  intros Hc. unfold of_u, shl. rewrite Z.shiftl_mul_pow2 by lia.
  apply wrap_eq_mod; [lia|]. unfold to_u, wrapu. apply Zmult_mod_idemp_l.
Qed.

Lemma mm_sllv_shl (d c : Z) : 0 <= c < 64 -> mm_sllv d c = shl 64 d c.
Proof.
  intros Hc. unfold mm_sllv. rewrite (to_u_small c) by lia.
  destruct (Z.ltb_spec c 64); [|lia]. apply mm_shl_eq; lia.
Qed.

Lemma mm_sll_shl (d c : Z) : 0 <= c < 64 -> mm_sll d (mm_cvtsi32_si128 c) = shl 64 d c.
Proof.
  intros Hc. unfold mm_sll, mm_cvtsi32_si128, wrapu. rewrite Z.mod_small by lia.
  destruct (Z.ltb_spec c 64); [|lia]. apply mm_shl_eq; lia.
Qed.

(* logical shift right + sign fill = arithmetic shift right (floor division) *)
Lemma lsr_fill_asr (k y : Z) : 1 <= k <= 63 -> in_range 64 y ->
  mm_or (of_u (Z.shiftr (to_u y) k)) (mm_and (mm_cmpgt mm_setzero y) (- 2 ^ (64 - k))) = y / 2 ^ k.
Proof.
  intros Hk Hy. apply in_range_64_elim in Hy.
  pose proof (pow2_64_split k ltac:(lia)) as H64.
  pose proof (pow2_pos k ltac:(lia)) as Hpk.
  pose proof (pow2_pos (64 - k) ltac:(lia)) as Hpm.
  pose proof (pow2_le (64 - k) 63 ltac:(lia)) as Hm63.
  assert (H63 : 2 ^ 63 = 2 ^ (63 - k) * 2 ^ k) by (rewrite <- pow2_sum by lia; f_equal; lia).
  assert (Hm1 : 2 ^ (64 - k) = 2 * 2 ^ (63 - k)).
  { replace (64 - k) with (1 + (63 - k)) by lia. rewrite pow2_sum by lia. reflexivity. }
  rewrite mm_and_neg_mask by (apply in_range_64; lia).
  rewrite Z.shiftr_div_pow2 by lia.
  set (q := y / 2 ^ k).
  assert (Hq : - 2 ^ (63 - k) <= q < 2 ^ (63 - k)).
  { unfold q. split.
    - apply Z.div_le_lower_bound; lia.
    - apply Z.div_lt_upper_bound; lia. }
  destruct (Z.ltb_spec y 0) as [Hneg|Hpos].
  - rewrite (to_u_neg y) by lia.
    replace (y + 2 ^ 64) with (y + 2 ^ (64 - k) * 2 ^ k) by lia.
    rewrite Z.div_add by lia. fold q.
    assert (Hq0 : q < 0) by (unfold q; apply Z.div_lt_upper_bound; lia).
    unfold mm_or. rewrite (of_u_small (q + 2 ^ (64 - k))) by lia.
    rewrite (to_u_small (q + 2 ^ (64 - k))) by lia.
    rewrite (to_u_neg (- 2 ^ (64 - k))) by lia.
    replace (- 2 ^ (64 - k) + 2 ^ 64) with ((2 ^ k - 1) * 2 ^ (64 - k)) by lia.
    rewrite lor_disjoint_add by (apply land_low_high; lia).
    replace (q + 2 ^ (64 - k) + (2 ^ k - 1) * 2 ^ (64 - k)) with (q + 2 ^ 64) by lia.
    rewrite of_u_add_2_64. apply wrap_id; [lia|]. apply in_range_64; lia.
  - rewrite (to_u_small y) by lia. fold q.
    assert (Hq0 : 0 <= q) by (unfold q; apply Z.div_pos; lia).
    unfold mm_or. rewrite (of_u_small q) by lia. rewrite (to_u_small q) by lia.
    rewrite (to_u_small 0) by lia. rewrite Z.lor_0_r. apply of_u_small; lia.
Qed.

(* ---------- constants ---------- *)
Lemma mask_k_eq (b : Z) : 1 <= b <= 63 -> mask_k b = 2 ^ b - 1.
Proof.
  intros Hb. unfold mask_k, as_i64, u64_shl, wrapu.
  pose proof (pow2_le b 63 ltac:(lia)). pose proof (pow2_pos b ltac:(lia)).
  rewrite Z.mul_1_l. rewrite (Z.mod_small (2 ^ b)) by lia. rewrite Z.mod_small by lia.
  apply wrap_id; [lia|]. apply in_range_64; lia.
Qed.

Lemma sign_k_eq (b : Z) : 1 <= b <= 63 -> sign_k b = 2 ^ (b - 1).
Proof.
  intros Hb. unfold sign_k, as_i64, u64_shl, wrapu.
  pose proof (pow2_lt (b - 1) 63 ltac:(lia)). pose proof (pow2_pos (b - 1) ltac:(lia)).
  rewrite Z.mul_1_l. rewrite Z.mod_small by lia.
  apply wrap_id; [lia|]. apply in_range_64; lia.
Qed.

Lemma wrap_neg_pow2 (m : Z) : 0 <= m <= 63 -> wrap 64 (- 1 * 2 ^ m) = - 2 ^ m.
Proof.
  intros Hm. pose proof (pow2_le m 63 ltac:(lia)). pose proof (pow2_pos m ltac:(lia)).
  apply wrap_id; [lia|]. apply in_range_64; lia.
Qed.

Lemma topmask_eq (b : Z) : 1 <= b <= 63 -> topmask b = - 2 ^ (64 - b).
Proof.
  intros Hb. unfold topmask, as_i64, u64_shl, wrapu.
  rewrite <- (wrap_neg_pow2 (64 - b)) by lia.
  apply wrap_eq_mod; [lia|]. rewrite Z.mod_mod by lia.
  replace ((2 ^ 64 - 1) * 2 ^ (64 - b)) with (-1 * 2 ^ (64 - b) + 2 ^ (64 - b) * 2 ^ 64) by ring.
  apply Z.mod_add; lia.
Qed.

(* ---------- digit and carry ---------- *)
Theorem avx_digit_raw (b x : Z) : 1 <= b <= 63 ->
  get_digit_avx x (2 ^ b - 1) (2 ^ (b - 1)) = get_digit 64 b x.
Proof.
  intros Hb. rewrite digit_spec by lia. unfold get_digit_avx.
  rewrite mm_and_mask by lia.
  pose proof (pow2_pos b ltac:(lia)) as Hp. pose proof (pow2_pos (b - 1) ltac:(lia)) as Hps.
  pose proof (pow2_split b ltac:(lia)) as Hs. pose proof (pow2_le b 63 ltac:(lia)) as H63.
  pose proof (Z.mod_pos_bound x (2 ^ b) Hp) as Hv.
  unfold wrap. rewrite <- (Zplus_mod_idemp_l x).
  set (v := x mod 2 ^ b) in *. set (s := 2 ^ (b - 1)) in *.
  unfold mm_xor. rewrite (to_u_small v), (to_u_small s) by lia.
  unfold s at 1. rewrite lxor_sign by (fold v; lia). fold s.
  destruct (Z.ltb_spec v s) as [Hlt|Hge].
  - rewrite of_u_small by lia. unfold mm_sub.
    rewrite wrap_id by (try apply in_range_64; lia).
    rewrite Z.mod_small by lia. lia.
  - rewrite of_u_small by lia. unfold mm_sub.
    rewrite wrap_id by (try apply in_range_64; lia).
    assert (Hm : (v + s) mod 2 ^ b = v + s - 2 ^ b).
    { symmetry; apply Z.mod_unique with (q := 1); lia. }
    rewrite Hm. lia.
Qed.

Theorem avx_digit_eq_ref (b x : Z) : 1 <= b <= 63 -> digit_avx b x = get_digit 64 b x.
Proof.
  intros Hb. unfold digit_avx, normalize_consts_avx, mm_set1.
  rewrite mask_k_eq, sign_k_eq by lia. apply avx_digit_raw; lia.
Qed.

Theorem avx_carry_raw (b x d : Z) : 1 <= b <= 63 ->
  get_carry_avx x d b (- 2 ^ (64 - b)) = get_carry 64 b x d.
Proof.
  intros Hb. unfold get_carry_avx, get_carry, asr, wsub, mm_sub.
  set (y := wrap 64 (x - d)).
  assert (Hy : in_range 64 y) by (apply wrap_range; lia).
  unfold mm_srlv. rewrite (to_u_small b) by lia.
  destruct (Z.ltb_spec b 64); [|lia].
  apply lsr_fill_asr; [lia|exact Hy].
Qed.

Theorem avx_carry_eq_ref (b x d : Z) : 1 <= b <= 63 -> carry_avx b x d = get_carry 64 b x d.
Proof.
  intros Hb. unfold carry_avx, normalize_consts_avx, mm_set1.
  rewrite topmask_eq by lia. apply avx_carry_raw; lia.
Qed.
