(* C17 - op_total: the bounds-checked twins (Model/C17Ops.v) of the flat-memory operations never fail and compute
   exactly what the shared total models (Model/{Limbs,Ring,Flat}.v) compute, for every radix, shift, offset and size. *)
From PV Require Import Base.MachineInt Model.Znx Model.Limbs Model.Ring Model.Flat Model.C17Ops.
From Coq Require Import Arith PeanoNat.
Open Scope Z_scope.

(* ------------------------------------------------------------------------------------------------ *)
(* generic facts *)

Lemma upd_length (l : list Z) (i : nat) (x : Z) : length (upd l i x) = length l.
Proof. revert i; induction l as [|h t IH]; intros [|i]; cbn; auto. Qed.

Lemma getc_in (l : list Z) (i : nat) : (i < length l)%nat -> getc l (zn i) = Some (nthZ l i).
Proof.
  intros H. unfold getc, zn. destruct (Z.leb_spec 0 (Z.of_nat i)); [|lia].
  destruct (Z.ltb_spec (Z.of_nat i) (Z.of_nat (length l))); [|lia]. cbn. rewrite Nat2Z.id. reflexivity.
Qed.
Lemma updc_in (l : list Z) (i : nat) (x : Z) : (i < length l)%nat -> updc l (zn i) x = Some (upd l i x).
Proof.
  intros H. unfold updc, zn. destruct (Z.leb_spec 0 (Z.of_nat i)); [|lia].
  destruct (Z.ltb_spec (Z.of_nat i) (Z.of_nat (length l))); [|lia]. cbn. rewrite Nat2Z.id. reflexivity.
Qed.
(* an index outside the operand is rejected: the twins really check *)
Lemma getc_out (l : list Z) (i : Z) : i < 0 \/ zn (length l) <= i -> getc l i = None.
Proof.
  intros H. unfold getc. destruct (Z.leb_spec 0 i); destruct (Z.ltb_spec i (zn (length l))); cbn; auto; lia.
Qed.
Lemma updc_out (l : list Z) (i x : Z) : i < 0 \/ zn (length l) <= i -> updc l i x = None.
Proof.
  intros H. unfold updc. destruct (Z.leb_spec 0 i); destruct (Z.ltb_spec i (zn (length l))); cbn; auto; lia.
Qed.

(* x - j - 1 computed in Z (true subtraction) is the nat expression of the shared model when it does not underflow *)
Lemma idx_down (x j : nat) : (j < x)%nat -> zn x - zn j - 1 = zn (x - j - 1).
Proof. unfold zn. lia. Qed.

Lemma foldc_seq {S : Type} (P : S -> Prop) (f : S -> nat -> S) (fc : S -> nat -> option S) (cnt : nat) :
  forall lo s0, P s0 ->
  (forall s j, P s -> (lo <= j < lo + cnt)%nat -> fc s j = Some (f s j) /\ P (f s j)) ->
  foldc fc (seq lo cnt) s0 = Some (fold_left f (seq lo cnt) s0) /\ P (fold_left f (seq lo cnt) s0).
Proof.
  induction cnt as [|cnt IH]; intros lo s0 H0 Hstep; cbn [seq foldc fold_left]; auto.
  destruct (Hstep s0 lo H0 ltac:(lia)) as (E & HP). rewrite E.
  apply IH; auto. intros s j Hs Hj. apply Hstep; auto. lia.
Qed.

Lemma seqo_map {A : Type} (f : nat -> A) (fc : nat -> option A) (l : list nat) :
  (forall j, In j l -> fc j = Some (f j)) -> seqo (map fc l) = Some (map f l).
Proof.
  induction l as [|j t IH]; intros H; cbn; auto.
  rewrite (H j (or_introl eq_refl)), IH; auto. intros; apply H; right; assumption.
Qed.

Ltac rew_conv E :=
  match type of E with _ = ?R =>
    match goal with |- bindo ?X _ = _ => let EX := fresh "EX" in assert (EX : X = R) by exact E; rewrite EX; clear EX end
  end.

Section W.
Variable w : Z.

(* ------------------------------------------------------------------------------------------------ *)
(* phases *)

Lemma carry_phase_total (b lsh : Z) (a : list Z) (a_size cnt : nat) :
  (a_size <= length a)%nat -> (cnt <= a_size)%nat ->
  carry_phase_c w b lsh a a_size cnt = Some (carry_phase w b lsh a a_size cnt).
Proof.
  intros Ha Hc. unfold carry_phase_c, carry_phase.
  apply (foldc_seq (fun _ => True)); auto. intros c j _ Hj. split; auto.
  rewrite idx_down by lia. rewrite getc_in by lia. reflexivity.
Qed.

Definition lenP (L : nat) (s : list Z * Z) : Prop := length (fst s) = L.

Lemma mid_phase_total (ov : bool) (b lsh : Z) (a : list Z) (rs as_ cnt : nat) (r : list Z) (c : Z) :
  (rs <= length r)%nat -> (as_ <= length a)%nat -> (cnt <= rs)%nat -> (cnt <= as_)%nat ->
  mid_phase_c w ov b lsh a rs as_ cnt (r, c) = Some (mid_phase w ov b lsh a rs as_ cnt (r, c)) /\
  length (fst (mid_phase w ov b lsh a rs as_ cnt (r, c))) = length r.
Proof.
  intros Hr Ha Hc1 Hc2. unfold mid_phase_c, mid_phase.
  apply (foldc_seq (lenP (length r))); [reflexivity|]. intros [r1 c1] j HP Hj. unfold lenP in *; cbn [fst] in HP.
  rewrite !idx_down by lia. rewrite !getc_in by lia. cbn [bindo].
  destruct (middle_step w ov b lsh (nthZ r1 (rs - j - 1)) (nthZ a (as_ - j - 1)) c1) as [x c'].
  rewrite updc_in by lia. cbn [bindo fst]. rewrite upd_length. auto.
Qed.

Lemma mid_phase_sub_total (b lsh : Z) (a : list Z) (rs as_ cnt : nat) (r : list Z) (c : Z) :
  (rs <= length r)%nat -> (as_ <= length a)%nat -> (cnt <= rs)%nat -> (cnt <= as_)%nat ->
  mid_phase_sub_c w b lsh a rs as_ cnt (r, c) = Some (mid_phase_sub w b lsh a rs as_ cnt (r, c)) /\
  length (fst (mid_phase_sub w b lsh a rs as_ cnt (r, c))) = length r.
Proof.
  intros Hr Ha Hc1 Hc2. unfold mid_phase_sub_c, mid_phase_sub.
  apply (foldc_seq (lenP (length r))); [reflexivity|]. intros [r1 c1] j HP Hj. unfold lenP in *; cbn [fst] in HP.
  rewrite !idx_down by lia. rewrite !getc_in by lia. cbn [bindo].
  destruct (middle_step_sub w b lsh (nthZ r1 (rs - j - 1)) (nthZ a (as_ - j - 1)) c1) as [x c'].
  rewrite updc_in by lia. cbn [bindo fst]. rewrite upd_length. auto.
Qed.

Lemma top_phase_total (zf : bool) (b lsh : Z) (re : nat) (r : list Z) (c : Z) :
  (re <= length r)%nat ->
  top_phase_c w zf b lsh re (r, c) = Some (top_phase w zf b lsh re (r, c)) /\
  length (fst (top_phase w zf b lsh re (r, c))) = length r.
Proof.
  intros Hr. unfold top_phase_c, top_phase.
  apply (foldc_seq (lenP (length r))); [reflexivity|]. intros [r1 c1] j HP Hj. unfold lenP in *; cbn [fst] in HP.
  cbv zeta. rewrite !idx_down by lia. rewrite !getc_in by lia. cbn [bindo].
  destruct (Nat.eqb j (re - 1)).
  - rewrite updc_in by lia. cbn [bindo fst]. rewrite upd_length. auto.
  - destruct (middle_step_assign w b lsh (if zf then 0 else nthZ r1 (re - j - 1)) c1) as [x c'].
    rewrite updc_in by lia. cbn [bindo fst]. rewrite upd_length. auto.
Qed.

Lemma zero_range_total (r : list Z) (lo hi : nat) :
  (hi <= length r)%nat ->
  zero_range_c r lo hi = Some (zero_range r lo hi) /\ length (zero_range r lo hi) = length r.
Proof.
  intros Hh. unfold zero_range_c, zero_range.
  apply (foldc_seq (fun r1 => length r1 = length r)); [reflexivity|]. intros r1 j HP Hj.
  rewrite updc_in by lia. rewrite upd_length. auto.
Qed.

Lemma zeros_length (k : nat) : length (zeros k) = k.
Proof. apply repeat_length. Qed.

(* zero_range over everything = the literal zeros of the shared models *)
Lemma zero_range_all (r : list Z) : zero_range r 0 (length r) = zeros (length r).
Proof.
  unfold zero_range. rewrite Nat.sub_0_r.
  assert (G : forall (l pre : list Z), fold_left (fun r j => upd r j 0) (seq (length pre) (length l)) (pre ++ l) = pre ++ zeros (length l)).
  { induction l as [|h t IH]; intros pre; cbn [length seq fold_left]; auto.
    replace (upd (pre ++ h :: t) (length pre) 0) with ((pre ++ [0]) ++ t).
    - specialize (IH (pre ++ [0])). rewrite app_length in IH; cbn [length] in IH. rewrite Nat.add_1_r in IH. rewrite IH.
      rewrite <- app_assoc. reflexivity.
    - rewrite <- app_assoc. cbn [app]. clear IH. induction pre as [|p q IHq]; cbn; auto. rewrite IHq. reflexivity. }
  apply (G r []).
Qed.

(* ------------------------------------------------------------------------------------------------ *)
(* operations *)

Lemma natc_le (x : Z) (n : nat) : (natc x 0 (zn n) <= n)%nat.
Proof. unfold natc, clampZ, zn. lia. Qed.

Theorem normalize_inter_total (b off : Z) (a r0 : list Z) :
  normalize_inter_c w b off a r0 = Some (normalize_inter w b off a r0).
Proof.
  unfold normalize_inter_c, normalize_inter.
  destruct (split_offset b off) as [lsh lo].
  set (rsz := length r0). set (asz := length a).
  set (res_end := natc (- lo) 0 (zn rsz)). set (res_start := natc (zn asz - lo) 0 (zn rsz)).
  set (a_end := natc lo 0 (zn asz)). set (a_start := natc (zn rsz + lo) 0 (zn asz)).
  pose proof (natc_le (- lo) rsz) as H1. pose proof (natc_le (zn asz - lo) rsz) as H2.
  pose proof (natc_le lo asz) as H3. pose proof (natc_le (zn rsz + lo) asz) as H4.
  fold res_end in H1. fold res_start in H2. fold a_end in H3. fold a_start in H4.
  assert (Hmid : (a_start - a_end <= res_start)%nat).
  { unfold a_start, a_end, res_start, natc, clampZ, zn. lia. }
  rewrite carry_phase_total by (fold asz; lia). cbn [bindo].
  destruct (zero_range_total r0 res_start rsz ltac:(fold rsz; lia)) as (Ez & Lz). rewrite Ez. cbn [bindo].
  destruct (mid_phase_total true b lsh a res_start a_start (a_start - a_end)
              (zero_range r0 res_start rsz) (carry_phase w b lsh a asz (asz - a_start))
              ltac:(rewrite Lz; fold rsz; lia) ltac:(fold asz; lia) Hmid ltac:(lia)) as (Em & Lm).
  rewrite Em. cbn [bindo].
  destruct (mid_phase w true b lsh a res_start a_start (a_start - a_end)
              (zero_range r0 res_start rsz, carry_phase w b lsh a asz (asz - a_start))) as [r2 c2] eqn:E2.
  cbn [fst] in Lm.
  destruct (top_phase_total true b lsh res_end r2
              (if lo <? 0 then gap_phase w b (Z.to_nat (- lo) - rsz) c2 else c2)
              ltac:(rewrite Lm, Lz; fold rsz; lia)) as (Et & _).
  rewrite Et. reflexivity.
Qed.

Theorem normalize_assign_total (b : Z) (r0 : list Z) :
  normalize_assign_c w b r0 = Some (normalize_assign w b r0).
Proof.
  unfold normalize_assign_c, normalize_assign. set (sz := length r0).
  match goal with |- bindo (foldc ?fc ?l ?s0) _ = Some (fst (fold_left ?f ?l ?s0)) =>
    destruct (foldc_seq (lenP sz) f fc sz 0%nat s0) as (E & _) end.
  - reflexivity.
  - intros [r c] k HP Hk. unfold lenP in *; cbn [fst] in HP. cbv zeta.
    rewrite !idx_down by lia. rewrite getc_in by lia. cbn [bindo].
    destruct (Nat.eqb (sz - k - 1) (sz - 1)).
    + destruct (first_step_assign w b 0 (nthZ r (sz - k - 1))) as [x c']. rewrite updc_in by lia. cbn [bindo fst]. rewrite upd_length; auto.
    + destruct (Nat.eqb (sz - k - 1) 0).
      * rewrite updc_in by lia. cbn [bindo fst]. rewrite upd_length; auto.
      * destruct (middle_step_assign w b 0 (nthZ r (sz - k - 1)) c) as [x c']. rewrite updc_in by lia. cbn [bindo fst]. rewrite upd_length; auto.
  - rewrite E. reflexivity.
Qed.

Theorem lsh_assign_total (b k : Z) (r0 : list Z) :
  lsh_assign_c w b k r0 = Some (lsh_assign w b k r0).
Proof.
  unfold lsh_assign_c, lsh_assign. set (sz := length r0). set (steps := Z.to_nat (k / b)).
  destruct (Nat.leb_spec sz steps) as [Hle|Hlt].
  - destruct (zero_range_total r0 0 sz ltac:(fold sz; lia)) as (E & _). rewrite E. unfold sz. rewrite zero_range_all. reflexivity.
  - set (r1 := if Nat.eqb steps 0 then r0 else map (fun j => if Nat.ltb j (sz - steps) then nthZ r0 (j + steps) else 0) (seq 0 sz)).
    assert (E1 : (if Nat.eqb steps 0 then Some r0 else
                  seqo (map (fun j => _ <- getc r0 (zn j) ;; if Nat.ltb j (sz - steps) then getc r0 (zn j + zn steps) else Some 0) (seq 0 sz)))
                 = Some r1 /\ length r1 = sz).
    { unfold r1. destruct (Nat.eqb steps 0); [auto|]. split; [|rewrite map_length, seq_length; reflexivity].
      apply seqo_map. intros j Hj. apply in_seq in Hj. rewrite getc_in by (fold sz; lia). cbn [bindo].
      destruct (Nat.ltb_spec j (sz - steps)); [|reflexivity].
      replace (zn j + zn steps) with (zn (j + steps)) by (unfold zn; lia). rewrite getc_in by (fold sz; lia). reflexivity. }
    destruct E1 as (E1 & L1). rewrite E1. cbn [bindo]. set (m := (sz - steps)%nat).
    match goal with |- bindo (foldc ?fc ?l ?s0) _ = Some (fst (fold_left ?f ?l ?s0)) =>
      destruct (foldc_seq (lenP sz) f fc m 0%nat s0) as (E & _) end.
    + exact L1.
    + intros [r c] t HP Ht. unfold lenP in *; cbn [fst] in HP. cbv zeta.
      assert (m <= sz)%nat by (unfold m; lia).
      rewrite !idx_down by lia. rewrite getc_in by lia. cbn [bindo].
      destruct (Nat.eqb (m - t - 1) (m - 1)).
      * destruct (first_step_assign w b (k mod b) (nthZ r (m - t - 1))) as [x c']. rewrite updc_in by lia. cbn [bindo fst]. rewrite upd_length; auto.
      * destruct (Nat.eqb (m - t - 1) 0).
        -- rewrite updc_in by lia. cbn [bindo fst]. rewrite upd_length; auto.
        -- destruct (middle_step_assign w b (k mod b) (nthZ r (m - t - 1)) c) as [x c']. rewrite updc_in by lia. cbn [bindo fst]. rewrite upd_length; auto.
    + rewrite E. reflexivity.
Qed.

(* the shared loop of lsh / lsh_sub: res limb j and a limb j + steps, j descending from min_size - 1 *)
Lemma lsh_loop_total (g : bool -> Z -> Z -> Z -> Z * Z) (gf : Z -> Z -> Z -> Z) (a r0 : list Z) (steps min_size : nat) (c0 : Z) :
  (min_size <= length r0)%nat -> ((0 < min_size)%nat -> (min_size + steps <= length a)%nat) ->
  foldc (fun (s : list Z * Z) t => let '(r, c) := s in let j := zn min_size - zn t - 1 in
           xr <- getc r j ;; xa <- getc a (j + zn steps) ;;
           if Nat.eqb (min_size - t - 1) 0 then r' <- updc r j (gf xr xa c) ;; Some (r', c)
           else let '(x, c') := g true xr xa c in r' <- updc r j x ;; Some (r', c')) (seq 0 min_size) (r0, c0)
  = Some (fold_left (fun (s : list Z * Z) t => let '(r, c) := s in let j := (min_size - t - 1)%nat in
           if Nat.eqb j 0 then (upd r j (gf (nthZ r j) (nthZ a (j + steps)) c), c)
           else let '(x, c') := g true (nthZ r j) (nthZ a (j + steps)) c in (upd r j x, c')) (seq 0 min_size) (r0, c0))
  /\ length (fst (fold_left (fun (s : list Z * Z) t => let '(r, c) := s in let j := (min_size - t - 1)%nat in
           if Nat.eqb j 0 then (upd r j (gf (nthZ r j) (nthZ a (j + steps)) c), c)
           else let '(x, c') := g true (nthZ r j) (nthZ a (j + steps)) c in (upd r j x, c')) (seq 0 min_size) (r0, c0))) = length r0.
Proof.
  intros Hr Ha.
  apply (foldc_seq (lenP (length r0))); [reflexivity|]. intros [r c] t HP Ht. unfold lenP in *; cbn [fst] in HP. cbv zeta.
  specialize (Ha ltac:(lia)).
  rewrite !idx_down by lia. rewrite getc_in by lia. cbn [bindo].
  replace (zn (min_size - t - 1) + zn steps) with (zn (min_size - t - 1 + steps)) by (unfold zn; lia).
  rewrite getc_in by lia. cbn [bindo].
  destruct (Nat.eqb (min_size - t - 1) 0).
  - rewrite updc_in by lia. cbn [bindo fst]. rewrite upd_length; auto.
  - destruct (g true (nthZ r (min_size - t - 1)) (nthZ a (min_size - t - 1 + steps)) c) as [x c'].
    rewrite updc_in by lia. cbn [bindo fst]. rewrite upd_length; auto.
Qed.

Theorem lsh_total (ov : bool) (b k : Z) (a r0 : list Z) :
  lsh_c w ov b k a r0 = Some (lsh w ov b k a r0).
Proof.
  unfold lsh_c, lsh. set (rsz := length r0). set (asz := length a). set (steps := Z.to_nat (k / b)).
  destruct (Nat.leb_spec (Nat.max rsz asz) steps) as [Hle|Hlt].
  - destruct ov; [|reflexivity].
    destruct (zero_range_total r0 0 rsz ltac:(fold rsz; lia)) as (E & _). rewrite E. unfold rsz. rewrite zero_range_all. reflexivity.
  - set (min_size := Nat.min rsz (asz - steps)). set (cstart := Nat.min (steps + min_size) asz).
    unfold carry_down_c, carry_down. rewrite carry_phase_total by (fold asz; lia). cbn [bindo].
    destruct (lsh_loop_total (fun _ => middle_step w ov b (k mod b)) (final_step w ov b (k mod b)) a r0 steps min_size
                (carry_phase w b (k mod b) a asz (asz - cstart))
                ltac:(fold rsz; unfold min_size; lia) ltac:(fold asz; unfold min_size; lia)) as (E & L).
    rew_conv E. cbn [bindo].
    destruct (fold_left _ (seq 0 min_size) (r0, carry_phase w b (k mod b) a asz (asz - cstart))) as [r c] eqn:EF.
    cbn [fst] in *. destruct ov; [|reflexivity].
    destruct (zero_range_total r min_size rsz ltac:(rewrite L; fold rsz; lia)) as (Ez & _). exact Ez.
Qed.

Theorem lsh_sub_total (b k : Z) (a r0 : list Z) :
  lsh_sub_c w b k a r0 = Some (lsh_sub w b k a r0).
Proof.
  unfold lsh_sub_c, lsh_sub. set (rsz := length r0). set (asz := length a). set (steps := Z.to_nat (k / b)).
  destruct (Nat.leb_spec (Nat.max rsz asz) steps) as [Hle|Hlt]; [reflexivity|].
  set (min_size := Nat.min rsz (asz - steps)). set (cstart := Nat.min (steps + min_size) asz).
  unfold carry_down_c, carry_down. rewrite carry_phase_total by (fold asz; lia). cbn [bindo].
  destruct (lsh_loop_total (fun _ => middle_step_sub w b (k mod b)) (final_step_sub w b (k mod b)) a r0 steps min_size
              (carry_phase w b (k mod b) a asz (asz - cstart))
              ltac:(fold rsz; unfold min_size; lia) ltac:(fold asz; unfold min_size; lia)) as (E & L).
  rew_conv E. reflexivity.
Qed.

Theorem rsh_assign_total (b k : Z) (r0 : list Z) :
  rsh_assign_c w b k r0 = Some (rsh_assign w b k r0).
Proof.
  unfold rsh_assign_c, rsh_assign. set (sz := length r0).
  destruct (rsh_params b k) as [steps lsh]. set (res_end := Nat.min steps sz).
  rewrite carry_phase_total by (fold sz; unfold res_end; lia). cbn [bindo].
  match goal with |- bindo (foldc ?fc ?l ?s0) _ = _ =>
    match goal with |- context [fold_left ?f l s0] =>
      destruct (foldc_seq (lenP sz) f fc (sz - res_end) 0%nat s0) as (E & L) end end.
  - reflexivity.
  - intros [r c] j HP Hj. unfold lenP in *; cbn [fst] in HP.
    replace (zn sz - zn res_end - zn j - 1) with (zn (sz - res_end - j - 1)) by (unfold zn; lia).
    rewrite idx_down by lia. rewrite getc_in by lia. cbn [bindo].
    destruct (middle_step_assign w b lsh (nthZ r (sz - res_end - j - 1)) c) as [x c'].
    rewrite updc_in by lia. cbn [bindo fst]. rewrite upd_length; auto.
  - rewrite E. cbn [bindo].
    destruct (fold_left _ (seq 0 (sz - res_end)) (r0, carry_phase w b lsh r0 sz res_end)) as [r1 c1] eqn:EF.
    unfold lenP in L; cbn [fst] in L.
    destruct (zero_range_total r1 0 res_end ltac:(rewrite L; unfold res_end; lia)) as (Ez & Lz). rewrite Ez. cbn [bindo].
    destruct (top_phase_total false b lsh res_end (zero_range r1 0 res_end) (gap_phase w b (steps - res_end) c1)
                ltac:(rewrite Lz, L; unfold res_end; lia)) as (Et & _).
    rewrite Et. reflexivity.
Qed.

Theorem rsh_total (ov : bool) (b k : Z) (a r0 : list Z) :
  rsh_c w ov b k a r0 = Some (rsh w ov b k a r0).
Proof.
  unfold rsh_c, rsh. set (rsz := length r0). set (asz := length a).
  destruct (rsh_params b k) as [steps lsh].
  set (res_end := Nat.min rsz steps). set (res_start := Nat.min rsz (asz + steps)). set (a_start := Nat.min asz (rsz - steps)).
  rewrite carry_phase_total by (fold asz; lia). cbn [bindo].
  set (r1 := if ov then zeros rsz else r0).
  assert (E1 : (if ov then zero_range_c r0 0 rsz else Some r0) = Some r1 /\ length r1 = rsz).
  { unfold r1. destruct ov; [|auto].
    destruct (zero_range_total r0 0 rsz ltac:(fold rsz; lia)) as (E & L). rewrite E. unfold rsz. rewrite zero_range_all.
    split; [reflexivity | apply zeros_length]. }
  destruct E1 as (E1 & L1). rewrite E1. cbn [bindo].
  destruct (mid_phase_total ov b lsh a res_start a_start (res_start - res_end) r1 (carry_phase w b lsh a asz (asz - a_start))
              ltac:(rewrite L1; unfold res_start; lia) ltac:(fold asz; unfold a_start; lia) ltac:(lia)
              ltac:(unfold res_start, res_end, a_start; lia)) as (Em & Lm).
  rewrite Em. cbn [bindo].
  destruct (mid_phase w ov b lsh a res_start a_start (res_start - res_end) (r1, carry_phase w b lsh a asz (asz - a_start))) as [r2 c2] eqn:E2.
  cbn [fst] in Lm.
  destruct (top_phase_total false b (if ov then lsh else 0) res_end r2 (gap_phase w b (steps - res_end) c2)
              ltac:(rewrite Lm, L1; unfold res_end; lia)) as (Et & _).
  rewrite Et. reflexivity.
Qed.

Theorem rsh_sub_total (b k : Z) (a r0 : list Z) :
  rsh_sub_c w b k a r0 = Some (rsh_sub w b k a r0).
Proof.
  unfold rsh_sub_c, rsh_sub. set (rsz := length r0). set (asz := length a).
  destruct (rsh_params b k) as [steps lsh].
  set (res_end := Nat.min rsz steps). set (res_start := Nat.min rsz (asz + steps)). set (a_start := Nat.min asz (rsz - steps)).
  rewrite carry_phase_total by (fold asz; lia). cbn [bindo].
  destruct (mid_phase_sub_total b lsh a res_start a_start (res_start - res_end) r0 (carry_phase w b lsh a asz (asz - a_start))
              ltac:(fold rsz; unfold res_start; lia) ltac:(fold asz; unfold a_start; lia) ltac:(lia)
              ltac:(unfold res_start, res_end, a_start; lia)) as (Em & Lm).
  rewrite Em. cbn [bindo].
  destruct (mid_phase_sub w b lsh a res_start a_start (res_start - res_end) (r0, carry_phase w b lsh a asz (asz - a_start))) as [r c] eqn:E2.
  cbn [fst] in Lm.
  destruct (top_phase_total false b 0 res_end r (gap_phase w b (steps - res_end) (wneg w c))
              ltac:(rewrite Lm; fold rsz; unfold res_end; lia)) as (Et & _).
  rewrite Et. reflexivity.
Qed.

(* ------------------------------------------------------------------------------------------------ *)
(* vector level *)

Lemma lnthc_in (l : limbs) (j : nat) : (j < length l)%nat -> lnthc l j = Some (lnth l j).
Proof. intros H. unfold lnthc, lnth. apply nth_error_nth'. exact H. Qed.
Lemma lnthc_out (l : limbs) (j : nat) : (length l <= j)%nat -> lnthc l j = None.
Proof. intros H. unfold lnthc. apply nth_error_None. exact H. Qed.

Lemma build_total (rsz : nat) (f : nat -> list Z) (fc : nat -> option (list Z)) :
  (forall j, (j < rsz)%nat -> fc j = Some (f j)) -> build_c rsz fc = Some (build rsz f).
Proof. intros H. unfold build_c, build. apply seqo_map. intros j Hj. apply in_seq in Hj. apply H. lia. Qed.

Theorem vec_add_total (n : nat) (a b r0 : limbs) : vec_add_c w n a b r0 = Some (vec_add w n a b r0).
Proof.
  unfold vec_add_c, vec_add. apply build_total. intros j Hj.
  destruct (Nat.ltb_spec j (Nat.min (length a) (length b))).
  - rewrite !lnthc_in by lia. reflexivity.
  - destruct (Nat.ltb_spec j (Nat.max (length a) (length b))); [|reflexivity].
    destruct (Nat.leb_spec (length a) (length b)); rewrite lnthc_in by lia; reflexivity.
Qed.
Theorem vec_sub_total (n : nat) (a b r0 : limbs) : vec_sub_c w n a b r0 = Some (vec_sub w n a b r0).
Proof.
  unfold vec_sub_c, vec_sub. apply build_total. intros j Hj.
  destruct (Nat.ltb_spec j (Nat.min (length a) (length b))).
  - rewrite !lnthc_in by lia. reflexivity.
  - destruct (Nat.ltb_spec j (Nat.max (length a) (length b))); [|reflexivity].
    destruct (Nat.leb_spec (length a) (length b)); rewrite lnthc_in by lia; reflexivity.
Qed.
Theorem vec_add_assign_total (a r0 : limbs) : vec_add_assign_c w a r0 = Some (vec_add_assign w a r0).
Proof.
  unfold vec_add_assign_c, vec_add_assign. apply build_total. intros j Hj. rewrite lnthc_in by lia. cbn [bindo].
  destruct (Nat.ltb_spec j (length a)); [rewrite lnthc_in by lia|]; reflexivity.
Qed.
Theorem vec_sub_assign_total (a r0 : limbs) : vec_sub_assign_c w a r0 = Some (vec_sub_assign w a r0).
Proof.
  unfold vec_sub_assign_c, vec_sub_assign. apply build_total. intros j Hj. rewrite lnthc_in by lia. cbn [bindo].
  destruct (Nat.ltb_spec j (length a)); [rewrite lnthc_in by lia|]; reflexivity.
Qed.
Theorem vec_sub_negate_assign_total (a r0 : limbs) : vec_sub_negate_assign_c w a r0 = Some (vec_sub_negate_assign w a r0).
Proof.
  unfold vec_sub_negate_assign_c, vec_sub_negate_assign. apply build_total. intros j Hj. rewrite lnthc_in by lia. cbn [bindo].
  destruct (Nat.ltb_spec j (length a)); [rewrite lnthc_in by lia|]; reflexivity.
Qed.
(* copy / negate / rotate / mul_xp_minus_one: vec_unary with the respective limb kernel *)
Theorem vec_unary_total (n : nat) (f : list Z -> list Z) (a r0 : limbs) : vec_unary_c n f a r0 = Some (vec_unary n f a r0).
Proof.
  unfold vec_unary_c, vec_unary. apply build_total. intros j Hj.
  destruct (Nat.ltb_spec j (length a)); [rewrite lnthc_in by lia|]; reflexivity.
Qed.
Theorem vec_automorphism_total (n : nat) (p : Z) (a r0 : limbs) : vec_automorphism_c w n p a r0 = Some (vec_automorphism w n p a r0).
Proof.
  unfold vec_automorphism_c, vec_automorphism. apply build_total. intros j Hj.
  destruct (Nat.ltb_spec j (length a)); [rewrite !lnthc_in by lia|]; reflexivity.
Qed.
Theorem vec_switch_ring_total (n_out : nat) (a r0 : limbs) : vec_switch_ring_c n_out a r0 = Some (vec_switch_ring n_out a r0).
Proof.
  unfold vec_switch_ring_c, vec_switch_ring. apply build_total. intros j Hj.
  destruct (Nat.ltb_spec j (length a)); [rewrite !lnthc_in by lia|]; reflexivity.
Qed.

End W.

(* mutation (a) of the self-test: vec_znx_copy looping to a.size() instead of min(res.size(), a.size()) *)
Definition vec_copy_bad_c (a r0 : limbs) : option limbs :=
  foldc (fun (r : limbs) j => x <- lnthc a j ;; if Nat.ltb j (length r) then Some (firstn j r ++ x :: skipn (S j) r) else None)
        (seq 0 (length a)) r0.
Lemma vec_copy_bad_refuted : exists a r0, vec_copy_bad_c a r0 = None.
Proof. exists [[1]; [2]], [[0]]. reflexivity. Qed.

(* ------------------------------------------------------------------------------------------------ *)
(* coefficient level *)

(* znx_switch_ring down-sampling: every source index t * gap is inside a *)
Lemma switch_down_in_bounds (n_in n_out t : nat) :
  (0 < n_out)%nat -> (n_out <= n_in)%nat -> (t < n_out)%nat -> (switch_down_ix n_in n_out t < n_in)%nat.
Proof.
  intros H0 Hle Ht. unfold switch_down_ix.
  pose proof (Nat.div_mod n_in n_out ltac:(lia)) as Hd.
  pose proof (Nat.mod_upper_bound n_in n_out ltac:(lia)) as Hm.
  assert (1 <= n_in / n_out)%nat by (apply Nat.div_le_lower_bound; lia).
  nia.
Qed.
(* up-sampling: every destination index t * gap is inside res *)
Lemma switch_up_in_bounds (n_in n_out t : nat) :
  (0 < n_in)%nat -> (n_in <= n_out)%nat -> (t < n_in)%nat -> (switch_up_ix n_in n_out t < n_out)%nat.
Proof.
  intros H0 Hle Ht. unfold switch_up_ix.
  pose proof (Nat.div_mod n_out n_in ltac:(lia)) as Hd.
  pose proof (Nat.mod_upper_bound n_out n_in ltac:(lia)) as Hm.
  assert (1 <= n_out / n_in)%nat by (apply Nat.div_le_lower_bound; lia).
  nia.
Qed.
(* the AVX path moves groups of 4 coefficients of the smaller ring: with fewer than 4 it would touch words
   3 * gap beyond the last valid one (the defect repaired in d907bdb) *)
Lemma switch_down_group_refuted : exists n_in n_out, (n_out < 4)%nat /\ (n_in <= switch_down_ix n_in n_out 3)%nat.
Proof. exists 8%nat, 2%nat. unfold switch_down_ix. cbn. lia. Qed.

Lemma auto_ix_in_bounds (n p i : Z) : 0 < n -> 0 <= auto_ix n p i < n.
Proof. intros Hn. unfold auto_ix. apply Z.mod_pos_bound. exact Hn. Qed.

(* SIMD skeleton: the vector loop touches words [0, 4*(len/4)), the scalar tail [4*(len/4), len): together exactly
   [0, len), without overlap, for every len (also len < 4 and len not a multiple of 4) *)
Lemma simd_partition (len : Z) : 0 <= len -> 0 <= simd_main_last len <= len /\ len - simd_main_last len < 4.
Proof. intros H. unfold simd_main_last. lia. Qed.
(* mutation (b) of the self-test: a tail that starts at 4*span - 4 re-processes one vector group; for len < 4 it
   starts before the buffer *)
Lemma simd_tail_bad_refuted : exists len, 0 <= len /\ simd_main_last len - 4 < 0.
Proof. exists 3. unfold simd_main_last. lia. Qed.

(* ------------------------------------------------------------------------------------------------ *)
(* flat level: the word ranges limb_at / write_limb use are inside the buffer *)

Lemma shape_ok_facts (s : shape) (data : list Z) :
  shape_ok s data = true -> (s_col s < s_cols s)%nat /\ (s_size s <= s_max s)%nat /\ length data = (s_n s * s_cols s * s_max s)%nat.
Proof.
  unfold shape_ok. rewrite !andb_true_iff, Nat.ltb_lt, Nat.leb_le, Nat.eqb_eq. tauto.
Qed.

Lemma flat_limb_in_bounds (s : shape) (data : list Z) (j : nat) :
  shape_ok s data = true -> (j < s_max s)%nat -> (flat_off s j + s_n s <= length data)%nat.
Proof.
  intros H Hj. apply shape_ok_facts in H. destruct H as (Hc & Hs & Hl). rewrite Hl. unfold flat_off.
  assert (j * s_cols s + s_col s + 1 <= s_max s * s_cols s)%nat by nia. nia.
Qed.

(* hence limb_at returns exactly n words (no truncation at the end of the buffer) for every active limb *)
Lemma flat_limb_at_full (s : shape) (data : list Z) (j : nat) :
  shape_ok s data = true -> (j < s_size s)%nat -> length (limb_at (s_n s) (s_cols s) data (s_col s) j) = s_n s.
Proof.
  intros H Hj. pose proof (shape_ok_facts s data H) as (Hc & Hs & Hl).
  pose proof (flat_limb_in_bounds s data j H ltac:(lia)) as Hb. unfold flat_off in Hb.
  unfold limb_at. rewrite firstn_length, skipn_length. lia.
Qed.

Lemma col_limbs_full (s : shape) (data : list Z) :
  shape_ok s data = true ->
  length (col_limbs (s_n s) (s_cols s) (s_size s) data (s_col s)) = s_size s /\
  Forall (fun l => length l = s_n s) (col_limbs (s_n s) (s_cols s) (s_size s) data (s_col s)).
Proof.
  intros H. unfold col_limbs. split; [rewrite map_length, seq_length; reflexivity|].
  apply Forall_forall. intros l Hl. apply in_map_iff in Hl. destruct Hl as (j & <- & Hj). apply in_seq in Hj.
  apply flat_limb_at_full; [exact H | lia].
Qed.

(* write_limb keeps the buffer length when the limb lies inside: a write never extends (or spills past) the buffer *)
Lemma write_limb_length (s : shape) (data : list Z) (j : nat) (l : list Z) :
  (flat_off s j + s_n s <= length data)%nat ->
  length (write_limb (s_n s) (s_cols s) data (s_col s) j l) = length data.
Proof.
  intros Hb. unfold write_limb, write_at, flat_off in *.
  assert (length (firstn (s_n s) (l ++ zeros (s_n s))) = s_n s) as Hl.
  { rewrite firstn_length, app_length. unfold zeros. rewrite repeat_length. lia. }
  rewrite !app_length, firstn_length, skipn_length, Hl. lia.
Qed.
