(* C10 / ring operations: znx_automorphism_avx (Hensel inverse of p mod 2n in wrapping usize arithmetic, per-lane
   index t = j * p^-1 mod 2n, gather, conditional negation by (v xor s) - s) and znx_switch_ring_avx (gathered
   downsampling, strided upsampling, scalar fall-back below 4 coefficients) equal the reference kernels of Model/Ring.v. *)
From Coq Require Import Znumtheory.
From PV Require Import Base.MachineInt Model.Znx Model.Limbs Model.Ring Model.Poly Model.C10AvxLanes
  Proofs.C10Avx Proofs.C10Simd Proofs.C09Lists Proofs.C09Sigma.
Open Scope Z_scope.

(* ---------- Hensel lifting of the inverse modulo 2^bits in wrapping u64 arithmetic ---------- *)
Lemma pow2_divide (a b : Z) : 0 <= a <= b -> (2 ^ a | 2 ^ b).
Proof. intros H. exists (2 ^ (b - a)). rewrite <- Z.pow_add_r by lia. f_equal; lia. Qed.

Lemma wrapu_hensel (p x : Z) :
  wrapu 64 (x * wrapu 64 (2 - wrapu 64 (p * x))) = (x * (2 - p * x)) mod 2 ^ 64.
Proof.
  unfold wrapu. rewrite Zminus_mod_idemp_r. rewrite Zmult_mod_idemp_r. reflexivity.
Qed.

Lemma hensel_step (p x j : Z) : 0 <= j <= 64 -> (2 ^ j | p * x - 1) ->
  (2 ^ Z.min (2 * j) 64 | p * wrapu 64 (x * wrapu 64 (2 - wrapu 64 (p * x))) - 1).
Proof.
  intros Hj [c Hc]. rewrite wrapu_hensel.
  pose proof (Z.div_mod (x * (2 - p * x)) (2 ^ 64) ltac:(lia)) as Hd.
  set (k := (x * (2 - p * x)) / 2 ^ 64) in *. set (x' := (x * (2 - p * x)) mod 2 ^ 64) in *.
  replace (p * x' - 1) with (- (c * c) * 2 ^ (2 * j) + (- p * k) * 2 ^ 64).
  - apply Z.divide_add_r; apply Z.divide_mul_r; apply pow2_divide; lia.
  - replace (2 ^ (2 * j)) with (2 ^ j * 2 ^ j) by (rewrite <- Z.pow_add_r by lia; f_equal; lia).
    assert (Hx' : x' = x * (2 - p * x) - 2 ^ 64 * k) by lia.
    rewrite Hx'. 
    assert (Hpx : p * x = c * 2 ^ j + 1) by lia.
    replace (p * (x * (2 - p * x) - 2 ^ 64 * k) - 1) with ((p * x) * (2 - p * x) - 1 - p * k * 2 ^ 64) by ring.
    rewrite Hpx. ring.
Qed.

Lemma inv_loop_correct (p bits : Z) : 0 <= bits <= 64 ->
  forall (fuel : nat) (i x : Z), 1 <= i -> (2 ^ Z.min i 64 | p * x - 1) ->
  bits <= i * 2 ^ Z.of_nat fuel ->
  (2 ^ bits | p * inv_mod_pow2_loop fuel p bits i x - 1).
Proof.
  intros Hb. induction fuel as [|f IH]; intros i x Hi Hinv Hfuel.
  - cbn [inv_mod_pow2_loop]. cbn in Hfuel.
    apply Z.divide_trans with (2 ^ Z.min i 64); [apply pow2_divide; lia|exact Hinv].
  - cbn [inv_mod_pow2_loop]. destruct (Z.ltb_spec i bits) as [Hlt|Hge].
    + assert (Hw : wrapu 32 (i * 2) = 2 * i) by (unfold wrapu; rewrite Z.mod_small; lia).
      rewrite Hw. apply IH.
      * lia.
      * replace (Z.min i 64) with i in Hinv by lia. apply hensel_step; [lia|exact Hinv].
      * rewrite Nat2Z.inj_succ, Z.pow_succ_r in Hfuel by lia. lia.
    + apply Z.divide_trans with (2 ^ Z.min i 64); [apply pow2_divide; lia|exact Hinv].
Qed.

Lemma inv_mod_pow2_correct (p bits : Z) : Z.odd p = true -> 1 <= bits <= 63 ->
  0 <= inv_mod_pow2 p bits < 2 ^ bits /\ (inv_mod_pow2 p bits * p) mod 2 ^ bits = 1.
Proof.
  intros Ho Hb. unfold inv_mod_pow2.
  pose proof (pow2_pos bits ltac:(lia)) as Hp. pose proof (pow2_lt bits 64 ltac:(lia)) as Hlt.
  assert (Hmask : wrapu 64 (wrapu 64 (1 * 2 ^ bits) - 1) = 2 ^ bits - 1).
  { unfold wrapu. rewrite Z.mul_1_l. rewrite (Z.mod_small (2 ^ bits)) by lia. apply Z.mod_small; lia. }
  rewrite Hmask, land_mask_mod by lia.
  set (L := inv_mod_pow2_loop 32 p bits 1 1).
  assert (HL : (2 ^ bits | p * L - 1)).
  { unfold L. apply inv_loop_correct.
    - lia.
    - lia.
    - replace (Z.min 1 64) with 1 by lia. rewrite Z.mul_1_r.
      apply Zodd_bool_iff in Ho. apply Zodd_ex_iff in Ho. destruct Ho as [k Hk]. exists k. lia.
    - assert (2 ^ 6 <= 2 ^ Z.of_nat 32) by (apply pow2_le; lia). lia. }
  split; [apply Z.mod_pos_bound; lia|].
  destruct HL as [c Hc].
  rewrite Z.mul_mod_idemp_l by lia.
  replace (L * p) with (1 + c * 2 ^ bits) by lia.
  rewrite Z.mod_add by lia. apply Z.mod_small.
  assert (2 ^ 1 <= 2 ^ bits) by (apply pow2_le; lia). lia.
Qed.

(* ---------- conditional negation (v xor s) - s with s = 0 / all-ones ---------- *)
Lemma lxor_ones64 (u : Z) : 0 <= u < 2 ^ 64 -> Z.lxor u (2 ^ 64 - 1) = 2 ^ 64 - 1 - u.
Proof.
  intros Hu.
  assert (Hd : Z.land (Z.lxor u (2 ^ 64 - 1)) u = 0).
  { apply Z.bits_inj'. intros n Hn. rewrite Z.land_spec, Z.lxor_spec, Z.bits_0.
    destruct (Z_lt_le_dec n 64) as [Hlt|Hge].
    - replace (2 ^ 64 - 1) with (Z.ones 64) by (rewrite Z.ones_equiv; lia).
      rewrite Z.ones_spec_low by lia. destruct (Z.testbit u n); reflexivity.
    - rewrite (testbit_small_high u 64 n) by lia. apply andb_false_r. }
  pose proof (Z.add_nocarry_lxor _ _ Hd) as Ha.
  rewrite (Z.lxor_comm u (2 ^ 64 - 1)) in Ha at 2.
  rewrite Z.lxor_assoc, Z.lxor_nilpotent, Z.lxor_0_r in Ha. lia.
Qed.

Lemma sub_m1 (a : Z) : a - -1 = a + 1.
Proof. lia. Qed.

Lemma cond_negate (v : Z) (neg : bool) : in_range 64 v ->
  mm_sub (mm_xor v (if neg then -1 else 0)) (if neg then -1 else 0) = if neg then wneg 64 v else v.
Proof.
  intros Hv. unfold mm_xor, mm_sub. destruct neg.
  - rewrite (to_u_neg (-1)) by lia. replace (-1 + 2 ^ 64) with (2 ^ 64 - 1) by lia.
    rewrite lxor_ones64 by apply to_u_range.
    unfold of_u. rewrite sub_m1. rewrite wrap_wrap_add_l by lia. unfold wneg. apply wrap_eq_mod; [lia|].
    unfold to_u, wrapu.
    replace (2 ^ 64 - 1 - v mod 2 ^ 64 + 1) with (1 * 2 ^ 64 - v mod 2 ^ 64) by lia.
    rewrite Zminus_mod_idemp_r. replace (1 * 2 ^ 64 - v) with (- v + 1 * 2 ^ 64) by lia.
    apply Z.mod_add; lia.
  - rewrite (to_u_small 0) by lia. rewrite Z.lxor_0_r, Z.sub_0_r.
    rewrite of_u_to_u. rewrite wrap_wrap by lia. apply wrap_id; [lia|exact Hv].
Qed.

(* ---------- one lane ---------- *)
Definition auto_spec (n inv : Z) (a : list Z) (j : Z) : Z :=
  let t := (j * inv) mod (2 * n) in
  if n <=? t then wneg 64 (nthZ a (Z.to_nat (t mod n))) else nthZ a (Z.to_nat (t mod n)).

Lemma land_mask_pow (m x : Z) : 0 <= m -> 0 <= x < 2 ^ 64 -> Z.land (wrapu 64 x) (2 ^ m - 1) = x mod 2 ^ m.
Proof. intros Hm Hx. unfold wrapu. rewrite Z.mod_small by lia. apply land_mask_mod; lia. Qed.

Lemma nthZ_in_range (a : list Z) (i : nat) : Forall (in_range 64) a -> in_range 64 (nthZ a i).
Proof.
  intros Ha. destruct (Nat.lt_ge_cases i (length a)) as [Hl|Hl].
  - apply Forall_nthZ; assumption.
  - rewrite nthZ_overflow by lia. unfold in_range; simpl Z.sub; lia.
Qed.

Lemma automorphism_lane_eq (m tb off : Z) (a : list Z) : 2 <= m <= 60 ->
  Forall (in_range 64) a -> 0 <= tb < 2 * 2 ^ m -> 0 <= off < 2 * 2 ^ m ->
  automorphism_lane_avx (2 ^ m) tb off a =
  let t := (tb + off) mod (2 * 2 ^ m) in
  if 2 ^ m <=? t then wneg 64 (nthZ a (Z.to_nat (t mod 2 ^ m))) else nthZ a (Z.to_nat (t mod 2 ^ m)).
Proof.
  intros Hm Ha Htb Hoff. unfold automorphism_lane_avx. cbv beta iota zeta delta [mm_set1 mm_i64gather].
  pose proof (pow2_pos m ltac:(lia)) as Hp. pose proof (pow2_le m 60 ltac:(lia)) as Hle.
  assert (H2n : 2 * 2 ^ m = 2 ^ (m + 1)) by (rewrite Z.pow_add_r by lia; lia).
  rewrite H2n in *.
  unfold mm_add. rewrite wrap_id by (try apply in_range_64; lia).
  rewrite (mm_and_mask (m + 1)) by lia.
  set (t := (tb + off) mod 2 ^ (m + 1)).
  assert (Ht : 0 <= t < 2 ^ (m + 1)) by (unfold t; apply Z.mod_pos_bound; lia).
  rewrite (mm_and_mask m) by lia.
  unfold mm_cmpgt.
  replace (2 ^ m - 1 <? t) with (2 ^ m <=? t)
    by (destruct (Z.leb_spec (2 ^ m) t), (Z.ltb_spec (2 ^ m - 1) t); lia || reflexivity).
  rewrite (cond_negate _ (2 ^ m <=? t)) by (apply nthZ_in_range; exact Ha).
  reflexivity.
Qed.

Lemma add_mod_mod (a b M : Z) : 0 < M -> (a mod M + b mod M) mod M = (a + b) mod M.
Proof. intros; symmetry; apply Zplus_mod. Qed.

(* ---------- the main loop writes auto_spec at every position ---------- *)
Lemma automorphism_loop_eq (m inv : Z) (a : list Z) : 2 <= m <= 60 ->
  Forall (in_range 64) a -> 0 <= inv < 2 * 2 ^ m ->
  forall (span c0 : nat),
  automorphism_loop_avx span (2 ^ m) inv ((inv * 2 ^ 2) mod (2 * 2 ^ m))
     ((Z.of_nat (4 * c0) * inv) mod (2 * 2 ^ m)) a
  = map (fun j => auto_spec (2 ^ m) inv a (Z.of_nat j)) (seq (4 * c0) (4 * span)).
Proof.
  intros Hm Ha Hinv.
  pose proof (pow2_pos m ltac:(lia)) as Hp. pose proof (pow2_le m 60 ltac:(lia)) as Hle.
  assert (H2n : 2 * 2 ^ m = 2 ^ (m + 1)) by (rewrite Z.pow_add_r by lia; lia).
  set (M := 2 * 2 ^ m) in *.
  assert (HM : 0 < M < 2 ^ 62) by (unfold M; lia).
  induction span as [|s IH]; intros c0.
  - reflexivity.
  - replace (4 * S s)%nat with (S (S (S (S (4 * s))))) by lia.
    cbn [automorphism_loop_avx seq map].
    set (tb := (Z.of_nat (4 * c0) * inv) mod M).
    assert (Htb : 0 <= tb < M) by (unfold tb; apply Z.mod_pos_bound; lia).
    assert (Hmask : 2 * 2 ^ m - 1 = 2 ^ (m + 1) - 1) by (fold M; lia).
    rewrite Hmask. rewrite !land_mask_pow by lia. rewrite <- !H2n. fold M.
    assert (Hlane : forall l off, 0 <= l -> off = (l * inv) mod M ->
              automorphism_lane_avx (2 ^ m) tb off a = auto_spec (2 ^ m) inv a (Z.of_nat (4 * c0) + l)).
    { intros l off Hl ->. rewrite automorphism_lane_eq; try assumption.
      - cbv zeta. fold M. unfold auto_spec. cbv zeta. fold M. unfold tb.
        rewrite add_mod_mod by lia.
        replace (Z.of_nat (4 * c0) * inv + l * inv) with ((Z.of_nat (4 * c0) + l) * inv) by ring.
        reflexivity.
      - fold M. apply Z.mod_pos_bound; lia. }
    rewrite (Hlane 0 0) by (try reflexivity; lia).
    rewrite (Hlane 1 inv) by (try lia; rewrite Z.mul_1_l, Z.mod_small by lia; reflexivity).
    rewrite (Hlane 2 ((inv * 2) mod M)) by (try lia; f_equal; ring).
    rewrite (Hlane 3 ((inv * 3) mod M)) by (try lia; f_equal; ring).
    replace ((tb + (inv * 2 ^ 2) mod M) mod M) with ((Z.of_nat (4 * S c0) * inv) mod M).
    + rewrite IH. 
      replace (S (S (S (S (4 * c0))))) with (4 * S c0)%nat by lia.
      repeat f_equal; lia.
    + unfold tb. rewrite add_mod_mod by lia. f_equal. 
      replace (4 * S c0)%nat with (4 * c0 + 4)%nat by lia. rewrite Nat2Z.inj_add. 
      change (2 ^ 2) with 4. change (Z.of_nat 4) with 4. ring.
Qed.

(* ---------- auto_spec is the Galois map sigma_g when inv * g = 1 mod 2n ---------- *)
Lemma modn_case (n t : Z) : 0 < n -> 0 <= t < 2 * n ->
  (n <= t /\ t mod n = t - n) \/ (t < n /\ t mod n = t).
Proof.
  intros Hn Ht. destruct (Z_le_gt_dec n t) as [Hge|Hlt]; [left|right]; (split; [lia|]).
  - symmetry. apply Z.mod_unique with (q := 1); lia.
  - apply Z.mod_small; lia.
Qed.

Lemma sub_mod_2n (n j : Z) : 0 <= j < n -> (j - n) mod (2 * n) = j + n.
Proof. intros Hj. symmetry. apply Z.mod_unique with (q := -1); lia. Qed.

Lemma odd_times_n (n g : Z) : 0 < n -> Z.odd g = true -> (n * g) mod (2 * n) = n.
Proof.
  intros Hn Ho. apply Zodd_bool_iff in Ho. apply Zodd_ex_iff in Ho. destruct Ho as [k Hk].
  replace (n * g) with (n + k * (2 * n)) by (rewrite Hk; ring).
  rewrite Z.mod_add by lia. apply Z.mod_small; lia.
Qed.

Lemma auto_spec_sigma (m g inv : Z) (a : list Z) (j : nat) :
  0 <= m -> Z.of_nat (length a) = 2 ^ m -> Z.odd g = true ->
  (inv * g) mod (2 * 2 ^ m) = 1 -> (j < length a)%nat ->
  auto_spec (2 ^ m) inv a (Z.of_nat j) = nthZ (sigma 64 g a) j.
Proof.
  intros Hm Hn Ho Hinv Hj.
  pose proof (pow2_pos m ltac:(lia)) as Hp.
  assert (Hgcd : Z.gcd g (Z.of_nat (length a)) = 1).
  { rewrite Hn. apply gcd2n_gcdn. apply odd_pow2_coprime; assumption. }
  set (n := 2 ^ m) in *. clearbody n.
  assert (HjM : 0 <= Z.of_nat j < n) by lia.
  unfold auto_spec. cbv zeta.
  set (t := (Z.of_nat j * inv) mod (2 * n)).
  assert (Ht : 0 <= t < 2 * n) by (unfold t; apply Z.mod_pos_bound; lia).
  (* t * g = j (mod 2n) *)
  assert (Htg : (t * g) mod (2 * n) = Z.of_nat j).
  { unfold t. rewrite Z.mul_mod_idemp_l by lia.
    replace (Z.of_nat j * inv * g) with (Z.of_nat j * (inv * g)) by ring.
    rewrite <- Z.mul_mod_idemp_r by lia. rewrite Hinv, Z.mul_1_r. apply Z.mod_small; lia. }
  clearbody t. clear Hinv.
  pose proof (odd_times_n n g Hp Ho) as Hng.
  set (i := Z.to_nat (t mod n)).
  assert (Htn : 0 <= t mod n < n) by (apply Z.mod_pos_bound; lia).
  assert (Hiz : Z.of_nat i = t mod n) by (unfold i; apply Z2Nat.id; apply Htn).
  assert (Hi : (i < length a)%nat).
  { apply Nat2Z.inj_lt. rewrite Hiz, Hn. apply Htn. }
  pose proof (sigma_nth 64 g a i Hgcd Hi) as Hs.
  unfold sg_pos, sg_val, sg_e in Hs. rewrite Hn in Hs. rewrite Hiz in Hs.
  destruct (modn_case n t Hp Ht) as [(Hge & Htm) | (Hlt & Htm)]; rewrite Htm in *.
  - assert (He : ((t - n) * g) mod (2 * n) = Z.of_nat j + n).
    { replace ((t - n) * g) with (t * g - n * g) by ring.
      rewrite Zminus_mod, Htg, Hng. apply sub_mod_2n; exact HjM. }
    rewrite He in Hs. clear He Htg Hng Htn Hiz.
    destruct (Z.leb_spec n t) as [_|Hc]; [|exfalso; clear Hs; lia].
    destruct (Z.ltb_spec (Z.of_nat j + n) n) as [Hc|_]; [exfalso; clear Hs; lia|].
    replace (Z.to_nat (Z.of_nat j + n - n)) with j in Hs by (clear Hs; lia).
    rewrite Hs. reflexivity.
  - rewrite Htg in Hs. clear Htg Hng Htn Hiz.
    destruct (Z.leb_spec n t) as [Hc|_]; [exfalso; clear Hs; lia|].
    destruct (Z.ltb_spec (Z.of_nat j) n) as [_|Hc]; [|exfalso; clear Hs; lia].
    rewrite Nat2Z.id in Hs. rewrite Hs. reflexivity.
Qed.

Lemma odd_mod_pow2 (p k : Z) : 1 <= k -> Z.odd p = true -> Z.odd (p mod 2 ^ k) = true.
Proof.
  intros Hk Ho. pose proof (pow2_pos k ltac:(lia)) as Hpk.
  pose proof (Z.div_mod p (2 ^ k) ltac:(lia)) as Hd.
  pose proof (pow2_split k Hk) as Hs.
  replace (p mod 2 ^ k) with (p + 2 * (- 2 ^ (k - 1) * (p / 2 ^ k))).
  - rewrite Z.odd_add_mul_2. exact Ho.
  - rewrite Hs in Hd at 1. lia.
Qed.

Lemma len_div4 (l : list Z) (m : Z) : 2 <= m -> Z.of_nat (length l) = 2 ^ m ->
  (4 * (length l / 4) = length l)%nat.
Proof.
  intros Hm Hn.
  assert (Hd4 : Z.of_nat (length l) = 2 ^ (m - 2) * 4).
  { rewrite Hn. replace m with ((m - 2) + 2) at 1 by lia. rewrite Z.pow_add_r by lia. reflexivity. }
  pose proof (Nat.div_mod (length l) 4 ltac:(lia)) as Hdm.
  assert (Hmod : (length l mod 4 = 0)%nat).
  { apply Nat2Z.inj. rewrite Nat2Z.inj_mod. rewrite Hd4. change (Z.of_nat 4) with 4.
    rewrite Z.mod_mul by lia. reflexivity. }
  lia.
Qed.

Theorem avx_automorphism_eq_ref (p m : Z) (r0 a : list Z) :
  0 <= m <= 60 -> Z.of_nat (length a) = 2 ^ m -> Z.odd p = true -> in_range 64 p ->
  length r0 = length a -> Forall (in_range 64) a ->
  znx_automorphism_avx p r0 a = znx_automorphism_onto 64 p r0 a.
Proof.
  intros Hm Hn Ho Hp Hl Ha. apply in_range_64_elim in Hp. unfold znx_automorphism_avx.
  destruct (Nat.eqb_spec (length a) 0) as [H0|H0].
  { destruct a; [reflexivity|discriminate]. }
  destruct (Nat.ltb_spec (length a) 4) as [H4|H4]; [reflexivity|].
  cbv zeta.
  assert (Hm2 : 2 <= m).
  { destruct (Z_lt_le_dec m 2) as [Hlt|]; [|assumption]. exfalso.
    assert (2 ^ m <= 2 ^ 1) by (apply pow2_le; lia). lia. }
  pose proof (len_div4 a m Hm2 Hn) as Hspan.
  rewrite Hn.
  pose proof (pow2_pos m ltac:(lia)) as Hpm. pose proof (pow2_le m 60 ltac:(lia)) as Hle.
  pose proof (pow2_pos (m + 1) ltac:(lia)) as Hpm1. pose proof (pow2_le (m + 1) 61 ltac:(lia)) as Hle1.
  assert (H2n : 2 ^ m * 2 = 2 ^ (m + 1)) by (rewrite Z.pow_add_r by lia; lia).
  assert (Hw : wrapu 64 (2 ^ m * 2) = 2 ^ (m + 1)).
  { rewrite H2n. unfold wrapu. apply Z.mod_small. lia. }
  rewrite Hw. rewrite Z.log2_pow2 by lia.
  (* p_2n = p mod 2n *)
  assert (Hp2n : Z.land (wrapu 64 (wrap 64 (Z.land p (2 ^ (m + 1) - 1) + 2 ^ (m + 1)))) (2 ^ (m + 1) - 1)
                 = p mod 2 ^ (m + 1)).
  { rewrite (land_mask_mod (m + 1) p) by lia.
    pose proof (Z.mod_pos_bound p (2 ^ (m + 1)) ltac:(lia)) as Hb.
    set (p2 := p mod 2 ^ (m + 1)) in *. 
    assert (Hp2 : p2 mod 2 ^ (m + 1) = p2) by (unfold p2; apply Z.mod_mod; lia).
    clearbody p2.
    rewrite wrap_id by (try apply in_range_64; lia).
    rewrite land_mask_pow by lia.
    replace (p2 + 2 ^ (m + 1)) with (p2 + 1 * 2 ^ (m + 1)) by lia.
    rewrite Z.mod_add by lia. exact Hp2. }
  rewrite Hp2n. clear Hp2n.
  set (p2 := p mod 2 ^ (m + 1)).
  assert (Ho2 : Z.odd p2 = true) by (apply odd_mod_pow2; [lia|exact Ho]).
  destruct (inv_mod_pow2_correct p2 (m + 1) Ho2 ltac:(lia)) as [Hinv_r Hinv].
  set (inv := inv_mod_pow2 p2 (m + 1)) in *.
  assert (Hinvp : (inv * p) mod (2 * 2 ^ m) = 1).
  { replace (2 * 2 ^ m) with (2 ^ (m + 1)) by lia.
    rewrite <- Z.mul_mod_idemp_r by lia. exact Hinv. }
  clearbody inv. clear Hinv Ho2. clearbody p2.
  (* step *)
  assert (Hinv4 : 0 <= inv * 2 ^ 2 < 2 ^ 64) by (change (2 ^ 2) with 4; lia).
  rewrite land_mask_pow by lia.
  (* span *)
  rewrite shiftr2_div4.
  rewrite Hspan. rewrite skipn_all2 by lia. rewrite app_nil_r.
  replace (2 ^ (m + 1)) with (2 * 2 ^ m) by lia.
  pose proof (automorphism_loop_eq m inv a ltac:(lia) Ha ltac:(lia) (length a / 4) 0) as Hloop.
  change (Z.of_nat (4 * 0) * inv) with 0 in Hloop. rewrite Z.mod_0_l in Hloop by lia.
  rewrite Hloop. rewrite Hspan. clear Hloop.
  rewrite (automorphism_is_sigma 64 p m r0 a) by (try assumption; lia).
  rewrite (list_as_map_seq (sigma 64 p a)) at 1. rewrite sigma_length.
  apply map_ext_in. intros j Hj. apply in_seq in Hj.
  apply auto_spec_sigma; try assumption; lia.
Qed.

(* ---------- a divisor >= 4 of a power of two is a multiple of 4 ---------- *)
Lemma odd_divides_pow2 (d m : Z) : 0 <= m -> 0 < d -> Z.odd d = true -> (d | 2 ^ m) -> d = 1.
Proof.
  intros Hm Hd Ho Hdiv.
  assert (Hg : Z.gcd d (2 ^ m) = 1).
  { destruct (Z.eq_dec m 0) as [->|Hm0]; [apply Z.gcd_1_r|].
    replace (2 ^ m) with (2 * 2 ^ (m - 1)) by (symmetry; apply pow2_split; lia).
    apply odd_pow2_coprime; [lia|exact Ho]. }
  assert (Hd1 : (d | 1)).
  { rewrite <- Hg. apply Z.gcd_greatest; [apply Z.divide_refl|exact Hdiv]. }
  apply Z.divide_1_r_nonneg in Hd1; lia.
Qed.

Lemma div_pow2_mult4 (d m : Z) : 0 <= m -> 4 <= d -> (d | 2 ^ m) -> d mod 4 = 0.
Proof.
  intros Hm Hd Hdiv.
  pose proof (Z.div_mod d 4 ltac:(lia)) as Hdm. pose proof (Z.mod_pos_bound d 4 ltac:(lia)) as Hb.
  set (r := d mod 4) in *. set (q := d / 4) in *. clearbody r q.
  assert (Hr : r = 0 \/ r = 1 \/ r = 2 \/ r = 3) by lia.
  destruct Hr as [Hr|[Hr|[Hr|Hr]]]; [exact Hr| | |]; exfalso.
  - assert (Z.odd d = true) by (subst d r; rewrite Z.add_comm; replace (4 * q) with (2 * (2 * q)) by ring; apply Z.odd_add_mul_2).
    pose proof (odd_divides_pow2 d m Hm ltac:(lia) H Hdiv). lia.
  - (* d = 2 * e with e odd *)
    set (e := 2 * q + 1). assert (He : d = 2 * e) by (unfold e; lia).
    destruct (Z.eq_dec m 0) as [->|Hm0].
    { change (2 ^ 0) with 1 in Hdiv. apply Z.divide_1_r_nonneg in Hdiv; lia. }
    rewrite (pow2_split m) in Hdiv by lia. rewrite He in Hdiv.
    apply Z.mul_divide_cancel_l in Hdiv; [|lia].
    assert (Hoe : Z.odd e = true) by (unfold e; rewrite Z.add_comm; apply Z.odd_add_mul_2).
    pose proof (odd_divides_pow2 e (m - 1) ltac:(lia) ltac:(unfold e; lia) Hoe Hdiv). lia.
  - assert (Z.odd d = true).
    { subst d r. replace (4 * q + 3) with (1 + 2 * (2 * q + 1)) by ring. apply Z.odd_add_mul_2. }
    pose proof (odd_divides_pow2 d m Hm ltac:(lia) H Hdiv). lia.
Qed.

(* ---------- downsampling loop ---------- *)
Lemma switch_ring_down_loop_eq (G : nat) (a : list Z) : (0 < G)%nat ->
  forall (span c0 : nat), Z.of_nat (4 * (c0 + span) * G) < 2 ^ 62 ->
  switch_ring_down_loop_avx span (Z.of_nat G) (Z.of_nat (4 * c0 * G)) a
  = map (fun t => nthZ a (t * G)) (seq (4 * c0) (4 * span)).
Proof.
  intros HG. induction span as [|s IH]; intros c0 Hb.
  - reflexivity.
  - replace (4 * S s)%nat with (S (S (S (S (4 * s))))) by lia.
    cbn [switch_ring_down_loop_avx seq map].
    cbv beta iota zeta delta [mm_set1 mm_i64gather].
    set (g := Z.of_nat G). set (b := Z.of_nat (4 * c0 * G)).
    assert (Hg : 0 < g) by (unfold g; lia).
    assert (Hbb : 0 <= b /\ b + 4 * g <= Z.of_nat (4 * (c0 + S s) * G)) by (unfold b, g; nia).
    assert (Hw2 : wrap 64 (2 * g) = 2 * g) by (apply wrap_id; [lia|apply in_range_64; lia]).
    assert (Hw3 : wrap 64 (3 * g) = 3 * g) by (apply wrap_id; [lia|apply in_range_64; lia]).
    assert (Hw4 : wrap 64 (4 * g) = 4 * g) by (apply wrap_id; [lia|apply in_range_64; lia]).
    rewrite Hw2, Hw3, Hw4.
    assert (Hadd : forall st, 0 <= st <= 4 * g -> mm_add b st = b + st).
    { intros st Hst. unfold mm_add. apply wrap_id; [lia|]. apply in_range_64. lia. }
    rewrite !Hadd by lia.
    replace (b + 4 * g) with (Z.of_nat (4 * S c0 * G)) by (unfold b, g; lia).
    rewrite IH by (replace (S c0 + s)%nat with (c0 + S s)%nat by lia; exact Hb).
    replace (S (S (S (S (4 * c0))))) with (4 * S c0)%nat by lia.
    f_equal; [|f_equal; [|f_equal; [|f_equal]]]; f_equal; unfold b, g; lia.
Qed.

Lemma nthZ_upd (l : list Z) (i j : nat) (x : Z) : (i < length l)%nat ->
  nthZ (upd l i x) j = if Nat.eqb j i then x else nthZ l j.
Proof.
  intros Hi. destruct (Nat.eqb_spec j i) as [->|Hne].
  - apply nthZ_upd_eq; exact Hi.
  - apply nthZ_upd_neq; auto.
Qed.

Lemma nthZ_zeros (n t : nat) : nthZ (zeros n) t = 0.
Proof. unfold nthZ, zeros. apply nth_repeat. Qed.

Definition up_body (gap : nat) (a : list Z) (r : list Z) (c : nat) : list Z :=
  let i := (4 * c)%nat in
  let p0 := (i * gap)%nat in
  upd (upd (upd (upd r p0 (nthZ a i)) (p0 + gap) (nthZ a (i + 1))) (p0 + gap + gap) (nthZ a (i + 2)))
      (p0 + gap + gap + gap) (nthZ a (i + 3)).

Lemma up_body_length gap a r c : length (up_body gap a r c) = length r.
Proof. unfold up_body. cbv zeta. rewrite !upd_length. reflexivity. Qed.

(* position arithmetic, isolated *)
Lemma pos_div_mod (gap q : nat) : (0 < gap)%nat -> ((q * gap) mod gap = 0 /\ (q * gap) / gap = q)%nat.
Proof. intros Hg. split; [apply Nat.mod_mul; lia|apply Nat.div_mul; lia]. Qed.

Lemma mult_of_gap (gap t : nat) : (0 < gap)%nat -> (t mod gap = 0)%nat -> (t = (t / gap) * gap)%nat.
Proof. intros Hg Hm. pose proof (Nat.div_mod t gap ltac:(lia)). lia. Qed.

Lemma up_invariant (gap n_out : nat) (a : list Z) : (0 < gap)%nat ->
  forall k : nat, (4 * k * gap <= n_out)%nat ->
  let R := fold_left (up_body gap a) (seq 0 k) (zeros n_out) in
  length R = n_out /\
  forall t, nthZ R t = if (Nat.eqb (t mod gap) 0 && Nat.ltb (t / gap) (4 * k))%bool then nthZ a (t / gap) else 0.
Proof.
  intros Hg. induction k as [|k IH]; intros Hk; cbv zeta.
  - cbn [seq fold_left]. split; [apply repeat_length|]. intros t.
    rewrite nthZ_zeros. replace (4 * 0)%nat with 0%nat by lia.
    destruct (t mod gap =? 0)%nat; reflexivity.
  - rewrite seq_S, fold_left_app. cbn [fold_left Nat.add].
    destruct (IH ltac:(lia)) as [HlenR HR]. clear IH. cbv zeta in HlenR, HR.
    set (R := fold_left (up_body gap a) (seq 0 k) (zeros n_out)) in *. clearbody R.
    split; [rewrite up_body_length; exact HlenR|].
    intros t. unfold up_body. cbv zeta.
    set (p0 := (4 * k * gap)%nat).
    assert (Hp : (p0 + gap + gap + gap < n_out)%nat).
    { unfold p0. replace (4 * S k * gap)%nat with (4 * k * gap + gap + gap + gap + gap)%nat in Hk by lia. lia. }
    rewrite !nthZ_upd by (rewrite ?upd_length; lia).
    rewrite HR.
    destruct (pos_div_mod gap (4 * k) Hg) as [Hm0 Hd0].
    destruct (pos_div_mod gap (4 * k + 1) Hg) as [Hm1 Hd1].
    destruct (pos_div_mod gap (4 * k + 2) Hg) as [Hm2 Hd2].
    destruct (pos_div_mod gap (4 * k + 3) Hg) as [Hm3 Hd3].
    assert (E1 : (p0 + gap = (4 * k + 1) * gap)%nat) by (unfold p0; lia).
    assert (E2 : (p0 + gap + gap = (4 * k + 2) * gap)%nat) by (unfold p0; lia).
    assert (E3 : (p0 + gap + gap + gap = (4 * k + 3) * gap)%nat) by (unfold p0; lia).
    rewrite E3, E2, E1. fold p0 in Hm0, Hd0. clearbody p0. clear E1 E2 E3 Hp Hk HR.
    destruct (Nat.eqb_spec t ((4 * k + 3) * gap)) as [->|N3].
    { rewrite Hm3, Hd3. cbn [Nat.eqb andb]. destruct (Nat.ltb_spec (4 * k + 3) (4 * S k)); [reflexivity|lia]. }
    destruct (Nat.eqb_spec t ((4 * k + 2) * gap)) as [->|N2].
    { rewrite Hm2, Hd2. cbn [Nat.eqb andb]. destruct (Nat.ltb_spec (4 * k + 2) (4 * S k)); [reflexivity|lia]. }
    destruct (Nat.eqb_spec t ((4 * k + 1) * gap)) as [->|N1].
    { rewrite Hm1, Hd1. cbn [Nat.eqb andb]. destruct (Nat.ltb_spec (4 * k + 1) (4 * S k)); [reflexivity|lia]. }
    destruct (Nat.eqb_spec t p0) as [->|N0].
    { rewrite Hm0, Hd0. cbn [Nat.eqb andb]. destruct (Nat.ltb_spec (4 * k) (4 * S k)); [reflexivity|lia]. }
    destruct (Nat.eqb_spec (t mod gap) 0) as [Hz|Hnz]; [|reflexivity].
    cbn [andb].
    pose proof (mult_of_gap gap t Hg Hz) as Ht.
    set (q := (t / gap)%nat) in *. clearbody q.
    destruct (Nat.ltb_spec q (4 * k)) as [Hq|Hq]; destruct (Nat.ltb_spec q (4 * S k)) as [Hq'|Hq']; try reflexivity; try lia.
    exfalso.
    assert (Hq4 : (q = 4 * k \/ q = 4 * k + 1 \/ q = 4 * k + 2 \/ q = 4 * k + 3)%nat) by lia.
    rewrite <- Hd0 in Hq4 at 1.
    destruct Hq4 as [E|[E|[E|E]]]; subst q.
    + apply N0. rewrite Ht. rewrite Hd0. destruct (pos_div_mod gap (p0 / gap) Hg). 
      pose proof (mult_of_gap gap p0 Hg Hm0). lia.
    + apply N1. exact Ht.
    + apply N2. exact Ht.
    + apply N3. exact Ht.
Qed.

Lemma nat_mult4_of_div_pow2 (d : nat) (m : Z) (n : nat) : 0 <= m -> Z.of_nat n = 2 ^ m ->
  (4 <= d)%nat -> (n mod d = 0)%nat -> (4 * (d / 4) = d)%nat.
Proof.
  intros Hm Hn Hd Hmod.
  assert (Hdiv : (Z.of_nat d | 2 ^ m)).
  { rewrite <- Hn. exists (Z.of_nat (n / d)). pose proof (Nat.div_mod n d ltac:(lia)) as H. 
    rewrite Hmod in H. rewrite <- Nat2Z.inj_mul. f_equal. lia. }
  pose proof (div_pow2_mult4 (Z.of_nat d) m Hm ltac:(lia) Hdiv) as H4.
  assert (Hm4 : (d mod 4 = 0)%nat).
  { apply Nat2Z.inj. rewrite Nat2Z.inj_mod. exact H4. }
  pose proof (Nat.div_mod d 4 ltac:(lia)). lia.
Qed.

Theorem avx_switch_ring_eq_ref (m : Z) (n_out : nat) (r0 a : list Z) :
  0 <= m <= 60 -> Z.of_nat (length a) = 2 ^ m -> (0 < n_out)%nat -> Z.of_nat n_out < 2 ^ 62 ->
  length r0 = n_out ->
  (Nat.max (length a) n_out mod Nat.min (length a) n_out = 0)%nat ->
  znx_switch_ring_avx n_out r0 a = znx_switch_ring n_out r0 a.
Proof.
  intros Hm Hn Hno Hno62 Hl Hmul. unfold znx_switch_ring_avx, znx_switch_ring. cbv zeta.
  destruct (Nat.eqb_spec (length a) n_out) as [He|Hne]; [reflexivity|].
  destruct (Nat.ltb_spec (Nat.min (length a) n_out) 4) as [H4|H4].
  { destruct (Nat.eqb_spec (length a) n_out); [contradiction|reflexivity]. }
  pose proof (pow2_le m 60 ltac:(lia)) as Hle60.
  destruct (Nat.ltb_spec n_out (length a)) as [Hdown|Hup].
  - (* downsampling *)
    rewrite Nat.max_l, Nat.min_r in Hmul by lia.
    set (G := (length a / n_out)%nat).
    assert (HnG : (length a = n_out * G)%nat).
    { unfold G. pose proof (Nat.div_mod (length a) n_out ltac:(lia)) as H. lia. }
    assert (HG : (0 < G)%nat) by (destruct G; [lia|lia]).
    rewrite shiftr2_div4.
    pose proof (nat_mult4_of_div_pow2 n_out m (length a) ltac:(lia) Hn ltac:(lia) Hmul) as Hspan.
    rewrite Hspan. rewrite skipn_all2 by lia. rewrite app_nil_r.
    pose proof (switch_ring_down_loop_eq G a HG (n_out / 4) 0) as Hloop.
    change (4 * 0 * G)%nat with 0%nat in Hloop. change (Z.of_nat 0) with mm_setzero in Hloop.
    rewrite Hloop.
    + rewrite Hspan. reflexivity.
    + replace (4 * (0 + n_out / 4) * G)%nat with (length a) by (rewrite Nat.add_0_l, Hspan; lia). lia.
  - (* upsampling *)
    rewrite Nat.max_r, Nat.min_l in Hmul by lia.
    set (G := (n_out / length a)%nat).
    assert (HnG : (n_out = length a * G)%nat).
    { unfold G. pose proof (Nat.div_mod n_out (length a) ltac:(lia)) as H. lia. }
    assert (HG : (0 < G)%nat) by (destruct G; [lia|lia]).
    assert (Hm2 : 2 <= m).
    { destruct (Z_lt_le_dec m 2) as [Hlt|]; [|assumption]. exfalso.
      assert (2 ^ m <= 2 ^ 1) by (apply pow2_le; lia). lia. }
    pose proof (len_div4 a m Hm2 Hn) as Hk.
    unfold switch_ring_up_avx.
    replace ((length a + 3) / 4)%nat with (length a / 4)%nat.
    2:{ rewrite <- Hk at 2. replace (4 * (length a / 4) + 3)%nat with (3 + (length a / 4) * 4)%nat by lia.
        rewrite Nat.div_add by lia. reflexivity. }
    fold (up_body G a).
    change (fun r c => upd (upd (upd (upd r (4 * c * G) (nthZ a (4 * c))) (4 * c * G + G) (nthZ a (4 * c + 1)))
                                   (4 * c * G + G + G) (nthZ a (4 * c + 2))) (4 * c * G + G + G + G) (nthZ a (4 * c + 3)))
      with (up_body G a).
    destruct (up_invariant G n_out a HG (length a / 4)) as [HlenR HR].
    { rewrite Hk. lia. }
    cbv zeta in HlenR, HR.
    apply nthZ_ext.
    + rewrite HlenR, map_seq_length. reflexivity.
    + intros t Ht. rewrite HlenR in Ht. rewrite HR. rewrite nthZ_map_seq by exact Ht.
      rewrite Hk.
      assert (Hq : (t / G < length a)%nat) by (apply Nat.div_lt_upper_bound; lia).
      destruct (Nat.ltb_spec (t / G) (length a)) as [_|Hc]; [|lia].
      rewrite andb_true_r. reflexivity.
Qed.
