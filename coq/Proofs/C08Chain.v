(* C08, level 2 tools: loops over `seq`, lists by index, finite sums, and the ideal carry chain
   (iterated balanced division) with its telescoping identity and bounds. *)
From PV Require Import Base.MachineInt Model.Znx Model.Limbs Proofs.ZnxDigit Proofs.C08Steps.
Open Scope Z_scope.

(* ---------- loops ---------- *)

Lemma fold_left_seq_ind_from {S : Type} (f : S -> nat -> S) (Inv : nat -> S -> Prop) (a n : nat) (s0 : S) :
  Inv 0%nat s0 ->
  (forall j s, (j < n)%nat -> Inv j s -> Inv (Datatypes.S j) (f s (a + j)%nat)) ->
  Inv n (fold_left f (seq a n) s0).
Proof.
  induction n as [|n IH]; intros H0 Hstep; [exact H0|].
  rewrite seq_S, fold_left_app. cbn [fold_left].
  apply Hstep; [lia|]. apply IH; auto.
Qed.

Lemma fold_left_seq_ind {S : Type} (f : S -> nat -> S) (Inv : nat -> S -> Prop) (n : nat) (s0 : S) :
  Inv 0%nat s0 ->
  (forall j s, (j < n)%nat -> Inv j s -> Inv (Datatypes.S j) (f s j)) ->
  Inv n (fold_left f (seq 0 n) s0).
Proof. intros H0 Hs. apply (fold_left_seq_ind_from f Inv 0 n s0 H0). exact Hs. Qed.

(* ---------- lists by index ---------- *)

Lemma upd_length (l : list Z) (k : nat) (x : Z) : length (upd l k x) = length l.
Proof. revert k; induction l as [|h t IH]; intros [|k]; cbn [upd length]; auto. Qed.

Lemma nth_upd (l : list Z) (k i : nat) (x : Z) :
  nthZ (upd l k x) i = if (Nat.eqb i k && Nat.ltb k (length l))%bool then x else nthZ l i.
Proof.
  unfold nthZ. revert k i; induction l as [|h t IH]; intros k i.
  - cbn [upd length]. destruct (Nat.eqb i k); reflexivity.
  - destruct k as [|k], i as [|i]; cbn [upd nth length]; try reflexivity.
    rewrite IH. replace (Nat.ltb (S k) (S (length t))) with (Nat.ltb k (length t)); [reflexivity|].
    destruct (Nat.ltb_spec k (length t)), (Nat.ltb_spec (S k) (S (length t))); auto; lia.
Qed.

Lemma nthZ_overflow (l : list Z) (i : nat) : (length l <= i)%nat -> nthZ l i = 0.
Proof. intros; unfold nthZ; apply nth_overflow; auto. Qed.

Lemma zeros_length (k : nat) : length (zeros k) = k.
Proof. apply repeat_length. Qed.

Lemma nth_zeros (k i : nat) : nthZ (zeros k) i = 0.
Proof.
  unfold nthZ, zeros. revert i; induction k as [|k IH]; intros [|i]; cbn [repeat nth]; auto.
Qed.

Lemma list_eq_nth (l1 l2 : list Z) : length l1 = length l2 ->
  (forall i, (i < length l1)%nat -> nthZ l1 i = nthZ l2 i) -> l1 = l2.
Proof. intros Hl Hn. apply (nth_ext l1 l2 0 0 Hl). exact Hn. Qed.

(* case analysis on every nat comparison in the goal *)
Ltac natb :=
  repeat match goal with
  | |- context [Nat.leb ?a ?b] => destruct (Nat.leb_spec a b)
  | |- context [Nat.ltb ?a ?b] => destruct (Nat.ltb_spec a b)
  | |- context [Nat.eqb ?a ?b] => destruct (Nat.eqb_spec a b)
  end; cbn [andb orb negb].

(* headroom of a limb vector, by index (the default 0 is inside) *)
Definition hrl (l : list Z) : Prop := forall i, Z.abs (nthZ l i) <= 2 ^ 62.

Lemma hrl_of_Forall (l : list Z) : Forall (fun x => Z.abs x <= 2 ^ 62) l -> hrl l.
Proof.
  intros HF i. destruct (Nat.lt_ge_cases i (length l)) as [Hi|Hi].
  - rewrite Forall_forall in HF. apply HF. unfold nthZ. apply nth_In; auto.
  - rewrite nthZ_overflow by auto. cbn. lia.
Qed.

Lemma hrl_zeros (k : nat) : hrl (zeros k).
Proof. intros i. rewrite nth_zeros. cbn; lia. Qed.

(* ---------- finite sums ---------- *)

Fixpoint sumn (n : nat) (f : nat -> Z) : Z :=
  match n with O => 0 | S n' => sumn n' f + f n' end.

Lemma sumn_ext (n : nat) (f g : nat -> Z) : (forall t, (t < n)%nat -> f t = g t) -> sumn n f = sumn n g.
Proof.
  induction n as [|n IH]; intros Hfg; cbn [sumn]; [reflexivity|].
  rewrite IH, Hfg by (auto; intros; apply Hfg; lia). reflexivity.
Qed.

Lemma sumn_add (n m : nat) (f : nat -> Z) : sumn (n + m) f = sumn n f + sumn m (fun t => f (n + t)%nat).
Proof.
  induction m as [|m IH]; cbn [sumn].
  - rewrite Nat.add_0_r. lia.
  - rewrite Nat.add_succ_r. cbn [sumn]. rewrite IH. lia.
Qed.

Lemma sumn_scale (n : nat) (k : Z) (f : nat -> Z) : sumn n (fun t => k * f t) = k * sumn n f.
Proof. induction n as [|n IH]; cbn [sumn]; [lia|]. rewrite IH. ring. Qed.

Lemma sumn_plus (n : nat) (f g : nat -> Z) : sumn n (fun t => f t + g t) = sumn n f + sumn n g.
Proof. induction n as [|n IH]; cbn [sumn]; [lia|]. rewrite IH. ring. Qed.

Lemma sumn_zero (n : nat) (f : nat -> Z) : (forall t, (t < n)%nat -> f t = 0) -> sumn n f = 0.
Proof.
  induction n as [|n IH]; intros Hf; cbn [sumn]; [reflexivity|].
  rewrite IH, Hf by (auto; intros; apply Hf; lia). reflexivity.
Qed.

Lemma sumn_rev (n : nat) (f : nat -> Z) : sumn n f = sumn n (fun t => f (n - 1 - t)%nat).
Proof.
  induction n as [|n IH]; [reflexivity|].
  replace (S n) with (1 + n)%nat at 2 by lia. rewrite sumn_add. cbn [sumn].
  rewrite IH. replace (S n - 1 - 0)%nat with n by lia.
  rewrite Z.add_0_l, Z.add_comm. f_equal. apply sumn_ext. intros t Ht. f_equal. lia.
Qed.

(* ---------- the ideal carry chain ---------- *)

Section Chain.
Variable b : Z.
Hypothesis Hb : 1 <= b.

(* carry entering position j, for inputs v (least significant first) and initial carry c0 *)
Fixpoint car (v : nat -> Z) (c0 : Z) (j : nat) : Z :=
  match j with O => c0 | S j' => bdiv b (v j' + car v c0 j') end.

(* digit produced at position j *)
Definition dig (v : nat -> Z) (c0 : Z) (j : nat) : Z := wrap b (v j + car v c0 j).

Lemma car_S (v : nat -> Z) (c0 : Z) (j : nat) : car v c0 (S j) = bdiv b (v j + car v c0 j).
Proof. reflexivity. Qed.

Lemma car_ext (v v' : nat -> Z) (c0 : Z) (j : nat) :
  (forall t, (t < j)%nat -> v t = v' t) -> car v c0 j = car v' c0 j.
Proof.
  induction j as [|j IH]; intros Hv; cbn [car]; [reflexivity|].
  rewrite IH, Hv by (auto; intros; apply Hv; lia). reflexivity.
Qed.

Lemma dig_ext (v v' : nat -> Z) (c0 : Z) (j : nat) :
  (forall t, (t <= j)%nat -> v t = v' t) -> dig v c0 j = dig v' c0 j.
Proof.
  intros Hv. unfold dig. rewrite (car_ext v v' c0 j), Hv by (auto; intros; apply Hv; lia). reflexivity.
Qed.

Lemma car_shift (v : nat -> Z) (c0 : Z) (p j : nat) :
  car v c0 (p + j) = car (fun t => v (p + t)%nat) (car v c0 p) j.
Proof.
  induction j as [|j IH]; [rewrite Nat.add_0_r; reflexivity|].
  rewrite Nat.add_succ_r. cbn [car]. rewrite IH. reflexivity.
Qed.

Lemma dig_shift (v : nat -> Z) (c0 : Z) (p j : nat) :
  dig v c0 (p + j) = dig (fun t => v (p + t)%nat) (car v c0 p) j.
Proof. unfold dig. rewrite car_shift. reflexivity. Qed.

Lemma dig_range (v : nat -> Z) (c0 : Z) (j : nat) : in_range b (dig v c0 j).
Proof. apply wrap_range; auto. Qed.

Lemma car_bound (H : Z) (v : nat -> Z) (c0 : Z) (j : nat) : 0 <= H ->
  (forall t, (t < j)%nat -> Z.abs (v t) <= H * 2 ^ (b - 1)) -> Z.abs c0 <= H -> Z.abs (car v c0 j) <= H.
Proof.
  intros HH. induction j as [|j IH]; intros Hv Hc; cbn [car]; [exact Hc|].
  apply bdiv_chain; [exact Hb | exact HH | apply Hv; lia | apply IH; [intros; apply Hv; lia | exact Hc]].
Qed.

(* telescoping: inputs + initial carry = digits + final carry, as integers (little endian weights) *)
Lemma chain_sum (v : nat -> Z) (c0 : Z) (j : nat) :
  sumn j (fun t => v t * 2 ^ (zn t * b)) + c0
  = sumn j (fun t => dig v c0 t * 2 ^ (zn t * b)) + 2 ^ (zn j * b) * car v c0 j.
Proof.
  induction j as [|j IH]; cbn [sumn car].
  - change (zn 0) with 0. rewrite Z.mul_0_l, Z.pow_0_r. lia.
  - pose proof (wrap_bdiv b (v j + car v c0 j) Hb) as Hd. fold (dig v c0 j) in Hd.
    assert (E : 2 ^ (zn (S j) * b) = 2 ^ (zn j * b) * 2 ^ b).
    { unfold zn. rewrite <- Z.pow_add_r by lia. f_equal. lia. }
    rewrite E. nia.
Qed.

(* a run of balanced digits is smaller than one unit of the next position *)
Lemma digits_small (d : nat -> Z) (j : nat) : (forall t, (t < j)%nat -> in_range b (d t)) ->
  Z.abs (sumn j (fun t => d t * 2 ^ (zn t * b))) <= 2 ^ (zn j * b) - 1.
Proof.
  induction j as [|j IH]; intros Hd; cbn [sumn].
  - change (zn 0) with 0. rewrite Z.mul_0_l, Z.pow_0_r. lia.
  - assert (E : 2 ^ (zn (S j) * b) = 2 ^ (zn j * b) * 2 ^ b).
    { unfold zn. rewrite <- Z.pow_add_r by lia. f_equal. lia. }
    specialize (IH ltac:(intros; apply Hd; lia)).
    destruct (Hd j ltac:(lia)) as [D1 D2].
    pose proof (pow2_pos (zn j * b) ltac:(unfold zn; lia)) as Hp.
    pose proof (pow2_pos (b - 1) ltac:(lia)) as Hp1.
    pose proof (pow2_split b Hb) as Hs. rewrite E. nia.
Qed.

(* ----- the carry through a gap of zero limbs reaches a fixed point ----- *)

Definition zseq : nat -> Z := fun _ => 0.

Lemma car_zseq_S (c : Z) (j : nat) : car zseq c (S j) = car zseq (bdiv b c) j.
Proof.
  replace (S j) with (1 + j)%nat by lia. rewrite car_shift. cbn [car]. unfold zseq at 2. cbn.
  apply car_ext. reflexivity.
Qed.

Lemma bdiv_halves (m c : Z) : 0 <= m -> Z.abs c <= 2 ^ (m + 1) -> Z.abs (bdiv b c) <= 2 ^ m.
Proof.
  intros Hm Hc. pose proof (bdiv_abs b c Hb) as Hk.
  pose proof (pow2_pos (b - 1) ltac:(lia)) as Hp.
  pose proof (pow2_split b Hb) as Hs.
  pose proof (pow2_pos m Hm) as Hpm.
  rewrite Z.pow_add_r in Hc by lia. change (2 ^ 1) with 2 in Hc.
  set (K := Z.abs (bdiv b c)) in *.
  destruct (Z_le_gt_dec K (2 ^ m)) as [|Hgt]; auto.
  assert ((2 ^ m + 1) * 2 ^ b <= K * 2 ^ b) by (apply Z.mul_le_mono_nonneg_r; lia).
  nia.
Qed.

Lemma car_zseq_small (m : nat) (c : Z) : Z.abs c <= 2 ^ zn m -> Z.abs (car zseq c m) <= 1.
Proof.
  revert c; induction m as [|m IH]; intros c Hc.
  - cbn [car]. unfold zn in Hc. cbn in Hc. lia.
  - rewrite car_zseq_S. apply IH. apply bdiv_halves; [unfold zn; lia|].
    replace (zn m + 1) with (zn (S m)) by (unfold zn; lia). exact Hc.
Qed.

Lemma bdiv_fix_of_small (c : Z) : Z.abs c <= 1 -> bdiv b (bdiv b c) = bdiv b c.
Proof.
  intros Hc.
  pose proof (pow2_pos (b - 1) ltac:(lia)) as Hp.
  pose proof (pow2_split b Hb) as Hs.
  assert (Hcases : c = -1 \/ c = 0 \/ c = 1) by lia.
  assert (E0 : bdiv b 0 = 0) by (apply bdiv_zero; auto).
  destruct Hcases as [ -> | [ -> | -> ] ].
  - assert (E : bdiv b (-1) = 0) by (unfold bdiv; apply Z.div_small; lia).
    rewrite E. exact E0.
  - rewrite E0. exact E0.
  - destruct (Z.eq_dec (2 ^ (b - 1)) 1) as [E1|E1].
    + assert (E : bdiv b 1 = 1) by (unfold bdiv; rewrite Hs, E1; reflexivity).
      rewrite E. exact E.
    + assert (E : bdiv b 1 = 0) by (unfold bdiv; apply Z.div_small; lia).
      rewrite E. exact E0.
Qed.

Lemma car_zseq_fix (f : Z) (j : nat) : bdiv b f = f -> car zseq f j = f.
Proof.
  intros Hf. induction j as [|j IH]; [reflexivity|]. rewrite car_zseq_S, Hf. exact IH.
Qed.

(* 64 steps are as good as any larger number of steps for a carry within 2^62 *)
Lemma car_zseq_sat (c : Z) (g : nat) : Z.abs c <= 2 ^ 62 -> car zseq c (Nat.min g 64) = car zseq c g.
Proof.
  intros Hc. destruct (Nat.le_gt_cases g 64) as [Hg|Hg].
  - rewrite Nat.min_l by auto. reflexivity.
  - rewrite Nat.min_r by lia.
    assert (Hs : Z.abs (car zseq c 62) <= 1) by (apply car_zseq_small; exact Hc).
    assert (E63 : car zseq c 63 = bdiv b (car zseq c 62)).
    { change 63%nat with (S 62). rewrite car_S. unfold zseq at 1. f_equal. }
    assert (Hfix : forall j, car zseq c (63 + j) = car zseq c 63).
    { intros j. rewrite car_shift. rewrite (car_ext _ zseq) by reflexivity.
      apply car_zseq_fix. rewrite E63. apply bdiv_fix_of_small; exact Hs. }
    replace 64%nat with (63 + 1)%nat by reflexivity.
    replace g with (63 + (g - 63))%nat by lia. rewrite !Hfix. reflexivity.
Qed.

End Chain.
