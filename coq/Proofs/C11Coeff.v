(* C11, per coefficient: the OVERWRITING normalise / shift routines read no prior result limb before writing it:
   their result depends on the prior limbs r0 only through the NUMBER of limbs.  Structural proofs: any word width w,
   any radix, any offset, any input (no range hypothesis). *)
From PV Require Import Base.MachineInt Model.Znx Model.Limbs Proofs.C08Chain Proofs.C08Loops Proofs.C08Normalize.
From Coq Require Import Arith PeanoNat List Bool.
Open Scope Z_scope.

(* two runs in lock step *)
Lemma fold_left_seq_ind2 {S : Type} (f : S -> nat -> S) (R : nat -> S -> S -> Prop) (n : nat) (s s' : S) :
  R 0%nat s s' ->
  (forall j t t', (j < n)%nat -> R j t t' -> R (Datatypes.S j) (f t j) (f t' j)) ->
  R n (fold_left f (seq 0 n) s) (fold_left f (seq 0 n) s').
Proof.
  induction n as [|n IH]; intros H0 Hstep; [exact H0|].
  rewrite seq_S, !fold_left_app. cbn [fold_left Nat.add].
  apply Hstep; [lia|]. apply IH; [exact H0|]. intros j t t' Hj. apply Hstep. lia.
Qed.

(* agreement of two limb lists on a set of positions *)
Definition agree_on (P : nat -> Prop) (r r' : list Z) : Prop :=
  length r = length r' /\ forall i, P i -> nthZ r i = nthZ r' i.

Lemma agree_weaken (P Q : nat -> Prop) r r' : (forall i, Q i -> P i) -> agree_on P r r' -> agree_on Q r r'.
Proof. intros HQ [Hl H]. split; [exact Hl|]. intros i Hi. apply H, HQ, Hi. Qed.

Ltac weaken H := eapply agree_weaken; [|exact H]; cbv beta; let i := fresh "i" in let Hi := fresh "Hi" in intros i Hi; first [lia | intuition lia].

Lemma agree_upd (P : nat -> Prop) r r' k x :
  agree_on P r r' -> agree_on (fun i => P i \/ i = k) (upd r k x) (upd r' k x).
Proof.
  intros [Hl H]. split; [rewrite !upd_length; exact Hl|].
  intros i Hi. rewrite !nth_upd, <- Hl.
  destruct (Nat.eqb_spec i k) as [E|E]; cbn [andb].
  - destruct (Nat.ltb_spec k (length r)) as [Hk|Hk]; [reflexivity|].
    rewrite !nthZ_overflow by lia. reflexivity.
  - apply H. destruct Hi as [Hi|Hi]; [exact Hi|contradiction].
Qed.

Lemma agree_zero_range (P : nat -> Prop) r r' lo hi :
  agree_on P r r' -> agree_on (fun i => P i \/ (lo <= i < hi)%nat) (zero_range r lo hi) (zero_range r' lo hi).
Proof.
  intros [Hl H]. destruct (zero_range_spec r lo hi) as [L1 N1]. destruct (zero_range_spec r' lo hi) as [L2 N2].
  split; [lia|]. intros i Hi. rewrite N1, N2.
  destruct (Nat.leb_spec lo i); destruct (Nat.ltb_spec i hi); cbn [andb]; try reflexivity; apply H;
    destruct Hi as [Hi|Hi]; try exact Hi; lia.
Qed.

Lemma agree_all_eq r r' : agree_on (fun i => (i < length r)%nat) r r' -> r = r'.
Proof. intros [Hl H]. apply (nth_ext r r' 0 0 Hl). exact H. Qed.

Lemma agree_nil_start r r' : length r = length r' -> agree_on (fun _ => False) r r'.
Proof. intros Hl. split; [exact Hl|intros i []]. Qed.

(* ---------- the kernels with OVERWRITE = true ignore the prior word ---------- *)
Lemma middle_step_ov w b lsh x x' a c : middle_step w true b lsh x a c = middle_step w true b lsh x' a c.
Proof. unfold middle_step. destruct (middle_core w b lsh a c). reflexivity. Qed.
Lemma final_step_ov w b lsh x x' a c : final_step w true b lsh x a c = final_step w true b lsh x' a c.
Proof. reflexivity. Qed.

(* ---------- phases ---------- *)
(* mid_phase with overwrite: extends the agreement downwards by cnt limbs *)
Lemma mid_phase_ov_agree w b lsh a rs as_ cnt r r' c :
  agree_on (fun i => (rs <= i)%nat) r r' ->
  let s := mid_phase w true b lsh a rs as_ cnt (r, c) in
  let s' := mid_phase w true b lsh a rs as_ cnt (r', c) in
  snd s = snd s' /\ agree_on (fun i => (rs - cnt <= i)%nat) (fst s) (fst s').
Proof.
  intros Hag. cbv zeta. unfold mid_phase.
  apply (fold_left_seq_ind2 _
    (fun j (t t' : list Z * Z) => snd t = snd t' /\ agree_on (fun i => (rs - j <= i)%nat) (fst t) (fst t'))).
  - cbn [fst snd]. split; [reflexivity|]. weaken Hag.
  - intros j [t c1] [t' c1'] Hj [Hc Ht]. cbn [fst snd] in Hc, Ht. subst c1'.
    rewrite (middle_step_ov w b lsh (nthZ t (rs - j - 1)) (nthZ t' (rs - j - 1))).
    destruct (middle_step w true b lsh (nthZ t' (rs - j - 1)) (nthZ a (as_ - j - 1)) c1) as [x c2].
    cbn [fst snd]. split; [reflexivity|].
    weaken (agree_upd _ t t' (rs - j - 1) x Ht).
Qed.

(* top_phase with zero_first: the limbs [0, re) are rewritten from the carry alone *)
Lemma top_phase_zero_agree w b lsh re (P : nat -> Prop) r r' c :
  agree_on P r r' ->
  agree_on (fun i => P i \/ (i < re)%nat)
    (fst (top_phase w true b lsh re (r, c))) (fst (top_phase w true b lsh re (r', c))).
Proof.
  intros Hag. unfold top_phase.
  assert (H : (fun (t t' : list Z * Z) => snd t = snd t' /\
             agree_on (fun i => P i \/ (re - re <= i < re)%nat) (fst t) (fst t'))
            (fold_left (fun (s : list Z * Z) j => let '(r, c) := s in
               let i := (re - j - 1)%nat in let x0 := if true then 0 else nthZ r i in
               if Nat.eqb j (re - 1) then (upd r i (final_step_assign w b lsh x0 c), c)
               else let '(x, c') := middle_step_assign w b lsh x0 c in (upd r i x, c')) (seq 0 re) (r, c))
            (fold_left (fun (s : list Z * Z) j => let '(r, c) := s in
               let i := (re - j - 1)%nat in let x0 := if true then 0 else nthZ r i in
               if Nat.eqb j (re - 1) then (upd r i (final_step_assign w b lsh x0 c), c)
               else let '(x, c') := middle_step_assign w b lsh x0 c in (upd r i x, c')) (seq 0 re) (r', c))).
  { apply (fold_left_seq_ind2 _
      (fun j (t t' : list Z * Z) => snd t = snd t' /\
         agree_on (fun i => P i \/ (re - j <= i < re)%nat) (fst t) (fst t'))).
    - cbn [fst snd]. split; [reflexivity|].
      weaken Hag.
    - intros j [t c1] [t' c1'] Hj [Hc Ht]. cbn [fst snd] in Hc, Ht. subst c1'. cbv zeta. cbv iota.
      destruct (Nat.eqb j (re - 1)).
      + cbn [fst snd]. split; [reflexivity|].
        weaken (agree_upd _ t t' (re - j - 1) (final_step_assign w b lsh 0 c1) Ht).
      + destruct (middle_step_assign w b lsh 0 c1) as [x c2]. cbn [fst snd]. split; [reflexivity|].
        weaken (agree_upd _ t t' (re - j - 1) x Ht). }
  destruct H as [_ H]. weaken H.
Qed.

(* ---------- normalize (same radix) ---------- *)
Theorem normalize_inter_indep w b off a r0 r1 :
  length r0 = length r1 -> normalize_inter w b off a r0 = normalize_inter w b off a r1.
Proof.
  intros Hl. unfold normalize_inter. rewrite <- Hl.
  destruct (split_offset b off) as [lsh lo].
  set (rsz := length r0). set (asz := length a).
  destruct (inter_shape lo rsz asz) as ((_ & _ & S3 & S4 & S5 & S6) & _).
  set (res_end := natc (- lo) 0 (zn rsz)) in *.
  set (res_start := natc (zn asz - lo) 0 (zn rsz)) in *.
  set (a_end := natc lo 0 (zn asz)) in *.
  set (a_start := natc (zn rsz + lo) 0 (zn asz)) in *.
  set (mid := (a_start - a_end)%nat) in *.
  set (c0 := carry_phase w b lsh a asz (asz - a_start)).
  (* zeroing: agreement on [res_start, rsz) *)
  pose proof (agree_zero_range _ r0 r1 res_start rsz (agree_nil_start r0 r1 Hl)) as Z.
  assert (Z' : agree_on (fun i => (res_start <= i)%nat) (zero_range r0 res_start rsz) (zero_range r1 res_start rsz)).
  { destruct Z as [ZL ZN]. split; [exact ZL|]. intros i Hi.
    destruct (Nat.lt_ge_cases i rsz) as [H|H]; [apply ZN; right; lia|].
    destruct (zero_range_spec r0 res_start rsz) as [L0 _]. destruct (zero_range_spec r1 res_start rsz) as [L1 _].
    rewrite !nthZ_overflow by (unfold rsz in *; lia). reflexivity. }
  destruct (mid_phase_ov_agree w b lsh a res_start a_start mid _ _ c0 Z') as [MC MA].
  destruct (mid_phase w true b lsh a res_start a_start mid (zero_range r0 res_start rsz, c0)) as [r2 c2].
  destruct (mid_phase w true b lsh a res_start a_start mid (zero_range r1 res_start rsz, c0)) as [r2' c2'].
  cbn [fst snd] in MC, MA. subst c2'.
  set (c3 := if lo <? 0 then gap_phase w b (Z.to_nat (- lo) - rsz) c2 else c2).
  apply agree_all_eq.
  pose proof (top_phase_zero_agree w b lsh res_end _ r2 r2' c3 MA) as T.
  weaken T.
Qed.

(* cross radix: starts from a zeroed vector of length r0 *)
Theorem normalize_cross_indep w rb ab off a r0 r1 :
  length r0 = length r1 -> normalize_cross w rb ab off a r0 = normalize_cross w rb ab off a r1.
Proof. intros Hl. unfold normalize_cross. rewrite Hl. reflexivity. Qed.

Theorem normalize_indep w rb ab off a r0 r1 :
  length r0 = length r1 -> normalize w rb ab off a r0 = normalize w rb ab off a r1.
Proof.
  intros Hl. unfold normalize. destruct (rb =? ab).
  - f_equal. apply normalize_inter_indep. exact Hl.
  - apply normalize_cross_indep. exact Hl.
Qed.

(* ---------- lsh, overwrite ---------- *)
Theorem lsh_ov_indep w b k a r0 r1 :
  length r0 = length r1 -> lsh w true b k a r0 = lsh w true b k a r1.
Proof.
  intros Hl. unfold lsh. rewrite <- Hl.
  set (rsz := length r0). set (asz := length a).
  set (steps := Z.to_nat (k / b)). set (krem := k mod b).
  destruct (Nat.leb (Nat.max rsz asz) steps); [reflexivity|].
  set (min_size := Nat.min rsz (asz - steps)).
  set (c0 := carry_down w b krem a asz (Nat.min (steps + min_size) asz)).
  match goal with |- context [fold_left ?f (seq 0 min_size) (r0, c0)] => set (body := f) end.
  assert (H : snd (fold_left body (seq 0 min_size) (r0, c0)) = snd (fold_left body (seq 0 min_size) (r1, c0)) /\
              length (fst (fold_left body (seq 0 min_size) (r0, c0))) = rsz /\
              agree_on (fun i => False \/ (min_size - min_size <= i < min_size)%nat)
                (fst (fold_left body (seq 0 min_size) (r0, c0))) (fst (fold_left body (seq 0 min_size) (r1, c0)))).
  { apply (fold_left_seq_ind2 body
      (fun j (t t' : list Z * Z) => snd t = snd t' /\ length (fst t) = rsz /\
         agree_on (fun i => False \/ (min_size - j <= i < min_size)%nat) (fst t) (fst t'))).
    - cbn [fst snd]. split; [reflexivity|]. split; [reflexivity|].
      weaken (agree_nil_start r0 r1 Hl).
    - intros j [t c1] [t' c1'] Hj (Hc & Hlt & Ht). cbn [fst snd] in Hc, Hlt, Ht. subst c1'. unfold body. cbv zeta.
      destruct (Nat.eqb (min_size - j - 1) 0).
      + cbn [fst snd]. split; [reflexivity|]. split; [rewrite upd_length; exact Hlt|].
        rewrite (final_step_ov w b krem (nthZ t (min_size - j - 1)) (nthZ t' (min_size - j - 1))).
        eapply agree_weaken; [|apply agree_upd; exact Ht]. cbv beta. intros i Hi. intuition lia.
      + rewrite (middle_step_ov w b krem (nthZ t (min_size - j - 1)) (nthZ t' (min_size - j - 1))).
        destruct (middle_step w true b krem (nthZ t' (min_size - j - 1)) (nthZ a (min_size - j - 1 + steps)) c1) as [x c2].
        cbn [fst snd]. split; [reflexivity|]. split; [rewrite upd_length; exact Hlt|].
        weaken (agree_upd _ t t' (min_size - j - 1) x Ht). }
  destruct H as (_ & Lr & H).
  destruct (fold_left body (seq 0 min_size) (r0, c0)) as [r c]. destruct (fold_left body (seq 0 min_size) (r1, c0)) as [r' c'].
  cbn [fst] in H, Lr.
  apply agree_all_eq.
  pose proof (agree_zero_range _ r r' min_size rsz H) as Z.
  destruct (zero_range_spec r min_size rsz) as [L0 _].
  weaken Z.
Qed.

(* ---------- rsh, overwrite: starts from a zeroed vector ---------- *)
Theorem rsh_ov_indep w b k a r0 r1 :
  length r0 = length r1 -> rsh w true b k a r0 = rsh w true b k a r1.
Proof. intros Hl. unfold rsh. rewrite Hl. reflexivity. Qed.

Lemma map_const_length (A B : Type) (c : B) (l l' : list A) :
  length l = length l' -> map (fun _ => c) l = map (fun _ => c) l'.
Proof.
  revert l'; induction l as [|x l IH]; intros [|y l'] H; cbn [length map] in *; try lia; [reflexivity|].
  f_equal. apply IH. lia.
Qed.
