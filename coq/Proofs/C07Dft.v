From PV Require Import Base.MachineInt Model.Znx Model.Limbs Model.Ring Model.DftAbs.
Open Scope Z_scope.

Lemma pmul_length (a b : list Z) : length (pmul a b) = length a.
Proof. unfold pmul; rewrite map_length, seq_length; reflexivity. Qed.

Lemma mk_length rsz f : length (mk rsz f) = rsz.
Proof. unfold mk; rewrite map_length, seq_length; reflexivity. Qed.

Lemma dft_select_length n rsz step offset a : length (dft_select n rsz step offset a) = rsz.
Proof. unfold dft_select; apply mk_length. Qed.
