(* C02: the word-level (wrapping) column operations of Ring.v coincide with the exact operations of Z[X]/(X^n+1)
   whenever no 64-bit wrap occurs, and each GLWE operation of C02Ops.v is then the canonical column-wise map
   `gmap2 F` (limb (i,j) of the result = F of the zero-extended limbs (i,j) of the operands). *)
From PV Require Import Base.MachineInt Model.Znx Model.Limbs Model.Flat Model.Ring Model.DftAbs Model.C02Ops Proofs.C02Poly.
Open Scope Z_scope.

(* ---------------------------------------------------------------- well-formed ciphertexts *)
Definition wf_col (n size : nat) (c : limbs) : Prop := length c = size /\ Forall (fun l => length l = n) c.
Definition wf_glwe (n : nat) (g : glwe) : Prop :=
  g_n g = n /\ (1 <= g_ncols g)%nat /\ Forall (wf_col n (g_size g)) (g_cols g).

Lemma cl_length n size c j : wf_col n size c -> length (cl n c j) = n.
Proof.
  intros [Hl Hf]. unfold cl. destruct (Nat.ltb_spec j (length c)) as [H|H]; [|apply pzero_length].
  rewrite Forall_forall in Hf. apply Hf. apply nth_In. exact H.
Qed.
Lemma cl_nil n j : cl n [] j = pzero n.
Proof. unfold cl. cbn. destruct j; reflexivity. Qed.
Lemma cl_in n c j : (j < length c)%nat -> cl n c j = nth j c [].
Proof. intros H. unfold cl. destruct (Nat.ltb_spec j (length c)); [reflexivity|lia]. Qed.
Lemma cl_out n c j : (length c <= j)%nat -> cl n c j = pzero n.
Proof. intros H. unfold cl. destruct (Nat.ltb_spec j (length c)); [lia|reflexivity]. Qed.
Lemma wf_col_nil n : wf_col n 0 [].
Proof. split; [reflexivity|constructor]. Qed.

Lemma gcol_wf n g i : wf_glwe n g -> (i < g_ncols g)%nat -> wf_col n (g_size g) (gcol g i).
Proof.
  intros (_ & _ & Hf) Hi. rewrite Forall_forall in Hf. apply Hf. apply nth_In. exact Hi.
Qed.
Lemma gcol_out g i : (g_ncols g <= i)%nat -> gcol g i = [].
Proof. intros H. unfold gcol. apply nth_overflow. exact H. Qed.
Lemma gcol_length n g i : wf_glwe n g -> (i < g_ncols g)%nat -> length (gcol g i) = g_size g.
Proof. intros Hw Hi. apply (gcol_wf n g i Hw Hi). Qed.

(* gl is cl of the column, also for missing columns *)
Lemma gl_cl n g i j : wf_glwe n g -> gl n g i j = cl n (gcol g i) j.
Proof.
  intros Hw. unfold gl. destruct (Nat.ltb_spec i (g_ncols g)) as [Hi|Hi]; cbn [andb].
  - unfold cl. rewrite (gcol_length n g i Hw Hi). reflexivity.
  - rewrite gcol_out by exact Hi. rewrite cl_nil. reflexivity.
Qed.
Lemma gl_length n g i j : wf_glwe n g -> length (gl n g i j) = n.
Proof.
  intros Hw. rewrite gl_cl by exact Hw. destruct (Nat.lt_ge_cases i (g_ncols g)) as [Hi|Hi].
  - apply (cl_length n (g_size g)). apply gcol_wf; assumption.
  - rewrite gcol_out by exact Hi. rewrite cl_nil. apply pzero_length.
Qed.
Lemma gl_col_out n g i j : (g_ncols g <= i)%nat -> gl n g i j = pzero n.
Proof. intros H. unfold gl. destruct (Nat.ltb_spec i (g_ncols g)); [lia|reflexivity]. Qed.
Lemma gl_limb_out n g i j : (g_size g <= j)%nat -> gl n g i j = pzero n.
Proof. intros H. unfold gl. destruct (Nat.ltb_spec j (g_size g)); [lia|]. rewrite andb_false_r. reflexivity. Qed.

(* ---------------------------------------------------------------- word level = exact, limb by limb *)
Lemma vadd_length w a b : length (vadd w a b) = Nat.min (length a) (length b).
Proof. apply map2_length. Qed.
Lemma vsub_length w a b : length (vsub w a b) = Nat.min (length a) (length b).
Proof. apply map2_length. Qed.
Lemma vneg_length w a : length (vneg w a) = length a.
Proof. apply map_length. Qed.

Lemma vsub_zero_l w n y : length y = n -> vsub w (zeros n) y = vneg w y.
Proof.
  intros Hl. apply nthZ_ext; [rewrite vsub_length, vneg_length, zeros_length; lia|].
  intros i Hi. rewrite vsub_length, zeros_length in Hi.
  unfold vsub, vneg. rewrite nthZ_map2 by (rewrite ?zeros_length; lia). rewrite nthZ_map by lia.
  rewrite nthZ_zeros. unfold wsub, wneg. f_equal.
Qed.

(* sufficient condition: coefficients of magnitude below 2^62 never wrap in one add / sub / neg *)
Definition small (x : list Z) : Prop := Forall (fun c => - 2 ^ 62 < c < 2 ^ 62) x.
Lemma small_nth x i : small x -> - 2 ^ 62 < nthZ x i < 2 ^ 62.
Proof.
  intros H. destruct (Nat.lt_ge_cases i (length x)) as [Hi|Hi].
  - unfold small in H. rewrite Forall_forall in H. apply H. apply nth_In. exact Hi.
  - rewrite nthZ_overflow by exact Hi. lia.
Qed.
Lemma wrap64_id c : - 2 ^ 63 <= c < 2 ^ 63 -> wrap W64 c = c.
Proof. intros H. apply wrap_id; [unfold W64; lia|]. unfold in_range, W64. cbn [Z.sub]. exact H. Qed.

Lemma small_vadd x y : length y = length x -> small x -> small y -> vadd W64 x y = padd x y.
Proof.
  intros Hl Hx Hy. apply nthZ_ext; [rewrite vadd_length, padd_length; reflexivity|].
  intros i Hi. rewrite vadd_length in Hi. unfold vadd, padd. rewrite !nthZ_map2 by lia.
  unfold wadd. apply wrap64_id. pose proof (small_nth x i Hx). pose proof (small_nth y i Hy). lia.
Qed.
Lemma small_vsub x y : length y = length x -> small x -> small y -> vsub W64 x y = psub x y.
Proof.
  intros Hl Hx Hy. apply nthZ_ext; [rewrite vsub_length, psub_length; reflexivity|].
  intros i Hi. rewrite vsub_length in Hi. unfold vsub, psub. rewrite !nthZ_map2 by lia.
  unfold wsub. apply wrap64_id. pose proof (small_nth x i Hx). pose proof (small_nth y i Hy). lia.
Qed.
Lemma small_vneg x : small x -> vneg W64 x = pneg x.
Proof.
  intros Hx. apply nthZ_ext; [rewrite vneg_length, pneg_length; reflexivity|].
  intros i Hi. rewrite vneg_length in Hi. unfold vneg, pneg. rewrite !nthZ_map by lia.
  unfold wneg. apply wrap64_id. pose proof (small_nth x i Hx). lia.
Qed.

(* ---------------------------------------------------------------- the code's rotate is X^p when the negation does not wrap *)
Lemma nthZ_app_l (l1 l2 : list Z) i : (i < length l1)%nat -> nthZ (l1 ++ l2) i = nthZ l1 i.
Proof. intros; unfold nthZ; apply app_nth1; auto. Qed.
Lemma nthZ_app_r (l1 l2 : list Z) i : (length l1 <= i)%nat -> nthZ (l1 ++ l2) i = nthZ l2 (i - length l1).
Proof. intros; unfold nthZ; apply app_nth2; auto. Qed.
Lemma nthZ_firstn (l : list Z) s i : (i < s)%nat -> nthZ (firstn s l) i = nthZ l i.
Proof.
  revert s i; induction l as [|h t IH]; intros [|s] [|i] Hi; cbn [firstn]; try reflexivity; try lia.
  unfold nthZ in *; cbn [nth]. apply IH; lia.
Qed.
Lemma nthZ_skipn (l : list Z) s i : nthZ (skipn s l) i = nthZ l (s + i).
Proof.
  revert s; induction l as [|h t IH]; intros [|s]; cbn [skipn]; try reflexivity.
  - unfold nthZ. destruct i; reflexivity.
  - unfold nthZ in *. cbn [Nat.add nth]. apply IH.
Qed.

Definition neg_exact (w : Z) (a : list Z) : Prop := forall i, wneg w (nthZ a i) = - nthZ a i.

Lemma rotate_nth_exact w p (a : list Z) i : neg_exact w a ->
  (i < length a)%nat -> nthZ (znx_rotate w p a) i = xext a (Z.of_nat i - p).
Proof.
  intros Hneg Hi. unfold znx_rotate. cbv zeta.
  set (n := Z.of_nat (length a)).
  assert (Hn : 0 < n) by lia.
  pose proof (Z.div_mod p (2 * n) ltac:(lia)) as Hdm.
  pose proof (Z.mod_pos_bound p (2 * n) ltac:(lia)) as Hb2.
  set (m2 := p mod (2 * n)) in *. set (t := p / (2 * n)) in *.
  clearbody m2 t.
  destruct (Z.ltb_spec m2 n) as [Hlt|Hge].
  - rewrite (Z.mod_small m2 n) by lia.
    set (s := Z.to_nat (n - m2)).
    assert (Hs : (s <= length a)%nat) by lia.
    assert (Hl1 : length (vneg w (skipn s a)) = Z.to_nat m2)
      by (rewrite vneg_length, skipn_length; lia).
    destruct (Z.ltb_spec (Z.of_nat i) m2) as [Hi2|Hi2].
    + rewrite nthZ_app_l by lia. unfold vneg.
      rewrite nthZ_map by (rewrite skipn_length; lia).
      rewrite nthZ_skipn. rewrite Hneg.
      rewrite (xext_at a _ (- 2 * t - 1) (s + i)) by (fold n; lia).
      replace (- 2 * t - 1) with (1 + 2 * (- t - 1)) by ring.
      unfold sg. rewrite Z.even_add, Z.even_mul. cbn [Z.even orb Bool.eqb]. lia.
    + rewrite nthZ_app_r by lia. rewrite Hl1.
      rewrite nthZ_firstn by lia.
      rewrite (xext_at a _ (- 2 * t) (i - Z.to_nat m2)) by (fold n; lia).
      replace (- 2 * t) with (2 * (- t)) by ring.
      unfold sg. rewrite Z.even_mul. cbn [Z.even orb]. lia.
  - assert (Hm1 : m2 mod n = m2 - n).
    { symmetry. apply (Z.mod_unique_pos m2 n 1 (m2 - n)); lia. }
    rewrite Hm1.
    set (s := Z.to_nat (n - (m2 - n))).
    assert (Hs : (s <= length a)%nat) by lia.
    assert (Hl1 : length (skipn s a) = Z.to_nat (m2 - n)) by (rewrite skipn_length; lia).
    destruct (Z.ltb_spec (Z.of_nat i) (m2 - n)) as [Hi2|Hi2].
    + rewrite nthZ_app_l by lia.
      rewrite nthZ_skipn.
      rewrite (xext_at a _ (- 2 * t - 2) (s + i)) by (fold n; lia).
      replace (- 2 * t - 2) with (2 * (- t - 1)) by ring.
      unfold sg. rewrite Z.even_mul. cbn [Z.even orb]. lia.
    + rewrite nthZ_app_r by lia. rewrite Hl1. unfold vneg.
      rewrite nthZ_map by (rewrite firstn_length; lia).
      rewrite nthZ_firstn by lia. rewrite Hneg.
      rewrite (xext_at a _ (- 2 * t - 1) (i - Z.to_nat (m2 - n))) by (fold n; lia).
      replace (- 2 * t - 1) with (1 + 2 * (- t - 1)) by ring.
      unfold sg. rewrite Z.even_add, Z.even_mul. cbn [Z.even orb Bool.eqb]. lia.
Qed.

Lemma rotate_length w p (a : list Z) : length (znx_rotate w p a) = length a.
Proof.
  unfold znx_rotate. cbv zeta.
  destruct (_ <? _); rewrite app_length, ?vneg_length, firstn_length, skipn_length; lia.
Qed.

Theorem rotate_is_xmono w p a : neg_exact w a -> znx_rotate w p a = xmono p a.
Proof.
  intros H. apply nthZ_ext; [rewrite rotate_length, xmono_length; reflexivity|].
  intros i Hi. rewrite rotate_length in Hi. rewrite rotate_nth_exact, xmono_nth by auto. reflexivity.
Qed.

Lemma small_neg_exact a : small a -> neg_exact W64 a.
Proof. intros H i. unfold wneg. apply wrap64_id. pose proof (small_nth a i H). lia. Qed.
Lemma small_rotate p a : small a -> znx_rotate W64 p a = xmono p a.
Proof. intros H. apply rotate_is_xmono. apply small_neg_exact. exact H. Qed.
Lemma small_of_nth x : (forall i, - 2 ^ 62 < nthZ x i < 2 ^ 62) -> small x.
Proof.
  intros H. unfold small. rewrite Forall_forall. intros c Hc.
  destruct (In_nth x c 0 Hc) as (i & Hi & <-). apply H.
Qed.
Lemma small_pzero n : small (pzero n).
Proof. apply small_of_nth. intros i. rewrite nthZ_pzero. lia. Qed.
Lemma small_xmono p a : small a -> small (xmono p a).
Proof.
  intros H. apply small_of_nth. intros i.
  destruct (Nat.lt_ge_cases i (length a)) as [Hi|Hi].
  - rewrite xmono_nth by exact Hi. unfold xext. cbv zeta.
    pose proof (small_nth a (Z.to_nat ((Z.of_nat i - p) mod Z.of_nat (length a))) H).
    destruct (Z.even _); lia.
  - rewrite nthZ_overflow by (rewrite xmono_length; exact Hi). lia.
Qed.
Lemma small_mul_xp p a : small a -> vsub W64 (znx_rotate W64 p a) a = xmono_m1 p a.
Proof.
  intros H. rewrite small_rotate by exact H. unfold xmono_m1.
  apply small_vsub; [rewrite xmono_length; reflexivity | apply small_xmono; exact H | exact H].
Qed.

(* ---------------------------------------------------------------- columns: the size rule as zero extension *)
Section Columns.
Variable n : nat.

Lemma zlimb_pzero : zlimb n = pzero n.
Proof. reflexivity. Qed.

Lemma col_add a b r0 asz bsz : wf_col n asz a -> wf_col n bsz b ->
  (forall j, vadd W64 (cl n a j) (cl n b j) = padd (cl n a j) (cl n b j)) ->
  vec_add W64 n a b r0 = build (length r0) (fun j => padd (cl n a j) (cl n b j)).
Proof.
  intros Ha Hb Hw. unfold vec_add. apply build_ext. intros j Hj.
  pose proof (cl_length n asz a j Ha) as La. pose proof (cl_length n bsz b j Hb) as Lb.
  destruct (Nat.ltb_spec j (Nat.min (length a) (length b))) as [H1|H1].
  - rewrite <- Hw. unfold lnth. rewrite !cl_in by lia. reflexivity.
  - destruct (Nat.ltb_spec j (Nat.max (length a) (length b))) as [H2|H2].
    + destruct (Nat.leb_spec (length a) (length b)) as [H3|H3]; unfold lnth.
      * rewrite (cl_out n a) by lia. rewrite padd_pzero_l' by exact Lb. rewrite cl_in by lia. reflexivity.
      * rewrite (cl_out n b) by lia. rewrite padd_pzero_r' by exact La. rewrite cl_in by lia. reflexivity.
    + rewrite !cl_out by lia. rewrite zlimb_pzero. rewrite padd_pzero_r' by apply pzero_length. reflexivity.
Qed.

Lemma col_sub a b r0 asz bsz : wf_col n asz a -> wf_col n bsz b ->
  (forall j, vsub W64 (cl n a j) (cl n b j) = psub (cl n a j) (cl n b j)) ->
  vec_sub W64 n a b r0 = build (length r0) (fun j => psub (cl n a j) (cl n b j)).
Proof.
  intros Ha Hb Hw. unfold vec_sub. apply build_ext. intros j Hj.
  pose proof (cl_length n asz a j Ha) as La. pose proof (cl_length n bsz b j Hb) as Lb.
  destruct (Nat.ltb_spec j (Nat.min (length a) (length b))) as [H1|H1].
  - rewrite <- Hw. unfold lnth. rewrite !cl_in by lia. reflexivity.
  - destruct (Nat.ltb_spec j (Nat.max (length a) (length b))) as [H2|H2].
    + destruct (Nat.leb_spec (length a) (length b)) as [H3|H3]; unfold lnth.
      * rewrite <- Hw. rewrite (cl_out n a) by lia.
        unfold pzero. rewrite vsub_zero_l by exact Lb. rewrite cl_in by lia. reflexivity.
      * rewrite (cl_out n b) by lia. rewrite psub_pzero_r' by exact La. rewrite cl_in by lia. reflexivity.
    + rewrite !cl_out by lia. rewrite zlimb_pzero. rewrite psub_pzero_r' by apply pzero_length. reflexivity.
Qed.

Lemma col_add_assign a r0 asz rsz : wf_col n asz a -> wf_col n rsz r0 ->
  (forall j, vadd W64 (cl n r0 j) (cl n a j) = padd (cl n r0 j) (cl n a j)) ->
  vec_add_assign W64 a r0 = build (length r0) (fun j => padd (cl n r0 j) (cl n a j)).
Proof.
  intros Ha Hr Hw. unfold vec_add_assign. apply build_ext. intros j Hj.
  pose proof (cl_length n rsz r0 j Hr) as Lr.
  destruct (Nat.ltb_spec j (length a)) as [H1|H1]; unfold lnth.
  - rewrite <- Hw. rewrite !cl_in by lia. reflexivity.
  - rewrite (cl_out n a) by lia. rewrite padd_pzero_r' by exact Lr. rewrite cl_in by lia. reflexivity.
Qed.

Lemma col_sub_assign a r0 asz rsz : wf_col n asz a -> wf_col n rsz r0 ->
  (forall j, vsub W64 (cl n r0 j) (cl n a j) = psub (cl n r0 j) (cl n a j)) ->
  vec_sub_assign W64 a r0 = build (length r0) (fun j => psub (cl n r0 j) (cl n a j)).
Proof.
  intros Ha Hr Hw. unfold vec_sub_assign. apply build_ext. intros j Hj.
  pose proof (cl_length n rsz r0 j Hr) as Lr.
  destruct (Nat.ltb_spec j (length a)) as [H1|H1]; unfold lnth.
  - rewrite <- Hw. rewrite !cl_in by lia. reflexivity.
  - rewrite (cl_out n a) by lia. rewrite psub_pzero_r' by exact Lr. rewrite cl_in by lia. reflexivity.
Qed.

Lemma col_sub_negate_assign a r0 asz rsz : wf_col n asz a -> wf_col n rsz r0 ->
  (forall j, vsub W64 (cl n a j) (cl n r0 j) = psub (cl n a j) (cl n r0 j)) ->
  vec_sub_negate_assign W64 a r0 = build (length r0) (fun j => psub (cl n a j) (cl n r0 j)).
Proof.
  intros Ha Hr Hw. unfold vec_sub_negate_assign. apply build_ext. intros j Hj.
  pose proof (cl_length n rsz r0 j Hr) as Lr.
  destruct (Nat.ltb_spec j (length a)) as [H1|H1]; unfold lnth.
  - rewrite <- Hw. rewrite !cl_in by lia. reflexivity.
  - rewrite <- Hw. rewrite (cl_out n a) by lia.
    unfold pzero. rewrite vsub_zero_l by exact Lr. rewrite cl_in by lia. reflexivity.
Qed.

(* unary with zero fill *)
Lemma col_unary (f F : list Z -> list Z) a r0 :
  F (pzero n) = pzero n -> (forall j, f (cl n a j) = F (cl n a j)) ->
  vec_unary n f a r0 = build (length r0) (fun j => F (cl n a j)).
Proof.
  intros H0 Hw. unfold vec_unary. apply build_ext. intros j Hj.
  destruct (Nat.ltb_spec j (length a)) as [H1|H1]; unfold lnth.
  - rewrite <- Hw. rewrite cl_in by lia. reflexivity.
  - rewrite cl_out by lia. rewrite H0. reflexivity.
Qed.

Lemma map_as_build (f : list Z -> list Z) (r0 : limbs) : map f r0 = build (length r0) (fun j => f (nth j r0 [])).
Proof.
  apply (nth_ext _ _ [] []); [rewrite map_length, build_length; reflexivity|].
  intros j Hj. rewrite map_length in Hj. rewrite build_nth by exact Hj.
  rewrite (nth_indep _ [] (f [])) by (rewrite map_length; exact Hj). apply map_nth.
Qed.

Lemma col_unary_assign (f F : list Z -> list Z) r0 :
  (forall j, f (cl n r0 j) = F (cl n r0 j)) ->
  vec_unary_assign f r0 = build (length r0) (fun j => F (cl n r0 j)).
Proof.
  intros Hw. unfold vec_unary_assign. rewrite map_as_build. apply build_ext. intros j Hj.
  rewrite <- Hw. rewrite cl_in by lia. reflexivity.
Qed.

Lemma col_zero r0 : vec_zero n r0 = build (length r0) (fun _ => pzero n).
Proof. unfold vec_zero. rewrite map_as_build. reflexivity. Qed.

Lemma xmono_m1_pzero k : xmono_m1 k (pzero n) = pzero n.
Proof.
  unfold xmono_m1. rewrite xmono_pzero. apply psub_pzero_r'. apply pzero_length.
Qed.

Lemma col_mul_xp (k : Z) a r0 :
  (forall j, vsub W64 (znx_rotate W64 k (cl n a j)) (cl n a j) = xmono_m1 k (cl n a j)) ->
  vec_mul_xp_minus_one W64 n k a r0 = build (length r0) (fun j => xmono_m1 k (cl n a j)).
Proof.
  intros Hw. unfold vec_mul_xp_minus_one, vec_sub_assign, vec_rotate, vec_unary.
  rewrite build_length. apply build_ext. intros j Hj. unfold lnth.
  rewrite build_nth by exact Hj.
  destruct (Nat.ltb_spec j (length a)) as [H1|H1].
  - rewrite <- Hw. rewrite cl_in by lia. reflexivity.
  - rewrite cl_out by lia. rewrite xmono_m1_pzero. reflexivity.
Qed.

Lemma col_mul_xp_assign (k : Z) r0 :
  (forall j, vsub W64 (znx_rotate W64 k (cl n r0 j)) (cl n r0 j) = xmono_m1 k (cl n r0 j)) ->
  vec_mul_xp_minus_one_assign W64 k r0 = build (length r0) (fun j => xmono_m1 k (cl n r0 j)).
Proof.
  intros Hw. unfold vec_mul_xp_minus_one_assign. rewrite map_as_build. apply build_ext. intros j Hj.
  rewrite <- Hw. rewrite cl_in by lia. reflexivity.
Qed.

End Columns.
