(* C08, cross-radix normalisation: the width-64 instances of the width-generic lemmas on the inner and outer loops
   (kept under their historical names; the proofs are in Proofs/C08WCrossInner.v and Proofs/C08WCrossOuter.v). *)
From PV Require Import Base.MachineInt Model.Znx Model.Limbs Model.C08Oracle
  Proofs.ZnxDigit Proofs.C08Steps Proofs.C08Chain Proofs.C08Loops Proofs.C08Value Proofs.C08Normalize
  Proofs.C08Shift Proofs.C08CrossInner Proofs.C08CrossGeom Proofs.C08CrossOuter
  Proofs.C08WChain Proofs.C08WLoops Proofs.C08WCrossInner Proofs.C08WCrossGeom Proofs.C08WCrossOuter.
Open Scope Z_scope.

(* the inner repacking loop *)
Theorem cross_inner_spec (rb ab : Z) : 1 <= rb <= 62 -> 1 <= ab <= 62 ->
  forall (rsz a_limb fuel : nat) (s : cstate),
  pre rb ab rsz a_limb s -> c_atake s <= Z.of_nat fuel ->
  post rb rsz s (fst (cross_inner 64 fuel rb ab a_limb s)) (snd (cross_inner 64 fuel rb ab a_limb s)).
Proof.
  intros Hrb Hab rsz a_limb fuel s Hpre Hf.
  exact (cross_inner_specW 64 rb ab Hrb Hab rsz a_limb fuel s Hpre Hf).
Qed.

(* one run of the inner loop on digit t of the stream *)
Theorem entry_step (rb ab : Z) : 1 <= rb <= 62 -> 1 <= ab <= 62 ->
  forall (a : list Z) (lsh : Z) (rsz : nat) (z g lo : Z),
  0 <= z -> 0 <= g -> z = 0 \/ g = 0 -> 0 <= lo < zn (length a) ->
  (zn (length a) - lo) * ab = zn rsz * rb + g - z ->
  forall (t : nat) (s : cstate) (fuel : nat),
  Entry rb ab a lsh rsz z g t s -> (t < length a)%nat -> zn t + 1 <= zn (length a) - lo -> ab <= Z.of_nat fuel ->
  let r := cross_inner 64 fuel rb ab (length a - 1 - t) s in
  snd r <> Fuel /\ (snd r = InnerDone -> Outer rb ab a lsh rsz z g (S t) (fst r)) /\
  (snd r = OuterBreak -> Final rb ab a lsh rsz z g (c_res (fst r))).
Proof.
  intros Hrb Hab a lsh rsz z g lo Hz Hg Hzg Hlo Hgeo t s fuel HE Ht Htl Hfuel.
  exact (entry_stepW 64 rb ab Hrb Hab a lsh rsz z g lo Hz Hg Hzg Hlo Hgeo t s fuel HE Ht Htl Hfuel).
Qed.
