(* C08, cross-radix normalisation, offset >= 0: the outer loop.  Invariant: the part of the shifted input
   consumed so far = dropped low bits + res limbs (radix rb) + pending a-carry. *)
From PV Require Import Base.MachineInt Model.Znx Model.Limbs Model.C08Oracle
  Proofs.ZnxDigit Proofs.C08Steps Proofs.C08Chain Proofs.C08Loops Proofs.C08Value Proofs.C08Normalize
  Proofs.C08Shift Proofs.C08CrossInner Proofs.C08CrossGeom.
Open Scope Z_scope.

Lemma pt_bound (e k low p : Z) : 0 <= e -> 0 <= k -> 2 * Z.abs low <= 2 ^ e -> Z.abs p <= 2 ^ k - 1 ->
  Z.abs (low + 2 ^ e * p) <= 2 ^ e * 2 ^ k - 1.
Proof.
  intros He Hk Hl Hp. pose proof (pow2_pos k Hk) as Hpk.
  destruct (Z.eq_dec e 0) as [->|Hne].
  - change (2 ^ 0) with 1 in *. assert (low = 0) by lia. subst low. lia.
  - pose proof (pow2_split e ltac:(lia)) as Hs. pose proof (pow2_pos (e - 1) ltac:(lia)) as Hpe. nia.
Qed.

Section Outer.
Variables rb ab : Z.
Hypothesis Hrb : 1 <= rb <= 62.
Hypothesis Hab : 1 <= ab <= 62.
Variable a : list Z.
Hypothesis Ha : hrl a.
Variable lsh : Z.
Hypothesis Hl : 0 <= lsh < ab.
Variable rsz : nat.
Variables z g lo : Z.
Hypothesis Hz : 0 <= z.
Hypothesis Hg : 0 <= g.
Hypothesis Hzg : z = 0 \/ g = 0.
Hypothesis Hlo : 0 <= lo < zn (length a).
Hypothesis Hgeo : (zn (length a) - lo) * ab = zn rsz * rb + g - z.

Let Hab1 : 1 <= ab. Proof. lia. Qed.

Definition Lval (t : nat) : Z := ival ab (vin a lsh) t.

Lemma Lval_S (t : nat) : Lval (S t) = Lval t + vin a lsh t * 2 ^ (zn t * ab).
Proof. reflexivity. Qed.

Definition dropok (drop : Z) : Prop := Z.abs drop <= 2 ^ g /\ (g <= lsh -> drop = 0).

Definition Outer (t : nat) (s : cstate) : Prop :=
  shape rb rsz s /\ 0 < c_racc s <= rb /\ c_rcarry s = 0 /\ Z.abs (c_acarry s) <= 2 ^ 62 /\
  Fpos rb rsz s + g = z + zn t * ab /\
  exists drop, dropok drop /\
    2 ^ z * Lval t = 2 ^ z * drop + 2 ^ g * Vres rb rsz (c_res s) + 2 ^ (z + zn t * ab) * c_acarry s.

Definition Final (res : list Z) : Prop :=
  length res = rsz /\
  exists drop K, dropok drop /\
    2 ^ z * Lval (length a) = 2 ^ z * drop + 2 ^ g * Vres rb rsz res + 2 ^ (g + zn rsz * rb) * K.

Definition Entry (t : nat) (s : cstate) : Prop :=
  shape rb rsz s /\ 0 < c_racc s <= rb /\ 0 < c_atake s <= ab /\ Z.abs (c_anorm s) <= 2 ^ c_atake s /\
  Z.abs (c_acarry s) <= 2 ^ 62 /\ c_rcarry s = 0 /\
  Fpos rb rsz s + g = z + (zn t + 1) * ab - c_atake s /\
  exists drop X low, dropok drop /\
    2 ^ z * Lval (S t) = 2 ^ z * drop + 2 ^ g * Vres rb rsz (c_res s)
                         + 2 ^ (g + Fpos rb rsz s) * c_anorm s + 2 ^ (z + (zn t + 1) * ab) * c_acarry s /\
    Z.abs X <= 2 ^ 62 * 2 ^ (ab - 1) + 2 ^ 62 /\
    X = low + 2 ^ (ab - c_atake s) * c_anorm s + 2 ^ ab * c_acarry s /\
    2 * Z.abs low <= 2 ^ (ab - c_atake s).

(* one run of the inner loop on digit t *)
Lemma entry_step (t : nat) (s : cstate) (fuel : nat) :
  Entry t s -> (t < length a)%nat -> zn t + 1 <= zn (length a) - lo -> ab <= Z.of_nat fuel ->
  let r := cross_inner 64 fuel rb ab (length a - 1 - t) s in
  snd r <> Fuel /\ (snd r = InnerDone -> Outer (S t) (fst r)) /\ (snd r = OuterBreak -> Final (c_res (fst r))).
Proof.
  intros (Sh & Hr & Hat & Hn & Hc & Hrc & HF & drop & X & low & Hdrop & EV & HX & EX & Hlow) Ht Htl Hfuel.
  cbv zeta.
  assert (HF0 : 0 <= Fpos rb rsz s).
  { apply Fpos_nonneg; [lia|apply Sh|lia]. }
  assert (Hpre : pre rb ab rsz (length a - 1 - t) s).
  { unfold pre. split; [exact Sh|]. split; [exact Hr|]. split; [exact Hat|]. split; [exact Hn|].
    split; [exact Hc|]. split; [exact Hrc|]. intros E0.
    assert (Elo : lo = 0) by (unfold zn in *; lia).
    rewrite Elo in Hgeo. assert (zn t + 1 = zn (length a)) by (unfold zn in *; lia).
    clear - HF Hgeo H. rewrite H in HF. lia. }
  pose proof (cross_inner_spec rb ab Hrb Hab rsz (length a - 1 - t) fuel s Hpre ltac:(lia)) as (P1 & P2 & P3).
  set (s' := fst (cross_inner 64 fuel rb ab (length a - 1 - t) s)) in *.
  set (o := snd (cross_inner 64 fuel rb ab (length a - 1 - t) s)) in *.
  clearbody s' o. clear Hpre.
  split; [exact P1|]. split.
  - intros Ho. destruct (P2 Ho) as (Pi & Q1 & Q2 & Q3 & Q4 & Q5 & Q6 & Q7 & Q8). clear P2 P3.
    set (Dl := c_acarry s' - c_acarry s) in *.
    assert (Eacc : c_acarry s' = c_acarry s + Dl) by (unfold Dl; ring).
    set (e := ab - c_atake s) in *.
    assert (He : 0 <= e) by (unfold e; lia).
    assert (Eab : 2 ^ ab = 2 ^ e * 2 ^ c_atake s).
    { rewrite <- pow2_add by lia. f_equal. unfold e. ring. }
    unfold Outer. split; [exact Q5|]. split; [exact Q6|]. split; [exact Q7|]. split.
    { (* bound of the new carry *)
      apply (carry_after_pieces ab (2 ^ 62) X (low + 2 ^ e * Pi) (c_acarry s')); [lia|cbn; lia|exact HX| |].
      - rewrite EX, Q1, Eacc, Eab. ring.
      - rewrite Eab. apply pt_bound; [exact He|lia|exact Hlow|exact Q2]. }
    split.
    { rewrite Q4. replace (zn (S t)) with (zn t + 1) by (unfold zn; lia). clear - HF. lia. }
    exists drop. split; [exact Hdrop|].
    replace (zn (S t)) with (zn t + 1) by (unfold zn; lia).
    rewrite EV, Q3, Q1, Eacc.
    assert (EgF : 2 ^ (g + Fpos rb rsz s) = 2 ^ g * 2 ^ Fpos rb rsz s) by (apply pow2_add; lia).
    assert (ET : 2 ^ (z + (zn t + 1) * ab) = 2 ^ (g + Fpos rb rsz s) * 2 ^ c_atake s).
    { rewrite <- pow2_add by lia. f_equal. clear - HF. lia. }
    rewrite ET, EgF. ring.
  - intros Ho. destruct (P3 Ho) as (Q0 & QL & K & Q). clear P2 P3.
    unfold Final. split; [exact QL|].
    destruct (ival_split ab Hab1 (vin a lsh) (length a) (fun u Hu => vin_zero a lsh u Hu) (S t)) as [Y HY].
    fold (Lval (length a)) in HY. fold (Lval (S t)) in HY.
    set (e2 := Fpos rb rsz s + c_atake s - zn rsz * rb).
    assert (He2 : 0 <= e2) by (unfold e2; lia).
    exists drop, (- K + 2 ^ e2 * (c_acarry s + Y)). split; [exact Hdrop|].
    rewrite HY, Z.mul_add_distr_l, EV, Q.
    assert (EgF : 2 ^ (g + Fpos rb rsz s) = 2 ^ g * 2 ^ Fpos rb rsz s) by (apply pow2_add; lia).
    assert (ER : 2 ^ (g + zn rsz * rb) = 2 ^ g * 2 ^ (zn rsz * rb)) by (apply pow2_add; unfold zn; nia).
    assert (ET : 2 ^ (z + (zn t + 1) * ab) = 2 ^ (g + zn rsz * rb) * 2 ^ e2).
    { rewrite <- pow2_add by (unfold zn in *; nia). f_equal. unfold e2. clear - HF. lia. }
    assert (ES : 2 ^ z * 2 ^ (zn (S t) * ab) = 2 ^ (z + (zn t + 1) * ab)).
    { rewrite <- pow2_add by (unfold zn; nia). f_equal. unfold zn. lia. }
    replace (2 ^ z * (2 ^ (zn (S t) * ab) * Y)) with (2 ^ z * 2 ^ (zn (S t) * ab) * Y) by ring.
    rewrite ES, ET, EgF, ER. ring.
Qed.

End Outer.
