(* C08, cross-radix normalisation, offset >= 0: the outer loop.  Invariant: the part of the shifted input
   consumed so far = dropped low bits + res limbs (radix rb) + pending a-carry. *)
From PV Require Import Base.MachineInt Model.Znx Model.Limbs Model.C08Oracle
  Proofs.ZnxDigit Proofs.C08Steps Proofs.C08Chain Proofs.C08Loops Proofs.C08Value Proofs.C08Normalize
  Proofs.C08Shift Proofs.C08CrossInner Proofs.C08CrossGeom.
Open Scope Z_scope.

Lemma pt_bound (e k low p : Z) : 0 <= e -> 0 <= k -> 2 * Z.abs low <= 2 ^ e -> Z.abs p <= 2 ^ k - 1 ->
  Z.abs (low + 2 ^ e * p) <= 2 ^ e * 2 ^ k - 1.
Proof.
  intros He Hk Hl Hp. pose proof (pow2_pos k Hk) as Hpk.
  destruct (Z.eq_dec e 0) as [->|Hne].
  - change (2 ^ 0) with 1 in *. assert (low = 0) by lia. subst low. lia.
  - pose proof (pow2_split e ltac:(lia)) as Hs. pose proof (pow2_pos (e - 1) ltac:(lia)) as Hpe. nia.
Qed.

Section Outer.
Variables rb ab : Z.
Hypothesis Hrb : 1 <= rb <= 62.
Hypothesis Hab : 1 <= ab <= 62.
Variable a : list Z.
Hypothesis Ha : hrl a.
Variable lsh : Z.
Hypothesis Hl : 0 <= lsh < ab.
Variable rsz : nat.
Variables z g lo : Z.
Hypothesis Hz : 0 <= z.
Hypothesis Hg : 0 <= g.
Hypothesis Hzg : z = 0 \/ g = 0.
Hypothesis Hlo : 0 <= lo < zn (length a).
Hypothesis Hgeo : (zn (length a) - lo) * ab = zn rsz * rb + g - z.

Let Hab1 : 1 <= ab. Proof. lia. Qed.

Definition Lval (t : nat) : Z := ival ab (vin a lsh) t.

Lemma Lval_S (t : nat) : Lval (S t) = Lval t + vin a lsh t * 2 ^ (zn t * ab).
Proof. reflexivity. Qed.

Definition dropok (drop : Z) : Prop := Z.abs drop <= 2 ^ g /\ (g <= lsh -> drop = 0).

Definition Outer (t : nat) (s : cstate) : Prop :=
  shape rb rsz s /\ 0 < c_racc s <= rb /\ c_rcarry s = 0 /\ Z.abs (c_acarry s) <= 2 ^ 62 /\
  Fpos rb rsz s + g = z + zn t * ab /\
  exists drop, dropok drop /\
    2 ^ z * Lval t = 2 ^ z * drop + 2 ^ g * Vres rb rsz (c_res s) + 2 ^ (z + zn t * ab) * c_acarry s.

Definition Final (res : list Z) : Prop :=
  length res = rsz /\
  exists drop K, dropok drop /\
    2 ^ z * Lval (length a) = 2 ^ z * drop + 2 ^ g * Vres rb rsz res + 2 ^ (g + zn rsz * rb) * K.

Definition Entry (t : nat) (s : cstate) : Prop :=
  shape rb rsz s /\ 0 < c_racc s <= rb /\ 0 < c_atake s <= ab /\ Z.abs (c_anorm s) <= 2 ^ c_atake s /\
  Z.abs (c_acarry s) <= 2 ^ 62 /\ c_rcarry s = 0 /\
  Fpos rb rsz s + g = z + (zn t + 1) * ab - c_atake s /\
  exists drop X low, dropok drop /\
    2 ^ z * Lval (S t) = 2 ^ z * drop + 2 ^ g * Vres rb rsz (c_res s)
                         + 2 ^ (g + Fpos rb rsz s) * c_anorm s + 2 ^ (z + (zn t + 1) * ab) * c_acarry s /\
    Z.abs X <= 2 ^ 62 * 2 ^ (ab - 1) + 2 ^ 62 /\
    X = low + 2 ^ (ab - c_atake s) * c_anorm s + 2 ^ ab * c_acarry s /\
    2 * Z.abs low <= 2 ^ (ab - c_atake s).

(* `entry_step` (one run of the inner loop on digit t: Entry -> Outer / Final) is proved for every word width in
   Proofs/C08WCrossOuter.v (`entry_stepW`); its instance at width 64 is in Proofs/C08Cross64.v. *)

End Outer.
