(* C07 part B: the baa accumulator (q120a x q120a). *)
From PV Require Import Base.MachineInt Model.C07Ntt120 Proofs.C07Ntt Proofs.C07Lazy Proofs.C07LazyBbb.
Open Scope Z_scope.

Definition baa_pair_ok (p : Z * Z) : Prop := is_u32 (fst p) /\ is_u32 (snd p).
Definition baa_dot (xy : list (Z * Z)) : Z := lsum (map (fun p => fst p * snd p) xy).
Definition baa_exact (h q : Z) (xy : list (Z * Z)) : Z :=
  lsum (map (fun p => (fst p * snd p) mod 2 ^ h) xy) + lsum (map (fun p => (fst p * snd p) / 2 ^ h) xy) * pow2_mod h q.

Section Baa.
Variables (h q : Z) (xy : list (Z * Z)).
Hypothesis Hh : 45 <= h <= 47.           (* BaaMeta::new finds 46 / 47 / 45 for Primes29 / 30 / 31 *)
Hypothesis Hq : 2 ^ 15 <= q < 2 ^ 31.
Hypothesis Hell : Z.of_nat (length xy) <= baa_max_ell.
Hypothesis Hok : forall p, In p xy -> baa_pair_ok p.

Let lo (p : Z * Z) := (fst p * snd p) mod 2 ^ h.
Let hi (p : Z * Z) := (fst p * snd p) / 2 ^ h.

Lemma baa_term p : baa_pair_ok p -> u64 (fst p * snd p) = fst p * snd p /\ 0 <= lo p <= 2 ^ 47 - 1 /\ 0 <= hi p <= 2 ^ 19 - 1.
Proof.
  intros [Hx Hy]. pose proof (mul_u32_bound _ _ Hx Hy) as B.
  assert (H2h : 2 ^ 45 <= 2 ^ h <= 2 ^ 47) by (split; apply Z.pow_le_mono_r; lia).
  change (2 ^ 32) with 4294967296 in B. change (2 ^ 45) with 35184372088832 in H2h. change (2 ^ 47) with 140737488355328 in *.
  change (2 ^ 19) with 524288.
  split; [apply u64_id; change (2 ^ 64) with 18446744073709551616; lia|].
  unfold lo, hi. set (t := fst p * snd p) in *. set (H := 2 ^ h) in *.
  pose proof (Z.mod_pos_bound t H ltac:(lia)). split; [lia|].
  split; [apply Z.div_pos; lia|].
  assert (t / H < 524288); [|lia]. apply Z.div_lt_upper_bound; [lia|]. nia.
Qed.

Theorem lazy_budget_baa : baa_k h q xy = baa_exact h q xy /\ 0 <= baa_exact h q xy < 2 ^ 64.
Proof.
  unfold baa_max_ell in Hell.
  assert (E : map (fun p => u64 (fst p * snd p)) xy = map (fun p => fst p * snd p) xy)
    by (apply map_ext_in; intros p Hp; apply (baa_term p (Hok p Hp))).
  unfold baa_k, baa_exact. cbv zeta. rewrite E, !map_map. fold lo hi.
  change (map (fun x => (fst x * snd x) mod 2 ^ h) xy) with (map lo xy).
  change (map (fun x => (fst x * snd x) / 2 ^ h) xy) with (map hi xy).
  assert (L1 : 0 <= lsum (map lo xy) <= Z.of_nat (length (map lo xy)) * (2 ^ 47 - 1))
    by (apply lsum_bounds, in_map_bound; intros p Hp; apply (baa_term p (Hok p Hp))).
  assert (L2 : 0 <= lsum (map hi xy) <= Z.of_nat (length (map hi xy)) * (2 ^ 19 - 1))
    by (apply lsum_bounds, in_map_bound; intros p Hp; apply (baa_term p (Hok p Hp))).
  rewrite map_length in L1, L2.
  change (2 ^ 47) with 140737488355328 in *. change (2 ^ 19) with 524288 in *.
  assert (A1 : 0 <= lsum (map lo xy) <= 10000 * 140737488355327) by nia.
  assert (A2 : 0 <= lsum (map hi xy) <= 10000 * 524287) by nia.
  assert (T64 : 2 ^ 64 = 18446744073709551616) by reflexivity.
  rewrite (sum64_exact (map lo xy)), (sum64_exact (map hi xy));
    try (intros t Ht; apply in_map_iff in Ht as (p & <- & Hp); apply (baa_term p (Hok p Hp))); try (rewrite T64; lia).
  assert (Hq' : 0 < q) by (change (2 ^ 15) with 32768 in Hq; lia).
  unfold pow2_mod. pose proof (Z.mod_pos_bound (2 ^ h) q Hq') as P. set (ph := 2 ^ h mod q) in *.
  change (2 ^ 31) with 2147483648 in Hq.
  assert (A3 : 0 <= lsum (map hi xy) * ph <= 5242870000 * 2147483647) by (apply mul_bound; lia).
  rewrite (u64_id (_ * ph)) by (rewrite T64; lia).
  rewrite u64_id by (rewrite T64; lia).
  split; [reflexivity|rewrite T64; lia].
Qed.

Theorem baa_congr : baa_k h q xy mod q = baa_dot xy mod q.
Proof.
  destruct lazy_budget_baa as [-> _]. unfold baa_exact, baa_dot, pow2_mod.
  assert (Hq' : 0 < q) by (change (2 ^ 15) with 32768 in Hq; lia).
  assert (Hp : 0 < 2 ^ h) by (apply pow2_pos; lia).
  rewrite (lsum_map_ext (fun p => fst p * snd p) (fun p => (fst p * snd p) mod 2 ^ h + 2 ^ h * ((fst p * snd p) / 2 ^ h)))
    by (intros p _; pose proof (Z.div_mod (fst p * snd p) (2 ^ h) ltac:(lia)); lia).
  rewrite lsum_map_add, lsum_map_scale.
  rewrite Z.add_mod, Z.mul_mod_idemp_r, <- Z.add_mod by lia. f_equal. ring.
Qed.
End Baa.

Lemma generated_baa_h : forall ps, In ps three_sets -> 45 <= ps_baa_h ps <= 47.
Proof. intros ps Hin. cbn [In three_sets] in Hin. destruct Hin as [<-|[<-|[<-|[]]]]; vm_compute; split; discriminate. Qed.
