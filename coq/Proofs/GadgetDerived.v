(* Phase-level theorems for the DERIVED operations (definitions: Model/GadgetDerived.v).
   (C3) sample_extract_phase, rotate_selects, lwe_from_glwe_phase, glwe_from_lwe_phase
   (C2) pack_error_bound (the (2^L - 1) factor over an abstract merge tree), pack_slot_placement, packer_slot_placement (bitrev),
        sigmaE_monomial_flip, pack_merge_level
   (C4) ggsw_expand_row_cells_lemma (on the model), ggsw_keyswitch_cells_lemma, ggsw_automorphism_cells_lemma
   (C1) trace_op_span, trace_level_coeff (projection per level), trace_phase_lemma *)
From Coq Require Import Znumtheory.
From PV Require Import Base.MachineInt Model.Znx Model.Limbs Model.Flat Model.Ring Model.Poly Model.DftAbs Model.Gadget Model.GadgetSpec Model.GadgetDerived
  Proofs.C07Dft Proofs.C07Ring Proofs.C09Lists Proofs.C09Sigma Proofs.GadgetDecomp Proofs.GadgetPhase Proofs.GadgetBound Proofs.C03Phase Proofs.C04Phase Proofs.GadgetSigma.
Open Scope Z_scope.

(* ================================================================================================================ *)
(* (C3) sample extraction, lwe_from_glwe, glwe_from_lwe : exact algebraic facts *)
Section Extract.
Lemma gcd_m1 m : Z.gcd (-1) m = 1.
Proof. change (-1) with (Z.opp 1). rewrite Z.gcd_opp_l. apply Z.gcd_1_l. Qed.


Lemma nthZ_app_zeros (s : list Z) k i : nthZ (s ++ zeros k) i = nthZ s i.
Proof.
  unfold nthZ. destruct (Nat.lt_ge_cases i (length s)) as [H|H].
  - apply app_nth1; exact H.
  - rewrite app_nth2 by exact H. rewrite (nth_overflow s) by exact H. apply nth_pzero.
Qed.

(* coefficient 0 of  a (x) sigma_{-1}(s padded with zeros)  is the LWE inner product  sum_{i<nl} a_i s_i *)
Theorem sample_extract_phase (n : nat) (a s : list Z) : (0 < n)%nat -> length a = n -> (length s <= n)%nat ->
  nth 0 (pmul a (sigmaE (-1) (s ++ zeros (n - length s)))) 0 = lwe_dot a s (length s).
Proof.
  intros Hn Ha Hs. set (sp := s ++ zeros (n - length s)).
  assert (Lsp : length sp = n) by (unfold sp, zeros; rewrite app_length, repeat_length; lia).
  rewrite pmul_spec by (rewrite ?sigmaE_length; lia). rewrite Ha.
  assert (E : forall i, (i < n)%nat -> ext' (sigmaE (-1) sp) (Z.of_nat 0 - Z.of_nat i) = nthZ s i).
  { intros i Hi. replace (Z.of_nat 0 - Z.of_nat i) with (Z.of_nat i * -1) by lia.
    rewrite ext'_sigmaE by (rewrite ?Lsp; try apply gcd_m1; lia).
    rewrite ext'_nth by lia. apply nthZ_app_zeros. }
  rewrite (zsum_ext _ (fun i => nthZ a i * nthZ s i) n) by (intros i Hi; rewrite E by exact Hi; reflexivity).
  change (lwe_dot a s (length s)) with (zsum (fun i => nthZ a i * nthZ s i) (length s)).
  replace n with (length s + (n - length s))%nat at 1 by lia.
  rewrite zsum_app. rewrite (zsum_none (fun i => nthZ a (length s + i) * nthZ s (length s + i))); [lia|].
  intros j _. unfold nthZ at 2. rewrite nth_overflow by lia. ring.
Qed.

(* multiplication by X^p on the whole extension *)
Lemma ext'_monomial p (a : list Z) k : (0 < length a)%nat -> ext' (monomial_mul' p a) k = ext' a (k - p).
Proof.
  intros Hl. set (n := Z.of_nat (length a)). assert (Hn : 0 < n) by (unfold n; lia).
  assert (Lm : length (monomial_mul' p a) = length a) by (unfold monomial_mul'; rewrite map_length, seq_length; reflexivity).
  pose proof (Z.div_mod k n ltac:(lia)) as E. pose proof (Z.mod_pos_bound k n Hn) as Hr.
  set (q := k / n) in *. set (r := k mod n) in *.
  replace k with (r + q * Z.of_nat (length (monomial_mul' p a))) at 1 by (rewrite Lm; fold n; lia).
  rewrite ext'_shift by lia.
  replace (k - p) with ((r - p) + q * Z.of_nat (length a)) by (fold n; lia).
  rewrite (ext'_shift a) by exact Hl.
  assert (E0 : ext' (monomial_mul' p a) r = ext' a (r - p)).
  { rewrite <- (Z2Nat.id r) by lia. rewrite ext'_nth by lia.
    unfold monomial_mul', nthZ. rewrite nth_map_seq by lia. reflexivity. }
  rewrite E0. reflexivity.
Qed.

(* rotation by -idx brings coefficient idx to position 0 *)
Theorem rotate_selects (x : list Z) (idx : nat) : (idx < length x)%nat ->
  nth 0 (monomial_mul' (- Z.of_nat idx) x) 0 = nthZ x idx.
Proof.
  intros H. change (nth 0 (monomial_mul' (- Z.of_nat idx) x) 0) with (nthZ (monomial_mul' (- Z.of_nat idx) x) 0).
  rewrite <- (ext'_nth (monomial_mul' (- Z.of_nat idx) x) 0) by (unfold monomial_mul'; rewrite map_length, seq_length; lia).
  rewrite ext'_monomial by lia. replace (Z.of_nat 0 - - Z.of_nat idx) with (Z.of_nat idx) by lia. apply ext'_nth; exact H.
Qed.

(* lwe_from_glwe(idx) = rotate by -idx, key-switch, extract coefficient 0 : the LWE phase is coefficient idx of the GLWE phase
   plus coefficient 0 of the key-switch error *)
Theorem lwe_from_glwe_phase (P : Z) (n idx : nat) (ph_in ph_rot ph_ks E I : list Z) :
  length ph_in = n -> (idx < n)%nat -> length E = n -> length I = n ->
  ph_rot = monomial_mul' (- Z.of_nat idx) ph_in ->
  ph_ks = padd (padd ph_rot E) (pscale (2 ^ P) I) ->
  nth 0 ph_ks 0 = nthZ ph_in idx + nth 0 E 0 + 2 ^ P * nth 0 I 0 /\ Z.abs (nth 0 E 0) <= pnorm E.
Proof.
  intros L1 Hi L2 L3 -> ->. split; [|apply pnorm_nth].
  assert (Lm : length (monomial_mul' (- Z.of_nat idx) ph_in) = n) by (unfold monomial_mul'; rewrite map_length, seq_length; exact L1).
  rewrite nth_padd by (rewrite padd_length, pscale_length; lia).
  rewrite nth_padd by lia. rewrite nth_pscale, rotate_selects by lia. reflexivity.
Qed.

(* glwe_from_lwe : the LWE sample embedded as a GLWE whose phase has the LWE phase as coefficient 0, then key-switched *)
Theorem glwe_from_lwe_phase (P : Z) (n : nat) (lwe_phase : Z) (ph_emb ph_out E I : list Z) :
  (0 < n)%nat -> length ph_emb = n -> length E = n -> length I = n ->
  nth 0 ph_emb 0 = lwe_phase ->
  ph_out = padd (padd ph_emb E) (pscale (2 ^ P) I) ->
  nth 0 ph_out 0 = lwe_phase + nth 0 E 0 + 2 ^ P * nth 0 I 0 /\ Z.abs (nth 0 E 0) <= pnorm E.
Proof.
  intros Hn L1 L2 L3 H0 ->. split; [|apply pnorm_nth].
  rewrite nth_padd by (rewrite padd_length, pscale_length; lia).
  rewrite nth_padd by lia. rewrite nth_pscale, H0. reflexivity.
Qed.
End Extract.


(* ================================================================================================================ *)
(* (C2) packing *)

Section PackError.
Lemma merge_err_le lvl t x : merge_err lvl t x -> x <= merr lvl t.
Proof. induction 1 as [e x H|l r xl xr x Hl IHl Hr IHr H]; cbn [merr]; lia. Qed.

(* the (2^L - 1) factor: a tree of depth L has at most 2^L leaves and 2^L - 1 merges *)
Theorem merr_bound lvl e0 t : 0 <= lvl -> 0 <= e0 -> mleaves_le e0 t ->
  merr lvl t <= 2 ^ Z.of_nat (mdepth t) * e0 + (2 ^ Z.of_nat (mdepth t) - 1) * lvl.
Proof.
  intros Hl He. induction t as [e|l IHl r IHr]; intros H; cbn [merr mdepth mleaves_le] in *.
  - change (Z.of_nat 0) with 0. rewrite Z.pow_0_r. lia.
  - destruct H as [H1 H2]. specialize (IHl H1). specialize (IHr H2).
    set (d := Nat.max (mdepth l) (mdepth r)).
    assert (Dl : 2 ^ Z.of_nat (mdepth l) <= 2 ^ Z.of_nat d) by (apply Z.pow_le_mono_r; unfold d; lia).
    assert (Dr : 2 ^ Z.of_nat (mdepth r) <= 2 ^ Z.of_nat d) by (apply Z.pow_le_mono_r; unfold d; lia).
    assert (P1 : 1 <= 2 ^ Z.of_nat (mdepth l)) by (pose proof (pow2_pos (Z.of_nat (mdepth l)) ltac:(lia)); lia).
    assert (P2 : 1 <= 2 ^ Z.of_nat (mdepth r)) by (pose proof (pow2_pos (Z.of_nat (mdepth r)) ltac:(lia)); lia).
    replace (Z.of_nat (S d)) with (Z.of_nat d + 1) by lia. rewrite Z.pow_add_r by lia. change (2 ^ 1) with 2.
    nia.
Qed.

Theorem pack_error_bound lvl e0 t x (L : nat) : 0 <= lvl -> 0 <= e0 -> mleaves_le e0 t -> (mdepth t <= L)%nat ->
  merge_err lvl t x -> x <= 2 ^ Z.of_nat L * e0 + (2 ^ Z.of_nat L - 1) * lvl.
Proof.
  intros Hl He Hle HL Hm. pose proof (merge_err_le lvl t x Hm). pose proof (merr_bound lvl e0 t Hl He Hle).
  assert (D : 2 ^ Z.of_nat (mdepth t) <= 2 ^ Z.of_nat L) by (apply Z.pow_le_mono_r; lia).
  assert (P1 : 1 <= 2 ^ Z.of_nat (mdepth t)) by (pose proof (pow2_pos (Z.of_nat (mdepth t)) ltac:(lia)); lia).
  nia.
Qed.

(* fresh inputs (e0 = 0): err_L <= (2^L - 1) * lvl *)
Corollary pack_error_bound_fresh lvl t x (L : nat) : 0 <= lvl -> mleaves_le 0 t -> (mdepth t <= L)%nat ->
  merge_err lvl t x -> x <= (2 ^ Z.of_nat L - 1) * lvl.
Proof. intros. pose proof (pack_error_bound lvl 0 t x L ltac:(lia) ltac:(lia) H0 H1 H2). lia. Qed.
End PackError.

Section Slots.
Lemma pack_shifts_S L : pack_shifts (S L) = (2 ^ L)%nat :: pack_shifts L.
Proof.
  unfold pack_shifts. cbn [seq map]. f_equal; [f_equal; lia|].
  rewrite <- seq_shift, map_map. apply map_ext. intros i. f_equal. lia.
Qed.

Lemma pack_fold L : forall s off, (s < 2 ^ L)%nat -> fold_left pack_step (pack_shifts L) (s, off) = (0, off + s)%nat.
Proof.
  induction L as [|L IH]; intros s off Hs.
  - cbn in Hs. cbn. f_equal; lia.
  - rewrite pack_shifts_S. cbn [fold_left]. unfold pack_step at 2. cbn [fst snd].
    rewrite Nat.pow_succ_r' in Hs.
    destruct (Nat.leb_spec (2 ^ L) s) as [G|G].
    + rewrite IH by lia. f_equal. lia.
    + apply IH. exact G.
Qed.

(* glwe_pack: the input of slot s ends in slot 0 with its constant coefficient at coefficient s *)
Theorem pack_slot_placement L s : (s < 2 ^ L)%nat -> pack_pos L s = (0%nat, s).
Proof. intros H. unfold pack_pos. rewrite pack_fold by exact H. reflexivity. Qed.

Lemma packer_fold L : forall k off, 
  fold_left (fun off i => if Nat.odd (k / 2 ^ i) then off + 2 ^ (L - 1 - i) else off)%nat (seq 0 L) off = (off + bitrev L k)%nat.
Proof.
  induction L as [|L IH]; intros k off; [cbn; lia|].
  cbn [seq fold_left bitrev]. rewrite <- seq_shift, fold_left_map'.
  rewrite (fold_left_ext2 _ (fun off i => if Nat.odd ((k / 2) / 2 ^ i) then off + 2 ^ (L - 1 - i) else off)%nat).
  2:{ intros a i. rewrite Nat.pow_succ_r', <- Nat.div_div by (try apply Nat.pow_nonzero; lia).
      replace (S L - 1 - S i)%nat with (L - 1 - i)%nat by lia. reflexivity. }
  rewrite IH. cbn [Nat.pow]. rewrite Nat.div_1_r. replace (S L - 1 - 0)%nat with L by lia.
  rewrite <- Nat.bit0_mod, Nat.bit0_odd. destruct (Nat.odd k); cbn [Nat.b2n]; lia.
Qed.

(* the streaming packer: the k-th input ends at coefficient bitrev_L(k) *)
Theorem packer_slot_placement L k : packer_pos L k = bitrev L k.
Proof. unfold packer_pos. rewrite packer_fold. reflexivity. Qed.

Lemma bitrev_lt L : forall k, (bitrev L k < 2 ^ L)%nat.
Proof.
  induction L as [|L IH]; intros k; cbn [bitrev]; [cbn; lia|].
  pose proof (IH (k / 2)%nat). pose proof (Nat.mod_upper_bound k 2 ltac:(lia)). rewrite Nat.pow_succ_r'. nia.
Qed.
End Slots.


(* per-coefficient action of sigma_g : fixed / negated positions (the projection facts behind trace and packing) *)
Section SigmaCoeff.
Variables (n : nat) (g : Z).
Hypothesis Hn : (0 < n)%nat.
Hypothesis Hg : Z.gcd g (2 * Z.of_nat n) = 1.

Lemma monomial_length p (a : list Z) : length (monomial_mul' p a) = length a.
Proof. unfold monomial_mul'. rewrite map_length, seq_length. reflexivity. Qed.

(* j g = j (mod 2n) : coefficient j is fixed *)
Theorem sigmaE_fixed_coeff (a : list Z) (j : nat) s : length a = n -> (j < n)%nat -> Z.of_nat j * g = Z.of_nat j + s * (2 * Z.of_nat n) ->
  nthZ (sigmaE g a) j = nthZ a j.
Proof.
  intros Ha Hj E. assert (Ls : length (sigmaE g a) = n) by (rewrite sigmaE_length; exact Ha).
  rewrite <- (ext'_nth (sigmaE g a) j) by lia. rewrite <- (ext'_nth a j) by lia.
  rewrite <- (ext'_sigmaE g a (Z.of_nat j)) by (rewrite ?Ha; assumption || lia).
  rewrite E. rewrite <- Ls. symmetry. apply ext'_period. lia.
Qed.

(* j g = j + n (mod 2n) : coefficient j is negated *)
Theorem sigmaE_negated_coeff (a : list Z) (j : nat) s : length a = n -> (j < n)%nat ->
  Z.of_nat j * g = Z.of_nat j + Z.of_nat n + s * (2 * Z.of_nat n) -> nthZ (sigmaE g a) j = - nthZ a j.
Proof.
  intros Ha Hj E. assert (Ls : length (sigmaE g a) = n) by (rewrite sigmaE_length; exact Ha).
  rewrite <- (ext'_nth (sigmaE g a) j) by lia. rewrite <- (ext'_nth a j) by lia.
  rewrite <- (ext'_sigmaE g a (Z.of_nat j)) by (rewrite ?Ha; assumption || lia).
  rewrite E.
  replace (Z.of_nat j + Z.of_nat n + s * (2 * Z.of_nat n)) with (Z.of_nat j + (2 * s + 1) * Z.of_nat (length (sigmaE g a))) by (rewrite Ls; lia).
  rewrite ext'_shift by lia.
  replace (Z.even (2 * s + 1)) with false; [lia|].
  symmetry. rewrite Z.add_comm. apply Z.even_add_mul_2.
Qed.

(* (x + sigma_g x) : 2 x_j at the fixed positions, 0 at the negated ones *)
Corollary trace_level_coeff (x : list Z) (j : nat) s : length x = n -> (j < n)%nat ->
  (Z.of_nat j * g = Z.of_nat j + s * (2 * Z.of_nat n) -> nth j (padd x (sigmaE g x)) 0 = 2 * nthZ x j) /\
  (Z.of_nat j * g = Z.of_nat j + Z.of_nat n + s * (2 * Z.of_nat n) -> nth j (padd x (sigmaE g x)) 0 = 0).
Proof.
  intros Hx Hj. split; intros E; rewrite nth_padd by (rewrite sigmaE_length; reflexivity).
  - change (nth j (sigmaE g x) 0) with (nthZ (sigmaE g x) j). rewrite (sigmaE_fixed_coeff x j s Hx Hj E). unfold nthZ. lia.
  - change (nth j (sigmaE g x) 0) with (nthZ (sigmaE g x) j). rewrite (sigmaE_negated_coeff x j s Hx Hj E). unfold nthZ. lia.
Qed.

(* sigma_g (X^t b) = - X^t sigma_g(b)  when  t g = t + n (mod 2n)   [AUTO(a X^t, g) = -X^t AUTO(a, g) of pack_internal] *)
Theorem sigmaE_monomial_flip (b : list Z) (t s : Z) : length b = n -> t * g = t + Z.of_nat n + s * (2 * Z.of_nat n) ->
  sigmaE g (monomial_mul' t b) = pneg (monomial_mul' t (sigmaE g b)).
Proof.
  intros Hb E. symmetry.
  assert (Lm : length (monomial_mul' t b) = n) by (rewrite monomial_length; exact Hb).
  apply sigmaE_unique.
  - rewrite Lm. exact Hg.
  - rewrite Lm. exact Hn.
  - rewrite pneg_length, !monomial_length, sigmaE_length. reflexivity.
  - intros k. rewrite ext'_pneg, !ext'_monomial by (rewrite ?sigmaE_length; lia).
    rewrite <- (ext'_sigmaE g b (k - t)) by (rewrite ?Hb; assumption || lia).
    replace ((k - t) * g) with ((k * g - t) + (- (2 * s) - 1) * Z.of_nat (length (sigmaE g b))) by (rewrite sigmaE_length, Hb; nia).
    rewrite ext'_shift by (rewrite sigmaE_length; lia).
    replace (Z.even (- (2 * s) - 1)) with false; [lia|].
    symmetry. replace (- (2 * s) - 1) with (1 + 2 * (- s - 1)) by lia. rewrite Z.even_add_mul_2. reflexivity.
Qed.

(* one merge level of pack_internal, exactly (before the halving):
   (a + X^t b) + sigma_g (a - X^t b) = (a + sigma_g a) + X^t (b + sigma_g b) *)
Theorem pack_merge_level (a b : list Z) (t s : Z) : length a = n -> length b = n -> t * g = t + Z.of_nat n + s * (2 * Z.of_nat n) ->
  padd (padd a (monomial_mul' t b)) (sigmaE g (psub a (monomial_mul' t b)))
  = padd (padd a (sigmaE g a)) (monomial_mul' t (padd b (sigmaE g b))).
Proof.
  intros Ha Hb E.
  assert (Lm : length (monomial_mul' t b) = n) by (rewrite monomial_length; exact Hb).
  rewrite (sigmaE_psub n g Hn Hg) by assumption. rewrite (sigmaE_monomial_flip b t s Hb E).
  assert (Lsa : length (sigmaE g a) = n) by (rewrite sigmaE_length; exact Ha).
  assert (Lsb : length (sigmaE g b) = n) by (rewrite sigmaE_length; exact Hb).
  apply ext'_inj.
  - repeat (rewrite ?padd_length, ?psub_length, ?pneg_length, ?monomial_length). lia.
  - intros k.
    repeat first [ rewrite ext'_padd by (repeat (rewrite ?padd_length, ?psub_length, ?pneg_length, ?monomial_length); lia)
                 | rewrite ext'_psub by (repeat (rewrite ?padd_length, ?psub_length, ?pneg_length, ?monomial_length); lia)
                 | rewrite ext'_pneg
                 | rewrite ext'_monomial by (repeat (rewrite ?padd_length, ?monomial_length); lia) ].
    ring.
Qed.
End SigmaCoeff.


(* ================================================================================================================ *)
(* (C4) GGSW row expansion: column j of a row from its column 0 and the tensor key *)
Section ExpandAlgebra.
(* s (x) (X + e + 2^P I) regrouped, with the norm of the new error *)
Lemma expand_regroup (n : nat) (P : Z) (sj Mr e0 I0 E Iq KS c0s : list Z) (S env : Z) :
  length sj = n -> length Mr = n -> length e0 = n -> length I0 = n -> length E = n -> length Iq = n -> length KS = n -> length c0s = n ->
  padd KS c0s = pmul sj (padd (padd Mr e0) (pscale (2 ^ P) I0)) ->
  pnorm sj <= S -> pnorm E <= env ->
  padd (padd (padd KS E) (pscale (2 ^ P) Iq)) c0s
  = padd (padd (pmul sj Mr) (padd (pmul sj e0) E)) (pscale (2 ^ P) (padd Iq (pmul sj I0))) /\
  pnorm (padd (pmul sj e0) E) <= Z.of_nat n * S * pnorm e0 + env.
Proof.
  intros L1 L2 L3 L4 L5 L6 L7 L8 H HS HE. split.
  - rewrite !pmul_padd_distr_l in H by (repeat (rewrite ?padd_length, ?pscale_length); lia).
    rewrite pscale_pmul_r in H.
    apply list_eq_nth; [repeat (rewrite ?padd_length, ?pscale_length, ?pmul_length); lia|].
    intros k _. pose proof (f_equal (fun l => nth k l 0) H) as Hk. cbv beta in Hk.
    repeat first [ rewrite nth_padd in Hk by (repeat (rewrite ?padd_length, ?pscale_length, ?pmul_length); lia) | rewrite nth_pscale in Hk ].
    repeat first [ rewrite nth_padd by (repeat (rewrite ?padd_length, ?pscale_length, ?pmul_length); lia) | rewrite nth_pscale ].
    lia.
  - eapply Z.le_trans; [apply pnorm_padd|].
    pose proof (pnorm_pmul sj e0 ltac:(lia)) as B. rewrite L1 in B.
    pose proof (pnorm_nonneg sj). pose proof (pnorm_nonneg e0).
    assert (Z.of_nat n * pnorm sj * pnorm e0 <= Z.of_nat n * S * pnorm e0) by (apply Z.mul_le_mono_nonneg_r; [lia|apply Z.mul_le_mono_nonneg_l; lia]).
    lia.
Qed.

Lemma acol_tl n (ct : cols_t) ci l : acol n (tl ct) ci l = acol n ct (S ci) l.
Proof. unfold acol, col. destruct ct; [destruct ci|]; reflexivity. Qed.
End ExpandAlgebra.

Section ExpandRow.
Variables (P b : Z) (n rank msize a_size dsize dnum j : nat).
Variable ct0 : cols_t.                     (* column 0 of the row: a GLWE (body :: rank mask columns) *)
Variable res0 : cols_t.
Variable K : pmat.                         (* tensor key for column j: rows encrypt s_i (x) s_{j-1} *)
Variable Sk : nat -> list Z.
Variables (e I : nat -> nat -> list Z).
Variables (Mr e0 I0 : list Z) (Sb env : Z).
Hypothesis Hct : wf_cols n (S rank) a_size ct0.
Hypothesis HK : wf_pmat_in n (dnum * rank) (msize * S rank) K.
Hypothesis Hn : (1 <= n)%nat.
Hypothesis Hj : (1 <= j <= rank)%nat.
Hypothesis Hd : (1 <= dsize)%nat.
Hypothesis Hdrop : (dsize - 2 <= msize)%nat.
Hypothesis Hfit : (a_size <= dnum * dsize)%nat.
Hypothesis HS : forall co, length (Sk co) = n.
Hypothesis HS0 : Sk 0%nat = pone n.
Hypothesis He : forall row ci, length (e row ci) = n.
Hypothesis HI : forall row ci, length (I row ci) = n.
Hypothesis Hb : 0 <= b.
Hypothesis HP : Z.of_nat msize * b <= P.
Hypothesis HP2 : Z.of_nat dnum * Z.of_nat dsize * b <= P.
Hypothesis tensor_key_rows : key_rows_ok P b n rank (S rank) msize dsize dnum K Sk (fun i => pmul (Sk (S i)) (Sk j)) e I.
Hypothesis LMr : length Mr = n.
Hypothesis Le0 : length e0 = n.
Hypothesis LI0 : length I0 = n.
(* column 0 of the row encrypts M_r = m2 2^(P-(r+1) dsize b) with error e0 *)
Hypothesis cell0 : phase_f P b n (S rank) a_size (acol n ct0) Sk = padd (padd Mr e0) (pscale (2 ^ P) I0).
Hypothesis HSb : pnorm (Sk j) <= Sb.
Hypothesis Henv : pnorm (gadget_err P b n rank (S rank) msize dsize dnum (acol n (tl ct0)) K Sk e) <= env.

(* column j = (gadget product of the mask columns with the tensor key) + (body of column 0 placed on column j):
   it encrypts s_{j-1} (x) M_r with error s_{j-1} (x) e0 + E *)
Theorem ggsw_expand_row_cells_lemma :
  exists res, gadget_product n (S rank) msize res0 (tl ct0) a_size dsize dnum msize true K = Some res /\
    padd (phase_f P b n (S rank) msize (limbs_of res) Sk) (pmul (pval P b n (acol n ct0 0) a_size) (Sk j))
    = padd (padd (pmul (Sk j) Mr)
                 (padd (pmul (Sk j) e0) (gadget_err P b n rank (S rank) msize dsize dnum (acol n (tl ct0)) K Sk e)))
           (pscale (2 ^ P) (padd (gadget_int b n rank (S rank) msize dsize dnum (acol n (tl ct0)) K Sk I) (pmul (Sk j) I0))) /\
    pnorm (padd (pmul (Sk j) e0) (gadget_err P b n rank (S rank) msize dsize dnum (acol n (tl ct0)) K Sk e))
    <= Z.of_nat n * Sb * pnorm e0 + env.
Proof.
  destruct (C03_keyswitch_phase_lemma P b n rank (S rank) msize a_size dsize dnum (tl ct0) res0 K Sk (fun i => pmul (Sk (S i)) (Sk j)) e I
              (wf_tl n rank a_size ct0 Hct) HK Hd Hdrop HS ltac:(intros; cbv beta; rewrite pmul_length; apply HS) He HI Hb HP HP2 tensor_key_rows)
    as [res [E1 [E2 E3]]].
  exists res. split; [exact E1|]. rewrite E3.
  pose proof (acol_length n (S rank) a_size ct0 Hct) as LB.
  pose proof (acol_length n rank a_size (tl ct0) (wf_tl n rank a_size ct0 Hct)) as LA.
  set (E := gadget_err P b n rank (S rank) msize dsize dnum (acol n (tl ct0)) K Sk e) in *.
  set (Iq := gadget_int b n rank (S rank) msize dsize dnum (acol n (tl ct0)) K Sk I).
  set (V := fun ci => pval P b n (acol n ct0 (S ci)) a_size).
  assert (LV : forall ci, length (V ci) = n) by (intros; unfold V; apply pval_length; intros; apply LB).
  set (c0v := pval P b n (acol n ct0 0) a_size).
  assert (Lc0 : length c0v = n) by (unfold c0v; apply pval_length; intros; apply LB).
  assert (EV : psumf n (fun ci => pmul (pval_used P b n a_size dsize dnum (acol n (tl ct0)) ci) (pmul (Sk (S ci)) (Sk j))) rank
               = psumf n (fun ci => pmul (V ci) (pmul (Sk (S ci)) (Sk j))) rank).
  { apply psumf_ext; intros ci Hci. f_equal. unfold pval_used, V. rewrite Nat.min_l by exact Hfit.
    unfold pval. apply psumf_ext; intros l _. f_equal. apply acol_tl. }
  rewrite EV.
  set (KS := psumf n (fun ci => pmul (V ci) (pmul (Sk (S ci)) (Sk j))) rank).
  assert (LKS : length KS = n) by (unfold KS; apply psumf_length; intros; rewrite pmul_length; apply LV).
  (* s_j (x) phase(column 0) *)
  assert (Hmul : padd KS (pmul c0v (Sk j)) = pmul (Sk j) (padd (padd Mr e0) (pscale (2 ^ P) I0))).
  { rewrite <- cell0. unfold phase_f.
    rewrite psumf_shift by (intros co Hco; rewrite pmul_length; apply pval_length; intros; apply LB).
    fold c0v. rewrite HS0, (pmul_pone_r n c0v Hn Lc0).
    assert (LR : length (psumf n (fun i => pmul (pval P b n (acol n ct0 (S i)) a_size) (Sk (S i))) rank) = n)
      by (apply psumf_length; intros; rewrite pmul_length; apply LV).
    rewrite pmul_padd_distr_l by (rewrite ?HS, ?Lc0, ?LR; reflexivity).
    rewrite padd_comm. f_equal; [apply pmul_comm; rewrite HS, Lc0; reflexivity|].
    rewrite pmul_psumf_l by (try apply HS; intros; rewrite pmul_length; apply LV).
    unfold KS. apply psumf_ext; intros ci _. fold (V ci).
    rewrite (pmul_comm (Sk (S ci)) (Sk j)) by (rewrite !HS; reflexivity).
    rewrite <- pmul_assoc by (rewrite ?HS, ?LV; reflexivity).
    rewrite (pmul_comm (V ci) (Sk j)) by (rewrite HS, LV; reflexivity).
    apply pmul_assoc; rewrite ?HS, ?LV; reflexivity. }
  apply (expand_regroup n P (Sk j) Mr e0 I0 E Iq KS (pmul c0v (Sk j)) Sb env); try assumption; try apply HS.
  - unfold E. apply gadget_err_length; assumption.
  - unfold Iq. apply gadget_int_length; assumption.
  - rewrite pmul_length. exact Lc0.
Qed.
End ExpandRow.

(* GGSW key-switch / automorphism = (key-switch resp. automorphism of column 0) then row expansion under the new secret:
   every cell keeps the same m2 (resp. sigma_g m2).  Phase level: all lists have length n. *)
Section GgswDerived.
Variables (n : nat) (P : Z).
Hypothesis Hn : (0 < n)%nat.

Lemma cell0_after_keyswitch (ph0 ph0' Mr e0 I0 Eks Iks : list Z) :
  length Mr = n -> length e0 = n -> length I0 = n -> length Eks = n -> length Iks = n ->
  ph0 = padd (padd Mr e0) (pscale (2 ^ P) I0) ->
  ph0' = padd (padd ph0 Eks) (pscale (2 ^ P) Iks) ->
  ph0' = padd (padd Mr (padd e0 Eks)) (pscale (2 ^ P) (padd I0 Iks)).
Proof.
  intros L1 L2 L3 L4 L5 -> ->. apply list_eq_nth; [repeat (rewrite ?padd_length, ?pscale_length); lia|].
  intros k _. repeat first [ rewrite nth_padd by (repeat (rewrite ?padd_length, ?pscale_length); lia) | rewrite nth_pscale ]. ring.
Qed.

Theorem ggsw_keyswitch_cells_lemma (sj ph0 ph0' phj Mr e0 I0 Eks Iks KS c0s Ej Iq : list Z) (Sb envj : Z) :
  length sj = n -> length Mr = n -> length e0 = n -> length I0 = n -> length Eks = n -> length Iks = n ->
  length KS = n -> length c0s = n -> length Ej = n -> length Iq = n ->
  ph0 = padd (padd Mr e0) (pscale (2 ^ P) I0) ->                  (* cell (r, 0) of the input GGSW *)
  ph0' = padd (padd ph0 Eks) (pscale (2 ^ P) Iks) ->              (* its key switch to the new secret (C03_keyswitch_internal_phase) *)
  padd KS c0s = pmul sj ph0' ->                                   (* row expansion under the new secret (C04_ggsw_expand_row_cells) *)
  phj = padd (padd (padd KS Ej) (pscale (2 ^ P) Iq)) c0s ->
  pnorm sj <= Sb -> pnorm Ej <= envj ->
  phj = padd (padd (pmul sj Mr) (padd (pmul sj (padd e0 Eks)) Ej)) (pscale (2 ^ P) (padd Iq (pmul sj (padd I0 Iks)))) /\
  pnorm (padd (pmul sj (padd e0 Eks)) Ej) <= Z.of_nat n * Sb * (pnorm e0 + pnorm Eks) + envj.
Proof.
  intros L1 L2 L3 L4 L5 L6 L7 L8 L9 L10 H0 H1 H2 H3 HS HE.
  pose proof (cell0_after_keyswitch ph0 ph0' Mr e0 I0 Eks Iks L2 L3 L4 L5 L6 H0 H1) as C0. rewrite C0 in H2.
  destruct (expand_regroup n P sj Mr (padd e0 Eks) (padd I0 Iks) Ej Iq KS c0s Sb envj) as [A B]; try assumption; try (apply padd_len; assumption).
  split; [rewrite H3; exact A|].
  eapply Z.le_trans; [exact B|]. pose proof (pnorm_padd e0 Eks). pose proof (pnorm_nonneg sj).
  assert (0 <= Z.of_nat n * Sb) by nia. nia.
Qed.

Variable g : Z.
Hypothesis Hg : Z.gcd g (2 * Z.of_nat n) = 1.

Lemma cell0_after_automorphism (r : Z) (ph0 ph0' m2 e0 I0 Eks Iks : list Z) :
  length m2 = n -> length e0 = n -> length I0 = n -> length Eks = n -> length Iks = n ->
  ph0 = padd (padd (pscale r m2) e0) (pscale (2 ^ P) I0) ->
  ph0' = padd (padd (sigmaE g ph0) Eks) (pscale (2 ^ P) Iks) ->
  ph0' = padd (padd (pscale r (sigmaE g m2)) (padd (sigmaE g e0) Eks)) (pscale (2 ^ P) (padd (sigmaE g I0) Iks)) /\
  pnorm (sigmaE g e0) = pnorm e0.
Proof.
  intros L1 L2 L3 L4 L5 -> ->. split.
  - rewrite !(sigmaE_padd n g Hn Hg), !(sigmaE_pscale n g Hn Hg) by (repeat first [assumption | apply padd_len | rewrite pscale_length]).
    assert (S1 : length (sigmaE g m2) = n) by (rewrite sigmaE_length; exact L1).
    assert (S2 : length (sigmaE g e0) = n) by (rewrite sigmaE_length; exact L2).
    assert (S3 : length (sigmaE g I0) = n) by (rewrite sigmaE_length; exact L3).
    apply list_eq_nth; [repeat (rewrite ?padd_length, ?pscale_length); lia|].
    intros k _. repeat first [ rewrite nth_padd by (repeat (rewrite ?padd_length, ?pscale_length); lia) | rewrite nth_pscale ]. ring.
  - apply sigmaE_pnorm. rewrite L2. apply gcd2n_gcdn. exact Hg.
Qed.

Theorem ggsw_automorphism_cells_lemma (r : Z) (sj ph0 ph0' phj m2 e0 I0 Eks Iks KS c0s Ej Iq : list Z) (Sb envj : Z) :
  length sj = n -> length m2 = n -> length e0 = n -> length I0 = n -> length Eks = n -> length Iks = n ->
  length KS = n -> length c0s = n -> length Ej = n -> length Iq = n ->
  ph0 = padd (padd (pscale r m2) e0) (pscale (2 ^ P) I0) ->       (* cell (r, 0): m2 2^(..) *)
  ph0' = padd (padd (sigmaE g ph0) Eks) (pscale (2 ^ P) Iks) ->   (* its automorphism (C03_automorphism_phase_sigma) *)
  padd KS c0s = pmul sj ph0' ->
  phj = padd (padd (padd KS Ej) (pscale (2 ^ P) Iq)) c0s ->
  pnorm sj <= Sb -> pnorm Ej <= envj ->
  phj = padd (padd (pmul sj (pscale r (sigmaE g m2))) (padd (pmul sj (padd (sigmaE g e0) Eks)) Ej))
             (pscale (2 ^ P) (padd Iq (pmul sj (padd (sigmaE g I0) Iks)))) /\
  pnorm (padd (pmul sj (padd (sigmaE g e0) Eks)) Ej) <= Z.of_nat n * Sb * (pnorm e0 + pnorm Eks) + envj.
Proof.
  intros L1 L2 L3 L4 L5 L6 L7 L8 L9 L10 H0 H1 H2 H3 HS HE.
  destruct (cell0_after_automorphism r ph0 ph0' m2 e0 I0 Eks Iks L2 L3 L4 L5 L6 H0 H1) as [C0 Nn]. rewrite C0 in H2.
  assert (S1 : length (sigmaE g m2) = n) by (rewrite sigmaE_length; exact L2).
  assert (S2 : length (sigmaE g e0) = n) by (rewrite sigmaE_length; exact L3).
  assert (S3 : length (sigmaE g I0) = n) by (rewrite sigmaE_length; exact L4).
  destruct (expand_regroup n P sj (pscale r (sigmaE g m2)) (padd (sigmaE g e0) Eks) (padd (sigmaE g I0) Iks) Ej Iq KS c0s Sb envj) as [A B];
    try assumption; try (apply padd_len; assumption); try (rewrite pscale_length; assumption).
  split; [rewrite H3; exact A|].
  eapply Z.le_trans; [exact B|]. pose proof (pnorm_padd (sigmaE g e0) Eks). rewrite Nn in H. pose proof (pnorm_nonneg sj).
  assert (0 <= Z.of_nat n * Sb) by nia. nia.
Qed.
End GgswDerived.


(* ================================================================================================================ *)
(* (C1) trace *)

Section TraceOp.
Variable n : nat.
Hypothesis Hn : (0 < n)%nat.

Lemma Tg_length g x : length x = n -> length (Tg g x) = n.
Proof. intros H. unfold Tg. apply padd_len; [exact H|rewrite sigmaE_length; exact H]. Qed.

Lemma Tg_padd g x y : unit2n n g -> length x = n -> length y = n -> Tg g (padd x y) = padd (Tg g x) (Tg g y).
Proof. intros Hg Hx Hy. unfold Tg. rewrite (sigmaE_padd n g Hn Hg) by assumption. apply padd_swap4. Qed.

Lemma Tg_pscale g c x : unit2n n g -> length x = n -> Tg g (pscale c x) = pscale c (Tg g x).
Proof. intros Hg Hx. unfold Tg. rewrite (sigmaE_pscale n g Hn Hg) by assumption. symmetry. apply pscale_padd. Qed.

Lemma Tg_pnorm g x : unit2n n g -> length x = n -> pnorm (Tg g x) <= 2 * pnorm x.
Proof.
  intros Hg Hx. unfold Tg. eapply Z.le_trans; [apply pnorm_padd|].
  rewrite sigmaE_pnorm by (rewrite Hx; apply gcd2n_gcdn; exact Hg). lia.
Qed.

Lemma trace_op_length gs : forall x, length x = n -> length (trace_op gs x) = n.
Proof. induction gs as [|g gs IH]; intros x Hx; [exact Hx|]. cbn [trace_op fold_left]. apply IH. apply Tg_length; exact Hx. Qed.

Lemma trace_op_padd gs : Forall (unit2n n) gs -> forall x y, length x = n -> length y = n ->
  trace_op gs (padd x y) = padd (trace_op gs x) (trace_op gs y).
Proof.
  induction 1 as [|g gs Hg HF IH]; intros x y Hx Hy; [reflexivity|].
  cbn [trace_op fold_left]. rewrite Tg_padd by assumption. apply IH; apply Tg_length; assumption.
Qed.

Lemma trace_op_pscale gs c : Forall (unit2n n) gs -> forall x, length x = n -> trace_op gs (pscale c x) = pscale c (trace_op gs x).
Proof.
  induction 1 as [|g gs Hg HF IH]; intros x Hx; [reflexivity|].
  cbn [trace_op fold_left]. rewrite Tg_pscale by assumption. apply IH. apply Tg_length; exact Hx.
Qed.

Lemma trace_op_pnorm gs : Forall (unit2n n) gs -> forall x, length x = n -> pnorm (trace_op gs x) <= 2 ^ Z.of_nat (length gs) * pnorm x.
Proof.
  induction 1 as [|g gs Hg HF IH]; intros x Hx; [cbn [trace_op fold_left length]; change (Z.of_nat 0) with 0; rewrite Z.pow_0_r; lia|].
  cbn [trace_op fold_left length]. eapply Z.le_trans; [apply IH; apply Tg_length; exact Hx|].
  pose proof (Tg_pnorm g x Hg Hx). pose proof (pow2_pos (Z.of_nat (length gs)) ltac:(lia)).
  replace (Z.of_nat (S (length gs))) with (Z.of_nat (length gs) + 1) by lia. rewrite Z.pow_add_r by lia. change (2 ^ 1) with 2. nia.
Qed.

(* ---- the trace is the sum over the generated set of Galois elements ---- *)
Lemma psum_over_app {X} (f : X -> list Z) (l1 l2 : list X) : (forall x, length (f x) = n) ->
  psum_over n f (l1 ++ l2) = padd (psum_over n f l1) (psum_over n f l2).
Proof.
  intros Hf. unfold psum_over. rewrite fold_left_app.
  assert (G : forall l acc, length acc = n -> fold_left (fun a x => padd a (f x)) l acc = padd acc (fold_left (fun a x => padd a (f x)) l (pzero n))).
  { induction l as [|x l IH]; intros acc Ha; cbn [fold_left]; [rewrite padd_pzero_r by exact Ha; reflexivity|].
    rewrite IH by (apply padd_len; [exact Ha|apply Hf]).
    rewrite (IH (padd (pzero n) (f x))) by (apply padd_len; [apply pzero_length|apply Hf]).
    rewrite padd_pzero_l by apply Hf. apply padd_assoc. }
  apply G. clear G. induction l1 as [|x l IH] using rev_ind; [apply pzero_length|].
  rewrite fold_left_app. cbn [fold_left]. apply padd_len; [exact IH|apply Hf].
Qed.

Lemma psum_over_length {X} (f : X -> list Z) (l : list X) : (forall x, length (f x) = n) -> length (psum_over n f l) = n.
Proof.
  intros Hf. unfold psum_over. induction l as [|x l IH] using rev_ind; [apply pzero_length|].
  rewrite fold_left_app. cbn [fold_left]. apply padd_len; [exact IH|apply Hf].
Qed.

Lemma psum_over_map {X Y} (f : Y -> list Z) (m : X -> Y) (l : list X) : psum_over n f (map m l) = psum_over n (fun x => f (m x)) l.
Proof. unfold psum_over. rewrite fold_left_map'. reflexivity. Qed.

Lemma sigmaE_psum_over g (f : Z -> list Z) (l : list Z) : unit2n n g -> (forall x, length (f x) = n) ->
  sigmaE g (psum_over n f l) = psum_over n (fun x => sigmaE g (f x)) l.
Proof.
  intros Hg Hf. unfold psum_over. induction l as [|x l IH] using rev_ind; [apply (sigmaE_pzero n g Hn Hg)|].
  rewrite !fold_left_app. cbn [fold_left]. rewrite (sigmaE_padd n g Hn Hg); [rewrite IH; reflexivity| |apply Hf].
  apply (psum_over_length f l Hf).
Qed.

Theorem trace_op_span gs : Forall (unit2n n) gs -> forall x, length x = n ->
  trace_op gs x = psum_over n (fun h => sigmaE h x) (galois_span gs).
Proof.
  intros HF x Hx. unfold trace_op, galois_span.
  assert (G : forall L, Forall (unit2n n) L ->
     fold_left (fun y g => Tg g y) gs (psum_over n (fun h => sigmaE h x) L)
     = psum_over n (fun h => sigmaE h x) (fold_left (fun L g => L ++ map (Z.mul g) L) gs L)).
  { induction HF as [|g gs Hg HF IH]; intros L HL; [reflexivity|]. cbn [fold_left].
    rewrite <- IH.
    - f_equal. unfold Tg. assert (Lf : forall h, length (sigmaE h x) = n) by (intros; rewrite sigmaE_length; exact Hx).
      rewrite psum_over_app by exact Lf. f_equal.
      rewrite sigmaE_psum_over by assumption. rewrite psum_over_map.
      unfold psum_over. apply fold_left_ext_in. intros acc h Hh. f_equal.
      rewrite Forall_forall in HL. apply (sigmaE_compose x ltac:(lia) g h); rewrite Hx; [exact Hg|apply HL; exact Hh].
    - apply Forall_app. split; [exact HL|]. apply Forall_forall. intros y Hy. apply in_map_iff in Hy. destruct Hy as [h [<- Hh]].
      rewrite Forall_forall in HL. apply gcd_mul_2n; [exact Hg|apply HL; exact Hh]. }
  rewrite <- G.
  - f_equal. unfold psum_over. cbn [fold_left]. rewrite padd_pzero_l by (rewrite sigmaE_length; exact Hx).
    symmetry. apply sigmaE_1. lia.
  - constructor; [apply Z.gcd_1_l|constructor].
Qed.
End TraceOp.


Section TracePhase.
Variables (P : Z) (n : nat) (rho eps : Z).
Hypothesis Hn : (0 < n)%nat.
Hypothesis Hrho : 0 <= rho.
Hypothesis Heps : 0 <= eps.

(* 2^steps phase(out) = sum_{h in span} sigma_h(phase(in)) + Err + 2^P I,  |Err| <= steps 2^steps (rho + eps):
   relative to the output scale the error is steps * (rounding + key-switch envelope) *)
Theorem trace_phase_lemma gs x z : trace_rel P n rho eps gs x z -> Forall (unit2n n) gs -> length x = n ->
  exists Err I, length Err = n /\ length I = n /\ length z = n /\
    pscale (2 ^ Z.of_nat (length gs)) z = padd (padd (trace_op gs x) Err) (pscale (2 ^ P) I) /\
    pnorm Err <= Z.of_nat (length gs) * 2 ^ Z.of_nat (length gs) * (rho + eps).
Proof.
  induction 1 as [x|g gs x h r J E I y z Lh Lr LJ LE LI Hh Hr Hy HE Hrel IH]; intros HF Hx.
  - exists (pzero n), (pzero n). rewrite !pzero_length. repeat split; try assumption.
    + cbn [length trace_op fold_left]. change (Z.of_nat 0) with 0. rewrite Z.pow_0_r, pscale_1, pscale_pzero.
      rewrite !padd_pzero_r by (rewrite ?padd_pzero_r; assumption). reflexivity.
    + rewrite pnorm_pzero. cbn [length]. lia.
  - inversion HF as [|g' gs' Hg HF']; subst g' gs'.
    assert (Ly : length y = n).
    { rewrite Hy. apply padd_len; [apply padd_len; [apply Tg_length; exact Lh|exact LE]|rewrite pscale_length; exact LI]. }
    destruct (IH HF' Ly) as (Err' & I' & LE' & LI' & Lz & Eq & Bd).
    set (m := Z.of_nat (length gs)) in *.
    set (U := Tg g x). set (V := padd (Tg g r) (pscale 2 E)). set (W := padd (Tg g J) (pscale 2 I)).
    assert (LU : length U = n) by (apply Tg_length; exact Hx).
    assert (LV : length V = n) by (apply padd_len; [apply Tg_length; exact Lr|rewrite pscale_length; exact LE]).
    assert (LW : length W = n) by (apply padd_len; [apply Tg_length; exact LJ|rewrite pscale_length; exact LI]).
    (* 2 y = U + V + 2^P W *)
    assert (E2y : pscale 2 y = padd (padd U V) (pscale (2 ^ P) W)).
    { rewrite Hy, !pscale_padd, <- (Tg_pscale n Hn g 2 h Hg Lh), Hh.
      rewrite !(Tg_padd n Hn g) by (repeat first [assumption | apply padd_len | rewrite pscale_length]).
      rewrite (Tg_pscale n Hn g) by assumption.
      unfold U, V, W.
      assert (L1 : length (Tg g x) = n) by (apply Tg_length; exact Hx).
      assert (L2 : length (Tg g r) = n) by (apply Tg_length; exact Lr).
      assert (L3 : length (Tg g J) = n) by (apply Tg_length; exact LJ).
      apply list_eq_nth; [repeat (rewrite ?padd_length, ?pscale_length); lia|].
      intros k _. repeat first [ rewrite nth_padd by (repeat (rewrite ?padd_length, ?pscale_length); lia) | rewrite nth_pscale ]. ring. }
    set (TU := trace_op gs U). set (TV := trace_op gs V). set (TW := trace_op gs W).
    assert (LTU : length TU = n) by (apply trace_op_length; exact LU).
    assert (LTV : length TV = n) by (apply trace_op_length; exact LV).
    assert (LTW : length TW = n) by (apply trace_op_length; exact LW).
    assert (ET : pscale 2 (trace_op gs y) = padd (padd TU TV) (pscale (2 ^ P) TW)).
    { rewrite <- (trace_op_pscale n Hn gs 2 HF' y Ly), E2y.
      rewrite !(trace_op_padd n Hn gs HF') by (repeat first [assumption | apply padd_len | rewrite pscale_length]).
      rewrite (trace_op_pscale n Hn gs _ HF') by assumption. reflexivity. }
    exists (padd TV (pscale 2 Err')), (padd TW (pscale 2 I')).
    split; [apply padd_len; [exact LTV|rewrite pscale_length; exact LE']|].
    split; [apply padd_len; [exact LTW|rewrite pscale_length; exact LI']|].
    split; [exact Lz|]. split.
    + cbn [length trace_op fold_left]. fold (trace_op gs (Tg g x)). fold U TU.
      replace (Z.of_nat (S (length gs))) with (m + 1) by (unfold m; lia). rewrite Z.pow_add_r by (unfold m; lia).
      change (2 ^ 1) with 2. rewrite (Z.mul_comm (2 ^ m) 2), <- pscale_pscale, Eq.
      rewrite !pscale_padd, ET.
      assert (LTy : length (trace_op gs y) = n) by (apply trace_op_length; exact Ly).
      apply list_eq_nth; [repeat (rewrite ?padd_length, ?pscale_length); lia|].
      intros k _. repeat first [ rewrite nth_padd by (repeat (rewrite ?padd_length, ?pscale_length); lia) | rewrite nth_pscale ]. ring.
    + cbn [length]. replace (Z.of_nat (S (length gs))) with (m + 1) by (unfold m; lia). rewrite Z.pow_add_r by (unfold m; lia).
      change (2 ^ 1) with 2.
      eapply Z.le_trans; [apply pnorm_padd|]. rewrite pnorm_pscale. change (Z.abs 2) with 2.
      pose proof (trace_op_pnorm n Hn gs HF' V LV) as BV. fold TV m in BV.
      assert (BV2 : pnorm V <= 2 * rho + 2 * eps).
      { unfold V. eapply Z.le_trans; [apply pnorm_padd|]. rewrite pnorm_pscale. change (Z.abs 2) with 2.
        pose proof (Tg_pnorm n Hn g r Hg Lr). lia. }
      pose proof (pow2_pos m ltac:(unfold m; lia)). pose proof (pnorm_nonneg V).
      assert (2 ^ m * pnorm V <= 2 ^ m * (2 * rho + 2 * eps)) by (apply Z.mul_le_mono_nonneg_l; lia).
      nia.
Qed.
End TracePhase.

(* ---- the hypotheses of the derived-operation theorems are satisfiable: small concrete instances (Examples in Props) ---- *)
Lemma trace_rel_satisfiable_lemma : trace_rel 8 2 0 0 [-1] [2; 4] [2; 0] /\ Forall (unit2n 2) [-1].
Proof.
  split.
  - apply (trace_cons 8 2 0 0 (-1) [] [2; 4] [1; 2] [0; 0] [0; 0] [0; 0] [0; 0] [2; 0] [2; 0]); try reflexivity; try (vm_compute; discriminate).
    apply trace_nil.
  - constructor; [reflexivity|constructor].
Qed.

Lemma merge_err_satisfiable_lemma : merge_err 3 (MNode (MNode (MLeaf 0) (MLeaf 0)) (MLeaf 0)) 6 /\ mleaves_le 0 (MNode (MNode (MLeaf 0) (MLeaf 0)) (MLeaf 0)).
Proof.
  split; [|cbn; lia].
  apply (merge_node 3 _ _ 3 0); [apply (merge_node 3 _ _ 0 0); [apply merge_leaf; lia|apply merge_leaf; lia|lia]|apply merge_leaf; lia|lia].
Qed.

Lemma sigma_flip_instance_lemma : Z.gcd 3 (2 * Z.of_nat 2) = 1 /\ 1 * 3 = 1 + Z.of_nat 2 + 0 * (2 * Z.of_nat 2).
Proof. split; reflexivity. Qed.

(* row expansion: n = 2, rank = 1, j = 1, secret s = 1 + X, tensor key row encrypting s (x) s without noise *)
Definition ex5_sk : list (list Z) := [[1; 1]].
Definition ex5_K : pmat := fun q c => if Nat.eqb q 0 && Nat.eqb c 2 then pmul [1; 1] [1; 1] else pzero 2.
Definition ex5_ct0 : cols_t := [[[1; 2]; [3; 4]]; [[5; 6]; [7; 8]]].
Definition ex5_zero : nat -> nat -> list Z := fun _ _ => pzero 2.

Lemma expand_row_hypotheses_satisfiable_lemma :
  wf_cols 2 2 2 ex5_ct0 /\ wf_pmat_in 2 (1 * 1) (2 * 2) ex5_K /\ (2 <= 1 * 2)%nat /\
  sk_ext 2 ex5_sk 0 = pone 2 /\
  key_rows_ok 8 4 2 1 2 2 2 1 ex5_K (sk_ext 2 ex5_sk) (fun i => pmul (sk_ext 2 ex5_sk (S i)) (sk_ext 2 ex5_sk 1)) ex5_zero ex5_zero /\
  phase_f 8 4 2 2 2 (acol 2 ex5_ct0) (sk_ext 2 ex5_sk)
  = padd (padd (phase_f 8 4 2 2 2 (acol 2 ex5_ct0) (sk_ext 2 ex5_sk)) (pzero 2)) (pscale (2 ^ 8) (pzero 2)).
Proof.
  repeat match goal with |- _ /\ _ => split end; try lia; try reflexivity.
  - split; [reflexivity|]. intros ci H. destruct ci as [|[|ci]]; [| |lia]; (split; [reflexivity|]); intros l Hl; destruct l as [|[|l]]; try lia; reflexivity.
  - intros q c Hq Hc. unfold ex5_K. destruct (_ && _); reflexivity.
  - intros row ci Hrow Hci. destruct row as [|row]; [|lia]. destruct ci as [|ci]; [|lia]. vm_compute. reflexivity.
Qed.

