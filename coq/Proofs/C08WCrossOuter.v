(* C08, cross-radix normalisation at any word width, offset >= 0: the outer loop.
   Port of Proofs/C08CrossOuter.v (which fixes the width 64). *)
From PV Require Import Base.MachineInt Model.Znx Model.Limbs Model.C08Oracle
  Proofs.ZnxDigit Proofs.C08Steps Proofs.C08Chain Proofs.C08Loops Proofs.C08Value Proofs.C08Normalize
  Proofs.C08Shift Proofs.C08CrossInner Proofs.C08CrossGeom Proofs.C08CrossOuter
  Proofs.C08WChain Proofs.C08WLoops Proofs.C08WCrossInner Proofs.C08WCrossGeom.
Open Scope Z_scope.

Section Outer.
Variable wd : Z.
Variables rb ab : Z.
Hypothesis Hrb : 1 <= rb <= wd - 2.
Hypothesis Hab : 1 <= ab <= wd - 2.
Variable a : list Z.
Hypothesis Ha : hrlw wd a.
Variable lsh : Z.
Hypothesis Hl : 0 <= lsh < ab.
Variable rsz : nat.
Variables z g lo : Z.
Hypothesis Hz : 0 <= z.
Hypothesis Hg : 0 <= g.
Hypothesis Hzg : z = 0 \/ g = 0.
Hypothesis Hlo : 0 <= lo < zn (length a).
Hypothesis Hgeo : (zn (length a) - lo) * ab = zn rsz * rb + g - z.

Let Hab1 : 1 <= ab. Proof. lia. Qed.

Local Notation Lval := (C08CrossOuter.Lval ab a lsh).
Local Notation dropok := (C08CrossOuter.dropok lsh g).
Local Notation Final := (C08CrossOuter.Final rb ab a lsh rsz z g).

Definition OuterW (t : nat) (s : cstate) : Prop :=
  shape rb rsz s /\ 0 < c_racc s <= rb /\ c_rcarry s = 0 /\ Z.abs (c_acarry s) <= 2 ^ (wd - 2) /\
  Fpos rb rsz s + g = z + zn t * ab /\
  exists drop, dropok drop /\
    2 ^ z * Lval t = 2 ^ z * drop + 2 ^ g * Vres rb rsz (c_res s) + 2 ^ (z + zn t * ab) * c_acarry s.

Definition EntryW (t : nat) (s : cstate) : Prop :=
  shape rb rsz s /\ 0 < c_racc s <= rb /\ 0 < c_atake s <= ab /\ Z.abs (c_anorm s) <= 2 ^ c_atake s /\
  Z.abs (c_acarry s) <= 2 ^ (wd - 2) /\ c_rcarry s = 0 /\
  Fpos rb rsz s + g = z + (zn t + 1) * ab - c_atake s /\
  exists drop X low, dropok drop /\
    2 ^ z * Lval (S t) = 2 ^ z * drop + 2 ^ g * Vres rb rsz (c_res s)
                         + 2 ^ (g + Fpos rb rsz s) * c_anorm s + 2 ^ (z + (zn t + 1) * ab) * c_acarry s /\
    Z.abs X <= 2 ^ (wd - 2) * 2 ^ (ab - 1) + 2 ^ (wd - 2) /\
    X = low + 2 ^ (ab - c_atake s) * c_anorm s + 2 ^ ab * c_acarry s /\
    2 * Z.abs low <= 2 ^ (ab - c_atake s).

(* one run of the inner loop on digit t *)
Lemma entry_stepW (t : nat) (s : cstate) (fuel : nat) :
  EntryW t s -> (t < length a)%nat -> zn t + 1 <= zn (length a) - lo -> ab <= Z.of_nat fuel ->
  let r := cross_inner wd fuel rb ab (length a - 1 - t) s in
  snd r <> Fuel /\ (snd r = InnerDone -> OuterW (S t) (fst r)) /\ (snd r = OuterBreak -> Final (c_res (fst r))).
Proof.
  intros (Sh & Hr & Hat & Hn & Hc & Hrc & HF & drop & X & low & Hdrop & EV & HX & EX & Hlow) Ht Htl Hfuel.
  cbv zeta.
  assert (HF0 : 0 <= Fpos rb rsz s).
  { apply (Fpos_nonnegW wd rb Hrb); [apply Sh|lia]. }
  assert (Hpre : preW wd rb ab rsz (length a - 1 - t) s).
  { unfold preW. split; [exact Sh|]. split; [exact Hr|]. split; [exact Hat|]. split; [exact Hn|].
    split; [exact Hc|]. split; [exact Hrc|]. intros E0.
    assert (Elo : lo = 0) by (unfold zn in *; lia).
    rewrite Elo in Hgeo. assert (zn t + 1 = zn (length a)) by (unfold zn in *; lia).
    clear - HF Hgeo H. rewrite H in HF. lia. }
  pose proof (cross_inner_specW wd rb ab Hrb Hab rsz (length a - 1 - t) fuel s Hpre ltac:(lia)) as (P1 & P2 & P3).
  set (s' := fst (cross_inner wd fuel rb ab (length a - 1 - t) s)) in *.
  set (o := snd (cross_inner wd fuel rb ab (length a - 1 - t) s)) in *.
  clearbody s' o. clear Hpre.
  split; [exact P1|]. split.
  - intros Ho. destruct (P2 Ho) as (Pi & Q1 & Q2 & Q3 & Q4 & Q5 & Q6 & Q7 & Q8). clear P2 P3.
    set (Dl := c_acarry s' - c_acarry s) in *.
    assert (Eacc : c_acarry s' = c_acarry s + Dl) by (unfold Dl; ring).
    set (e := ab - c_atake s) in *.
    assert (He : 0 <= e) by (unfold e; lia).
    assert (Eab : 2 ^ ab = 2 ^ e * 2 ^ c_atake s).
    { rewrite <- pow2_add by lia. f_equal. unfold e. ring. }
    unfold OuterW. split; [exact Q5|]. split; [exact Q6|]. split; [exact Q7|]. split.
    { (* bound of the new carry *)
      apply (carry_after_pieces ab (2 ^ (wd - 2)) X (low + 2 ^ e * Pi) (c_acarry s')); [lia|cbn; lia|exact HX| |].
      - rewrite EX, Q1, Eacc, Eab. ring.
      - rewrite Eab. apply pt_bound; [exact He|lia|exact Hlow|exact Q2]. }
    split.
    { rewrite Q4. replace (zn (S t)) with (zn t + 1) by (unfold zn; lia). clear - HF. lia. }
    exists drop. split; [exact Hdrop|].
    replace (zn (S t)) with (zn t + 1) by (unfold zn; lia).
    rewrite EV, Q3, Q1, Eacc.
    assert (EgF : 2 ^ (g + Fpos rb rsz s) = 2 ^ g * 2 ^ Fpos rb rsz s) by (apply pow2_add; lia).
    assert (ET : 2 ^ (z + (zn t + 1) * ab) = 2 ^ (g + Fpos rb rsz s) * 2 ^ c_atake s).
    { rewrite <- pow2_add by lia. f_equal. clear - HF. lia. }
    rewrite ET, EgF. ring.
  - intros Ho. destruct (P3 Ho) as (Q0 & QL & K & Q). clear P2 P3.
    unfold Final. split; [exact QL|].
    destruct (ival_split ab Hab1 (vin a lsh) (length a) (fun u Hu => vin_zero a lsh u Hu) (S t)) as [Y HY].
    fold (Lval (length a)) in HY. fold (Lval (S t)) in HY.
    set (e2 := Fpos rb rsz s + c_atake s - zn rsz * rb).
    assert (He2 : 0 <= e2) by (unfold e2; lia).
    exists drop, (- K + 2 ^ e2 * (c_acarry s + Y)). split; [exact Hdrop|].
    rewrite HY, Z.mul_add_distr_l, EV, Q.
    assert (EgF : 2 ^ (g + Fpos rb rsz s) = 2 ^ g * 2 ^ Fpos rb rsz s) by (apply pow2_add; lia).
    assert (HRrb : 0 <= zn rsz * rb) by (apply Z.mul_nonneg_nonneg; unfold zn; lia).
    assert (HStab : 0 <= zn (S t) * ab) by (apply Z.mul_nonneg_nonneg; unfold zn; lia).
    assert (ER : 2 ^ (g + zn rsz * rb) = 2 ^ g * 2 ^ (zn rsz * rb)) by (apply pow2_add; [exact Hg|exact HRrb]).
    assert (ET : 2 ^ (z + (zn t + 1) * ab) = 2 ^ (g + zn rsz * rb) * 2 ^ e2).
    { rewrite <- pow2_add by (clear - Hg HRrb He2; lia). f_equal. unfold e2. clear - HF. lia. }
    assert (ES : 2 ^ z * 2 ^ (zn (S t) * ab) = 2 ^ (z + (zn t + 1) * ab)).
    { rewrite <- pow2_add by (clear - Hz HStab; lia). f_equal. unfold zn. clear. lia. }
    replace (2 ^ z * (2 ^ (zn (S t) * ab) * Y)) with (2 ^ z * 2 ^ (zn (S t) * ab) * Y) by ring.
    rewrite ES, ET, EgF, ER. ring.
Qed.

End Outer.
