(* C05 — decrypt(relinearize(tensor(a, b))): the relinearisation theorem of Proofs/C05Relin.v composed with the tensor phase theorem (FFT64, one radix). *)
From PV Require Import Base.MachineInt Model.Znx Model.Limbs Model.LimbsBig Model.Flat Model.Ring Model.Poly Model.DftAbs
  Model.C05Cnv Model.C05Spec Model.C05Core Model.Gadget Model.GadgetSpec Model.C05Relin.
From PV Require Import Proofs.C07Dft Proofs.C07Ring.
From PV Require Proofs.C05Cnv Proofs.C05Core Proofs.C05Norm.
From PV Require Import Proofs.GadgetDecomp Proofs.GadgetPhase Proofs.C03Phase Proofs.GadgetNorm Proofs.C05Relin.
Open Scope Z_scope.

(* the C05 spec notions and the gadget spec notions are the same functions *)
Lemma psumf_same n f m : C05Cnv.psumf n f m = GadgetSpec.psumf n f m.
Proof. reflexivity. Qed.
Lemma pval_same n P b (l : plimbs) : C05Spec.pval n P b l = GadgetSpec.pval P b n (lim l) (length l).
Proof. reflexivity. Qed.

Lemma fold_map_nth {X} (g : X -> list Z) (l : list X) d acc :
  fold_left padd (map g l) acc = fold_left (fun a i => padd a (g (nth i l d))) (seq 0 (length l)) acc.
Proof.
  revert acc; induction l as [|x l IH]; intros acc; [reflexivity|].
  cbn [map fold_left length seq nth]. rewrite IH. rewrite <- seq_shift.
  generalize (padd acc (g x)) as a0. generalize (seq 0 (length l)) as s.
  induction s as [|i s IHs]; intros a0; [reflexivity|]. cbn [map fold_left nth]. apply IHs.
Qed.

(* the phase of C05Spec (list of columns paired with a list of keys) as a sum over column indices *)
Lemma phase_as_psumf n P b (T : cols_t) (keys : list (list Z)) m a_size :
  wf_cols n m a_size T -> length keys = m ->
  C05Spec.phase n P b T keys = GadgetSpec.psumf n (fun c => pmul (GadgetSpec.pval P b n (acol n T c) a_size) (nth c keys [])) m.
Proof.
  intros [LT CT] Lk. unfold C05Spec.phase, plsum.
  rewrite (fold_map_nth (X := plimbs * list Z) _ _ ([], [])). rewrite combine_length, LT, Lk, Nat.min_id.
  unfold GadgetSpec.psumf.
  assert (G : forall l acc, (forall c, In c l -> (c < m)%nat) ->
     fold_left (fun a i => padd a (pmul (C05Spec.pval n P b (fst (nth i (combine T keys) ([], [])))) (snd (nth i (combine T keys) ([], []))))) l acc
     = fold_left (fun a c => padd a (pmul (GadgetSpec.pval P b n (acol n T c) a_size) (nth c keys []))) l acc).
  { induction l as [|c l IH]; intros acc Hin; [reflexivity|]. cbn [fold_left].
    rewrite IH by (intros; apply Hin; right; assumption). f_equal. f_equal.
    assert (Hc : (c < m)%nat) by (apply Hin; left; reflexivity).
    rewrite combine_nth by (transitivity m; [exact LT|symmetry; exact Lk]). cbn [fst snd]. f_equal.
    rewrite pval_same. destruct (CT c Hc) as [Lc _]. change (nth c T []) with (col T c). rewrite Lc.
    unfold GadgetSpec.pval. apply GadgetDecomp.psumf_ext. intros j Hj. f_equal.
    unfold acol, limz. rewrite Lc. replace (Nat.ltb j a_size) with true by (symmetry; apply Nat.ltb_lt; exact Hj). reflexivity. }
  apply G. intros c Hc. apply in_seq in Hc. lia.
Qed.

(* the two sums of the relinearisation theorem are the phase of the whole tensor under (Sk_0 .. Sk_rank, s_in_0 .. s_in_{pairs-1})
   when no limb of the tensor is dropped (the key has at least as many limbs / digits as the tensor) *)
Lemma relin_sums_are_tensor_phase n P b cols pairs msize a_size dsize dnum (T : cols_t) (Sk s_in : nat -> list Z) :
  wf_cols n (cols + pairs) a_size T -> (a_size <= msize)%nat -> (a_size <= dnum * dsize)%nat ->
  (forall co, length (Sk co) = n) -> (forall ci, length (s_in ci) = n) ->
  padd (GadgetSpec.psumf n (fun co => pmul (GadgetSpec.pval P b n (acol n T co) (Nat.min msize a_size)) (Sk co)) cols)
       (GadgetSpec.psumf n (fun ci => pmul (pval_used P b n a_size dsize dnum (acol n (skipn cols T)) ci) (s_in ci)) pairs)
  = C05Spec.phase n P b T (map Sk (seq 0 cols) ++ map s_in (seq 0 pairs)).
Proof.
  intros HT H1 H2 HS Hs.
  rewrite (phase_as_psumf n P b T _ (cols + pairs) a_size HT) by (rewrite app_length, !map_length, !seq_length; reflexivity).
  pose proof (acol_length n (cols + pairs) a_size T HT) as LB.
  assert (Hk1 : forall co, (co < cols)%nat -> nth co (map Sk (seq 0 cols) ++ map s_in (seq 0 pairs)) [] = Sk co).
  { intros co Hco. rewrite app_nth1 by (rewrite map_length, seq_length; exact Hco).
    rewrite (nth_indep _ [] (Sk 0%nat)) by (rewrite map_length, seq_length; exact Hco). rewrite map_nth, seq_nth by exact Hco. reflexivity. }
  assert (Hk2 : forall p, (p < pairs)%nat -> nth (cols + p) (map Sk (seq 0 cols) ++ map s_in (seq 0 pairs)) [] = s_in p).
  { intros p Hp. rewrite app_nth2 by (rewrite map_length, seq_length; lia). rewrite map_length, seq_length.
    replace (cols + p - cols)%nat with p by lia.
    rewrite (nth_indep _ [] (s_in 0%nat)) by (rewrite map_length, seq_length; exact Hp). rewrite map_nth, seq_nth by exact Hp. reflexivity. }
  rewrite GadgetDecomp.psumf_app.
  2:{ intros c Hc. rewrite pmul_length. apply C03Phase.pval_length. intros; apply LB. }
  f_equal.
  - apply GadgetDecomp.psumf_ext. intros co Hco. rewrite Hk1 by exact Hco. rewrite Nat.min_r by exact H1. reflexivity.
  - apply GadgetDecomp.psumf_ext. intros p Hp. rewrite Hk2 by exact Hp. unfold pval_used. rewrite Nat.min_l by exact H2.
    f_equal. unfold GadgetSpec.pval. apply GadgetDecomp.psumf_ext. intros j _. rewrite acol_skipn. reflexivity.
Qed.

Lemma shaped_wf_cols n rsz m (T : list limbs) : length T = m -> (forall c, In c T -> C05Core.shaped n rsz c) -> wf_cols n m rsz T.
Proof.
  intros L H. split; [exact L|]. intros ci Hci.
  assert (Hin : In (col T ci) T) by (unfold col; apply nth_In; exact (eq_ind_r (fun x => (ci < x)%nat) Hci L)).
  destruct (H _ Hin) as [L1 L2]. split; [exact L1|]. intros l Hl. apply (L2 l Hl).
Qed.

(* decrypt(relinearize(tensor(a, b))) for the FFT64 family with one radix b everywhere:
   = [tensor product of the two ciphertext vectors under sigma, over exact products]  (C05_tensor_phase / C05_product_position / C05_tensor_resummation)
   + normalisation error of the tensor (1 resp. 3 units per column) + 2^P (integer)
   + gadget error of the key switch (C03) + rounding of the final normalisation ((1 + rank n Sb) units) + 2^P (integer) *)
Theorem relinearize_of_tensor_phase_fft64 :
  forall (be : Z) (n rsz dsz hi asz bsz pairs msize res_size dsize dnum : nat) (P b lo : Z) (A B : list plimbs)
         (sigma : nat * nat -> list Z) (sk : list (list Z)) (s_in : nat -> list Z) (e I : nat -> nat -> list Z) (Sb : Z) (K : pmat)
         (res0 : list (list (list Z))),
  let cols := S (length sk) in
  let T := tensor_gen (cell_apply true n (big_nrm true n rsz b b lo) dsz hi A B) cols res0 in
  be <= 2 -> 1 <= b <= 62 -> (1 <= n)%nat ->
  zn rsz * b + zn dsz * b + Z.abs lo <= P -> (Z.of_nat res_size + Z.of_nat msize) * b <= P -> Z.of_nat dnum * Z.of_nat dsize * b <= P ->
  (* tensor *)
  (forall i, (i < cols)%nat -> C05Cnv.wfl n (colsel A i) /\ length (colsel A i) = asz) ->
  (forall i, (i < cols)%nat -> C05Cnv.wfl n (colsel B i) /\ length (colsel B i) = bsz) ->
  (1 <= asz)%nat -> (1 <= bsz)%nat ->
  (forall i, (i < cols)%nat -> C05Norm.dom62 (C05Core.Cn true n dsz hi A B i i)) ->
  (forall i j, (i < cols)%nat -> (j < cols)%nat -> i <> j -> C05Norm.dom62 (C05Core.Pw true n dsz hi A B i j)) ->
  (forall ij, length (sigma ij) = n) ->
  length (tpairs cols) = (cols + pairs)%nat -> length res0 = length (tpairs cols) -> (forall r, In r res0 -> length r = rsz) ->
  (* keys: sigma lists (1, s_1 .. s_rank) then what the rows of the tensor key encrypt *)
  map sigma (tpairs cols) = map (sk_ext n sk) (seq 0 cols) ++ map s_in (seq 0 pairs) ->
  (* relinearisation *)
  wf_pmat_in n (dnum * pairs) (msize * cols) K -> (1 <= dsize)%nat -> (dsize - 2 <= msize)%nat ->
  (rsz <= msize)%nat -> (rsz <= dnum * dsize)%nat ->
  (forall s, In s sk -> length s = n) -> (forall s, In s sk -> pnorm s <= Sb) ->
  (forall ci, length (s_in ci) = n) -> (forall row ci, length (e row ci) = n) -> (forall row ci, length (I row ci) = n) ->
  key_rows_ok P b n pairs cols msize dsize dnum K (sk_ext n sk) s_in e I ->
  (forall big, relinearize_internal n cols T rsz dsize dnum msize K = Some big ->
     forall co j k, Z.abs (nth k (lim (col big co) j) 0) <= 2 ^ 62) ->
  exists res R Itot,
    glwe_relinearize be n b b b (length sk) rsz res_size dsize dnum msize T K = Some res /\
    length R = n /\ length Itot = n /\
    phase_val P b n sk res =
    padd (padd (padd (padd (padd
      (plsum n (map (fun ij => pmul (C05Core.Gm true n dsz hi P b lo A B ij) (sigma ij)) (tpairs cols)))
      (plsum n (map (fun ij => pmul (C05Core.Em true n dsz hi (C05Norm.eps64 n rsz P b lo) A B ij) (sigma ij)) (tpairs cols))))
      (pscale (2 ^ P) (plsum n (map (fun ij => pmul (C05Core.Km true n dsz hi (C05Norm.kap64 n rsz P b lo) A B ij) (sigma ij)) (tpairs cols)))))
      (gadget_err P b n pairs cols msize dsize dnum (acol n (skipn cols T)) K (sk_ext n sk) e))
      R) (pscale (2 ^ P) Itot) /\
    pnorm R <= (1 + Z.of_nat (length sk) * Z.of_nat n * Sb) * 2 ^ (P - Z.of_nat res_size * b) /\
    (forall ij c, (fst ij < cols)%nat -> (snd ij < cols)%nat ->
       Z.abs (nth c (C05Core.Em true n dsz hi (C05Norm.eps64 n rsz P b lo) A B ij) 0) <= (if Nat.eqb (fst ij) (snd ij) then 1 else 3) * 2 ^ (P - zn rsz * b)).
Proof.
  intros be n rsz dsz hi asz bsz pairs msize res_size dsize dnum P b lo A B sigma sk s_in e I Sb K res0 cols T
         Hbe Hb Hn HP1 HP2 HP3 HA HB Ha Hbz Hd1 Hd2 Hsig Hpairs HL Hr Hkeys HK Hds Hdrop Hm1 Hm2 Hsk HSb Hsin He HI Hkey Hdom.
  destruct (C05Norm.tensor_phase_fft64 n rsz dsz hi cols asz bsz P b lo A B sigma Hb HP1 HA HB Ha Hbz Hd1 Hd2 Hsig res0 HL Hr) as [TP EB].
  fold T in TP.
  assert (WT : wf_cols n (cols + pairs) rsz T).
  { apply shaped_wf_cols.
    - transitivity (length (tpairs cols)); [|exact Hpairs]. unfold T, tensor_gen. rewrite map_length, combine_length.
      apply Nat.min_l. apply Nat.eq_le_incl. symmetry. exact HL.
    - intros c Hc. unfold T, tensor_gen in Hc. apply in_map_iff in Hc. destruct Hc as ([[i j] r] & <- & Hin). cbn [fst snd].
      apply C05Core.cell_apply_shape; [intros D; apply C05Core.big_nrm_shape_same_radix|].
      apply Hr. eapply in_combine_r. exact Hin. }
  destruct (relinearize_phase_final_fft64 be P b n pairs msize rsz res_size dsize dnum T K sk s_in e I Sb
              Hbe WT HK Hn Hds Hdrop Hsk HSb Hsin He HI Hb HP2 HP3 Hkey Hdom) as (res & R & Itot & F1 & F2 & F3 & F4 & F5 & F6).
  exists res, R, Itot. split; [exact F1|]. split; [exact F3|]. split; [exact F4|]. split; [|split; [exact F6|exact EB]].
  change (S (length sk)) with cols in F5. rewrite F5.
  rewrite (relin_sums_are_tensor_phase n P b cols pairs msize rsz dsize dnum T (sk_ext n sk) s_in WT Hm1 Hm2
             (sk_ext_length n sk Hn Hsk) Hsin).
  rewrite <- Hkeys. rewrite TP. reflexivity.
Qed.
