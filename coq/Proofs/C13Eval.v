(* C13 — eval_strict refines eval_stale: whenever the strict evaluator (undefined slots are errors) returns a
   value, the real two-buffer evaluator returns the same value, whatever stale content its buffers hold. *)
From Coq Require Import ZArith List Bool Arith Lia.
From PV Require Import Model.C13Bdd.
Import ListNotations.

(* every defined strict slot agrees with the stale buffer *)
Definition refines (St : list slot) (prev : list bool) : Prop :=
  forall j b, rd St j = Some b -> nth j prev false = b.

Lemma rd_cons_0 x St : rd (x :: St) 0 = x.
Proof. unfold rd; cbn. destruct x; reflexivity. Qed.

Lemma rd_cons_S x St j : rd (x :: St) (S j) = rd St j.
Proof. reflexivity. Qed.

Lemma node_refines nin e St prev next j nd x b :
  refines St prev ->
  node_strict nin e St j nd = Some x -> x = Some b ->
  node_stale e prev next j nd = b.
Proof.
  intros Href Hn Hx. subst x. destruct nd as [v hi lo | | ]; cbn [node_strict node_stale] in *.
  - destruct (v <? nin); [|discriminate].
    destruct (rd St hi) as [h|] eqn:Hh; [|discriminate].
    destruct (rd St lo) as [l|] eqn:Hl; [|discriminate].
    injection Hn as Hn. apply Href in Hh. apply Href in Hl. rewrite Hh, Hl. exact Hn.
  - destruct (rd St j) as [y|] eqn:Hy; [|discriminate].
    injection Hn as Hn. apply Href in Hy. congruence.
  - discriminate.
Qed.

(* one level: the new strict state refines the freshly written buffer *)
Lemma level_refines nin e St prev next L : forall j0 St',
  refines St prev ->
  level_strict nin e St j0 L = Some St' ->
  refines St' (level_stale e prev next j0 L).
Proof.
  induction L as [|nd tl IH]; intros j0 St' Href H; cbn in H.
  - injection H as <-. intros j b Hj. destruct j; discriminate.
  - destruct (node_strict nin e St j0 nd) as [x|] eqn:Hn; [|discriminate].
    destruct (level_strict nin e St (S j0) tl) as [r|] eqn:Hr; [|discriminate].
    injection H as <-. intros j b Hj. cbn [level_stale].
    destruct j as [|j].
    + rewrite rd_cons_0 in Hj. cbn [nth]. eapply node_refines; eauto.
    + rewrite rd_cons_S in Hj. cbn [nth]. eapply (IH (S j0) r); eauto.
Qed.

Lemma run_levels_refines nin e lv : forall St St' st,
  refines St (fst st) ->
  run_levels_strict nin e St lv = Some St' ->
  refines St' (fst (fold_left (step_stale e) lv st)).
Proof.
  induction lv as [|L tl IH]; intros St St' st Href H; cbn in H |- *.
  - injection H as <-. exact Href.
  - destruct (level_strict nin e St 0 L) as [S1|] eqn:H1; [|discriminate].
    eapply IH; [|exact H]. unfold step_stale; cbn [fst].
    eapply level_refines; eauto.
Qed.

Lemma init_refines w : refines (init_strict w) (fst (init_buf w)).
Proof.
  unfold init_strict. intros j b Hj. unfold rd in Hj.
  rewrite nth_error_map in Hj.
  destruct (nth_error (fst (init_buf w)) j) as [x|] eqn:Hx; cbn in Hj; [|discriminate].
  injection Hj as <-. apply nth_error_nth with (d := false) in Hx. exact Hx.
Qed.

Lemma root_refines nin e St prev L b :
  refines St prev -> root_strict nin e St L = Some b -> root_stale e prev L = b.
Proof.
  intros Href H. destruct L as [|[v hi lo| |] tl]; cbn [root_strict root_stale] in *; try discriminate.
  destruct (v <? nin); [|discriminate].
  destruct (rd St hi) as [h|] eqn:Hh; [|discriminate].
  destruct (rd St lo) as [l|] eqn:Hl; [|discriminate].
  injection H as H. apply Href in Hh. apply Href in Hl. rewrite Hh, Hl. exact H.
Qed.

Theorem eval_strict_refines (c : circuit) (e : env) (v : bool) :
  eval_strict c e = Some v -> eval_stale c e = v.
Proof.
  unfold eval_strict, eval_stale, eval_levels_stale.
  destruct (c_width c) as [|w'] eqn:Hw.
  - intros H; injection H as <-; reflexivity.
  - destruct (levels_of c) as [lv|]; [|discriminate].
    destruct lv as [|L0 lv']; [discriminate|].
    set (lv := L0 :: lv').
    destruct (run_levels_strict (c_nin c) e (init_strict (S w')) (removelast lv)) as [St|] eqn:Hr; [|discriminate].
    intros Hroot.
    eapply root_refines; [|exact Hroot].
    eapply run_levels_refines; [|exact Hr]. apply init_refines.
Qed.
