(* C09 items 6-7: ring-degree switching (embed / subsample), ring splitting and merging. *)
From PV Require Import Base.MachineInt Model.Znx Model.Limbs Model.Ring Model.Poly
  Proofs.C09Lists Proofs.C09Ring.
Open Scope Z_scope.

(* ---------- item 6: znx_switch_ring ---------- *)
Theorem switch_ring_same n_out (r0 a : list Z) :
  length a = n_out -> znx_switch_ring n_out r0 a = a.
Proof. intros H. unfold znx_switch_ring. rewrite H, Nat.eqb_refl. reflexivity. Qed.

Theorem switch_ring_subsample n_out (r0 a : list Z) :
  (n_out < length a)%nat -> znx_switch_ring n_out r0 a = subsample n_out a.
Proof.
  intros H. unfold znx_switch_ring, subsample.
  destruct (Nat.eqb_spec (length a) n_out); [lia|].
  destruct (Nat.ltb_spec n_out (length a)); [reflexivity|lia].
Qed.

Theorem switch_ring_embed n_out (r0 a : list Z) :
  (length a < n_out)%nat -> znx_switch_ring n_out r0 a = embed n_out a.
Proof.
  intros H. unfold znx_switch_ring, embed.
  destruct (Nat.eqb_spec (length a) n_out); [lia|].
  destruct (Nat.ltb_spec n_out (length a)); [lia|reflexivity].
Qed.

(* at equal degree both spec maps are the identity, so the three cases are two *)
Lemma embed_same (a : list Z) : (0 < length a)%nat -> embed (length a) a = a.
Proof.
  intros H. unfold embed. rewrite Nat.div_same by lia.
  apply nthZ_ext; [apply map_seq_length|].
  intros i Hi. rewrite map_seq_length in Hi. rewrite nthZ_map_seq by auto.
  rewrite Nat.mod_1_r, Nat.div_1_r. reflexivity.
Qed.

Lemma subsample_same (a : list Z) : (0 < length a)%nat -> subsample (length a) a = a.
Proof.
  intros H. unfold subsample. rewrite Nat.div_same by lia.
  apply nthZ_ext; [apply map_seq_length|].
  intros i Hi. rewrite map_seq_length in Hi. rewrite nthZ_map_seq by auto.
  rewrite Nat.mul_1_r. reflexivity.
Qed.

Theorem switch_ring_spec n_out (r0 a : list Z) :
  (0 < length a)%nat ->
  znx_switch_ring n_out r0 a = if Nat.leb (length a) n_out then embed n_out a else subsample n_out a.
Proof.
  intros Ha. destruct (Nat.leb_spec (length a) n_out) as [Hle|Hgt].
  - destruct (Nat.eq_dec (length a) n_out) as [He|Hne].
    + rewrite switch_ring_same by auto. subst n_out. symmetry; apply embed_same; auto.
    + apply switch_ring_embed; lia.
  - apply switch_ring_subsample; auto.
Qed.

(* the result never depends on the prior content of the destination *)
Theorem switch_ring_indep n_out (r0 r1 a : list Z) :
  znx_switch_ring n_out r0 a = znx_switch_ring n_out r1 a.
Proof. reflexivity. Qed.

Lemma embed_length n a : length (embed n a) = n.
Proof. unfold embed. apply map_seq_length. Qed.
Lemma subsample_length m a : length (subsample m a) = m.
Proof. unfold subsample. apply map_seq_length. Qed.

Theorem subsample_embed (c : nat) (a : list Z) :
  (0 < c)%nat -> (0 < length a)%nat -> subsample (length a) (embed (c * length a) a) = a.
Proof.
  intros Hc Hm. unfold subsample. rewrite embed_length.
  rewrite Nat.div_mul by lia.
  apply nthZ_ext; [apply map_seq_length|].
  intros t Ht. rewrite map_seq_length in Ht. rewrite nthZ_map_seq by auto.
  unfold embed. rewrite Nat.div_mul by lia.
  rewrite nthZ_map_seq by nia.
  rewrite Nat.mod_mul, Nat.div_mul by lia. reflexivity.
Qed.

Theorem subsample_embed_divide (n : nat) (a : list Z) :
  (0 < n)%nat -> (0 < length a)%nat -> Nat.divide (length a) n ->
  subsample (length a) (embed n a) = a.
Proof.
  intros Hn Hm [c Hc]. subst n. apply subsample_embed; auto. destruct c; lia.
Qed.

(* going up then down through the code *)
Theorem switch_ring_roundtrip (c : nat) (r0 r1 a : list Z) :
  (0 < c)%nat -> (0 < length a)%nat ->
  znx_switch_ring (length a) r1 (znx_switch_ring (c * length a) r0 a) = a.
Proof.
  intros Hc Hm. rewrite (switch_ring_spec (c * length a)) by auto.
  destruct (Nat.leb_spec (length a) (c * length a)) as [Hle|Hgt]; [|nia].
  rewrite switch_ring_spec by (rewrite embed_length; nia).
  rewrite embed_length.
  destruct (Nat.leb_spec (c * length a) (length a)) as [Hle2|Hgt2].
  - assert (c = 1%nat) by nia. subst c. rewrite Nat.mul_1_l.
    rewrite (embed_same a) by auto. apply embed_same; auto.
  - apply subsample_embed; auto.
Qed.

(* embed is the ring map X -> X^gap on the whole negacyclic extension *)
Theorem ext_embed w (c : nat) (a : list Z) (k : Z) :
  (0 < c)%nat -> (0 < length a)%nat ->
  ext w (embed (c * length a) a) (k * Z.of_nat c) = ext w a k.
Proof.
  intros Hc Hm. set (m := Z.of_nat (length a)).
  destruct (exp_decomp m k ltac:(lia)) as [q [i [Hk Hi]]].
  rewrite (ext_at_nat w a k q i) by (auto; lia).
  rewrite (ext_at_nat w (embed (c * length a) a) _ q (i * c)).
  - unfold embed. rewrite Nat.div_mul by lia.
    rewrite nthZ_map_seq by nia.
    rewrite Nat.mod_mul, Nat.div_mul by lia. reflexivity.
  - rewrite embed_length. subst k. unfold m. nia.
  - rewrite embed_length. nia.
Qed.

(* ---------- item 7: split / merge ---------- *)
Lemma lnth_build rsz f j : (j < rsz)%nat -> lnth (build rsz f) j = f j.
Proof. intros Hj. unfold lnth, build. apply nth_map_seq; auto. Qed.

Lemma build_length rsz f : length (build rsz f) = rsz.
Proof. unfold build. apply map_seq_length. Qed.

Lemma limbs_ext (l1 l2 : limbs) :
  length l1 = length l2 -> (forall j, (j < length l1)%nat -> lnth l1 j = lnth l2 j) -> l1 = l2.
Proof. intros Hl H. apply (nth_ext l1 l2 [] [] Hl). exact H. Qed.

Lemma build_lnth (a : limbs) : build (length a) (fun j => lnth a j) = a.
Proof.
  apply limbs_ext; [apply build_length|].
  intros j Hj. rewrite build_length in Hj. apply lnth_build; auto.
Qed.

Lemma lnth_overflow (l : limbs) j : (length l <= j)%nat -> lnth l j = [].
Proof. apply nth_overflow. Qed.

(* one limb of one part: coefficients i, i+gap, i+2gap, ... *)
Lemma split_limb w (gap n_s i : nat) (r l : list Z) :
  (0 < n_s)%nat -> (i < gap)%nat -> length l = (gap * n_s)%nat ->
  znx_switch_ring n_s r (if Nat.eqb i 0 then l else znx_rotate w (- Z.of_nat i) l)
  = map (fun t => nthZ l (t * gap + i)) (seq 0 n_s).
Proof.
  intros Hn Hi Hl.
  set (b := if Nat.eqb i 0 then l else znx_rotate w (- Z.of_nat i) l).
  assert (Hlb : length b = (gap * n_s)%nat).
  { unfold b. destruct (Nat.eqb i 0); [auto | rewrite rotate_length; auto]. }
  assert (Hb : forall u, (u + i < gap * n_s)%nat -> nthZ b u = nthZ l (u + i)).
  { intros u Hu. unfold b. destruct (Nat.eqb_spec i 0) as [->|Hne].
    - rewrite Nat.add_0_r. reflexivity.
    - rewrite rotate_nth by lia.
      replace (Z.of_nat u - - Z.of_nat i) with (Z.of_nat (u + i)) by lia.
      apply ext_small. lia. }
  destruct (Nat.eq_dec gap 1) as [Hg1|Hg1].
  - subst gap. assert (i = 0%nat) by lia. subst i.
    rewrite switch_ring_same by lia.
    apply nthZ_ext; [rewrite map_seq_length; lia|].
    intros t Ht. rewrite nthZ_map_seq by lia.
    rewrite Hb by lia. f_equal. lia.
  - rewrite switch_ring_subsample by nia.
    unfold subsample. rewrite Hlb. rewrite Nat.div_mul by lia.
    apply map_seq_ext. intros t Ht. apply Hb. nia.
Qed.

(* the same, against the spec-level image used by the oracle *)
Lemma split_limb_spec w (gap n_s i : nat) (r l : list Z) :
  (0 < n_s)%nat -> (i < gap)%nat -> length l = (gap * n_s)%nat ->
  znx_switch_ring n_s r (if Nat.eqb i 0 then l else znx_rotate w (- Z.of_nat i) l)
  = subsample n_s (monomial_mul w (- Z.of_nat i) l).
Proof.
  intros Hn Hi Hl. rewrite (split_limb w gap) by auto.
  unfold subsample. rewrite monomial_mul_length, Hl, Nat.div_mul by lia.
  apply map_seq_ext. intros t Ht.
  rewrite monomial_mul_nth by nia.
  replace (Z.of_nat (t * gap) - - Z.of_nat i) with (Z.of_nat (t * gap + i)) by lia.
  symmetry. apply ext_small. nia.
Qed.

Lemma nthZ_nil t : nthZ [] t = 0.
Proof. destruct t; reflexivity. Qed.

Lemma zeros_as_map n : zeros n = map (fun _ => 0) (seq 0 n).
Proof.
  apply nthZ_ext; [unfold zeros; rewrite repeat_length, map_seq_length; reflexivity|].
  intros i Hi. unfold zeros in *. rewrite repeat_length in Hi.
  rewrite nthZ_map_seq by auto. unfold nthZ. apply nth_repeat.
Qed.

Lemma nthZ_zeros n t : nthZ (zeros n) t = 0.
Proof. unfold nthZ, zeros. apply nth_repeat. Qed.

Theorem merge_is_interleave n (parts : list limbs) (r0 : limbs) :
  vec_merge_rings n parts r0
  = build (length r0) (fun j => interleave n (map (fun p => lnth p j) parts)).
Proof.
  unfold vec_merge_rings, build, interleave. cbv zeta.
  apply map_seq_ext. intros j Hj. rewrite map_length.
  apply map_seq_ext. intros u Hu.
  set (i := (u mod length parts)%nat).
  assert (Hm : nth i (map (fun p => lnth p j) parts) [] = lnth (nth i parts []) j).
  { assert (H0 : lnth [] j = []) by (destruct j; reflexivity).
    rewrite <- H0 at 1. apply (map_nth (fun p => lnth p j)). }
  rewrite Hm.
  destruct (Nat.ltb_spec j (length (nth i parts []))); [reflexivity|].
  rewrite lnth_overflow by auto. symmetry; apply nthZ_nil.
Qed.

Theorem split_merge_general w (gap n_s : nat) (a : limbs) (rs : list limbs) (r0 : limbs) :
  (0 < gap)%nat -> (0 < n_s)%nat ->
  (forall j, (j < length a)%nat -> length (lnth a j) = (gap * n_s)%nat) ->
  (forall i, (i < gap)%nat -> (length a <= length (nth i rs []))%nat) ->
  vec_merge_rings (gap * n_s)
     (map (fun i => vec_split_part w n_s i a (nth i rs [])) (seq 0 gap)) r0
  = build (length r0) (fun j => if Nat.ltb j (length a) then lnth a j else zlimb (gap * n_s)).
Proof.
  intros Hg Hn Hla Hrs.
  unfold vec_merge_rings, build. cbv zeta. rewrite map_seq_length.
  apply map_seq_ext. intros j Hj.
  assert (Hpart : forall i, (i < gap)%nat ->
     nth i (map (fun i => vec_split_part w n_s i a (nth i rs [])) (seq 0 gap)) []
     = vec_split_part w n_s i a (nth i rs []))
    by (intros i Hi; apply (nth_map_seq (fun i => vec_split_part w n_s i a (nth i rs []))); auto).
  destruct (Nat.ltb_spec j (length a)) as [Hja|Hja].
  - rewrite (list_as_map_seq (lnth a j)) at 1. rewrite Hla by auto.
    apply map_seq_ext. intros u Hu.
    assert (Hi : (u mod gap < gap)%nat) by (apply Nat.mod_upper_bound; lia).
    rewrite Hpart by auto. unfold vec_split_part at 1. rewrite build_length.
    specialize (Hrs _ Hi).
    destruct (Nat.ltb_spec j (length (nth (u mod gap) rs []))); [|lia].
    unfold vec_split_part. rewrite lnth_build by lia.
    destruct (Nat.ltb_spec j (length a)); [|lia].
    rewrite (split_limb w gap) by auto.
    assert (Ht : (u / gap < n_s)%nat) by (apply Nat.div_lt_upper_bound; lia).
    rewrite nthZ_map_seq by auto.
    f_equal. pose proof (Nat.div_mod u gap ltac:(lia)). lia.
  - unfold zlimb. rewrite zeros_as_map.
    apply map_seq_ext. intros u Hu.
    assert (Hi : (u mod gap < gap)%nat) by (apply Nat.mod_upper_bound; lia).
    rewrite Hpart by auto. unfold vec_split_part at 1. rewrite build_length.
    destruct (Nat.ltb_spec j (length (nth (u mod gap) rs []))); [|reflexivity].
    unfold vec_split_part. rewrite lnth_build by lia.
    destruct (Nat.ltb_spec j (length a)); [lia|].
    apply nthZ_zeros.
Qed.

Theorem split_merge_roundtrip w (gap n_s : nat) (a : limbs) (rs : list limbs) (r0 : limbs) :
  (0 < gap)%nat -> (0 < n_s)%nat ->
  (forall j, (j < length a)%nat -> length (lnth a j) = (gap * n_s)%nat) ->
  (forall i, (i < gap)%nat -> (length a <= length (nth i rs []))%nat) ->
  length r0 = length a ->
  vec_merge_rings (gap * n_s)
     (map (fun i => vec_split_part w n_s i a (nth i rs [])) (seq 0 gap)) r0 = a.
Proof.
  intros Hg Hn Hla Hrs Hl. rewrite split_merge_general by auto.
  rewrite Hl. transitivity (build (length a) (fun j => lnth a j)); [|apply build_lnth].
  unfold build. apply map_seq_ext. intros j Hj.
  destruct (Nat.ltb_spec j (length a)); [reflexivity|lia].
Qed.

(* each part is the subsampled X^{-i} * a, with the unary size rule *)
Theorem split_part_spec w (gap n_s i : nat) (a r0 : limbs) :
  (0 < n_s)%nat -> (i < gap)%nat ->
  (forall j, (j < length a)%nat -> length (lnth a j) = (gap * n_s)%nat) ->
  vec_split_part w n_s i a r0
  = build (length r0) (fun j => if Nat.ltb j (length a)
       then subsample n_s (monomial_mul w (- Z.of_nat i) (lnth a j)) else zlimb n_s).
Proof.
  intros Hn Hi Hla. unfold vec_split_part, build. apply map_seq_ext. intros j Hj.
  destruct (Nat.ltb_spec j (length a)); [|reflexivity].
  apply (split_limb_spec w gap); auto.
Qed.
