(* C08, width-generic tools: headroom of a limb vector at width w (|x| <= 2^(w-2)), and saturation of
   the carry through a gap of zero limbs for an arbitrary cap on the number of steps. *)
From PV Require Import Base.MachineInt Model.Znx Model.Limbs Proofs.ZnxDigit Proofs.C08Steps Proofs.C08Chain.
Open Scope Z_scope.

(* headroom of a limb vector at width w, by index (the default 0 is inside) *)
Definition hrlw (w : Z) (l : list Z) : Prop := forall i, Z.abs (nthZ l i) <= 2 ^ (w - 2).

Lemma hrlw_of_Forall (w : Z) (l : list Z) : Forall (fun x => Z.abs x <= 2 ^ (w - 2)) l -> hrlw w l.
Proof.
  intros HF i. destruct (Nat.lt_ge_cases i (length l)) as [Hi|Hi].
  - rewrite Forall_forall in HF. apply HF. unfold nthZ. apply nth_In; auto.
  - rewrite nthZ_overflow by auto. pose proof (Z.pow_nonneg 2 (w - 2) ltac:(lia)). cbn [Z.abs]. lia.
Qed.

Lemma hrlw_zeros (w : Z) (k : nat) : hrlw w (zeros k).
Proof. intros i. rewrite nth_zeros. pose proof (Z.pow_nonneg 2 (w - 2) ltac:(lia)). cbn [Z.abs]. lia. Qed.

Lemma hrlw_64 (l : list Z) : hrlw 64 l <-> hrl l.
Proof. unfold hrlw, hrl. change (2 ^ (64 - 2)) with (2 ^ 62). tauto. Qed.

Section ChainW.
Variable b : Z.
Hypothesis Hb : 1 <= b.

(* one step over a zero limb divides the magnitude bound by 2^b (down to 1) *)
Lemma bdiv_shrink (e c : Z) : 0 <= e -> Z.abs c <= 2 ^ e -> Z.abs (bdiv b c) <= 2 ^ (Z.max (e - b) 0).
Proof.
  intros He Hc. pose proof (bdiv_abs b c Hb) as Hk.
  pose proof (pow2_pos (b - 1) ltac:(lia)) as Hp.
  pose proof (pow2_split b Hb) as Hs.
  set (K := Z.abs (bdiv b c)) in *.
  destruct (Z_le_gt_dec b e) as [Hbe|Hbe].
  - rewrite Z.max_l by lia.
    assert (E : 2 ^ e = 2 ^ b * 2 ^ (e - b)) by (rewrite <- Z.pow_add_r by lia; f_equal; lia).
    pose proof (pow2_pos (e - b) ltac:(lia)) as Hq.
    destruct (Z_le_gt_dec K (2 ^ (e - b))) as [|Hgt]; auto.
    assert ((2 ^ (e - b) + 1) * 2 ^ b <= K * 2 ^ b) by (apply Z.mul_le_mono_nonneg_r; lia).
    nia.
  - rewrite Z.max_r by lia. change (2 ^ 0) with 1.
    assert (Hle : 2 ^ e <= 2 ^ (b - 1)) by (apply Z.pow_le_mono_r; lia).
    destruct (Z_le_gt_dec K 1) as [|Hgt]; auto.
    assert (2 * 2 ^ b <= K * 2 ^ b) by (apply Z.mul_le_mono_nonneg_r; lia).
    lia.
Qed.

(* k steps over zero limbs bring a carry within 2^e, e <= k b, down to {-1, 0, 1} *)
Lemma car_zseq_small_w (k : nat) : forall (e c : Z), 0 <= e -> e <= zn k * b -> Z.abs c <= 2 ^ e ->
  Z.abs (car b zseq c k) <= 1.
Proof.
  induction k as [|k IH]; intros e c He Hek Hc.
  - cbn [car]. assert (e = 0) by (unfold zn in Hek; lia). subst e. exact Hc.
  - rewrite car_zseq_S. apply (IH (Z.max (e - b) 0)).
    + lia.
    + unfold zn in *. lia.
    + apply bdiv_shrink; auto.
Qed.

(* `cap` steps are as good as any larger number of steps when (cap - 1) b >= e; trivially when gap <= cap *)
Lemma car_zseq_sat_w (cap : nat) (e c : Z) (g : nat) : 0 <= e -> Z.abs c <= 2 ^ e ->
  e <= (zn cap - 1) * b \/ (g <= cap)%nat ->
  car b zseq c (Nat.min g cap) = car b zseq c g.
Proof.
  intros He Hc Hcap. destruct (Nat.le_gt_cases g cap) as [Hg|Hg].
  - rewrite Nat.min_l by auto. reflexivity.
  - destruct Hcap as [Hcap|Hcap]; [|lia]. rewrite Nat.min_r by lia.
    assert (Hc1 : (1 <= cap)%nat).
    { destruct cap as [|cap']; [|lia]. exfalso. unfold zn in Hcap. change (Z.of_nat 0) with 0 in Hcap. lia. }
    set (k := (cap - 1)%nat).
    assert (Hs : Z.abs (car b zseq c k) <= 1).
    { apply (car_zseq_small_w k e c He); [|exact Hc]. unfold k, zn in *. rewrite Nat2Z.inj_sub by lia. cbn. lia. }
    assert (Ecap : car b zseq c cap = bdiv b (car b zseq c k)).
    { replace cap with (S k) by (unfold k; lia). rewrite car_S. unfold zseq at 1. f_equal. }
    assert (Hfix : forall j, car b zseq c (cap + j) = car b zseq c cap).
    { intros j. rewrite car_shift. rewrite (car_ext b _ zseq) by reflexivity.
      apply car_zseq_fix. rewrite Ecap. apply (bdiv_fix_of_small b Hb); exact Hs. }
    replace g with (cap + (g - cap))%nat by lia. rewrite Hfix. reflexivity.
Qed.

End ChainW.
