(* C07 butterfly networks, the mathematics over Z modulo q (no primality used):
   - the recursive Gentleman-Sande network computes sum_j x_j w^(brev(p) j), the recursive Cooley-Tukey network
     computes sum_p y_p w^(brev(p) j)   (w^(2^(m-1)) = -1),
   - sum_i z^(2i+1) = 0 for z = psi^d, 0 < d < n (product formula, only psi^n = -1 is used), the inversion formula,
   - evaluation at a point z with z^n = -1 is multiplicative for the negacyclic product pmul. *)
From PV Require Import Base.MachineInt Model.Limbs Model.DftAbs Model.C07Ntt120 Model.C07NttNet Proofs.C07Dft Proofs.C07Ring
  Proofs.C07NetBase Proofs.C07NetStruct.
From Coq Require Import Morphisms Setoid.
Open Scope Z_scope.

(* ---------------- bit reversal ---------------- *)
Lemma brev_lt m : forall p, (p < pow2n m)%nat -> (brev m p < pow2n m)%nat.
Proof.
  induction m as [|m IH]; intros p H; [cbn; unfold pow2n; cbn; lia|].
  cbn [brev]. rewrite pow2n_S in *. destruct (Nat.ltb_spec p (pow2n m)) as [Hp|Hp].
  - specialize (IH p Hp). lia.
  - specialize (IH (p - pow2n m)%nat ltac:(lia)). lia.
Qed.
Lemma brev_S_lo m p : (p < pow2n m)%nat -> brev (S m) p = (2 * brev m p)%nat.
Proof. intros H. cbn [brev]. destruct (Nat.ltb_spec p (pow2n m)); [reflexivity|lia]. Qed.
Lemma brev_S_hi m p : brev (S m) (pow2n m + p) = (2 * brev m p + 1)%nat.
Proof.
  cbn [brev]. destruct (Nat.ltb_spec (pow2n m + p) (pow2n m)); [lia|].
  replace (pow2n m + p - pow2n m)%nat with p by lia. reflexivity.
Qed.
(* summing over the bit-reversed index is summing over the index *)
Lemma zsum_brev m : forall f : nat -> Z, zsum (fun p => f (brev m p)) (pow2n m) = zsum f (pow2n m).
Proof.
  induction m as [|m IH]; intros f; [reflexivity|].
  rewrite pow2n_S. replace (2 * pow2n m)%nat with (pow2n m + pow2n m)%nat by lia.
  rewrite zsum_app.
  rewrite (zsum_ext (fun p => f (brev (S m) p)) (fun p => f (2 * brev m p)%nat))
    by (intros p Hp; rewrite brev_S_lo by exact Hp; reflexivity).
  rewrite (zsum_ext (fun i => f (brev (S m) (pow2n m + i))) (fun p => f (2 * brev m p + 1)%nat))
    by (intros p Hp; rewrite brev_S_hi; reflexivity).
  rewrite (IH (fun i => f (2 * i)%nat)), (IH (fun i => f (2 * i + 1)%nat)).
  replace (pow2n m + pow2n m)%nat with (2 * pow2n m)%nat by lia.
  symmetry. apply zsum_even_odd.
Qed.

Section Mod.
Variable q : Z.
Local Notation "a == b" := (cong q a b) (at level 70, no associativity).

(* ---------------- exponent shifts by h when w^h = -1 ---------------- *)
Lemma zp_sq w e : zp (w * w) e = zp w (2 * e).
Proof. rewrite zp_mul_base, <- zp_add. f_equal. lia. Qed.
Lemma zp_shift_even w h b j : zp w h == -1 -> zp w (2 * b * (h + j)) == zp w (2 * b * j).
Proof.
  intros Hh. replace (2 * b * (h + j))%nat with (2 * b * j + h * (2 * b))%nat by lia.
  rewrite zp_add, (zp_mul w h (2 * b)), Hh, zp_m1_even. rewrite Z.mul_1_r. reflexivity.
Qed.
Lemma zp_shift_odd w h b j : zp w h == -1 -> zp w ((2 * b + 1) * (h + j)) == - zp w ((2 * b + 1) * j).
Proof.
  intros Hh. replace ((2 * b + 1) * (h + j))%nat with ((2 * b + 1) * j + h * (2 * b + 1))%nat by lia.
  rewrite zp_add, (zp_mul w h (2 * b + 1)), Hh, zp_m1_odd. rewrite <- Z.opp_eq_mul_m1. reflexivity.
Qed.

(* ---------------- Gentleman-Sande (decimation in frequency): natural order in, bit-reversed order out ---------------- *)
Definition laneF (w : Z) : lanefn := fun i a b => (a + b, (a - b) * zp w i).
Fixpoint dif_lanes (m : nat) (w : Z) : list lanefn :=
  match m with O => [] | S m' => laneF w :: dif_lanes m' (w * w) end.
Lemma dif_lanes_length m : forall w, length (dif_lanes m w) = m.
Proof. induction m as [|m IH]; intros w; cbn [dif_lanes length]; [reflexivity|rewrite IH; reflexivity]. Qed.

Theorem dif_spec m : forall w x, length x = pow2n m ->
  (forall m', m = S m' -> zp w (pow2n m') == -1) ->
  forall p, (p < pow2n m)%nat ->
  nth p (rnet (dif_lanes m w) x) 0 == zsum (fun j => nth j x 0 * zp w (brev m p * j)) (pow2n m).
Proof.
  induction m as [|m IH]; intros w x Hx Hw p Hp.
  - cbn [dif_lanes rnet brev]. change (pow2n 0) with 1%nat in *. assert (p = 0)%nat as -> by lia.
    rewrite zsum_S, zsum_0. cbn [zp Nat.mul]. replace (0 + nth 0 x 0 * 1) with (nth 0 x 0) by ring. reflexivity.
  - cbn [dif_lanes rnet]. rewrite dif_lanes_length. set (h := pow2n m) in *.
    rewrite pow2n_S in Hx, Hp. fold h in Hx, Hp.
    pose proof (Hw m eq_refl) as Hh. fold h in Hh.
    assert (Hw' : forall m', m = S m' -> zp (w * w) (pow2n m') == -1).
    { intros m' ->. rewrite zp_sq, <- pow2n_S. exact Hh. }
    pose proof (bfly_length (laneF w) x h Hx) as Hb.
    assert (Hl1 : length (firstn h (bfly (laneF w) x)) = pow2n m) by (rewrite firstn_length; fold h; lia).
    assert (Hl2 : length (skipn h (bfly (laneF w) x)) = pow2n m) by (rewrite skipn_length; fold h; lia).
    assert (HA : length (rnet (dif_lanes m (w * w)) (firstn h (bfly (laneF w) x))) = h).
    { pose proof (rnet_length (dif_lanes m (w * w)) (firstn h (bfly (laneF w) x))) as R.
      rewrite dif_lanes_length in R. apply R. exact Hl1. }
    rewrite pow2n_S. fold h. rewrite zsum_double.
    destruct (Nat.ltb_spec p h) as [Hph|Hph].
    + rewrite app_nth1 by lia. rewrite (IH (w * w) _ Hl1 Hw' p Hph). fold h.
      rewrite brev_S_lo by exact Hph. apply zsum_cong. intros j Hj.
      rewrite (firstn_bfly _ _ _ Hx), nth_map_seq by exact Hj. unfold lane_lo, laneF. cbn [fst].
      rewrite zp_sq. rewrite (zp_shift_even w h (brev m p) j Hh).
      replace (2 * (brev m p * j))%nat with (2 * brev m p * j)%nat by lia. ring_simplify. reflexivity.
    + rewrite app_nth2 by lia. rewrite HA.
      assert (Hp' : (p - h < pow2n m)%nat) by (fold h; lia).
      rewrite (IH (w * w) _ Hl2 Hw' (p - h)%nat Hp'). fold h.
      assert (Ep : brev (S m) p = (2 * brev m (p - h) + 1)%nat).
      { replace p with (pow2n m + (p - h))%nat at 1 by (fold h; lia). apply brev_S_hi. }
      rewrite Ep.
      apply zsum_cong. intros j Hj.
      rewrite (skipn_bfly _ _ _ Hx), nth_map_seq by exact Hj. unfold lane_hi, laneF. cbn [snd].
      rewrite zp_sq. rewrite (zp_shift_odd w h (brev m (p - h)) j Hh).
      replace ((2 * brev m (p - h) + 1) * j)%nat with (j + 2 * (brev m (p - h) * j))%nat by lia.
      rewrite zp_add. ring_simplify. reflexivity.
Qed.

(* ---------------- Cooley-Tukey (decimation in time): bit-reversed order in, natural order out ---------------- *)
Definition laneI (w : Z) : lanefn := fun i a b => (a + b * zp w i, a - b * zp w i).
Fixpoint dit_lanes (m : nat) (w : Z) : list lanefn :=
  match m with O => [] | S m' => laneI w :: dit_lanes m' (w * w) end.
Lemma dit_lanes_length m : forall w, length (dit_lanes m w) = m.
Proof. induction m as [|m IH]; intros w; cbn [dit_lanes length]; [reflexivity|rewrite IH; reflexivity]. Qed.

Theorem dit_spec m : forall w y, length y = pow2n m ->
  (forall m', m = S m' -> zp w (pow2n m') == -1) ->
  forall j, (j < pow2n m)%nat ->
  nth j (irnet (dit_lanes m w) y) 0 == zsum (fun p => nth p y 0 * zp w (brev m p * j)) (pow2n m).
Proof.
  induction m as [|m IH]; intros w y Hy Hw j Hj.
  - cbn [dit_lanes irnet brev]. change (pow2n 0) with 1%nat in *. assert (j = 0)%nat as -> by lia.
    rewrite zsum_S, zsum_0. cbn [zp Nat.mul]. replace (0 + nth 0 y 0 * 1) with (nth 0 y 0) by ring. reflexivity.
  - cbn [dit_lanes irnet]. rewrite dit_lanes_length. set (h := pow2n m) in *.
    rewrite pow2n_S in Hy, Hj. fold h in Hy, Hj.
    pose proof (Hw m eq_refl) as Hh. fold h in Hh.
    assert (Hw' : forall m', m = S m' -> zp (w * w) (pow2n m') == -1).
    { intros m' ->. rewrite zp_sq, <- pow2n_S. exact Hh. }
    assert (Hl1 : length (firstn h y) = pow2n m) by (rewrite firstn_length; fold h; lia).
    assert (Hl2 : length (skipn h y) = pow2n m) by (rewrite skipn_length; fold h; lia).
    set (U := irnet (dit_lanes m (w * w)) (firstn h y)).
    set (V := irnet (dit_lanes m (w * w)) (skipn h y)).
    assert (HU : length U = h).
    { pose proof (irnet_length (dit_lanes m (w * w)) (firstn h y)) as R. rewrite dit_lanes_length in R. apply R. exact Hl1. }
    assert (HV : length V = h).
    { pose proof (irnet_length (dit_lanes m (w * w)) (skipn h y)) as R. rewrite dit_lanes_length in R. apply R. exact Hl2. }
    assert (HUV : length (U ++ V) = (2 * h)%nat) by (rewrite app_length; lia).
    assert (EU : forall i, (i < h)%nat -> nth i (U ++ V) 0 == zsum (fun p => nth p y 0 * zp w (2 * brev m p * i)) h).
    { intros i Hi. rewrite app_nth1 by lia. unfold U. rewrite (IH (w * w) _ Hl1 Hw' i Hi). fold h.
      apply zsum_cong. intros p Hp. rewrite nth_firstn' by exact Hp. rewrite zp_sq.
      replace (2 * (brev m p * i))%nat with (2 * brev m p * i)%nat by lia. reflexivity. }
    assert (EV : forall i, (i < h)%nat -> nth (h + i) (U ++ V) 0 == zsum (fun p => nth (h + p) y 0 * zp w (2 * brev m p * i)) h).
    { intros i Hi. rewrite app_nth2 by lia. rewrite HU. replace (h + i - h)%nat with i by lia.
      unfold V. rewrite (IH (w * w) _ Hl2 Hw' i Hi). fold h.
      apply zsum_cong. intros p Hp. rewrite nth_skipn'. rewrite zp_sq.
      replace (2 * (brev m p * i))%nat with (2 * brev m p * i)%nat by lia. reflexivity. }
    rewrite pow2n_S. fold h. replace (2 * h)%nat with (h + h)%nat by lia. rewrite zsum_app.
    destruct (Nat.ltb_spec j h) as [Hjh|Hjh].
    + rewrite (nth_bfly_lo _ _ _ _ HUV Hjh). unfold lane_lo, laneI. cbn [fst].
      rewrite (EU j Hjh), (EV j Hjh). rewrite <- zsum_mul_r, <- zsum_add.
      rewrite <- zsum_add. apply zsum_cong. intros p Hp.
      rewrite brev_S_lo by exact Hp. rewrite (brev_S_hi m p : brev (S m) (h + p) = _).
      replace ((2 * brev m p + 1) * j)%nat with (2 * brev m p * j + j)%nat by lia.
      rewrite zp_add. ring_simplify. reflexivity.
    + replace j with (h + (j - h))%nat at 1 by lia.
      assert (Hj' : (j - h < h)%nat) by lia.
      rewrite (nth_bfly_hi _ _ _ _ HUV Hj'). unfold lane_hi, laneI. cbn [snd].
      rewrite (EU _ Hj'), (EV _ Hj'). rewrite <- zsum_mul_r, <- zsum_sub.
      rewrite <- zsum_add. apply zsum_cong. intros p Hp.
      rewrite brev_S_lo by exact Hp. rewrite (brev_S_hi m p : brev (S m) (h + p) = _).
      replace (zp w (2 * brev m p * j)) with (zp w (2 * brev m p * (h + (j - h)))) by (f_equal; f_equal; lia).
      replace (zp w ((2 * brev m p + 1) * j)) with (zp w ((2 * brev m p + 1) * (h + (j - h)))) by (f_equal; f_equal; lia).
      rewrite (zp_shift_even w h (brev m p) (j - h) Hh), (zp_shift_odd w h (brev m p) (j - h) Hh).
      replace ((2 * brev m p + 1) * (j - h))%nat with (2 * brev m p * (j - h) + (j - h))%nat by lia.
      rewrite zp_add. ring_simplify. reflexivity.
Qed.

(* ---------------- geometric sums: only psi^(2^m) = -1 is used ---------------- *)
Lemma geo_double y h : zsum (zp y) (2 * h) = (1 + zp y h) * zsum (zp y) h.
Proof.
  rewrite zsum_double, <- zsum_mul_l. apply zsum_ext. intros i _. rewrite zp_add. ring.
Qed.
Lemma geo_vanish m : forall y, (exists t, (t < m)%nat /\ zp y (pow2n t) == -1) -> zsum (zp y) (pow2n m) == 0.
Proof.
  induction m as [|m IH]; intros y [t [Ht Hy]]; [lia|].
  rewrite pow2n_S, geo_double. destruct (Nat.eq_dec t m) as [->|Hne].
  - rewrite Hy. replace (1 + -1) with 0 by ring. rewrite Z.mul_0_l. reflexivity.
  - rewrite IH by (exists t; split; [lia|exact Hy]). rewrite Z.mul_0_r. reflexivity.
Qed.
Lemma root_factor m : forall psi d, (0 < d < pow2n m)%nat -> zp psi (pow2n m) == -1 ->
  exists t, (t < m)%nat /\ zp (zp psi (2 * d)) (pow2n t) == -1.
Proof.
  induction m as [|m IH]; intros psi d Hd Hpsi; [change (pow2n 0) with 1%nat in Hd; lia|].
  destruct (Nat.Even_or_Odd d) as [[e He]|[e He]].
  - rewrite pow2n_S in Hd. destruct (IH (psi * psi) e ltac:(lia)) as [t [Ht H]].
    { rewrite zp_sq, <- pow2n_S. exact Hpsi. }
    exists t. split; [lia|]. rewrite zp_sq in H. replace (2 * d)%nat with (2 * (2 * e))%nat by lia. exact H.
  - exists m. split; [lia|]. rewrite <- zp_mul.
    replace (2 * d * pow2n m)%nat with (pow2n (S m) * d)%nat by (rewrite pow2n_S; lia).
    rewrite zp_mul, Hpsi. rewrite He. rewrite zp_m1_odd. reflexivity.
Qed.
(* sum over the odd powers of z = psi^d *)
Lemma ortho m psi d : (0 < d < pow2n m)%nat -> zp psi (pow2n m) == -1 ->
  zsum (fun i => zp (zp psi d) (2 * i + 1)) (pow2n m) == 0.
Proof.
  intros Hd Hpsi.
  rewrite (zsum_ext _ (fun i => zp psi d * zp (zp psi (2 * d)) i)).
  - rewrite zsum_mul_l. rewrite (geo_vanish m _ (root_factor m psi d Hd Hpsi)). rewrite Z.mul_0_r. reflexivity.
  - intros i _. rewrite zp_add, zp_1_r. rewrite <- !zp_mul. rewrite Z.mul_comm. f_equal. f_equal. lia.
Qed.

(* evaluation of the coefficient list a (n entries) at z *)
Definition peval (a : list Z) (z : Z) (n : nat) : Z := zsum (fun j => nth j a 0 * zp z j) n.

Lemma inv_pow psi phi e : psi * phi == 1 -> zp psi e * zp phi e == 1.
Proof. intros H. rewrite <- zp_mul_base, H, zp_1_l. reflexivity. Qed.

(* the inversion formula behind intt(ntt(x)) = x *)
Theorem inversion m psi phi ninv x : psi * phi == 1 -> zp psi (pow2n m) == -1 -> ninv * Z.of_nat (pow2n m) == 1 ->
  forall j, (j < pow2n m)%nat ->
  ninv * zsum (fun p => peval x (zp psi (2 * brev m p + 1)) (pow2n m) * zp phi ((2 * brev m p + 1) * j)) (pow2n m)
  == nth j x 0.
Proof.
  intros Hinv Hpsi Hn j Hj. set (n := pow2n m) in *.
  assert (Hphi : zp phi n == -1).
  { pose proof (inv_pow psi phi n Hinv) as H. rewrite Hpsi in H.
    replace (zp phi n) with (-1 * (-1 * zp phi n)) by ring. rewrite H. reflexivity. }
  pose proof (zsum_brev m (fun i => peval x (zp psi (2 * i + 1)) n * zp phi ((2 * i + 1) * j))) as Eb.
  fold n in Eb. cbv beta in Eb. rewrite Eb. clear Eb.
  unfold peval.
  rewrite (zsum_ext _ (fun i => zsum (fun j' => nth j' x 0 * (zp psi ((2 * i + 1) * j') * zp phi ((2 * i + 1) * j))) n)).
  2:{ intros i _. rewrite <- zsum_mul_r. apply zsum_ext. intros j' _. rewrite <- zp_mul. ring. }
  rewrite zsum_swap.
  rewrite (zsum_ext _ (fun j' => nth j' x 0 * zsum (fun i => zp psi ((2 * i + 1) * j') * zp phi ((2 * i + 1) * j)) n))
    by (intros j' _; rewrite zsum_mul_l; reflexivity).
  assert (HS : forall j', (j' < n)%nat ->
     zsum (fun i => zp psi ((2 * i + 1) * j') * zp phi ((2 * i + 1) * j)) n == if Nat.eqb j' j then Z.of_nat n else 0).
  { intros j' Hj'. destruct (Nat.eqb_spec j' j) as [->|Hne].
    - rewrite <- (Z.mul_1_r (Z.of_nat n)), <- zsum_const. apply zsum_cong. intros i _. apply inv_pow. exact Hinv.
    - destruct (Nat.lt_ge_cases j j') as [Hlt|Hge].
      + rewrite <- (ortho m psi (j' - j)) by (fold n; try lia; exact Hpsi). fold n.
        apply zsum_cong. intros i _.
        replace ((2 * i + 1) * j')%nat with ((j' - j) * (2 * i + 1) + (2 * i + 1) * j)%nat by nia.
        rewrite zp_add, zp_mul. rewrite <- Z.mul_assoc. rewrite (inv_pow psi phi _ Hinv). rewrite Z.mul_1_r. reflexivity.
      + rewrite <- (ortho m phi (j - j')) by (fold n; try lia; exact Hphi). fold n.
        apply zsum_cong. intros i _.
        replace ((2 * i + 1) * j)%nat with ((j - j') * (2 * i + 1) + (2 * i + 1) * j')%nat by nia.
        rewrite (zp_add phi), (zp_mul phi (j - j') (2 * i + 1)).
        set (A := zp psi _). set (B := zp (zp phi _) _). set (C := zp phi _).
        replace (A * (B * C)) with (B * (A * C)) by ring. unfold A, C.
        rewrite (inv_pow psi phi _ Hinv). rewrite Z.mul_1_r. reflexivity. }
  rewrite (zsum_cong q _ (fun j' => if Nat.eqb j' j then nth j' x 0 * Z.of_nat n else 0)).
  2:{ intros j' Hj'. rewrite (HS j' Hj'). destruct (Nat.eqb j' j); [reflexivity|rewrite Z.mul_0_r; reflexivity]. }
  rewrite (zsum_single (fun j' => nth j' x 0 * Z.of_nat n) j n Hj).
  replace (ninv * (nth j x 0 * Z.of_nat n)) with (nth j x 0 * (ninv * Z.of_nat n)) by ring.
  rewrite Hn, Z.mul_1_r. reflexivity.
Qed.

(* ---------------- evaluation is multiplicative for the negacyclic product ---------------- *)
Theorem peval_pmul a b z : length b = length a -> zp z (length a) == -1 ->
  peval (pmul a b) z (length a) == peval a z (length a) * peval b z (length a).
Proof.
  intros Hl Hz. set (n := length a) in *. unfold peval.
  rewrite (zsum_ext _ (fun k => zsum (fun i => zsum (fun j => nth i a 0 * nth j b 0 * delta n i j k * zp z k) n) n)).
  2:{ intros k Hk. rewrite pmul_delta by (fold n; assumption). fold n. unfold nthZ.
      rewrite <- zsum_mul_r. apply zsum_ext. intros i _. rewrite <- zsum_mul_r. reflexivity. }
  rewrite (sum3_rot (fun k i j => nth i a 0 * nth j b 0 * delta n i j k * zp z k) n).
  rewrite <- zsum_mul_r. apply zsum_cong. intros i Hi.
  rewrite <- zsum_mul_l. apply zsum_cong. intros j Hj.
  rewrite (zsum_ext _ (fun k => (nth i a 0 * nth j b 0) * (delta n i j k * zp z k))) by (intros; ring).
  rewrite zsum_mul_l, (delta_sum_k n i j (zp z) Hi Hj).
  destruct (Nat.ltb_spec (i + j) n) as [H|H].
  - rewrite zp_add. ring_simplify. reflexivity.
  - transitivity (nth i a 0 * nth j b 0 * zp z (i + j)); [|rewrite zp_add; ring_simplify; reflexivity].
    assert (E : zp z (i + j) == - zp z (i + j - n)).
    { replace (i + j)%nat with ((i + j - n) + n)%nat at 1 by lia. rewrite zp_add, Hz. ring_simplify. reflexivity. }
    rewrite E. reflexivity.
Qed.
End Mod.
