(* C17 - op_total, second batch: the checked twins of Model/C17Ops2.v never fail and agree with the shared models. *)
From PV Require Import Base.MachineInt Model.Znx Model.Limbs Model.LimbsBig Model.Ring Model.DftAbs Model.C17Ops Model.C17Ops2
  Proofs.C17Total.
From Coq Require Import Arith PeanoNat.
Open Scope Z_scope.

Lemma getn_in (l : list Z) (i : nat) : (i < length l)%nat -> getn l i = Some (nthZ l i).
Proof. apply getc_in. Qed.
Lemma updn_in (l : list Z) (i : nat) (x : Z) : (i < length l)%nat -> updn l i x = Some (upd l i x).
Proof. apply updc_in. Qed.

Section W.
Variable w : Z.

(* the two shared models are the two instances of the generic routine *)
Lemma normalize_cross_is_g (rb ab off : Z) (a r0 : list Z) :
  normalize_cross w rb ab off a r0 = normalize_cross_g w 128 rb ab off a r0.
Proof. reflexivity. Qed.
Lemma normalize_cross_big_is_g (rb ab off : Z) (a r0 : list Z) :
  normalize_cross_big w rb ab off a r0 = normalize_cross_g w 192 rb ab off a r0.
Proof. reflexivity. Qed.

Definition cst_ok (L : nat) (s : cstate) : Prop := length (c_res s) = L /\ (c_rlimb s < L)%nat.

Lemma cross_inner_total (rb ab : Z) (a_limb : nat) (L : nat) : forall (fuel : nat) (s : cstate),
  cst_ok L s ->
  cross_inner_c w fuel rb ab a_limb s = Some (cross_inner w fuel rb ab a_limb s) /\
  cst_ok L (fst (cross_inner w fuel rb ab a_limb s)).
Proof.
  induction fuel as [|f IH]; intros s (HL & HR); [cbn; unfold cst_ok; auto|].
  cbn [cross_inner_c cross_inner].
  set (a_take := Z.min (Z.min ab (c_atake s)) (c_racc s)).
  (* first block: s1 *)
  set (s1 := if a_take =? 0 then s else
       let scale := rb - c_racc s in
       let '(r', n') := extract_digit_addmul w a_take scale (nthZ (c_res s) (c_rlimb s)) (c_anorm s) in
       {| c_res := upd (c_res s) (c_rlimb s) r'; c_anorm := n'; c_acarry := c_acarry s; c_rcarry := c_rcarry s;
          c_atake := c_atake s - a_take; c_racc := c_racc s - a_take; c_rlimb := c_rlimb s |}).
  assert (E1 : (if a_take =? 0 then Some s else
        let scale := rb - c_racc s in
        xr <- getn (c_res s) (c_rlimb s) ;;
        let '(r', n') := extract_digit_addmul w a_take scale xr (c_anorm s) in
        res' <- updn (c_res s) (c_rlimb s) r' ;;
        Some {| c_res := res'; c_anorm := n'; c_acarry := c_acarry s; c_rcarry := c_rcarry s;
                c_atake := c_atake s - a_take; c_racc := c_racc s - a_take; c_rlimb := c_rlimb s |}) = Some s1 /\ cst_ok L s1).
  { unfold s1. destruct (a_take =? 0); [unfold cst_ok; auto|]. cbv zeta.
    rewrite getn_in by lia. cbn [bindo].
    destruct (extract_digit_addmul w a_take (rb - c_racc s) (nthZ (c_res s) (c_rlimb s)) (c_anorm s)) as [r' n'].
    rewrite updn_in by lia. cbn [bindo]. split; [reflexivity|]. unfold cst_ok; cbn. rewrite upd_length. auto. }
  destruct E1 as (E1 & (HL1 & HR1)).
  match goal with |- (bindo ?X _ = _) /\ _ => replace X with (Some s1) by (symmetry; exact E1) end.
  cbn [bindo]. fold s1. clearbody s1.
  destruct ((c_racc s1 =? 0) || Nat.eqb a_limb 0).
  - destruct (Nat.eqb a_limb 0 && (c_atake s1 =? 0)).
    + (* last a-limb consumed *)
      set (ac := wadd w (c_acarry s1) (c_anorm s1)).
      destruct (c_racc s1 =? 0).
      * cbn [bindo]. rewrite getn_in by lia. cbn [bindo].
        destruct (middle_step_assign w rb 0 (nthZ (c_res s1) (c_rlimb s1)) (c_rcarry s1)) as [x rc].
        rewrite updn_in by lia. cbn [bindo fst]. split; [reflexivity|]. unfold cst_ok; cbn. rewrite upd_length. auto.
      * cbv zeta. rewrite getn_in by lia. cbn [bindo].
        destruct (extract_digit_addmul w (c_racc s1) (rb - c_racc s1) (nthZ (c_res s1) (c_rlimb s1)) ac) as [r' n'].
        rewrite updn_in by lia. cbn [bindo].
        rewrite getn_in by (rewrite upd_length; lia). cbn [bindo].
        destruct (middle_step_assign w rb 0 (nthZ (upd (c_res s1) (c_rlimb s1) r') (c_rlimb s1)) (c_rcarry s1)) as [x rc].
        rewrite updn_in by (rewrite upd_length; lia). cbn [bindo fst]. split; [reflexivity|].
        unfold cst_ok; cbn. rewrite !upd_length. auto.
    + destruct (Nat.eqb_spec (c_rlimb s1) 0) as [E0|E0].
      * cbn [fst]. split; [reflexivity|]. unfold cst_ok; auto.
      * cbv zeta. cbn [c_atake c_res c_anorm c_acarry c_rcarry c_racc c_rlimb].
        destruct (c_atake s1 =? 0).
        -- cbn [fst]. split; [reflexivity|]. unfold cst_ok; cbn. split; [assumption|lia].
        -- apply IH. unfold cst_ok; cbn. split; [assumption|lia].
  - destruct (c_atake s1 =? 0).
    + cbn [fst]. split; [reflexivity|]. unfold cst_ok; cbn. auto.
    + apply IH. unfold cst_ok; auto.
Qed.

Lemma div_ceil_le (x b k : Z) : 1 <= b -> 0 <= x <= k * b -> 0 <= div_ceil x b <= k.
Proof. intros Hb Hx. unfold div_ceil. split; [apply Z.div_pos; lia|].
  assert ((x + b - 1) / b < k + 1) by (apply Z.div_lt_upper_bound; nia). lia. Qed.

Definition ost_ok (L : nat) (st : cstate * bool * bool) : Prop := cst_ok L (fst (fst st)).

(* the checked cross-radix routine performs no out-of-range access (outer Some) and returns what the model returns *)
Theorem normalize_cross_g_total (cap rb ab off : Z) (a r0 : list Z) :
  1 <= rb -> 1 <= ab ->
  normalize_cross_gc w cap rb ab off a r0 = Some (normalize_cross_g w cap rb ab off a r0).
Proof.
  intros Hrb Hab. unfold normalize_cross_gc, normalize_cross_g.
  destruct (split_offset ab off) as [lsh lo].
  set (rsz := length r0). set (asz := length a).
  set (a_tot := zn asz * ab). set (r_tot := zn rsz * rb).
  set (res_end := Z.to_nat (clampZ (- lo * ab) 0 r_tot / rb)).
  set (res_start_bit := clampZ (a_tot - lo * ab) 0 r_tot).
  set (a_start_bit := clampZ (r_tot + lo * ab) 0 a_tot).
  set (res_start := Z.to_nat (div_ceil res_start_bit rb)).
  set (a_start := Z.to_nat (div_ceil a_start_bit ab)).
  set (a_end := Z.to_nat (clampZ (lo * ab) 0 a_tot / ab)).
  assert (Hrs : (res_start <= rsz)%nat).
  { unfold res_start. pose proof (div_ceil_le res_start_bit rb (zn rsz) Hrb) as H.
    assert (0 <= res_start_bit <= zn rsz * rb) by (unfold res_start_bit, clampZ, r_tot, zn; nia). specialize (H H0). unfold zn in *. lia. }
  assert (Has : (a_start <= asz)%nat).
  { unfold a_start. pose proof (div_ceil_le a_start_bit ab (zn asz) Hab) as H.
    assert (0 <= a_start_bit <= zn asz * ab) by (unfold a_start_bit, clampZ, a_tot, zn; nia). specialize (H H0). unfold zn in *. lia. }
  assert (Hre : (res_end <= rsz)%nat).
  { unfold res_end. assert (0 <= clampZ (- lo * ab) 0 r_tot <= zn rsz * rb) by (unfold clampZ, r_tot, zn; nia).
    assert (clampZ (- lo * ab) 0 r_tot / rb <= zn rsz) by (apply Z.div_le_upper_bound; nia).
    assert (0 <= clampZ (- lo * ab) 0 r_tot / rb) by (apply Z.div_pos; lia). unfold zn in *. lia. }
  destruct (zero_range_total r0 0 rsz ltac:(fold rsz; lia)) as (Ez & _). rewrite Ez. cbn [bindo].
  assert (Hz0 : zero_range r0 0 rsz = zeros rsz) by (unfold rsz; apply zero_range_all). rewrite !Hz0.
  destruct (Nat.eqb_spec res_start 0) as [E0|E0]; [reflexivity|].
  rewrite carry_phase_total by (fold asz; lia). cbn [bindo].
  set (s0 := {| c_res := zeros rsz; c_anorm := 0; c_acarry := carry_phase w ab lsh a asz (asz - a_start); c_rcarry := 0;
                c_atake := 0; c_racc := rb; c_rlimb := (res_start - 1)%nat |}).
  set (fuel := (Z.to_nat ab + Z.to_nat rb + 4)%nat).
  match goal with |- bindo (foldc ?fc ?l ?st0) _ = _ =>
    match goal with |- context [fold_left ?f l st0] =>
      destruct (foldc_seq (ost_ok rsz) f fc (a_start - a_end) 0%nat st0) as (E & P) end end.
  - unfold ost_ok, cst_ok, s0; cbn. rewrite zeros_length. lia.
  - intros [[s brk] bad] j HP Hj. unfold ost_ok in *; cbn [fst] in HP.
    destruct (brk || bad); [split; [reflexivity|exact HP]|].
    rewrite idx_down by lia. rewrite getc_in by (fold asz; lia). cbn [bindo].
    destruct (middle_step w true ab lsh 0 (nthZ a (a_start - j - 1)) (c_acarry s)) as [an ac].
    match goal with |- (bindo (cross_inner_c w fuel rb ab _ ?s2) _ = _) /\ _ =>
      destruct (cross_inner_total rb ab (a_start - j - 1) rsz fuel s2) as (Ei & Pi) end.
    { destruct HP as (HL & HR).
      destruct (Nat.eqb j 0); [|unfold cst_ok; cbn; auto].
      destruct (negb ((a_tot - a_start_bit) mod ab =? 0)); [unfold cst_ok; cbn; auto|].
      destruct (negb ((r_tot - res_start_bit) mod rb =? 0)); unfold cst_ok; cbn; auto. }
    rewrite Ei. cbn [bindo].
    match goal with |- context [cross_inner w fuel rb ab ?al ?s2] => destruct (cross_inner w fuel rb ab al s2) as [s3 [| |]] end;
      cbn [fst] in Pi; split; try reflexivity; exact Pi.
  - rew_conv E. cbn [bindo].
    match goal with |- context [fold_left ?f ?l ?st0] => destruct (fold_left f l st0) as [[s brk] bad] end.
    unfold ost_ok in P; cbn [fst] in P. destruct P as (PL & PR).
    destruct bad; [reflexivity|].
    destruct (Nat.eqb res_end 0); [reflexivity|].
    match goal with |- bindo (top_phase_c w false rb 0 res_end (c_res s, ?cu)) _ = _ =>
      destruct (top_phase_total w false rb 0 res_end (c_res s) cu ltac:(lia)) as (Et & _) end.
    rewrite Et. reflexivity.
Qed.

(* i64 routine (cap 128): no access leaves its operand and - with the C08 fuel theorem - the result is Some *)
Corollary normalize_cross_total_c (rb ab off : Z) (a r0 : list Z) :
  1 <= rb -> 1 <= ab ->
  normalize_cross_gc w 128 rb ab off a r0 = Some (normalize_cross w rb ab off a r0).
Proof. intros. rewrite normalize_cross_is_g. apply normalize_cross_g_total; assumption. Qed.
Corollary normalize_cross_big_total_c (rb ab off : Z) (a r0 : list Z) :
  1 <= rb -> 1 <= ab ->
  normalize_cross_gc w 192 rb ab off a r0 = Some (normalize_cross_big w rb ab off a r0).
Proof. intros. rewrite normalize_cross_big_is_g. apply normalize_cross_g_total; assumption. Qed.

Theorem normalize_inter_cap_total (cap : nat) (b off : Z) (a r0 : list Z) :
  normalize_inter_cc w cap b off a r0 = Some (LimbsBig.normalize_inter_c w cap b off a r0).
Proof.
  unfold normalize_inter_cc, LimbsBig.normalize_inter_c.
  destruct (split_offset b off) as [lsh lo].
  set (rsz := length r0). set (asz := length a).
  set (res_end := natc (- lo) 0 (zn rsz)). set (res_start := natc (zn asz - lo) 0 (zn rsz)).
  set (a_end := natc lo 0 (zn asz)). set (a_start := natc (zn rsz + lo) 0 (zn asz)).
  pose proof (natc_le (- lo) rsz) as H1. pose proof (natc_le (zn asz - lo) rsz) as H2.
  pose proof (natc_le lo asz) as H3. pose proof (natc_le (zn rsz + lo) asz) as H4.
  fold res_end in H1. fold res_start in H2. fold a_end in H3. fold a_start in H4.
  assert (Hmid : (a_start - a_end <= res_start)%nat).
  { unfold a_start, a_end, res_start, natc, clampZ, zn. lia. }
  rewrite carry_phase_total by (fold asz; lia). cbn [bindo].
  destruct (zero_range_total r0 res_start rsz ltac:(fold rsz; lia)) as (Ez & Lz). rewrite Ez. cbn [bindo].
  destruct (mid_phase_total w true b lsh a res_start a_start (a_start - a_end)
              (zero_range r0 res_start rsz) (carry_phase w b lsh a asz (asz - a_start))
              ltac:(rewrite Lz; fold rsz; lia) ltac:(fold asz; lia) Hmid ltac:(lia)) as (Em & Lm).
  rewrite Em. cbn [bindo].
  destruct (mid_phase w true b lsh a res_start a_start (a_start - a_end)
              (zero_range r0 res_start rsz, carry_phase w b lsh a asz (asz - a_start))) as [r2 c2] eqn:E2.
  cbn [fst] in Lm.
  destruct (top_phase_total w true b lsh res_end r2
              (if lo <? 0 then gap_phase_c w cap b (Z.to_nat (- lo) - rsz) c2 else c2)
              ltac:(rewrite Lm, Lz; fold rsz; lia)) as (Et & _).
  rewrite Et. reflexivity.
Qed.

(* ---------------- add_scalar / sub_scalar ---------------- *)
Theorem vec_add_scalar_total (n : nat) (sub : bool) (a : list Z) (b : limbs) (b_limb : nat) (r0 : limbs) :
  vec_add_scalar_c w n sub a b b_limb r0 = Some (vec_add_scalar w n sub a b b_limb r0).
Proof.
  unfold vec_add_scalar_c, vec_add_scalar. apply build_total. intros j Hj.
  destruct (Nat.ltb_spec j (length b)); [rewrite lnthc_in by lia|]; reflexivity.
Qed.
(* the model's own rejection (res_limb >= size: at_mut asserts) is the only way the twin fails *)
Theorem vec_add_scalar_assign_total (sub : bool) (a : list Z) (res_limb : nat) (r0 : limbs) :
  vec_add_scalar_assign_c w sub a res_limb r0 = vec_add_scalar_assign w sub a res_limb r0.
Proof.
  unfold vec_add_scalar_assign_c, vec_add_scalar_assign.
  destruct (Nat.ltb_spec res_limb (length r0)).
  - rewrite lnthc_in by lia. cbn [bindo]. apply build_total. intros j Hj. rewrite lnthc_in by lia. reflexivity.
  - rewrite lnthc_out by lia. reflexivity.
Qed.

(* ---------------- split_ring / merge_rings ---------------- *)
Lemma znx_switch_ring_total (n_out : nat) (r0 a : list Z) :
  (0 < n_out)%nat -> (0 < length a)%nat ->
  (exists g, (0 < g)%nat /\ (length a = g * n_out \/ n_out = g * length a)%nat) ->
  znx_switch_ring_c n_out r0 a = Some (znx_switch_ring n_out r0 a).
Proof.
  intros Hn Ha (g & Hg & Hd). unfold znx_switch_ring_c, znx_switch_ring.
  destruct (Nat.eqb (length a) n_out); [reflexivity|].
  destruct (Nat.ltb_spec n_out (length a)) as [Hlt|Hge].
  - apply seqo_map. intros t Ht. apply in_seq in Ht. apply getn_in.
    apply (switch_down_in_bounds (length a) n_out t); lia.
  - apply seqo_map. intros t Ht. apply in_seq in Ht.
    destruct (Nat.eqb (t mod (n_out / length a)) 0); [|reflexivity]. apply getn_in.
    destruct Hd as [Hd|Hd].
    + (* length a = g * n_out with n_out >= length a: g = 1 *)
      assert (g = 1)%nat by nia. subst g. assert (length a = n_out) by lia.
      rewrite H, Nat.div_same by lia. rewrite Nat.div_1_r. lia.
    + rewrite Hd, Nat.div_mul by lia. apply Nat.div_lt_upper_bound; lia.
Qed.

Definition limbs_wf (n : nat) (l : limbs) : Prop := Forall (fun x => length x = n) l.

Lemma lnth_len (n : nat) (l : limbs) (j : nat) : limbs_wf n l -> (j < length l)%nat -> length (lnth l j) = n.
Proof. intros H Hj. unfold lnth, limbs_wf in *. rewrite Forall_forall in H. apply H. apply nth_In. exact Hj. Qed.

Lemma znx_rotate_length (p : Z) (src : list Z) : length (znx_rotate w p src) = length src.
Proof.
  unfold znx_rotate. set (n := Z.of_nat (length src)). set (k := Z.to_nat (n - (p mod (2 * n)) mod n)).
  assert (length (firstn k src) + length (skipn k src) = length src)%nat by (rewrite <- app_length, firstn_skipn; reflexivity).
  destruct (p mod (2 * n) <? n); rewrite app_length; unfold vneg; rewrite map_length; lia.
Qed.

Theorem vec_split_part_total (n_in n_out i : nat) (a r0 : limbs) :
  (0 < n_out)%nat -> (0 < n_in)%nat -> (exists g, (0 < g)%nat /\ n_in = (g * n_out)%nat) -> limbs_wf n_in a ->
  vec_split_part_c w n_out i a r0 = Some (vec_split_part w n_out i a r0).
Proof.
  intros Ho Hi (g & Hg & Hd) Hwf. unfold vec_split_part_c, vec_split_part. apply build_total. intros j Hj.
  destruct (Nat.ltb_spec j (length a)); [|reflexivity]. rewrite !lnthc_in by lia. cbn [bindo].
  apply znx_switch_ring_total; [exact Ho| |].
  - destruct (Nat.eqb i 0); [|rewrite znx_rotate_length]; rewrite (lnth_len n_in) by assumption; lia.
  - exists g. split; [exact Hg|]. left.
    destruct (Nat.eqb i 0); [|rewrite znx_rotate_length]; rewrite (lnth_len n_in) by assumption; exact Hd.
Qed.

Theorem vec_merge_rings_total (n_in n_out : nat) (parts : list limbs) (r0 : limbs) :
  (0 < length parts)%nat -> n_out = (length parts * n_in)%nat -> Forall (limbs_wf n_in) parts ->
  vec_merge_rings_c n_out parts r0 = Some (vec_merge_rings n_out parts r0).
Proof.
  intros Hp Hd Hwf. unfold vec_merge_rings_c, vec_merge_rings. apply build_total. intros j Hj.
  apply seqo_map. intros u Hu. apply in_seq in Hu.
  set (gap := length parts). assert (Hi : (u mod gap < gap)%nat) by (apply Nat.mod_upper_bound; lia).
  rewrite (nth_error_nth' parts [] Hi). cbn [bindo].
  destruct (Nat.ltb_spec j (length (nth (u mod gap) parts []))) as [Hl|]; [|reflexivity].
  rewrite lnthc_in by exact Hl. cbn [bindo]. apply getn_in.
  rewrite Forall_forall in Hwf. rewrite (lnth_len n_in); [|apply Hwf; apply nth_In; exact Hi|exact Hl].
  apply Nat.div_lt_upper_bound; [lia|]. fold gap in Hd. lia.
Qed.

End W.

(* ---------------- DFT-domain shape functions ---------------- *)
Lemma limc_in (l : plimbs) (j : nat) : (j < length l)%nat -> limc l j = Some (lim l j).
Proof. intros H. unfold limc, lim. apply nth_error_nth'. exact H. Qed.
Lemma mk_total (rsz : nat) (f : nat -> list Z) (fc : nat -> option (list Z)) :
  (forall j, (j < rsz)%nat -> fc j = Some (f j)) -> mk_c rsz fc = Some (mk rsz f).
Proof. intros H. unfold mk_c, mk. apply seqo_map. intros j Hj. apply in_seq in Hj. apply H. lia. Qed.

Theorem dft_select_total (n rsz step offset : nat) (a : plimbs) :
  dft_select_c n rsz step offset a = Some (dft_select n rsz step offset a).
Proof.
  unfold dft_select_c, dft_select. apply mk_total. intros j Hj.
  destruct (Nat.ltb j (Nat.min rsz (ceil_div (length a) step))); [|reflexivity].
  destruct (Nat.ltb_spec (offset + j * step) (length a)); [apply limc_in; assumption|reflexivity].
Qed.
Theorem dft_add_total (n rsz : nat) (a b : plimbs) : dft_add_c n rsz a b = Some (dft_add n rsz a b).
Proof.
  unfold dft_add_c, dft_add. apply mk_total. intros j Hj.
  destruct (Nat.ltb_spec j (Nat.min (length a) (length b))).
  - rewrite !limc_in by lia. reflexivity.
  - destruct (Nat.ltb_spec j (Nat.max (length a) (length b))); [|reflexivity].
    destruct (Nat.leb_spec (length a) (length b)); rewrite limc_in by lia; reflexivity.
Qed.
Theorem dft_sub_total (n rsz : nat) (a b : plimbs) : dft_sub_c n rsz a b = Some (dft_sub n rsz a b).
Proof.
  unfold dft_sub_c, dft_sub. apply mk_total. intros j Hj.
  destruct (Nat.ltb_spec j (Nat.min (length a) (length b))).
  - rewrite !limc_in by lia. reflexivity.
  - destruct (Nat.ltb_spec j (Nat.max (length a) (length b))); [|reflexivity].
    destruct (Nat.leb_spec (length a) (length b)); rewrite limc_in by lia; reflexivity.
Qed.
Theorem dft_add_assign_total (a r0 : plimbs) : dft_add_assign_c a r0 = Some (dft_add_assign a r0).
Proof.
  unfold dft_add_assign_c, dft_add_assign. apply mk_total. intros j Hj. rewrite limc_in by lia. cbn [bindo].
  destruct (Nat.ltb_spec j (length a)); [rewrite limc_in by lia|]; reflexivity.
Qed.
Theorem dft_sub_assign_total (a r0 : plimbs) : dft_sub_assign_c a r0 = Some (dft_sub_assign a r0).
Proof.
  unfold dft_sub_assign_c, dft_sub_assign. apply mk_total. intros j Hj. rewrite limc_in by lia. cbn [bindo].
  destruct (Nat.ltb_spec j (length a)); [rewrite limc_in by lia|]; reflexivity.
Qed.
Theorem dft_sub_negate_assign_total (a r0 : plimbs) : dft_sub_negate_assign_c a r0 = Some (dft_sub_negate_assign a r0).
Proof.
  unfold dft_sub_negate_assign_c, dft_sub_negate_assign. apply mk_total. intros j Hj. rewrite limc_in by lia. cbn [bindo].
  destruct (Nat.ltb_spec j (length a)); [rewrite limc_in by lia|]; reflexivity.
Qed.
Theorem dft_add_scaled_assign_total (scale : Z) (a r0 : plimbs) :
  dft_add_scaled_assign_c scale a r0 = Some (dft_add_scaled_assign scale a r0).
Proof.
  unfold dft_add_scaled_assign_c, dft_add_scaled_assign.
  destruct (0 <? scale).
  - apply mk_total. intros j Hj. rewrite limc_in by lia. cbn [bindo].
    destruct (Nat.ltb_spec j (Nat.min (length a) (length r0) - Nat.min (Z.to_nat scale) (length a))); [rewrite limc_in by lia|]; reflexivity.
  - destruct (scale <? 0); [|apply dft_add_assign_total].
    apply mk_total. intros j Hj. rewrite limc_in by lia. cbn [bindo].
    destruct (Nat.leb_spec (Nat.min (Z.to_nat (- scale)) (length r0)) j); cbn [andb]; [|reflexivity].
    destruct (Nat.ltb_spec (j - Nat.min (Z.to_nat (- scale)) (length r0)) (Nat.min (length a) (length r0 - Nat.min (Z.to_nat (- scale)) (length r0))));
      [rewrite limc_in by lia|]; reflexivity.
Qed.
Theorem svp_apply_total (n rsz : nat) (s : list Z) (b : plimbs) : svp_apply_c n rsz s b = Some (svp_apply n rsz s b).
Proof.
  unfold svp_apply_c, svp_apply. apply mk_total. intros j Hj.
  destruct (Nat.ltb_spec j (length b)); [rewrite limc_in by lia|]; reflexivity.
Qed.

(* vmp: every flat index of `a` is < cols_in * a.size and every (q, c + off) is inside the nrows x ncols matrix *)
Theorem vmp_total (n rcols rsz acols asz rows msize limb_offset : nat) (aflat : nat -> list Z) (mflat : nat -> nat -> list Z) (c : nat) :
  vmp_c n rcols rsz acols asz rows msize limb_offset aflat mflat c =
  Some (vmp n rcols rsz acols asz rows msize limb_offset aflat mflat c).
Proof.
  unfold vmp_c, vmp.
  set (nrows := (acols * rows)%nat). set (ncols := (rcols * msize)%nat). set (a_len := (acols * asz)%nat).
  set (col_max := Nat.min ncols (rcols * rsz + limb_offset * rcols)). set (off := (limb_offset * rcols)%nat).
  destruct (Nat.leb_spec col_max off); [reflexivity|].
  destruct (Nat.ltb_spec c (col_max - off)) as [Hc|]; [|reflexivity].
  apply (foldc_seq (fun _ => True)); auto. intros acc q _ Hq. split; auto.
  unfold flat1_c, flat2_c.
  assert (Nat.ltb q a_len = true) as -> by (apply Nat.ltb_lt; lia).
  assert (Nat.ltb q nrows = true) as -> by (apply Nat.ltb_lt; lia).
  assert (Nat.ltb (c + off) ncols = true) as -> by (apply Nat.ltb_lt; unfold col_max in *; lia).
  reflexivity.
Qed.
