(* C10: every AVX kernel body of znx_avx/{normalization,mul,add,sub,neg}.rs, as a lane function, equals the scalar
   reference kernel of Model/Znx.v -- for all lane values (no range hypothesis is needed for the normalisation
   kernels: every intermediate is re-wrapped), all radices 1..63 and all lsh < radix, both OVERWRITE values. *)
From PV Require Import Base.MachineInt Model.Znx Proofs.ZnxDigit Model.C10AvxLanes Proofs.C10Avx Proofs.C10Simd.
Open Scope Z_scope.

(* consts at radix b, as rewriting rule on the 4-tuple *)
Lemma consts_eq (b : Z) : 1 <= b <= 63 ->
  normalize_consts_avx b = (2 ^ b - 1, 2 ^ (b - 1), b, - 2 ^ (64 - b)).
Proof.
  intros Hb. unfold normalize_consts_avx, mm_set1.
  rewrite mask_k_eq, sign_k_eq, topmask_eq by lia. reflexivity.
Qed.

Ltac avx_norm :=
  cbv beta iota zeta delta [mm_set1 mm_add mm_sub wadd wsub];
  repeat first
    [ rewrite avx_digit_raw by lia
    | rewrite avx_carry_raw by lia
    | rewrite mm_sllv_shl by lia ].

Theorem avx_first_step_carry_only_eq_ref (b lsh x : Z) : 1 <= b <= 63 -> 0 <= lsh < b ->
  first_step_carry_only_avx b lsh x = first_step_carry_only 64 b lsh x.
Proof.
  intros Hb Hl. unfold first_step_carry_only_avx, first_step_carry_only.
  destruct (Z.eqb_spec lsh 0) as [H0|H0]; rewrite consts_eq by lia; avx_norm; reflexivity.
Qed.

Theorem avx_first_step_assign_eq_ref (b lsh x : Z) : 1 <= b <= 63 -> 0 <= lsh < b ->
  first_step_assign_avx b lsh x = first_step_assign 64 b lsh x.
Proof.
  intros Hb Hl. unfold first_step_assign_avx, first_step_assign.
  destruct (Z.eqb_spec lsh 0) as [H0|H0]; rewrite consts_eq by lia; avx_norm; reflexivity.
Qed.

Theorem avx_first_step_eq_ref (ov : bool) (b lsh x a : Z) : 1 <= b <= 63 -> 0 <= lsh < b ->
  first_step_avx ov b lsh x a = first_step 64 ov b lsh x a.
Proof.
  intros Hb Hl. unfold first_step_avx, first_step.
  destruct (Z.eqb_spec lsh 0) as [H0|H0]; rewrite consts_eq by lia; destruct ov; avx_norm; reflexivity.
Qed.

Lemma avx_middle_body_eq_ref (b lsh a c : Z) : 1 <= b <= 63 -> 0 <= lsh < b ->
  middle_body_avx b lsh a c = middle_core 64 b lsh a c.
Proof.
  intros Hb Hl. unfold middle_body_avx, middle_core.
  rewrite consts_eq by lia.
  destruct (Z.eqb_spec lsh 0) as [H0|H0].
  - avx_norm. reflexivity.
  - rewrite consts_eq by lia. avx_norm. reflexivity.
Qed.

Theorem avx_middle_step_carry_only_eq_ref (b lsh x c : Z) : 1 <= b <= 63 -> 0 <= lsh < b ->
  middle_step_carry_only_avx b lsh x c = middle_step_carry_only 64 b lsh x c.
Proof.
  intros Hb Hl. unfold middle_step_carry_only_avx, middle_step_carry_only.
  rewrite avx_middle_body_eq_ref by lia. reflexivity.
Qed.

Theorem avx_middle_step_assign_eq_ref (b lsh x c : Z) : 1 <= b <= 63 -> 0 <= lsh < b ->
  middle_step_assign_avx b lsh x c = middle_step_assign 64 b lsh x c.
Proof. intros Hb Hl. apply avx_middle_body_eq_ref; lia. Qed.

Theorem avx_middle_step_eq_ref (ov : bool) (b lsh x a c : Z) : 1 <= b <= 63 -> 0 <= lsh < b ->
  middle_step_avx ov b lsh x a c = middle_step 64 ov b lsh x a c.
Proof.
  intros Hb Hl. unfold middle_step_avx, middle_step.
  rewrite avx_middle_body_eq_ref by lia.
  destruct (middle_core 64 b lsh a c) as [x1 c']. destruct ov; reflexivity.
Qed.

Theorem avx_middle_step_sub_eq_ref (b lsh x a c : Z) : 1 <= b <= 63 -> 0 <= lsh < b ->
  middle_step_sub_avx b lsh x a c = middle_step_sub 64 b lsh x a c.
Proof.
  intros Hb Hl. unfold middle_step_sub_avx, middle_step_sub.
  rewrite avx_middle_body_eq_ref by lia.
  destruct (middle_core 64 b lsh a c) as [x1 c']. reflexivity.
Qed.

Lemma avx_final_body_eq_ref (b lsh a c : Z) : 1 <= b <= 63 -> 0 <= lsh < b ->
  final_body_avx b lsh a c = final_core 64 b lsh a c.
Proof.
  intros Hb Hl. unfold final_body_avx, final_core.
  rewrite consts_eq by lia.
  destruct (Z.eqb_spec lsh 0) as [H0|H0].
  - avx_norm. reflexivity.
  - rewrite consts_eq by lia. avx_norm. reflexivity.
Qed.

Theorem avx_final_step_assign_eq_ref (b lsh x c : Z) : 1 <= b <= 63 -> 0 <= lsh < b ->
  final_step_assign_avx b lsh x c = final_step_assign 64 b lsh x c.
Proof. intros Hb Hl. apply avx_final_body_eq_ref; lia. Qed.

Theorem avx_final_step_eq_ref (ov : bool) (b lsh x a c : Z) : 1 <= b <= 63 -> 0 <= lsh < b ->
  final_step_avx ov b lsh x a c = final_step 64 ov b lsh x a c.
Proof.
  intros Hb Hl. unfold final_step_avx, final_step.
  rewrite avx_final_body_eq_ref by lia. destruct ov; reflexivity.
Qed.

Theorem avx_final_step_sub_eq_ref (b lsh x a c : Z) : 1 <= b <= 63 -> 0 <= lsh < b ->
  final_step_sub_avx b lsh x a c = final_step_sub 64 b lsh x a c.
Proof.
  intros Hb Hl. unfold final_step_sub_avx, final_step_sub.
  rewrite avx_final_body_eq_ref by lia. reflexivity.
Qed.

(* extract_digit_addmul: lsh is NOT tied to the radix here; any 0 <= lsh <= 63 *)
Theorem avx_extract_digit_addmul_eq_ref (b lsh r s : Z) : 1 <= b <= 63 -> 0 <= lsh <= 63 ->
  extract_digit_addmul_avx b lsh r s = extract_digit_addmul 64 b lsh r s.
Proof.
  intros Hb Hl. unfold extract_digit_addmul_avx, extract_digit_addmul.
  rewrite consts_eq by lia. avx_norm. reflexivity.
Qed.

Theorem avx_normalize_digit_eq_ref (b r s : Z) : 1 <= b <= 63 ->
  normalize_digit_avx b r s = normalize_digit 64 b r s.
Proof.
  intros Hb. unfold normalize_digit_avx, normalize_digit.
  rewrite consts_eq by lia. avx_norm. reflexivity.
Qed.

(* sign bit by logical shift *)
Lemma mm_srli_63 (x : Z) : in_range 64 x -> mm_srli x 63 = Z.land (asr x 63) 1.
Proof.
  intros Hx. apply in_range_64_elim in Hx. unfold mm_srli, asr.
  destruct (Z.ltb_spec 63 64); [|lia]. rewrite Z.shiftr_div_pow2 by lia.
  destruct (Z_lt_le_dec x 0) as [Hneg|Hpos].
  - rewrite (to_u_neg x) by lia.
    assert (H1 : (x + 2 ^ 64) / 2 ^ 63 = 1) by (symmetry; apply Z.div_unique with (r := x + 2 ^ 63); lia).
    assert (H2 : x / 2 ^ 63 = -1) by (symmetry; apply Z.div_unique with (r := x + 2 ^ 63); lia).
    rewrite H1, H2. reflexivity.
  - rewrite (to_u_small x) by lia. rewrite Z.div_small by lia. reflexivity.
Qed.

Lemma avx_mul_pow2_neg_body (kp x : Z) : 1 <= kp <= 63 -> in_range 64 x ->
  mul_pow2_neg_body_avx kp x =
  asr (wadd 64 x (wsub 64 (shl 64 1 (kp - 1)) (Z.land (asr x (64 - 1)) 1))) kp.
Proof.
  intros Hk Hx. unfold mul_pow2_neg_body_avx.
  cbv beta iota zeta delta [mm_set1].
  rewrite mm_srli_63 by exact Hx.
  rewrite wrap_neg_pow2 by lia.
  unfold mm_srl, mm_cvtsi32_si128, wrapu. rewrite (Z.mod_small kp) by lia.
  destruct (Z.ltb_spec kp 64); [|lia].
  unfold mm_add at 2. 
  rewrite lsr_fill_asr; [|lia|apply wrap_range; lia].
  change (64 - 1) with 63. unfold mm_add, mm_sub, asr, wadd, wsub, shl. reflexivity.
Qed.

Theorem avx_mul_power_of_two_eq_ref (k x : Z) : -63 <= k <= 63 -> in_range 64 x ->
  mul_power_of_two_avx k x = mul_power_of_two 64 k x.
Proof.
  intros Hk Hx. unfold mul_power_of_two_avx, mul_power_of_two.
  destruct (Z.eqb_spec k 0) as [H0|H0]; [reflexivity|].
  destruct (Z.ltb_spec 0 k) as [Hp|Hn].
  - apply mm_sll_shl; lia.
  - cbv zeta. apply avx_mul_pow2_neg_body; [lia|exact Hx].
Qed.

Theorem avx_mul_add_power_of_two_eq_ref (k y x : Z) : -63 <= k <= 63 -> in_range 64 x ->
  mul_add_power_of_two_avx k y x = mul_add_power_of_two 64 k y x.
Proof.
  intros Hk Hx. unfold mul_add_power_of_two.
  rewrite <- avx_mul_power_of_two_eq_ref by assumption.
  unfold mul_add_power_of_two_avx, mul_power_of_two_avx.
  destruct (Z.eqb_spec k 0) as [H0|H0]; [reflexivity|].
  destruct (Z.ltb_spec 0 k) as [Hp|Hn]; reflexivity.
Qed.

(* add / sub / neg *)
Theorem avx_add_eq_ref (a b : Z) : add_avx a b = wadd 64 a b.
Proof. reflexivity. Qed.
Theorem avx_sub_eq_ref (a b : Z) : sub_avx a b = wsub 64 a b.
Proof. reflexivity. Qed.
Theorem avx_sub_negate_assign_eq_ref (r a : Z) : sub_negate_assign_avx r a = wsub 64 a r.
Proof. reflexivity. Qed.
Theorem avx_negate_eq_ref (v : Z) : negate_avx v = wneg 64 v.
Proof. unfold negate_avx, mm_sub, mm_setzero, wneg. f_equal. Qed.


(* ---------- vector level: kernel on slices = map of the scalar kernel (one instance spelled out) ---------- *)
Theorem avx_vec_middle_step (ov : bool) (b lsh : Z) (l : list (Z * Z * Z)) :
  1 <= b <= 63 -> 0 <= lsh < b ->
  simd_map (fun t => middle_step_avx ov b lsh (fst (fst t)) (snd (fst t)) (snd t))
           (fun t => middle_step 64 ov b lsh (fst (fst t)) (snd (fst t)) (snd t)) l
  = map (fun t => middle_step 64 ov b lsh (fst (fst t)) (snd (fst t)) (snd t)) l.
Proof.
  intros Hb Hl. apply simd_loop_partition. intros t. apply avx_middle_step_eq_ref; lia.
Qed.
