(* C08 encoding, end to end on flat buffers: the records 8301 / 8302 / 8303 of `run_c08_enc` (encode, then decode at the
   same precision) return the per-coefficient round trips, with everything outside the written words unchanged. *)
From PV Require Import Base.MachineInt Model.Znx Model.Limbs Model.Flat Model.C08Encode Proofs.C11Frame
  Proofs.C08EncodeSpec Proofs.C08EncodeCoef Proofs.C08EncodeDec Proofs.C08EncodeMain Proofs.C08EncodeFlat.
From Coq Require Import Arith PeanoNat.
Open Scope Z_scope.

Lemma e_ok_length s (buf buf' : list Z) : length buf' = length buf -> e_ok s buf' = e_ok s buf.
Proof. intros H. unfold e_ok, shape_ok. rewrite H. reflexivity. Qed.

Lemma zeros_len (n : nat) : length (zeros n) = n.
Proof. apply repeat_length. Qed.

(* encode with `coef`, decode at width w, on a data vector of the ring degree *)
Lemma run_vec_generic (coef : nat -> Z -> list Z) (allow0 dbg : bool) (w b k : Z) s (buf data : list Z) :
  (w = 64 \/ w = 128) -> 1 <= b -> 1 <= k <= Z.of_nat (s_size s) * b -> e_ok s buf = true -> length data = s_n s ->
  (forall v, In v data -> length (coef (s_size s) v) = s_size s) ->
  exists buf',
    e_bind (enc_vec_flat coef allow0 b k s buf data) (fun buf' =>
      e_bind (dec_vec_flat w b k dbg s buf' (zeros (s_n s))) (fun d => Some [buf'; d]))
    = Some [buf'; map (fun v => dec_vec w b k (coef (s_size s) v)) data]
    /\ length buf' = length buf
    /\ (forall idx d, e_in_col (s_n s) (s_cols s) (s_size s) (s_col s) idx = false -> nth idx buf' d = nth idx buf d)
    /\ e_coeffs s buf' = map (coef (s_size s)) data.
Proof.
  intros Hw Hb Hk Hok Hd Hlen.
  destruct (enc_params b k Hb ltac:(lia)) as (Esz & Hr & Hs1).
  pose proof (enc_size_le b k (s_size s) Hb Hk) as Hs2.
  destruct (enc_vec_flat coef allow0 b k s buf data) as [buf'|] eqn:E.
  2:{ exfalso. unfold enc_vec_flat in E. rewrite Hok, Hd, Nat.eqb_refl in E.
      assert (E1 : Nat.leb 1 (enc_size b k) = true) by (apply Nat.leb_le; lia).
      assert (E2 : Nat.leb (enc_size b k) (s_size s) = true) by (apply Nat.leb_le; lia).
      rewrite E1, E2, orb_true_r in E. discriminate. }
  exists buf'.
  destruct (enc_vec_flat_frame _ _ _ _ _ _ _ _ E) as [L F].
  pose proof (enc_vec_flat_coeffs _ _ _ _ _ _ _ _ E Hlen) as C.
  split; [|split; [exact L|split; [exact F|exact C]]].
  cbn [e_bind]. unfold dec_vec_flat. rewrite (e_ok_length s buf buf' L), Hok, zeros_len.
  assert (E2 : Nat.leb (enc_size b k) (s_size s) = true) by (apply Nat.leb_le; lia).
  rewrite E2, orb_true_r, Nat.eqb_refl, Nat.leb_refl, orb_true_r.
  assert (Ec : (if w =? 64 then true else true) = true) by (destruct (w =? 64); reflexivity).
  rewrite Ec. cbn [andb e_bind]. rewrite C, map_map.
  rewrite firstn_all2 by (rewrite map_length; lia).
  rewrite skipn_all2 by (rewrite zeros_len; lia).
  cbn [map]. destruct (k <? b); rewrite app_nil_r; reflexivity.
Qed.

Section Run.
Variables (ps : list Z) (buf : list Z).
Let s := e_shape ps.
Let b := e_p ps 10.
Let k := e_p ps 11.
Hypothesis Hb : 1 <= b <= 62.
Hypothesis Hk : 1 <= k <= Z.of_nat (s_size s) * b.
Hypothesis Hok : e_ok s buf = true.

Lemma enc_i64_length (v : Z) : in_range 64 v -> length (enc_i64 b k (s_size s) v) = s_size s.
Proof.
  intros Hv. rewrite (enc_i64_spec b Hb k (s_size s) v Hk Hv).
  destruct (enc_params b k ltac:(lia) ltac:(lia)) as (_ & _ & Hs1).
  pose proof (enc_size_le b k (s_size s) ltac:(lia) Hk). apply enc_spec_length. lia.
Qed.

Lemma enc_i128_length (v : Z) : in_range 128 v -> length (enc_i128 b k (s_size s) v) = s_size s.
Proof.
  intros Hv. rewrite (enc_i128_spec b Hb k (s_size s) v Hk Hv).
  destruct (enc_params b k ltac:(lia) ltac:(lia)) as (_ & _ & Hs1).
  pose proof (enc_size_le b k (s_size s) ltac:(lia) Hk). apply enc_spec_length. lia.
Qed.

Theorem run_8301 (data : list Z) : length data = s_n s -> Forall (in_range 64) data ->
  exists buf',
    run_c08_enc 8301 ps [buf; data] = Some [buf'; map (fun v => dec_vec 64 b k (enc_i64 b k (s_size s) v)) data]
    /\ length buf' = length buf
    /\ (forall idx d, e_in_col (s_n s) (s_cols s) (s_size s) (s_col s) idx = false -> nth idx buf' d = nth idx buf d)
    /\ e_coeffs s buf' = map (enc_i64 b k (s_size s)) data.
Proof.
  intros Hd Hr. unfold run_c08_enc. cbv zeta. cbn [e_v nth]. fold s b k.
  apply (run_vec_generic (enc_i64 b k)); auto; try lia.
  intros v Hv. apply enc_i64_length. rewrite Forall_forall in Hr. apply Hr. exact Hv.
Qed.

Theorem run_8302 (data : list Z) : length data = s_n s -> Forall (in_range 128) data ->
  exists buf',
    run_c08_enc 8302 ps [buf; data] = Some [buf'; map (fun v => dec_vec 128 b k (enc_i128 b k (s_size s) v)) data]
    /\ length buf' = length buf
    /\ (forall idx d, e_in_col (s_n s) (s_cols s) (s_size s) (s_col s) idx = false -> nth idx buf' d = nth idx buf d)
    /\ e_coeffs s buf' = map (enc_i128 b k (s_size s)) data.
Proof.
  intros Hd Hr. unfold run_c08_enc. cbv zeta. cbn [e_v nth]. fold s b k.
  apply (run_vec_generic (enc_i128 b k)); auto; try lia.
  intros v Hv. apply enc_i128_length. rewrite Forall_forall in Hr. apply Hr. exact Hv.
Qed.

Theorem run_8303 (v : Z) : let idx := Z.to_nat (e_p ps 12) in
  (idx < s_n s)%nat -> in_range 64 v ->
  exists buf',
    run_c08_enc 8303 ps [buf; [v]] = Some [buf'; [dec_coeff_i64 b k (enc_i64 b k (s_size s) v)]]
    /\ length buf' = length buf
    /\ (forall pos d, e_in_col (s_n s) (s_cols s) (s_size s) (s_col s) pos = false \/ (pos mod s_n s)%nat <> idx ->
          nth pos buf' d = nth pos buf d)
    /\ nth idx (e_coeffs s buf') [] = enc_i64 b k (s_size s) v.
Proof.
  intros idx Hi Hv. unfold run_c08_enc. cbv zeta. cbn [e_v nth nthZ]. fold s b k idx.
  destruct (enc_params b k ltac:(lia) ltac:(lia)) as (Esz & Hr & Hs1).
  pose proof (enc_size_le b k (s_size s) ltac:(lia) Hk) as Hs2.
  assert (E1 : Nat.leb 1 (enc_size b k) = true) by (apply Nat.leb_le; lia).
  assert (E2 : Nat.leb (enc_size b k) (s_size s) = true) by (apply Nat.leb_le; lia).
  assert (E3 : Nat.ltb idx (s_n s) = true) by (apply Nat.ltb_lt; exact Hi).
  destruct (enc_coeff_flat b k s buf idx v) as [buf'|] eqn:E.
  2:{ exfalso. unfold enc_coeff_flat in E. rewrite Hok, E1, E2, E3 in E. discriminate. }
  exists buf'.
  destruct (enc_coeff_flat_frame _ _ _ _ _ _ _ E) as (L & _ & _).
  pose proof (enc_coeff_flat_others _ _ _ _ _ _ _ E) as F.
  pose proof (enc_coeff_flat_coeff _ _ _ _ _ _ _ E (enc_i64_length v Hv)) as C.
  split; [|split; [exact L|split; [exact F|exact C]]].
  cbn [e_bind]. unfold dec_coeff_flat. rewrite (e_ok_length s buf buf' L), Hok, E2, E3. cbn [andb e_bind].
  rewrite C. reflexivity.
Qed.

End Run.
