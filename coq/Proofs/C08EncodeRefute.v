(* C08 encoding: statements that are false on the faithful model (vm_compute witnesses). *)
From PV Require Import Base.MachineInt Model.Znx Model.Limbs Model.C08Encode.
Open Scope Z_scope.

(* the decoded value is NOT always the centred representative: with two or more limbs the representable range
   [enc_lo, enc_hi] reaches below -2^(k-1); b = 2, k = 4, v = 7 comes back as -9 *)
Lemma centered_refuted : exists b k a_size v, 2 <= b <= 62 /\ 1 <= k <= Z.of_nat a_size * b /\
  - 2 ^ (k - 1) <= v < 2 ^ (k - 1) /\
  ~ (- 2 ^ (k - 1) <= dec_vec 64 b k (enc_i64 b k a_size v) < 2 ^ (k - 1)).
Proof.
  exists 2, 4, 2%nat, 7.
  assert (E : dec_vec 64 2 4 (enc_i64 2 4 2 7) = -9) by (vm_compute; reflexivity).
  rewrite E. cbn. lia.
Qed.

(* radix 2^1 has the digits {-1, 0} only: no positive value is representable, |v| < 2^(k-2) is not enough *)
Lemma radix1_refuted : exists k a_size v, 1 <= k <= Z.of_nat a_size * 1 /\ in_range 64 v /\ 4 * Z.abs v < 2 ^ k /\
  dec_vec 64 1 k (enc_i64 1 k a_size v) <> v.
Proof.
  exists 4, 4%nat, 1.
  assert (E : dec_vec 64 1 4 (enc_i64 1 4 4 1) = -15) by (vm_compute; reflexivity).
  rewrite E. unfold in_range. cbn. lia.
Qed.
