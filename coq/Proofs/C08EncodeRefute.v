(* C08 encoding: statements that are false on the faithful model (vm_compute witnesses). *)
From PV Require Import Base.MachineInt Model.Znx Model.Limbs Model.C08Encode.
Open Scope Z_scope.

(* the decoded value is NOT always the centred representative: with two or more limbs the representable range
   [enc_lo, enc_hi] reaches below -2^(k-1); b = 2, k = 4, v = 7 comes back as -9 *)
Lemma centered_refuted : exists b k a_size v, 2 <= b <= 62 /\ 1 <= k <= Z.of_nat a_size * b /\
  - 2 ^ (k - 1) <= v < 2 ^ (k - 1) /\
  ~ (- 2 ^ (k - 1) <= dec_vec 64 b k (enc_i64 b k a_size v) < 2 ^ (k - 1)).
Proof.
  exists 2, 4, 2%nat, 7.
  assert (E : dec_vec 64 2 4 (enc_i64 2 4 2 7) = -9) by (vm_compute; reflexivity).
  rewrite E. cbn. lia.
Qed.

(* radix 2^1 has the digits {-1, 0} only: no positive value is representable, |v| < 2^(k-2) is not enough *)
Lemma radix1_refuted : exists k a_size v, 1 <= k <= Z.of_nat a_size * 1 /\ in_range 64 v /\ 4 * Z.abs v < 2 ^ k /\
  dec_vec 64 1 k (enc_i64 1 k a_size v) <> v.
Proof.
  exists 4, 4%nat, 1.
  assert (E : dec_vec 64 1 4 (enc_i64 1 4 4 1) = -15) by (vm_compute; reflexivity).
  rewrite E. unfold in_range. cbn. lia.
Qed.

(* DEFECT: at a precision above the word width the first carry `x - digit` of a value at the top of the type wraps,
   and the limbs hold v - 2^w instead of v: their torus value is not v / 2^k and a wider decoder does not return v,
   although |v| < 2^(k-2).  (The decoder of the same width wraps back and hides it.) *)
Lemma value_top_i64_refuted : exists b k a_size v, 2 <= b <= 62 /\ 1 <= k <= Z.of_nat a_size * b /\
  in_range 64 v /\ 4 * Z.abs v < 2 ^ k /\
  (e_lval b (firstn (enc_size b k) (enc_i64 b k a_size v)) - v * 2 ^ enc_krem b k) mod 2 ^ (Z.of_nat (enc_size b k) * b) <> 0 /\
  dec_vec 128 b k (enc_i64 b k a_size v) <> v.
Proof.
  exists 62, 124, 2%nat, (2 ^ 63 - 1).
  assert (E1 : enc_i64 62 124 2 (2 ^ 63 - 1) = [-2; -1]) by (vm_compute; reflexivity).
  assert (E2 : dec_vec 128 62 124 [-2; -1] = - 2 ^ 63 - 1) by (vm_compute; reflexivity).
  rewrite E1, E2. unfold in_range. vm_compute. repeat split; congruence.
Qed.

Lemma value_top_i128_refuted : exists b k a_size v, 2 <= b <= 62 /\ 1 <= k <= Z.of_nat a_size * b /\
  in_range 128 v /\ 4 * Z.abs v < 2 ^ k /\
  (e_lval b (firstn (enc_size b k) (enc_i128 b k a_size v)) - v * 2 ^ enc_krem b k) mod 2 ^ (Z.of_nat (enc_size b k) * b) <> 0.
Proof.
  exists 62, 186, 3%nat, (2 ^ 127 - 1).
  unfold in_range. vm_compute. repeat split; congruence.
Qed.
