(* C03 — key switching: phase theorems on the model Gadget.gadget_product / keyswitch_internal.
   C03_keyswitch_phase_lemma          (3b) product part: phase_out = sum_ci val(used limbs of a_ci) (x) s_in_ci + E + 2^P Iq, E explicit
   C03_keyswitch_internal_phase_lemma  + the body (add_small adds min(msize, a_size) limbs of column 0)
   C03_automorphism_phase_lemma       (3d) sigma on every limb: phase under sigma(Sk) = sigma(phase) + sigma(E) + 2^P sigma(Iq)
   gadget_err_small                   for dsize <= 2 the truncation term vanishes: E = gadget_noise *)
From PV Require Import Base.MachineInt Model.Znx Model.Limbs Model.Flat Model.Ring Model.Poly Model.DftAbs Model.Gadget Model.GadgetSpec Proofs.C07Dft Proofs.C07Ring Proofs.GadgetDecomp Proofs.GadgetPhase.
Open Scope Z_scope.

Section PhaseTools.
Lemma phase_f_ext P b n cols size R R' Sk :
  (forall co j, (co < cols)%nat -> (j < size)%nat -> R co j = R' co j) ->
  phase_f P b n cols size R Sk = phase_f P b n cols size R' Sk.
Proof.
  intros H. unfold phase_f, pval. apply psumf_ext; intros co Hc. f_equal.
  apply psumf_ext; intros j Hj. f_equal. apply H; assumption.
Qed.

Lemma pval_length P b n f size : (forall j, (j < size)%nat -> length (f j) = n) -> length (pval P b n f size) = n.
Proof. intros H. unfold pval. apply psumf_length. intros. rewrite pscale_length. auto. Qed.

Lemma pval_padd P b n f g size :
  pval P b n (fun j => padd (f j) (g j)) size = padd (pval P b n f size) (pval P b n g size).
Proof. unfold pval. rewrite <- psumf_padd. apply psumf_ext; intros j _. apply pscale_padd. Qed.

Lemma pval_cut P b n f k size : (k <= size)%nat -> (forall j, length (f j) = n) ->
  (forall j, (k <= j)%nat -> (j < size)%nat -> f j = pzero n) -> pval P b n f size = pval P b n f k.
Proof.
  intros Hk Hl Hz. unfold pval. apply psumf_cut; [exact Hk| |].
  - intros. rewrite pscale_length. apply Hl.
  - intros j H1 H2. rewrite Hz by assumption. apply pscale_pzero.
Qed.

Lemma psumf_shift n f m : (forall i, (i < S m)%nat -> length (f i) = n) ->
  psumf n f (S m) = padd (f 0%nat) (psumf n (fun i => f (S i)) m).
Proof.
  intros H. change (S m) with (1 + m)%nat. rewrite psumf_app by exact H.
  rewrite psumf_S, psumf_0, padd_pzero_l by (apply H; lia). reflexivity.
Qed.

Lemma wf_tl n rin a_size (ct : cols_t) : wf_cols n (S rin) a_size ct -> wf_cols n rin a_size (tl ct).
Proof.
  intros [Hl Hc]. destruct ct as [|c0 r]; [cbn in Hl; lia|]. cbn [tl]. cbn [length] in Hl.
  split; [lia|]. intros ci Hci. apply (Hc (S ci)). lia.
Qed.

Lemma pone_length n : (1 <= n)%nat -> length (pone n) = n.
Proof. intros H. unfold pone, zeros. cbn [length]. rewrite repeat_length. lia. Qed.

Lemma pmul_pone_r n x : (1 <= n)%nat -> length x = n -> pmul x (pone n) = x.
Proof. intros Hn H. rewrite <- H. apply pmul_one_r. lia. Qed.
End PhaseTools.

(* ------------------------------------------------------------------------------------------------------------ *)
(* C03 : GLWE key switching.
   The key-row hypothesis `key_row` is TAKEN AS A NAMED SECTION HYPOTHESIS: row r of the switching key, input column ci,
   is a GLWE under the target secret Sk whose phase is  2^(P-(r+1) dsize b) s_in_ci + e_{r,ci} + 2^P I_{r,ci}
   ("row r encrypts s_in 2^(-(r+1) dsize b) with error e_r"; that is what the key generation is specified to produce,
   not proved here). *)
Section C03.
Variables (P b : Z) (n rin cols_out msize a_size dsize dnum : nat).
Variable a : cols_t.                       (* the rin mask columns of the input (key radix) *)
Variable res0 : cols_t.                    (* prior content of the accumulator: irrelevant (gglwe_product_dft zeroes it) *)
Variable K : pmat.
Variable Sk : nat -> list Z.               (* target secret family, Sk 0 = 1 *)
Variables (s_in : nat -> list Z) (e I : nat -> nat -> list Z).
Hypothesis Ha : wf_cols n rin a_size a.
Hypothesis HK : wf_pmat_in n (dnum * rin) (msize * cols_out) K.
Hypothesis Hd : (1 <= dsize)%nat.
Hypothesis Hdrop : (dsize - 2 <= msize)%nat.
Hypothesis HS : forall co, length (Sk co) = n.
Hypothesis Hsin : forall ci, length (s_in ci) = n.
Hypothesis He : forall row ci, length (e row ci) = n.
Hypothesis HI : forall row ci, length (I row ci) = n.
Hypothesis Hb : 0 <= b.
Hypothesis HP : Z.of_nat msize * b <= P.
Hypothesis HP2 : Z.of_nat dnum * Z.of_nat dsize * b <= P.
Hypothesis key_row : key_rows_ok P b n rin cols_out msize dsize dnum K Sk s_in e I.

(* (3b) the product part of the key switch (gglwe_product_dft) *)
Theorem C03_keyswitch_phase_lemma :
  exists res, gadget_product n cols_out msize res0 a a_size dsize dnum msize true K = Some res /\
    wf_cols n cols_out msize res /\
    phase_f P b n cols_out msize (limbs_of res) Sk
    = padd (padd (psumf n (fun ci => pmul (pval_used P b n a_size dsize dnum (acol n a) ci) (s_in ci)) rin)
                 (gadget_err P b n rin cols_out msize dsize dnum (acol n a) K Sk e))
           (pscale (2 ^ P) (gadget_int b n rin cols_out msize dsize dnum (acol n a) K Sk I)).
Proof.
  destruct (gadget_product_spec n rin cols_out msize a_size dsize dnum true a K res0 Ha Hd Hdrop (or_introl eq_refl)) as [res [E1 [E2 E3]]].
  exists res. split; [exact E1|]. split; [exact E2|].
  rewrite (phase_f_ext P b n cols_out msize (limbs_of res)
             (gp_spec n rin cols_out msize a_size dsize dnum true (acol n a) K) Sk) by (intros; apply E3; assumption).
  apply gadget_phase_rows_in; try assumption.
  - apply (acol_length n rin a_size a Ha).
  - apply (acol_zero n rin a_size a Ha).
Qed.
End C03.

Section C03Internal.
Variables (P b : Z) (n rin cols_out msize a_size dsize dnum : nat).
Variable ct : cols_t.                      (* the input ciphertext: body :: rin mask columns (key radix) *)
Variable res0 : cols_t.                    (* prior content of the accumulator: irrelevant *)
Variable K : pmat.
Variable Sk : nat -> list Z.
Variables (s_in : nat -> list Z) (e I : nat -> nat -> list Z).
Hypothesis Hct : wf_cols n (S rin) a_size ct.
Hypothesis HK : wf_pmat_in n (dnum * rin) (msize * cols_out) K.
Hypothesis Hn : (1 <= n)%nat.
Hypothesis Hco : (1 <= cols_out)%nat.
Hypothesis Hd : (1 <= dsize)%nat.
Hypothesis Hdrop : (dsize - 2 <= msize)%nat.
Hypothesis HS : forall co, length (Sk co) = n.
Hypothesis HS0 : Sk 0%nat = pone n.
Hypothesis Hsin : forall ci, length (s_in ci) = n.
Hypothesis He : forall row ci, length (e row ci) = n.
Hypothesis HI : forall row ci, length (I row ci) = n.
Hypothesis Hb : 0 <= b.
Hypothesis HP : Z.of_nat msize * b <= P.
Hypothesis HP2 : Z.of_nat dnum * Z.of_nat dsize * b <= P.
Hypothesis key_row : key_rows_ok P b n rin cols_out msize dsize dnum K Sk s_in e I.

(* glwe_keyswitch_internal = product of the mask columns + the body (min(msize, a_size) limbs of it) *)
Theorem C03_keyswitch_internal_phase_lemma :
  exists ks, keyswitch_internal n cols_out msize res0 ct a_size dsize dnum msize K = Some ks /\
    wf_cols n cols_out msize ks /\
    phase_f P b n cols_out msize (limbs_of ks) Sk
    = padd (padd (padd (pval P b n (acol n ct 0) (Nat.min msize a_size))
                       (psumf n (fun ci => pmul (pval_used P b n a_size dsize dnum (acol n (tl ct)) ci) (s_in ci)) rin))
                 (gadget_err P b n rin cols_out msize dsize dnum (acol n (tl ct)) K Sk e))
           (pscale (2 ^ P) (gadget_int b n rin cols_out msize dsize dnum (acol n (tl ct)) K Sk I)).
Proof.
  destruct (C03_keyswitch_phase_lemma P b n rin cols_out msize a_size dsize dnum (tl ct) res0 K Sk s_in e I
              (wf_tl n rin a_size ct Hct) HK Hd Hdrop HS Hsin He HI Hb HP HP2 key_row) as [res [E1 [E2 E3]]].
  unfold keyswitch_internal. rewrite E1.
  destruct E2 as [Hl Hc]. destruct res as [|r0 rt]; [cbn in Hl; lia|]. cbn [length] in Hl.
  eexists; split; [reflexivity|].
  destruct (Hc 0%nat ltac:(lia)) as [Hr0 Hr0l]. change (col (r0 :: rt) 0) with r0 in Hr0, Hr0l.
  pose proof (acol_length n (S rin) a_size ct Hct) as LB.
  pose proof (acol_zero n (S rin) a_size ct Hct) as ZB.
  destruct Hct as [Hlct Hcct]. destruct (Hcct 0%nat ltac:(lia)) as [Hbody _].
  (* limb j of the new body column *)
  assert (Hks0 : forall j, (j < msize)%nat -> lim (add_small r0 (col ct 0)) j = padd (lim r0 j) (acol n ct 0 j)).
  { intros j Hj. unfold add_small. rewrite Hr0, lim_mk' by exact Hj. rewrite Hbody.
    unfold acol, limz. rewrite Hbody. destruct (Nat.ltb_spec j a_size); [reflexivity|].
    symmetry. apply padd_pzero_r. apply Hr0l; exact Hj. }
  split.
  - split; [cbn [length]; lia|]. intros [|co] Hco'.
    + change (col (add_small r0 (col ct 0) :: rt) 0) with (add_small r0 (col ct 0)).
      split; [unfold add_small; rewrite mk_length; exact Hr0|].
      intros l Hl'. rewrite Hks0 by exact Hl'. apply padd_len; [apply Hr0l; exact Hl'|apply LB].
    + change (col (add_small r0 (col ct 0) :: rt) (S co)) with (col (r0 :: rt) (S co)). apply Hc; exact Hco'.
  - rewrite !padd_assoc. rewrite !padd_assoc in E3. rewrite <- E3. clear E3.
    destruct cols_out as [|c']; [lia|].
    unfold phase_f.
    assert (Lv : forall (Rr : cols_t) co, wf_cols n (S c') msize Rr -> (co < S c')%nat ->
                  length (pmul (pval P b n (limbs_of Rr co) msize) (Sk co)) = n).
    { intros Rr co [_ Hw] Hco'. rewrite pmul_length. apply pval_length. intros j Hj. apply (Hw co Hco'); exact Hj. }
    assert (Wres : wf_cols n (S c') msize (r0 :: rt)) by (split; [cbn [length]; lia|exact Hc]).
    rewrite (psumf_shift n (fun co => pmul (pval P b n (limbs_of (r0 :: rt) co) msize) (Sk co))) by (intros; apply Lv; [exact Wres|lia]).
    rewrite psumf_shift.
    2:{ intros co Hco'. rewrite pmul_length. apply pval_length. intros j Hj. destruct co as [|co].
        - unfold limbs_of. change (col (add_small r0 (col ct 0) :: rt) 0) with (add_small r0 (col ct 0)).
          rewrite Hks0 by exact Hj. apply padd_len; [apply Hr0l; exact Hj|apply LB].
        - unfold limbs_of. change (col (add_small r0 (col ct 0) :: rt) (S co)) with (col (r0 :: rt) (S co)).
          apply (Hc (S co)); assumption. }
    change (fun i => pmul (pval P b n (limbs_of (add_small r0 (col ct 0) :: rt) (S i)) msize) (Sk (S i)))
      with (fun i => pmul (pval P b n (limbs_of (r0 :: rt) (S i)) msize) (Sk (S i))).
    set (REST := psumf n (fun i => pmul (pval P b n (limbs_of (r0 :: rt) (S i)) msize) (Sk (S i))) c').
    assert (Ev : pval P b n (limbs_of (add_small r0 (col ct 0) :: rt) 0) msize
                 = padd (pval P b n (limbs_of (r0 :: rt) 0) msize) (pval P b n (acol n ct 0) (Nat.min msize a_size))).
    { rewrite <- (pval_cut P b n (acol n ct 0) (Nat.min msize a_size) msize) by (try apply LB; try lia; intros; apply ZB; lia).
      rewrite <- pval_padd. unfold pval. apply psumf_ext; intros j Hj. f_equal.
      unfold limbs_of. change (col (add_small r0 (col ct 0) :: rt) 0) with (add_small r0 (col ct 0)).
      change (col (r0 :: rt) 0) with r0. apply Hks0; exact Hj. }
    rewrite Ev.
    assert (L1 : length (pval P b n (limbs_of (r0 :: rt) 0) msize) = n).
    { apply pval_length. intros j Hj. unfold limbs_of. change (col (r0 :: rt) 0) with r0. apply Hr0l; exact Hj. }
    assert (L2 : length (pval P b n (acol n ct 0) (Nat.min msize a_size)) = n) by (apply pval_length; intros; apply LB).
    rewrite pmul_padd_distr_r by (rewrite ?L1, ?L2, ?HS; reflexivity).
    rewrite HS0 at 2. rewrite (pmul_pone_r n _ Hn L2).
    rewrite (padd_comm (pmul (pval P b n (limbs_of (r0 :: rt) 0) msize) (Sk 0%nat))). apply padd_assoc.
Qed.
End C03Internal.

(* lengths of the explicit error / integer terms *)
Section TermLengths.
Variables (P b : Z) (n cin cols_out msize dsize dnum : nat).
Variable A : nat -> nat -> list Z.
Variable K : pmat.
Variable Sk : nat -> list Z.
Variables (e I : nat -> nat -> list Z).
Hypothesis HA : forall ci l, length (A ci l) = n.
Hypothesis He : forall row ci, length (e row ci) = n.

Lemma gadget_noise_length : length (gadget_noise b n cin dsize dnum A e) = n.
Proof. unfold gadget_noise, digit. plen. Qed.
Lemma gadget_trunc_length : length (gadget_trunc P b n cin cols_out msize dsize dnum A K Sk) = n.
Proof. unfold gadget_trunc. plen. Qed.
Lemma gadget_err_length : length (gadget_err P b n cin cols_out msize dsize dnum A K Sk e) = n.
Proof. unfold gadget_err. apply psub_len; [apply gadget_noise_length|apply gadget_trunc_length]. Qed.
Lemma gadget_int_length : length (gadget_int b n cin cols_out msize dsize dnum A K Sk I) = n.
Proof. unfold gadget_int, gadget_int_rows, gadget_int_low. plen. Qed.
End TermLengths.

(* for dsize <= 2 no key limb is dropped: the truncation term vanishes and the error is the gadget noise alone *)
Section TruncSmall.
Variables (P b : Z) (n cin cols_out msize dsize dnum : nat).
Variable A : nat -> nat -> list Z.
Variable K : pmat.
Variable Sk : nat -> list Z.
Hypothesis HA : forall ci l, length (A ci l) = n.
Hypothesis HS : forall co, length (Sk co) = n.

Lemma khigh_zero q di : (dsize - di - 2 = 0)%nat -> khigh P b n cols_out msize dsize K Sk q di = pzero n.
Proof.
  intros H. unfold khigh, win_len, sz_r. rewrite H, Nat.sub_0_r.
  replace (msize - (di + Nat.min msize (msize - di)))%nat with 0%nat by lia.
  unfold kwin. apply psumf_zero. intros co _. rewrite psumf_0. rewrite <- (HS co). apply pmul_pzero_l.
Qed.

Lemma gadget_trunc_zero : (dsize <= 2)%nat -> gadget_trunc P b n cin cols_out msize dsize dnum A K Sk = pzero n.
Proof.
  intros H. unfold gadget_trunc. apply psumf_zero; intros di _. apply psumf_zero; intros row _. apply psumf_zero; intros ci _.
  rewrite khigh_zero by lia. rewrite pscale_pzero. rewrite <- (HA ci (row * dsize + (dsize - di - 1))%nat). apply pmul_pzero_r.
Qed.

Lemma gadget_err_small e : (forall row ci, length (e row ci) = n) -> (dsize <= 2)%nat ->
  gadget_err P b n cin cols_out msize dsize dnum A K Sk e = gadget_noise b n cin dsize dnum A e.
Proof.
  intros He H. unfold gadget_err. rewrite gadget_trunc_zero by exact H.
  assert (L : length (gadget_noise b n cin dsize dnum A e) = n) by (apply gadget_noise_length; assumption).
  apply list_eq_nth; [rewrite psub_length, pzero_length; lia|].
  intros k _. rewrite nth_psub by (rewrite pzero_length; lia). rewrite nth_pzero. ring.
Qed.
End TruncSmall.

(* ------------------------------------------------------------------------------------------------------------ *)
(* (3d) automorphism = key switch with a key whose rows encrypt s_in under Sk = sigma^-1(St), followed by sigma on every limb.
   The ring-homomorphism facts of sigma are NAMED SECTION HYPOTHESES (proved by the C09 worker for Poly.sigma);
   the theorem holds for any map sg with these properties. *)
Section C03Auto.
Variable n : nat.
Variable sg : list Z -> list Z.
Hypothesis sigma_length : forall a, length a = n -> length (sg a) = n.
Hypothesis sigma_padd : forall a b, length a = n -> length b = n -> sg (padd a b) = padd (sg a) (sg b).
Hypothesis sigma_pmul : forall a b, length a = n -> length b = n -> sg (pmul a b) = pmul (sg a) (sg b).
Hypothesis sigma_pscale : forall c a, length a = n -> sg (pscale c a) = pscale c (sg a).

Lemma sigma_pzero : sg (pzero n) = pzero n.
Proof.
  rewrite <- (pscale_pzero 0 n) at 1. rewrite sigma_pscale by apply pzero_length.
  rewrite pscale_0, sigma_length by apply pzero_length. reflexivity.
Qed.

Lemma sigma_psumf f m : (forall i, (i < m)%nat -> length (f i) = n) -> sg (psumf n f m) = psumf n (fun i => sg (f i)) m.
Proof.
  induction m as [|m IH]; intros H; [rewrite !psumf_0; apply sigma_pzero|].
  rewrite !psumf_S, sigma_padd, IH by (try apply psumf_length; auto with arith). reflexivity.
Qed.

Lemma phase_f_sigma P b cols size (R : nat -> nat -> list Z) (Sk : nat -> list Z) :
  (forall co j, (co < cols)%nat -> (j < size)%nat -> length (R co j) = n) -> (forall co, (co < cols)%nat -> length (Sk co) = n) ->
  phase_f P b n cols size (fun co j => sg (R co j)) (fun co => sg (Sk co)) = sg (phase_f P b n cols size R Sk).
Proof.
  intros HR HS. unfold phase_f.
  rewrite sigma_psumf by (intros; rewrite pmul_length; apply pval_length; auto).
  apply psumf_ext; intros co Hc.
  rewrite sigma_pmul by (try apply pval_length; auto). f_equal.
  unfold pval. rewrite sigma_psumf by (intros; rewrite pscale_length; auto).
  apply psumf_ext; intros j Hj. symmetry. apply sigma_pscale. auto.
Qed.

Lemma limbs_of_map ks cols size co j : wf_cols n cols size ks -> (co < cols)%nat -> (j < size)%nat ->
  limbs_of (map (map sg) ks) co j = sg (limbs_of ks co j).
Proof.
  intros [Hl Hc] Hco Hj. unfold limbs_of. rewrite col_map by lia.
  destruct (Hc co Hco) as [Hlen _]. unfold lim. apply nth_map'. lia.
Qed.

(* sigma applied to every limb of every column turns the phase under Sk into sigma(phase) under St = sigma(Sk) *)
Theorem phase_of_automorphism P b cols size ks (Sk St : nat -> list Z) :
  wf_cols n cols size ks -> (forall co, (co < cols)%nat -> length (Sk co) = n) -> (forall co, (co < cols)%nat -> St co = sg (Sk co)) ->
  phase_f P b n cols size (limbs_of (map (map sg) ks)) St = sg (phase_f P b n cols size (limbs_of ks) Sk).
Proof.
  intros Hw HS HSt. rewrite <- phase_f_sigma; [|intros; apply Hw; assumption|exact HS].
  unfold phase_f. apply psumf_ext; intros co Hc. rewrite HSt by exact Hc. f_equal.
  unfold pval. apply psumf_ext; intros j Hj. f_equal. apply (limbs_of_map ks cols size); assumption.
Qed.

Variables (P b : Z) (rin cols_out msize a_size dsize dnum : nat).
Variable ct : cols_t.
Variable res0 : cols_t.
Variable K : pmat.
Variables (Sk St : nat -> list Z).
Variables (s_in : nat -> list Z) (e I : nat -> nat -> list Z).
Hypothesis Hct : wf_cols n (S rin) a_size ct.
Hypothesis HK : wf_pmat_in n (dnum * rin) (msize * cols_out) K.
Hypothesis Hn : (1 <= n)%nat.
Hypothesis Hco : (1 <= cols_out)%nat.
Hypothesis Hd : (1 <= dsize)%nat.
Hypothesis Hdrop : (dsize - 2 <= msize)%nat.
Hypothesis HS : forall co, length (Sk co) = n.
Hypothesis HS0 : Sk 0%nat = pone n.
Hypothesis HSt : forall co, St co = sg (Sk co).
Hypothesis Hsin : forall ci, length (s_in ci) = n.
Hypothesis He : forall row ci, length (e row ci) = n.
Hypothesis HI : forall row ci, length (I row ci) = n.
Hypothesis Hb : 0 <= b.
Hypothesis HP : Z.of_nat msize * b <= P.
Hypothesis HP2 : Z.of_nat dnum * Z.of_nat dsize * b <= P.
Hypothesis key_row : key_rows_ok P b n rin cols_out msize dsize dnum K Sk s_in e I.

Theorem C03_automorphism_phase_lemma :
  exists ks, keyswitch_internal n cols_out msize res0 ct a_size dsize dnum msize K = Some ks /\
    wf_cols n cols_out msize ks /\
    phase_f P b n cols_out msize (limbs_of (map (map sg) ks)) St
    = padd (padd (sg (padd (pval P b n (acol n ct 0) (Nat.min msize a_size))
                           (psumf n (fun ci => pmul (pval_used P b n a_size dsize dnum (acol n (tl ct)) ci) (s_in ci)) rin)))
                 (sg (gadget_err P b n rin cols_out msize dsize dnum (acol n (tl ct)) K Sk e)))
           (pscale (2 ^ P) (sg (gadget_int b n rin cols_out msize dsize dnum (acol n (tl ct)) K Sk I))).
Proof.
  destruct (C03_keyswitch_internal_phase_lemma P b n rin cols_out msize a_size dsize dnum ct res0 K Sk s_in e I
              Hct HK Hn Hco Hd Hdrop HS HS0 Hsin He HI Hb HP HP2 key_row) as [ks [E1 [E2 E3]]].
  exists ks. split; [exact E1|]. split; [exact E2|].
  rewrite (phase_of_automorphism P b cols_out msize ks Sk St E2) by auto.
  rewrite E3.
  pose proof (acol_length n rin a_size (tl ct) (wf_tl n rin a_size ct Hct)) as LA.
  pose proof (acol_length n (S rin) a_size ct Hct) as LB.
  assert (L1 : length (padd (pval P b n (acol n ct 0) (Nat.min msize a_size))
                 (psumf n (fun ci => pmul (pval_used P b n a_size dsize dnum (acol n (tl ct)) ci) (s_in ci)) rin)) = n).
  { apply padd_len; [apply pval_length; intros; apply LB|]. unfold pval_used. plen. apply pval_length. intros; apply LA. }
  assert (L2 : length (gadget_err P b n rin cols_out msize dsize dnum (acol n (tl ct)) K Sk e) = n) by (apply gadget_err_length; assumption).
  assert (L3 : length (gadget_int b n rin cols_out msize dsize dnum (acol n (tl ct)) K Sk I) = n) by (apply gadget_int_length; assumption).
  rewrite !sigma_padd, sigma_pscale by (repeat first [assumption | apply padd_len | rewrite pscale_length]).
  reflexivity.
Qed.
End C03Auto.

(* ------------------------------------------------------------------------------------------------------------ *)
(* link to the executable spec-level values of Model/Gadget.v : poly_val = pval, phase_val = phase_f under sk_ext *)
Section ValueLink.
Variables (P b : Z) (n : nat).

Let step := fun (s : list Z * Z) (l : list Z) => (padd (fst s) (pscale (2 ^ (P - (snd s + 1) * b)) l), snd s + 1).

Lemma poly_fold_snd l a k : snd (fold_left step l (a, k)) = k + Z.of_nat (length l).
Proof.
  revert a k; induction l as [|x l IH]; intros a k; cbn [fold_left length]; [cbn [snd]; lia|].
  unfold step at 2. cbn [fst snd]. rewrite IH. lia.
Qed.

Lemma poly_val_app l x :
  poly_val P b n (l ++ [x]) = padd (poly_val P b n l) (pscale (2 ^ (P - (Z.of_nat (length l) + 1) * b)) x).
Proof.
  unfold poly_val. fold step. rewrite fold_left_app. cbn [fold_left]. unfold step at 1. cbn [fst].
  pose proof (poly_fold_snd l (pzero n) 0) as E. rewrite Z.add_0_l in E. rewrite E. reflexivity.
Qed.

Theorem poly_val_pval (l : plimbs) : poly_val P b n l = pval P b n (lim l) (length l).
Proof.
  induction l as [|x l IH] using rev_ind; [reflexivity|].
  rewrite poly_val_app, IH, app_length. cbn [length]. rewrite Nat.add_1_r. unfold pval. rewrite psumf_S.
  f_equal.
  - apply psumf_ext; intros j Hj. f_equal. unfold lim. symmetry. apply app_nth1; exact Hj.
  - f_equal. unfold lim. rewrite app_nth2 by lia. rewrite Nat.sub_diag. reflexivity.
Qed.

Lemma fold_left_map' {X Y Z'} (f : X -> Y -> X) (g : Z' -> Y) l a : fold_left f (map g l) a = fold_left (fun x z => f x (g z)) l a.
Proof. revert a; induction l as [|h l IH]; intros a; cbn [map fold_left]; [reflexivity|apply IH]. Qed.

Lemma fold_combine_seq (F : plimbs -> list Z -> list Z) (l1 : list plimbs) (l2 : list (list Z)) d2 init :
  length l1 = length l2 ->
  fold_left (fun acc p => padd acc (F (fst p) (snd p))) (combine l1 l2) init
  = fold_left (fun acc i => padd acc (F (nth i l1 []) (nth i l2 d2))) (seq 0 (length l2)) init.
Proof.
  revert l2 init; induction l1 as [|x l1 IH]; intros [|y l2] init H; cbn [length] in H; try lia; [reflexivity|].
  cbn [combine fold_left length seq fst snd nth]. rewrite IH by lia.
  rewrite <- seq_shift, fold_left_map'. reflexivity.
Qed.

Lemma fold_padd_psumf (G : nat -> list Z) m init : length init = n -> (forall i, (i < m)%nat -> length (G i) = n) ->
  fold_left (fun acc i => padd acc (G i)) (seq 0 m) init = padd init (psumf n G m).
Proof.
  intros Hi HG. induction m as [|m IH]; [rewrite psumf_0, padd_pzero_r by exact Hi; reflexivity|].
  rewrite seq_S, fold_left_app, IH by auto with arith. cbn [fold_left Nat.add]. rewrite psumf_S. apply padd_assoc.
Qed.

(* Gadget.phase_val is phase_f under the secret family (1, s_0, s_1, ...) *)
Theorem phase_val_phase_f (sk : list (list Z)) (ct : cols_t) size :
  (1 <= n)%nat -> wf_cols n (S (length sk)) size ct -> (forall i, (i < length sk)%nat -> length (nth i sk (pzero n)) = n) ->
  phase_val P b n sk ct = phase_f P b n (S (length sk)) size (limbs_of ct) (sk_ext n sk).
Proof.
  intros Hn [Hl Hc] Hsk. unfold phase_val, phase_f.
  assert (Hcol : forall co, (co < S (length sk))%nat -> poly_val P b n (col ct co) = pval P b n (limbs_of ct co) size).
  { intros co Hco. rewrite poly_val_pval. destruct (Hc co Hco) as [-> _]. reflexivity. }
  assert (Lcol : forall co, (co < S (length sk))%nat -> length (pval P b n (limbs_of ct co) size) = n).
  { intros co Hco. apply pval_length. intros j Hj. apply (Hc co Hco); exact Hj. }
  assert (Htl : length (tl ct) = length sk) by (destruct ct; cbn [length tl] in *; lia).
  rewrite (fold_combine_seq (fun c s => pmul (poly_val P b n c) s) (tl ct) sk (pzero n)) by exact Htl.
  rewrite (fold_padd_psumf (fun i => pmul (poly_val P b n (nth i (tl ct) [])) (nth i sk (pzero n)))).
  - rewrite psumf_shift.
    + f_equal.
      * cbn [sk_ext]. change (pone_n n) with (pone n). rewrite pmul_pone_r by (try apply Lcol; lia). apply Hcol; lia.
      * apply psumf_ext; intros i Hi. cbn [sk_ext]. f_equal.
        replace (nth i (tl ct) []) with (col ct (S i)) by (destruct ct; [destruct i|]; reflexivity). apply Hcol; lia.
    + intros co Hco. rewrite pmul_length. apply Lcol; exact Hco.
  - rewrite Hcol by lia. apply Lcol; lia.
  - intros i Hi. rewrite pmul_length.
    replace (nth i (tl ct) []) with (col ct (S i)) by (destruct ct; [destruct i|]; reflexivity). rewrite Hcol by lia. apply Lcol; lia.
Qed.
End ValueLink.

Section SkExt.
Lemma sk_ext_length n sk : (1 <= n)%nat -> (forall s, In s sk -> length s = n) -> forall co, length (sk_ext n sk co) = n.
Proof.
  intros Hn H [|i]; cbn [sk_ext]; [apply (pone_length n Hn)|].
  destruct (Nat.lt_ge_cases i (length sk)) as [G|G]; [apply H, nth_In, G|].
  rewrite nth_overflow by exact G. apply pzero_length.
Qed.
End SkExt.

(* (3b) stated with Gadget.phase_val : output secret sk_out (rank_out polynomials), Sk = (1, sk_out) *)
Section C03PhaseVal.
Variables (P b : Z) (n rin msize a_size dsize dnum : nat).
Variable ct : cols_t.
Variable res0 : cols_t.
Variable K : pmat.
Variable sk_out : list (list Z).
Variables (s_in : nat -> list Z) (e I : nat -> nat -> list Z).
Let cols_out := S (length sk_out).
Let Sk := sk_ext n sk_out.
Hypothesis Hct : wf_cols n (S rin) a_size ct.
Hypothesis HK : wf_pmat_in n (dnum * rin) (msize * cols_out) K.
Hypothesis Hn : (1 <= n)%nat.
Hypothesis Hd : (1 <= dsize)%nat.
Hypothesis Hdrop : (dsize - 2 <= msize)%nat.
Hypothesis Hsk : forall s, In s sk_out -> length s = n.
Hypothesis Hsin : forall ci, length (s_in ci) = n.
Hypothesis He : forall row ci, length (e row ci) = n.
Hypothesis HI : forall row ci, length (I row ci) = n.
Hypothesis Hb : 0 <= b.
Hypothesis HP : Z.of_nat msize * b <= P.
Hypothesis HP2 : Z.of_nat dnum * Z.of_nat dsize * b <= P.
Hypothesis key_row : key_rows_ok P b n rin cols_out msize dsize dnum K Sk s_in e I.

Theorem C03_keyswitch_internal_phase_val_lemma :
  exists ks, keyswitch_internal n cols_out msize res0 ct a_size dsize dnum msize K = Some ks /\
    phase_val P b n sk_out ks
    = padd (padd (padd (pval P b n (acol n ct 0) (Nat.min msize a_size))
                       (psumf n (fun ci => pmul (pval_used P b n a_size dsize dnum (acol n (tl ct)) ci) (s_in ci)) rin))
                 (gadget_err P b n rin cols_out msize dsize dnum (acol n (tl ct)) K Sk e))
           (pscale (2 ^ P) (gadget_int b n rin cols_out msize dsize dnum (acol n (tl ct)) K Sk I)).
Proof.
  pose proof (sk_ext_length n sk_out Hn Hsk) as HS.
  destruct (C03_keyswitch_internal_phase_lemma P b n rin cols_out msize a_size dsize dnum ct res0 K Sk s_in e I
              Hct HK Hn ltac:(unfold cols_out; lia) Hd Hdrop HS eq_refl Hsin He HI Hb HP HP2 key_row) as [ks [E1 [E2 E3]]].
  exists ks. split; [exact E1|].
  rewrite (phase_val_phase_f P b n sk_out ks msize Hn E2) by (intros; apply Hsk, nth_In; assumption).
  exact E3.
Qed.
End C03PhaseVal.

(* ---- the hypotheses of the C03 phase theorems are satisfiable: a concrete small instance (stated as Examples in Props/C03.v) ---- *)
(* a concrete small key switch: n = 2, rank_in = 1, rank_out = 1, a_size = 2, dsize = 2, dnum = 1, msize = 2, b = 4, P = 8;
   s_in = X, s_out = 1 + X; the key row encrypts s_in 2^(-2b) without noise in limb 1 of its body column *)
Definition ex3_ct : cols_t := [[[1; 2]; [3; 4]]; [[5; 6]; [7; 8]]].
Definition ex3_sk : list (list Z) := [[1; 1]].
Definition ex3_sin : nat -> list Z := fun _ => [0; 1].
Definition ex3_K : pmat := fun q c => if Nat.eqb q 0 && Nat.eqb c 2 then [0; 1] else pzero 2.
Definition ex3_zero : nat -> nat -> list Z := fun _ _ => pzero 2.

Lemma C03_hypotheses_satisfiable_lemma :
  wf_cols 2 2 2 ex3_ct /\ wf_pmat_in 2 (1 * 1) (2 * 2) ex3_K /\ (1 <= 2)%nat /\ (1 <= 2)%nat /\ (1 <= 2)%nat /\ (2 - 2 <= 2)%nat /\
  (forall co, length (sk_ext 2 ex3_sk co) = 2%nat) /\ sk_ext 2 ex3_sk 0 = pone 2 /\
  (forall ci, length (ex3_sin ci) = 2%nat) /\ (forall row ci, length (ex3_zero row ci) = 2%nat) /\
  0 <= 4 /\ Z.of_nat 2 * 4 <= 8 /\ Z.of_nat 1 * Z.of_nat 2 * 4 <= 8 /\
  key_rows_ok 8 4 2 1 2 2 2 1 ex3_K (sk_ext 2 ex3_sk) ex3_sin ex3_zero ex3_zero.
Proof.
  repeat match goal with |- _ /\ _ => split end; try lia; try reflexivity.
  - split; [reflexivity|]. intros ci H. destruct ci as [|[|ci]]; [| |lia]; (split; [reflexivity|]); intros l Hl; destruct l as [|[|l]]; try lia; reflexivity.
  - intros q c Hq Hc. unfold ex3_K. destruct (_ && _); reflexivity.
  - intros co. destruct co as [|[|co]]; try reflexivity. cbn. destruct co; reflexivity.
  - intros row ci Hrow Hci. destruct row as [|row]; [|lia]. destruct ci as [|ci]; [|lia]. vm_compute. reflexivity.
Qed.

(* the model run and both sides of the phase equation on that instance *)
Lemma C03_instance_runs_lemma :
  exists ks, keyswitch_internal 2 2 2 (zcols 2 2 2) ex3_ct 2 2 1 2 ex3_K = Some ks /\
    phase_f 8 4 2 2 2 (limbs_of ks) (sk_ext 2 ex3_sk)
    = padd (padd (padd (pval 8 4 2 (acol 2 ex3_ct 0) (Nat.min 2 2))
                       (psumf 2 (fun ci => pmul (pval_used 8 4 2 2 2 1 (acol 2 (tl ex3_ct)) ci) (ex3_sin ci)) 1))
                 (gadget_err 8 4 2 1 2 2 2 1 (acol 2 (tl ex3_ct)) ex3_K (sk_ext 2 ex3_sk) ex3_zero))
           (pscale (2 ^ 8) (gadget_int 4 2 1 2 2 2 1 (acol 2 (tl ex3_ct)) ex3_K (sk_ext 2 ex3_sk) ex3_zero)).
Proof. eexists. split; vm_compute; reflexivity. Qed.
