(* C01, public-key GLWE: public key generation, glwe_encrypt_pk, glwe_decrypt.
   decrypt = m + u*e_pk + e_0 + sum_i s_i*e_i (+ one unit of rounding): the mask terms s_i*(u*a_i) and u*(s_i*a_i) cancel by
   commutativity / associativity of the negacyclic product (C07). *)
From PV Require Import Base.MachineInt Model.Znx Model.Limbs Model.Flat Model.DftAbs Model.C08Oracle Model.EncModel
  Proofs.C07Dft Proofs.C07Ring Proofs.EncValue Proofs.EncLists Proofs.EncBilinear Proofs.C01Sk Proofs.C01Glwe Proofs.C01PkCoeff.
Open Scope Z_scope.

(* ---------------- small list facts ---------------- *)
Lemma Forall2_nth {A B} (R : A -> B -> Prop) (l : list A) (r : list B) (da : A) (db : B) :
  Forall2 R l r -> forall i, (i < length l)%nat -> R (nth i l da) (nth i r db).
Proof.
  induction 1 as [|x y l r Hxy H IH]; intros i Hi; [cbn [length] in Hi; lia|].
  destruct i; [exact Hxy|]. cbn [nth]. apply IH. cbn [length] in Hi. lia.
Qed.

Lemma Forall2_combine_seq_nth {A B} (R : nat -> A -> B -> Prop) (l : list A) (r : list B) (da : A) (db : B) :
  Forall2 (fun (q : nat * A) y => R (fst q) (snd q) y) (combine (seq 0 (length l)) l) r ->
  forall i, (i < length l)%nat -> R i (nth i l da) (nth i r db).
Proof.
  intros H i Hi.
  assert (Hi' : (i < length (combine (seq 0 (length l)) l))%nat) by (rewrite combine_length, seq_length; lia).
  pose proof (Forall2_nth _ _ _ (O, da) db H i Hi') as Hx. cbn beta in Hx.
  rewrite combine_nth in Hx by (rewrite seq_length; reflexivity). rewrite seq_nth in Hx by lia. exact Hx.
Qed.

Lemma Forall2_combine3_nth {A B C} (R : nat -> A -> B -> C -> Prop) (l1 : list A) (l2 : list B) (r : list C)
      (da : A) (db : B) (dc : C) : length l1 = length l2 ->
  Forall2 (fun (q : nat * (A * B)) y => R (fst q) (fst (snd q)) (snd (snd q)) y) (combine (seq 0 (length l1)) (combine l1 l2)) r ->
  forall i, (i < length l1)%nat -> R i (nth i l1 da) (nth i l2 db) (nth i r dc).
Proof.
  intros Hl H i Hi.
  assert (Lc : length (combine l1 l2) = length l1) by (rewrite combine_length; lia).
  rewrite <- Lc in H.
  pose proof (Forall2_combine_seq_nth (fun i0 (pe : A * B) y => R i0 (fst pe) (snd pe) y) (combine l1 l2) r (da, db) dc H i
                ltac:(rewrite Lc; exact Hi)) as Hx.
  cbn beta in Hx. rewrite combine_nth in Hx by exact Hl. exact Hx.
Qed.

Lemma lvsum_map_nth {T} (P b : Z) (size : nat) (g : T -> list Z) (l : list T) (d : T) :
  lvsum P b size (map g l) = sumz (fun i => lval P b size (g (nth i l d))) (length l).
Proof.
  induction l as [|x l IH]; [reflexivity|].
  cbn [map length]. unfold lvsum in *. cbn [fold_right]. rewrite IH. rewrite sumz_shift. reflexivity.
Qed.

Lemma in_range_bnd_limb (b : Z) (n : nat) (c : ccol) (j : nat) : 1 <= b ->
  (forall t, (t < n)%nat -> Forall (in_range b) (coef c t)) -> length c = n -> bnd (2 ^ (b - 1)) (limb_poly c j).
Proof.
  intros Hb H Hl t. rewrite nth_limb_poly. pose proof (pow2_pos (b - 1) ltac:(lia)).
  destruct (Nat.lt_ge_cases t n).
  - apply (bnd_in_range b (coef c t) Hb (H t ltac:(lia))).
  - unfold coef. rewrite nth_overflow by lia. unfold nthZ. destruct j; cbn; lia.
Qed.

(* magnitude of a product column *)
Lemma svp_coef_bnd (b S : Z) (n size : nat) (s : poly) (c : ccol) (k : nat) : 1 <= b -> (k < n)%nat ->
  norm1 s <= S -> (forall j, bnd (2 ^ (b - 1)) (limb_poly c j)) ->
  length (coef (svp s n size c) k) = size /\ bnd (S * 2 ^ (b - 1)) (coef (svp s n size c) k).
Proof.
  intros Hb Hk Hs Hc. split; [apply coef_svp_length; lia|].
  pose proof (pow2_pos (b - 1) ltac:(lia)) as Hp. pose proof (norm1_nonneg s) as Hn.
  intros j. rewrite coef_svp by lia. destruct (Nat.lt_ge_cases j size) as [Hj|Hj].
  - unfold nthZ at 1. rewrite EncValue.nth_map_seq by lia.
    eapply Z.le_trans; [apply (pmul_nth_bound s _ k (2 ^ (b - 1)) (Hc j)); lia|]. nia.
  - rewrite nthZ_beyond by (rewrite map_length, seq_length; lia). nia.
Qed.

Lemma mask_col_length b n size us off : length (mask_col b n size us off) = n.
Proof. unfold mask_col. rewrite map_length, seq_length. reflexivity. Qed.

(* s * (u * A) = u * (s * A) *)
Lemma pmul_swap (s u A : list Z) : length u = length s -> length A = length s -> pmul s (pmul u A) = pmul u (pmul s A).
Proof.
  intros Hu HA.
  rewrite <- (pmul_assoc s u A) by lia. rewrite (pmul_comm s u) by lia.
  rewrite (pmul_assoc u s A) by lia. reflexivity.
Qed.

Lemma sumz_congr (F G H : nat -> Z) (w M : Z) (r : nat) :
  (forall i, (i < r)%nat -> exists z, F i = G i + w * H i + M * z) ->
  exists z, sumz F r = sumz G r + w * sumz H r + M * z.
Proof.
  induction r as [|r IH]; intros T.
  - exists 0. cbn [sumz]. lia.
  - destruct IH as [z Hz]; [intros i Hi; apply T; lia|]. destruct (T r ltac:(lia)) as [z' Hz'].
    exists (z + z'). cbn [sumz]. rewrite Hz, Hz'. lia.
Qed.

Section Pk.
Variables wb b pb : Z.
Variable D : Z -> Prop.
Variables n size psize rank : nat.
Variables nk nkp : Z.
Hypothesis normalize_value_ok_small : normalize_value_ok_dom D (fun rb ab => normalize 64 rb ab 0) (2 ^ 62).
Hypothesis normalize_value_ok_big : normalize_value_ok_dom D (bnorm wb) (2 ^ (wb - 2)).
Hypothesis Hwb : 2 <= wb.
Hypothesis Hb : D b.
Hypothesis Hpb : D pb.
Hypothesis Hb_pos : 1 <= b.
Hypothesis Hpb_pos : 1 <= pb.
Variables Sn U E Ep M : Z.
Hypothesis HS : 0 <= Sn.
Hypothesis HU : 0 <= U.

(* the error of a public-key ciphertext at coefficient k, scaled by 2^P *)
Definition pk_error (P : Z) (sk : list poly) (u epk : poly) (es : list poly) (k : nat) : Z :=
  nthZ (pmul u epk) k * wt P b (target_limb nkp b)
  + nthZ (nth 0 es []) k * wt P b (target_limb nk b)
  + sumz (fun i => nthZ (pmul (nth i sk []) (nth (S i) es [])) k) rank * wt P b (target_limb nk b).

Theorem pk_roundtrip (pt : ccol) (sk : list poly) (us : nat -> Z) (epk u : poly) (es : list poly)
        (pk ct : list ccol) (d : ccol) :
  length sk = rank -> length es = S rank ->
  Forall (fun s => length s = n /\ norm1 s <= Sn) sk -> length u = n -> norm1 u <= U ->
  length epk = n -> Forall (fun e => length e = n) es ->
  (forall k, (k < n)%nat -> Z.abs (nthZ epk k) <= Ep) ->
  (forall i k, (k < n)%nat -> Z.abs (nthZ (nth i es []) k) <= E) ->
  (forall k, (k < n)%nat -> bnd M (coef pt k)) -> 0 <= M ->
  zn rank * 2 ^ (b - 1) + Ep <= 2 ^ 62 ->
  Sn * 2 ^ (b - 1) <= 2 ^ (wb - 2) ->
  U * 2 ^ (b - 1) + E + M <= 2 ^ (wb - 2) ->
  zn rank * (Sn * 2 ^ (b - 1)) + 2 ^ (b - 1) <= 2 ^ (wb - 2) ->
  enc_sk wb b n size rank nkp None sk us epk = Some pk ->
  enc_pk wb b n size size nk (Some pt) u pk es = Some ct ->
  dec_glwe wb b pb n size psize sk ct = Some d ->
  forall k, (k < n)%nat -> length (coef d k) = psize /\
    forall P, zn size * b <= P -> zn psize * pb <= P -> 1 <= P ->
    (exists q, lval P b size (coef (hd [] ct) k) + lvsum P b size (prods_at n size sk (tl ct) k)
               = lval P b size (coef pt k) + pk_error P sk u epk es k + q * 2 ^ P) /\
    tor_abs P (val_scaled P pb (coef d k) - val_scaled P b (firstn size (coef pt k)) - pk_error P sk u epk es k)
      <= 2 ^ (P - zn psize * pb).
Proof.
  intros Lsk Les Hsk Lu Hu Lepk Hes Hepk HE Hm HM H1 H2 H3 H4 Hpk Hct Hdec k Hk.
  pose proof (pow2_pos (b - 1) ltac:(lia)) as Hp1.
  (* ---- the public key ---- *)
  unfold enc_sk in Hpk. set (a := glwe_mask b n size rank us) in *.
  destruct (enc_sk_body wb b n size nkp None sk a epk) as [bodyp|] eqn:Hbodyp; [|discriminate].
  injection Hpk as Epk.
  unfold enc_sk_body in Hbodyp.
  destruct (Nat.leb size (target_limb nkp b)) eqn:Hlp; [discriminate|]. apply Nat.leb_gt in Hlp.
  destruct (sequence _) as [terms|] eqn:Hseq in Hbodyp; [|discriminate].
  apply sequence_Forall2 in Hseq.
  destruct (cmap_opt_nth _ _ _ Hbodyp) as [Lbodyp Hbp].
  assert (La : length a = rank) by (unfold a; apply glwe_mask_length).
  assert (Hsk' : Forall (fun s => norm1 s <= Sn) sk) by (eapply Forall_impl; [|exact Hsk]; intros ? [_ ?]; assumption).
  (* per coefficient t: phase of the public key *)
  assert (PKV : forall t, (t < n)%nat ->
            length (coef bodyp t) = size /\ Forall (in_range b) (coef bodyp t) /\
            forall P, zn size * b <= P -> 1 <= P ->
              exists q, lval P b size (coef bodyp t) + lvsum P b size (prods_at n size sk a t)
                        = nthZ epk t * wt P b (target_limb nkp b) + q * 2 ^ P).
  { intros t Ht. specialize (Hbp t Ht). cbn beta in Hbp.
    assert (HT : Forall2 (fun X tt => bnorm wb b b X (zeros size) = Some tt)
                   (prods_at n size sk a t) (map (fun tm => coef tm t) terms)).
    { unfold prods_at. apply Forall2_map_l. apply Forall2_map_r.
      assert (La' : length a = length (combine sk a)) by (rewrite combine_length; lia).
      rewrite La' in Hseq.
      apply (Forall2_combine_seq (fun q tm => bnorm wb b b (coef (svp (fst q) n size (snd q)) t) (zeros size) = Some (coef tm t))
               (combine sk a) 0 terms).
      eapply Forall2_impl'; [|exact Hseq].
      intros [i [s c]] tm _ Hst. cbn [fst snd] in *. unfold sk_term, sk_src in Hst.
      destruct (cmap_opt_nth _ _ _ Hst) as [_ Htk]. exact (Htk t Ht). }
    assert (HX := prods_at_ok wb b n size rank Hwb Hb_pos Sn HS sk us t Ht Hsk'). fold a in HX.
    assert (LX : length (prods_at n size sk a t) = rank).
    { unfold prods_at. rewrite map_length, combine_length. lia. }
    destruct (enc_body_value wb b D size normalize_value_ok_small normalize_value_ok_big Hwb Hb Hb_pos
                (target_limb nkp b) (Sn * 2 ^ (b - 1)) Ep 0 (prods_at n size sk a t) (map (fun tm => coef tm t) terms)
                (nthZ epk t) None (coef bodyp t) Hlp ltac:(nia) H2 HX HT (Hepk t Ht) ltac:(intros; discriminate) ltac:(lia)
                ltac:(rewrite LX; lia) Hbp) as (L & Rg & V).
    split; [exact L|]. split; [exact Rg|]. intros P HP HP1. destruct (V P HP HP1) as [q Hq]. exists q. cbn [optval] in Hq. lia. }
  (* every column of pk has n coefficients with balanced digits *)
  assert (PKcol : forall i, (i < S rank)%nat -> length (nth i pk []) = n /\ forall j, bnd (2 ^ (b - 1)) (limb_poly (nth i pk []) j)).
  { intros i Hi. rewrite <- Epk. destruct i as [|i]; cbn [nth].
    - split; [exact Lbodyp|]. intros j. apply (in_range_bnd_limb b n bodyp j); [lia| |exact Lbodyp].
      intros t Ht. apply (PKV t Ht).
    - unfold a, glwe_mask. rewrite EncValue.nth_map_seq by lia. split; [apply mask_col_length|].
      intros j. apply limb_poly_mask_bnd. lia. }
  (* ---- the ciphertext ---- *)
  unfold enc_pk in Hct.
  destruct (Nat.leb size (target_limb nk b)) eqn:Hl; [discriminate|]. apply Nat.leb_gt in Hl.
  apply sequence_Forall2 in Hct.
  assert (Lpk : length pk = S rank) by (rewrite <- Epk; cbn [length]; lia).
  assert (Lcomb : length (combine (seq 0 (length pk)) (combine pk es)) = S rank).
  { rewrite !combine_length, seq_length. lia. }
  assert (Lct : length ct = S rank) by (rewrite <- (Forall2_length' _ _ _ Hct); exact Lcomb).
  assert (CTV : forall i, (i < S rank)%nat ->
            length (nth i ct []) = n /\
            forall t, (t < n)%nat ->
              length (coef (nth i ct []) t) = size /\ Forall (in_range b) (coef (nth i ct []) t) /\
              forall P, zn size * b <= P -> 1 <= P ->
                exists q, lval P b size (coef (nth i ct []) t)
                          = lval P b size (coef (svp u n size (nth i pk [])) t) + nthZ (nth i es []) t * wt P b (target_limb nk b)
                            + (match i with O => lval P b size (coef pt t) | _ => 0 end) + q * 2 ^ P).
  { intros i Hi.
    assert (XX : length pk = length es) by (rewrite Lpk, Les; reflexivity).
    pose proof (Forall2_combine3_nth
                  (fun (i0 : nat) (pki : ccol) (ei : poly) (y : ccol) =>
                     cmap_opt n (fun k0 => pk_coeff wb b size (target_limb nk b) (coef (svp u n size pki) k0) (nthZ ei k0)
                                             match i0 with O => Some (coef pt k0) | _ => None end) = Some y)
                  pk es ct [] [] [] XX Hct i ltac:(rewrite Lpk; exact Hi)) as Hcol.
    cbn beta in Hcol.
    destruct (cmap_opt_nth _ _ _ Hcol) as [Lc Hc]. split; [exact Lc|].
    intros t Ht. specialize (Hc t Ht). cbn beta in Hc.
    destruct (PKcol i Hi) as [Lpki Bpki].
    destruct (svp_coef_bnd b U n size u (nth i pk []) t ltac:(lia) Ht Hu Bpki) as [LX BX].
    destruct (pk_coeff_value wb b D size normalize_value_ok_big Hwb Hb (target_limb nk b) (U * 2 ^ (b - 1)) E M
                (coef (svp u n size (nth i pk [])) t) (nthZ (nth i es []) t)
                (match i with O => Some (coef pt t) | _ => None end) (coef (nth i ct []) t)
                Hl ltac:(nia) LX BX (HE i t Ht)
                ltac:(intros p Hp; destruct i; [injection Hp as <-; apply Hm; exact Ht|discriminate]) HM H3
                ltac:(destruct i; exact Hc)) as (L & Rg & V).
    split; [exact L|]. split; [exact Rg|]. intros P HP HP1. destruct (V P HP HP1) as [q Hq]. exists q.
    destruct i; cbn [optval] in Hq; lia. }
  (* ---- decryption ---- *)
  unfold dec_glwe in Hdec.
  destruct (cmap_opt_nth _ _ _ Hdec) as [_ Hdk]. specialize (Hdk k Hk). cbn beta in Hdk.
  rewrite map_map in Hdk.
  set (Xs := map (fun q : poly * ccol => coef (svp (fst q) n size (snd q)) k) (combine sk (tl ct))) in Hdk.
  assert (Ltl : length (tl ct) = rank) by (destruct ct; cbn [length tl] in *; lia).
  assert (Lcs : length (combine sk (tl ct)) = rank) by (rewrite combine_length; lia).
  assert (Hnth_tl : forall i, nth i (tl ct) [] = nth (S i) ct []) by (intros i; destruct ct; [destruct i; reflexivity|reflexivity]).
  assert (Hhd : hd [] ct = nth 0 ct []) by (destruct ct; reflexivity).
  assert (HXs : Forall (fun X => length X = size /\ bnd (Sn * 2 ^ (b - 1)) X) Xs).
  { unfold Xs. rewrite Forall_forall. intros X HX. apply in_map_iff in HX. destruct HX as [[s c] [<- Hin]]. cbn [fst snd].
    pose proof (in_combine_l _ _ _ _ Hin) as Hins. pose proof (in_combine_r _ _ _ _ Hin) as Hinc.
    destruct (In_nth _ _ [] Hinc) as [i [Hi0 Hc]]. assert (Hi : (i < rank)%nat) by (rewrite <- Ltl; exact Hi0).
    rewrite Hnth_tl in Hc.
    rewrite Forall_forall in Hsk. destruct (Hsk s Hins) as [_ Hn1].
    destruct (CTV (S i) ltac:(lia)) as [Lc Vc].
    apply (svp_coef_bnd b Sn n size s c k ltac:(lia) Hk Hn1).
    intros j. rewrite <- Hc. apply (in_range_bnd_limb b n (nth (S i) ct []) j); [lia| |exact Lc].
    intros t Ht. apply (Vc t Ht). }
  destruct (CTV O ltac:(lia)) as [Lc0 Vc0].
  destruct (dec_coeff_value wb b pb D size psize normalize_value_ok_big Hwb Hb Hpb (Sn * 2 ^ (b - 1)) (2 ^ (b - 1)) Xs
              (coef (hd [] ct) k) (coef d k) ltac:(nia) HXs
              ltac:(rewrite Hhd; apply (Vc0 k Hk)) ltac:(rewrite Hhd; apply bnd_in_range; [lia|apply (Vc0 k Hk)])
              ltac:(unfold Xs; rewrite map_length, Lcs; lia) Hdk) as (Ld & Vd).
  split; [exact Ld|].
  intros P HP HPp HP1.
  specialize (Vd P HP HPp HP1).
  (* ---- polynomial level ---- *)
  set (w := wt P b (target_limb nk b)). set (w' := wt P b (target_limb nkp b)).
  set (Bv := vpoly P b n size bodyp).
  set (Av := fun i => vpoly P b n size (nth i a [])).
  set (Cv := fun i => vpoly P b n size (nth i ct [])).
  assert (Hs_i : forall i, (i < rank)%nat -> length (nth i sk []) = n).
  { intros i Hi. rewrite Forall_forall in Hsk. apply (Hsk (nth i sk [])). apply nth_In. lia. }
  assert (He_i : forall i, (i < S rank)%nat -> length (nth i es []) = n).
  { intros i Hi. rewrite Forall_forall in Hes. apply Hes. apply nth_In. lia. }
  assert (La_i : forall i, (i < rank)%nat -> length (nth i a []) = n).
  { intros i Hi. destruct (PKcol (S i) ltac:(lia)) as [L _]. rewrite <- Epk in L. exact L. }
  (* (1) the public key: Bv = - sum_i s_i*A_i + w' e_pk + 2^P Q1 *)
  destruct (finite_choice n (fun t q => nthZ Bv t = - sumz (fun i => nthZ (pmul (nth i sk []) (Av i)) t) rank
                                                     + w' * nthZ epk t + 2 ^ P * q)) as [Q1 [LQ1 HQ1]].
  { intros t Ht. destruct (PKV t Ht) as (_ & _ & V). destruct (V P HP HP1) as [q Hq]. exists q.
    unfold Bv. rewrite nth_vpoly by lia.
    unfold prods_at in Hq. rewrite (lvsum_map_nth P b size _ (combine sk a) (([] : poly), ([] : ccol))) in Hq.
    rewrite combine_length, Lsk, La, Nat.min_id in Hq.
    rewrite (sumz_ext _ (fun i => nthZ (pmul (nth i sk []) (Av i)) t)) in Hq.
    - unfold w'. lia.
    - intros i Hi. rewrite (combine_nth sk a i [] [] ltac:(rewrite Lsk, La; reflexivity)). cbn [fst snd]. unfold Av.
      apply svp_value; [apply Hs_i; exact Hi|apply La_i; exact Hi|exact Ht]. }
  (* (2) the ciphertext columns *)
  assert (C0 : exists Q, length Q = n /\ forall t, (t < n)%nat ->
             nthZ (Cv O) t = nthZ (pmul u Bv) t + w * nthZ (nth 0 es []) t + lval P b size (coef pt t) + 2 ^ P * nthZ Q t).
  { apply (finite_choice n (fun t q => nthZ (Cv O) t = nthZ (pmul u Bv) t + w * nthZ (nth 0 es []) t + lval P b size (coef pt t) + 2 ^ P * q)).
    intros t Ht. destruct (Vc0 t Ht) as (_ & _ & V). destruct (V P HP HP1) as [q Hq]. exists q.
    unfold Cv. rewrite nth_vpoly by lia. rewrite Hq.
    rewrite (svp_value P b n size u (nth 0 pk []) t Lu) by (try apply (PKcol O); lia).
    rewrite <- Epk. cbn [nth]. fold Bv. unfold w. lia. }
  destruct C0 as [Q0 [LQ0 HQ0]].
  assert (Ci : forall i, (i < rank)%nat -> exists Q, length Q = n /\ forall t, (t < n)%nat ->
             nthZ (Cv (S i)) t = nthZ (pmul u (Av i)) t + w * nthZ (nth (S i) es []) t + 2 ^ P * nthZ Q t).
  { intros i Hi.
    apply (finite_choice n (fun t q => nthZ (Cv (S i)) t = nthZ (pmul u (Av i)) t + w * nthZ (nth (S i) es []) t + 2 ^ P * q)).
    intros t Ht. destruct (CTV (S i) ltac:(lia)) as [_ Vc]. destruct (Vc t Ht) as (_ & _ & V). destruct (V P HP HP1) as [q Hq]. exists q.
    unfold Cv. rewrite nth_vpoly by lia. rewrite Hq.
    rewrite (svp_value P b n size u (nth (S i) pk []) t Lu) by (try apply (PKcol (S i)); lia).
    rewrite <- Epk. cbn [nth]. unfold Av, w. lia. }
  (* (3) the decrypted value in terms of the C_i *)
  assert (DV : lvsum P b size Xs + lval P b size (coef (hd [] ct) k)
               = sumz (fun i => nthZ (pmul (nth i sk []) (Cv (S i))) k) rank + nthZ (Cv O) k).
  { unfold Xs. rewrite (lvsum_map_nth P b size _ (combine sk (tl ct)) (([] : poly), ([] : ccol))). rewrite Lcs. f_equal.
    - apply sumz_ext. intros i Hi. rewrite combine_nth by lia. cbn [fst snd]. rewrite Hnth_tl. unfold Cv.
      apply svp_value; [apply Hs_i; lia|apply (CTV (S i)); lia|lia].
    - rewrite Hhd. unfold Cv. rewrite nth_vpoly by lia. reflexivity. }
  (* (4) expand s_i * C_{i+1} and u * Bv by linearity *)
  assert (T1 : forall i, (i < rank)%nat -> exists z,
             nthZ (pmul (nth i sk []) (Cv (S i))) k
             = nthZ (pmul u (pmul (nth i sk []) (Av i))) k + w * nthZ (pmul (nth i sk []) (nth (S i) es [])) k + 2 ^ P * z).
  { intros i Hi. destruct (Ci i Hi) as [Q [LQ HQ]]. pose proof (Hs_i i Hi) as Ls.
    exists (nthZ (pmul (nth i sk []) Q) k).
    rewrite <- (pmul_swap (nth i sk []) u (Av i)) by (unfold Av; rewrite ?vpoly_length; lia).
    rewrite !pmul_bil by (unfold Cv, Av; rewrite ?pmul_length, ?vpoly_length, ?He_i; lia). rewrite Ls.
    rewrite (bil_ext n _ (nthZ (Cv (S i))) (fun t => nthZ (pmul u (Av i)) t + (w * nthZ (nth (S i) es []) t + 2 ^ P * nthZ Q t)))
      by (intros t Ht; rewrite HQ by lia; lia).
    rewrite bil_add, bil_add, !bil_scale. lia. }
  assert (T0 : exists z, nthZ (pmul u Bv) k
             = - sumz (fun i => nthZ (pmul u (pmul (nth i sk []) (Av i))) k) rank + w' * nthZ (pmul u epk) k + 2 ^ P * z).
  { exists (nthZ (pmul u Q1) k).
    rewrite !pmul_bil by (unfold Bv; rewrite ?vpoly_length; lia). rewrite Lu.
    rewrite (bil_ext n u (nthZ Bv) (fun t => (-1) * sumz (fun i => nthZ (pmul (nth i sk []) (Av i)) t) rank
                                             + (w' * nthZ epk t + 2 ^ P * nthZ Q1 t)))
      by (intros t Ht; rewrite HQ1 by lia; lia).
    rewrite bil_add, bil_add, !bil_scale.
    rewrite (bil_sumz n u (fun i t => nthZ (pmul (nth i sk []) (Av i)) t) rank k).
    rewrite (sumz_ext (fun i => bil n u (nthZ (pmul (nth i sk []) (Av i))) k)
                      (fun i => nthZ (pmul u (pmul (nth i sk []) (Av i))) k)).
    - lia.
    - intros i Hi. rewrite pmul_bil by (rewrite ?pmul_length; unfold Av; rewrite ?Hs_i, ?vpoly_length; lia). rewrite Lu. reflexivity. }
  (* (5) sum everything *)
  assert (SUM : exists z, sumz (fun i => nthZ (pmul (nth i sk []) (Cv (S i))) k) rank
                = sumz (fun i => nthZ (pmul u (pmul (nth i sk []) (Av i))) k) rank
                  + w * sumz (fun i => nthZ (pmul (nth i sk []) (nth (S i) es [])) k) rank + 2 ^ P * z).
  { apply (sumz_congr (fun i => nthZ (pmul (nth i sk []) (Cv (S i))) k)
                      (fun i => nthZ (pmul u (pmul (nth i sk []) (Av i))) k)
                      (fun i => nthZ (pmul (nth i sk []) (nth (S i) es [])) k) w (2 ^ P) rank T1). }
  destruct SUM as [z1 Hz1]. destruct T0 as [z0 Hz0].
  split.
  { exists (z1 + z0 + nthZ Q0 k). change (prods_at n size sk (tl ct) k) with Xs.
    rewrite (Z.add_comm (lval P b size (coef (hd [] ct) k))), DV, Hz1, (HQ0 k Hk), Hz0. unfold pk_error. fold w w'. lia. }
  rewrite lval_firstn.
  replace (val_scaled P pb (coef d k) - lval P b size (coef pt k) - pk_error P sk u epk es k)
    with ((val_scaled P pb (coef d k) - (lvsum P b size Xs + lval P b size (coef (hd [] ct) k)))
          + (z1 + z0 + nthZ Q0 k) * 2 ^ P).
  - rewrite tor_abs_shift by lia. exact Vd.
  - rewrite DV, Hz1, (HQ0 k Hk), Hz0. unfold pk_error. fold w w'. lia.
Qed.

(* |error| <= bound * (|u|_1 * 2^.. + (1 + sum_i |s_i|_1) * 2^..): the worst case implied by the truncation bound *)
Lemma sumz_abs_le (F : nat -> Z) (c : Z) (r : nat) : (forall i, (i < r)%nat -> Z.abs (F i) <= c) -> Z.abs (sumz F r) <= zn r * c.
Proof.
  induction r as [|r IH]; intros H; cbn [sumz]; [unfold zn; cbn; lia|].
  specialize (IH ltac:(intros; apply H; lia)). specialize (H r ltac:(lia)). unfold zn in *. nia.
Qed.

Theorem pk_error_bound (P : Z) (sk : list poly) (u epk : poly) (es : list poly) (k : nat) :
  length sk = rank -> Forall (fun s => length s = n /\ norm1 s <= Sn) sk -> norm1 u <= U ->
  Forall (fun x => Z.abs x <= Ep) epk -> 0 <= Ep -> 0 <= E ->
  (forall i, Forall (fun x => Z.abs x <= E) (nth i es [])) ->
  Z.abs (pk_error P sk u epk es k)
  <= (U * Ep) * wt P b (target_limb nkp b) + (E + zn rank * (Sn * E)) * wt P b (target_limb nk b).
Proof.
  intros Lsk Hsk Hu Hepk HEp HE0 Hes. unfold pk_error.
  assert (W : forall j, 0 <= wt P b j) by (intros j; unfold wt; apply Z.pow_nonneg; lia).
  pose proof (W (target_limb nk b)) as W1. pose proof (W (target_limb nkp b)) as W2.
  assert (A1 : Z.abs (nthZ (pmul u epk) k) <= U * Ep).
  { eapply Z.le_trans; [apply (pmul_nth_bound u epk k Ep (bnd_of_Forall Ep epk HEp Hepk) HEp)|]. pose proof (norm1_nonneg u). nia. }
  assert (A2 : Z.abs (nthZ (nth 0 es []) k) <= E) by (apply (bnd_of_Forall E _ HE0 (Hes O))).
  assert (A3 : Z.abs (sumz (fun i => nthZ (pmul (nth i sk []) (nth (S i) es [])) k) rank) <= zn rank * (Sn * E)).
  { apply sumz_abs_le. intros i Hi.
    rewrite Forall_forall in Hsk. destruct (Hsk (nth i sk []) ltac:(apply nth_In; lia)) as [_ Hn].
    eapply Z.le_trans; [apply (pmul_nth_bound (nth i sk []) (nth (S i) es []) k E (bnd_of_Forall E _ HE0 (Hes (S i))) HE0)|].
    pose proof (norm1_nonneg (nth i sk [])). nia. }
  set (x1 := nthZ (pmul u epk) k) in *. set (x2 := nthZ (nth 0 es []) k) in *.
  set (x3 := sumz (fun i => nthZ (pmul (nth i sk []) (nth (S i) es [])) k) rank) in *.
  set (w1 := wt P b (target_limb nk b)) in *. set (w2 := wt P b (target_limb nkp b)) in *.
  assert (Z.abs (x1 * w2) <= U * Ep * w2) by (rewrite Z.abs_mul, (Z.abs_eq w2) by lia; nia).
  assert (Z.abs (x2 * w1) <= E * w1) by (rewrite Z.abs_mul, (Z.abs_eq w1) by lia; nia).
  assert (Z.abs (x3 * w1) <= zn rank * (Sn * E) * w1) by (rewrite Z.abs_mul, (Z.abs_eq w1) by lia; nia).
  lia.
Qed.

End Pk.

(* in the form pinned by Props/C01.v *)
Definition C01_pk_statement : Prop :=
  forall (wb b pb R : Z) (n size psize rank : nat) (nk nkp Sn U E Ep M : Z),
  normalize_value_ok (fun rb ab => normalize 64 rb ab 0) (2 ^ 62) R ->
  normalize_value_ok (bnorm wb) (2 ^ (wb - 2)) R ->
  2 <= wb -> 1 <= b <= R -> 1 <= pb <= R -> 0 <= Sn -> 0 <= U ->
  forall (pt : ccol) (sk : list poly) (us : nat -> Z) (epk u : poly) (es : list poly) (pk ct : list ccol) (d : ccol),
  length sk = rank -> length es = S rank ->
  Forall (fun s => length s = n /\ norm1 s <= Sn) sk -> length u = n -> norm1 u <= U ->
  length epk = n -> Forall (fun e => length e = n) es ->
  (forall k, (k < n)%nat -> Z.abs (nthZ epk k) <= Ep) ->
  (forall i k, (k < n)%nat -> Z.abs (nthZ (nth i es []) k) <= E) ->
  (forall k, (k < n)%nat -> bnd M (coef pt k)) -> 0 <= M ->
  zn rank * 2 ^ (b - 1) + Ep <= 2 ^ 62 ->
  Sn * 2 ^ (b - 1) <= 2 ^ (wb - 2) ->
  U * 2 ^ (b - 1) + E + M <= 2 ^ (wb - 2) ->
  zn rank * (Sn * 2 ^ (b - 1)) + 2 ^ (b - 1) <= 2 ^ (wb - 2) ->
  enc_sk wb b n size rank nkp None sk us epk = Some pk ->
  enc_pk wb b n size size nk (Some pt) u pk es = Some ct ->
  dec_glwe wb b pb n size psize sk ct = Some d ->
  forall k, (k < n)%nat -> length (coef d k) = psize /\
    forall P, zn size * b <= P -> zn psize * pb <= P -> 1 <= P ->
    tor_abs P (val_scaled P pb (coef d k) - val_scaled P b (firstn size (coef pt k)) - pk_error b rank nk nkp P sk u epk es k)
      <= 2 ^ (P - zn psize * pb).

Lemma pk_roundtrip_value : C01_pk_statement.
Proof.
  unfold C01_pk_statement. intros wb b pb R n size psize rank nk nkp Sn U E Ep M H1 H2 H3 H4 H5 H6 H7.
  intros pt sk us epk u es pk ct d A1 A2 A3 A4 A5 A6 A7 A8 A9 A10 A11 A12 A13 A14 A15 A16 A17 A18 k Hk.
  destruct (pk_roundtrip wb b pb (fun x => 1 <= x <= R) n size psize rank nk nkp H1 H2 H3 H4 H5 (proj1 H4) Sn U E Ep M H6 H7
              pt sk us epk u es pk ct d A1 A2 A3 A4 A5 A6 A7 A8 A9 A10 A11 A12 A13 A14 A15 A16 A17 A18 k Hk) as [L V].
  split; [exact L|]. intros P Q1 Q2 Q3. apply (V P Q1 Q2 Q3).
Qed.


(* error_is_full for public-key encryption: the exact phase of the ciphertext is plaintext + (u*e_pk, e_0, s_i*e_i), each error
   term with coefficient exactly 1 at its configured precision *)
Lemma pk_error_is_full :
  forall (wb b pb R : Z) (n size psize rank : nat) (nk nkp Sn U E Ep M : Z),
  normalize_value_ok (fun rb ab => normalize 64 rb ab 0) (2 ^ 62) R ->
  normalize_value_ok (bnorm wb) (2 ^ (wb - 2)) R ->
  2 <= wb -> 1 <= b <= R -> 1 <= pb <= R -> 0 <= Sn -> 0 <= U ->
  forall (pt : ccol) (sk : list poly) (us : nat -> Z) (epk u : poly) (es : list poly) (pk ct : list ccol) (d : ccol),
  length sk = rank -> length es = S rank ->
  Forall (fun s => length s = n /\ norm1 s <= Sn) sk -> length u = n -> norm1 u <= U ->
  length epk = n -> Forall (fun e => length e = n) es ->
  (forall k, (k < n)%nat -> Z.abs (nthZ epk k) <= Ep) ->
  (forall i k, (k < n)%nat -> Z.abs (nthZ (nth i es []) k) <= E) ->
  (forall k, (k < n)%nat -> bnd M (coef pt k)) -> 0 <= M ->
  zn rank * 2 ^ (b - 1) + Ep <= 2 ^ 62 ->
  Sn * 2 ^ (b - 1) <= 2 ^ (wb - 2) ->
  U * 2 ^ (b - 1) + E + M <= 2 ^ (wb - 2) ->
  zn rank * (Sn * 2 ^ (b - 1)) + 2 ^ (b - 1) <= 2 ^ (wb - 2) ->
  enc_sk wb b n size rank nkp None sk us epk = Some pk ->
  enc_pk wb b n size size nk (Some pt) u pk es = Some ct ->
  dec_glwe wb b pb n size psize sk ct = Some d ->
  forall k, (k < n)%nat -> forall P, zn size * b <= P -> zn psize * pb <= P -> 1 <= P ->
    exists q, lval P b size (coef (hd [] ct) k) + lvsum P b size (prods_at n size sk (tl ct) k)
              = lval P b size (coef pt k) + pk_error b rank nk nkp P sk u epk es k + q * 2 ^ P.
Proof.
  intros wb b pb R n size psize rank nk nkp Sn U E Ep M H1 H2 H3 H4 H5 H6 H7
         pt sk us epk u es pk ct d A1 A2 A3 A4 A5 A6 A7 A8 A9 A10 A11 A12 A13 A14 A15 A16 A17 A18 k Hk P Q1 Q2 Q3.
  destruct (pk_roundtrip wb b pb (fun x => 1 <= x <= R) n size psize rank nk nkp H1 H2 H3 H4 H5 (proj1 H4) Sn U E Ep M H6 H7
              pt sk us epk u es pk ct d A1 A2 A3 A4 A5 A6 A7 A8 A9 A10 A11 A12 A13 A14 A15 A16 A17 A18 k Hk) as [_ V].
  destruct (V P Q1 Q2 Q3) as [X _]. exact X.
Qed.
