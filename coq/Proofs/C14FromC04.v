(* C14: the hypothesis `external_product_phase` of the accumulator theorems, instantiated from C04's phase theorem for the
   GLWE x GGSW external product (Proofs/C04Phase.v, read-only import).
   ciphertexts = column lists (Model/Gadget.v cols_t), phase = Gadget.phase_val P b n sk, M = 2^P,
   acc [x] BRK_i = gadget_product ... K_i with K_i a GGSW encryption of the constant polynomial s_i in {0, 1}.
   What remains a premise after the instantiation is listed at the theorem. *)
From PV Require Import Base.MachineInt Model.Znx Model.Limbs Model.Flat Model.Ring Model.Poly Model.DftAbs Model.Gadget Model.GadgetSpec.
From PV Require Import Proofs.C07Dft Proofs.C07Ring Proofs.GadgetPhase Proofs.C03Phase Proofs.C04Phase.
From PV Require Import Model.C14Blind Proofs.C14Poly Proofs.C14Approx.
Open Scope Z_scope.

(* the GGSW plaintext: the constant polynomial s *)
Definition const_poly (n : nat) (s : Z) : list Z := if s =? 0 then pzero n else pone n.

Lemma phase_val_length P b n sk size (ct : cols_t) :
  (1 <= n)%nat -> wf_cols n (S (length sk)) size ct -> (forall s : list Z, In s sk -> length s = n) ->
  length (phase_val P b n sk ct) = n.
Proof.
  intros Hn Hwf Hsk.
  rewrite (phase_val_phase_f P b n sk ct size Hn Hwf).
  - apply phase_f_length. intros co j Hco Hj. unfold limbs_of. destruct Hwf as [_ H]. apply (H co Hco). exact Hj.
  - intros i Hi. apply Hsk. apply nth_In. exact Hi.
Qed.

Theorem external_product_phase_from_C04
  (P b : Z) (n msize a_size dsize dnum : nat) (clamp : bool) (a res0 : cols_t) (K : pmat) (sk : list (list Z))
  (s B : Z) (e I : nat -> nat -> list Z) :
  (* shapes (C04's own premises) *)
  wf_cols n (S (length sk)) a_size a ->
  acc_shape (S (length sk)) msize clamp res0 ->
  wf_pmat_in n (dnum * S (length sk)) (msize * S (length sk)) K ->
  (1 <= n)%nat -> (1 <= dsize)%nat -> (dsize - 2 <= msize)%nat ->
  (a_size <= dnum * dsize)%nat ->                      (* every limb of the accumulator is decomposed *)
  (forall t : list Z, In t sk -> length t = n) ->
  (forall row ci : nat, length (e row ci) = n) -> (forall row ci : nat, length (I row ci) = n) ->
  0 <= b -> Z.of_nat msize * b <= P -> Z.of_nat dnum * Z.of_nat dsize * b <= P ->
  (* REMAINING PREMISE 1: K is a GGSW encryption of the bit s with row errors e (the statement of C01/C04 key encryption) *)
  s = 0 \/ s = 1 ->
  C04_ggsw_cells P b n (length sk) msize dsize dnum K sk (const_poly n s) e I ->
  (* REMAINING PREMISE 2: the explicit error polynomial of this product is bounded by B (C03/C04 bound theorems give B
     from the digit bound and the key error bound) *)
  bounded B (gadget_err P b n (S (length sk)) (S (length sk)) msize dsize dnum (acol n a) K (sk_ext n sk) e) ->
  exists res : cols_t,
    gadget_product n (S (length sk)) msize res0 a a_size dsize dnum msize clamp K = Some res /\
    approx n (2 ^ P) B (phase_val P b n sk res) (Model.C14Blind.pscale s (phase_val P b n sk a)).
Proof.
  intros Hwa Hacc HK Hn Hds Hms Has Hsk He HI Hb HP1 HP2 Hs Hcells HB.
  assert (Hm2 : length (const_poly n s) = n).
  { unfold const_poly. destruct (s =? 0); [apply pzero_length | apply pone_length; exact Hn]. }
  destruct (C04_external_product_phase_val_lemma P b n msize a_size dsize dnum clamp a res0 K sk (const_poly n s) e I
              Hwa Hacc HK Hn Hds Hms Has Hsk Hm2 He HI Hb HP1 HP2 Hcells) as [res [Hgp Hph]].
  exists res. split; [exact Hgp|].
  pose proof (phase_val_length P b n sk a_size a Hn Hwa Hsk) as Hla.
  pose proof (gadget_err_length P b n (S (length sk)) (S (length sk)) msize dsize dnum (acol n a) K (sk_ext n sk) e
                (acol_length n (S (length sk)) a_size a Hwa)) as HlE.
  pose proof (gadget_int_length b n (S (length sk)) (S (length sk)) msize dsize dnum (acol n a) K (sk_ext n sk) I
                (acol_length n (S (length sk)) a_size a Hwa)) as HlJ.
  assert (Hmul : pmul (const_poly n s) (phase_val P b n sk a) = Model.C14Blind.pscale s (phase_val P b n sk a)).
  { unfold const_poly. destruct Hs as [-> | ->]; cbn [Z.eqb].
    - rewrite <- Hla at 1. rewrite pmul_pzero_l. rewrite Hla.
      apply zext_inj; [rewrite pscale_length, pzero_length; auto|].
      intros k. rewrite zext_pscale. unfold pzero. rewrite zext_zeros. lia.
    - rewrite <- Hla at 1. rewrite pmul_one_l by lia. symmetry. apply pscale_1. }
  rewrite Hmul in Hph.
  split.
  - rewrite Hph. change (length (Model.C14Blind.padd (Model.C14Blind.padd (Model.C14Blind.pscale s (phase_val P b n sk a))
        (gadget_err P b n (S (length sk)) (S (length sk)) msize dsize dnum (acol n a) K (sk_ext n sk) e))
        (Model.C14Blind.pscale (2 ^ P) (gadget_int b n (S (length sk)) (S (length sk)) msize dsize dnum (acol n a) K (sk_ext n sk) I))) = n).
    rewrite !len_padd, !pscale_length. lia.
  - split; [rewrite pscale_length; exact Hla|].
    eexists _, _. split; [exact HlE|]. split; [exact HlJ|]. split; [exact HB|]. exact Hph.
Qed.
