(* C13 — the bit-serial specification automata compute the bits of the RISC-V word operations:
     run (A_op i) (env_of a b) = Z.testbit (op a b) i     for all a, b in [0,2^32) and all i < 32
   (carry / borrow chains, most-significant-first comparison, barrel shift), by induction — no enumeration. *)
From Coq Require Import ZArith List Bool Arith Lia.
From PV Require Import Model.C13Bdd Proofs.C13Check.
Import ListNotations.
Open Scope Z_scope.
Ltac Zify.zify_post_hook ::= Z.div_mod_to_equations.

(* ------------------------------------------------------------------------------------------------ *)
(** * The automata are well-formed (sound equality test, decreasing rank) *)

Ltac eqb_solve :=
  let p := fresh "p" in let q := fresh "q" in let H := fresh "H" in
  intros p q H; destruct p, q; cbn in H; try discriminate;
  repeat (apply andb_true_iff in H; let H' := fresh "H" in destruct H as [H H']);
  repeat match goal with
         | H : Nat.eqb _ _ = true |- _ => apply Nat.eqb_eq in H
         | H : Bool.eqb _ _ = true |- _ => apply eqb_prop in H
         end; subst; reflexivity.

Lemma A_carry_ok sub i : automaton_ok (A_carry sub i).
Proof.
  split; cbn [st_eqb next rank A_carry state].
  - eqb_solve.
  - intros q v q1 q0 H. destruct q as [k c|k c x|b]; cbn [cnext] in H.
    + injection H as _ <- <-. cbn [crank]. lia.
    + destruct (i <=? k)%nat eqn:E.
      * injection H as _ <- <-. cbn [crank]. lia.
      * apply Nat.leb_gt in E. injection H as _ <- <-. cbn [crank]. lia.
    + discriminate.
Qed.

Lemma A_cmp_ok signed i : automaton_ok (A_cmp signed i).
Proof.
  split; cbn [st_eqb next rank A_cmp state].
  - eqb_solve.
  - intros q v q1 q0 H. destruct q as [k|k x|b]; cbn [pnext] in H.
    + injection H as _ <- <-. cbn [prank]. lia.
    + injection H as _ <- <-. unfold p_eq, p_res. destruct x, k; cbn [prank]; lia.
    + discriminate.
Qed.

Lemma A_shift_ok kd i : automaton_ok (A_shift kd i).
Proof.
  split; cbn [st_eqb next rank A_shift state].
  - eqb_solve.
  - intros q v q1 q0 H. destruct q as [k s|b]; cbn [hnext] in H.
    + destruct (k <? 5)%nat eqn:E.
      * apply Nat.ltb_lt in E. injection H as _ <- <-. cbn [hrank]. lia.
      * destruct (hsel kd i s); [|discriminate]. injection H as _ <- <-. cbn [hrank]. lia.
    + discriminate.
Qed.

Lemma A_bit_ok f i : automaton_ok (A_bit f i).
Proof.
  split; cbn [st_eqb next rank A_bit state].
  - eqb_solve.
  - intros q v q1 q0 H. destruct q; cbn [bnext] in H; try discriminate;
      injection H as _ <- <-; cbn [brank]; lia.
Qed.

Lemma A_identity_ok i : automaton_ok (A_identity i).
Proof.
  split; cbn [st_eqb next rank A_identity state].
  - eqb_solve.
  - intros q v q1 q0 H. destruct q; cbn [inext] in H; try discriminate;
      injection H as _ <- <-; cbn [brank]; lia.
Qed.

(* ------------------------------------------------------------------------------------------------ *)
(** * Input bits *)

Lemma env_a a b k : (k < 32)%nat -> env_of a b k = Z.testbit a (Z.of_nat k).
Proof. intros H. unfold env_of. apply Nat.ltb_lt in H. rewrite H. reflexivity. Qed.

Lemma env_b a b k : env_of a b (32 + k)%nat = Z.testbit b (Z.of_nat k).
Proof.
  unfold env_of. replace (32 + k <? 32)%nat with false by (symmetry; apply Nat.ltb_ge; lia).
  replace (32 + k - 32)%nat with k by lia. reflexivity.
Qed.

Lemma testbit_b2z_high (c : bool) n : 0 < n -> Z.testbit (Z.b2z c) n = false.
Proof.
  intros Hn. destruct c; cbn [Z.b2z].
  - apply Z.bits_above_log2; [lia | cbn; lia].
  - apply Z.testbit_0_l.
Qed.

Lemma testbit_high a n m : 0 <= a < 2 ^ n -> 0 <= n <= m -> Z.testbit a m = false.
Proof.
  intros [Ha0 Ha] Hn. destruct (Z.eq_dec a 0) as [->|Hne]; [apply Z.testbit_0_l|].
  apply Z.bits_above_log2; [exact Ha0|].
  assert (Z.log2 a < n) by (apply Z.log2_lt_pow2; lia). lia.
Qed.

(* ------------------------------------------------------------------------------------------------ *)
(** * and / or / xor / identity *)

Section Bitwise.
  Variables (a b : Z) (i : nat).
  Hypothesis Hi : (i < 32)%nat.
  Let e := env_of a b.

  Lemma run_bit f : run (A_bit f i) e = f (Z.testbit a (Z.of_nat i)) (Z.testbit b (Z.of_nat i)).
  Proof.
    unfold run. cbn [start A_bit].
    rewrite (run_unfold _ (A_bit_ok f i)). cbn [next A_bit bnext].
    unfold e. rewrite env_a by exact Hi.
    destruct (Z.testbit a (Z.of_nat i));
      rewrite (run_unfold _ (A_bit_ok f i)); cbn [next A_bit bnext]; rewrite env_b;
      destruct (Z.testbit b (Z.of_nat i));
      rewrite (run_unfold _ (A_bit_ok f i)); cbn [next A_bit bnext]; reflexivity.
  Qed.

  Lemma spec_and_correct : run (A_and i) e = Z.testbit (op_and a b) (Z.of_nat i).
  Proof. unfold A_and, op_and. rewrite run_bit, Z.land_spec. reflexivity. Qed.
  Lemma spec_or_correct : run (A_or i) e = Z.testbit (op_or a b) (Z.of_nat i).
  Proof. unfold A_or, op_or. rewrite run_bit, Z.lor_spec. reflexivity. Qed.
  Lemma spec_xor_correct : run (A_xor i) e = Z.testbit (op_xor a b) (Z.of_nat i).
  Proof. unfold A_xor, op_xor. rewrite run_bit, Z.lxor_spec. reflexivity. Qed.

  Lemma spec_identity_correct : run (A_identity i) e = Z.testbit (op_identity a b) (Z.of_nat i).
  Proof.
    unfold run, op_identity. cbn [start A_identity].
    rewrite (run_unfold _ (A_identity_ok i)). cbn [next A_identity inext].
    unfold e. rewrite env_a by exact Hi.
    destruct (Z.testbit a (Z.of_nat i));
      rewrite (run_unfold _ (A_identity_ok i)); cbn [next A_identity inext]; reflexivity.
  Qed.
End Bitwise.

(* ------------------------------------------------------------------------------------------------ *)
(** * add / sub: the carry chain *)

Section Carry.
  Variables (sub : bool) (i : nat) (e : env).
  (* x k, y k: the input bits; cs k: the flag (carry resp. borrow) entering bit k *)
  Variables (x y cs : nat -> bool).
  Hypothesis Hx : forall k, (k <= i)%nat -> e k = x k.
  Hypothesis Hy : forall k, (k <= i)%nat -> e (32 + k)%nat = y k.
  Hypothesis Hcs : forall k, cs (S k) = maj (if sub then negb (x k) else x k) (y k) (cs k).

  Lemma run_carry : forall n k, (k + n = i)%nat ->
    run_from (A_carry sub i) (CA k (cs k)) e = xorb (xorb (x i) (y i)) (cs i).
  Proof.
    induction n as [|n IH]; intros k Hk.
    - assert (k = i) by lia. subst k.
      rewrite (run_unfold _ (A_carry_ok sub i)). cbn [next A_carry cnext].
      rewrite Hx by lia.
      destruct (x i);
        rewrite (run_unfold _ (A_carry_ok sub i)); cbn [next A_carry cnext];
        rewrite Nat.leb_refl, Hy by lia;
        destruct (y i);
        rewrite (run_unfold _ (A_carry_ok sub i)); cbn [next A_carry cnext]; reflexivity.
    - assert (Hlt : (i <=? k)%nat = false) by (apply Nat.leb_gt; lia).
      specialize (IH (S k) ltac:(lia)). rewrite Hcs in IH.
      rewrite (run_unfold _ (A_carry_ok sub i)). cbn [next A_carry cnext].
      rewrite Hx by lia.
      destruct (x k);
        rewrite (run_unfold _ (A_carry_ok sub i)); cbn [next A_carry cnext];
        rewrite Hlt, Hy by lia;
        destruct (y k); exact IH.
  Qed.
End Carry.

Lemma carry_next a b c k : 0 <= k ->
  c / 2 = Z.lor (Z.land a b) (Z.land c (Z.lor a b)) ->
  Z.testbit c (Z.succ k) = maj (Z.testbit a k) (Z.testbit b k) (Z.testbit c k).
Proof.
  intros Hk Hc. rewrite <- Z.div2_bits by exact Hk. rewrite Hc.
  rewrite Z.lor_spec, !Z.land_spec, Z.lor_spec. reflexivity.
Qed.

Lemma spec_add_correct a b i : (i < 32)%nat ->
  run (A_add i) (env_of a b) = Z.testbit (op_add a b) (Z.of_nat i).
Proof.
  intros Hi. destruct (Z.add_carry_bits a b false) as [c [Hsum [Hc Hc0]]].
  cbn [Z.b2z] in Hsum. rewrite Z.add_0_r in Hsum.
  unfold op_add. rewrite Z.mod_pow2_bits_low by lia. rewrite Hsum, !Z.lxor_spec.
  unfold run, A_add. cbn [start A_carry].
  pose (cs := fun k : nat => Z.testbit c (Z.of_nat k)).
  assert (HX : forall k, (k <= i)%nat -> env_of a b k = Z.testbit a (Z.of_nat k)) by (intros; apply env_a; lia).
  assert (HY : forall k, (k <= i)%nat -> env_of a b (32 + k)%nat = Z.testbit b (Z.of_nat k)) by (intros; apply env_b).
  assert (HC : forall k, cs (S k) = maj (Z.testbit a (Z.of_nat k)) (Z.testbit b (Z.of_nat k)) (cs k)).
  { intros k. unfold cs. rewrite Nat2Z.inj_succ. apply carry_next; [lia | exact Hc]. }
  pose proof (run_carry false i (env_of a b) (fun k => Z.testbit a (Z.of_nat k))
                (fun k => Z.testbit b (Z.of_nat k)) cs HX HY HC i 0%nat (Nat.add_0_l i)) as Hrun.
  cbv beta in Hrun. unfold cs in Hrun. cbn [Z.of_nat] in Hrun. rewrite Hc0 in Hrun. exact Hrun.
Qed.

Lemma maj_dual p q r : negb (maj p (negb q) r) = maj (negb p) q (negb r).
Proof. destruct p, q, r; reflexivity. Qed.

Lemma spec_sub_correct a b i : (i < 32)%nat ->
  run (A_sub i) (env_of a b) = Z.testbit (op_sub a b) (Z.of_nat i).
Proof.
  intros Hi. destruct (Z.add_carry_bits a (Z.lnot b) true) as [c [Hsum [Hc Hc0]]].
  cbn [Z.b2z] in Hsum.
  assert (Hab : a - b = a + Z.lnot b + 1) by (unfold Z.lnot; lia).
  unfold op_sub. rewrite Z.mod_pow2_bits_low by lia. rewrite Hab, Hsum, !Z.lxor_spec.
  rewrite Z.lnot_spec by lia.
  unfold run, A_sub. cbn [start A_carry].
  pose (cs := fun k : nat => negb (Z.testbit c (Z.of_nat k))).
  assert (HX : forall k, (k <= i)%nat -> env_of a b k = Z.testbit a (Z.of_nat k)) by (intros; apply env_a; lia).
  assert (HY : forall k, (k <= i)%nat -> env_of a b (32 + k)%nat = Z.testbit b (Z.of_nat k)) by (intros; apply env_b).
  assert (HC : forall k, cs (S k) = maj (negb (Z.testbit a (Z.of_nat k))) (Z.testbit b (Z.of_nat k)) (cs k)).
  { intros k. unfold cs. rewrite Nat2Z.inj_succ.
    rewrite (carry_next a (Z.lnot b) c) by (lia || exact Hc).
    rewrite Z.lnot_spec by lia. apply maj_dual. }
  pose proof (run_carry true i (env_of a b) (fun k => Z.testbit a (Z.of_nat k))
                (fun k => Z.testbit b (Z.of_nat k)) cs HX HY HC i 0%nat (Nat.add_0_l i)) as Hrun.
  cbv beta in Hrun. unfold cs in Hrun. cbn [Z.of_nat] in Hrun. rewrite Hc0 in Hrun. cbn [negb] in Hrun.
  rewrite Hrun.
  destruct (Z.testbit a (Z.of_nat i)), (Z.testbit b (Z.of_nat i)), (Z.testbit c (Z.of_nat i)); reflexivity.
Qed.

(* ------------------------------------------------------------------------------------------------ *)
(** * slt / sltu: most-significant-first comparison *)

Lemma mod_pow2_succ x k : 0 <= k ->
  x mod 2 ^ (Z.succ k) = x mod 2 ^ k + 2 ^ k * Z.b2z (Z.testbit x k).
Proof.
  intros Hk. rewrite Z.pow_succ_r by exact Hk. rewrite (Z.mul_comm 2).
  rewrite Z.rem_mul_r by (try apply Z.pow_nonzero; lia).
  rewrite Z.testbit_spec' by exact Hk. reflexivity.
Qed.

Section Compare.
  Variables (signed : bool) (i : nat) (a b : Z).
  Let e := env_of a b.
  Let Aok := A_cmp_ok signed i.

  (* below the sign rule, the chain decides  a mod 2^k < b mod 2^k *)
  Lemma run_cmp : forall k : nat, (k <= 32)%nat -> (signed = false \/ k <= 31)%nat ->
    run_from (A_cmp signed i) (p_eq k) e = (a mod 2 ^ Z.of_nat k <? b mod 2 ^ Z.of_nat k).
  Proof.
    induction k as [|k IH]; intros Hk Hs.
    - cbn [p_eq]. rewrite (run_unfold _ Aok). cbn [next A_cmp pnext].
      cbn [Z.of_nat]. rewrite Z.pow_0_r, !Z.mod_1_r. reflexivity.
    - specialize (IH ltac:(lia) ltac:(destruct Hs; [left; assumption | right; lia])).
      assert (Hns : signed && Nat.eqb k 31 = false).
      { destruct Hs as [->|Hs]; [reflexivity|]. replace (Nat.eqb k 31) with false; [apply andb_false_r|].
        symmetry. apply Nat.eqb_neq. lia. }
      rewrite Nat2Z.inj_succ, !mod_pow2_succ by lia.
      pose proof (Z.mod_pos_bound a (2 ^ Z.of_nat k) ltac:(apply Z.pow_pos_nonneg; lia)) as Ba.
      pose proof (Z.mod_pos_bound b (2 ^ Z.of_nat k) ltac:(apply Z.pow_pos_nonneg; lia)) as Bb.
      cbn [p_eq]. rewrite (run_unfold _ Aok). cbn [next A_cmp pnext].
      unfold e at 1. rewrite env_a by lia.
      destruct (Z.testbit a (Z.of_nat k));
        rewrite (run_unfold _ Aok); cbn [next A_cmp pnext]; unfold e at 1; rewrite env_b;
        destruct (Z.testbit b (Z.of_nat k)); unfold p_res; rewrite ?Hns;
        try rewrite IH; try (rewrite (run_unfold _ Aok); cbn [next A_cmp pnext]);
        cbn [Z.b2z]; symmetry;
        match goal with
        | |- (?u <? ?v) = (?u' <? ?v') => destruct (Z.ltb_spec u v), (Z.ltb_spec u' v'); try reflexivity; lia
        | |- (?u <? ?v) = true => apply Z.ltb_lt; lia
        | |- (?u <? ?v) = false => apply Z.ltb_ge; lia
        end.
  Qed.
End Compare.

Lemma spec_sltu_correct a b i : 0 <= a < 2 ^ 32 -> 0 <= b < 2 ^ 32 -> (i < 32)%nat ->
  run (A_sltu i) (env_of a b) = Z.testbit (op_sltu a b) (Z.of_nat i).
Proof.
  intros Ha Hb Hi. unfold run, A_sltu, op_sltu. cbn [start A_cmp].
  destruct i as [|i].
  - change (PA 31) with (p_eq 32). rewrite run_cmp by (try left; auto).
    change (Z.of_nat 32) with 32. rewrite !Z.mod_small by lia.
    destruct (a <? b); reflexivity.
  - rewrite (run_unfold _ (A_cmp_ok false (S i))). cbn [next A_cmp pnext].
    change (if a <? b then 1 else 0) with (Z.b2z (a <? b)). symmetry. apply testbit_b2z_high. lia.
Qed.

Lemma spec_slt_correct a b i : 0 <= a < 2 ^ 32 -> 0 <= b < 2 ^ 32 -> (i < 32)%nat ->
  run (A_slt i) (env_of a b) = Z.testbit (op_slt a b) (Z.of_nat i).
Proof.
  intros Ha Hb Hi. unfold run, A_slt, op_slt. cbn [start A_cmp].
  destruct i as [|i].
  - pose proof (mod_pow2_succ a 31 ltac:(lia)) as Ea. pose proof (mod_pow2_succ b 31 ltac:(lia)) as Eb.
    change (Z.succ 31) with 32 in Ea, Eb. rewrite Z.mod_small in Ea, Eb by lia.
    pose proof (Z.mod_pos_bound a (2 ^ 31) ltac:(lia)) as Ba.
    pose proof (Z.mod_pos_bound b (2 ^ 31) ltac:(lia)) as Bb.
    pose proof (run_cmp true 0 a b 31 ltac:(lia) ltac:(right; lia)) as Hlow.
    change (Z.of_nat 31) with 31 in Hlow. cbn [p_eq] in Hlow.
    set (Aok := A_cmp_ok true 0).
    rewrite (run_unfold _ Aok). cbn [next A_cmp pnext].
    rewrite env_a by lia. change (Z.of_nat 31) with 31.
    unfold sgn32. change (2 ^ 32) with 4294967296 in *. change (2 ^ 31) with 2147483648 in *.
    destruct (Z.testbit a 31);
      rewrite (run_unfold _ Aok); cbn [next A_cmp pnext]; rewrite env_b; change (Z.of_nat 31) with 31;
      destruct (Z.testbit b 31); unfold p_res, p_eq; cbn [andb Nat.eqb];
      try rewrite Hlow; try (rewrite (run_unfold _ Aok); cbn [next A_cmp pnext]);
      cbn [Z.b2z] in Ea, Eb;
      destruct (Z.ltb_spec a 2147483648), (Z.ltb_spec b 2147483648); try lia;
      repeat match goal with
             | |- context [?u <? ?v] => destruct (Z.ltb_spec u v)
             end; try reflexivity; lia.
  - rewrite (run_unfold _ (A_cmp_ok true (S i))). cbn [next A_cmp pnext].
    change (if sgn32 a <? sgn32 b then 1 else 0) with (Z.b2z (sgn32 a <? sgn32 b)).
    symmetry. apply testbit_b2z_high. lia.
Qed.

(* ------------------------------------------------------------------------------------------------ *)
(** * sll / srl / sra: barrel shift *)

Fixpoint acc_bits (n k : nat) (e : env) : nat :=
  match n with
  | O => O
  | S n' => ((if e (32 + k)%nat then 2 ^ k else 0) + acc_bits n' (S k) e)%nat
  end.

Section Shift.
  Variables (kd : shkind) (i : nat) (e : env).
  Let Aok := A_shift_ok kd i.

  Definition shift_out (s : nat) : bool :=
    match hsel kd i s with Some j => e j | None => false end.

  Lemma run_shift : forall n k s, (k + n = 5)%nat ->
    run_from (A_shift kd i) (HS k s) e = shift_out (s + acc_bits n k e)%nat.
  Proof.
    induction n as [|n IH]; intros k s Hk.
    - assert (k = 5)%nat by lia. subst k. cbn [acc_bits]. rewrite Nat.add_0_r.
      rewrite (run_unfold _ Aok). cbn [next A_shift hnext]. unfold shift_out.
      change (5 <? 5)%nat with false. cbv iota.
      destruct (hsel kd i s) as [j|]; [|reflexivity].
      destruct (e j); rewrite (run_unfold _ Aok); cbn [next A_shift hnext]; reflexivity.
    - assert (Hlt : (k <? 5)%nat = true) by (apply Nat.ltb_lt; lia).
      rewrite (run_unfold _ Aok). cbn [next A_shift hnext]. rewrite Hlt.
      cbn [acc_bits]. destruct (e (32 + k)%nat); rewrite IH by lia; f_equal; lia.
  Qed.
End Shift.

Lemma shamt_bits a b : 0 <= b ->
  Z.of_nat (acc_bits 5 0 (env_of a b)) = Z.land b 31.
Proof.
  intros Hb. change 31 with (Z.ones 5). rewrite Z.land_ones by lia.
  assert (E : b mod 2 ^ 5 = Z.b2z (Z.testbit b 0) + 2 * Z.b2z (Z.testbit b 1) + 4 * Z.b2z (Z.testbit b 2)
                            + 8 * Z.b2z (Z.testbit b 3) + 16 * Z.b2z (Z.testbit b 4)).
  { rewrite !Z.testbit_spec' by lia.
    change (2 ^ 0) with 1. change (2 ^ 1) with 2. change (2 ^ 2) with 4. change (2 ^ 3) with 8.
    change (2 ^ 4) with 16. change (2 ^ 5) with 32. lia. }
  rewrite E. cbn [acc_bits]. rewrite !env_b.
  change (Z.of_nat 0) with 0. change (Z.of_nat 1) with 1. change (Z.of_nat 2) with 2. change (Z.of_nat 3) with 3. change (Z.of_nat 4) with 4.
  destruct (Z.testbit b 0), (Z.testbit b 1), (Z.testbit b 2), (Z.testbit b 3), (Z.testbit b 4); reflexivity.
Qed.

Lemma acc_bits_bound e : (acc_bits 5 0 e < 32)%nat.
Proof.
  cbn [acc_bits].
  destruct (e (32 + 0)%nat), (e (32 + 1)%nat), (e (32 + 2)%nat), (e (32 + 3)%nat), (e (32 + 4)%nat); cbn; lia.
Qed.

Section ShiftOps.
  Variables (a b : Z) (i : nat).
  Hypothesis Ha : 0 <= a < 2 ^ 32.
  Hypothesis Hb : 0 <= b.
  Hypothesis Hi : (i < 32)%nat.
  Let e := env_of a b.
  Let s := acc_bits 5 0 e.
  Let Hs : Z.of_nat s = Z.land b 31 := shamt_bits a b Hb.

  Lemma spec_sll_correct : run (A_sll i) e = Z.testbit (op_sll a b) (Z.of_nat i).
  Proof.
    unfold run, A_sll, op_sll. cbn [start A_shift].
    rewrite (run_shift Ksll i e 5 0 0) by reflexivity. cbn [plus]. fold s.
    rewrite Z.mod_pow2_bits_low by lia. rewrite Z.shiftl_spec by lia. rewrite <- Hs.
    unfold shift_out. cbn [hsel].
    destruct (s <=? i)%nat eqn:E.
    - apply Nat.leb_le in E. unfold e. rewrite env_a by lia. f_equal. lia.
    - apply Nat.leb_gt in E. symmetry. apply Z.testbit_neg_r. lia.
  Qed.

  Lemma spec_srl_correct : run (A_srl i) e = Z.testbit (op_srl a b) (Z.of_nat i).
  Proof.
    unfold run, A_srl, op_srl. cbn [start A_shift].
    rewrite (run_shift Ksrl i e 5 0 0) by reflexivity. cbn [plus]. fold s.
    rewrite Z.shiftr_spec by lia. rewrite <- Hs.
    unfold shift_out. cbn [hsel].
    destruct (i + s <? 32)%nat eqn:E.
    - apply Nat.ltb_lt in E. unfold e. rewrite env_a by lia. f_equal. lia.
    - apply Nat.ltb_ge in E. symmetry. apply (testbit_high a 32); lia.
  Qed.

  (* bits of the sign-extended value *)
  Lemma sgn32_bits n : 0 <= n -> Z.testbit (sgn32 a) n = Z.testbit a (Z.min n 31).
  Proof.
    intros Hn. unfold sgn32. change (2 ^ 32) with 4294967296 in *. change (2 ^ 31) with 2147483648.
    destruct (Z.ltb_spec a 2147483648) as [Hlt|Hge].
    - destruct (Z_le_gt_dec n 31) as [Hle|Hgt].
      + rewrite Z.min_l by lia. reflexivity.
      + rewrite Z.min_r by lia.
        rewrite (testbit_high a 31 n), (testbit_high a 31 31); try reflexivity;
          change (2 ^ 31) with 2147483648; lia.
    - assert (H31 : Z.testbit a 31 = true).
      { pose proof (Z.testbit_spec' a 31 ltac:(lia)) as T. change (2 ^ 31) with 2147483648 in T.
        destruct (Z.testbit a 31); [reflexivity|]. cbn [Z.b2z] in T. lia. }
      destruct (Z_le_gt_dec n 31) as [Hle|Hgt].
      + rewrite Z.min_l by lia.
        rewrite <- (Z.mod_pow2_bits_low (a - 4294967296) 32 n), <- (Z.mod_pow2_bits_low a 32 n) by lia.
        f_equal. change (2 ^ 32) with 4294967296.
        replace (a - 4294967296) with (a + (-1) * 4294967296) by ring.
        apply Z.mod_add. lia.
      + rewrite Z.min_r by lia. rewrite H31.
        apply Z.bits_above_log2_neg; [lia|].
        set (t := Z.pred (- (a - 4294967296))).
        assert (Ht : 0 <= t < 2 ^ 31) by (change (2 ^ 31) with 2147483648; unfold t; lia).
        destruct (Z.eq_dec t 0) as [->|Hne]; [cbn; lia|].
        assert (Z.log2 t < 31) by (apply Z.log2_lt_pow2; lia). lia.
  Qed.

  Lemma spec_sra_correct : run (A_sra i) e = Z.testbit (op_sra a b) (Z.of_nat i).
  Proof.
    unfold run, A_sra, op_sra. cbn [start A_shift].
    rewrite (run_shift Ksra i e 5 0 0) by reflexivity. cbn [plus]. fold s.
    rewrite Z.mod_pow2_bits_low by lia. rewrite Z.shiftr_spec by lia. rewrite <- Hs.
    rewrite sgn32_bits by lia.
    unfold shift_out. cbn [hsel]. unfold e. rewrite env_a by lia.
    f_equal. rewrite Nat2Z.inj_min, Nat2Z.inj_add. reflexivity.
  Qed.
End ShiftOps.
