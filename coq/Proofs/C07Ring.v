(* C07 part A: Z[X]/(X^n+1) algebra of the exact model (pmul = negacyclic product): coefficient formula, ring laws. *)
From PV Require Import Base.MachineInt Model.Znx Model.Limbs Model.Ring Model.DftAbs Proofs.C07Dft.
Open Scope Z_scope.

(* ---------- finite sums over nat indices ---------- *)
Definition zsum (f : nat -> Z) (n : nat) : Z := fold_left (fun acc i => acc + f i) (seq 0 n) 0.

Lemma fold_add_shift (f : nat -> Z) l acc : fold_left (fun a i => a + f i) l acc = acc + fold_left (fun a i => a + f i) l 0.
Proof.
  revert acc; induction l as [|x l IH]; intros acc; cbn [fold_left]; [lia|].
  rewrite IH, (IH (0 + f x)). lia.
Qed.

Lemma zsum_0 f : zsum f 0 = 0.
Proof. reflexivity. Qed.

Lemma zsum_S f n : zsum f (S n) = zsum f n + f n.
Proof.
  unfold zsum. rewrite seq_S, fold_left_app. cbn [fold_left Nat.add]. reflexivity.
Qed.

Lemma zsum_ext f g n : (forall i, (i < n)%nat -> f i = g i) -> zsum f n = zsum g n.
Proof.
  induction n as [|n IH]; intros H; [reflexivity|].
  rewrite !zsum_S, IH, H by auto with arith. reflexivity.
Qed.

Lemma zsum_zero n : zsum (fun _ => 0) n = 0.
Proof. induction n as [|n IH]; [reflexivity|rewrite zsum_S, IH; reflexivity]. Qed.

Lemma zsum_add f g n : zsum (fun i => f i + g i) n = zsum f n + zsum g n.
Proof. induction n as [|n IH]; [reflexivity|rewrite !zsum_S, IH; ring]. Qed.

Lemma zsum_sub f g n : zsum (fun i => f i - g i) n = zsum f n - zsum g n.
Proof. induction n as [|n IH]; [reflexivity|rewrite !zsum_S, IH; ring]. Qed.

Lemma zsum_opp f n : zsum (fun i => - f i) n = - zsum f n.
Proof. induction n as [|n IH]; [reflexivity|rewrite !zsum_S, IH; ring]. Qed.

Lemma zsum_mul_l c f n : zsum (fun i => c * f i) n = c * zsum f n.
Proof. induction n as [|n IH]; [cbn; ring|rewrite !zsum_S, IH; ring]. Qed.

Lemma zsum_mul_r c f n : zsum (fun i => f i * c) n = zsum f n * c.
Proof. induction n as [|n IH]; [cbn; ring|rewrite !zsum_S, IH; ring]. Qed.

Lemma zsum_swap (f : nat -> nat -> Z) n m :
  zsum (fun i => zsum (fun j => f i j) m) n = zsum (fun j => zsum (fun i => f i j) n) m.
Proof.
  induction n as [|n IH].
  - cbn [zsum seq fold_left]. symmetry; apply zsum_zero.
  - rewrite zsum_S, IH, <- zsum_add. apply zsum_ext; intros j _. rewrite zsum_S; reflexivity.
Qed.

(* a sum whose terms vanish except at one index *)
Lemma zsum_single (g : nat -> Z) j0 n :
  (j0 < n)%nat -> zsum (fun j => if Nat.eqb j j0 then g j else 0) n = g j0.
Proof.
  induction n as [|n IH]; intros H; [lia|].
  rewrite zsum_S. destruct (Nat.eq_dec j0 n) as [->|Hne].
  - rewrite Nat.eqb_refl.
    rewrite (zsum_ext _ (fun _ => 0)), zsum_zero; [lia|].
    intros i Hi. destruct (Nat.eqb_spec i n); [lia|reflexivity].
  - rewrite IH by lia. destruct (Nat.eqb_spec n j0); [lia|lia].
Qed.

Lemma zsum_none (g : nat -> Z) n : (forall j, (j < n)%nat -> g j = 0) -> zsum g n = 0.
Proof. intros H. rewrite (zsum_ext _ (fun _ => 0)) by auto. apply zsum_zero. Qed.

(* ---------- exact negacyclic extension ---------- *)
Definition ext' (a : list Z) (k : Z) : Z :=
  let n := Z.of_nat (length a) in
  let q := k / n in let r := k mod n in
  if Z.even q then nthZ a (Z.to_nat r) else - nthZ a (Z.to_nat r).

Definition monomial_mul' (p : Z) (a : list Z) : list Z :=
  map (fun i => ext' a (Z.of_nat i - p)) (seq 0 (length a)).

Lemma ext'_lo a (i k : nat) : (i <= k)%nat -> (k < length a)%nat ->
  ext' a (Z.of_nat k - Z.of_nat i) = nthZ a (k - i).
Proof.
  intros H1 H2. unfold ext'. cbv zeta.
  rewrite Z.div_small, Z.mod_small by lia. cbn [Z.even].
  f_equal. lia.
Qed.

Lemma ext'_hi a (i k : nat) : (k < i)%nat -> (i < length a)%nat ->
  ext' a (Z.of_nat k - Z.of_nat i) = - nthZ a (length a + k - i).
Proof.
  intros H1 H2. unfold ext'. cbv zeta.
  set (n := Z.of_nat (length a)).
  assert (Hq : (Z.of_nat k - Z.of_nat i) / n = -1).
  { symmetry. apply (Z.div_unique _ _ _ (Z.of_nat k - Z.of_nat i + n)); lia. }
  assert (Hr : (Z.of_nat k - Z.of_nat i) mod n = Z.of_nat k - Z.of_nat i + n).
  { symmetry. apply (Z.mod_unique _ _ (-1)); lia. }
  rewrite Hq, Hr. cbn [Z.even]. do 2 f_equal. lia.
Qed.

Lemma fold_cond_eq (c : nat -> bool) (x y : nat -> Z) l acc :
  fold_left (fun acc i => if c i then acc + x i else acc - y i) l acc =
  fold_left (fun acc i => acc + (if c i then x i else - y i)) l acc.
Proof.
  revert acc; induction l as [|h l IH]; intros acc; cbn [fold_left]; [reflexivity|].
  rewrite IH. f_equal. destruct (c h); lia.
Qed.

Lemma nth_map_seq (f : nat -> Z) n k : (k < n)%nat -> nth k (map f (seq 0 n)) 0 = f k.
Proof.
  intros H. rewrite (nth_indep _ 0 (f 0%nat)) by (rewrite map_length, seq_length; exact H).
  rewrite map_nth, seq_nth by exact H. reflexivity.
Qed.

Theorem pmul_spec (a b : list Z) (k : nat) :
  length b = length a -> (k < length a)%nat ->
  nth k (pmul a b) 0 = zsum (fun i => nthZ a i * ext' b (Z.of_nat k - Z.of_nat i)) (length a).
Proof.
  intros Hl Hk. unfold pmul. cbv zeta.
  rewrite nth_map_seq by exact Hk.
  rewrite (fold_cond_eq (fun i => Nat.leb i k)).
  unfold zsum. 
  assert (G : forall l acc, (forall i, In i l -> (i < length a)%nat) ->
     fold_left (fun acc i => acc + (if Nat.leb i k then nthZ a i * nthZ b (k - i) else - (nthZ a i * nthZ b (length a + k - i)))) l acc
     = fold_left (fun acc i => acc + nthZ a i * ext' b (Z.of_nat k - Z.of_nat i)) l acc).
  { induction l as [|h l IH]; intros acc Hin; cbn [fold_left]; [reflexivity|].
    rewrite IH by (intros; apply Hin; right; assumption). f_equal. f_equal.
    assert (Hh : (h < length a)%nat) by (apply Hin; left; reflexivity).
    destruct (Nat.leb_spec h k).
    - rewrite ext'_lo by lia. reflexivity.
    - rewrite ext'_hi by lia. rewrite Hl. ring. }
  apply G. intros i Hi. apply in_seq in Hi. lia.
Qed.

(* ---------- the structure constants of Z[X]/(X^n+1) ---------- *)
Definition delta (n i j k : nat) : Z :=
  if Nat.eqb (i + j) k then 1 else if Nat.eqb (i + j) (k + n) then -1 else 0.

Lemma delta_comm n i j k : delta n i j k = delta n j i k.
Proof. unfold delta. rewrite (Nat.add_comm i j). reflexivity. Qed.

(* sum over the third index: exactly one non-zero term *)
Lemma delta_sum_k n i j (g : nat -> Z) : (i < n)%nat -> (j < n)%nat ->
  zsum (fun m => delta n i j m * g m) n = if Nat.ltb (i + j) n then g (i + j)%nat else - g (i + j - n)%nat.
Proof.
  intros Hi Hj. destruct (Nat.ltb_spec (i + j) n) as [H|H].
  - rewrite <- (zsum_single g (i + j) n H). apply zsum_ext; intros m Hm. unfold delta.
    destruct (Nat.eqb_spec m (i + j)); destruct (Nat.eqb_spec (i + j) m); try lia.
    destruct (Nat.eqb_spec (i + j) (m + n)); lia.
  - rewrite <- (zsum_single g (i + j - n) n) by lia. rewrite <- zsum_opp.
    apply zsum_ext; intros m Hm. unfold delta.
    destruct (Nat.eqb_spec m (i + j - n)); destruct (Nat.eqb_spec (i + j) m);
      destruct (Nat.eqb_spec (i + j) (m + n)); lia.
Qed.

(* sum over the second index *)
Lemma delta_sum_j n i k (g : nat -> Z) : (i < n)%nat -> (k < n)%nat ->
  zsum (fun j => g j * delta n i j k) n = if Nat.leb i k then g (k - i)%nat else - g (n + k - i)%nat.
Proof.
  intros Hi Hk. destruct (Nat.leb_spec i k) as [H|H].
  - rewrite <- (zsum_single g (k - i) n) by lia. apply zsum_ext; intros j Hj. unfold delta.
    destruct (Nat.eqb_spec j (k - i)); destruct (Nat.eqb_spec (i + j) k);
      destruct (Nat.eqb_spec (i + j) (k + n)); lia.
  - rewrite <- (zsum_single g (n + k - i) n) by lia. rewrite <- zsum_opp.
    apply zsum_ext; intros j Hj. unfold delta.
    destruct (Nat.eqb_spec j (n + k - i)); destruct (Nat.eqb_spec (i + j) k);
      destruct (Nat.eqb_spec (i + j) (k + n)); lia.
Qed.

Lemma ext'_delta b (i k : nat) : (i < length b)%nat -> (k < length b)%nat ->
  ext' b (Z.of_nat k - Z.of_nat i) = zsum (fun j => nthZ b j * delta (length b) i j k) (length b).
Proof.
  intros Hi Hk. rewrite delta_sum_j by assumption.
  destruct (Nat.leb_spec i k); [apply ext'_lo|apply ext'_hi]; lia.
Qed.

Lemma pmul_delta (a b : list Z) (k : nat) : length b = length a -> (k < length a)%nat ->
  nth k (pmul a b) 0 =
  zsum (fun i => zsum (fun j => nthZ a i * nthZ b j * delta (length a) i j k) (length a)) (length a).
Proof.
  intros Hl Hk. rewrite pmul_spec by assumption.
  apply zsum_ext; intros i Hi.
  rewrite ext'_delta by lia. rewrite Hl, <- zsum_mul_l.
  apply zsum_ext; intros j _. ring.
Qed.

(* ---------- list extensionality for coefficient lists ---------- *)
Lemma list_eq_nth (a b : list Z) : length a = length b ->
  (forall k, (k < length a)%nat -> nth k a 0 = nth k b 0) -> a = b.
Proof. intros Hl H. apply (nth_ext a b 0 0 Hl H). Qed.

Lemma map2_length {A B C} (f : A -> B -> C) l1 l2 : length (map2 f l1 l2) = Nat.min (length l1) (length l2).
Proof. unfold map2. rewrite map_length, combine_length. reflexivity. Qed.

Lemma nth_combine (a b : list Z) k : (k < length a)%nat -> (k < length b)%nat ->
  nth k (combine a b) (0, 0) = (nth k a 0, nth k b 0).
Proof.
  revert b k; induction a as [|x a IH]; intros [|y b] [|k] Ha Hb; cbn [length] in *; try lia; cbn [combine nth].
  - reflexivity.
  - apply IH; lia.
Qed.

Lemma nth_map' {A B} (g : A -> B) l k d d' : (k < length l)%nat -> nth k (map g l) d = g (nth k l d').
Proof.
  revert k; induction l as [|x l IH]; intros [|k] H; cbn [length] in H; try lia; cbn [map nth]; [reflexivity|apply IH; lia].
Qed.

Lemma nth_map2 (f : Z -> Z -> Z) (a b : list Z) k : (k < length a)%nat -> (k < length b)%nat ->
  nth k (map2 f a b) 0 = f (nth k a 0) (nth k b 0).
Proof.
  intros Ha Hb. unfold map2.
  rewrite (nth_map' _ _ _ _ (0, 0)) by (rewrite combine_length; lia).
  rewrite nth_combine by assumption. reflexivity.
Qed.

Lemma padd_length a b : length (padd a b) = Nat.min (length a) (length b).
Proof. apply map2_length. Qed.
Lemma psub_length a b : length (psub a b) = Nat.min (length a) (length b).
Proof. apply map2_length. Qed.
Lemma pneg_length a : length (pneg a) = length a.
Proof. apply map_length. Qed.
Lemma pzero_length n : length (pzero n) = n.
Proof. apply repeat_length. Qed.

Lemma nth_padd a b k : length b = length a -> nth k (padd a b) 0 = nth k a 0 + nth k b 0.
Proof.
  intros Hl. destruct (Nat.lt_ge_cases k (length a)) as [H|H].
  - unfold padd. rewrite nth_map2 by lia. reflexivity.
  - rewrite !nth_overflow; [reflexivity|lia|lia|rewrite padd_length; lia].
Qed.
Lemma nth_psub a b k : length b = length a -> nth k (psub a b) 0 = nth k a 0 - nth k b 0.
Proof.
  intros Hl. destruct (Nat.lt_ge_cases k (length a)) as [H|H].
  - unfold psub. rewrite nth_map2 by lia. reflexivity.
  - rewrite !nth_overflow; [reflexivity|lia|lia|rewrite psub_length; lia].
Qed.
Lemma nth_pneg a k : nth k (pneg a) 0 = - nth k a 0.
Proof.
  unfold pneg. destruct (Nat.lt_ge_cases k (length a)) as [H|H].
  - apply nth_map'; exact H.
  - rewrite !nth_overflow; [reflexivity|lia|rewrite map_length; lia].
Qed.
Lemma nth_pzero n k : nth k (pzero n) 0 = 0.
Proof. unfold pzero, zeros. destruct (Nat.lt_ge_cases k n); [apply nth_repeat|apply nth_overflow; rewrite repeat_length; lia]. Qed.

(* ---------- ring laws ---------- *)
Theorem pmul_comm a b : length b = length a -> pmul a b = pmul b a.
Proof.
  intros Hl. apply list_eq_nth; [rewrite !pmul_length; lia|].
  rewrite pmul_length. intros k Hk.
  rewrite !pmul_delta by lia. rewrite Hl, zsum_swap.
  apply zsum_ext; intros i _. apply zsum_ext; intros j _.
  rewrite (delta_comm _ j i). ring.
Qed.

Lemma ext'_padd b c k : length c = length b -> ext' (padd b c) k = ext' b k + ext' c k.
Proof.
  intros Hl. unfold ext'. cbv zeta. rewrite padd_length, Hl, Nat.min_id.
  unfold nthZ. rewrite nth_padd by assumption. destruct (Z.even _); ring.
Qed.
Lemma ext'_psub b c k : length c = length b -> ext' (psub b c) k = ext' b k - ext' c k.
Proof.
  intros Hl. unfold ext'. cbv zeta. rewrite psub_length, Hl, Nat.min_id.
  unfold nthZ. rewrite nth_psub by assumption. destruct (Z.even _); ring.
Qed.
Lemma ext'_pneg b k : ext' (pneg b) k = - ext' b k.
Proof. unfold ext'. cbv zeta. rewrite pneg_length. unfold nthZ. rewrite nth_pneg. destruct (Z.even _); ring. Qed.

Theorem pmul_padd_distr_l a b c : length b = length a -> length c = length a ->
  pmul a (padd b c) = padd (pmul a b) (pmul a c).
Proof.
  intros Hb Hc. apply list_eq_nth; [rewrite padd_length, !pmul_length; lia|].
  rewrite pmul_length. intros k Hk.
  rewrite nth_padd by (rewrite !pmul_length; reflexivity).
  rewrite !pmul_spec by (try rewrite padd_length; lia).
  rewrite <- zsum_add. apply zsum_ext; intros i _. rewrite ext'_padd by lia. ring.
Qed.

Theorem pmul_psub_distr_l a b c : length b = length a -> length c = length a ->
  pmul a (psub b c) = psub (pmul a b) (pmul a c).
Proof.
  intros Hb Hc. apply list_eq_nth; [rewrite psub_length, !pmul_length; lia|].
  rewrite pmul_length. intros k Hk.
  rewrite nth_psub by (rewrite !pmul_length; reflexivity).
  rewrite !pmul_spec by (try rewrite psub_length; lia).
  rewrite <- zsum_sub. apply zsum_ext; intros i _. rewrite ext'_psub by lia. ring.
Qed.

Theorem pmul_padd_distr_r a b c : length b = length a -> length c = length a ->
  pmul (padd a b) c = padd (pmul a c) (pmul b c).
Proof.
  intros Hb Hc.
  rewrite (pmul_comm (padd a b) c) by (rewrite padd_length; lia).
  rewrite pmul_padd_distr_l by lia.
  rewrite (pmul_comm c a), (pmul_comm c b) by lia. reflexivity.
Qed.

Theorem pmul_psub_distr_r a b c : length b = length a -> length c = length a ->
  pmul (psub a b) c = psub (pmul a c) (pmul b c).
Proof.
  intros Hb Hc.
  rewrite (pmul_comm (psub a b) c) by (rewrite psub_length; lia).
  rewrite pmul_psub_distr_l by lia.
  rewrite (pmul_comm c a), (pmul_comm c b) by lia. reflexivity.
Qed.

Theorem pmul_pzero_r a : pmul a (pzero (length a)) = pzero (length a).
Proof.
  apply list_eq_nth; [rewrite pmul_length, pzero_length; reflexivity|].
  rewrite pmul_length. intros k Hk.
  rewrite pmul_spec by (try rewrite pzero_length; lia). rewrite nth_pzero.
  apply zsum_none; intros i _. unfold ext'. cbv zeta. unfold nthZ. rewrite nth_pzero.
  destruct (Z.even _); ring.
Qed.

Theorem pmul_pzero_l a : pmul (pzero (length a)) a = pzero (length a).
Proof. rewrite pmul_comm by (rewrite pzero_length; reflexivity). apply pmul_pzero_r. Qed.

(* X^p as a coefficient list *)
Definition xpow (n p : nat) : list Z := map (fun i => if Nat.eqb i p then 1 else 0) (seq 0 n).
Definition pone (n : nat) : list Z := 1 :: zeros (n - 1).

Lemma xpow_length n p : length (xpow n p) = n.
Proof. unfold xpow. rewrite map_length, seq_length. reflexivity. Qed.

Lemma nth_xpow n p i : (i < n)%nat -> nthZ (xpow n p) i = if Nat.eqb i p then 1 else 0.
Proof. intros H. unfold nthZ, xpow. rewrite nth_map_seq by exact H. reflexivity. Qed.

Theorem pmul_monomial a p : (p < length a)%nat -> pmul (xpow (length a) p) a = monomial_mul' (Z.of_nat p) a.
Proof.
  intros Hp. apply list_eq_nth.
  { rewrite pmul_length, xpow_length. unfold monomial_mul'. rewrite map_length, seq_length. reflexivity. }
  rewrite pmul_length, xpow_length. intros k Hk.
  rewrite pmul_spec by (rewrite xpow_length; lia). rewrite xpow_length.
  unfold monomial_mul'. rewrite nth_map_seq by exact Hk.
  rewrite <- (zsum_single (fun i => ext' a (Z.of_nat k - Z.of_nat i)) p (length a) Hp).
  apply zsum_ext; intros i Hi. rewrite nth_xpow by exact Hi.
  destruct (Nat.eqb i p); ring.
Qed.

Lemma pone_xpow n : (1 <= n)%nat -> pone n = xpow n 0.
Proof.
  intros Hn. apply list_eq_nth.
  { unfold pone, zeros. cbn [length]. rewrite repeat_length, xpow_length. lia. }
  intros k Hk. unfold pone in *. cbn [length] in Hk. unfold zeros in Hk. rewrite repeat_length in Hk.
  fold (nthZ (xpow n 0) k). rewrite nth_xpow by lia.
  destruct k as [|k]; [reflexivity|]. cbn [nth Nat.eqb]. apply nth_pzero.
Qed.

Lemma monomial_mul'_0 a : monomial_mul' 0 a = a.
Proof.
  apply list_eq_nth; [unfold monomial_mul'; rewrite map_length, seq_length; reflexivity|].
  unfold monomial_mul'. rewrite map_length, seq_length. intros k Hk.
  rewrite nth_map_seq by exact Hk.
  replace (Z.of_nat k - 0) with (Z.of_nat k - Z.of_nat 0) by lia.
  rewrite ext'_lo by lia. unfold nthZ. f_equal. lia.
Qed.

Theorem pmul_one_l a : (1 <= length a)%nat -> pmul (pone (length a)) a = a.
Proof.
  intros Hn. rewrite pone_xpow by exact Hn. rewrite (pmul_monomial a 0) by lia. apply monomial_mul'_0.
Qed.

Theorem pmul_one_r a : (1 <= length a)%nat -> pmul a (pone (length a)) = a.
Proof.
  intros Hn. rewrite pmul_comm; [apply pmul_one_l; exact Hn|].
  rewrite pone_xpow by exact Hn. apply xpow_length.
Qed.

Theorem pairwise_identity ai aj bi bj : length aj = length ai -> length bi = length ai -> length bj = length ai ->
  psub (psub (pmul (padd ai aj) (padd bi bj)) (pmul ai bi)) (pmul aj bj) = padd (pmul ai bj) (pmul aj bi).
Proof.
  intros H1 H2 H3.
  rewrite pmul_padd_distr_r by (try rewrite padd_length; lia).
  rewrite !pmul_padd_distr_l by lia.
  apply list_eq_nth.
  { rewrite !psub_length, !padd_length, !pmul_length. lia. }
  intros k _.
  repeat first [ rewrite nth_psub by (rewrite ?psub_length, ?padd_length, ?pmul_length; lia)
               | rewrite nth_padd by (rewrite ?psub_length, ?padd_length, ?pmul_length; lia) ].
  ring.
Qed.

(* ---------- associativity ---------- *)
Lemma zsum_ext2 (f g : nat -> nat -> Z) n m :
  (forall i j, (i < n)%nat -> (j < m)%nat -> f i j = g i j) ->
  zsum (fun i => zsum (fun j => f i j) m) n = zsum (fun i => zsum (fun j => g i j) m) n.
Proof. intros H. apply zsum_ext; intros i Hi. apply zsum_ext; intros j Hj. auto. Qed.

Lemma sum4_rot (F : nat -> nat -> nat -> nat -> Z) n :
  zsum (fun m => zsum (fun l => zsum (fun i => zsum (fun j => F m l i j) n) n) n) n =
  zsum (fun i => zsum (fun j => zsum (fun l => zsum (fun m => F m l i j) n) n) n) n.
Proof.
  rewrite zsum_swap.                                   (* l m i j *)
  rewrite (zsum_ext _ (fun l => zsum (fun i => zsum (fun m => zsum (fun j => F m l i j) n) n) n))
    by (intros; apply zsum_swap).                      (* l i m j *)
  rewrite zsum_swap.                                   (* i l m j *)
  rewrite (zsum_ext _ (fun i => zsum (fun l => zsum (fun j => zsum (fun m => F m l i j) n) n) n))
    by (intros; apply zsum_ext; intros; apply zsum_swap).   (* i l j m *)
  apply zsum_ext; intros i _. apply zsum_swap.         (* i j l m *)
Qed.

Lemma sum3_rot (F : nat -> nat -> nat -> Z) n :
  zsum (fun m => zsum (fun j => zsum (fun l => F m j l) n) n) n =
  zsum (fun j => zsum (fun l => zsum (fun m => F m j l) n) n) n.
Proof.
  rewrite zsum_swap. apply zsum_ext; intros j _. apply zsum_swap.
Qed.

Lemma delta_assoc n i j l k : (i < n)%nat -> (j < n)%nat -> (l < n)%nat -> (k < n)%nat ->
  zsum (fun m => delta n i j m * delta n m l k) n = zsum (fun m => delta n j l m * delta n i m k) n.
Proof.
  intros Hi Hj Hl Hk.
  rewrite (delta_sum_k n i j (fun m => delta n m l k)) by assumption.
  rewrite (delta_sum_k n j l (fun m => delta n i m k)) by assumption.
  unfold delta.
  destruct (Nat.ltb_spec (i + j) n); destruct (Nat.ltb_spec (j + l) n);
  repeat match goal with |- context [Nat.eqb ?x ?y] => destruct (Nat.eqb_spec x y) end; lia.
Qed.

Theorem pmul_assoc a b c : length b = length a -> length c = length a ->
  pmul (pmul a b) c = pmul a (pmul b c).
Proof.
  intros Hb Hc. set (n := length a).
  apply list_eq_nth; [rewrite !pmul_length; reflexivity|].
  rewrite !pmul_length. fold n. intros k Hk.
  rewrite (pmul_delta (pmul a b) c) by (rewrite ?pmul_length; lia).
  rewrite (pmul_delta a (pmul b c)) by (rewrite ?pmul_length; lia).
  rewrite pmul_length. fold n.
  (* left: sum_m sum_l (ab)_m c_l d(m,l,k) *)
  transitivity (zsum (fun i => zsum (fun j => zsum (fun l => zsum (fun m =>
       nthZ a i * nthZ b j * nthZ c l * (delta n i j m * delta n m l k)) n) n) n) n).
  - rewrite <- (sum4_rot (fun m l i j => nthZ a i * nthZ b j * nthZ c l * (delta n i j m * delta n m l k))).
    apply zsum_ext2; intros m l Hm Hl.
    change (nthZ (pmul a b) m) with (nth m (pmul a b) 0). rewrite (pmul_delta a b m) by (fold n; lia). fold n.
    rewrite <- !zsum_mul_r. apply zsum_ext; intros i _.
    rewrite <- !zsum_mul_r. apply zsum_ext; intros j _. ring.
  - transitivity (zsum (fun i => zsum (fun j => zsum (fun l => zsum (fun m =>
       nthZ a i * nthZ b j * nthZ c l * (delta n j l m * delta n i m k)) n) n) n) n).
    + apply zsum_ext; intros i Hi. apply zsum_ext; intros j Hj. apply zsum_ext; intros l Hl.
      rewrite !zsum_mul_l. f_equal. apply delta_assoc; assumption.
    + apply zsum_ext; intros i Hi.
      rewrite <- (sum3_rot (fun m j l => nthZ a i * nthZ b j * nthZ c l * (delta n j l m * delta n i m k))).
      apply zsum_ext; intros m Hm.
      change (nthZ (pmul b c) m) with (nth m (pmul b c) 0). rewrite (pmul_delta b c m) by (rewrite Hb; fold n; lia). rewrite Hb. fold n.
      rewrite <- zsum_mul_l, <- zsum_mul_r. apply zsum_ext; intros j _.
      rewrite <- zsum_mul_l, <- zsum_mul_r. apply zsum_ext; intros l _. ring.
Qed.
