(* C05 — relinearisation: phase of Model/C05Relin.glwe_relinearize derived from the C03 key-switch phase theorems (read-only import). *)
From PV Require Import Base.MachineInt Model.Znx Model.Limbs Model.Flat Model.Ring Model.Poly Model.DftAbs Model.Gadget Model.GadgetSpec
  Model.C05Relin.
From PV Require Import Proofs.C07Dft Proofs.C07Ring Proofs.GadgetDecomp Proofs.GadgetPhase Proofs.GadgetBound Proofs.C03Phase Proofs.GadgetNorm.
Open Scope Z_scope.

Lemma nth_skipn' {X} (l : list X) c i d : nth i (skipn c l) d = nth (c + i) l d.
Proof. revert l; induction c as [|c IH]; intros l; [reflexivity|]. destruct l as [|x l]; [destruct i; reflexivity|]. cbn [skipn Nat.add nth]. apply IH. Qed.
Lemma nth_firstn_lt' {X} (l : list X) c i d : (i < c)%nat -> nth i (firstn c l) d = nth i l d.
Proof.
  revert l i; induction c as [|c IH]; intros l i H; [lia|]. destruct l as [|x l]; [reflexivity|].
  destruct i as [|i]; cbn [firstn nth]; [reflexivity|]. apply IH. lia.
Qed.

Lemma wf_skipn n c p a_size (T : cols_t) : wf_cols n (c + p) a_size T -> wf_cols n p a_size (skipn c T).
Proof.
  intros [Hl Hc]. split; [rewrite skipn_length; lia|].
  intros ci Hci. unfold col. rewrite nth_skipn'. apply (Hc (c + ci)%nat). lia.
Qed.

Lemma acol_skipn n c (T : cols_t) ci l : acol n (skipn c T) ci l = acol n T (c + ci) l.
Proof. unfold acol, col. rewrite nth_skipn'. reflexivity. Qed.

Section RelinInternal.
Variables (P b : Z) (n pairs cols msize a_size dsize dnum : nat).
Variable T : cols_t.                       (* the tensor in the key's radix: cols columns (1, s_i) then pairs columns (s_i s_j) *)
Variable K : pmat.
Variable Sk : nat -> list Z.               (* target secret family (1, s_1, ..) *)
Variables (s_in : nat -> list Z) (e I : nat -> nat -> list Z).   (* what the key rows encrypt: s_in p = s_i s_j *)
Hypothesis HT : wf_cols n (cols + pairs) a_size T.
Hypothesis HK : wf_pmat_in n (dnum * pairs) (msize * cols) K.
Hypothesis Hd : (1 <= dsize)%nat.
Hypothesis Hdrop : (dsize - 2 <= msize)%nat.
Hypothesis HS : forall co, length (Sk co) = n.
Hypothesis Hsin : forall ci, length (s_in ci) = n.
Hypothesis He : forall row ci, length (e row ci) = n.
Hypothesis HI : forall row ci, length (I row ci) = n.
Hypothesis Hb : 0 <= b.
Hypothesis HP : Z.of_nat msize * b <= P.
Hypothesis HP2 : Z.of_nat dnum * Z.of_nat dsize * b <= P.
(* keyswitch_phase's hypothesis on the tensor key: row r, input column p is a GLWE under Sk with phase 2^(P-(r+1) dsize b) s_in p + e + 2^P I *)
Hypothesis key_row : key_rows_ok P b n pairs cols msize dsize dnum K Sk s_in e I.

Theorem relinearize_internal_phase :
  exists big, relinearize_internal n cols T a_size dsize dnum msize K = Some big /\
    wf_cols n cols msize big /\
    phase_f P b n cols msize (limbs_of big) Sk
    = padd (padd (padd (psumf n (fun co => pmul (pval P b n (acol n T co) (Nat.min msize a_size)) (Sk co)) cols)
                       (psumf n (fun ci => pmul (pval_used P b n a_size dsize dnum (acol n (skipn cols T)) ci) (s_in ci)) pairs))
                 (gadget_err P b n pairs cols msize dsize dnum (acol n (skipn cols T)) K Sk e))
           (pscale (2 ^ P) (gadget_int b n pairs cols msize dsize dnum (acol n (skipn cols T)) K Sk I)).
Proof.
  pose proof (wf_skipn n cols pairs a_size T HT) as Ha.
  destruct (C03_keyswitch_phase_lemma P b n pairs cols msize a_size dsize dnum (skipn cols T) (zcols n cols msize) K Sk s_in e I
              Ha HK Hd Hdrop HS Hsin He HI Hb HP HP2 key_row) as [res [E1 [E2 E3]]].
  unfold relinearize_internal. rewrite E1. eexists; split; [reflexivity|].
  destruct E2 as [Lr Cr]. destruct HT as [LT CT].
  pose proof (acol_length n (cols + pairs) a_size T (conj LT CT)) as LB.
  pose proof (acol_zero n (cols + pairs) a_size T (conj LT CT)) as ZB.
  assert (Lf : length (firstn cols T) = cols) by (rewrite firstn_length; lia).
  (* limb j of column co of the accumulator *)
  assert (Hlimb : forall co j, (co < cols)%nat -> (j < msize)%nat ->
            lim (col (map2 add_small res (firstn cols T)) co) j = padd (lim (col res co) j) (acol n T co j)).
  { intros co j Hco Hj. rewrite (col_map2 add_small res (firstn cols T) [] [] co) by lia.
    change (nth co res []) with (col res co). destruct (Cr co Hco) as [Lc Ll].
    unfold add_small. rewrite Lc, lim_mk' by exact Hj.
    assert (Ef : nth co (firstn cols T) [] = col T co) by (unfold col; apply nth_firstn_lt'; exact Hco).
    rewrite Ef. destruct (CT co ltac:(lia)) as [LcT _]. rewrite LcT.
    unfold acol, limz. rewrite LcT. destruct (Nat.ltb_spec j a_size); [reflexivity|].
    symmetry. apply padd_pzero_r. apply Ll; exact Hj. }
  assert (Wbig : wf_cols n cols msize (map2 add_small res (firstn cols T))).
  { split; [rewrite map2_length; lia|]. intros co Hco. split.
    - rewrite (col_map2 add_small res (firstn cols T) [] [] co) by lia. unfold add_small. rewrite mk_length.
      apply (Cr co Hco).
    - intros l Hl. rewrite Hlimb by assumption. apply padd_len; [apply (Cr co Hco); exact Hl|apply LB]. }
  split; [exact Wbig|].
  rewrite !padd_assoc. rewrite !padd_assoc in E3. rewrite <- E3. clear E3.
  unfold phase_f. rewrite <- psumf_padd. apply psumf_ext. intros co Hco.
  assert (Ev : pval P b n (limbs_of (map2 add_small res (firstn cols T)) co) msize
               = padd (pval P b n (limbs_of res co) msize) (pval P b n (acol n T co) (Nat.min msize a_size))).
  { rewrite <- (pval_cut P b n (acol n T co) (Nat.min msize a_size) msize) by (try apply LB; try lia; intros; apply ZB; lia).
    rewrite <- pval_padd. unfold pval. apply psumf_ext; intros j Hj. f_equal. unfold limbs_of. apply Hlimb; assumption. }
  rewrite Ev.
  assert (L1 : length (pval P b n (limbs_of res co) msize) = n).
  { apply pval_length. intros j Hj. unfold limbs_of. apply (Cr co Hco); exact Hj. }
  assert (L2 : length (pval P b n (acol n T co) (Nat.min msize a_size)) = n) by (apply pval_length; intros; apply LB).
  rewrite pmul_padd_distr_r by (rewrite ?L1, ?L2, ?HS; reflexivity).
  apply padd_comm.
Qed.
End RelinInternal.

(* ---------------------------------------------------------------------------------------------------------------- *)
(* C05Relin.glwe_relinearize, tensor radix = key radix = b, output radix rb.  normalize_value_ok of the columns of the big result is a
   named Section hypothesis (as in C03Final); discharged for the FFT64 family with rb = b below. *)
Section RelinFinal.
Variables (be : Z) (P b rb : Z) (n pairs msize a_size res_size dsize dnum : nat).
Variable T : cols_t.
Variable K : pmat.
Variable sk : list (list Z).
Variables (s_in : nat -> list Z) (e I : nat -> nat -> list Z).
Variable Sb : Z.
Let rank := length sk.
Let cols := S rank.
Let Sk := sk_ext n sk.
Hypothesis HT : wf_cols n (cols + pairs) a_size T.
Hypothesis HK : wf_pmat_in n (dnum * pairs) (msize * cols) K.
Hypothesis Hn : (1 <= n)%nat.
Hypothesis Hd : (1 <= dsize)%nat.
Hypothesis Hdrop : (dsize - 2 <= msize)%nat.
Hypothesis Hsk : forall s, In s sk -> length s = n.
Hypothesis HSb : forall s, In s sk -> pnorm s <= Sb.
Hypothesis Hsin : forall ci, length (s_in ci) = n.
Hypothesis He : forall row ci, length (e row ci) = n.
Hypothesis HI : forall row ci, length (I row ci) = n.
Hypothesis Hb : 0 <= b.
Hypothesis HP : Z.of_nat msize * b <= P.
Hypothesis HP2 : Z.of_nat dnum * Z.of_nat dsize * b <= P.
Hypothesis keyswitch_phase : key_rows_ok P b n pairs cols msize dsize dnum K Sk s_in e I.
Hypothesis normalize_value_ok_cols : forall big,
  relinearize_internal n cols T a_size dsize dnum msize K = Some big ->
  forall co, (co < cols)%nat -> normalize_value_ok (wbig be) P n rb b res_size (col big co).

Theorem relinearize_phase_final :
  exists res R Itot,
    glwe_relinearize be n b b rb rank a_size res_size dsize dnum msize T K = Some res /\
    wf_cols n cols res_size res /\ length R = n /\ length Itot = n /\
    phase_val P rb n sk res
    = padd (padd (padd (padd (psumf n (fun co => pmul (pval P b n (acol n T co) (Nat.min msize a_size)) (Sk co)) cols)
                             (psumf n (fun ci => pmul (pval_used P b n a_size dsize dnum (acol n (skipn cols T)) ci) (s_in ci)) pairs))
                       (gadget_err P b n pairs cols msize dsize dnum (acol n (skipn cols T)) K Sk e))
                 R)
           (pscale (2 ^ P) Itot) /\
    pnorm R <= (1 + Z.of_nat rank * Z.of_nat n * Sb) * 2 ^ (P - Z.of_nat res_size * rb).
Proof.
  pose proof (sk_ext_length n sk Hn Hsk) as HS.
  destruct (relinearize_internal_phase P b n pairs cols msize a_size dsize dnum T K Sk s_in e I
              HT HK Hd Hdrop HS Hsin He HI Hb HP HP2 keyswitch_phase) as [big [E1 [E2 E3]]].
  destruct (normalize_cols_phase (wbig be) P n rb b res_size msize sk Sb big Hn E2 Hsk HSb (normalize_value_ok_cols big E1))
    as (res & R & I' & F1 & F2 & F3 & F4 & F5 & F6).
  pose proof (wf_skipn n cols pairs a_size T HT) as Ha.
  pose proof (acol_length n pairs a_size (skipn cols T) Ha) as LA.
  pose proof (acol_length n (cols + pairs) a_size T HT) as LB.
  set (Iq := gadget_int b n pairs cols msize dsize dnum (acol n (skipn cols T)) K Sk I) in *.
  exists res, R, (padd Iq I').
  assert (LIq : length Iq = n) by (apply gadget_int_length; intros; apply LA).
  split.
  { unfold glwe_relinearize, pre_normalize. rewrite Z.eqb_refl. fold rank cols. rewrite E1. exact F1. }
  split; [exact F2|]. split; [exact F3|]. split; [apply padd_len; assumption|]. split; [|exact F6].
  rewrite F5.
  rewrite (phase_val_phase_f P b n sk big msize Hn E2) by (intros; apply Hsk, nth_In; assumption).
  fold rank cols Sk. rewrite E3.
  apply (regroup_int n); try assumption.
  apply padd_len; [apply padd_len|apply gadget_err_length; assumption].
  - apply psumf_length. intros co _. rewrite pmul_length. apply pval_length; intros; apply LB.
  - apply psumf_length. intros ci _. rewrite pmul_length. unfold pval_used. apply pval_length; intros; apply LA.
Qed.
End RelinFinal.

(* FFT64 family, one radix: the normalisation hypothesis discharged by C08 (through C03's big_normalize_value_fft64);
   what remains is the magnitude domain of the i64 accumulator *)
Section RelinFinalFft64.
Variables (be : Z) (P b : Z) (n pairs msize a_size res_size dsize dnum : nat).
Variable T : cols_t.
Variable K : pmat.
Variable sk : list (list Z).
Variables (s_in : nat -> list Z) (e I : nat -> nat -> list Z).
Variable Sb : Z.
Let rank := length sk.
Let cols := S rank.
Let Sk := sk_ext n sk.
Hypothesis Hbe : be <= 2.
Hypothesis HT : wf_cols n (cols + pairs) a_size T.
Hypothesis HK : wf_pmat_in n (dnum * pairs) (msize * cols) K.
Hypothesis Hn : (1 <= n)%nat.
Hypothesis Hd : (1 <= dsize)%nat.
Hypothesis Hdrop : (dsize - 2 <= msize)%nat.
Hypothesis Hsk : forall s, In s sk -> length s = n.
Hypothesis HSb : forall s, In s sk -> pnorm s <= Sb.
Hypothesis Hsin : forall ci, length (s_in ci) = n.
Hypothesis He : forall row ci, length (e row ci) = n.
Hypothesis HI : forall row ci, length (I row ci) = n.
Hypothesis Hb : 1 <= b <= 62.
Hypothesis HP : (Z.of_nat res_size + Z.of_nat msize) * b <= P.
Hypothesis HP2 : Z.of_nat dnum * Z.of_nat dsize * b <= P.
Hypothesis keyswitch_phase : key_rows_ok P b n pairs cols msize dsize dnum K Sk s_in e I.
Hypothesis big_in_domain : forall big,
  relinearize_internal n cols T a_size dsize dnum msize K = Some big ->
  forall co j k, Z.abs (nth k (lim (col big co) j) 0) <= 2 ^ 62.

Theorem relinearize_phase_final_fft64 :
  exists res R Itot,
    glwe_relinearize be n b b b rank a_size res_size dsize dnum msize T K = Some res /\
    wf_cols n cols res_size res /\ length R = n /\ length Itot = n /\
    phase_val P b n sk res
    = padd (padd (padd (padd (psumf n (fun co => pmul (pval P b n (acol n T co) (Nat.min msize a_size)) (Sk co)) cols)
                             (psumf n (fun ci => pmul (pval_used P b n a_size dsize dnum (acol n (skipn cols T)) ci) (s_in ci)) pairs))
                       (gadget_err P b n pairs cols msize dsize dnum (acol n (skipn cols T)) K Sk e))
                 R)
           (pscale (2 ^ P) Itot) /\
    pnorm R <= (1 + Z.of_nat rank * Z.of_nat n * Sb) * 2 ^ (P - Z.of_nat res_size * b).
Proof.
  assert (HPm : Z.of_nat msize * b <= P) by nia.
  apply (relinearize_phase_final be P b b n pairs msize a_size res_size dsize dnum T K sk s_in e I Sb); try assumption; try lia.
  intros big Ebig co Hco.
  pose proof (sk_ext_length n sk Hn Hsk) as HS.
  destruct (relinearize_internal_phase P b n pairs cols msize a_size dsize dnum T K Sk s_in e I
              HT HK Hd Hdrop HS Hsin He HI ltac:(lia) HPm HP2 keyswitch_phase) as [big' [E1 [E2 _]]].
  assert (Eb : Some big = Some big') by (rewrite <- Ebig, <- E1; reflexivity). injection Eb as <-.
  destruct E2 as [_ Hc]. destruct (Hc co Hco) as [Lc Wc].
  assert (Ew : wbig be = 64) by (unfold wbig; destruct (Z.leb_spec be 2); [reflexivity|lia]).
  rewrite Ew. apply big_normalize_value_fft64; try assumption.
  - rewrite Lc. exact Wc.
  - apply (big_in_domain big Ebig).
  - rewrite Lc. exact HP.
Qed.
End RelinFinalFft64.

(* explicit envelope of the relinearisation error for dsize <= 2 (no dropped key limbs): the gadget bound of C03 *)
Theorem relinearize_noise_bound (P b : Z) (n pairs cols msize a_size dsize dnum : nat) (T : cols_t) (K : pmat) (Sk : nat -> list Z)
        (e : nat -> nat -> list Z) (D B : Z) :
  wf_cols n (cols + pairs) a_size T -> (forall co, length (Sk co) = n) -> (forall row ci, length (e row ci) = n) ->
  (dsize <= 2)%nat -> 0 <= B ->
  (forall ci l, pnorm (acol n (skipn cols T) ci l) <= D) -> (forall row ci, pnorm (e row ci) <= B) ->
  pnorm (gadget_err P b n pairs cols msize dsize dnum (acol n (skipn cols T)) K Sk e)
  <= Z.of_nat dnum * Z.of_nat pairs * Z.of_nat n * (D * zsum (fun t => 2 ^ (Z.of_nat t * b)) dsize) * B.
Proof.
  intros HT HS He Hds HB HD HE.
  pose proof (acol_length n pairs a_size (skipn cols T) (wf_skipn n cols pairs a_size T HT)) as LA.
  rewrite gadget_err_small by assumption. unfold gadget_noise.
  apply C03_keyswitch_bound; assumption.
Qed.
