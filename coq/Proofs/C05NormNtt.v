(* C05 — the counterpart of Proofs/C05Norm.v for the NTT120 family (i128 accumulator, LimbsBig.normalize_big 128, equal radices):
   nrm_shape / nrm_no_overflow / normalize_value_ok discharged from C08's width-128 theorem normalize_inter_value_128
   (Proofs/C08WNormalize.v, read-only import); accumulator entries within 2^126. *)
From PV Require Import Base.MachineInt Model.Znx Model.Limbs Model.LimbsBig Model.Flat Model.Ring Model.DftAbs
  Model.C05Cnv Model.C05Spec Model.C05Core Model.C08Oracle.
From PV Require Import Proofs.C07Dft Proofs.C07Ring Proofs.C05Cnv Proofs.C05Core Proofs.C05Norm.
From PV Require Import Proofs.C08Chain Proofs.C08Value Proofs.C08Normalize Proofs.C08WNormalize.
Open Scope Z_scope.

Definition nrm128 (n rsz : nat) (b lo : Z) : plimbs -> limbs := big_nrm false n rsz b b lo.
Definition dom126 (D : plimbs) : Prop := forall u c, Z.abs (nth c (lim D u) 0) <= 2 ^ 126.

Lemma dom126_coefcol D c : dom126 D -> Forall (fun x => Z.abs x <= 2 ^ 126) (coefcol c D).
Proof.
  intros H. apply Forall_forall. intros x Hx. unfold coefcol in Hx. apply in_map_iff in Hx. destruct Hx as (l & <- & Hl).
  destruct (In_nth _ _ [] Hl) as (u & Hu & E). specialize (H u c). unfold lim in H. rewrite E in H. exact H.
Qed.

Lemma nrm128_coeff n rsz b lo D u c : 1 <= b <= 62 -> dom126 D -> (c < n)%nat -> (u < rsz)%nat ->
  nth c (lim (nrm128 n rsz b lo D) u) 0 = nthZ (normalize_inter_c 128 128 b lo (coefcol c D) (zeros rsz)) u.
Proof.
  intros Hb Hd Hc Hu. unfold nrm128, big_nrm, lift_coeff.
  set (R := mk rsz (fun _ => pzero n)).
  rewrite (map_ext _ (fun p : list Z * list Z => Some (map (wrap 64) (normalize_inter_c 128 128 b lo (fst p) (snd p))))).
  2:{ intros p. unfold normalize_big. rewrite Z.eqb_refl. reflexivity. }
  rewrite sequence_map_some.
  match goal with |- context [untranspose rsz ?cs] => change (untranspose rsz cs) with (mk rsz (fun j => map (fun cf => nthZ cf j) cs)) end.
  rewrite lim_mk' by exact Hu.
  assert (Lc : length (combine (transpose n D) (transpose n R)) = n) by (rewrite combine_length, !transpose_length; apply Nat.min_id).
  rewrite (nth_map' _ _ _ _ []) by (rewrite map_length, Lc; exact Hc).
  rewrite (nth_map' _ _ _ _ ([], [])) by (rewrite Lc; exact Hc).
  rewrite nth_combine_gen by (rewrite transpose_length; exact Hc). cbn [fst snd].
  rewrite !nth_transpose by exact Hc.
  destruct (normalize_inter_value_128 b lo (coefcol c D) (coefcol c R) ltac:(lia) (dom126_coefcol D c Hd)) as (L & Bd & E & _).
  assert (LR : length (coefcol c R) = rsz) by (unfold coefcol, R; rewrite map_length; apply mk_len).
  rewrite LR in E. rewrite E in Bd |- *.
  set (out := normalize_inter_c 128 128 b lo (coefcol c D) (zeros rsz)) in *.
  rewrite (map_ext_in _ (fun x => x)), map_id; [reflexivity|].
  intros x Hx. rewrite Forall_forall in Bd. specialize (Bd x Hx). apply wrap_id; [lia|].
  unfold in_range in *. assert (2 ^ (b - 1) <= 2 ^ (64 - 1)) by (apply Z.pow_le_mono_r; lia). lia.
Qed.

Section DischargeNtt.
Variables (n rsz dsz : nat) (P b lo : Z).
Hypothesis Hb : 1 <= b <= 62.
Hypothesis HP : zn rsz * b + zn dsz * b + Z.abs lo <= P.

Let nrm := nrm128 n rsz b lo.
Definition xy128 (D : plimbs) (c : nat) : Z := nth c (pval n P b (nrm D)) 0 - nth c (pval n (P + lo) b D) 0.
Definition eps128 (D : plimbs) : list Z := map (fun c => wrap P (xy128 D c)) (seq 0 n).
Definition kap128 (D : plimbs) : list Z := map (fun c => (xy128 D c + 2 ^ (P - 1)) / 2 ^ P) (seq 0 n).

Lemma nrm128_shape D : shaped n rsz (nrm D).
Proof. apply big_nrm_shape_same_radix. Qed.

Lemma out_facts D c : dom126 D -> length D = dsz ->
  let out := normalize_inter_c 128 128 b lo (coefcol c D) (zeros rsz) in
  length out = rsz /\ Forall (in_range b) out /\
  tor_abs P (val_scaled P b out - val_scaled (P + lo) b (coefcol c D)) <= 2 ^ (P - zn rsz * b).
Proof.
  intros Hd HL out.
  destruct (normalize_inter_value_128 b lo (coefcol c D) (zeros rsz) ltac:(lia) (dom126_coefcol D c Hd)) as (L & Bd & _ & V).
  assert (Lz : length (zeros rsz) = rsz) by (unfold zeros; apply repeat_length).
  rewrite Lz in L, V. split; [exact L|]. split; [exact Bd|].
  apply V. unfold coefcol. rewrite map_length, HL. exact HP.
Qed.

Lemma nrm128_no_overflow D : wfl n D -> length D = dsz -> dom126 D -> forall u c, Z.abs (nth c (lim (nrm D) u) 0) <= 2 ^ 61.
Proof.
  intros _ HL Hd u c. destruct (nrm128_shape D) as [Ls Ss].
  destruct (Nat.lt_ge_cases u rsz) as [Hu|Hu].
  - destruct (Nat.lt_ge_cases c n) as [Hc|Hc].
    + unfold nrm. rewrite nrm128_coeff by assumption.
      destruct (out_facts D c Hd HL) as (L & Bd & _). rewrite Forall_forall in Bd.
      assert (Hin : In (nthZ (normalize_inter_c 128 128 b lo (coefcol c D) (zeros rsz)) u) (normalize_inter_c 128 128 b lo (coefcol c D) (zeros rsz)))
        by (apply nth_In; rewrite L; exact Hu).
      specialize (Bd _ Hin). unfold in_range in Bd.
      assert (2 ^ (b - 1) <= 2 ^ 61) by (apply Z.pow_le_mono_r; lia). lia.
    + rewrite nth_overflow by (change (lim ?l u) with (lnth l u); rewrite Ss by exact Hu; exact Hc). cbn [Z.abs]. lia.
  - unfold lim. rewrite (nth_overflow (nrm D)) by (rewrite Ls; exact Hu). destruct c; cbn; lia.
Qed.

Lemma cval_nrm128 D c : dom126 D -> (c < n)%nat ->
  cval P b c (nrm D) = val_scaled P b (normalize_inter_c 128 128 b lo (coefcol c D) (zeros rsz)).
Proof.
  intros Hd Hc. destruct (nrm128_shape D) as [Ls _].
  destruct (normalize_inter_value_128 b lo (coefcol c D) (zeros rsz) ltac:(lia) (dom126_coefcol D c Hd)) as (L & _).
  assert (Lz : length (zeros rsz) = rsz) by (unfold zeros; apply repeat_length). rewrite Lz in L.
  rewrite val_scaled_sumn, sumn_zsum, L. unfold cval. rewrite Ls.
  apply zsum_ext; intros u Hu. unfold nrm. rewrite nrm128_coeff by assumption. unfold wt. ring.
Qed.

(* normalize_value_ok for the FFT64 normaliser with equal radices, from C08_normalize_inter_value *)
Theorem normalize_value_ok_ntt120 D : wfl n D -> length D = dsz -> dom126 D ->
  length (eps128 D) = n /\ length (kap128 D) = n /\
  pval n P b (nrm D) = padd (padd (pval n (P + lo) b D) (eps128 D)) (pscale (2 ^ P) (kap128 D)) /\
  forall c, Z.abs (nth c (eps128 D) 0) <= 2 ^ (P - zn rsz * b).
Proof.
  intros w HL Hd.
  assert (Le : length (eps128 D) = n) by (unfold eps128; rewrite map_length, seq_length; reflexivity).
  assert (Lk : length (kap128 D) = n) by (unfold kap128; rewrite map_length, seq_length; reflexivity).
  assert (Lx : length (pval n P b (nrm D)) = n) by (apply pval_length; eapply shaped_wfl; apply nrm128_shape).
  assert (Ly : length (pval n (P + lo) b D) = n) by (apply pval_length; exact w).
  assert (P0 : 0 <= P) by (unfold zn in HP; nia).
  split; [exact Le|]. split; [exact Lk|]. split.
  - apply list_eq_nth; [rewrite !padd_length, pscale_length', Lx, Ly, Le, Lk; lia|].
    rewrite Lx. intros c Hc. unfold nthZ.
    rewrite !nth_padd by (rewrite ?padd_length, ?pscale_length'; lia). rewrite nth_pscale.
    unfold eps128, kap128. rewrite !nth_map_seq by exact Hc.
    pose proof (pow2_pos P P0) as Hp.
    unfold wrap. pose proof (Z.div_mod (xy128 D c + 2 ^ (P - 1)) (2 ^ P) ltac:(lia)) as E.
    unfold xy128 in *. lia.
  - intros c. destruct (Nat.lt_ge_cases c n) as [Hc|Hc].
    + unfold eps128. rewrite nth_map_seq by exact Hc. unfold xy128.
      rewrite !nth_pval by (try exact w; eapply shaped_wfl; apply nrm128_shape).
      rewrite cval_nrm128 by assumption. rewrite <- val_scaled_cval.
      destruct (out_facts D c Hd HL) as (_ & _ & V). exact V.
    + rewrite nth_overflow by (rewrite Le; exact Hc). cbn [Z.abs]. apply Z.pow_nonneg. lia.
Qed.
End DischargeNtt.

(* ---------- closed forms: NTT120 family, equal radices, no hypothesis on the normaliser left ---------- *)
Theorem tensor_phase_ntt120 :
  forall (n rsz dsz hi cols asz bsz : nat) (P b lo : Z) (A B : list plimbs) (sigma : nat * nat -> list Z),
  1 <= b <= 62 -> zn rsz * b + zn dsz * b + Z.abs lo <= P ->
  (forall i, (i < cols)%nat -> wfl n (colsel A i) /\ length (colsel A i) = asz) ->
  (forall i, (i < cols)%nat -> wfl n (colsel B i) /\ length (colsel B i) = bsz) ->
  (1 <= asz)%nat -> (1 <= bsz)%nat ->
  (forall i, (i < cols)%nat -> dom126 (Cn false n dsz hi A B i i)) ->
  (forall i j, (i < cols)%nat -> (j < cols)%nat -> i <> j -> dom126 (Pw false n dsz hi A B i j)) ->
  (forall ij, length (sigma ij) = n) ->
  forall res0 : list (list (list Z)), length res0 = length (tpairs cols) -> (forall r, In r res0 -> length r = rsz) ->
  phase n P b (tensor_gen (cell_apply false n (big_nrm false n rsz b b lo) dsz hi A B) cols res0) (map sigma (tpairs cols)) =
  padd (padd (plsum n (map (fun ij => pmul (Gm false n dsz hi P b lo A B ij) (sigma ij)) (tpairs cols)))
             (plsum n (map (fun ij => pmul (Em false n dsz hi (eps128 n rsz P b lo) A B ij) (sigma ij)) (tpairs cols))))
       (pscale (2 ^ P) (plsum n (map (fun ij => pmul (Km false n dsz hi (kap128 n rsz P b lo) A B ij) (sigma ij)) (tpairs cols))))
  /\ forall ij c, (fst ij < cols)%nat -> (snd ij < cols)%nat ->
     Z.abs (nth c (Em false n dsz hi (eps128 n rsz P b lo) A B ij) 0) <= (if Nat.eqb (fst ij) (snd ij) then 1 else 3) * 2 ^ (P - zn rsz * b).
Proof.
  intros n rsz dsz hi cols asz bsz P b lo A B sigma Hb HP HA HB Ha Hbz Hd1 Hd2 Hs res0 HL Hr.
  pose proof (fun D => nrm128_shape n rsz b lo D) as S1.
  pose proof (nrm128_no_overflow n rsz dsz P b lo Hb HP) as S2.
  pose proof (normalize_value_ok_ntt120 n rsz dsz P b lo Hb HP) as S3.
  split.
  - exact (tensor_phase false n rsz dsz hi cols asz bsz P b b lo (nrm128 n rsz b lo) (eps128 n rsz P b lo) (kap128 n rsz P b lo)
             dom126 A B sigma S1 S2 S3 HA HB Ha Hbz Hd1 Hd2 Hs res0 HL Hr).
  - intros ij c H1 H2.
    exact (Em_bound false n rsz dsz hi cols asz bsz P b b lo (nrm128 n rsz b lo) (eps128 n rsz P b lo) (kap128 n rsz P b lo)
             dom126 A B sigma S3 HA HB Ha Hbz Hd1 Hd2 Hs ij c H1 H2).
Qed.

Theorem mul_plain_phase_ntt120 :
  forall (n rsz dsz hi : nat) (P b lo : Z) (B : plimbs) (A : list plimbs) (key : list (list Z)),
  1 <= b <= 62 -> zn rsz * b + zn dsz * b + Z.abs lo <= P ->
  wfl n B -> (1 <= length B)%nat ->
  (forall a, In a A -> wfl n a /\ (1 <= length a)%nat /\ dom126 (cnv_apply false n dsz hi a B)) -> (forall k, In k key -> length k = n) ->
  let Cf := fun a => cnv_apply false n dsz hi a B in
  phase n P b (map (fun a => big_nrm false n rsz b b lo (Cf a)) A) key =
  padd (padd (plsum n (map (fun q => pmul (pval n (P + lo) b (Cf (fst q))) (snd q)) (combine A key)))
             (plsum n (map (fun q => pmul (eps128 n rsz P b lo (Cf (fst q))) (snd q)) (combine A key))))
       (pscale (2 ^ P) (plsum n (map (fun q => pmul (kap128 n rsz P b lo (Cf (fst q))) (snd q)) (combine A key))))
  /\ forall a c, In a A -> Z.abs (nth c (eps128 n rsz P b lo (Cf a)) 0) <= 2 ^ (P - zn rsz * b).
Proof.
  intros n rsz dsz hi P b lo B A key Hb HP wB LB HA Hk Cf.
  pose proof (fun D => nrm128_shape n rsz b lo D) as S1.
  pose proof (normalize_value_ok_ntt120 n rsz dsz P b lo Hb HP) as S3.
  split.
  - exact (mul_plain_phase false n rsz dsz hi P b b lo (nrm128 n rsz b lo) (eps128 n rsz P b lo) (kap128 n rsz P b lo) dom126 B
             S1 S3 wB LB A key HA Hk).
  - intros a c Ha. destruct (HA a Ha) as (wa & La & da).
    apply (S3 (Cf a)); [apply cnv_apply_wfl; assumption|apply cnv_apply_length|exact da].
Qed.
