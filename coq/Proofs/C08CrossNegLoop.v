(* C08, cross-radix normalisation with a negative offset, any word width: the outer loop.  Every a-digit but the
   last is repacked as for offsets >= 0; the last one (a-limb 0) ends with the hand-over of the a-carry to the
   res-carry; the top phase then spreads that carry over the res limbs above the stream. *)
From PV Require Import Base.MachineInt Model.Znx Model.Limbs Model.C08Oracle
  Proofs.ZnxDigit Proofs.C08Steps Proofs.C08Chain Proofs.C08Loops Proofs.C08Value Proofs.C08Normalize
  Proofs.C08Shift Proofs.C08CrossInner Proofs.C08CrossGeom Proofs.C08CrossOuter Proofs.C08CrossLoop
  Proofs.C08WChain Proofs.C08WLoops Proofs.C08WCrossInner Proofs.C08WCrossGeom Proofs.C08WCrossOuter
  Proofs.C08CrossNegKernels Proofs.C08CrossNegInner Proofs.C08CrossNegGeom.
Open Scope Z_scope.

Section NegLoop.
Variable wd : Z.
Variables rb ab : Z.
Hypothesis Hwd : 5 <= wd.
Hypothesis Hrb : 1 <= rb <= wd - 2.
Hypothesis Hab : 1 <= ab <= wd - 2.
Variable a : list Z.
Variable lsh : Z.
Hypothesis Hl : 0 <= lsh < ab.
Variable rsz : nat.
Variables z g lo : Z.
Hypothesis Hz : 0 <= z.
Hypothesis Hg : 0 <= g.
Hypothesis Hzg : z = 0 \/ g = 0.
Hypothesis Hlo : lo < 0.
Hypothesis Hgeo : (zn (length a) - lo) * ab = zn rsz * rb + g - z.

Let Hab1 : 1 <= ab. Proof. lia. Qed.

Local Notation Lval := (C08CrossOuter.Lval ab a lsh).
Local Notation dropok := (C08CrossOuter.dropok lsh g).
Local Notation Final := (C08CrossOuter.Final rb ab a lsh rsz z g).
Local Notation OuterI := (OuterW wd rb ab a lsh rsz z g).
Local Notation EntryI := (EntryW wd rb ab a lsh rsz z g).
Local Notation Vres := (C08CrossInner.Vres rb rsz).
Local Notation Fpos := (C08CrossInner.Fpos rb rsz).

(* a digit that is not the last: the inner loop ends with InnerDone and the outer invariant *)
Lemma entry_step_neg (t : nat) (s : cstate) (fuel : nat) :
  EntryI t s -> (S t < length a)%nat -> ab <= Z.of_nat fuel ->
  let r := cross_inner wd fuel rb ab (length a - 1 - t) s in
  snd r = InnerDone /\ OuterI (S t) (fst r).
Proof.
  intros (Sh & Hr & Hat & Hn & Hc & Hrc & HF & drop & X & low & Hdrop & EV & HX & EX & Hlow) Ht Hfuel.
  cbv zeta.
  assert (HF0 : 0 <= Fpos s).
  { apply (Fpos_nonnegW wd rb Hrb); [apply Sh|clear - Hr; lia]. }
  assert (Hpre : preW wd rb ab rsz (length a - 1 - t) s).
  { unfold preW. split; [exact Sh|]. split; [exact Hr|]. split; [exact Hat|]. split; [exact Hn|].
    split; [exact Hc|]. split; [exact Hrc|]. intros E0. exfalso. clear - E0 Ht. lia. }
  pose proof (cross_inner_specW wd rb ab Hrb Hab rsz (length a - 1 - t) fuel s Hpre ltac:(clear - Hat Hfuel; lia))
    as (P1 & P2 & P3).
  set (s' := fst (cross_inner wd fuel rb ab (length a - 1 - t) s)) in *.
  set (o := snd (cross_inner wd fuel rb ab (length a - 1 - t) s)) in *.
  clearbody s' o. clear Hpre.
  assert (Ho : o = InnerDone).
  { destruct o; [reflexivity| |exfalso; apply P1; reflexivity]. exfalso.
    destruct (P3 eq_refl) as (Q0 & _).
    (* the top of the stream lies below the top of res *)
    assert (Hpos : Fpos s + c_atake s = zn rsz * rb - (zn (length a) - 1 - zn t - lo) * ab).
    { clear - HF Hgeo. lia. }
    assert (0 < (zn (length a) - 1 - zn t - lo) * ab).
    { apply Z.mul_pos_pos; [unfold zn; clear - Ht Hlo; lia|clear - Hab1; lia]. }
    clear - Q0 Hpos H. lia. }
  split; [exact Ho|].
  destruct (P2 Ho) as (Pi & Q1 & Q2 & Q3 & Q4 & Q5 & Q6 & Q7 & Q8). clear P2 P3.
  set (Dl := c_acarry s' - c_acarry s) in *.
  assert (Eacc : c_acarry s' = c_acarry s + Dl) by (unfold Dl; ring).
  set (e := ab - c_atake s) in *.
  assert (He : 0 <= e) by (unfold e; clear - Hat; lia).
  assert (Hat0 : 0 <= c_atake s) by (clear - Hat; lia).
  assert (Eab : 2 ^ ab = 2 ^ e * 2 ^ c_atake s).
  { rewrite <- pow2_add by assumption. f_equal. unfold e. ring. }
  unfold OuterW. split; [exact Q5|]. split; [exact Q6|]. split; [exact Q7|]. split.
  { apply (carry_after_pieces ab (2 ^ (wd - 2)) X (low + 2 ^ e * Pi) (c_acarry s')); [exact Hab1| |exact HX| |].
    - pose proof (pow2_pos (wd - 2) ltac:(clear - Hwd; lia)). lia.
    - rewrite EX, Q1, Eacc, Eab. ring.
    - rewrite Eab. apply pt_bound; [exact He|exact Hat0|exact Hlow|exact Q2]. }
  split.
  { rewrite Q4. replace (zn (S t)) with (zn t + 1) by (unfold zn; lia). clear - HF. lia. }
  exists drop. split; [exact Hdrop|].
  replace (zn (S t)) with (zn t + 1) by (unfold zn; lia).
  rewrite EV, Q3, Q1, Eacc.
  assert (EgF : 2 ^ (g + Fpos s) = 2 ^ g * 2 ^ Fpos s) by (apply pow2_add; assumption).
  assert (ET : 2 ^ (z + (zn t + 1) * ab) = 2 ^ (g + Fpos s) * 2 ^ c_atake s).
  { rewrite <- pow2_add by (clear - Hg HF0 Hat0; lia). f_equal. clear - HF. lia. }
  rewrite ET, EgF. ring.
Qed.

(* what the loop leaves behind after the hand-over *)
Definition Last (s : cstate) : Prop :=
  length (c_res s) = rsz /\ (c_rlimb s < rsz)%nat /\
  zn (c_rlimb s) * rb <= - lo * ab < (zn (c_rlimb s) + 1) * rb /\
  (forall i, (i < c_rlimb s)%nat -> nthZ (c_res s) i = 0) /\
  Z.abs (c_rcarry s) <= 2 ^ (wd - 2) + 1 /\
  exists drop, dropok drop /\
    2 ^ z * Lval (length a) = 2 ^ z * drop + 2 ^ g * (Vres (c_res s) + 2 ^ ((zn rsz - zn (c_rlimb s)) * rb) * c_rcarry s).

(* the last digit *)
Lemma last_step (t : nat) (s : cstate) (fuel : nat) :
  EntryI t s -> S t = length a -> ab <= Z.of_nat fuel ->
  let r := cross_inner wd fuel rb ab 0 s in
  snd r = OuterBreak /\ Last (fst r).
Proof.
  intros (Sh & Hr & Hat & Hn & Hc & Hrc & HF & drop & X & low & Hdrop & EV & HX & EX & Hlow) Ht Hfuel.
  cbv zeta.
  assert (HF0 : 0 <= Fpos s).
  { apply (Fpos_nonnegW wd rb Hrb); [apply Sh|clear - Hr; lia]. }
  assert (HE : 0 < - lo * ab) by (apply Z.mul_pos_pos; [clear - Hlo; lia|clear - Hab1; lia]).
  assert (EtA : zn t + 1 = zn (length a)) by (unfold zn; clear - Ht; lia).
  assert (Hpre : pre0 wd rb ab rsz (- lo * ab) s).
  { unfold pre0. split; [exact Sh|]. split; [exact Hr|]. split; [exact Hat|]. split; [exact Hn|].
    split; [exact Hc|]. split; [exact Hrc|]. split.
    { rewrite EtA in HF. clear - HF Hgeo. lia. }
    exists X, low. split; [exact HX|]. split; [exact EX|].
    set (e := ab - c_atake s) in *. assert (He : 0 <= e) by (unfold e; clear - Hat; lia).
    destruct (Z.eq_dec e 0) as [E0|E0].
    - rewrite E0 in *. change (2 ^ 0) with 1 in *. clear - Hlow. lia.
    - pose proof (pow2_split e ltac:(clear - He E0; lia)) as Hs.
      pose proof (pow2_pos (e - 1) ltac:(clear - He E0; lia)) as Hp. clear - Hlow Hs Hp. lia. }
  pose proof (cross_inner_last wd rb ab Hrb Hab rsz (- lo * ab) HE fuel s Hpre ltac:(clear - Hat Hfuel; lia))
    as (P1 & P2 & P3 & P4 & P5 & P6 & P7).
  set (s' := fst (cross_inner wd fuel rb ab 0 s)) in *.
  set (o := snd (cross_inner wd fuel rb ab 0 s)) in *.
  clearbody s' o. clear Hpre.
  split; [exact P1|]. unfold Last.
  split; [exact P2|]. split; [exact P3|]. split; [exact P4|]. split; [exact P5|]. split; [exact P7|].
  exists drop. split; [exact Hdrop|].
  rewrite <- Ht, EV. rewrite P6.
  assert (Hat0 : 0 <= c_atake s) by (clear - Hat; lia).
  assert (EgF : 2 ^ (g + Fpos s) = 2 ^ g * 2 ^ Fpos s) by (apply pow2_add; assumption).
  assert (ET : 2 ^ (z + (zn t + 1) * ab) = 2 ^ g * 2 ^ (Fpos s + c_atake s)).
  { rewrite <- pow2_add by (clear - Hg HF0 Hat0; lia). f_equal. clear - HF. lia. }
  rewrite ET, EgF. ring.
Qed.

(* the top phase turns the hand-over state into the final invariant *)
Lemma last_final (s : cstate) (out : list Z) : Last s ->
  out = fst (top_phase wd false rb 0 (c_rlimb s) (c_res s, c_rcarry s)) ->
  Final out.
Proof.
  intros (L & Hre & Hpos & Hz0 & Hc & drop & Hdrop & EV) ->.
  destruct (top_zero wd rb Hwd Hrb (c_rlimb s) (c_res s) (c_rcarry s) Hz0 Hc) as [T1 T2]. cbv zeta in T1, T2.
  set (out := fst (top_phase wd false rb 0 (c_rlimb s) (c_res s, c_rcarry s))) in *.
  pose proof (Vres_top rb rsz (c_rlimb s) (c_res s) out (c_rcarry s) ltac:(clear - Hrb; lia) ltac:(clear - Hre; lia) L
                ltac:(rewrite T1; exact L) Hz0 T2) as HV.
  unfold Final. split; [rewrite T1; exact L|].
  exists drop, (car rb zseq (c_rcarry s) (c_rlimb s)). split; [exact Hdrop|].
  rewrite EV, HV.
  set (re := zn (c_rlimb s)) in *.
  assert (Hre0 : 0 <= re) by (unfold re, zn; lia).
  assert (HreR : re < zn rsz) by (unfold re, zn; clear - Hre; lia).
  assert (H1 : 0 <= (zn rsz - re) * rb) by (apply Z.mul_nonneg_nonneg; [clear - HreR; lia|clear - Hrb; lia]).
  assert (H2 : 0 <= re * rb) by (apply Z.mul_nonneg_nonneg; [exact Hre0|clear - Hrb; lia]).
  assert (E1 : 2 ^ (g + zn rsz * rb) = 2 ^ g * (2 ^ ((zn rsz - re) * rb) * 2 ^ (re * rb))).
  { rewrite <- pow2_add by assumption. rewrite <- pow2_add by (clear - Hg H1 H2; lia). f_equal. ring. }
  rewrite E1. ring.
Qed.

End NegLoop.
