(* C08, cross-radix normalisation: arithmetic helpers (rounding shift, ceilings, value of res,
   carry bound after repacking). *)
From PV Require Import Base.MachineInt Model.Znx Model.Limbs Model.C08Oracle
  Proofs.ZnxDigit Proofs.C08Steps Proofs.C08Chain Proofs.C08Loops Proofs.C08Value Proofs.C08CrossInner.
Open Scope Z_scope.

(* ---------- the rounding right shift znx_mul_power_of_two(-take) ---------- *)

Lemma mp2_round (take x : Z) : 1 <= take <= 62 -> Z.abs x <= 2 ^ 62 ->
  exists rho, x = rho + 2 ^ take * mul_power_of_two 64 (- take) x /\ 2 * Z.abs rho <= 2 ^ take /\
              (x mod 2 ^ take = 0 -> rho = 0).
Proof.
  intros Ht Hx. unfold mul_power_of_two.
  destruct (Z.eqb_spec (- take) 0) as [E|_]; [lia|].
  destruct (Z.ltb_spec 0 (- take)) as [E|_]; [lia|].
  cbv zeta. replace (- - take) with take by lia.
  set (h := 2 ^ (take - 1)).
  assert (Hh : 0 < h) by (apply pow2_pos; lia).
  assert (H2 : 2 ^ take = 2 * h) by (apply pow2_split; lia).
  assert (Hh61 : h <= 2 ^ 61) by (apply pow2_le_mono; lia).
  change (2 ^ 61) with 2305843009213693952 in Hh61. change (2 ^ 62) with 4611686018427387904 in Hx.
  set (sb := Z.land (asr x (64 - 1)) 1).
  assert (Hsb : (0 <= x /\ sb = 0) \/ (x < 0 /\ sb = 1)).
  { unfold sb, asr. change (2 ^ (64 - 1)) with 9223372036854775808.
    destruct (Z_lt_le_dec x 0) as [Hn|Hp].
    - right. split; [exact Hn|]. replace (x / 9223372036854775808) with (-1).
      + reflexivity.
      + apply (Z.div_unique x 9223372036854775808 (-1) (x + 9223372036854775808)); lia.
    - left. split; [exact Hp|]. rewrite Z.div_small by lia. reflexivity. }
  assert (Eshl : shl 64 1 (take - 1) = h).
  { unfold shl. rewrite Z.mul_1_l. apply wrap_id; [lia|]. unfold in_range.
    change (2 ^ (64 - 1)) with 9223372036854775808. fold h. lia. }
  rewrite Eshl.
  assert (Ebias : wsub 64 h sb = h - sb).
  { unfold wsub. apply wrap_id; [lia|]. unfold in_range. change (2 ^ (64 - 1)) with 9223372036854775808. lia. }
  rewrite Ebias.
  assert (Eadd : wadd 64 x (h - sb) = x + (h - sb)).
  { unfold wadd. apply wrap_id; [lia|]. unfold in_range. change (2 ^ (64 - 1)) with 9223372036854775808. lia. }
  rewrite Eadd. unfold asr. rewrite H2.
  pose proof (Z.div_mod (x + (h - sb)) (2 * h) ltac:(lia)) as Hdm.
  pose proof (Z.mod_pos_bound (x + (h - sb)) (2 * h) ltac:(lia)) as Hmb.
  set (q := (x + (h - sb)) / (2 * h)) in *. set (m := (x + (h - sb)) mod (2 * h)) in *.
  exists (m - h + sb). split; [lia|]. split; [lia|].
  intros Hdiv. apply Z.mod_divide in Hdiv; [|lia]. destruct Hdiv as [k Hk].
  assert (Hq : q = k).
  { unfold q. symmetry. apply (Z.div_unique (x + (h - sb)) (2 * h) k (h - sb)); lia. }
  lia.
Qed.

(* ---------- ceilings ---------- *)

Lemma div_ceil_mul_sub (X y m : Z) : 1 <= y -> 0 <= m < y -> div_ceil (X * y - m) y = X.
Proof.
  intros Hy Hm. unfold div_ceil. symmetry.
  apply (Z.div_unique (X * y - m + y - 1) y X (y - 1 - m)); lia.
Qed.

(* ---------- value of the res limbs ---------- *)

Lemma val_scaled_Vres (P rb : Z) (rsz : nat) (out : list Z) : 1 <= rb -> length out = rsz -> zn rsz * rb <= P ->
  val_scaled P rb out = 2 ^ (P - zn rsz * rb) * Vres rb rsz out.
Proof.
  intros Hrb Hl HP. rewrite val_scaled_sumn, Hl. unfold Vres. rewrite <- sumn_scale.
  apply sumn_ext. intros i Hi. unfold wt.
  replace (P - (zn i + 1) * rb) with ((P - zn rsz * rb) + (zn rsz - 1 - zn i) * rb) by ring.
  rewrite pow2_add by (unfold zn in *; nia). ring.
Qed.

Lemma Vres_zeros (rb : Z) (rsz : nat) : Vres rb rsz (zeros rsz) = 0.
Proof. unfold Vres. apply sumn_zero. intros t Ht. rewrite nth_zeros. apply Z.mul_0_l. Qed.

(* ---------- the a-carry after one digit has been repacked ---------- *)

Lemma carry_after_pieces (ab H X Pt c' : Z) : 1 <= ab -> 0 <= H ->
  Z.abs X <= H * 2 ^ (ab - 1) + H -> X = Pt + 2 ^ ab * c' -> Z.abs Pt <= 2 ^ ab - 1 -> Z.abs c' <= H.
Proof.
  intros Hab HH HX HE HP.
  pose proof (pow2_pos (ab - 1) ltac:(lia)) as Hp. pose proof (pow2_split ab ltac:(lia)) as Hs.
  set (K := Z.abs c') in *.
  assert (HK : K * 2 ^ ab <= H * 2 ^ (ab - 1) + H + 2 ^ ab - 1).
  { assert (Z.abs (2 ^ ab * c') <= Z.abs X + Z.abs Pt) by lia.
    rewrite Z.abs_mul, (Z.abs_eq (2 ^ ab)) in H0 by lia. fold K in H0. lia. }
  destruct (Z_le_gt_dec K H) as [|Hgt]; auto.
  assert ((H + 1) * 2 ^ ab <= K * 2 ^ ab) by (apply Z.mul_le_mono_nonneg_r; lia).
  nia.
Qed.
