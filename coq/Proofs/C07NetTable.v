(* C07 butterfly networks, the precomputed tables: modq_pow is modular exponentiation, the twiddle lists are the
   successive powers of the level's root, pack_omega yields well-formed words carrying t and t 2^half_bs. *)
From PV Require Import Base.MachineInt Model.Limbs Model.DftAbs Model.C07Ntt120 Model.C07NttNet Proofs.C07Dft Proofs.C07Ring
  Proofs.C07NetBase Proofs.C07NetStruct Proofs.C07NetAbs Proofs.C07NetLazy Proofs.C07NetRefine Proofs.C07NetFacts.
From Coq Require Import Morphisms Setoid Zpow_facts.
Open Scope Z_scope.

Lemma mul32_lt64 a b : 0 <= a < 2 ^ 32 -> 0 <= b <= 2 ^ 32 -> 0 <= a * b < 2 ^ 64.
Proof.
  intros Ha Hb. split; [apply Z.mul_nonneg_nonneg; lia|].
  apply Z.le_lt_trans with ((2 ^ 32 - 1) * 2 ^ 32); [apply Z.mul_le_mono_nonneg; lia|reflexivity].
Qed.

(* ---------------- pack_omega ---------------- *)
Lemma land_shift_small a t : 0 <= t < 2 ^ 32 -> Z.land (a * 2 ^ 32) t = 0.
Proof.
  intros Ht. destruct (Z.eq_dec t 0) as [->|Hne]; [apply Z.land_0_r|].
  apply Z.bits_inj'. intros i Hi. rewrite Z.land_spec, Z.bits_0.
  destruct (Z.lt_ge_cases i 32) as [Hlt|Hge].
  - rewrite Z.mul_pow2_bits_low by lia. reflexivity.
  - assert (Hl : Z.log2 t < i).
    { apply Z.log2_lt_pow2; [lia|]. apply Z.lt_le_trans with (2 ^ 32); [lia|apply Z.pow_le_mono_r; lia]. }
    rewrite (Z.bits_above_log2 t i ltac:(lia) Hl). apply andb_false_r.
Qed.
Lemma lor_disjoint_add a t : 0 <= t < 2 ^ 32 -> Z.lor (a * 2 ^ 32) t = a * 2 ^ 32 + t.
Proof.
  intros Ht. pose proof (land_shift_small a t Ht) as H.
  rewrite (Z.add_nocarry_lxor _ _ H). symmetry. apply Z.lxor_lor. exact H.
Qed.

Lemma pack_word q t hb : 1 < q < 2 ^ 32 -> 0 <= t < q -> 0 <= hb <= 32 ->
  pack_omega t hb q mod 2 ^ 32 = t /\ pack_omega t hb q / 2 ^ 32 = (t * 2 ^ hb) mod q /\ 0 <= pack_omega t hb q.
Proof.
  intros Hq Ht Hhb. unfold pack_omega.
  assert (H2 : 0 < 2 ^ hb <= 2 ^ 32) by (split; [apply pow2_pos; lia|apply Z.pow_le_mono_r; lia]).
  assert (Hth : 0 <= t * 2 ^ hb < 2 ^ 64) by (apply mul32_lt64; lia).
  rewrite (w64_small _ Hth). set (t1 := (t * 2 ^ hb) mod q).
  assert (Ht1 : 0 <= t1 < q) by (apply Z.mod_pos_bound; lia).
  assert (Ht1s : 0 <= t1 * 2 ^ 32 < 2 ^ 64) by (apply mul32_lt64; lia).
  rewrite (w64_small _ Ht1s). rewrite lor_disjoint_add by lia.
  split; [|split].
  - rewrite Z.add_comm, Z_mod_plus_full. apply Z.mod_small. lia.
  - rewrite Z.add_comm, Z_div_plus_full by lia. rewrite Z.div_small by lia. reflexivity.
  - lia.
Qed.

Lemma pack_word_ok q t hb : 1 < q < 2 ^ 32 -> 0 <= t < q -> 0 <= hb <= 32 -> word_ok q (pack_omega t hb q).
Proof.
  intros Hq Ht Hhb. destruct (pack_word q t hb Hq Ht Hhb) as [H1 [H2 H3]]. unfold word_ok. rewrite H1, H2.
  pose proof (Z.mod_pos_bound (t * 2 ^ hb) q ltac:(lia)). lia.
Qed.
Lemma pack_word_val q t hb v : 1 < q < 2 ^ 32 -> 0 <= t < q -> 0 <= hb <= 32 -> cong q t v ->
  word_val q hb (pack_omega t hb q) v.
Proof.
  intros Hq Ht Hhb Hv. destruct (pack_word q t hb Hq Ht Hhb) as [H1 [H2 _]]. unfold word_val. rewrite H1, H2.
  split; [exact Hv|apply cong_mod].
Qed.

(* ---------------- pows ---------------- *)
Lemma pows_length q step : forall cnt cur, length (pows cnt cur step q) = cnt.
Proof. induction cnt as [|c IH]; intros cur; cbn [pows length]; [reflexivity|rewrite IH; reflexivity]. Qed.
Lemma pows_range q step : 1 < q -> forall cnt cur, 0 <= cur < q -> Forall (fun t => 0 <= t < q) (pows cnt cur step q).
Proof.
  intros Hq. induction cnt as [|c IH]; intros cur Hc; cbn [pows]; constructor; [exact Hc|].
  apply IH. apply Z.mod_pos_bound. lia.
Qed.
Lemma nth_pows q step : 1 < q < 2 ^ 32 -> 0 <= step < q -> forall cnt cur i, 0 <= cur < q -> (i < cnt)%nat ->
  cong q (nth i (pows cnt cur step q) 0) (cur * zp step i).
Proof.
  intros Hq Hs. induction cnt as [|c IH]; intros cur i Hc Hi; [lia|].
  cbn [pows]. destruct i as [|i]; cbn [nth zp]; [rewrite Z.mul_1_r; reflexivity|].
  assert (Hm : 0 <= cur * step < 2 ^ 64) by (apply mul32_lt64; lia).
  rewrite (w64_small _ Hm). rewrite IH by (try lia; apply Z.mod_pos_bound; lia).
  rewrite cong_mod. ring_simplify. reflexivity.
Qed.

(* ---------------- modq_pow ---------------- *)
Lemma pow_loop_spec q : 1 < q < 2 ^ 32 -> forall fuel np val res, 0 <= np < 2 ^ Z.of_nat fuel -> 0 <= val < q -> 0 <= res < q ->
  pow_loop fuel np val res q = (res * val ^ np) mod q.
Proof.
  intros Hq. induction fuel as [|f IH]; intros np val res Hnp Hv Hr.
  - cbn [pow_loop]. assert (np = 0) as -> by (cbn in Hnp; lia). rewrite Z.pow_0_r, Z.mul_1_r. symmetry. apply Z.mod_small. exact Hr.
  - cbn [pow_loop]. destruct (Z.eqb_spec np 0) as [->|Hne].
    + rewrite Z.pow_0_r, Z.mul_1_r. symmetry. apply Z.mod_small. exact Hr.
    + rewrite hi_div by lia. change (2 ^ 1) with 2.
      assert (Hvv : 0 <= val * val < 2 ^ 64) by (apply mul32_lt64; lia).
      assert (Hrv : 0 <= res * val < 2 ^ 64) by (apply mul32_lt64; lia).
      rewrite (w64_small _ Hvv), (w64_small _ Hrv).
      assert (Hhalf : 0 <= np / 2 < 2 ^ Z.of_nat f).
      { rewrite Nat2Z.inj_succ, Z.pow_succ_r in Hnp by lia. split; [apply Z.div_pos; lia|apply Z.div_lt_upper_bound; lia]. }
      rewrite IH; [|exact Hhalf|apply Z.mod_pos_bound; lia|destruct (Z.odd np); [apply Z.mod_pos_bound; lia|exact Hr]].
      apply (proj1 (cong_unfold q _ _)).
      assert (Esq : cong q (((val * val) mod q) ^ (np / 2)) (val ^ (2 * (np / 2)))).
      { apply (proj2 (cong_unfold q _ _)). rewrite <- Zpower_mod by lia. rewrite Z.pow_mul_r by lia. f_equal. f_equal. lia. }
      rewrite Esq. pose proof (Zmod_odd np) as Ho. pose proof (Z.div_mod np 2 ltac:(lia)) as Hd.
      destruct (Z.odd np).
      * rewrite cong_mod.
        assert (E : val ^ np = val ^ (2 * (np / 2)) * val).
        { replace np with (2 * (np / 2) + 1) at 1 by lia.
          rewrite Z.pow_add_r, Z.pow_1_r; [reflexivity| |lia]. apply Z.mul_nonneg_nonneg; [lia|apply Z.div_pos; lia]. }
        rewrite E. ring_simplify. reflexivity.
      * assert (E : np = 2 * (np / 2)) by lia. rewrite <- E. reflexivity.
Qed.

Lemma inq_true q v : inq q v = true -> 0 <= v < q.
Proof. unfold inq. rewrite andb_true_iff, Z.leb_le, Z.ltb_lt. tauto. Qed.

Lemma cong_qm1 q : cong q (q - 1) (-1).
Proof. replace (q - 1) with (-1 + 1 * q) by ring. apply cong_mult_q. Qed.
Lemma cong_of_mod q a b : a mod q = b -> cong q a b.
Proof. intros <-. symmetry. apply cong_mod. Qed.
Lemma inv_unique q a b u : cong q (a * u) 1 -> cong q (b * u) 1 -> cong q a b.
Proof.
  intros Ha Hb. rewrite <- (Z.mul_1_r a), <- Hb. replace (a * (b * u)) with (b * (a * u)) by ring.
  rewrite Ha, Z.mul_1_r. reflexivity.
Qed.

Section Facts.
Variables (P : primeset) (k m : nat).
Hypothesis Hm : (m <= 16)%nat.
Hypothesis HF : tbl_facts P k m = true.
Notation q := (qk P k).
Notation psi := (omega_n P k m).
Notation phi := (phi_of P k m).
Notation ninv := (ninv_of P k m).

Lemma facts_split :
  (1 < q < 2 ^ 32) /\ (0 <= psi < q) /\ (0 <= phi < q) /\ (0 <= ninv < q) /\
  pow_loop 64 (2 ^ Z.of_nat m) psi 1 q = q - 1 /\ (psi * phi) mod q = 1 /\ (ninv * 2 ^ Z.of_nat m) mod q = 1 /\
  (0 <= omegak P k < q /\ psi = pow_loop 64 (2 ^ (16 - Z.of_nat m)) (omegak P k) 1 q) /\
  forall l, (l < m)%nat -> (0 <= step_of P k m l < q) /\ (0 <= istep_of P k m l < q) /\
     step_of P k m l = pow_loop 64 (2 ^ Z.of_nat (m - l)) psi 1 q /\ (istep_of P k m l * step_of P k m l) mod q = 1.
Proof.
  pose proof HF as H. unfold tbl_facts in H. cbv zeta in H.
  rewrite !andb_true_iff in H. destruct H as [[[[[[[[[[H1 H2] H3] H4] H5] H6] H7] H8] H10] H11] H9].
  apply Z.ltb_lt in H1, H2. apply inq_true in H3, H4, H5, H10. apply Z.eqb_eq in H6, H7, H8, H11.
  split; [lia|]. repeat (split; [assumption|]). split; [split; assumption|].
  intros l Hl. rewrite forallb_forall in H9. specialize (H9 l ltac:(apply in_seq; lia)). cbv zeta in H9.
  rewrite !andb_true_iff in H9. destruct H9 as [[[A B] C] D].
  apply inq_true in A, B. apply Z.eqb_eq in C, D. tauto.
Qed.

Lemma pow2_small e : (e <= 16)%nat -> 0 <= 2 ^ Z.of_nat e < 2 ^ Z.of_nat 64.
Proof.
  intros He. split; [apply Z.pow_nonneg; lia|]. apply Z.pow_lt_mono_r; lia.
Qed.

Lemma psi_root : cong q (zp psi (pow2n m)) (-1).
Proof.
  destruct facts_split as [Hq [Hpsi [_ [_ [Hr _]]]]].
  rewrite (pow_loop_spec q Hq 64 _ psi 1 (pow2_small m Hm) Hpsi ltac:(lia)) in Hr.
  rewrite Z.mul_1_l in Hr. rewrite zp_pow, pow2n_Z. rewrite (cong_of_mod _ _ _ Hr). apply cong_qm1.
Qed.
Lemma psi_phi : cong q (psi * phi) 1.
Proof. destruct facts_split as [_ [_ [_ [_ [_ [H _]]]]]]. apply cong_of_mod. exact H. Qed.
Lemma ninv_n : cong q (ninv * Z.of_nat (pow2n m)) 1.
Proof. destruct facts_split as [_ [_ [_ [_ [_ [_ [H _]]]]]]]. rewrite pow2n_Z. apply cong_of_mod. exact H. Qed.
Lemma step_val l : (l < m)%nat -> cong q (step_of P k m l) (zp psi (pow2n (m - l))).
Proof.
  intros Hl. destruct facts_split as [Hq [Hpsi [_ [_ [_ [_ [_ [_ H]]]]]]]]. destruct (H l Hl) as [_ [_ [E _]]].
  rewrite E. rewrite (pow_loop_spec q Hq 64 _ psi 1 (pow2_small (m - l) ltac:(lia)) Hpsi ltac:(lia)).
  rewrite Z.mul_1_l, cong_mod. rewrite zp_pow, pow2n_Z. reflexivity.
Qed.
Lemma istep_val l : (l < m)%nat -> cong q (istep_of P k m l) (zp phi (pow2n (m - l))).
Proof.
  intros Hl. destruct facts_split as [_ [_ [_ [_ [_ [_ [_ [_ H]]]]]]]]. destruct (H l Hl) as [_ [_ [_ D]]].
  apply (inv_unique q _ _ (zp psi (pow2n (m - l)))).
  - rewrite <- (step_val l Hl). apply cong_of_mod. exact D.
  - rewrite Z.mul_comm. apply inv_pow. apply psi_phi.
Qed.
Lemma psi_from_omega : psi = (omegak P k ^ 2 ^ (16 - Z.of_nat m)) mod q.
Proof.
  destruct facts_split as [Hq [_ [_ [_ [_ [_ [_ [[Hom E] _]]]]]]]]. rewrite E.
  rewrite (pow_loop_spec q Hq 64 _ (omegak P k) 1); [rewrite Z.mul_1_l; reflexivity| |exact Hom|lia].
  split; [apply Z.pow_nonneg; lia|]. apply Z.pow_lt_mono_r; lia.
Qed.
End Facts.

(* ---------------- the concrete tables ---------------- *)
Lemma pow2n_div m a : (a <= m)%nat -> (pow2n m / pow2n a)%nat = pow2n (m - a).
Proof.
  intros H. replace m with ((m - a) + a)%nat at 1 by lia. unfold pow2n. rewrite Nat.pow_add_r.
  apply Nat.div_mul. apply Nat.pow_nonzero. lia.
Qed.
Lemma fwd_metas_length bsr logq q : forall c bs, length (fwd_metas bsr logq q c bs) = c.
Proof.
  induction c as [|c IH]; intros bs; [reflexivity|]. cbn [fwd_metas].
  destruct c; cbn [length]; rewrite IH; reflexivity.
Qed.
Lemma inv_metas_length bsr logq q : forall c bs, length (inv_metas bsr logq q c bs) = c.
Proof. induction c as [|c IH]; intros bs; [reflexivity|]. cbn [inv_metas length]. rewrite IH. reflexivity. Qed.
Lemma fwd_ms_length P k m : length (fwd_ms P k m) = m.
Proof. unfold fwd_ms. apply fwd_metas_length. Qed.
Lemma inv_ms_length P k m : length (inv_ms P k (S m)) = S m.
Proof. unfold inv_ms. cbn [length]. rewrite inv_metas_length. lia. Qed.

Lemma nth_map_combine {A B} (f : A -> B -> list Z) (la : list A) (lb : list B) l da db :
  length la = length lb -> (l < length la)%nat ->
  nth l (map (fun p => f (fst p) (snd p)) (combine la lb)) [] = f (nth l la da) (nth l lb db).
Proof.
  intros Hl Hlt. rewrite (nth_indep _ [] (f da db)) by (rewrite map_length, combine_length; lia).
  change (f da db) with ((fun p : A * B => f (fst p) (snd p)) (da, db)). rewrite map_nth, combine_nth by exact Hl. reflexivity.
Qed.
Lemma nth_rev_seq m l : (l < m)%nat -> nth l (rev (seq 1 m)) 0%nat = (m - l)%nat.
Proof. intros H. rewrite rev_nth by (rewrite seq_length; exact H). rewrite seq_length, seq_nth by lia. lia. Qed.

Lemma Forall_pack q hb l : 1 < q < 2 ^ 32 -> 0 <= hb <= 32 -> Forall (fun t => 0 <= t < q) l ->
  Forall (word_ok q) (map (fun t => pack_omega t hb q) l).
Proof. intros Hq Hhb H. rewrite Forall_map. eapply Forall_impl; [|exact H]. intros t Ht. apply pack_word_ok; assumption. Qed.

(* the i-th word of a packed list of successive powers: value cur * step^i *)
Lemma packed_pows_val q hb cnt cur step i : 1 < q < 2 ^ 32 -> 0 <= hb <= 32 -> 0 <= step < q -> 0 <= cur < q -> (i < cnt)%nat ->
  word_val q hb (nth i (map (fun t => pack_omega t hb q) (pows cnt cur step q)) 0) (cur * zp step i).
Proof.
  intros Hq Hhb Hs Hc Hi.
  rewrite (nth_map' (fun t => pack_omega t hb q) _ i 0 0) by (rewrite pows_length; exact Hi).
  apply pack_word_val; try assumption.
  - pose proof (pows_range q step ltac:(lia) cnt cur Hc) as H. rewrite Forall_forall in H. apply H. apply nth_In. rewrite pows_length. exact Hi.
  - apply nth_pows; assumption.
Qed.

(* projections of the two table builders (stated once, so that no proof ever has to unfold the builders) *)
Lemma fwd_table_proj P k m :
  tb_red (fwd_table P k m) = red_of P (qk P k) /\ tb_m0 (fwd_table P k m) = fwd_meta0 (ps_LOG_Q P) /\
  tb_metas (fwd_table P k m) = fwd_ms P k m /\
  tb_tw0 (fwd_table P k m) = map (fun t => pack_omega t (sm_hb (fwd_meta0 (ps_LOG_Q P))) (qk P k)) (pows (pow2n m) 1 (omega_n P k m) (qk P k)) /\
  tb_tws (fwd_table P k m) = map (fun lc => level_tw (omega_n P k m) (qk P k) (sm_hb (fst lc)) m (snd lc)) (combine (fwd_ms P k m) (rev (seq 1 m))).
Proof. unfold fwd_table. cbv beta zeta iota delta [tb_red tb_m0 tb_metas tb_tw0 tb_tws]. repeat split. Qed.
Lemma inv_table_proj P k m :
  tb_red (inv_table P k m) = red_of P (qk P k) /\ tb_m0 (inv_table P k m) = inv_ml P k m /\
  tb_metas (inv_table P k m) = inv_ms P k m /\
  tb_tw0 (inv_table P k m) = map (fun t => pack_omega t (sm_hb (inv_ml P k m)) (qk P k))
     (pows (pow2n m) (modq_pow (Z.of_nat (pow2n m)) (-1) (qk P k)) (modq_pow (omega_n P k m) (-1) (qk P k)) (qk P k)) /\
  tb_tws (inv_table P k m) = map (fun lc => inv_level_tw (omega_n P k m) (qk P k) (sm_hb (fst lc)) m (snd lc)) (combine (inv_ms P k m) (seq 1 m)).
Proof. unfold inv_table. cbv beta zeta iota delta [tb_red tb_m0 tb_metas tb_tw0 tb_tws]. repeat split. Qed.
Lemma fwd_check_table P k m U : fwd_check (qk P k) (fwd_table P k m) m U =
  fwd_check_c (qk P k) (red_of P (qk P k)) (fwd_meta0 (ps_LOG_Q P)) (fwd_ms P k m) m U.
Proof. unfold fwd_check. destruct (fwd_table_proj P k m) as [-> [-> [-> _]]]. reflexivity. Qed.
Lemma inv_check_table P k m U : inv_check (qk P k) (inv_table P k m) m U =
  inv_check_c (qk P k) (red_of P (qk P k)) (inv_ml P k m) (inv_ms P k m) m U.
Proof. unfold inv_check. destruct (inv_table_proj P k m) as [-> [-> [-> _]]]. reflexivity. Qed.

Lemma zp_S z e : zp z (S e) = z * zp z e.
Proof. reflexivity. Qed.
Lemma word_val_cong q hb po v v' : word_val q hb po v -> cong q v v' -> word_val q hb po v'.
Proof. intros [H1 H2] Hv. split; [rewrite H1; exact Hv|exact H2]. Qed.
Lemma forallb_hb l : forallb hb_ok l = true -> Forall (fun sm => sm_hb sm <= 32) l.
Proof. intros H. apply Forall_forall. intros sm Hin. rewrite forallb_forall in H. apply Z.leb_le. apply (H sm Hin). Qed.
Lemma Forall_nth_sm (R : stepmeta -> Prop) l i : Forall R l -> (i < length l)%nat -> R (nth i l dsm).
Proof. intros H Hi. rewrite Forall_forall in H. apply H. apply nth_In. exact Hi. Qed.

Section Fwd.
Variables (P : primeset) (k m : nat).
Hypothesis Hm : (S m <= 16)%nat.
Hypothesis HF : tbl_facts P k (S m) = true.
Hypothesis HO : fwd_ok P k (S m) = true.
Notation q := (qk P k).
Notation psi := (omega_n P k (S m)).

Lemma fwd_ok_split : exists Uf, fwd_check q (fwd_table P k (S m)) (S m) (2 ^ 64 - 1) = Some Uf /\ Uf < 2 ^ fwd_out_bits P (S m) /\
  Forall (fun sm => sm_hb sm <= 32) (fwd_meta0 (ps_LOG_Q P) :: fwd_ms P k (S m)).
Proof.
  destruct (fwd_ok_elim P k (S m) HO) as [[Uf [E Hlt]] H2].
  exists Uf. rewrite fwd_check_table. split; [exact E|]. split; [exact Hlt|]. apply forallb_hb. exact H2.
Qed.

Lemma fwd_wf : rm_wf q (red_of P q) /\ sm_wf q (fwd_meta0 (ps_LOG_Q P)) /\ Forall (sm_wf q) (fwd_ms P k (S m)).
Proof.
  destruct fwd_ok_split as [Uf [Hc _]]. rewrite fwd_check_table in Hc.
  destruct (fwd_check_c_wf _ _ _ _ _ _ _ Hc) as [H1 [H2 [H3 _]]]. split; [exact H1|split; [exact H2|exact H3]].
Qed.

Lemma fwd_level_tw l : (l < S m)%nat ->
  nth l (tb_tws (fwd_table P k (S m))) [] =
  map (fun t => pack_omega t (sm_hb (nth l (fwd_ms P k (S m)) dsm)) q)
      (pows (pow2n (m - l) - 1) (step_of P k (S m) (m - l)) (step_of P k (S m) (m - l)) q).
Proof.
  intros Hl. destruct (fwd_table_proj P k (S m)) as [_ [_ [_ [_ ->]]]].
  rewrite (nth_map_combine (fun sm c => level_tw (omega_n P k (S m)) (qk P k) (sm_hb sm) (S m) c) _ _ l dsm 0%nat)
    by (rewrite ?rev_length, ?seq_length, fwd_ms_length; lia).
  rewrite nth_rev_seq by exact Hl. unfold level_tw. cbv zeta.
  replace (S m - l - 1)%nat with (m - l)%nat by lia.
  rewrite pow2n_div by lia. rewrite pow2n_Z.
  reflexivity.
Qed.

Lemma fwd_table_words : table_words_ok q (fwd_table P k (S m)) (pow2n (S m)).
Proof.
  destruct (facts_split P k (S m) Hm HF) as [Hq [Hpsi [_ [_ [_ [_ [_ [_ Hst]]]]]]]]. 
  destruct fwd_ok_split as [_ [_ [_ Hhb]]]. destruct fwd_wf as [_ [[Hhb0 _] Hwf]].
  apply Forall_cons_iff in Hhb. destruct Hhb as [Hhb0' Hhbs].
  destruct (fwd_table_proj P k (S m)) as [_ [_ [Em [E0 Et]]]].
  unfold table_words_ok. rewrite Em, E0. split; [|split; [|split]].
  - rewrite map_length, pows_length. reflexivity.
  - apply Forall_pack; [exact Hq|split; assumption|]. apply pows_range; lia.
  - rewrite Et, map_length, combine_length, rev_length, seq_length, fwd_ms_length. lia.
  - assert (Hlt : length (tb_tws (fwd_table P k (S m))) = S m)
      by (rewrite Et, map_length, combine_length, rev_length, seq_length, fwd_ms_length; lia).
    apply Forall_forall. intros tw Hin. destruct (In_nth _ _ [] Hin) as [l [Hl <-]]. rewrite Hlt in Hl.
    rewrite (fwd_level_tw l Hl).
    assert (Hsm : sm_wf q (nth l (fwd_ms P k (S m)) dsm)) by (apply Forall_nth_sm; [exact Hwf|rewrite fwd_ms_length; exact Hl]).
    assert (Hh32 : sm_hb (nth l (fwd_ms P k (S m)) dsm) <= 32) by (apply (Forall_nth_sm (fun sm => sm_hb sm <= 32)); [exact Hhbs|rewrite fwd_ms_length; exact Hl]).
    destruct Hsm as [Hh0 _]. destruct (Hst (m - l)%nat ltac:(lia)) as [Hs _].
    apply Forall_pack; [exact Hq|lia|]. apply pows_range; [lia|exact Hs].
Qed.

Lemma fwd_table_vals : fwd_vals q (fwd_table P k (S m)) (S m) psi.
Proof.
  destruct (facts_split P k (S m) Hm HF) as [Hq [Hpsi [_ [_ [_ [_ [_ [_ Hst]]]]]]]]. 
  destruct fwd_ok_split as [_ [_ [_ Hhb]]]. destruct fwd_wf as [Hrm [Hsm0 Hwf]].
  apply Forall_cons_iff in Hhb. destruct Hhb as [Hhb0' Hhbs].
  destruct (fwd_table_proj P k (S m)) as [Er [E0m [Em [E0 Et]]]].
  unfold fwd_vals. rewrite Er, E0m, Em, E0.
  split; [exact Hrm|]. split; [exact Hsm0|]. split; [rewrite map_length, pows_length; reflexivity|].
  split; [|split; [apply fwd_ms_length|split]].
  - intros i Hi. destruct Hsm0 as [Hh0 _].
    pose proof (packed_pows_val q (sm_hb (fwd_meta0 (ps_LOG_Q P))) (pow2n (S m)) 1 psi i Hq ltac:(lia) Hpsi ltac:(lia) Hi) as H.
    rewrite Z.mul_1_l in H. exact H.
  - rewrite Et, map_length, combine_length, rev_length, seq_length, fwd_ms_length. lia.
  - intros l Hl.
    assert (Hsm : sm_wf q (nth l (fwd_ms P k (S m)) dsm)) by (apply Forall_nth_sm; [exact Hwf|rewrite fwd_ms_length; exact Hl]).
    assert (Hh32 : sm_hb (nth l (fwd_ms P k (S m)) dsm) <= 32) by (apply (Forall_nth_sm (fun sm => sm_hb sm <= 32)); [exact Hhbs|rewrite fwd_ms_length; exact Hl]).
    split; [exact Hsm|]. intros i' Hi'. destruct Hsm as [Hh0 _].
    rewrite (fwd_level_tw l Hl). destruct (Hst (m - l)%nat ltac:(lia)) as [Hs _].
    replace (S m - 1 - l)%nat with (m - l)%nat in Hi' by lia.
    pose proof (packed_pows_val q (sm_hb (nth l (fwd_ms P k (S m)) dsm)) (pow2n (m - l) - 1) _ _ i' Hq ltac:(lia) Hs Hs ltac:(lia)) as H.
    eapply word_val_cong; [exact H|].
    rewrite <- (zp_S (step_of P k (S m) (m - l)) i').
    rewrite (step_val P k (S m) Hm HF (m - l) ltac:(lia)).
    replace (S m - (m - l))%nat with (S l) by lia. rewrite zp_sq, <- pow2n_S. reflexivity.
Qed.
End Fwd.

Section Inv.
Variables (P : primeset) (k m : nat).
Hypothesis Hm : (S m <= 16)%nat.
Hypothesis HF : tbl_facts P k (S m) = true.
Hypothesis HO : inv_ok P k (S m) = true.
Notation q := (qk P k).
Notation psi := (omega_n P k (S m)).
Notation phi := (phi_of P k (S m)).
Notation ninv := (ninv_of P k (S m)).

Lemma inv_ok_split : exists Uf, inv_check q (inv_table P k (S m)) (S m) (2 ^ 64 - 1) = Some Uf /\ Uf < 2 ^ inv_out_bits P (S m) /\
  Forall (fun sm => sm_hb sm <= 32) (inv_ml P k (S m) :: inv_ms P k (S m)).
Proof.
  destruct (inv_ok_elim P k (S m) HO) as [[Uf [E Hlt]] H2].
  exists Uf. rewrite inv_check_table. split; [exact E|]. split; [exact Hlt|]. apply forallb_hb. exact H2.
Qed.

Lemma inv_wf : rm_wf q (red_of P q) /\ sm_wf q (inv_ml P k (S m)) /\ Forall (sm_wf q) (inv_ms P k (S m)).
Proof.
  destruct inv_ok_split as [Uf [Hc _]]. rewrite inv_check_table in Hc.
  destruct (inv_check_c_wf _ _ _ _ _ _ _ Hc) as [H1 [H2 [H3 _]]]. split; [exact H1|split; [exact H2|exact H3]].
Qed.

Lemma inv_level_tw_nth l : (l < S m)%nat ->
  nth l (tb_tws (inv_table P k (S m))) [] =
  map (fun t => pack_omega t (sm_hb (nth l (inv_ms P k (S m)) dsm)) q)
      (pows (pow2n l - 1) (istep_of P k (S m) l) (istep_of P k (S m) l) q).
Proof.
  intros Hl. destruct (inv_table_proj P k (S m)) as [_ [_ [_ [_ ->]]]].
  rewrite (nth_map_combine (fun sm c => inv_level_tw (omega_n P k (S m)) (qk P k) (sm_hb sm) (S m) c) _ _ l dsm 0%nat)
    by (rewrite ?seq_length, inv_ms_length; lia).
  rewrite seq_nth by exact Hl. unfold inv_level_tw. cbv zeta.
  replace (1 + l - 1)%nat with l by lia.
  rewrite pow2n_div by lia. rewrite pow2n_Z. reflexivity.
Qed.

Lemma inv_table_words : table_words_ok q (inv_table P k (S m)) (pow2n (S m)).
Proof.
  destruct (facts_split P k (S m) Hm HF) as [Hq [Hpsi [Hphi [Hninv [_ [_ [_ [_ Hst]]]]]]]].
  destruct inv_ok_split as [_ [_ [_ Hhb]]]. destruct inv_wf as [_ [[Hhb0 _] Hwf]].
  apply Forall_cons_iff in Hhb. destruct Hhb as [Hhb0' Hhbs].
  destruct (inv_table_proj P k (S m)) as [_ [_ [Em [E0 Et]]]].
  unfold table_words_ok. rewrite Em, E0. split; [|split; [|split]].
  - rewrite map_length, pows_length. reflexivity.
  - apply Forall_pack; [exact Hq|split; assumption|]. apply pows_range; [lia|]. rewrite pow2n_Z. exact Hninv.
  - rewrite Et, map_length, combine_length, seq_length, inv_ms_length. lia.
  - assert (Hlt : length (tb_tws (inv_table P k (S m))) = S m)
      by (rewrite Et, map_length, combine_length, seq_length, inv_ms_length; lia).
    apply Forall_forall. intros tw Hin. destruct (In_nth _ _ [] Hin) as [l [Hl <-]]. rewrite Hlt in Hl.
    rewrite (inv_level_tw_nth l Hl).
    assert (Hsm : sm_wf q (nth l (inv_ms P k (S m)) dsm)) by (apply Forall_nth_sm; [exact Hwf|rewrite inv_ms_length; exact Hl]).
    assert (Hh32 : sm_hb (nth l (inv_ms P k (S m)) dsm) <= 32) by (apply (Forall_nth_sm (fun sm => sm_hb sm <= 32)); [exact Hhbs|rewrite inv_ms_length; exact Hl]).
    destruct Hsm as [Hh0 _]. destruct (Hst l Hl) as [_ [Hs _]].
    apply Forall_pack; [exact Hq|lia|]. apply pows_range; [lia|exact Hs].
Qed.

Lemma inv_table_vals : inv_vals q (inv_table P k (S m)) (S m) phi ninv.
Proof.
  destruct (facts_split P k (S m) Hm HF) as [Hq [Hpsi [Hphi [Hninv [_ [_ [_ [_ Hst]]]]]]]].
  destruct inv_ok_split as [_ [_ [_ Hhb]]]. destruct inv_wf as [Hrm [Hsm0 Hwf]].
  apply Forall_cons_iff in Hhb. destruct Hhb as [Hhb0' Hhbs].
  destruct (inv_table_proj P k (S m)) as [Er [E0m [Em [E0 Et]]]].
  unfold inv_vals. rewrite Er, E0m, Em, E0.
  split; [exact Hrm|]. split; [exact Hsm0|]. split; [rewrite map_length, pows_length; reflexivity|].
  split; [|split; [apply inv_ms_length|split]].
  - intros j Hj. destruct Hsm0 as [Hh0 _]. rewrite pow2n_Z.
    apply (packed_pows_val q (sm_hb (inv_ml P k (S m))) (pow2n (S m)) ninv phi j Hq ltac:(lia) Hphi Hninv Hj).
  - rewrite Et, map_length, combine_length, seq_length, inv_ms_length. lia.
  - intros l Hl.
    assert (Hsm : sm_wf q (nth l (inv_ms P k (S m)) dsm)) by (apply Forall_nth_sm; [exact Hwf|rewrite inv_ms_length; exact Hl]).
    assert (Hh32 : sm_hb (nth l (inv_ms P k (S m)) dsm) <= 32) by (apply (Forall_nth_sm (fun sm => sm_hb sm <= 32)); [exact Hhbs|rewrite inv_ms_length; exact Hl]).
    split; [exact Hsm|]. intros i' Hi'. destruct Hsm as [Hh0 _].
    rewrite (inv_level_tw_nth l Hl). destruct (Hst l Hl) as [_ [Hs _]].
    pose proof (packed_pows_val q (sm_hb (nth l (inv_ms P k (S m)) dsm)) (pow2n l - 1) _ _ i' Hq ltac:(lia) Hs Hs ltac:(lia)) as H.
    eapply word_val_cong; [exact H|].
    rewrite <- (zp_S (istep_of P k (S m) l) i').
    rewrite (istep_val P k (S m) Hm HF l Hl).
    replace (pow2n (S m - l)) with (2 * pow2n (S m - 1 - l))%nat by (rewrite <- pow2n_S; f_equal; lia).
    rewrite zp_sq. reflexivity.
Qed.
End Inv.
