(* C09 items 1-2: znx_rotate is multiplication by X^p in Z[X]/(X^n+1); Z/2n acts. *)
From PV Require Import Base.MachineInt Model.Znx Model.Limbs Model.Ring Model.Poly Proofs.C09Lists.
Open Scope Z_scope.

Lemma vneg_length w l : length (vneg w l) = length l.
Proof. unfold vneg; apply map_length. Qed.

Lemma rotate_length w p (a : list Z) : length (znx_rotate w p a) = length a.
Proof.
  unfold znx_rotate.
  set (k := Z.to_nat _).
  destruct (_ <? _); rewrite app_length, ?vneg_length, firstn_length, skipn_length; lia.
Qed.

(* ---------- word negation ---------- *)
Lemma wneg_range w x : 1 <= w -> in_range w (wneg w x).
Proof. intros; apply wrap_range; auto. Qed.

Lemma wneg_involutive w x : 1 <= w -> in_range w x -> wneg w (wneg w x) = x.
Proof.
  intros Hw Hx. unfold wneg.
  rewrite <- (wrap_id w x Hw Hx) at 2.
  apply wrap_eq_mod; auto.
  pose proof (pow2_pos w ltac:(lia)) as Hp.
  destruct (wrap_exists w (- x) Hw) as [q Hq]. rewrite Hq.
  replace (- (- x - q * 2 ^ w)) with (x + q * 2 ^ w) by ring.
  apply Z.mod_add. lia.
Qed.

Lemma wneg_0 w : 1 <= w -> wneg w 0 = 0.
Proof.
  intros Hw. unfold wneg. apply wrap_id; auto.
  unfold in_range. pose proof (pow2_pos (w - 1) ltac:(lia)). lia.
Qed.

(* ---------- the negacyclic extension ---------- *)
Lemma ext_at w (a : list Z) (k q r : Z) :
  k = q * Z.of_nat (length a) + r -> 0 <= r < Z.of_nat (length a) ->
  ext w a k = if Z.even q then nthZ a (Z.to_nat r) else wneg w (nthZ a (Z.to_nat r)).
Proof.
  intros -> Hr. unfold ext. cbv zeta.
  set (n := Z.of_nat (length a)) in *.
  assert (Hq : (q * n + r) / n = q).
  { rewrite Z.div_add_l by lia. rewrite Z.div_small by lia. lia. }
  assert (Hm : (q * n + r) mod n = r).
  { rewrite Z.add_comm, Z.mod_add by lia. apply Z.mod_small; lia. }
  rewrite Hq, Hm. reflexivity.
Qed.

Lemma ext_at_nat w (a : list Z) (k q : Z) (i : nat) :
  k = q * Z.of_nat (length a) + Z.of_nat i -> (i < length a)%nat ->
  ext w a k = if Z.even q then nthZ a i else wneg w (nthZ a i).
Proof.
  intros Hk Hi. rewrite (ext_at w a k q (Z.of_nat i)) by (auto; lia).
  rewrite Nat2Z.id. reflexivity.
Qed.

Lemma ext_small w (a : list Z) (i : nat) : (i < length a)%nat -> ext w a (Z.of_nat i) = nthZ a i.
Proof. intros Hi. rewrite (ext_at_nat w a _ 0 i) by (auto; lia). reflexivity. Qed.

(* decomposition of any exponent *)
Lemma exp_decomp (n k : Z) : 0 < n -> exists q (i : nat), k = q * n + Z.of_nat i /\ 0 <= Z.of_nat i < n.
Proof.
  intros Hn. exists (k / n), (Z.to_nat (k mod n)).
  pose proof (Z.mod_pos_bound k n Hn) as Hb.
  rewrite Z2Nat.id by lia. split; [|lia].
  pose proof (Z.div_mod k n ltac:(lia)). lia.
Qed.

Lemma even_add_mul2 q s : Z.even (q + 2 * s) = Z.even q.
Proof. rewrite Z.even_add_mul_2. reflexivity. Qed.

(* ext has period 2n *)
Lemma ext_period w (a : list Z) (k s : Z) :
  (0 < length a)%nat -> ext w a (k + s * (2 * Z.of_nat (length a))) = ext w a k.
Proof.
  intros Hn. set (n := Z.of_nat (length a)).
  destruct (exp_decomp n k ltac:(lia)) as [q [i [Hk Hi]]].
  rewrite (ext_at_nat w a k q i) by (auto; lia).
  rewrite (ext_at_nat w a (k + s * (2 * n)) (q + 2 * s) i) by (fold n; lia).
  rewrite even_add_mul2. reflexivity.
Qed.

(* shifting the exponent by a multiple of n: sign (-1)^q *)
Lemma ext_shift w (a : list Z) (k q : Z) :
  1 <= w -> Forall (in_range w) a -> (0 < length a)%nat ->
  ext w a (k + q * Z.of_nat (length a)) = if Z.even q then ext w a k else wneg w (ext w a k).
Proof.
  intros Hw Hr Hn. set (n := Z.of_nat (length a)).
  destruct (exp_decomp n k ltac:(lia)) as [q0 [i [Hk Hi]]].
  rewrite (ext_at_nat w a k q0 i) by (auto; lia).
  rewrite (ext_at_nat w a (k + q * n) (q0 + q) i) by (fold n; lia).
  rewrite Z.even_add.
  destruct (Z.even q0), (Z.even q); cbn [Bool.eqb]; try reflexivity.
  symmetry; apply wneg_involutive; auto. apply Forall_nthZ; auto; lia.
Qed.

Lemma ext_range w (a : list Z) k :
  1 <= w -> Forall (in_range w) a -> (0 < length a)%nat -> in_range w (ext w a k).
Proof.
  intros Hw Hr Hn. set (n := Z.of_nat (length a)).
  destruct (exp_decomp n k ltac:(lia)) as [q [i [Hk Hi]]].
  rewrite (ext_at_nat w a k q i) by (auto; lia).
  destruct (Z.even q); [apply Forall_nthZ; auto; lia | apply wneg_range; auto].
Qed.

(* two lists of the same length with the same extension are equal *)
Lemma ext_inj w (a b : list Z) :
  length a = length b -> (forall k, ext w a k = ext w b k) -> a = b.
Proof.
  intros Hl H. apply nthZ_ext; auto. intros i Hi.
  rewrite <- (ext_small w a i), <- (ext_small w b i) by lia. apply H.
Qed.

(* ---------- monomial_mul ---------- *)
Lemma monomial_mul_length w p a : length (monomial_mul w p a) = length a.
Proof. unfold monomial_mul. apply map_seq_length. Qed.

Lemma monomial_mul_nth w p a i :
  (i < length a)%nat -> nthZ (monomial_mul w p a) i = ext w a (Z.of_nat i - p).
Proof. intros Hi. unfold monomial_mul. rewrite nthZ_map_seq by auto. reflexivity. Qed.

Lemma monomial_mul_range w p a :
  1 <= w -> Forall (in_range w) a -> Forall (in_range w) (monomial_mul w p a).
Proof.
  intros Hw Hr. apply Forall_of_nthZ. intros i Hi. rewrite monomial_mul_length in Hi.
  rewrite monomial_mul_nth by auto. apply ext_range; auto. lia.
Qed.

(* the extension of X^p * a is the shifted extension of a *)
Lemma ext_monomial_mul w p a k :
  1 <= w -> Forall (in_range w) a ->
  ext w (monomial_mul w p a) k = ext w a (k - p).
Proof.
  intros Hw Hr.
  destruct (Nat.eq_dec (length a) 0) as [H0|H0].
  { destruct a; [|discriminate]. unfold ext, monomial_mul; cbn [length seq map Z.of_nat].
    rewrite !Zdiv_0_r. cbn [Z.even]. unfold nthZ.
    destruct (Z.to_nat _), (Z.to_nat _); reflexivity. }
  set (n := Z.of_nat (length a)).
  destruct (exp_decomp n k ltac:(lia)) as [q [i [Hk Hi]]].
  rewrite (ext_at_nat w (monomial_mul w p a) k q i)
    by (rewrite monomial_mul_length; fold n; auto; lia).
  rewrite monomial_mul_nth by lia.
  replace (k - p) with ((Z.of_nat i - p) + q * n) by lia.
  unfold n. rewrite ext_shift by (auto; lia). reflexivity.
Qed.

Lemma monomial_mul_compose w p q a :
  1 <= w -> Forall (in_range w) a ->
  monomial_mul w p (monomial_mul w q a) = monomial_mul w (p + q) a.
Proof.
  intros Hw Hr. unfold monomial_mul at 1 3. rewrite monomial_mul_length.
  apply map_seq_ext. intros i Hi.
  rewrite ext_monomial_mul by auto. f_equal. lia.
Qed.

Lemma monomial_mul_0 w a : monomial_mul w 0 a = a.
Proof.
  apply nthZ_ext; [apply monomial_mul_length|].
  intros i Hi. rewrite monomial_mul_length in Hi. rewrite monomial_mul_nth by auto.
  rewrite Z.sub_0_r. apply ext_small; auto.
Qed.

Lemma monomial_mul_period w p s a :
  monomial_mul w (p + s * (2 * Z.of_nat (length a))) a = monomial_mul w p a.
Proof.
  unfold monomial_mul. apply map_seq_ext. intros i Hi.
  replace (Z.of_nat i - (p + s * (2 * Z.of_nat (length a))))
    with ((Z.of_nat i - p) + (- s) * (2 * Z.of_nat (length a))) by ring.
  apply ext_period. lia.
Qed.

Lemma monomial_mul_2n_id w a : monomial_mul w (2 * Z.of_nat (length a)) a = a.
Proof.
  replace (2 * Z.of_nat (length a)) with (0 + 1 * (2 * Z.of_nat (length a))) by ring.
  rewrite monomial_mul_period. apply monomial_mul_0.
Qed.

Lemma monomial_mul_mod w p a :
  monomial_mul w (p mod (2 * Z.of_nat (length a))) a = monomial_mul w p a.
Proof.
  destruct (Nat.eq_dec (length a) 0) as [H0|H0].
  { destruct a; [|discriminate]. reflexivity. }
  set (n2 := 2 * Z.of_nat (length a)).
  pose proof (Z.div_mod p n2 ltac:(lia)) as Hd.
  replace p with (p mod n2 + (p / n2) * n2) at 2 by lia.
  unfold n2. rewrite monomial_mul_period. reflexivity.
Qed.

Lemma monomial_mul_n_neg w a :
  monomial_mul w (Z.of_nat (length a)) a = map (wneg w) a.
Proof.
  apply nthZ_ext; [rewrite monomial_mul_length, map_length; reflexivity|].
  intros i Hi. rewrite monomial_mul_length in Hi. rewrite monomial_mul_nth by auto.
  rewrite (ext_at_nat w a _ (-1) i) by (auto; lia).
  rewrite nthZ_map by auto. reflexivity.
Qed.

(* ---------- item 1: the code's split / negate / copy is X^p * a ---------- *)
Lemma nthZ_app_l (l1 l2 : list Z) i : (i < length l1)%nat -> nthZ (l1 ++ l2) i = nthZ l1 i.
Proof. intros; unfold nthZ; apply app_nth1; auto. Qed.
Lemma nthZ_app_r (l1 l2 : list Z) i : (length l1 <= i)%nat -> nthZ (l1 ++ l2) i = nthZ l2 (i - length l1).
Proof. intros; unfold nthZ; apply app_nth2; auto. Qed.

Lemma nthZ_firstn (l : list Z) s i : (i < s)%nat -> nthZ (firstn s l) i = nthZ l i.
Proof.
  revert s i; induction l as [|h t IH]; intros [|s] [|i] Hi; cbn [firstn]; try reflexivity; try lia.
  unfold nthZ in *; cbn [nth]. apply IH; lia.
Qed.
Lemma nthZ_skipn (l : list Z) s i : nthZ (skipn s l) i = nthZ l (s + i).
Proof.
  revert s; induction l as [|h t IH]; intros [|s]; cbn [skipn]; try reflexivity.
  - unfold nthZ. destruct i; reflexivity.
  - unfold nthZ in *. cbn [Nat.add nth]. apply IH.
Qed.

Lemma rotate_nth w p (a : list Z) i :
  (i < length a)%nat -> nthZ (znx_rotate w p a) i = ext w a (Z.of_nat i - p).
Proof.
  intros Hi. unfold znx_rotate. cbv zeta.
  set (n := Z.of_nat (length a)).
  assert (Hn : 0 < n) by lia.
  pose proof (Z.div_mod p (2 * n) ltac:(lia)) as Hdm.
  pose proof (Z.mod_pos_bound p (2 * n) ltac:(lia)) as Hb2.
  set (m2 := p mod (2 * n)) in *. set (t := p / (2 * n)) in *.
  clearbody m2 t.
  destruct (Z.ltb_spec m2 n) as [Hlt|Hge].
  - (* m1 = m2: negate the wrapped-around head *)
    rewrite (Z.mod_small m2 n) by lia.
    set (s := Z.to_nat (n - m2)).
    assert (Hs : (s <= length a)%nat) by lia.
    assert (Hl1 : length (vneg w (skipn s a)) = Z.to_nat m2)
      by (rewrite vneg_length, skipn_length; lia).
    destruct (Z.ltb_spec (Z.of_nat i) m2) as [Hi2|Hi2].
    + rewrite nthZ_app_l by lia. unfold vneg.
      rewrite nthZ_map by (rewrite skipn_length; lia).
      rewrite nthZ_skipn.
      rewrite (ext_at_nat w a _ (- 2 * t - 1) (s + i)) by (fold n; lia).
      replace (- 2 * t - 1) with (1 + 2 * (- t - 1)) by ring.
      rewrite even_add_mul2. reflexivity.
    + rewrite nthZ_app_r by lia. rewrite Hl1.
      rewrite nthZ_firstn by lia.
      rewrite (ext_at_nat w a _ (- 2 * t) (i - Z.to_nat m2)) by (fold n; lia).
      replace (- 2 * t) with (0 + 2 * (- t)) by ring.
      rewrite even_add_mul2. reflexivity.
  - (* m1 = m2 - n: negate the tail *)
    assert (Hm1 : m2 mod n = m2 - n).
    { symmetry. apply (Z.mod_unique_pos m2 n 1 (m2 - n)); lia. }
    rewrite Hm1.
    set (s := Z.to_nat (n - (m2 - n))).
    assert (Hs : (s <= length a)%nat) by lia.
    assert (Hl1 : length (skipn s a) = Z.to_nat (m2 - n)) by (rewrite skipn_length; lia).
    destruct (Z.ltb_spec (Z.of_nat i) (m2 - n)) as [Hi2|Hi2].
    + rewrite nthZ_app_l by lia.
      rewrite nthZ_skipn.
      rewrite (ext_at_nat w a _ (- 2 * t - 2) (s + i)) by (fold n; lia).
      replace (- 2 * t - 2) with (0 + 2 * (- t - 1)) by ring.
      rewrite even_add_mul2. reflexivity.
    + rewrite nthZ_app_r by lia. rewrite Hl1. unfold vneg.
      rewrite nthZ_map by (rewrite firstn_length; lia).
      rewrite nthZ_firstn by lia.
      rewrite (ext_at_nat w a _ (- 2 * t - 1) (i - Z.to_nat (m2 - n))) by (fold n; lia).
      replace (- 2 * t - 1) with (1 + 2 * (- t - 1)) by ring.
      rewrite even_add_mul2. reflexivity.
Qed.

Theorem rotate_is_monomial_mul w p (a : list Z) :
  znx_rotate w p a = monomial_mul w p a.
Proof.
  apply nthZ_ext; [rewrite rotate_length, monomial_mul_length; reflexivity|].
  intros i Hi. rewrite rotate_length in Hi.
  rewrite rotate_nth, monomial_mul_nth by auto. reflexivity.
Qed.

(* ---------- item 2 consequences on the code-shaped rotate ---------- *)
Theorem rotate_compose w p q a :
  1 <= w -> Forall (in_range w) a ->
  znx_rotate w p (znx_rotate w q a) = znx_rotate w (p + q) a.
Proof. intros. rewrite !rotate_is_monomial_mul. apply monomial_mul_compose; auto. Qed.

Theorem rotate_inverse w p a :
  1 <= w -> Forall (in_range w) a ->
  znx_rotate w (- p) (znx_rotate w p a) = a.
Proof.
  intros. rewrite rotate_compose by auto. replace (- p + p) with 0 by ring.
  rewrite rotate_is_monomial_mul. apply monomial_mul_0.
Qed.

Theorem rotate_n_neg w a : znx_rotate w (Z.of_nat (length a)) a = map (wneg w) a.
Proof. rewrite rotate_is_monomial_mul. apply monomial_mul_n_neg. Qed.

Theorem rotate_2n_id w a : znx_rotate w (2 * Z.of_nat (length a)) a = a.
Proof. rewrite rotate_is_monomial_mul. apply monomial_mul_2n_id. Qed.

Theorem rotate_mod_2n w p a :
  znx_rotate w (p mod (2 * Z.of_nat (length a))) a = znx_rotate w p a.
Proof. rewrite !rotate_is_monomial_mul. apply monomial_mul_mod. Qed.

Lemma rotate_range w p a :
  1 <= w -> Forall (in_range w) a -> Forall (in_range w) (znx_rotate w p a).
Proof. intros. rewrite rotate_is_monomial_mul. apply monomial_mul_range; auto. Qed.
