From PV Require Import Base.MachineInt Model.Znx Model.Limbs Model.Ring Model.Poly.
Open Scope Z_scope.

Lemma vneg_length w l : length (vneg w l) = length l.
Proof. unfold vneg; apply map_length. Qed.

Lemma rotate_length w p (a : list Z) : length (znx_rotate w p a) = length a.
Proof.
  unfold znx_rotate.
  set (k := Z.to_nat _).
  destruct (_ <? _); rewrite app_length, ?vneg_length, firstn_length, skipn_length; lia.
Qed.
