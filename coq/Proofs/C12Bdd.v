(* C12 - poulpy-bin-fhe two-word BDD operations (FheUint add / sub / shifts / comparisons / and / or / xor), multi-thread entry point:
   the size query reserves threads x per-thread arenas and that is what the executor asserts and carves with Scratch::split_mut;
   each worker's arena suffices for its BDD level evaluation.  Every statement mentions the GENERATED formulas. *)
From PV Require Import Base.MachineInt Model.C12Scratch Gen.C12TmpBytes_gen Model.C12Trees
  Proofs.C12Arena Proofs.C12Hal Proofs.C12Core Proofs.C12KeySwitch Proofs.C12More Proofs.C12Conv Proofs.C12Cmux.
Open Scope Z_scope.

Lemma mod64_divide (x : Z) : x mod 64 = 0 <-> (64 | x).
Proof. split; intros H; [apply Z.mod_divide; [lia | exact H] | apply Z.mod_divide in H; [exact H | lia]]. Qed.

Lemma aligned_suffices_at (t : tree) (off b : Z) : aligned_tree t -> off mod 64 = 0 -> demand t <= b -> run_tree t (off, b) <> None.
Proof.
  intros Hal Ho Hd. pose proof (aligned_persist t Hal) as (H0 & _ & Hp).
  destruct (run_aligned t off b Hal Ho ltac:(lia)) as [H1 _]. destruct (H1 Hd) as (ws & E). rewrite E. congruence.
Qed.

(* the regions handed out by Scratch::split_mut start at aligned addresses and have exactly the requested length *)
Lemma rep_take_windows (len : Z) (k : nat) : 0 <= len -> len mod 64 = 0 -> forall off L ws r,
  off mod 64 = 0 -> 0 <= L -> run_tree (rep k (Take len)) (off, L) = Some (ws, r) ->
  Forall (fun w : window => fst w mod 64 = 0 /\ snd w = len) ws.
Proof.
  intros Hl Hm. induction k as [|k IH]; intros off L ws r Ho HL H; cbn [rep run_tree] in H.
  - injection H as <- <-. constructor.
  - rewrite (take_aligned len off L Ho HL) in H. destruct (Z.leb_spec len L) as [Hle|]; [|discriminate].
    destruct (run_tree (rep k (Take len)) (off + len, L - len)) as [[ws' r']|] eqn:E; [|discriminate].
    injection H as <- <-. constructor; [cbn [fst snd]; split; [exact Ho | reflexivity]|].
    apply (IH (off + len) (L - len) ws' r'); auto; [|lia].
    apply mod64_divide. apply Z.divide_add_r; apply mod64_divide; auto.
Qed.

Section Bdd.
  Variables fam n : Z.
  Hypothesis Hf : is_fam fam.
  Hypothesis Hn0 : 0 <= n.
  Hypothesis Hn8 : n mod 8 = 0.

  Lemma vmp_div64 (rs a rows ci co size : Z) : (64 | hal_vmp_apply_dft_to_dft_tmp_bytes fam n rs a rows ci co size).
  Proof using Hf Hn0 Hn8.
    autounfold with c12gen. destruct Hf as [-> | ->]; cbn [Z.eqb].
    - exists (2 + Z.min a rows * ci). lia.
    - exists (2 + Z.min a rows * ci). lia.
  Qed.

  Lemma bnorm_div64 : (64 | hal_vec_znx_big_normalize_tmp_bytes fam n).
  Proof using Hf Hn0 Hn8.
    apply mod64_divide. autounfold with c12gen. destruct Hf as [-> | ->]; cbn [Z.eqb]; lia.
  Qed.

  Lemma max_div64 (a b : Z) : (64 | a) -> (64 | b) -> (64 | Z.max a b).
  Proof. intros. destruct (Z.max_spec a b) as [[_ ->] | [_ ->]]; auto. Qed.

  (* cmux in (aligned, demand) form; the declared size is non-negative and a multiple of the alignment *)
  Lemma cmux_spec (res s : infos) :
    wf_infos res -> wf_infos s -> i_n res = n -> i_base2k res = i_base2k s -> i_rank res = i_rank s ->
    aligned_tree (tree_cmux fam n res s) /\ demand (tree_cmux fam n res s) <= cmux_tmp_bytes fam n res res s /\
    0 <= cmux_tmp_bytes fam n res res s /\ (64 | cmux_tmp_bytes fam n res res s).
  Proof using Hf Hn0 Hn8.
    intros Hr Hs Hn Hb Hrk.
    destruct (cmux_layout_facts fam n Hf Hn0 Hn8 res res Hr Hr Hn) as (Wt & Nt & Rt & Bt & St & Mt & T0 & T64).
    set (t := cmux_tmp_layout res res) in *.
    assert (Hrs : 0 <= i_size res) by (destruct Hr as (_&?&_); lia).
    assert (Hrr : 0 <= i_rank res) by (destruct Hr as (_&_&?&_); lia).
    assert (Hss : 0 <= i_size s) by (destruct Hs as (_&?&_); lia).
    destruct (ep_internal_spec fam n Hf Hn0 Hn8 res s Hs Hrs Hb) as [Ai Di]. pose proof (aligned_need_nonneg _ Ai).
    pose proof (ep_internal_mono fam n Hf Hn0 Hn8 res s t res s Hs Mt) as Hm.
    destruct (callee_big_normalize fam n Hf Hn0 Hn8) as [Ab Db]. pose proof (nn_bnorm fam n Hf Hn0 Hn8).
    pose proof (al_dft fam n Hf Hn0 Hn8 (i_rank res + 1) (i_size s) ltac:(lia) Hss) as HD.
    assert (Hep : (64 | glwe_external_product_internal_tmp_bytes fam n res t s)).
    { unfold glwe_external_product_internal_tmp_bytes. cbv zeta.
      destruct Hs as (Hsb & _ & Hsr & _ & _ & Hsd).
      assert (Hin : 0 <= div_ceil (div_ceil (i_max_k t) (i_base2k s)) (i_dsize s)).
      { apply div_ceil_nonneg; [|lia]. apply div_ceil_nonneg; lia. }
      apply Z.divide_add_r; [apply Z.divide_add_r|].
      - apply mod64_divide. apply (al_dft fam n Hf Hn0 Hn8); lia.
      - destruct (1 <? i_dsize s); [apply mod64_divide; apply (al_dft fam n Hf Hn0 Hn8); lia | exists 0; lia].
      - apply vmp_div64. }
    unfold tree_cmux, cmux_tmp_bytes; cbv zeta; fold (cmux_tmp_layout res res); fold t; rewrite (glwe_bytes_eq t Wt), <- Hrk.
    split; [|split; [|split]].
    - cbn [aligned_tree]. unfold ALIGN. intuition; lia.
    - cbn [demand persist]. rewrite Db. destruct_loops; lia.
    - lia.
    - apply Z.divide_add_r; [apply Z.divide_add_r; apply mod64_divide; lia | apply max_div64; [exact Hep | apply bnorm_div64]].
  Qed.

  Lemma glwe_slot_facts (res : infos) : wf_infos res -> i_n res = n ->
    GLWE_bytes_of_from_infos res = VecZnx_bytes_of (i_n res) (i_rank res + 1) (i_size res) /\
    0 <= VecZnx_bytes_of (i_n res) (i_rank res + 1) (i_size res) /\ VecZnx_bytes_of (i_n res) (i_rank res + 1) (i_size res) mod 64 = 0.
  Proof using Hf Hn0 Hn8.
    intros Hr Hn. split; [apply glwe_bytes_eq; auto|]. rewrite Hn.
    apply (al_vec_znx fam n Hf Hn0 Hn8); [destruct Hr as (_&_&?&_); lia | destruct Hr as (_&?&_); lia].
  Qed.

  (* the per-thread arena *)
  Lemma per_thread_facts (res s : infos) (state_size : Z) :
    wf_infos res -> wf_infos s -> i_n res = n -> i_base2k res = i_base2k s -> i_rank res = i_rank s -> 0 <= state_size ->
    0 <= execute_bdd_circuit_tmp_bytes fam n res state_size s /\ execute_bdd_circuit_tmp_bytes fam n res state_size s mod 64 = 0.
  Proof using Hf Hn0 Hn8.
    intros Hr Hs Hn Hb Hrk Hst. destruct (cmux_spec res s Hr Hs Hn Hb Hrk) as (_ & _ & C0 & C64).
    destruct (glwe_slot_facts res Hr Hn) as (E & B0 & B64). unfold execute_bdd_circuit_tmp_bytes. rewrite E.
    set (B := VecZnx_bytes_of (i_n res) (i_rank res + 1) (i_size res)) in *. split; [nia|].
    apply mod64_divide. apply Z.divide_add_r; [|exact C64]. apply Z.divide_mul_r. apply mod64_divide; exact B64.
  Qed.

  (* what a worker runs inside its region: eval_level on an arena of exactly the per-thread size, at any aligned address *)
  Lemma suffices_bdd_eval_level (res s : infos) (state_size nodes off : Z) :
    wf_infos res -> wf_infos s -> i_n res = n -> i_base2k res = i_base2k s -> i_rank res = i_rank s -> 0 <= state_size ->
    off mod 64 = 0 ->
    run_tree (tree_bdd_eval_level fam n state_size nodes res s) (off, execute_bdd_circuit_tmp_bytes fam n res state_size s) <> None.
  Proof using Hf Hn0 Hn8.
    intros Hr Hs Hn Hb Hrk Hst Ho. destruct (cmux_spec res s Hr Hs Hn Hb Hrk) as (Ac & Dc & C0 & _).
    pose proof (aligned_need_nonneg _ Ac).
    destruct (glwe_slot_facts res Hr Hn) as (E & B0 & B64).
    set (B := VecZnx_bytes_of (i_n res) (i_rank res + 1) (i_size res)) in *.
    assert (At : aligned_tree (Take B)) by (cbn; unfold ALIGN; lia).
    destruct (demand_rep (Z.to_nat (2 * state_size)) (Take B) ltac:(cbn; lia)) as [Hd Hp]. cbn [persist demand] in Hd, Hp.
    rewrite Z2Nat.id in Hp by lia.
    apply aligned_suffices_at; auto; unfold tree_bdd_eval_level, execute_bdd_circuit_tmp_bytes, t_take_glwe; fold B; rewrite ?E.
    - cbn [aligned_tree]. split; [apply aligned_rep; exact At | exact Ac].
    - cbn [demand persist]. rewrite Hd, Hp.
      destruct (Z.to_nat (2 * state_size)) as [|m] eqn:Em; [|assert (Z.of_nat (S m) = 2 * state_size) by (rewrite <- Em; apply Z2Nat.id; lia)];
        destruct_loops; nia.
  Qed.

  (* the executor: T::BITS output GLWEs, the split into threads regions, the packing *)
  Lemma suffices_bdd_2w_to_1w_multi_thread (res s key : infos) (bits threads state_size : Z) :
    wf_infos res -> wf_infos s -> wf_infos key -> i_n res = n -> i_base2k res = i_base2k s -> i_rank res = i_rank s ->
    i_rank res = i_rank_in key -> 0 <= bits -> 0 <= threads -> 0 <= state_size ->
    run_takes (tree_bdd_2w_to_1w_multi_thread fam n bits threads state_size res s key)
              (0, execute_bdd_circuit_2w_to_1w_multi_thread_tmp_bytes fam n bits threads state_size res s key) <> None.
  Proof using Hf Hn0 Hn8.
    intros Hr Hs Hk Hn Hb Hrk Hrkk Hbits Hth Hst.
    destruct (per_thread_facts res s state_size Hr Hs Hn Hb Hrk Hst) as [P0 P64].
    set (per := execute_bdd_circuit_tmp_bytes fam n res state_size s) in *.
    destruct (glwe_slot_facts res Hr Hn) as (E & B0 & B64).
    set (B := VecZnx_bytes_of (i_n res) (i_rank res + 1) (i_size res)) in *.
    destruct (pack_spec fam n Hf Hn0 Hn8 res res key (Z.log2 n) (Z.log2 bits) Hr Hr Hk Hn Hn Hrkk Hrkk) as [Apk Dpk].
    pose proof (aligned_need_nonneg _ Apk).
    assert (Dpk' : demand (tree_glwe_pack fam n res res key (Z.log2 n) (Z.log2 bits)) <= glwe_pack_tmp_bytes fam n res key)
      by (unfold glwe_pack_tmp_bytes in *; lia).
    assert (AtB : aligned_tree (Take B)) by (cbn; unfold ALIGN; lia).
    assert (AtP : aligned_tree (Take per)) by (cbn; unfold ALIGN; lia).
    destruct (demand_rep (Z.to_nat bits) (Take B) ltac:(cbn; lia)) as [HdB HpB]. cbn [persist demand] in HdB, HpB.
    destruct (demand_rep (Z.to_nat threads) (Take per) ltac:(cbn; lia)) as [HdP HpP]. cbn [persist demand] in HdP, HpP.
    rewrite Z2Nat.id in HpB, HpP by lia.
    assert (Htp : 0 <= threads * per) by nia.
    apply aligned_suffices; unfold tree_bdd_2w_to_1w_multi_thread, execute_bdd_circuit_2w_to_1w_multi_thread_tmp_bytes, split_mut, t_take_glwe;
      cbv zeta; fold per; fold B; rewrite ?E.
    - cbn [aligned_tree]. split; [apply aligned_rep; exact AtB|]. split; [|exact Apk]. split; [lia | apply aligned_rep; exact AtP].
    - cbn [demand persist]. rewrite HdB, HpB, HdP.
      assert (HrepP : match Z.to_nat threads with O => 0 | S m => Z.of_nat m * per + per end <= threads * per).
      { destruct (Z.to_nat threads) as [|m] eqn:Em; [lia|].
        assert (Z.of_nat (S m) = threads) by (rewrite <- Em; apply Z2Nat.id; lia). nia. }
      assert (HrepB : match Z.to_nat bits with O => 0 | S m => Z.of_nat m * B + B end <= bits * B).
      { destruct (Z.to_nat bits) as [|m] eqn:Em; [nia|].
        assert (Z.of_nat (S m) = bits) by (rewrite <- Em; apply Z2Nat.id; lia). nia. }
      lia.
  Qed.
End Bdd.
