(* C08, level 2, width-generic: the phases of the vector routines at any word width w (radix 1 <= b <= w - 2,
   headroom |x| <= 2^(w-2)) are runs of the ideal carry chain.  Port of Proofs/C08Loops.v (which fixes w = 64);
   the gap phase is stated for an arbitrary cap on the number of steps (`gap_phase_c`; the model's is cap 64). *)
From PV Require Import Base.MachineInt Model.Znx Model.Limbs Model.LimbsBig Proofs.ZnxDigit Proofs.C08Steps Proofs.C08Chain
  Proofs.C08Loops Proofs.C08WChain.
Open Scope Z_scope.

(* LimbsBig.gap_phase_c = znx_propagate_carry_through_gap with a parametric cap; Limbs.gap_phase is cap = 64 *)
Lemma gap_phase_c_64 (w b : Z) (gap : nat) (c : Z) : gap_phase w b gap c = gap_phase_c w 64 b gap c.
Proof. reflexivity. Qed.

Section Loops.
Variable w : Z.
Variable b : Z.
Hypothesis Hb : 1 <= b <= w - 2.

Let Hb1 : 1 <= b. Proof. lia. Qed.
Let Hbw : 1 <= b <= w - 2. Proof. exact Hb. Qed.

Lemma HW_pos : 0 < 2 ^ (w - 2).
Proof. apply pow2_pos; lia. Qed.

(* bound of an input sequence that keeps every carry within 2^62 *)
Definition vboundW (u : nat -> Z) : Prop := forall t, Z.abs (u t) <= 2 ^ (w - 2) * 2 ^ (b - 1).

Lemma car_hrW (u : nat -> Z) (c : Z) (j : nat) : vboundW u -> Z.abs c <= 2 ^ (w - 2) -> Z.abs (car b u c j) <= 2 ^ (w - 2).
Proof. intros Hu Hc. apply (car_bound b Hb1 (2 ^ (w - 2))); auto. pose proof HW_pos; lia. Qed.

Lemma vboundW_limbs (lsh : Z) (a : list Z) (k : nat -> nat) : 0 <= lsh < b -> hrlw w a ->
  vboundW (fun t => nthZ a (k t) * 2 ^ lsh).
Proof. intros Hl Ha t. apply shifted_bound; auto. pose proof HW_pos; lia. Qed.

Lemma vboundW_zseq : vboundW zseq.
Proof.
  intros t. unfold zseq. pose proof (pow2_pos (b - 1) ltac:(lia)). pose proof HW_pos. cbn [Z.abs]. nia.
Qed.

(* the kernels at w = w *)
Lemma mcW (lsh a c : Z) : 0 <= lsh < b -> Z.abs a <= 2 ^ (w - 2) -> Z.abs c <= 2 ^ (w - 2) ->
  middle_core w b lsh a c = (wrap b (a * 2 ^ lsh + c), bdiv b (a * 2 ^ lsh + c)).
Proof. intros Hl Ha Hc. apply middle_core_ideal; auto. Qed.

Lemma fcW (lsh a c : Z) : 0 <= lsh < b -> Z.abs a <= 2 ^ (w - 2) -> Z.abs c <= 2 ^ (w - 2) ->
  final_core w b lsh a c = wrap b (a * 2 ^ lsh + c).
Proof. intros Hl Ha Hc. apply final_core_ideal; auto. Qed.

(* ---------- the generic descending loop ---------- *)

(* iteration j reads r[top - sh - j - 1] and the carry, writes r[top - j - 1] *)
Definition dloopW (F : nat -> Z -> Z -> Z * Z) (top sh cnt : nat) (st : list Z * Z) : list Z * Z :=
  fold_left (fun (s : list Z * Z) j =>
    let '(r, c) := s in
    let '(x, c') := F j (nthZ r (top - sh - j - 1)) c in (upd r (top - j - 1) x, c')) (seq 0 cnt) st.

Lemma dloopW_spec (F : nat -> Z -> Z -> Z * Z) (g : nat -> Z -> Z) (u : nat -> Z) (fin : bool)
    (top sh cnt : nat) (r : list Z) (c : Z) :
  (cnt <= top)%nat -> vboundW u -> Z.abs c <= 2 ^ (w - 2) ->
  (forall j, (j < cnt)%nat -> Z.abs (car b u c j) <= 2 ^ (w - 2) ->
     fst (F j (nthZ r (top - sh - j - 1)) (car b u c j)) = g j (wrap b (u j + car b u c j)) /\
     ((S j < cnt)%nat \/ fin = false ->
      snd (F j (nthZ r (top - sh - j - 1)) (car b u c j)) = bdiv b (u j + car b u c j))) ->
  let res := dloopW F top sh cnt (r, c) in
  (fin = false -> snd res = car b u c cnt) /\ length (fst res) = length r /\
  forall i, nthZ (fst res) i =
    if (Nat.leb (top - cnt) i && Nat.ltb i top && Nat.ltb i (length r))%bool
    then g (top - 1 - i)%nat (dig b u c (top - 1 - i)) else nthZ r i.
Proof.
  intros Hcnt Hu Hc HF. cbv zeta. unfold dloopW.
  match goal with |- context [fold_left ?f _ _] => set (body := f) end.
  pose proof (fold_left_seq_ind body (fun j (s : list Z * Z) =>
    ((j < cnt)%nat \/ fin = false -> snd s = car b u c j) /\ length (fst s) = length r /\
    forall i, nthZ (fst s) i =
      if (Nat.leb (top - j) i && Nat.ltb i top && Nat.ltb i (length r))%bool
      then g (top - 1 - i)%nat (dig b u c (top - 1 - i)) else nthZ r i) cnt (r, c)) as HI.
  destruct HI as (I1 & I2 & I3);
    [| | split; [intros Hf; apply I1; right; exact Hf | split; [exact I2|exact I3]]].
  - cbn [fst snd]. split; [reflexivity|]. split; [reflexivity|].
    intros i. natb; try reflexivity; lia.
  - intros j [r' c'] Hj (Ic & Il & In). unfold body. cbn [fst snd] in *.
    specialize (Ic ltac:(left; exact Hj)). subst c'.
    assert (Hcj : Z.abs (car b u c j) <= 2 ^ (w - 2)) by (apply car_hrW; auto).
    assert (Er : nthZ r' (top - sh - j - 1) = nthZ r (top - sh - j - 1)).
    { rewrite In. natb; try reflexivity; lia. }
    rewrite Er. destruct (HF j Hj Hcj) as [F1 F2].
    destruct (F j (nthZ r (top - sh - j - 1)) (car b u c j)) as [x c''].
    cbn [fst snd] in *. subst x. split; [|split].
    + intros Hn. rewrite car_S. apply F2. destruct Hn as [Hn|Hn]; [left; lia|right; exact Hn].
    + rewrite upd_length. exact Il.
    + intros i. rewrite nth_upd, Il, In.
      destruct (Nat.eqb_spec i (top - j - 1)) as [Ei|Ei].
      * subst i. natb; try lia; try reflexivity.
        replace (top - 1 - (top - j - 1))%nat with j by lia. reflexivity.
      * cbn [andb]. natb; try lia; reflexivity.
Qed.

(* ---------- carry phase ---------- *)

Lemma carry_phase_carW (lsh : Z) (a : list Z) (asz cnt : nat) : 0 <= lsh < b -> hrlw w a ->
  carry_phase w b lsh a asz cnt = car b (fun t => nthZ a (asz - t - 1) * 2 ^ lsh) 0 cnt.
Proof.
  intros Hl Ha. unfold carry_phase.
  set (u := fun t : nat => nthZ a (asz - t - 1) * 2 ^ lsh).
  assert (Hu : vboundW u) by (apply vboundW_limbs; auto).
  apply (fold_left_seq_ind _ (fun j c => c = car b u 0 j) cnt 0); [reflexivity|].
  intros j c Hj ->. cbv zeta. rewrite car_S.
  destruct (Nat.eqb_spec j 0) as [E|E].
  - subst j. cbn [car]. rewrite (first_step_carry_only_ideal w b lsh Hbw Hl) by apply Ha.
    unfold u. rewrite Z.add_0_r. reflexivity.
  - unfold middle_step_carry_only. rewrite mcW; [reflexivity|exact Hl|apply Ha|].
    apply car_hrW; [exact Hu|]. pose proof HW_pos; cbn [Z.abs]; lia.
Qed.

(* ---------- middle phases ---------- *)

Lemma mid_phase_specW (ov : bool) (lsh : Z) (a : list Z) (rs as_ cnt : nat) (r : list Z) (c : Z) :
  0 <= lsh < b -> hrlw w a -> (ov = false -> hrlw w r) -> Z.abs c <= 2 ^ (w - 2) -> (cnt <= rs)%nat ->
  let u := fun t : nat => nthZ a (as_ - t - 1) * 2 ^ lsh in
  let res := mid_phase w ov b lsh a rs as_ cnt (r, c) in
  snd res = car b u c cnt /\ length (fst res) = length r /\
  forall i, nthZ (fst res) i =
    if (Nat.leb (rs - cnt) i && Nat.ltb i rs && Nat.ltb i (length r))%bool
    then (if ov then 0 else nthZ r i) + dig b u c (rs - 1 - i) else nthZ r i.
Proof.
  intros Hl Ha Hr Hc Hcnt u.
  assert (Hu : vboundW u) by (apply vboundW_limbs; auto).
  pose proof (dloopW_spec
    (fun j y c' => middle_step w ov b lsh y (nthZ a (as_ - j - 1)) c')
    (fun j d => (if ov then 0 else nthZ r (rs - j - 1)) + d) u false rs 0 cnt r c Hcnt Hu Hc) as HD.
  cbv zeta in HD. unfold dloopW in HD. unfold mid_phase.
  replace (fun (s : list Z * Z) (j : nat) => let '(r0, c0) := s in
      let '(x, c') := middle_step w ov b lsh (nthZ r0 (rs - 0 - j - 1)) (nthZ a (as_ - j - 1)) c0 in
      (upd r0 (rs - j - 1) x, c'))
    with (fun (s : list Z * Z) (j : nat) => let '(r0, c0) := s in
      let '(x, c') := middle_step w ov b lsh (nthZ r0 (rs - j - 1)) (nthZ a (as_ - j - 1)) c0 in
      (upd r0 (rs - j - 1) x, c')) in HD
    by (rewrite Nat.sub_0_r; reflexivity).
  destruct HD as (D1 & D2 & D3).
  - intros j Hj Hc'. set (c' := car b u c j) in *. rewrite Nat.sub_0_r.
    rewrite (middle_step_ideal w b lsh Hbw Hl); [|apply Ha|exact Hc'|intros E; apply Hr; exact E].
    cbn [fst snd]. split; [reflexivity|intros _; reflexivity].
  - split; [apply D1; reflexivity|]. split; [exact D2|].
    intros i. rewrite D3. natb; try reflexivity.
    replace (rs - (rs - 1 - i) - 1)%nat with i by lia. reflexivity.
Qed.

Lemma mid_phase_sub_specW (lsh : Z) (a : list Z) (rs as_ cnt : nat) (r : list Z) (c : Z) :
  0 <= lsh < b -> hrlw w a -> hrlw w r -> Z.abs c <= 2 ^ (w - 2) -> (cnt <= rs)%nat ->
  let u := fun t : nat => nthZ a (as_ - t - 1) * 2 ^ lsh in
  let res := mid_phase_sub w b lsh a rs as_ cnt (r, c) in
  snd res = car b u c cnt /\ length (fst res) = length r /\
  forall i, nthZ (fst res) i =
    if (Nat.leb (rs - cnt) i && Nat.ltb i rs && Nat.ltb i (length r))%bool
    then nthZ r i - dig b u c (rs - 1 - i) else nthZ r i.
Proof.
  intros Hl Ha Hr Hc Hcnt u.
  assert (Hu : vboundW u) by (apply vboundW_limbs; auto).
  pose proof (dloopW_spec
    (fun j y c' => middle_step_sub w b lsh y (nthZ a (as_ - j - 1)) c')
    (fun j d => nthZ r (rs - j - 1) - d) u false rs 0 cnt r c Hcnt Hu Hc) as HD.
  cbv zeta in HD. unfold dloopW in HD. unfold mid_phase_sub.
  replace (fun (s : list Z * Z) (j : nat) => let '(r0, c0) := s in
      let '(x, c') := middle_step_sub w b lsh (nthZ r0 (rs - 0 - j - 1)) (nthZ a (as_ - j - 1)) c0 in
      (upd r0 (rs - j - 1) x, c'))
    with (fun (s : list Z * Z) (j : nat) => let '(r0, c0) := s in
      let '(x, c') := middle_step_sub w b lsh (nthZ r0 (rs - j - 1)) (nthZ a (as_ - j - 1)) c0 in
      (upd r0 (rs - j - 1) x, c')) in HD
    by (rewrite Nat.sub_0_r; reflexivity).
  destruct HD as (D1 & D2 & D3).
  - intros j Hj Hc'. set (c' := car b u c j) in *. rewrite Nat.sub_0_r.
    rewrite (middle_step_sub_ideal w b lsh Hbw Hl); [|apply Ha|exact Hc'|apply Hr].
    cbn [fst snd]. split; [reflexivity|intros _; reflexivity].
  - split; [apply D1; reflexivity|]. split; [exact D2|].
    intros i. rewrite D3. natb; try reflexivity.
    replace (rs - (rs - 1 - i) - 1)%nat with i by lia. reflexivity.
Qed.

(* ---------- top phase ---------- *)

Lemma top_phase_specW (zf : bool) (lsh : Z) (re : nat) (r : list Z) (c : Z) :
  0 <= lsh < b -> (zf = false -> forall i, (i < re)%nat -> Z.abs (nthZ r i) <= 2 ^ (w - 2)) -> Z.abs c <= 2 ^ (w - 2) ->
  let u := fun t : nat => if Nat.ltb t re then (if zf then 0 else nthZ r (re - t - 1)) * 2 ^ lsh else 0 in
  let res := fst (top_phase w zf b lsh re (r, c)) in
  length res = length r /\
  forall i, nthZ res i =
    if (Nat.ltb i re && Nat.ltb i (length r))%bool then dig b u c (re - 1 - i) else nthZ r i.
Proof.
  intros Hl Hr Hc u.
  assert (Hx : forall t : nat, (t < re)%nat -> Z.abs (if zf then 0 else nthZ r (re - t - 1)) <= 2 ^ (w - 2)).
  { intros t Ht. destruct zf; [pose proof HW_pos; cbn [Z.abs]; lia|apply Hr; [reflexivity|lia]]. }
  assert (Hu : vboundW u).
  { intros t. unfold u. destruct (Nat.ltb_spec t re).
    - apply shifted_bound; auto. pose proof HW_pos; lia.
    - pose proof (pow2_pos (b - 1) ltac:(lia)). pose proof HW_pos. cbn [Z.abs]. nia. }
  pose proof (dloopW_spec
    (fun j y c' => let x0 := if zf then 0 else y in
       if Nat.eqb j (re - 1) then (final_step_assign w b lsh x0 c', c')
       else middle_step_assign w b lsh x0 c')
    (fun j d => d) u true re 0 re r c (le_n re) Hu Hc) as HD.
  cbv zeta in HD. unfold dloopW in HD. unfold top_phase.
  rewrite (fold_left_seq_ext _
    (fun (s : list Z * Z) (j : nat) => let '(r0, c0) := s in
      let '(x, c') :=
        (if Nat.eqb j (re - 1)
         then (final_step_assign w b lsh (if zf then 0 else nthZ r0 (re - 0 - j - 1)) c0, c0)
         else middle_step_assign w b lsh (if zf then 0 else nthZ r0 (re - 0 - j - 1)) c0) in
      (upd r0 (re - j - 1) x, c'))).
  2:{ intros [r0 c0] j Hj. rewrite Nat.sub_0_r. destruct (Nat.eqb j (re - 1)); reflexivity. }
  destruct HD as (_ & D2 & D3).
  - intros j Hj Hc'. set (c' := car b u c j) in *. rewrite Nat.sub_0_r. specialize (Hx j Hj).
    unfold final_step_assign, middle_step_assign.
    assert (Eu : u j = (if zf then 0 else nthZ r (re - j - 1)) * 2 ^ lsh).
    { unfold u. destruct (Nat.ltb_spec j re); [reflexivity|lia]. }
    rewrite Eu.
    destruct (Nat.eqb_spec j (re - 1)) as [E|E]; cbn [fst snd].
    + rewrite fcW by auto. split; [reflexivity|]. intros [Hn|Hn]; [lia|discriminate].
    + rewrite mcW by auto. cbn [fst snd]. split; [reflexivity|intros _; reflexivity].
  - split; [exact D2|]. intros i. rewrite D3. natb; try reflexivity; lia.
Qed.

(* ---------- gap phase ---------- *)

Lemma gap_phase_carW (cap gap : nat) (c : Z) : Z.abs c <= 2 ^ (w - 2) ->
  w - 2 <= (zn cap - 1) * b \/ (gap <= cap)%nat ->
  gap_phase_c w cap b gap c = car b zseq c gap.
Proof.
  intros Hc Hcap. rewrite <- (car_zseq_sat_w b Hb1 cap (w - 2) c gap ltac:(lia) Hc Hcap). unfold gap_phase_c.
  apply (fold_left_seq_ind _ (fun j c' => c' = car b zseq c j) (Nat.min gap cap) c); [reflexivity|].
  intros j c' Hj ->. unfold middle_step_carry_only.
  rewrite mcW; [|lia|pose proof HW_pos; cbn [Z.abs]; lia|apply car_hrW; [apply vboundW_zseq|exact Hc]].
  cbn [snd]. rewrite car_S. unfold zseq at 1. f_equal.
Qed.

End Loops.
