(* C08, level 3, width-generic: vec_znx_normalize_inter_base2k at any word width w (same radix, any signed bit
   offset), per coefficient, with a parametric cap on the gap propagation.  Port of Proofs/C08Normalize.v. *)
From PV Require Import Base.MachineInt Model.Znx Model.Limbs Model.LimbsBig Model.C08Oracle
  Proofs.ZnxDigit Proofs.C08Steps Proofs.C08Chain Proofs.C08Loops Proofs.C08Value Proofs.C08Normalize
  Proofs.C08WChain Proofs.C08WLoops.
Open Scope Z_scope.

(* LimbsBig.normalize_inter_c: the gap cap is a parameter; Limbs.normalize_inter is the instance cap = 64 *)
Lemma normalize_inter_c_64 (w b off : Z) (a r0 : list Z) :
  normalize_inter w b off a r0 = normalize_inter_c w 64 b off a r0.
Proof. reflexivity. Qed.

Section Inter.
Variable w : Z.
Variable b : Z.
Hypothesis Hb : 1 <= b <= w - 2.
Variable cap : nat.

Let Hb1 : 1 <= b. Proof. lia. Qed.

(* the per-phase input sequences are pieces of the global sequence vin *)
Lemma car_lowW (lsh : Z) (a : list Z) (cnt : nat) : (cnt <= length a)%nat ->
  car b (fun t => nthZ a (length a - t - 1) * 2 ^ lsh) 0 cnt = car b (vin a lsh) 0 cnt.
Proof.
  intros Hc. apply car_ext. intros t Ht. unfold vin.
  destruct (Nat.ltb_spec t (length a)); [|lia]. f_equal. f_equal. lia.
Qed.

Lemma car_midW (lsh : Z) (a : list Z) (a_start p cnt : nat) :
  (a_start <= length a)%nat -> p = (length a - a_start)%nat -> (cnt <= a_start)%nat ->
  car b (fun t => nthZ a (a_start - t - 1) * 2 ^ lsh) (car b (vin a lsh) 0 p) cnt
  = car b (vin a lsh) 0 (p + cnt).
Proof.
  intros H1 H2 H3. rewrite car_shift. apply car_ext. intros t Ht. unfold vin.
  destruct (Nat.ltb_spec (p + t) (length a)); [|lia]. f_equal. f_equal. lia.
Qed.

Lemma dig_midW (lsh : Z) (a : list Z) (a_start p cnt s : nat) :
  (a_start <= length a)%nat -> p = (length a - a_start)%nat -> (cnt <= a_start)%nat -> (s < cnt)%nat ->
  dig b (fun t => nthZ a (a_start - t - 1) * 2 ^ lsh) (car b (vin a lsh) 0 p) s
  = dig b (vin a lsh) 0 (p + s).
Proof.
  intros H1 H2 H3 H4. rewrite dig_shift. apply dig_ext. intros t Ht. unfold vin.
  destruct (Nat.ltb_spec (p + t) (length a)); [|lia]. f_equal. f_equal. lia.
Qed.

(* continuing the chain above the top limb of a: zero inputs *)
Lemma car_aboveW (lsh : Z) (a : list Z) (g : nat) :
  car b zseq (car b (vin a lsh) 0 (length a)) g = car b (vin a lsh) 0 (length a + g).
Proof.
  rewrite car_shift. apply car_ext. intros t Ht. rewrite vin_zero by lia. reflexivity.
Qed.

Lemma dig_aboveW (lsh : Z) (a : list Z) (p s : nat) (u : nat -> Z) : (length a <= p)%nat ->
  (forall t, u t = 0) ->
  dig b u (car b (vin a lsh) 0 p) s = dig b (vin a lsh) 0 (p + s).
Proof.
  intros Hp Hu. rewrite dig_shift. apply dig_ext. intros t Ht. rewrite vin_zero by lia. apply Hu.
Qed.

Lemma vboundW_vin (lsh : Z) (a : list Z) : 0 <= lsh < b -> hrlw w a -> vboundW w b (vin a lsh).
Proof.
  intros Hl Ha t. unfold vin. destruct (Nat.ltb_spec t (length a)).
  - apply shifted_bound; auto. pose proof (HW_pos w b Hb); lia.
  - pose proof (pow2_pos (b - 1) ltac:(lia)). pose proof (HW_pos w b Hb). cbn [Z.abs]. nia.
Qed.

Lemma car_vin_hrW (lsh : Z) (a : list Z) (j : nat) : 0 <= lsh < b -> hrlw w a ->
  Z.abs (car b (vin a lsh) 0 j) <= 2 ^ (w - 2).
Proof.
  intros Hl Ha. apply car_hrW; auto. apply vboundW_vin; auto. pose proof (HW_pos w b Hb); cbn [Z.abs]; lia.
Qed.

(* closed form of normalize_inter *)
Theorem normalize_inter_c_nth (off : Z) (a r0 : list Z) : hrlw w a ->
  w - 2 <= (zn cap - 1) * b \/ - (off / b) - zn (length r0) <= zn cap ->
  let out := normalize_inter_c w cap b off a r0 in
  length out = length r0 /\
  forall i, (i < length r0)%nat ->
    nthZ out i = dgz b (vin a (off mod b)) (zn (length a) - off / b - 1 - zn i).
Proof.
  intros Ha Hcap. cbv zeta. unfold normalize_inter_c.
  rewrite (split_offset_spec b off) by lia.
  assert (Hl : 0 <= off mod b < b) by (apply Z.mod_pos_bound; lia).
  set (lsh := off mod b) in *. set (lo := off / b) in *. clearbody lsh lo.
  set (rsz := length r0). set (asz := length a).
  set (res_end := natc (- lo) 0 (zn rsz)).
  set (res_start := natc (zn asz - lo) 0 (zn rsz)).
  set (a_end := natc lo 0 (zn asz)).
  set (a_start := natc (zn rsz + lo) 0 (zn asz)).
  set (a_out := (asz - a_start)%nat).
  set (mid := (a_start - a_end)%nat).
  set (V := vin a lsh).
  (* shape arithmetic *)
  destruct (inter_shape lo rsz asz) as (Hshape & Hpos_mid & Htop & Hzero).
  fold res_end res_start a_end a_start a_out mid in Hshape, Hpos_mid, Htop, Hzero.
  destruct Hshape as (S1 & S2 & S3 & S4 & S5 & S6).
  assert (Eao : a_out = (asz - a_start)%nat) by reflexivity.
  assert (Emd : mid = (a_start - a_end)%nat) by reflexivity.
  clearbody res_end res_start a_end a_start a_out mid.
  (* phases *)
  rewrite (carry_phase_carW w b Hb lsh a asz a_out Hl Ha).
  pose proof (car_lowW lsh a a_out ltac:(unfold asz in *; lia)) as CL. fold asz V in CL.
  rewrite CL. clear CL.
  destruct (zero_range_spec r0 res_start rsz) as [Z1 Z2].
  set (r1 := zero_range r0 res_start rsz) in *.
  assert (Hc0 : Z.abs (car b V 0 a_out) <= 2 ^ (w - 2)) by (apply car_vin_hrW; auto).
  destruct (mid_phase_specW w b Hb true lsh a res_start a_start mid r1 (car b V 0 a_out) Hl Ha
              ltac:(discriminate) Hc0 S3) as (M1 & M2 & M3).
  destruct (mid_phase w true b lsh a res_start a_start mid (r1, car b V 0 a_out)) as [r2 c2].
  cbn [fst snd] in M1, M2, M3. cbv beta iota.
  pose proof (car_midW lsh a a_start a_out mid S1 Eao S2) as CM. fold V in CM.
  rewrite CM in M1. clear CM.
  assert (Hc2 : Z.abs c2 <= 2 ^ (w - 2)) by (rewrite M1; apply car_vin_hrW; auto).
  set (gap := (Z.to_nat (- lo) - rsz)%nat) in *.
  assert (Egap : gap = (Z.to_nat (- lo) - rsz)%nat) by reflexivity. clearbody gap.
  set (c3 := if lo <? 0 then gap_phase_c w cap b gap c2 else c2).
  assert (Hc3 : c3 = if lo <? 0 then car b zseq c2 gap else c2).
  { unfold c3. destruct (lo <? 0); [|reflexivity]. apply (gap_phase_carW w b Hb); [exact Hc2|].
    destruct Hcap as [Hcap|Hcap]; [left; exact Hcap|right]. clear - Hcap Egap. unfold rsz, zn in *. lia. }
  clear Hcap.
  assert (Hc3b : Z.abs c3 <= 2 ^ (w - 2)).
  { rewrite Hc3. destruct (lo <? 0); [|exact Hc2]. apply car_hrW; auto. apply vboundW_zseq; auto. }
  destruct (top_phase_specW w b Hb true lsh res_end r2 c3 Hl ltac:(discriminate) Hc3b) as [T1 T2].
  cbv beta in T2.
  set (out := fst (top_phase w true b lsh res_end (r2, c3))) in *.
  clear Hc0 Hc2 Hc3b.
  split; [rewrite T1, M2; exact Z1|].
  intros i Hi. rewrite T2, M2, Z1.
  destruct (Nat.ltb_spec i res_end) as [Htp|Htp].
  - (* top limbs: carries only *)
    destruct (Nat.ltb_spec i (length r0)) as [_|]; [|unfold rsz in *; lia]. cbn [andb].
    destruct (Htop ltac:(lia)) as (Hlo & Ham & Hg).
    rewrite Hc3. destruct (Z.ltb_spec lo 0) as [_|]; [|lia].
    rewrite M1, Ham.
    pose proof (car_aboveW lsh a gap) as CA. fold asz V in CA. rewrite CA. clear CA.
    pose proof (dig_aboveW lsh a (asz + gap) (res_end - 1 - i)
                  (fun t : nat => if Nat.ltb t res_end then 0 * 2 ^ lsh else 0)
                  ltac:(unfold asz; lia) ltac:(intros t; cbv beta; destruct (Nat.ltb t res_end); [apply Z.mul_0_l|reflexivity])) as DA. fold V in DA. rewrite DA. clear DA.
    rewrite dgz_nonneg by (unfold zn in *; lia).
    f_equal. unfold zn in *. lia.
  - rewrite M3, Z1. fold rsz.
    destruct (Nat.ltb_spec i res_start) as [Hmd|Hmd].
    + (* limbs computed from a *)
      destruct (Nat.leb_spec (res_start - mid) i) as [_|]; [|lia].
      destruct (Nat.ltb_spec i rsz) as [_|]; [|unfold rsz in *; lia]. cbn [andb].
      rewrite Z.add_0_l.
      pose proof (dig_midW lsh a a_start a_out mid (res_start - 1 - i) S1 Eao S2 ltac:(lia)) as DM.
      fold V in DM. rewrite DM. clear DM. specialize (Hpos_mid ltac:(lia)).
      rewrite dgz_nonneg by (unfold zn in *; lia).
      f_equal. unfold zn in *. lia.
    + (* limbs below the precision of a: zero *)
      rewrite Bool.andb_false_r. cbn [andb]. rewrite Z2.
      destruct (Nat.leb_spec res_start i) as [_|]; [|lia].
      destruct (Nat.ltb_spec i rsz) as [_|]; [|unfold rsz in *; lia]. cbn [andb].
      rewrite dgz_neg; [reflexivity|]. apply Hzero; lia.
Qed.

End Inter.


Section InterValueW.
Variable w : Z.
Variable b : Z.
Hypothesis Hb : 1 <= b <= w - 2.
Variable cap : nat.

(* the cap is large enough: either it saturates every carry within the headroom, or the gap is below it *)
Definition gap_cap_ok (off : Z) (rsz : nat) : Prop :=
  w - 2 <= (zn cap - 1) * b \/ - (off / b) - zn rsz <= zn cap.

Theorem normalize_inter_c_value (off : Z) (a r0 : list Z) :
  Forall (fun x => Z.abs x <= 2 ^ (w - 2)) a -> gap_cap_ok off (length r0) ->
  let out := normalize_inter_c w cap b off a r0 in
  length out = length r0 /\
  Forall (in_range b) out /\
  out = normalize_inter_c w cap b off a (zeros (length r0)) /\
  forall P, zn (length r0) * b + zn (length a) * b + Z.abs off <= P ->
    let D := tor_abs P (val_scaled P b out - val_scaled (P + off) b a) in
    D <= 2 ^ (P - zn (length r0) * b) /\
    (zn (length a) * b - off <= zn (length r0) * b -> D = 0).
Proof.
  intros HF Hcap. apply hrlw_of_Forall in HF. cbv zeta.
  destruct (normalize_inter_c_nth w b Hb cap off a r0 HF Hcap) as [L1 N1].
  destruct (normalize_inter_c_nth w b Hb cap off a (zeros (length r0)) HF
              ltac:(rewrite zeros_length; exact Hcap)) as [L2 N2].
  rewrite zeros_length in L2, N2.
  split; [exact L1|]. split; [|split].
  - apply Forall_of_nth. intros i Hi. rewrite N1 by lia. apply dgz_range; lia.
  - apply list_eq_nth; [lia|]. intros i Hi. rewrite N1, N2 by lia. reflexivity.
  - intros P HP.
    pose proof (Z.div_mod off b ltac:(lia)) as Hoff.
    assert (Hl : 0 <= off mod b < b) by (apply Z.mod_pos_bound; lia).
    assert (Eo : off / b * b + off mod b = off) by lia.
    pose proof (window_value b P (off / b) (off mod b) a (normalize_inter_c w cap b off a r0)
                  ltac:(lia) Hl ltac:(intros i Hi; apply N1; lia)) as W.
    rewrite Eo, L1 in W. apply W. exact HP.
Qed.

End InterValueW.

(* ---------- the instances in use ---------- *)

(* the i64 routine (cap 64) at any width w with w - 2 <= 63 b; in particular w = 64 *)
Theorem normalize_inter_value_w (w b : Z) (off : Z) (a r0 : list Z) : 1 <= b <= w - 2 ->
  w - 2 <= 63 * b \/ - (off / b) - zn (length r0) <= 64 ->
  Forall (fun x => Z.abs x <= 2 ^ (w - 2)) a ->
  let out := normalize_inter w b off a r0 in
  length out = length r0 /\
  Forall (in_range b) out /\
  out = normalize_inter w b off a (zeros (length r0)) /\
  forall P, zn (length r0) * b + zn (length a) * b + Z.abs off <= P ->
    let D := tor_abs P (val_scaled P b out - val_scaled (P + off) b a) in
    D <= 2 ^ (P - zn (length r0) * b) /\
    (zn (length a) * b - off <= zn (length r0) * b -> D = 0).
Proof.
  intros Hb Hcap HF. rewrite !normalize_inter_c_64.
  apply (normalize_inter_c_value w b Hb 64 off a r0 HF). exact Hcap.
Qed.

(* the i128 routine of the NTT120 family: width 128, cap 128, every radix 1..126, every offset *)
Theorem normalize_inter_value_128 (b : Z) (off : Z) (a r0 : list Z) : 1 <= b <= 126 ->
  Forall (fun x => Z.abs x <= 2 ^ 126) a ->
  let out := normalize_inter_c 128 128 b off a r0 in
  length out = length r0 /\
  Forall (in_range b) out /\
  out = normalize_inter_c 128 128 b off a (zeros (length r0)) /\
  forall P, zn (length r0) * b + zn (length a) * b + Z.abs off <= P ->
    let D := tor_abs P (val_scaled P b out - val_scaled (P + off) b a) in
    D <= 2 ^ (P - zn (length r0) * b) /\
    (zn (length a) * b - off <= zn (length r0) * b -> D = 0).
Proof.
  intros Hb HF.
  apply (normalize_inter_c_value 128 b ltac:(lia) 128 off a r0 HF). left. change (zn 128) with 128. lia.
Qed.

(* the width-64 theorem of Proofs/C08Normalize.v is the instance w = 64 *)
Corollary normalize_inter_value_64 (b : Z) (off : Z) (a r0 : list Z) : 1 <= b <= 62 ->
  Forall (fun x => Z.abs x <= 2 ^ 62) a ->
  let out := normalize_inter 64 b off a r0 in
  length out = length r0 /\
  Forall (in_range b) out /\
  out = normalize_inter 64 b off a (zeros (length r0)) /\
  forall P, zn (length r0) * b + zn (length a) * b + Z.abs off <= P ->
    let D := tor_abs P (val_scaled P b out - val_scaled (P + off) b a) in
    D <= 2 ^ (P - zn (length r0) * b) /\
    (zn (length a) * b - off <= zn (length r0) * b -> D = 0).
Proof.
  intros Hb HF. apply (normalize_inter_value_w 64 b off a r0 ltac:(lia)); [left; lia|exact HF].
Qed.

(* the dispatcher of the NTT120 family on equal radices *)
Theorem normalize_big_same_value (b : Z) (off : Z) (a r0 : list Z) : 1 <= b <= 126 ->
  Forall (fun x => Z.abs x <= 2 ^ 126) a ->
  exists out, normalize_big 128 b b off a r0 = Some out /\
  length out = length r0 /\
  Forall (in_range b) out /\
  normalize_big 128 b b off a (zeros (length r0)) = Some out /\
  forall P, zn (length r0) * b + zn (length a) * b + Z.abs off <= P ->
    let D := tor_abs P (val_scaled P b out - val_scaled (P + off) b a) in
    D <= 2 ^ (P - zn (length r0) * b) /\
    (zn (length a) * b - off <= zn (length r0) * b -> D = 0).
Proof.
  intros Hb HF. unfold normalize_big. rewrite Z.eqb_refl.
  destruct (normalize_inter_value_128 b off a r0 Hb HF) as (L & B & I & V).
  exists (normalize_inter_c 128 128 b off a r0).
  split; [reflexivity|]. split; [exact L|]. split; [exact B|]. split; [f_equal; symmetry; exact I|exact V].
Qed.
