(* C18 — level 0 (VecZnx / ScalarZnx / MatZnx): inversion lemmas of the two readers, totality, invariant,
   metadata on failure, round trip; the refutations for the code as it is. *)
From PV Require Import Base.MachineInt Model.C18Serial Proofs.C18Bytes.
Open Scope Z_scope.

(* ---------- the notions the theorems speak about ---------- *)
Definition good (o : outcome) : Prop := o = Ok \/ o = Err.

(* the header can be used with the buffer: limb count within capacity, every addressable byte exists *)
Definition inv_flat (r : flat) : Prop :=
  length (fh r) = nhdr (fk r) /\
  lprod (cap_factors (fk r) (fh r)) <= blen (fd r) /\
  (fk r = KVec -> hd_ (fh r) 2 <= hd_ (fh r) 3).

(* weaker: the active part only (size instead of max_size) *)
Definition inv_active (r : flat) : Prop :=
  length (fh r) = nhdr (fk r) /\ lprod (factors (fk r) (fh r)) <= blen (fd r).

(* an object whose header arithmetic does not overflow in any of the orders the code uses, payload inside the buffer *)
Definition wf_flat (x : flat) : Prop :=
  length (fh x) = nhdr (fk x) /\ Forall u64 (fh x) /\
  snd (chain (factors (fk x) (fh x))) = false /\
  snd (wchain (fk x) (fh x)) = false /\
  snd (chain (fixed_factors (fk x) (fh x))) = false /\
  payload_len x <= blen (fd x).

(* what a successful read leaves in the receiver *)
Definition loaded (h : list Z) (r x : flat) : flat :=
  {| fk := fk r; fh := h; fd := active x ++ skipn (Z.to_nat (payload_len x)) (fd r) |}.

(* the stream's header does not overflow: the guard under which the current reader is total *)
Definition hdr_no_overflow (k : lkind) (s : bytes) : Prop :=
  forall h s1, rd_fields (nhdr k) s = Some (h, s1) -> snd (chain (factors k h)) = false.

(* ---------- small facts ---------- *)
Lemma hd_u64 (h : list Z) (i : nat) : Forall u64 h -> u64 (hd_ h i).
Proof.
  intros HF. unfold hd_. destruct (Nat.lt_ge_cases i (length h)) as [Hl|Hl].
  - eapply Forall_forall; [exact HF|]. apply nth_In; exact Hl.
  - rewrite nth_overflow by exact Hl. unfold u64. split; [lia|reflexivity].
Qed.

Lemma u64_8 : u64 8. Proof. unfold u64; split; [lia|reflexivity]. Qed.

Ltac u64s HF := repeat (apply Forall_cons); try apply Forall_nil; try (apply hd_u64; exact HF); try apply u64_8.

Lemma factors_u64 (k : lkind) (h : list Z) : Forall u64 h -> Forall u64 (factors k h).
Proof.
  intros HF; destruct k; cbn [factors]; repeat (apply Forall_cons); try apply Forall_nil; try apply hd_u64; auto using u64_8.
Qed.

Lemma fixed_factors_u64 (k : lkind) (h : list Z) : Forall u64 h -> Forall u64 (fixed_factors k h).
Proof.
  intros HF; destruct k; cbn [fixed_factors factors]; repeat (apply Forall_cons); try apply Forall_nil; try apply hd_u64; auto using u64_8.
Qed.

Lemma factors_ne (k : lkind) (h : list Z) : factors k h <> [].
Proof. destruct k; cbn; discriminate. Qed.
Lemma fixed_factors_ne (k : lkind) (h : list Z) : fixed_factors k h <> [].
Proof. destruct k; cbn; discriminate. Qed.

Lemma lprod_fixed (k : lkind) (h : list Z) : lprod (fixed_factors k h) = lprod (factors k h).
Proof. destruct k; cbn [fixed_factors factors lprod fold_right]; ring. Qed.

Lemma blen_nonneg (d : bytes) : 0 <= blen d. Proof. unfold blen; lia. Qed.

Lemma wchain_exact (k : lkind) (h : list Z) :
  Forall u64 h -> snd (wchain k h) = false ->
  fst (wchain k h) = lprod (factors k h) /\ 0 <= lprod (factors k h) < 2 ^ 64.
Proof.
  intros HF Hs. destruct k; cbn [wchain] in *.
  - apply chain_exact; [apply factors_u64; exact HF|apply factors_ne|exact Hs].
  - apply chain_exact; [apply factors_u64; exact HF|apply factors_ne|exact Hs].
  - set (a := chain [hd_ h 2; hd_ h 3]) in *. set (b := chain [hd_ h 0; hd_ h 4; hd_ h 1; 8]) in *.
    cbn [fst snd] in *.
    destruct (snd a) eqn:Ea; [discriminate|]. destruct (snd b) eqn:Eb; [discriminate|]. cbn [orb] in Hs.
    apply Z.leb_gt in Hs.
    assert (Ha : fst a = lprod [hd_ h 2; hd_ h 3] /\ 0 <= lprod [hd_ h 2; hd_ h 3] < 2 ^ 64).
    { apply chain_exact; [u64s HF|discriminate|exact Ea]. }
    assert (Hb : fst b = lprod [hd_ h 0; hd_ h 4; hd_ h 1; 8] /\ 0 <= lprod [hd_ h 0; hd_ h 4; hd_ h 1; 8] < 2 ^ 64).
    { apply chain_exact; [u64s HF|discriminate|exact Eb]. }
    destruct Ha as [Ha1 Ha2]. destruct Hb as [Hb1 Hb2]. rewrite Ha1, Hb1 in *.
    cbn [factors lprod fold_right] in *. unfold wrapu. rewrite Z.mod_small by nia. split; [ring|nia].
Qed.

Lemma wf_payload (x : flat) :
  wf_flat x ->
  payload_len x = lprod (factors (fk x) (fh x)) /\ u64 (payload_len x) /\
  fst (chain (factors (fk x) (fh x))) = payload_len x /\
  fst (chain (fixed_factors (fk x) (fh x))) = payload_len x.
Proof.
  intros (Hl & HF & H1 & H2 & H3 & Hp).
  destruct (wchain_exact _ _ HF H2) as [Hw Hr].
  destruct (chain_exact _ (factors_u64 (fk x) _ HF) (factors_ne _ _) H1) as [Hc _].
  destruct (chain_exact _ (fixed_factors_u64 (fk x) _ HF) (fixed_factors_ne _ _) H3) as [Hd _].
  unfold payload_len. rewrite Hw, Hc, Hd, lprod_fixed. unfold u64. auto.
Qed.

Lemma active_length (x : flat) : wf_flat x -> length (active x) = Z.to_nat (payload_len x).
Proof.
  intros Hwf. destruct (wf_payload x Hwf) as (_ & Hu & _). destruct Hwf as (_ & _ & _ & _ & _ & Hp).
  unfold active. apply firstn_length_le. unfold blen in Hp. lia.
Qed.

(* ---------- the reader as it is: what can come out ---------- *)
Lemma read_flat_cases (dbg partial : bool) (r : flat) (s : bytes) (o : outcome) (r' : flat) (t : bytes) :
  read_flat dbg partial r s = (o, r', t) ->
  (o = Err /\ fk r' = fk r /\ fh r' = fh r /\ length (fd r') = length (fd r)) \/
  (o = PanicOverflow /\ r' = r /\ dbg = true /\
     exists h s1, rd_fields (nhdr (fk r)) s = Some (h, s1) /\ snd (chain (factors (fk r) h)) = true) \/
  (exists h s1 len s2 a,
     rd_fields (nhdr (fk r)) s = Some (h, s1) /\ rd 8 s1 = Some (len, s2) /\
     fst (chain (factors (fk r) h)) = len /\ len <= blen (fd r) /\
     ((o = Ok /\ snd (chain (factors (fk r) h)) = false) \/
      (o = OkWrapped /\ snd (chain (factors (fk r) h)) = true /\ dbg = false)) /\
     s2 = a ++ t /\ length a = Z.to_nat len /\
     r' = {| fk := fk r; fh := h; fd := a ++ skipn (Z.to_nat len) (fd r) |}).
Proof.
  unfold read_flat.
  destruct (rd_fields (nhdr (fk r)) s) as [[h s1]|] eqn:E1.
  2:{ intros H; inversion H; subst. left; auto. }
  destruct (rd 8 s1) as [[len s2]|] eqn:E2.
  2:{ intros H; inversion H; subst. left; auto. }
  destruct (snd (chain (factors (fk r) h)) && dbg) eqn:E3.
  { intros H; inversion H; subst. apply andb_true_iff in E3. destruct E3 as [E3 E3'].
    right; left. repeat split; auto. exists h, s1; auto. }
  destruct (fst (chain (factors (fk r) h)) =? len) eqn:E4; cbn [negb].
  2:{ intros H; inversion H; subst. left; auto. }
  apply Z.eqb_eq in E4.
  destruct (blen (fd r) <? len) eqn:E5.
  { intros H; inversion H; subst. left; auto. }
  apply Z.ltb_ge in E5.
  assert (Hn : (Z.to_nat len <= length (fd r))%nat) by (unfold blen in E5; lia).
  replace (Z.to_nat len <=? length (fd r))%nat with true by (symmetry; apply Nat.leb_le; exact Hn).
  cbn [negb].
  destruct (rx partial (Z.to_nat len) (fd r) s2) as [[ok d'] s3] eqn:E6.
  destruct ok.
  - intros H; inversion H; subst. apply rx_ok in E6. destruct E6 as (a & Hs2 & Hla & Hd).
    right; right. exists h, s1, (fst (chain (factors (fk r) h))), s2, a.
    repeat split; auto.
    + destruct (snd (chain (factors (fk r) h))) eqn:E7.
      * right. cbn [andb] in E3. auto.
      * left; auto.
    + subst d'. reflexivity.
  - intros H; inversion H; subst. left. repeat split; auto. cbn [fd].
    pose proof (rx_length partial _ (fd r) s2 Hn) as Hl. rewrite E6 in Hl. exact Hl.
Qed.

Lemma read_flat_never_oob (dbg partial : bool) (r : flat) (s : bytes) :
  fst (fst (read_flat dbg partial r s)) <> PanicOob.
Proof.
  destruct (read_flat dbg partial r s) as [[o r'] t] eqn:E. cbn [fst].
  apply read_flat_cases in E. destruct E as [(-> & _)|[(-> & _)|(h & s1 & len & s2 & a & _ & _ & _ & _ & [(-> & _)|(-> & _)] & _)]]; discriminate.
Qed.

(* read_total under the guard "the header of the stream does not overflow" *)
Lemma read_flat_total_guarded (dbg partial : bool) (r : flat) (s : bytes) :
  hdr_no_overflow (fk r) s -> good (fst (fst (read_flat dbg partial r s))).
Proof.
  intros Hg. destruct (read_flat dbg partial r s) as [[o r'] t] eqn:E. cbn [fst].
  apply read_flat_cases in E.
  destruct E as [(-> & _)|[(-> & _ & _ & h & s1 & E1 & E2)|(h & s1 & len & s2 & a & E1 & _ & _ & _ & [(-> & _)|(-> & E2 & _)] & _)]].
  - right; reflexivity.
  - rewrite (Hg _ _ E1) in E2. discriminate.
  - left; reflexivity.
  - rewrite (Hg _ _ E1) in E2. discriminate.
Qed.

(* metadata untouched on Err (true of the HAL readers as they are) *)
Lemma read_flat_err_leaves_metadata (dbg partial : bool) (r : flat) (s : bytes) (r' : flat) (t : bytes) :
  read_flat dbg partial r s = (Err, r', t) ->
  fk r' = fk r /\ fh r' = fh r /\ length (fd r') = length (fd r).
Proof.
  intros E. apply read_flat_cases in E.
  destruct E as [(_ & H)|[(H & _)|(h & s1 & len & s2 & a & _ & _ & _ & _ & [(H & _)|(H & _)] & _)]]; try discriminate H.
  exact H.
Qed.

Lemma read_flat_length (dbg partial : bool) (r : flat) (s : bytes) :
  length (fd (snd (fst (read_flat dbg partial r s)))) = length (fd r) /\
  fk (snd (fst (read_flat dbg partial r s))) = fk r.
Proof.
  destruct (read_flat dbg partial r s) as [[o r'] t] eqn:E. cbn [fst snd].
  apply read_flat_cases in E.
  destruct E as [(_ & Hk & _ & Hl)|[(_ & -> & _)|(h & s1 & len & s2 & a & _ & E2 & _ & Hle & _ & _ & Hla & ->)]]; auto.
  cbn [fd fk]. split; [|reflexivity]. rewrite app_length, skipn_length. apply rd_u64 in E2. unfold u64, blen in *. lia.
Qed.

(* the active part stays inside the buffer after Ok and after Err *)
Lemma read_flat_preserves_active (dbg partial : bool) (r : flat) (s : bytes) (o : outcome) (r' : flat) (t : bytes) :
  read_flat dbg partial r s = (o, r', t) -> good o -> inv_active r -> inv_active r'.
Proof.
  intros E Hg (Hl & Hp). pose proof E as E0. apply read_flat_cases in E.
  destruct E as [(_ & Hk & Hh & Hd)|[(-> & _)|(h & s1 & len & s2 & a & E1 & E2 & E3 & Hle & [(_ & E4)|(-> & _)] & _ & Hla & ->)]].
  - unfold inv_active, blen. rewrite Hk, Hh, Hd. auto.
  - destruct Hg; discriminate.
  - destruct (rd_fields_some _ _ _ _ E1) as (Hlh & HF & _).
    destruct (chain_exact _ (factors_u64 (fk r) _ HF) (factors_ne _ _) E4) as [Hc _].
    unfold inv_active. cbn [fk fh fd]. split; [exact Hlh|].
    rewrite <- Hc, E3. unfold blen. rewrite app_length, skipn_length.
    apply rd_u64 in E2. unfold u64, blen in *. lia.
  - destruct Hg; discriminate.
Qed.

(* full invariant under the guard on the stream's max_size (ScalarZnx / MatZnx: no guard needed) *)
Lemma read_flat_preserves_inv_guarded (dbg partial : bool) (r : flat) (s : bytes) (o : outcome) (r' : flat) (t : bytes) :
  read_flat dbg partial r s = (o, r', t) -> good o -> inv_flat r ->
  (fk r = KVec -> o = Ok -> hd_ (fh r') 2 <= hd_ (fh r') 3 /\ lprod (cap_factors KVec (fh r')) <= blen (fd r)) ->
  inv_flat r'.
Proof.
  intros E Hg (Hl & Hp & Hs) Hguard. pose proof E as E0. apply read_flat_cases in E.
  destruct E as [(_ & Hk & Hh & Hd)|[(-> & _)|(h & s1 & len & s2 & a & E1 & E2 & E3 & Hle & [(-> & E4)|(-> & _)] & _ & Hla & ->)]].
  - unfold inv_flat, blen. rewrite Hk, Hh, Hd. auto.
  - destruct Hg; discriminate.
  - destruct (rd_fields_some _ _ _ _ E1) as (Hlh & HF & _).
    destruct (chain_exact _ (factors_u64 (fk r) _ HF) (factors_ne _ _) E4) as [Hc _].
    assert (Hlen : blen (a ++ skipn (Z.to_nat len) (fd r)) = blen (fd r)).
    { unfold blen. rewrite app_length, skipn_length. apply rd_u64 in E2. unfold u64, blen in *. lia. }
    unfold inv_flat. cbn [fk fh fd] in *. rewrite Hlen. split; [exact Hlh|].
    destruct (fk r) eqn:Ek.
    + destruct (Hguard eq_refl eq_refl) as [G1 G2]. split; [exact G2|intros _; exact G1].
    + split; [|discriminate]. cbn [cap_factors]. rewrite <- Hc, E3. exact Hle.
    + split; [|discriminate]. cbn [cap_factors]. rewrite <- Hc, E3. exact Hle.
  - destruct Hg; discriminate.
Qed.

(* round trip *)
Lemma read_flat_roundtrip (dbg partial : bool) (r x : flat) (tl : bytes) :
  wf_flat x -> fk r = fk x -> payload_len x <= blen (fd r) ->
  read_flat dbg partial r (write_flat x ++ tl) = (Ok, loaded (fh x) r x, tl).
Proof.
  intros Hwf Hk Hcap. pose proof (wf_payload x Hwf) as (Hpl & Hu & Hc & _).
  pose proof (active_length x Hwf) as Hal.
  destruct Hwf as (Hl & HF & H1 & H2 & H3 & Hp).
  unfold read_flat, write_flat. rewrite Hk, <- Hl, <- !app_assoc.
  rewrite rd_fields_app by exact HF.
  rewrite rd_le by (rewrite pow256_8; exact Hu).
  rewrite H1. cbn [andb]. rewrite Hc, Z.eqb_refl. cbn [negb].
  replace (blen (fd r) <? payload_len x) with false by (symmetry; apply Z.ltb_ge; exact Hcap).
  replace (Z.to_nat (payload_len x) <=? length (fd r))%nat with true
    by (symmetry; apply Nat.leb_le; unfold blen in Hcap; unfold u64 in Hu; lia).
  cbn [negb]. rewrite <- Hal, rx_app. unfold loaded. rewrite Hal, Hk. reflexivity.
Qed.

(* ---------- the repaired reader ---------- *)
Lemma read_flat_fixed_cases (dbg partial : bool) (r : flat) (s : bytes) (o : outcome) (r' : flat) (t : bytes) :
  read_flat_fixed dbg partial r s = (o, r', t) ->
  (o = Err /\ fk r' = fk r /\ fh r' = fh r /\ length (fd r') = length (fd r)) \/
  (exists h s1 len s2 a,
     o = Ok /\
     rd_fields (nhdr (fk r)) s = Some (h, s1) /\ rd 8 s1 = Some (len, s2) /\
     snd (chain (fixed_factors (fk r) h)) = false /\
     fst (chain (fixed_factors (fk r) h)) = len /\ len <= blen (fd r) /\
     (fk r = KVec -> hd_ h 2 <= hd_ h 3) /\
     s2 = a ++ t /\ length a = Z.to_nat len /\
     r' = {| fk := fk r; fh := clamp_hdr (fk r) h (blen (fd r)); fd := a ++ skipn (Z.to_nat len) (fd r) |}).
Proof.
  unfold read_flat_fixed.
  destruct (rd_fields (nhdr (fk r)) s) as [[h s1]|] eqn:E1.
  2:{ intros H; inversion H; subst. left; auto. }
  destruct (rd 8 s1) as [[len s2]|] eqn:E2.
  2:{ intros H; inversion H; subst. left; auto. }
  destruct (snd (chain (fixed_factors (fk r) h))) eqn:E3.
  { intros H; inversion H; subst. left; auto. }
  destruct (fst (chain (fixed_factors (fk r) h)) =? len) eqn:E4; cbn [negb].
  2:{ intros H; inversion H; subst. left; auto. }
  apply Z.eqb_eq in E4.
  destruct (lkind_eqb (fk r) KVec && (hd_ h 3 <? hd_ h 2)) eqn:E8.
  { intros H; inversion H; subst. left; auto. }
  destruct (blen (fd r) <? len) eqn:E5.
  { intros H; inversion H; subst. left; auto. }
  apply Z.ltb_ge in E5.
  assert (Hn : (Z.to_nat len <= length (fd r))%nat) by (unfold blen in E5; lia).
  replace (Z.to_nat len <=? length (fd r))%nat with true by (symmetry; apply Nat.leb_le; exact Hn).
  cbn [negb].
  destruct (rx partial (Z.to_nat len) (fd r) s2) as [[ok d'] s3] eqn:E6.
  destruct ok.
  - intros H; inversion H; subst. apply rx_ok in E6. destruct E6 as (a & Hs2 & Hla & Hd).
    right. exists h, s1, (fst (chain (fixed_factors (fk r) h))), s2, a.
    repeat split; auto.
    + intros Ek. rewrite Ek in E8. cbn [lkind_eqb andb] in E8. apply Z.ltb_ge in E8. exact E8.
    + subst d'. reflexivity.
  - intros H; inversion H; subst. left. repeat split; auto. cbn [fd].
    pose proof (rx_length partial _ (fd r) s2 Hn) as Hl. rewrite E6 in Hl. exact Hl.
Qed.

Lemma read_flat_fixed_total (dbg partial : bool) (r : flat) (s : bytes) :
  good (fst (fst (read_flat_fixed dbg partial r s))).
Proof.
  destruct (read_flat_fixed dbg partial r s) as [[o r'] t] eqn:E. cbn [fst].
  apply read_flat_fixed_cases in E. destruct E as [(-> & _)|(h & s1 & len & s2 & a & -> & _)]; [right|left]; reflexivity.
Qed.

Lemma read_flat_fixed_err_leaves_metadata (dbg partial : bool) (r : flat) (s : bytes) (r' : flat) (t : bytes) :
  read_flat_fixed dbg partial r s = (Err, r', t) ->
  fk r' = fk r /\ fh r' = fh r /\ length (fd r') = length (fd r).
Proof.
  intros E. apply read_flat_fixed_cases in E.
  destruct E as [(_ & H)|(h & s1 & len & s2 & a & H & _)]; [exact H|discriminate H].
Qed.

Lemma set_nth_length (i : nat) (v : Z) (l : list Z) : (i < length l)%nat -> length (set_nth i v l) = length l.
Proof.
  intros Hi. unfold set_nth. rewrite app_length, firstn_length_le by lia. cbn [length]. rewrite skipn_length. lia.
Qed.

Lemma clamp_vec (h : list Z) (cap : Z) :
  length h = 4%nat ->
  hd_ (clamp_hdr KVec h cap) 0 = hd_ h 0 /\ hd_ (clamp_hdr KVec h cap) 1 = hd_ h 1 /\
  hd_ (clamp_hdr KVec h cap) 2 = hd_ h 2 /\
  hd_ (clamp_hdr KVec h cap) 3 =
    Z.min (hd_ h 3) (if hd_ h 0 * hd_ h 1 * 8 =? 0 then hd_ h 3 else cap / (hd_ h 0 * hd_ h 1 * 8)) /\
  length (clamp_hdr KVec h cap) = 4%nat.
Proof.
  intros Hl. destruct h as [|a [|b [|c [|d [|]]]]]; try discriminate Hl.
  unfold clamp_hdr, set_nth, hd_. cbn [nth firstn skipn app length]. repeat split; reflexivity.
Qed.

Lemma read_flat_fixed_preserves_inv (dbg partial : bool) (r : flat) (s : bytes) (o : outcome) (r' : flat) (t : bytes) :
  read_flat_fixed dbg partial r s = (o, r', t) -> inv_flat r -> inv_flat r'.
Proof.
  intros E (Hl & Hp & Hs). apply read_flat_fixed_cases in E.
  destruct E as [(_ & Hk & Hh & Hd)|(h & s1 & len & s2 & a & -> & E1 & E2 & E3 & E4 & Hle & Hsm & _ & Hla & ->)].
  - unfold inv_flat, blen. rewrite Hk, Hh, Hd. auto.
  - destruct (rd_fields_some _ _ _ _ E1) as (Hlh & HF & _).
    destruct (chain_exact _ (fixed_factors_u64 (fk r) _ HF) (fixed_factors_ne _ _) E3) as [Hc _].
    rewrite lprod_fixed in Hc.
    assert (Hlen : blen (a ++ skipn (Z.to_nat len) (fd r)) = blen (fd r)).
    { unfold blen. rewrite app_length, skipn_length. apply rd_u64 in E2. unfold u64, blen in *. lia. }
    unfold inv_flat. cbn [fk fh fd] in *. rewrite Hlen.
    destruct (fk r) eqn:Ek.
    + (* VecZnx: max_size clamped to the capacity *)
      cbn [nhdr] in Hlh. destruct (clamp_vec h (blen (fd r)) Hlh) as (C0 & C1 & C2 & C3 & CL).
      split; [exact CL|].
      pose proof (hd_u64 h 0 HF) as U0. pose proof (hd_u64 h 1 HF) as U1.
      pose proof (hd_u64 h 2 HF) as U2. pose proof (hd_u64 h 3 HF) as U3. unfold u64 in *.
      specialize (Hsm eq_refl).
      cbn [factors lprod fold_right] in Hc. cbn [cap_factors lprod fold_right].
      change (clamp_hdr KVec h (blen (fd r))) with (clamp_hdr KVec h (blen (fd r))) in *.
      rewrite C0, C1, C2, C3.
      set (lb := hd_ h 0 * hd_ h 1 * 8) in *.
      assert (Hlb : 0 <= lb) by (unfold lb; nia).
      destruct (lb =? 0) eqn:Elb.
      * apply Z.eqb_eq in Elb. rewrite Z.min_id. split; [|intros _; exact Hsm].
        replace (hd_ h 0 * (hd_ h 1 * (hd_ h 3 * (8 * 1)))) with (lb * hd_ h 3) by (unfold lb; ring).
        rewrite Elb. pose proof (blen_nonneg (fd r)). lia.
      * apply Z.eqb_neq in Elb. assert (Hlb' : 0 < lb) by lia.
        assert (Hsz : lb * hd_ h 2 <= blen (fd r)).
        { replace (lb * hd_ h 2) with (hd_ h 0 * (hd_ h 1 * (hd_ h 2 * (8 * 1)))) by (unfold lb; ring). lia. }
        assert (Hq : hd_ h 2 <= blen (fd r) / lb) by (apply Z.div_le_lower_bound; lia).
        assert (Hq2 : lb * (blen (fd r) / lb) <= blen (fd r)) by (apply Z.mul_div_le; lia).
        split.
        -- replace (hd_ h 0 * (hd_ h 1 * (Z.min (hd_ h 3) (blen (fd r) / lb) * (8 * 1))))
             with (lb * Z.min (hd_ h 3) (blen (fd r) / lb)) by (unfold lb; ring).
           assert (Z.min (hd_ h 3) (blen (fd r) / lb) <= blen (fd r) / lb) by apply Z.le_min_r. nia.
        -- intros _. apply Z.min_glb; assumption.
    + cbn [clamp_hdr]. split; [exact Hlh|]. split; [|discriminate]. cbn [cap_factors]. rewrite <- Hc, E4. exact Hle.
    + cbn [clamp_hdr]. split; [exact Hlh|]. split; [|discriminate]. cbn [cap_factors]. rewrite <- Hc, E4. exact Hle.
Qed.

Lemma read_flat_fixed_roundtrip (dbg partial : bool) (r x : flat) (tl : bytes) :
  wf_flat x -> fk r = fk x -> payload_len x <= blen (fd r) ->
  (fk x = KVec -> hd_ (fh x) 2 <= hd_ (fh x) 3) ->
  read_flat_fixed dbg partial r (write_flat x ++ tl) = (Ok, loaded (clamp_hdr (fk x) (fh x) (blen (fd r))) r x, tl).
Proof.
  intros Hwf Hk Hcap Hsm. pose proof (wf_payload x Hwf) as (Hpl & Hu & _ & Hc).
  pose proof (active_length x Hwf) as Hal.
  destruct Hwf as (Hl & HF & H1 & H2 & H3 & Hp).
  unfold read_flat_fixed, write_flat. rewrite Hk, <- Hl, <- !app_assoc.
  rewrite rd_fields_app by exact HF.
  rewrite rd_le by (rewrite pow256_8; exact Hu).
  rewrite H3, Hc, Z.eqb_refl. cbn [negb].
  replace (lkind_eqb (fk x) KVec && (hd_ (fh x) 3 <? hd_ (fh x) 2)) with false.
  2:{ symmetry. destruct (fk x); cbn [lkind_eqb andb]; try reflexivity. apply Z.ltb_ge. apply Hsm; reflexivity. }
  replace (blen (fd r) <? payload_len x) with false by (symmetry; apply Z.ltb_ge; exact Hcap).
  replace (Z.to_nat (payload_len x) <=? length (fd r))%nat with true
    by (symmetry; apply Nat.leb_le; unfold blen in Hcap; unfold u64 in Hu; lia).
  cbn [negb]. rewrite <- Hal, rx_app. unfold loaded. rewrite Hal, Hk. reflexivity.
Qed.

(* the result of a successful read is logically the object: same header words (max_size of a VecZnx clamped to the
   receiver's capacity by the repaired reader), same active bytes *)
Lemma loaded_logical (h : list Z) (r x : flat) :
  wf_flat x -> payload_len x <= blen (fd r) ->
  firstn (Z.to_nat (payload_len x)) (fd (loaded h r x)) = active x /\
  length (fd (loaded h r x)) = length (fd r).
Proof.
  intros Hwf Hcap. pose proof (active_length x Hwf) as Hal.
  destruct (wf_payload x Hwf) as (_ & Hu & _).
  unfold loaded. cbn [fd]. split.
  - rewrite <- Hal, firstn_app, Nat.sub_diag, firstn_all. cbn [firstn]. apply app_nil_r.
  - rewrite app_length, skipn_length, Hal. unfold blen, u64 in *. lia.
Qed.

(* the writer is a function of the header and the active bytes only: no backend, no slack bytes *)
Lemma write_flat_logical (x y : flat) : fh x = fh y -> active x = active y -> fk x = fk y -> write_flat x = write_flat y.
Proof. intros H1 H2 H3. unfold write_flat, payload_len. rewrite H1, H2, H3. reflexivity. Qed.

(* a sufficient condition for wf_flat: positive dimensions and the payload inside a buffer of less than 2^64 bytes *)
Lemma wf_flat_of_pos (x : flat) :
  length (fh x) = nhdr (fk x) -> Forall (fun v => 1 <= v) (fh x) -> Forall u64 (fh x) ->
  lprod (factors (fk x) (fh x)) <= blen (fd x) -> blen (fd x) < 2 ^ 64 -> wf_flat x.
Proof.
  intros Hl Hpos HU Hp Hb.
  destruct x as [k h d]; unfold wf_flat, payload_len; cbn [fk fh fd] in *.
  destruct k; cbn [nhdr] in Hl;
    destruct h as [|a [|b [|c [|e [|f [|]]]]]]; try discriminate Hl;
    repeat match goal with H : Forall _ (_ :: _) |- _ => inversion H; clear H; subst end;
    cbn beta in *; cbn [factors fixed_factors wchain lprod fold_right] in *; unfold hd_ in *; cbn [nth] in *.
  - (* VecZnx [a; b; c; e] *)
    assert (N1 : snd (chain [a; b; c; 8]) = false)
      by (apply chain_noovf_pos; [repeat (apply Forall_cons); try apply Forall_nil; lia|cbn [lprod fold_right]; nia]).
    assert (N2 : snd (chain [a; b; 8; c]) = false)
      by (apply chain_noovf_pos; [repeat (apply Forall_cons); try apply Forall_nil; lia|cbn [lprod fold_right]; nia]).
    destruct (chain_exact [a; b; c; 8]) as [Hc _];
      [repeat (apply Forall_cons); try apply Forall_nil; auto using u64_8|discriminate|exact N1|].
    split; [reflexivity|]. split.
    { repeat (apply Forall_cons); try apply Forall_nil; auto. }
    split; [exact N1|]. split; [exact N1|]. split; [exact N2|].
    rewrite Hc. cbn [lprod fold_right]. lia.
  - (* ScalarZnx [a; b] *)
    assert (N1 : snd (chain [a; b; 8]) = false)
      by (apply chain_noovf_pos; [repeat (apply Forall_cons); try apply Forall_nil; lia|cbn [lprod fold_right]; nia]).
    destruct (chain_exact [a; b; 8]) as [Hc _];
      [repeat (apply Forall_cons); try apply Forall_nil; auto using u64_8|discriminate|exact N1|].
    split; [reflexivity|]. split.
    { repeat (apply Forall_cons); try apply Forall_nil; auto. }
    split; [exact N1|]. split; [exact N1|]. split; [exact N1|].
    rewrite Hc. cbn [lprod fold_right]. lia.
  - (* MatZnx [a = n; b = size; c = rows; e = cols_in; f = cols_out] *)
    assert (N1 : snd (chain [c; e; a; f; b; 8]) = false)
      by (apply chain_noovf_pos; [repeat (apply Forall_cons); try apply Forall_nil; lia|cbn [lprod fold_right]; nia]).
    assert (Na : snd (chain [c; e]) = false)
      by (apply chain_noovf_pos; [repeat (apply Forall_cons); try apply Forall_nil; lia|cbn [lprod fold_right]; nia]).
    assert (Nb : snd (chain [a; f; b; 8]) = false)
      by (apply chain_noovf_pos; [repeat (apply Forall_cons); try apply Forall_nil; lia|cbn [lprod fold_right]; nia]).
    destruct (chain_exact [c; e]) as [Ha Ha'];
      [repeat (apply Forall_cons); try apply Forall_nil; auto|discriminate|exact Na|].
    destruct (chain_exact [a; f; b; 8]) as [Hb' Hb''];
      [repeat (apply Forall_cons); try apply Forall_nil; auto using u64_8|discriminate|exact Nb|].
    cbn [lprod fold_right] in Ha, Hb', Ha', Hb''.
    assert (Hprod : 0 <= fst (chain [c; e]) * fst (chain [a; f; b; 8]) < 2 ^ 64) by (rewrite Ha, Hb'; nia).
    split; [reflexivity|]. split.
    { repeat (apply Forall_cons); try apply Forall_nil; auto. }
    split; [exact N1|]. split.
    { cbn [fst snd]. rewrite Na, Nb. cbn [orb]. apply Z.leb_gt. lia. }
    split; [exact N1|].
    cbn [fst snd]. unfold wrapu. rewrite Z.mod_small by lia. rewrite Ha, Hb'. nia.
Qed.


(* ---------- the three Rust types by name ---------- *)
Definition vec_payload (x : vec_znx) : Z := vn x * vcols x * vsize x * 8.
Definition scalar_payload (x : scalar_znx) : Z := sn x * scols x * 8.
Definition mat_payload (x : mat_znx) : Z := mrows x * mcols_in x * mn x * mcols_out x * msize x * 8.

Lemma vec_payload_eq (x : vec_znx) : wf_flat (flat_of_vec x) -> payload_len (flat_of_vec x) = vec_payload x.
Proof.
  intros H. destruct (wf_payload _ H) as (-> & _). unfold vec_payload, flat_of_vec. cbn [fk fh factors lprod fold_right].
  unfold hd_; cbn [nth]. ring.
Qed.
Lemma scalar_payload_eq (x : scalar_znx) : wf_flat (flat_of_scalar x) -> payload_len (flat_of_scalar x) = scalar_payload x.
Proof.
  intros H. destruct (wf_payload _ H) as (-> & _). unfold scalar_payload, flat_of_scalar. cbn [fk fh factors lprod fold_right].
  unfold hd_; cbn [nth]. ring.
Qed.
Lemma mat_payload_eq (x : mat_znx) : wf_flat (flat_of_mat x) -> payload_len (flat_of_mat x) = mat_payload x.
Proof.
  intros H. destruct (wf_payload _ H) as (-> & _). unfold mat_payload, flat_of_mat. cbn [fk fh factors lprod fold_right].
  unfold hd_; cbn [nth]. ring.
Qed.

Lemma read_vec_znx_roundtrip (dbg partial : bool) (r x : vec_znx) (tl : bytes) :
  wf_flat (flat_of_vec x) -> vec_payload x <= blen (vdata r) ->
  read_vec_znx dbg partial r (write_vec_znx x ++ tl) =
    (Ok, {| vn := vn x; vcols := vcols x; vsize := vsize x; vmax_size := vmax_size x;
            vdata := firstn (Z.to_nat (vec_payload x)) (vdata x) ++ skipn (Z.to_nat (vec_payload x)) (vdata r) |}, tl).
Proof.
  intros Hwf Hcap. pose proof (vec_payload_eq x Hwf) as Hp.
  unfold read_vec_znx, lift_read, write_vec_znx.
  rewrite read_flat_roundtrip; [|exact Hwf|reflexivity|rewrite Hp; exact Hcap].
  unfold loaded, vec_of_flat, active. rewrite Hp. reflexivity.
Qed.

Lemma read_scalar_znx_roundtrip (dbg partial : bool) (r x : scalar_znx) (tl : bytes) :
  wf_flat (flat_of_scalar x) -> scalar_payload x <= blen (sdata r) ->
  read_scalar_znx dbg partial r (write_scalar_znx x ++ tl) =
    (Ok, {| sn := sn x; scols := scols x;
            sdata := firstn (Z.to_nat (scalar_payload x)) (sdata x) ++ skipn (Z.to_nat (scalar_payload x)) (sdata r) |}, tl).
Proof.
  intros Hwf Hcap. pose proof (scalar_payload_eq x Hwf) as Hp.
  unfold read_scalar_znx, lift_read, write_scalar_znx.
  rewrite read_flat_roundtrip; [|exact Hwf|reflexivity|rewrite Hp; exact Hcap].
  unfold loaded, scalar_of_flat, active. rewrite Hp. reflexivity.
Qed.

Lemma read_mat_znx_roundtrip (dbg partial : bool) (r x : mat_znx) (tl : bytes) :
  wf_flat (flat_of_mat x) -> mat_payload x <= blen (mdata r) ->
  read_mat_znx dbg partial r (write_mat_znx x ++ tl) =
    (Ok, {| mn := mn x; msize := msize x; mrows := mrows x; mcols_in := mcols_in x; mcols_out := mcols_out x;
            mdata := firstn (Z.to_nat (mat_payload x)) (mdata x) ++ skipn (Z.to_nat (mat_payload x)) (mdata r) |}, tl).
Proof.
  intros Hwf Hcap. pose proof (mat_payload_eq x Hwf) as Hp.
  unfold read_mat_znx, lift_read, write_mat_znx.
  rewrite read_flat_roundtrip; [|exact Hwf|reflexivity|rewrite Hp; exact Hcap].
  unfold loaded, mat_of_flat, active. rewrite Hp. reflexivity.
Qed.

(* the repaired VecZnx reader: everything equal, max_size = min(max_size, capacity in limbs) *)
Lemma read_vec_znx_fixed_roundtrip (dbg partial : bool) (r x : vec_znx) (tl : bytes) :
  wf_flat (flat_of_vec x) -> vec_payload x <= blen (vdata r) -> vsize x <= vmax_size x ->
  read_vec_znx_fixed dbg partial r (write_vec_znx x ++ tl) =
    (Ok, {| vn := vn x; vcols := vcols x; vsize := vsize x;
            vmax_size := Z.min (vmax_size x)
                           (if vn x * vcols x * 8 =? 0 then vmax_size x else blen (vdata r) / (vn x * vcols x * 8));
            vdata := firstn (Z.to_nat (vec_payload x)) (vdata x) ++ skipn (Z.to_nat (vec_payload x)) (vdata r) |}, tl).
Proof.
  intros Hwf Hcap Hsz. pose proof (vec_payload_eq x Hwf) as Hp.
  unfold read_vec_znx_fixed, lift_read, write_vec_znx.
  rewrite read_flat_fixed_roundtrip; [|exact Hwf|reflexivity|rewrite Hp; exact Hcap|intros _; exact Hsz].
  unfold loaded, vec_of_flat, active. rewrite Hp. reflexivity.
Qed.


Lemma read_scalar_znx_fixed_roundtrip (dbg partial : bool) (r x : scalar_znx) (tl : bytes) :
  wf_flat (flat_of_scalar x) -> scalar_payload x <= blen (sdata r) ->
  read_scalar_znx_fixed dbg partial r (write_scalar_znx x ++ tl) =
    (Ok, {| sn := sn x; scols := scols x;
            sdata := firstn (Z.to_nat (scalar_payload x)) (sdata x) ++ skipn (Z.to_nat (scalar_payload x)) (sdata r) |}, tl).
Proof.
  intros Hwf Hcap. pose proof (scalar_payload_eq x Hwf) as Hp.
  unfold read_scalar_znx_fixed, lift_read, write_scalar_znx.
  rewrite read_flat_fixed_roundtrip; [|exact Hwf|reflexivity|rewrite Hp; exact Hcap|discriminate].
  unfold loaded, scalar_of_flat, active. rewrite Hp. reflexivity.
Qed.

Lemma read_mat_znx_fixed_roundtrip (dbg partial : bool) (r x : mat_znx) (tl : bytes) :
  wf_flat (flat_of_mat x) -> mat_payload x <= blen (mdata r) ->
  read_mat_znx_fixed dbg partial r (write_mat_znx x ++ tl) =
    (Ok, {| mn := mn x; msize := msize x; mrows := mrows x; mcols_in := mcols_in x; mcols_out := mcols_out x;
            mdata := firstn (Z.to_nat (mat_payload x)) (mdata x) ++ skipn (Z.to_nat (mat_payload x)) (mdata r) |}, tl).
Proof.
  intros Hwf Hcap. pose proof (mat_payload_eq x Hwf) as Hp.
  unfold read_mat_znx_fixed, lift_read, write_mat_znx.
  rewrite read_flat_fixed_roundtrip; [|exact Hwf|reflexivity|rewrite Hp; exact Hcap|discriminate].
  unfold loaded, mat_of_flat, active. rewrite Hp. reflexivity.
Qed.

Lemma read_flat_fixed_never_panics (dbg partial : bool) (r : flat) (s : bytes) :
  is_panic (fst (fst (read_flat_fixed dbg partial r s))) = false.
Proof. destruct (read_flat_fixed_total dbg partial r s) as [-> | ->]; reflexivity. Qed.

Lemma read_flat_fixed_length (dbg partial : bool) (r : flat) (s : bytes) :
  length (fd (snd (fst (read_flat_fixed dbg partial r s)))) = length (fd r) /\
  fk (snd (fst (read_flat_fixed dbg partial r s))) = fk r.
Proof.
  destruct (read_flat_fixed dbg partial r s) as [[o r'] t] eqn:E. cbn [fst snd].
  apply read_flat_fixed_cases in E.
  destruct E as [(_ & Hk & _ & Hl)|(h & s1 & len & s2 & a & _ & _ & E2 & _ & _ & Hle & _ & _ & Hla & ->)]; auto.
  cbn [fd fk]. split; [|reflexivity]. rewrite app_length, skipn_length. apply rd_u64 in E2. unfold u64, blen in *. lia.
Qed.

(* ---------- refutations for the code as it was before /repo 206cd69 (current_flat) ---------- *)
Definition w_recv : flat := {| fk := KVec; fh := [1; 1; 1; 1]; fd := repeat 0 64%nat |}.
(* n = 2^61, cols = size = max_size = 1, len = 0:  2^61 * 1 * 1 * 8 = 2^64 *)
Definition w_overflow : bytes := le_bytes 8 (2 ^ 61) ++ le_bytes 8 1 ++ le_bytes 8 1 ++ le_bytes 8 1 ++ le_bytes 8 0.

Lemma read_flat_total_refuted_debug :
  fst (fst (read_flat true false w_recv w_overflow)) = PanicOverflow.
Proof. vm_compute. reflexivity. Qed.

Lemma read_flat_total_refuted_release :
  exists r', read_flat false false w_recv w_overflow = (OkWrapped, r', []) /\
             hd_ (fh r') 0 = 2 ^ 61 /\ blen (fd r') = 64 /\ ~ inv_active r'.
Proof.
  eexists. split; [vm_compute; reflexivity|]. split; [vm_compute; reflexivity|]. split; [vm_compute; reflexivity|].
  intros [_ H]. vm_compute in H. apply H. reflexivity.
Qed.

(* honest stream: an object with size = 1 and max_size = 5 read into a 1-limb receiver *)
Definition w_maxsize : bytes := le_bytes 8 1 ++ le_bytes 8 1 ++ le_bytes 8 1 ++ le_bytes 8 5 ++ le_bytes 8 8 ++ repeat 7 8%nat.
Definition w_recv8 : flat := {| fk := KVec; fh := [1; 1; 1; 1]; fd := repeat 0 8%nat |}.

Lemma read_flat_preserves_inv_refuted :
  inv_flat w_recv8 /\
  exists r', read_flat false false w_recv8 w_maxsize = (Ok, r', []) /\ hd_ (fh r') 3 = 5 /\ ~ inv_flat r'.
Proof.
  split.
  - unfold inv_flat. split; [reflexivity|]. split; [vm_compute; discriminate|intros _; vm_compute; discriminate].
  - eexists. split; [vm_compute; reflexivity|]. split; [reflexivity|].
    intros (_ & H & _). vm_compute in H. apply H. reflexivity.
Qed.
