(* List plumbing for the encryption model: `sequence`, per-coefficient maps, the magnitude of a negacyclic product,
   the range of the uniform digit map. *)
From PV Require Import Base.MachineInt Model.Znx Model.Limbs Model.Flat Model.DftAbs Model.EncModel Proofs.EncValue.
Open Scope Z_scope.

(* ---------------- sequence / cmap_opt ---------------- *)
Lemma sequence_Forall2 {A B} (f : A -> option B) (l : list A) : forall r,
  sequence (map f l) = Some r -> Forall2 (fun x y => f x = Some y) l r.
Proof.
  induction l as [|x l IH]; intros r H; cbn [map sequence] in H.
  - inversion H. constructor.
  - destruct (f x) as [y|] eqn:E; [|discriminate].
    destruct (sequence (map f l)) as [r'|] eqn:E'; [|discriminate].
    inversion H; subst. constructor; [exact E|]. apply IH. reflexivity.
Qed.

Lemma Forall2_length' {A B} (R : A -> B -> Prop) l r : Forall2 R l r -> length l = length r.
Proof. induction 1; cbn [length]; lia. Qed.

Lemma Forall2_nth_seq {B} (R : nat -> B -> Prop) (n : nat) (r : list B) (d : B) : forall s,
  Forall2 R (seq s n) r -> forall k, (k < n)%nat -> R (s + k)%nat (nth k r d).
Proof.
  revert r. induction n; intros r s H k Hk; [lia|].
  cbn [seq] in H. inversion H as [|? y ? r' Hx Hr]; subst.
  destruct k; [replace (s + 0)%nat with s by lia; exact Hx|].
  cbn [nth]. replace (s + S k)%nat with (S s + k)%nat by lia. apply IHn; [exact Hr|lia].
Qed.

Lemma cmap_opt_nth (n : nat) (f : nat -> option (list Z)) (c : ccol) :
  cmap_opt n f = Some c -> length c = n /\ forall k, (k < n)%nat -> f k = Some (coef c k).
Proof.
  intros H. unfold cmap_opt in H. apply sequence_Forall2 in H.
  split.
  - apply Forall2_length' in H. rewrite seq_length in H. lia.
  - intros k Hk. apply (Forall2_nth_seq (fun i y => f i = Some y) n c [] O H k Hk).
Qed.

Lemma Forall2_map_l {A B C} (R : B -> C -> Prop) (g : A -> B) l r :
  Forall2 R (map g l) r <-> Forall2 (fun x y => R (g x) y) l r.
Proof.
  split.
  - revert r. induction l; intros r H; inversion H; subst; constructor; auto.
  - induction 1; cbn [map]; constructor; auto.
Qed.
Lemma Forall2_map_r {A B C} (R : A -> C -> Prop) (g : B -> C) l r :
  Forall2 R l (map g r) <-> Forall2 (fun x y => R x (g y)) l r.
Proof.
  split.
  - revert l. induction r; intros l H; inversion H; subst; constructor; auto.
  - induction 1; cbn [map]; constructor; auto.
Qed.
Lemma Forall2_impl' {A B} (R R' : A -> B -> Prop) l r :
  (forall x y, In x l -> R x y -> R' x y) -> Forall2 R l r -> Forall2 R' l r.
Proof.
  intros H F. induction F; constructor.
  - apply H; [left; reflexivity|assumption].
  - apply IHF. intros; apply H; [right|]; assumption.
Qed.

Lemma coef_cmk (n : nat) (f : nat -> list Z) (k : nat) : (k < n)%nat -> coef (cmk n f) k = f k.
Proof.
  intros H. unfold coef, cmk. apply nth_map_seq. lia.
Qed.

(* ---------------- the product column ---------------- *)
Lemma coef_svp (s : poly) (n size : nat) (c : ccol) (k : nat) : (k < n)%nat ->
  coef (svp s n size c) k = map (fun j => nthZ (pmul s (limb_poly c j)) k) (seq 0 size).
Proof. intros H. unfold svp. rewrite coef_cmk by lia. rewrite map_map. reflexivity. Qed.

Lemma coef_svp_length s n size c k : (k < n)%nat -> length (coef (svp s n size c) k) = size.
Proof. intros. rewrite coef_svp by lia. rewrite map_length, seq_length. reflexivity. Qed.

(* 1-norm *)
Definition norm1 (s : list Z) : Z := fold_right (fun x acc => Z.abs x + acc) 0 s.
Definition asum (a : list Z) (l : list nat) : Z := fold_right (fun i acc => Z.abs (nthZ a i) + acc) 0 l.

Lemma asum_shift (x : Z) (t : list Z) (l : list nat) : asum (x :: t) (map S l) = asum t l.
Proof. induction l; cbn [map asum fold_right]; [reflexivity|]. unfold asum in IHl. rewrite IHl. reflexivity. Qed.
Lemma asum_norm1 (a : list Z) : asum a (seq 0 (length a)) = norm1 a.
Proof.
  induction a as [|x t IH]; [reflexivity|].
  cbn [length seq]. rewrite <- seq_shift. cbn [asum fold_right norm1]. fold (asum (x :: t) (map S (seq 0 (length t)))).
  rewrite asum_shift, IH. reflexivity.
Qed.
Lemma norm1_nonneg a : 0 <= norm1 a.
Proof. induction a; cbn [norm1 fold_right]; [lia|]. unfold norm1 in IHa. lia. Qed.

(* |(a * b)_k| <= |a|_1 * max|b| *)
Definition pstep (a b : list Z) (n k : nat) (acc : Z) (i : nat) : Z :=
  let ai := nthZ a i in if Nat.leb i k then acc + ai * nthZ b (k - i) else acc - ai * nthZ b (n + k - i).
Lemma asum_nonneg a l : 0 <= asum a l.
Proof. induction l; cbn [asum fold_right]; [lia|]. unfold asum in IHl. lia. Qed.
Lemma pmul_fold_bound (a b : list Z) (n k : nat) (B : Z) : bnd B b -> forall (l : list nat) (acc : Z),
  Z.abs (fold_left (pstep a b n k) l acc) <= Z.abs acc + asum a l * B.
Proof.
  intros Hb. induction l as [|i l IH]; intros acc; cbn [fold_left asum fold_right].
  - lia.
  - eapply Z.le_trans; [apply IH|]. fold (asum a l).
    assert (H1 := Hb (k - i)%nat). assert (H2 := Hb (n + k - i)%nat).
    pose proof (asum_nonneg a l). unfold pstep. cbv zeta.
    destruct (Nat.leb i k); nia.
Qed.

Lemma pmul_nth_bound (a b : list Z) (k : nat) (B : Z) : bnd B b -> 0 <= B ->
  Z.abs (nthZ (pmul a b) k) <= norm1 a * B.
Proof.
  intros Hb HB. unfold pmul.
  destruct (Nat.lt_ge_cases k (length a)) as [Hk|Hk].
  - unfold nthZ. rewrite nth_map_seq by lia.
    change (Z.abs (fold_left (pstep a b (length a) k) (seq 0 (length a)) 0) <= norm1 a * B).
    eapply Z.le_trans; [apply (pmul_fold_bound a b (length a) k B Hb)|]. rewrite asum_norm1. lia.
  - rewrite nthZ_beyond by (rewrite map_length, seq_length; lia). pose proof (norm1_nonneg a). nia.
Qed.

(* ---------------- the digit map ---------------- *)
Lemma uniform_digit_range (b u : Z) : 1 <= b -> in_range b (uniform_digit b u).
Proof.
  intros Hb. unfold uniform_digit, in_range.
  pose proof (pow2_pos b ltac:(lia)) as Hp. pose proof (pow2_split b Hb) as Hs.
  replace (2 ^ b - 1) with (Z.ones b) by (rewrite Z.ones_equiv; lia).
  rewrite Z.land_ones by lia.
  pose proof (Z.mod_pos_bound u (2 ^ b) Hp). lia.
Qed.

Lemma limb_poly_mask_bnd (b : Z) (n size : nat) (us : nat -> Z) (off j : nat) : 1 <= b ->
  bnd (2 ^ (b - 1)) (limb_poly (mask_col b n size us off) j).
Proof.
  intros Hb i. pose proof (pow2_pos (b - 1) ltac:(lia)) as Hp.
  unfold limb_poly, mask_col.
  destruct (Nat.lt_ge_cases i n) as [Hi|Hi].
  - unfold nthZ at 1. rewrite map_map. rewrite nth_map_seq by lia.
    destruct (Nat.lt_ge_cases j size) as [Hj|Hj].
    + unfold nthZ. rewrite nth_map_seq by lia.
      unfold mask_digit. pose proof (uniform_digit_range b (us (off + j * n + i)%nat) Hb) as Hr. unfold in_range in Hr. lia.
    + rewrite nthZ_beyond by (rewrite map_length, seq_length; lia). lia.
  - rewrite nthZ_beyond by (rewrite !map_length, seq_length; lia). lia.
Qed.
