(* C11 for the modelled operations: every C08 vector operation (normalize, lsh/rsh families) writes only
   the selected column; overwriting forms do not depend on the prior destination. *)
From PV Require Import Base.MachineInt Model.Znx Model.Limbs Model.Flat Model.C08Run Proofs.C11Frame.
From Coq Require Import Arith PeanoNat.

Lemma one_inv (o : option (list Z)) r : one o = Some [r] -> o = Some r.
Proof. destruct o; cbn; intros H; inversion H; reflexivity. Qed.

Definition c08_flat_codes : list Z :=
  [8101; 8102; 8103; 8104; 8105; 8106; 8107; 8108; 8109; 8110; 8201; 8202; 8203; 8204]%Z.

Theorem c08_vec_frame code ps vs res' :
  In code c08_flat_codes ->
  (0 < s_n (rshape ps))%nat ->
  run_c08_vec code ps vs = Some [res'] ->
  length res' = length (v vs 0) /\
  forall idx d,
    in_col (s_n (rshape ps)) (s_cols (rshape ps)) (s_size (rshape ps)) (s_col (rshape ps)) idx = false ->
    nth idx res' d = nth idx (v vs 0) d.
Proof.
  intros Hin Hn H. unfold c08_flat_codes in Hin. cbn [In] in Hin.
  repeat (destruct Hin as [Hc | Hin];
          [subst code; cbv beta iota zeta delta [run_c08_vec] in H;
           apply one_inv in H; eapply col_op_frame; eauto |]).
  contradiction.
Qed.
