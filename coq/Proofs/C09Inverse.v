(* C09: inverse laws through the library's own Galois arithmetic (items 4+5 combined). *)
From PV Require Import Base.MachineInt Model.Znx Model.Limbs Model.Ring Model.Poly Model.C09Galois
  Proofs.C09Lists Proofs.C09Ring Proofs.C09Sigma Proofs.C09Galois.
Open Scope Z_scope.

(* sigma_{g^-1} o sigma_g = id with g^-1 computed by galois_element_inv *)
Theorem sigma_galois_inverse w g m a :
  1 <= w -> 0 <= m <= 62 -> Z.of_nat (length a) = 2 ^ m -> Z.odd g = true ->
  Forall (in_range w) a ->
  sigma w (galois_element_inv g (2 * 2 ^ m)) (sigma w g a) = a.
Proof.
  intros Hw Hm Hn Ho Hr. apply (sigma_inverse w g _ m); auto; try lia.
  apply galois_inv_correct; auto.
Qed.

(* the same on the code-shaped loops, whatever the destinations held before *)
Theorem automorphism_inverse w g m r0 r1 a :
  1 <= w -> 0 <= m <= 62 -> Z.of_nat (length a) = 2 ^ m -> Z.odd g = true ->
  Forall (in_range w) a -> length r0 = length a -> length r1 = length a ->
  znx_automorphism_onto w (galois_element_inv g (2 * 2 ^ m)) r1 (znx_automorphism_onto w g r0 a) = a.
Proof.
  intros Hw Hm Hn Ho Hr H0 H1.
  rewrite (automorphism_is_sigma w g m r0 a) by (auto; lia).
  rewrite (automorphism_is_sigma w _ m r1 (sigma w g a)).
  - apply sigma_galois_inverse; auto.
  - lia.
  - rewrite sigma_length; auto.
  - apply galois_element_inv_odd; auto.
  - rewrite sigma_length; auto.
Qed.

(* composition on the code-shaped loops *)
Theorem automorphism_compose w g h m r0 r1 r2 a :
  1 <= w -> 0 <= m -> Z.of_nat (length a) = 2 ^ m -> Z.odd g = true -> Z.odd h = true ->
  Forall (in_range w) a -> length r0 = length a -> length r1 = length a -> length r2 = length a ->
  znx_automorphism_onto w g r1 (znx_automorphism_onto w h r0 a) = znx_automorphism_onto w (g * h) r2 a.
Proof.
  intros Hw Hm Hn Hg Hh Hr H0 H1 H2.
  rewrite (automorphism_is_sigma w h m r0 a) by auto.
  rewrite (automorphism_is_sigma w g m r1 (sigma w h a)) by (rewrite ?sigma_length; auto).
  rewrite (automorphism_is_sigma w (g * h) m r2 a)
    by (auto; rewrite Z.odd_mul, Hg, Hh; reflexivity).
  apply (sigma_compose w g h m); auto.
Qed.
