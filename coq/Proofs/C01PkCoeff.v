(* C01, public-key path: the three per-coefficient value statements (body of a secret-key encryption with an optional
   plaintext, one column of a public-key encryption, decryption). *)
From PV Require Import Base.MachineInt Model.Znx Model.Limbs Model.Flat Model.C08Oracle Model.EncModel
  Proofs.EncValue Proofs.EncLists Proofs.C01Sk.
Open Scope Z_scope.

Section PkCoeff.
Variables wb b pb : Z.
Variable D : Z -> Prop.
Variables size psize : nat.
Hypothesis normalize_value_ok_small : normalize_value_ok_dom D (fun rb ab => normalize 64 rb ab 0) (2 ^ 62).
Hypothesis normalize_value_ok_big : normalize_value_ok_dom D (bnorm wb) (2 ^ (wb - 2)).
Hypothesis Hwb : 2 <= wb.
Hypothesis Hb : D b.
Hypothesis Hpb : D pb.
Hypothesis Hb_pos : 1 <= b.
Hypothesis Hpb_pos : 1 <= pb.

Definition optval (P : Z) (m : option (list Z)) : Z := match m with Some p => lval P b size p | None => 0 end.

(* body of glwe_encrypt_sk_internal for one coefficient, with or without a plaintext on column 0 *)
Lemma enc_body_value (ell : nat) (Bp E M : Z) (Xs ts : list (list Z)) (e : Z) (m : option (list Z)) (body : list Z) :
  (ell < size)%nat -> 0 <= Bp -> Bp <= 2 ^ (wb - 2) ->
  Forall (fun X => length X = size /\ bnd Bp X) Xs ->
  Forall2 (fun X t => bnorm wb b b X (zeros size) = Some t) Xs ts ->
  Z.abs e <= E -> (forall p, m = Some p -> bnd M p) -> 0 <= M ->
  zn (length Xs) * 2 ^ (b - 1) + E + M <= 2 ^ 62 ->
  sk_body_coeff b size ell ts e m = Some body ->
  length body = size /\ Forall (in_range b) body /\
  forall P, zn size * b <= P -> 1 <= P ->
    exists q, lval P b size body + lvsum P b size Xs = optval P m + e * wt P b ell + q * 2 ^ P.
Proof.
  intros Hell HBp HBp' HX H2 He Hm HM Hh64 Henc.
  pose proof (pow2_pos (b - 1) ltac:(lia)) as Hpb1.
  assert (HE : 0 <= E) by lia.
  destruct (terms_value wb b D size ell normalize_value_ok_big Hwb Hb Hb_pos Hell Bp 0 Xs ts HX HBp' H2) as (Ft & Lts & Vts).
  unfold sk_body_coeff in Henc.
  set (c0 := fold_left (fun c t => l_sub_assign 64 t c) ts (zeros size)) in Henc.
  destruct (fold_sub_nowrap 64 ltac:(lia) size (2 ^ (b - 1)) ltac:(lia) ts (zeros size) 0
              (zeros_length size) (bnd_zeros size) Ft ltac:(rewrite Lts; lia)) as (L0 & N0 & B0).
  fold c0 in L0, N0, B0. rewrite Lts in B0.
  set (c1 := l_add_at 64 ell e c0) in Henc.
  destruct (l_add_at_nowrap 64 ltac:(lia) ell e c0 E _ He B0 ltac:(lia)) as (L1 & N1 & B1). fold c1 in L1, N1, B1.
  assert (V0 : forall P, lval P b size c0 = - lvsum P b size ts).
  { intros P. unfold lval. rewrite (sumz_ext _ (fun j => 0 * wt P b j - lsum_at ts j * wt P b j)).
    - rewrite sumz_sub, lval_lsum_at. rewrite sumz_zero' by (intros; lia). lia.
    - intros j _. rewrite N0, nthZ_zeros. lia. }
  assert (V1 : forall P, lval P b size c1 = lval P b size c0 + e * wt P b ell).
  { intros P. unfold lval. rewrite <- (sumz_single e (wt P b) ell size Hell). rewrite <- sumz_add.
    apply sumz_ext. intros j Hj. rewrite N1 by lia. lia. }
  (* the plaintext, if any *)
  assert (exists c2, length c2 = size /\ bnd (M + (E + (0 + zn (length Xs) * 2 ^ (b - 1)))) c2 /\
                     (forall P, lval P b size c2 = lval P b size c1 + optval P m) /\
                     normalize 64 b b 0 c2 (zeros size) = Some body) as (c2 & L2 & B2 & V2 & Hn).
  { destruct m as [p|].
    - destruct (l_add_assign_nowrap 64 ltac:(lia) p c1 M _ (Hm p eq_refl) B1 ltac:(lia)) as (L2 & N2 & B2).
      exists (l_add_assign 64 p c1). split; [lia|]. split; [exact B2|]. split; [|exact Henc].
      intros P. cbn [optval]. unfold lval. rewrite <- sumz_add. apply sumz_ext. intros j Hj. rewrite N2 by lia. lia.
    - exists c1. split; [lia|]. split; [eapply bnd_weaken; [|exact B1]; lia|]. split; [|exact Henc].
      intros P. cbn [optval]. lia. }
  assert (HF2 : Forall (fun x => Z.abs x <= 2 ^ 62) c2).
  { apply Forall_of_bnd. eapply bnd_weaken; [|exact B2]. lia. }
  destruct (normalize_value_ok_small b b c2 (zeros size) body Hb Hb HF2 Hn) as (Lb & Rb & Vb).
  rewrite zeros_length in Lb. specialize (Rb eq_refl).
  split; [exact Lb|]. split; [exact Rb|].
  intros P HP HP1.
  destruct (Vb P ltac:(rewrite zeros_length; lia) ltac:(rewrite L2; lia)) as [_ Exb].
  specialize (Exb ltac:(rewrite zeros_length, L2; lia)).
  destruct (tor_abs_zero_cong P _ HP1 Exb) as [qb Hqb].
  rewrite !val_scaled_lval, Lb, L2 in Hqb.
  destruct (Vts P HP HP1) as [qt Hqt].
  exists (qb - qt). rewrite V2, V1, V0 in Hqb. lia.
Qed.

(* one column of glwe_encrypt_pk_internal for one coefficient *)
Lemma pk_coeff_value (ell : nat) (Bp E M : Z) (X : list Z) (e : Z) (m : option (list Z)) (out : list Z) :
  (ell < size)%nat -> 0 <= Bp -> length X = size -> bnd Bp X ->
  Z.abs e <= E -> (forall p, m = Some p -> bnd M p) -> 0 <= M ->
  Bp + E + M <= 2 ^ (wb - 2) ->
  pk_coeff wb b size ell X e m = Some out ->
  length out = size /\ Forall (in_range b) out /\
  forall P, zn size * b <= P -> 1 <= P ->
    exists q, lval P b size out = lval P b size X + e * wt P b ell + optval P m + q * 2 ^ P.
Proof.
  intros Hell HBp LX BX He Hm HM Hh Hpk.
  pose proof (pow2_le_half wb Hwb) as Hhalf.
  assert (HE : 0 <= E) by lia.
  unfold pk_coeff in Hpk.
  destruct (l_add_at_nowrap wb ltac:(lia) ell e X E _ He BX ltac:(lia)) as (L1 & N1 & B1).
  set (c1 := l_add_at wb ell e X) in *.
  assert (V1 : forall P, lval P b size c1 = lval P b size X + e * wt P b ell).
  { intros P. unfold lval. rewrite <- (sumz_single e (wt P b) ell size Hell). rewrite <- sumz_add.
    apply sumz_ext. intros j Hj. rewrite N1 by lia. lia. }
  assert (exists c2, length c2 = size /\ bnd (M + (E + Bp)) c2 /\
                     (forall P, lval P b size c2 = lval P b size c1 + optval P m) /\
                     bnorm wb b b c2 (zeros size) = Some out) as (c2 & L2 & B2 & V2 & Hn).
  { destruct m as [p|].
    - destruct (l_add_assign_nowrap wb ltac:(lia) p c1 M _ (Hm p eq_refl) B1 ltac:(lia)) as (L2 & N2 & B2).
      exists (l_add_assign wb p c1). split; [lia|]. split; [exact B2|]. split; [|exact Hpk].
      intros P. cbn [optval]. unfold lval. rewrite <- sumz_add. apply sumz_ext. intros j Hj. rewrite N2 by lia. lia.
    - exists c1. split; [lia|]. split; [eapply bnd_weaken; [|exact B1]; lia|]. split; [|exact Hpk].
      intros P. cbn [optval]. lia. }
  assert (HF2 : Forall (fun x => Z.abs x <= 2 ^ (wb - 2)) c2).
  { apply Forall_of_bnd. eapply bnd_weaken; [|exact B2]. lia. }
  destruct (normalize_value_ok_big b b c2 (zeros size) out Hb Hb HF2 Hn) as (Lo & Ro & Vo).
  rewrite zeros_length in Lo. specialize (Ro eq_refl).
  split; [exact Lo|]. split; [exact Ro|].
  intros P HP HP1.
  destruct (Vo P ltac:(rewrite zeros_length; lia) ltac:(rewrite L2; lia)) as [_ Ex].
  specialize (Ex ltac:(rewrite zeros_length, L2; lia)).
  destruct (tor_abs_zero_cong P _ HP1 Ex) as [q Hq].
  rewrite !val_scaled_lval, Lo, L2 in Hq.
  exists q. rewrite V2, V1 in Hq. lia.
Qed.

(* glwe_decrypt for one coefficient *)
Lemma dec_coeff_value (Bp Bb : Z) (Xs : list (list Z)) (body d : list Z) :
  0 <= Bp -> Forall (fun X => length X = size /\ bnd Bp X) Xs -> length body = size -> bnd Bb body ->
  zn (length Xs) * Bp + Bb <= 2 ^ (wb - 2) ->
  dec_coeff wb b pb size psize Xs body = Some d ->
  length d = psize /\
  forall P, zn size * b <= P -> zn psize * pb <= P -> 1 <= P ->
    tor_abs P (val_scaled P pb d - (lvsum P b size Xs + lval P b size body)) <= 2 ^ (P - zn psize * pb).
Proof.
  intros HBp HX Lb Bb' Hh Hdec.
  pose proof (pow2_le_half wb Hwb) as Hhalf.
  assert (HBb : 0 <= Bb) by (specialize (Bb' O); lia).
  unfold dec_coeff in Hdec.
  set (acc := fold_left (fun c p => l_add_assign wb p c) Xs (zeros size)) in Hdec.
  destruct (fold_add_nowrap wb ltac:(lia) size Bp HBp Xs (zeros size) 0
              (zeros_length size) (bnd_zeros size) HX ltac:(lia)) as (La & Na & Ba).
  fold acc in La, Na, Ba.
  set (acc' := l_add_assign wb body acc) in Hdec.
  destruct (l_add_assign_nowrap wb ltac:(lia) body acc _ _ Bb' Ba ltac:(lia)) as (La' & Na' & Ba'). fold acc' in La', Na', Ba'.
  assert (HFa : Forall (fun x => Z.abs x <= 2 ^ (wb - 2)) acc').
  { apply Forall_of_bnd. eapply bnd_weaken; [|exact Ba']. lia. }
  destruct (normalize_value_ok_big pb b acc' (zeros psize) d Hpb Hb HFa Hdec) as (Ld & _ & Vd).
  rewrite zeros_length in Ld. split; [exact Ld|].
  intros P HP HPp HP1.
  assert (Lacc : length acc' = size) by lia.
  assert (Va : lval P b size acc' = lvsum P b size Xs + lval P b size body).
  { unfold lval at 1. rewrite (sumz_ext _ (fun j => lsum_at Xs j * wt P b j + nthZ body j * wt P b j)).
    - rewrite sumz_add, lval_lsum_at. reflexivity.
    - intros j Hj. rewrite Na' by lia. rewrite Na, nthZ_zeros. lia. }
  destruct (Vd P ltac:(rewrite zeros_length; lia) ltac:(rewrite Lacc; lia)) as [Un _].
  rewrite zeros_length in Un. rewrite (val_scaled_lval P b acc'), Lacc, Va in Un. exact Un.
Qed.

End PkCoeff.
