(* C15 — circuit bootstrapping in constant mode for GENERAL parameters: for every ring degree 2^logn, every gadget
   (base2k, dnum), every log_domain ld with 2^ld * next_pow2(dnum) < 2^logn and ld < base2k, and every message m < 2^ld,
   each row of the ideal pipeline (lookup table as built by circuit_bootstrap_core, blind rotation by the exact message,
   rotation by -(i * gap), full trace) decodes, at the precision of its gadget level, to the constant m. *)
From Coq Require Import ZArith List Bool Lia.
From PV Require Import Gen.C15_gen Model.C15Uint Model.C15Cbt Proofs.C15Layout Proofs.C15Surgery.
Import ListNotations.
Open Scope Z_scope.

Lemma next_pow2_spec x : 1 <= x -> exists a, 0 <= a /\ next_pow2 x = 2 ^ a /\ x <= 2 ^ a.
Proof.
  intros Hx. unfold next_pow2. destruct (Z.leb_spec x 1).
  - exists 0. cbn. lia.
  - unfold bitlen. destruct (Z.leb_spec (x - 1) 0); [lia|].
    exists (Z.log2 (x - 1) + 1). pose proof (Z.log2_nonneg (x - 1)).
    split; [lia|]. split; [reflexivity|].
    pose proof (Z.log2_spec (x - 1) ltac:(lia)) as [_ H2]. rewrite <- Z.add_1_r in H2. lia.
Qed.

Section ConstGen.
  Variables logn base2k dnum ld a : Z.
  Hypothesis Hd : 1 <= dnum.
  Hypothesis Ha : 0 <= a.
  Hypothesis Halpha : alpha dnum = 2 ^ a.
  Hypothesis Hda : dnum <= 2 ^ a.
  Hypothesis Hld : 0 <= ld.
  Hypothesis Hroom : ld + a + 1 <= logn.           (* step >= 2: the assert gap > 0 of the code *)
  Hypothesis Hb : 1 <= base2k.
  Hypothesis Hldb : ld + 1 <= base2k.               (* the message fits below the sign bit of the first gadget digit *)
  Let e := logn - ld - a.
  Let S := 2 ^ e.
  Let A := 2 ^ a.
  Let D := 2 ^ ld.
  Let n := 2 ^ logn.

  Lemma S_pos : 2 <= S. Proof. unfold S. replace e with (1 + (e - 1)) by lia. rewrite Z.pow_add_r by (unfold e; lia). pose proof (pow2_pos' (e - 1) ltac:(unfold e; lia)). change (2 ^ 1) with 2. lia. Qed.
  Lemma A_pos : 0 < A. Proof. apply pow2_pos'; lia. Qed.
  Lemma D_pos : 0 < D. Proof. apply pow2_pos'; lia. Qed.
  Lemma n_DAS : n = D * A * S.
  Proof. unfold n, D, A, S, e. rewrite <- !Z.pow_add_r by lia. f_equal. lia. Qed.
  Lemma S_even : S = 2 * 2 ^ (e - 1).
  Proof. unfold S. replace e with (1 + (e - 1)) at 1 by lia. rewrite Z.pow_add_r by (unfold e; lia). reflexivity. Qed.

  Lemma f_len_eq : f_len dnum ld = D * A. Proof. unfold f_len. now rewrite Halpha. Qed.
  Lemma step_eq : step logn dnum ld = S.
  Proof.
    unfold step. rewrite f_len_eq. fold n. rewrite n_DAS. pose proof A_pos. pose proof D_pos.
    assert (0 < D * A) by nia.
    assert (R : 0 <= D * A / 2 < D * A) by (split; [apply Z.div_pos; lia | apply Z.div_lt; lia]).
    destruct (div_mod_small (D * A * S + D * A / 2) (D * A) S (D * A / 2) ltac:(lia) R ltac:(ring)) as [E _].
    exact E.
  Qed.
  Lemma drift_eq : drift logn dnum ld = 2 ^ (e - 1).
  Proof. unfold drift. rewrite step_eq, Z.shiftr_div_pow2 by lia. change (2 ^ 1) with 2. rewrite S_even, Z.mul_comm, Z.div_mul by lia. reflexivity. Qed.
  Lemma gap_eq : cb_gap logn dnum ld = S.
  Proof. unfold cb_gap. rewrite drift_eq. symmetry. apply S_even. Qed.

  (* the coefficient that ends at position 0 of row i *)
  Lemma row_coeff0 m i : 0 <= m < D -> 0 <= i < dnum ->
    p_rot n (- (i * cb_gap logn dnum ld)) (br_acc logn base2k dnum false ld m) 0 = m * 2 ^ (base2k * (dnum - 1 - i)).
  Proof.
    intros Hm Hi. rewrite gap_eq. pose proof S_pos. pose proof A_pos. pose proof D_pos. pose proof n_DAS as En.
    pose proof (pow2_pos' (e - 1) ltac:(unfold e; lia)) as Hh. pose proof S_even as Es. fold A in Hda.
    assert (B1 : 0 <= i * S /\ 0 <= m * (A * S) /\ i * S + m * (A * S) + 2 ^ (e - 1) < n).
    { assert (0 < A * S) by nia.
      assert (i * S <= (A - 1) * S) by (apply Z.mul_le_mono_nonneg_r; lia).
      assert (m * (A * S) <= (D - 1) * (A * S)) by (apply Z.mul_le_mono_nonneg_r; lia).
      assert (0 <= i * S) by (apply Z.mul_nonneg_nonneg; lia).
      assert (0 <= m * (A * S)) by (apply Z.mul_nonneg_nonneg; lia).
      rewrite En. split; [lia|]. split; [lia|].
      replace (D * A * S) with ((A - 1) * S + (D - 1) * (A * S) + S) by ring. lia. }
    unfold br_acc. cbv zeta. fold n.
    assert (Eph : n / 2 ^ ld = A * S) by (fold D; rewrite En; replace (D * A * S) with (A * S * D) by ring; apply Z.div_mul; lia).
    rewrite Eph. unfold lut. fold n. rewrite drift_eq.
    rewrite (p_rot_lo n) by lia. rewrite (p_rot_lo n) by lia. rewrite (p_rot_lo n) by lia.
    set (z := 0 - - (i * S) - - (m * (A * S)) - - 2 ^ (e - 1)).
    assert (Ez : z = (m * A + i) * S + 2 ^ (e - 1)) by (unfold z; ring).
    unfold lut_full. rewrite f_len_eq, step_eq. rewrite <- En.
    destruct (Z.leb_spec 0 z); [|lia]. destruct (Z.ltb_spec z n); [|nia]. cbn [andb].
    destruct (div_mod_small z S (m * A + i) (2 ^ (e - 1)) ltac:(lia) ltac:(lia) ltac:(lia)) as [-> _].
    unfold f_at. rewrite f_len_eq, Halpha. fold A.
    destruct (div_mod_small (m * A + i) A m i ltac:(lia) ltac:(lia) ltac:(ring)) as [-> ->].
    destruct (Z.leb_spec 0 (m * A + i)); [|nia]. destruct (Z.ltb_spec (m * A + i) (D * A)); [|nia].
    destruct (Z.ltb_spec i dnum); [|lia]. reflexivity.
  Qed.

  Lemma row_ok m i : 0 <= m < D -> 0 <= i < dnum ->
    exists q, cb_row logn base2k dnum false ld 0 m i = Some q /\
              forall j, 0 <= j < n -> row_decoded base2k dnum i q j = p_const m j.
  Proof.
    intros Hm Hi. unfold cb_row. cbv zeta. eexists; split; [reflexivity|]. intros j Hj.
    unfold row_decoded, p_trace, p_keep, p_const. fold n. change (2 ^ 0) with 1. rewrite Z.div_1_r.
    set (s := base2k * (dnum - 1 - i)). assert (Hs : 0 <= s) by (unfold s; nia).
    set (Mo := 2 ^ (base2k * (i + 1))).
    assert (HM : 2 * m < Mo).
    { unfold Mo. apply Z.lt_le_trans with (2 * 2 ^ ld); [fold D; lia|]. rewrite <- Z.pow_succ_r by lia.
      apply Z.pow_le_mono_r; nia. }
    assert (HMe : Mo = 2 * (Mo / 2)).
    { unfold Mo. replace (base2k * (i + 1)) with (1 + (base2k * (i + 1) - 1)) by lia.
      rewrite Z.pow_add_r by nia. change (2 ^ 1) with 2. rewrite (Z.mul_comm 2), Z.div_mul by lia. ring. }
    pose proof (pow2_pos' s Hs) as Hps.
    assert (Ehalf : forall v, 0 <= v -> (v * 2 ^ s + (if s =? 0 then 0 else 2 ^ (s - 1))) / 2 ^ s = v).
    { intros v Hv. destruct (Z.eqb_spec s 0) as [E0|E0].
      - rewrite E0. change (2 ^ 0) with 1. rewrite Z.add_0_r, Z.mul_1_r. apply Z.div_1_r.
      - pose proof (pow2_pos' (s - 1) ltac:(lia)).
        assert (2 ^ s = 2 * 2 ^ (s - 1)) by (replace s with (1 + (s - 1)) at 1 by lia; rewrite Z.pow_add_r by lia; reflexivity).
        destruct (div_mod_small (v * 2 ^ s + 2 ^ (s - 1)) (2 ^ s) v (2 ^ (s - 1)) ltac:(lia) ltac:(lia) ltac:(ring)) as [-> _]. reflexivity. }
    cbv zeta. rewrite (Z.mod_small j n) by lia. destruct (Z.eqb_spec j 0) as [->|Hne].
    - rewrite row_coeff0 by auto. fold s. rewrite Ehalf by lia. rewrite Z.mod_small by lia.
      destruct (Z.leb_spec (Mo / 2) m); lia.
    - pose proof (Ehalf 0 ltac:(lia)) as E0. rewrite Z.mul_0_l in E0. rewrite E0. rewrite Z.mod_0_l by lia.
      destruct (Z.leb_spec (Mo / 2) 0); lia.
  Qed.

  Lemma rows_ok_const m : 0 <= m < D -> cbt_rows_ok logn base2k dnum false ld 0 m = true.
  Proof.
    intros Hm. unfold cbt_rows_ok. apply forallb_forall. intros i Hi. apply in_zseq in Hi. rewrite Z2Nat.id in Hi by lia.
    destruct (row_ok m i Hm ltac:(lia)) as (q & -> & Hq).
    unfold poly_eqb. apply forallb_forall. intros j Hj. apply in_zseq in Hj.
    assert (0 < n) by (apply pow2_pos'; lia). fold n in Hj. rewrite Z2Nat.id in Hj by lia.
    apply Z.eqb_eq. rewrite Hq by lia. unfold cand. reflexivity.
  Qed.
End ConstGen.

(* constant mode, all parameter sets *)
Theorem cbt_rows_ok_constant_general : forall logn base2k dnum ld m,
  1 <= dnum -> 0 <= ld -> ld + 1 <= base2k ->
  2 * (2 ^ ld * next_pow2 dnum) <= 2 ^ logn -> 0 <= logn ->
  0 <= m < 2 ^ ld ->
  cbt_rows_ok logn base2k dnum false ld 0 m = true.
Proof.
  intros logn base2k dnum ld m Hd Hld Hldb Hroom Hlogn Hm.
  destruct (next_pow2_spec dnum Hd) as (a & Ha & Ea & Hda).
  apply (rows_ok_const logn base2k dnum ld a); auto; try lia.
  rewrite Ea in Hroom. rewrite <- Z.pow_add_r, <- Z.pow_succ_r in Hroom by lia.
  apply Z.pow_le_mono_r_iff in Hroom; lia.
Qed.
