(* C15 — circuit bootstrapping in constant mode for GENERAL parameters: for every ring degree 2^logn, every gadget
   (base2k, dnum), every log_domain ld with 2^ld * next_pow2(dnum) < 2^logn and ld < base2k, and every message m < 2^ld,
   each row of the ideal pipeline (lookup table as built by circuit_bootstrap_core, blind rotation by the exact message,
   rotation by -(i * gap), full trace) decodes, at the precision of its gadget level, to the constant m. *)
From Coq Require Import ZArith List Bool Lia.
From PV Require Import Gen.C15_gen Model.C15Uint Model.C15Cbt Proofs.C15Layout Proofs.C15Surgery.
Import ListNotations.
Open Scope Z_scope.

Lemma next_pow2_spec x : 1 <= x -> exists a, 0 <= a /\ next_pow2 x = 2 ^ a /\ x <= 2 ^ a.
Proof.
  intros Hx. unfold next_pow2. destruct (Z.leb_spec x 1).
  - exists 0. cbn. lia.
  - unfold bitlen. destruct (Z.leb_spec (x - 1) 0); [lia|].
    exists (Z.log2 (x - 1) + 1). pose proof (Z.log2_nonneg (x - 1)).
    split; [lia|]. split; [reflexivity|].
    pose proof (Z.log2_spec (x - 1) ltac:(lia)) as [_ H2]. rewrite <- Z.add_1_r in H2. lia.
Qed.

Section ConstGen.
  Variables logn base2k dnum bb ld a : Z.
  Hypothesis Hd : 1 <= dnum.
  Hypothesis Ha : 0 <= a.
  Hypothesis Halpha : alpha dnum = 2 ^ a.
  Hypothesis Hda : dnum <= 2 ^ a.
  Hypothesis Hld : 0 <= ld.
  Hypothesis Hroom : ld + a + 1 <= logn.           (* step >= 2: the assert gap > 0 of the code *)
  Hypothesis Hb : 1 <= base2k.
  Hypothesis Hldb : ld + 1 <= base2k.               (* the message fits below the sign bit of the first gadget digit *)
  Hypothesis Hbb : 1 <= bb.
  (* no lookup-table coefficient reaches the top of i64: what the overflow assert enforces, constant resp. exponent mode *)
  Hypothesis Hove : base2k * (dnum - 1) + lut_sc base2k dnum bb <= 62.
  Let e := logn - ld - a.
  Let S := 2 ^ e.
  Let A := 2 ^ a.
  Let D := 2 ^ ld.
  Let n := 2 ^ logn.

  Lemma S_pos : 2 <= S. Proof. unfold S. replace e with (1 + (e - 1)) by lia. rewrite Z.pow_add_r by (unfold e; lia). pose proof (pow2_pos' (e - 1) ltac:(unfold e; lia)). change (2 ^ 1) with 2. lia. Qed.
  Lemma A_pos : 0 < A. Proof. apply pow2_pos'; lia. Qed.
  Lemma D_pos : 0 < D. Proof. apply pow2_pos'; lia. Qed.
  Lemma n_DAS : n = D * A * S.
  Proof. unfold n, D, A, S, e. rewrite <- !Z.pow_add_r by lia. f_equal. lia. Qed.
  Lemma S_even : S = 2 * 2 ^ (e - 1).
  Proof. unfold S. replace e with (1 + (e - 1)) at 1 by lia. rewrite Z.pow_add_r by (unfold e; lia). reflexivity. Qed.

  Lemma f_len_eq : f_len dnum ld = D * A. Proof. unfold f_len. now rewrite Halpha. Qed.
  Lemma step_eq : step logn dnum ld = S.
  Proof.
    unfold step. rewrite f_len_eq. fold n. rewrite n_DAS. pose proof A_pos. pose proof D_pos.
    assert (0 < D * A) by nia.
    assert (R : 0 <= D * A / 2 < D * A) by (split; [apply Z.div_pos; lia | apply Z.div_lt; lia]).
    destruct (div_mod_small (D * A * S + D * A / 2) (D * A) S (D * A / 2) ltac:(lia) R ltac:(ring)) as [E _].
    exact E.
  Qed.
  Lemma drift_eq : drift logn dnum ld = 2 ^ (e - 1).
  Proof. unfold drift. rewrite step_eq, Z.shiftr_div_pow2 by lia. change (2 ^ 1) with 2. rewrite S_even, Z.mul_comm, Z.div_mul by lia. reflexivity. Qed.
  Lemma gap_eq : cb_gap logn dnum ld = S.
  Proof. unfold cb_gap. rewrite drift_eq. symmetry. apply S_even. Qed.

  Lemma sc_nonneg : 0 <= lut_sc base2k dnum bb.
  Proof. unfold lut_sc. cbv zeta. destruct (_ =? 0); [lia|]. pose proof (Z.mod_pos_bound (base2k * dnum) bb ltac:(lia)). lia. Qed.
  Lemma wrap64_small v : 0 <= v < 2 ^ 63 -> wrap64 v = v.
  Proof. intros Hv. unfold wrap64. rewrite Z.mod_small by (change (2 ^ 64) with (2 * 2 ^ 63); lia). lia. Qed.
  Lemma asserts_ok : ld + base2k * (dnum - 1) + lut_sc base2k dnum bb <= 62 -> cb_asserts base2k dnum bb false ld = true.
  Proof. intros Hov. unfold cb_asserts. rewrite Z.max_r by lia. apply Z.ltb_lt. lia. Qed.

  (* the coefficient that ends at position 0 of row i *)
  Lemma row_coeff0 m i : ld + base2k * (dnum - 1) + lut_sc base2k dnum bb <= 62 -> 0 <= m < D -> 0 <= i < dnum ->
    p_rot n (- (i * cb_gap logn dnum ld)) (br_acc logn base2k dnum bb false ld m) 0 =
      m * 2 ^ (base2k * (dnum - 1 - i) + lut_sc base2k dnum bb).
  Proof.
    intros Hov Hm Hi. rewrite gap_eq. pose proof S_pos. pose proof A_pos. pose proof D_pos. pose proof n_DAS as En.
    pose proof (pow2_pos' (e - 1) ltac:(unfold e; lia)) as Hh. pose proof S_even as Es. fold A in Hda.
    assert (B1 : 0 <= i * S /\ 0 <= m * (A * S) /\ i * S + m * (A * S) + 2 ^ (e - 1) < n).
    { assert (0 < A * S) by nia.
      assert (i * S <= (A - 1) * S) by (apply Z.mul_le_mono_nonneg_r; lia).
      assert (m * (A * S) <= (D - 1) * (A * S)) by (apply Z.mul_le_mono_nonneg_r; lia).
      assert (0 <= i * S) by (apply Z.mul_nonneg_nonneg; lia).
      assert (0 <= m * (A * S)) by (apply Z.mul_nonneg_nonneg; lia).
      rewrite En. split; [lia|]. split; [lia|].
      replace (D * A * S) with ((A - 1) * S + (D - 1) * (A * S) + S) by ring. lia. }
    unfold br_acc. cbv zeta. fold n.
    assert (Eph : n / 2 ^ ld = A * S) by (fold D; rewrite En; replace (D * A * S) with (A * S * D) by ring; apply Z.div_mul; lia).
    rewrite Eph. unfold lut. fold n. rewrite drift_eq.
    rewrite (p_rot_lo n) by lia. rewrite (p_rot_lo n) by lia. rewrite (p_rot_lo n) by lia.
    set (z := 0 - - (i * S) - - (m * (A * S)) - - 2 ^ (e - 1)).
    assert (Ez : z = (m * A + i) * S + 2 ^ (e - 1)) by (unfold z; ring).
    unfold lut_full. rewrite f_len_eq, step_eq. rewrite <- En.
    destruct (Z.leb_spec 0 z); [|lia]. destruct (Z.ltb_spec z n); [|nia]. cbn [andb].
    destruct (div_mod_small z S (m * A + i) (2 ^ (e - 1)) ltac:(lia) ltac:(lia) ltac:(lia)) as [-> _].
    unfold lut_entry, f_i64. rewrite f_len_eq, Halpha. fold A.
    destruct (div_mod_small (m * A + i) A m i ltac:(lia) ltac:(lia) ltac:(ring)) as [-> ->].
    destruct (Z.leb_spec 0 (m * A + i)); [|nia]. destruct (Z.ltb_spec (m * A + i) (D * A)); [|nia].
    destruct (Z.ltb_spec i dnum); [|lia]. cbn [andb].
    pose proof sc_nonneg as Hsc. set (sc := lut_sc base2k dnum bb) in *.
    set (X := base2k * (dnum - 1 - i)).
    assert (HX : 0 <= X <= base2k * (dnum - 1)) by (unfold X; nia).
    assert (P1 : 0 < 2 ^ X) by (apply pow2_pos'; lia).
    assert (P2 : 0 < 2 ^ sc) by (apply pow2_pos'; lia).
    assert (B2 : m * 2 ^ X * 2 ^ sc < 2 ^ 62).
    { apply Z.lt_le_trans with (2 ^ ld * 2 ^ X * 2 ^ sc).
      - fold D. apply Z.mul_lt_mono_pos_r; [lia|]. apply Z.mul_lt_mono_pos_r; lia.
      - rewrite <- !Z.pow_add_r by lia. apply Z.pow_le_mono_r; lia. }
    assert (B3 : 0 <= m * 2 ^ X <= m * 2 ^ X * 2 ^ sc) by nia.
    assert (B4 : 2 ^ X <= m * 2 ^ X * 2 ^ sc \/ m = 0) by nia.
    assert (B5 : 2 ^ X < 2 ^ 63).
    { apply Z.pow_lt_mono_r; lia. }
    assert (E62 : 2 ^ 62 < 2 ^ 63) by (apply Z.pow_lt_mono_r; lia).
    rewrite (wrap64_small (2 ^ X)) by lia. rewrite (wrap64_small (m * 2 ^ X)) by lia.
    rewrite (wrap64_small (m * 2 ^ X * 2 ^ sc)) by nia. rewrite Z.pow_add_r by lia. ring.
  Qed.

  Lemma row_ok lgo m i : ld + base2k * (dnum - 1) + lut_sc base2k dnum bb <= 62 -> 0 <= m < D -> 0 <= i < dnum ->
    exists q, cb_row logn base2k dnum bb false ld lgo m i = Some q /\
              forall j, 0 <= j < n -> row_decoded base2k dnum bb i q j = p_const m j.
  Proof.
    intros Hov Hm Hi. unfold cb_row. rewrite asserts_ok by exact Hov. cbv zeta. eexists; split; [reflexivity|]. intros j Hj.
    unfold row_decoded, p_trace, p_keep, p_const. fold n. change (2 ^ 0) with 1. rewrite Z.div_1_r.
    pose proof sc_nonneg. set (s := base2k * (dnum - 1 - i) + lut_sc base2k dnum bb). assert (Hs : 0 <= s) by (unfold s; nia).
    set (Mo := 2 ^ (base2k * (i + 1))).
    assert (HM : 2 * m < Mo).
    { unfold Mo. apply Z.lt_le_trans with (2 * 2 ^ ld); [fold D; lia|]. rewrite <- Z.pow_succ_r by lia.
      apply Z.pow_le_mono_r; nia. }
    assert (HMe : Mo = 2 * (Mo / 2)).
    { unfold Mo. replace (base2k * (i + 1)) with (1 + (base2k * (i + 1) - 1)) by lia.
      rewrite Z.pow_add_r by nia. change (2 ^ 1) with 2. rewrite (Z.mul_comm 2), Z.div_mul by lia. ring. }
    pose proof (pow2_pos' s Hs) as Hps.
    assert (Ehalf : forall v, 0 <= v -> (v * 2 ^ s + (if s =? 0 then 0 else 2 ^ (s - 1))) / 2 ^ s = v).
    { intros v Hv. destruct (Z.eqb_spec s 0) as [E0|E0].
      - rewrite E0. change (2 ^ 0) with 1. rewrite Z.add_0_r, Z.mul_1_r. apply Z.div_1_r.
      - pose proof (pow2_pos' (s - 1) ltac:(lia)).
        assert (2 ^ s = 2 * 2 ^ (s - 1)) by (replace s with (1 + (s - 1)) at 1 by lia; rewrite Z.pow_add_r by lia; reflexivity).
        destruct (div_mod_small (v * 2 ^ s + 2 ^ (s - 1)) (2 ^ s) v (2 ^ (s - 1)) ltac:(lia) ltac:(lia) ltac:(ring)) as [-> _]. reflexivity. }
    cbv zeta. rewrite (Z.mod_small j n) by lia. destruct (Z.eqb_spec j 0) as [->|Hne].
    - rewrite row_coeff0 by auto. fold s. rewrite Ehalf by lia. rewrite Z.mod_small by lia.
      destruct (Z.leb_spec (Mo / 2) m); lia.
    - pose proof (Ehalf 0 ltac:(lia)) as E0. rewrite Z.mul_0_l in E0. rewrite E0. rewrite Z.mod_0_l by lia.
      destruct (Z.leb_spec (Mo / 2) 0); lia.
  Qed.

  Lemma rows_ok_const lgo m : ld + base2k * (dnum - 1) + lut_sc base2k dnum bb <= 62 -> 0 <= m < D -> cbt_rows_ok logn base2k dnum bb false ld lgo m = true.
  Proof.
    intros Hov Hm. unfold cbt_rows_ok. apply forallb_forall. intros i Hi. apply in_zseq in Hi. rewrite Z2Nat.id in Hi by lia.
    destruct (row_ok lgo m i Hov Hm ltac:(lia)) as (q & -> & Hq).
    unfold poly_eqb. apply forallb_forall. intros j Hj. apply in_zseq in Hj.
    assert (0 < n) by (apply pow2_pos'; lia). fold n in Hj. rewrite Z2Nat.id in Hj by lia.
    apply Z.eqb_eq. rewrite Hq by lia. unfold cand. reflexivity.
  Qed.
  (* ---------------------------------------------------------------------------------------------- *)
  (** ** exponent mode *)

  Let G := e + a.
  Lemma AS_pow : A * S = 2 ^ G. Proof. unfold A, S, G. rewrite <- Z.pow_add_r by (unfold e; lia). f_equal. lia. Qed.
  Lemma log_gap_in_eq : log_gap_in logn dnum ld = G.
  Proof.
    unfold log_gap_in. rewrite gap_eq, Halpha. fold A. rewrite (Z.mul_comm S A), AS_pow.
    assert (1 <= G) by (unfold G, e; lia).
    assert (2 <= 2 ^ G) by (replace G with (1 + (G - 1)) by lia; rewrite Z.pow_add_r by lia; pose proof (pow2_pos' (G - 1) ltac:(lia)); change (2 ^ 1) with 2; lia).
    unfold bitlen. destruct (Z.leb_spec (2 ^ G - 1) 0); [lia|].
    replace (2 ^ G - 1) with (Z.pred (2 ^ G)) by lia. rewrite Z.log2_pred_pow2 by lia. lia.
  Qed.
  Lemma asserts_ok_expo : cb_asserts base2k dnum bb true ld = true.
  Proof. unfold cb_asserts. rewrite Z.max_r by lia. apply Z.ltb_lt. lia. Qed.

  (* the accumulator of row i at the multiples of alpha * step: the row's own table entry at t = m, zero elsewhere *)
  Lemma row_coeff_expo m i t : 0 <= m < D -> 0 <= i < dnum -> 0 <= t < D ->
    p_rot n (- (i * cb_gap logn dnum ld)) (br_acc logn base2k dnum bb true ld m) (t * (A * S)) =
      if t =? m then 2 ^ (base2k * (dnum - 1 - i) + lut_sc base2k dnum bb) else 0.
  Proof.
    intros Hm Hi Ht. rewrite gap_eq. pose proof S_pos. pose proof A_pos. pose proof D_pos. pose proof n_DAS as En.
    pose proof (pow2_pos' (e - 1) ltac:(unfold e; lia)) as Hh. pose proof S_even as Es. fold A in Hda.
    assert (HAS : 0 < A * S) by nia.
    assert (Bi : 0 <= i * S /\ i * S + 2 ^ (e - 1) < A * S).
    { assert (i * S <= (A - 1) * S) by (apply Z.mul_le_mono_nonneg_r; lia).
      assert (0 <= i * S) by (apply Z.mul_nonneg_nonneg; lia).
      replace (A * S) with ((A - 1) * S + S) by ring. lia. }
    assert (Bt : forall u, 0 <= u < D -> 0 <= u * (A * S) /\ u * (A * S) + A * S <= n).
    { intros u Hu. assert (u * (A * S) <= (D - 1) * (A * S)) by (apply Z.mul_le_mono_nonneg_r; lia).
      assert (0 <= u * (A * S)) by (apply Z.mul_nonneg_nonneg; lia).
      rewrite En. replace (D * A * S) with ((D - 1) * (A * S) + A * S) by ring. lia. }
    pose proof (Bt t Ht) as Btt. pose proof (Bt m Hm) as Btm.
    unfold br_acc. cbv zeta. fold n.
    assert (Eph : n / 2 ^ ld = A * S) by (fold D; rewrite En; replace (D * A * S) with (A * S * D) by ring; apply Z.div_mul; lia).
    rewrite Eph. rewrite (p_rot_lo n) by lia. unfold lut. fold n.
    (* the entry read: index q * S + drift of lut_full *)
    assert (Hentry : forall q, 0 <= q -> q * S + S <= n ->
               p_rot n (- drift logn dnum ld) (lut_full logn base2k dnum bb true ld) (q * S) = lut_entry base2k dnum bb true ld q).
    { intros q Hq0 Hq. rewrite drift_eq. rewrite (p_rot_lo n) by lia. unfold lut_full. rewrite f_len_eq, step_eq, <- En.
      destruct (Z.leb_spec 0 (q * S - - 2 ^ (e - 1))); [|nia]. destruct (Z.ltb_spec (q * S - - 2 ^ (e - 1)) n); [|lia]. cbn [andb].
      destruct (div_mod_small (q * S - - 2 ^ (e - 1)) S q (2 ^ (e - 1)) ltac:(lia) ltac:(lia) ltac:(ring)) as [-> _]. reflexivity. }
    assert (Hval : forall u, 0 <= u < D ->
               lut_entry base2k dnum bb true ld (u * A + i) = if u =? 0 then 2 ^ (base2k * (dnum - 1 - i) + lut_sc base2k dnum bb) else 0).
    { intros u Hu. unfold lut_entry, f_i64. rewrite f_len_eq, Halpha. fold A.
      destruct (div_mod_small (u * A + i) A u i ltac:(lia) ltac:(lia) ltac:(ring)) as [-> ->].
      destruct (Z.leb_spec 0 (u * A + i)); [|nia]. destruct (Z.ltb_spec (u * A + i) (D * A)); [|nia].
      destruct (Z.ltb_spec i dnum); [|lia]. cbn [andb].
      destruct (Z.eqb_spec u 0); [|reflexivity].
      pose proof sc_nonneg as Hsc. set (sc := lut_sc base2k dnum bb) in *. set (X := base2k * (dnum - 1 - i)).
      assert (HX : 0 <= X <= base2k * (dnum - 1)) by (unfold X; nia).
      assert (B5 : 0 < 2 ^ X < 2 ^ 63) by (split; [apply pow2_pos'; lia | apply Z.pow_lt_mono_r; lia]).
      assert (B6 : 0 < 2 ^ (X + sc) < 2 ^ 63) by (split; [apply pow2_pos'; lia | apply Z.pow_lt_mono_r; lia]).
      rewrite (wrap64_small (2 ^ X)) by lia. rewrite <- Z.pow_add_r by lia. apply wrap64_small. lia. }
    destruct (Z_lt_le_dec t m) as [Hlt|Hge].
    - (* the table wrapped once: entry (t - m + D) * alpha + i, a zero of the table *)
      rewrite (p_rot_neg n) by (try (rewrite En; nia); nia).
      replace (t * (A * S) - - (i * S) - m * (A * S) + n) with (((t - m + D) * A + i) * S) by (rewrite En; ring).
      rewrite Hentry; [| nia |].
      + rewrite Hval by lia. destruct (Z.eqb_spec (t - m + D) 0); [lia|]. destruct (Z.eqb_spec t m); lia.
      + pose proof (Bt (t - m + D) ltac:(lia)). nia.
    - rewrite (p_rot_lo n) by nia.
      replace (t * (A * S) - - (i * S) - m * (A * S)) with (((t - m) * A + i) * S) by ring.
      rewrite Hentry; [| nia |].
      + rewrite Hval by lia. destruct (Z.eqb_spec (t - m) 0); destruct (Z.eqb_spec t m); try lia; reflexivity.
      + pose proof (Bt (t - m) ltac:(lia)). nia.
  Qed.
  Lemma cand_expo lgo m j : 0 <= lgo -> 0 <= m -> m * 2 ^ lgo < n -> 0 <= j < n ->
    cand logn true lgo m j = if j =? m * 2 ^ lgo then 1 else 0.
  Proof.
    intros Hl Hm Hbd Hj. unfold cand. fold n. pose proof (pow2_pos' lgo Hl). assert (0 <= m * 2 ^ lgo) by nia.
    assert (Hn : 0 < n) by lia.
    destruct (Z_lt_le_dec (j - m * 2 ^ lgo) 0).
    - rewrite (p_rot_neg n Hn) by lia. unfold p_const.
      destruct (Z.eqb_spec (j - m * 2 ^ lgo + n) 0); [lia|]. destruct (Z.eqb_spec j (m * 2 ^ lgo)); lia.
    - rewrite (p_rot_lo n) by lia. unfold p_const.
      destruct (Z.eqb_spec (j - m * 2 ^ lgo) 0); destruct (Z.eqb_spec j (m * 2 ^ lgo)); lia.
  Qed.

  Lemma row_ok_expo lgo m i : 2 <= base2k -> 0 <= lgo -> (D - 1) * 2 ^ lgo < n -> 0 <= m < D -> 0 <= i < dnum ->
    exists q, cb_row logn base2k dnum bb true ld lgo m i = Some q /\
              forall j, 0 <= j < n -> row_decoded base2k dnum bb i q j = cand logn true lgo m j.
  Proof.
    intros Hb2 Hl Hpk Hm Hi. pose proof S_pos. pose proof A_pos. pose proof D_pos. pose proof n_DAS as En.
    assert (HAS : 0 < A * S) by nia. pose proof (pow2_pos' lgo Hl) as HL.
    assert (Hn : 0 < n) by (rewrite En; nia).
    assert (Hmb : m * 2 ^ lgo < n) by (assert (m * 2 ^ lgo <= (D - 1) * 2 ^ lgo) by (apply Z.mul_le_mono_nonneg_r; lia); lia).
    pose proof sc_nonneg. set (s := base2k * (dnum - 1 - i) + lut_sc base2k dnum bb). assert (Hs : 0 <= s) by (unfold s; nia).
    pose proof (pow2_pos' s Hs) as Hps.
    set (Mo := 2 ^ (base2k * (i + 1))).
    assert (HMo : 4 <= Mo /\ Mo = 2 * (Mo / 2)).
    { unfold Mo. replace (base2k * (i + 1)) with (2 + (base2k * (i + 1) - 2)) by lia. rewrite Z.pow_add_r by nia.
      pose proof (pow2_pos' (base2k * (i + 1) - 2) ltac:(nia)). change (2 ^ 2) with 4. split; [lia|].
      replace (4 * 2 ^ (base2k * (i + 1) - 2)) with ((2 * 2 ^ (base2k * (i + 1) - 2)) * 2) by ring. rewrite Z.div_mul by lia. ring. }
    (* decoding of the two values a row can take *)
    assert (Dec : forall (q : poly) j v, (v = 0 \/ v = 1) -> q j = v * 2 ^ s -> row_decoded base2k dnum bb i q j = v).
    { intros q j v Hv Eq. unfold row_decoded. cbv zeta. fold s Mo. rewrite Eq.
      assert (Eh : (v * 2 ^ s + (if s =? 0 then 0 else 2 ^ (s - 1))) / 2 ^ s = v).
      { destruct (Z.eqb_spec s 0) as [E0|E0].
        - rewrite E0. change (2 ^ 0) with 1. rewrite Z.add_0_r, Z.mul_1_r. apply Z.div_1_r.
        - pose proof (pow2_pos' (s - 1) ltac:(lia)).
          assert (2 ^ s = 2 * 2 ^ (s - 1)) by (replace s with (1 + (s - 1)) at 1 by lia; rewrite Z.pow_add_r by lia; reflexivity).
          destruct (div_mod_small (v * 2 ^ s + 2 ^ (s - 1)) (2 ^ s) v (2 ^ (s - 1)) ltac:(lia) ltac:(lia) ltac:(ring)) as [-> _]. reflexivity. }
      rewrite Eh. rewrite Z.mod_small by lia. destruct (Z.leb_spec (Mo / 2) v); lia. }
    (* the traced accumulator *)
    set (a0 := p_rot n (- (i * cb_gap logn dnum ld)) (br_acc logn base2k dnum bb true ld m)).
    assert (Ktr : forall j, 0 <= j < n ->
              p_trace n (logn - log_gap_in logn dnum ld) a0 j = if j =? m * (A * S) then 2 ^ s else 0).
    { intros j Hj. unfold p_trace, p_keep. rewrite log_gap_in_eq.
      replace (logn - G) with ld by (unfold G, e; lia). fold n D. rewrite En.
      replace (D * A * S) with (A * S * D) by ring. rewrite Z.div_mul by lia.
      destruct (Z.eqb_spec (j mod (A * S)) 0) as [E0|E0].
      - assert (Ej : j = (j / (A * S)) * (A * S)) by (pose proof (Z.div_mod j (A * S) ltac:(lia)); lia).
        assert (Ht : 0 <= j / (A * S) < D).
        { split; [apply Z.div_pos; lia|]. apply Z.div_lt_upper_bound; [lia|]. rewrite En in Hj. lia. }
        rewrite Ej at 1. unfold a0. rewrite row_coeff_expo by auto. fold s.
        destruct (Z.eqb_spec (j / (A * S)) m) as [E1|E1]; destruct (Z.eqb_spec j (m * (A * S))) as [E2|E2]; try reflexivity.
        + rewrite E1 in Ej. lia.
        + exfalso. apply E1. rewrite E2. apply Z.div_mul. lia.
      - destruct (Z.eqb_spec j (m * (A * S))) as [E2|]; [|reflexivity]. exfalso. apply E0. rewrite E2. apply Z.mod_mul. lia. }
    unfold cb_row. rewrite asserts_ok_expo. cbv zeta. fold a0. unfold post_process. rewrite log_gap_in_eq. fold n.
    destruct (Z.eqb_spec G lgo) as [EG|EG]; cbn [negb].
    - (* trace only: log_gap_out = log_gap_in *)
      eexists; split; [reflexivity|]. intros j Hj. rewrite cand_expo by (auto; lia).
      rewrite <- log_gap_in_eq at 1. rewrite <- EG, <- AS_pow.
      destruct (Z.eqb_spec j (m * (A * S))) as [E|E].
      + apply Dec; [now right|]. rewrite Ktr by auto. rewrite E, Z.eqb_refl. ring.
      + apply Dec; [now left|]. rewrite Ktr by auto. destruct (Z.eqb_spec j (m * (A * S))); [contradiction|ring].
    - (* rotate and pack *)
      fold D. destruct (Z.ltb_spec ((D - 1) * 2 ^ lgo) n); [|lia].
      eexists; split; [reflexivity|]. intros j Hj. rewrite cand_expo by (auto; lia). cbv beta.
      assert (Hrd : forall t, 0 <= t < D ->
                p_rot n (- (t * 2 ^ G)) (p_trace n (logn - G) a0) 0 = if t =? m then 2 ^ s else 0).
      { intros t Ht. rewrite <- AS_pow.
        assert (0 <= t * (A * S) /\ t * (A * S) < n).
        { assert (t * (A * S) <= (D - 1) * (A * S)) by (apply Z.mul_le_mono_nonneg_r; lia).
          assert (0 <= t * (A * S)) by (apply Z.mul_nonneg_nonneg; lia). rewrite En.
          replace (D * A * S) with ((D - 1) * (A * S) + A * S) by ring. lia. }
        rewrite (p_rot_lo n) by lia. replace (0 - - (t * (A * S))) with (t * (A * S)) by ring.
        rewrite <- log_gap_in_eq. rewrite Ktr by lia.
        destruct (Z.eqb_spec (t * (A * S)) (m * (A * S))); destruct (Z.eqb_spec t m); try reflexivity; try nia. }
      destruct (Z.eqb_spec (j mod 2 ^ lgo) 0) as [E0|E0].
      + assert (Ej : j = (j / 2 ^ lgo) * 2 ^ lgo) by (pose proof (Z.div_mod j (2 ^ lgo) ltac:(lia)); lia).
        assert (0 <= j / 2 ^ lgo) by (apply Z.div_pos; lia).
        destruct (Z.leb_spec 0 (j / 2 ^ lgo)); [|lia]. destruct (Z.ltb_spec (j / 2 ^ lgo) D); cbn [andb].
        * destruct (Z.eqb_spec j (m * 2 ^ lgo)) as [E|E].
          -- apply Dec; [now right|]. cbv beta. rewrite E0. cbn [Z.eqb]. rewrite E.
             rewrite Z.div_mul by lia. destruct (Z.leb_spec 0 m); [|lia]. destruct (Z.ltb_spec m D); [|lia]. cbn [andb].
             rewrite Hrd by lia. rewrite Z.eqb_refl. ring.
          -- apply Dec; [now left|]. cbv beta. rewrite E0. cbn [Z.eqb].
             destruct (Z.leb_spec 0 (j / 2 ^ lgo)); [|lia]. destruct (Z.ltb_spec (j / 2 ^ lgo) D); [|lia]. cbn [andb].
             rewrite Hrd by lia. destruct (Z.eqb_spec (j / 2 ^ lgo) m) as [E1|]; [|ring]. exfalso. apply E. rewrite <- E1. exact Ej.
        * destruct (Z.eqb_spec j (m * 2 ^ lgo)) as [E|E].
          -- exfalso. rewrite E, Z.div_mul in * by lia. lia.
          -- apply Dec; [now left|]. cbv beta. rewrite E0. cbn [Z.eqb].
             destruct (Z.leb_spec 0 (j / 2 ^ lgo)); destruct (Z.ltb_spec (j / 2 ^ lgo) D); cbn [andb]; try lia; ring.
      + destruct (Z.eqb_spec j (m * 2 ^ lgo)) as [E|E].
        * exfalso. apply E0. rewrite E. apply Z.mod_mul. lia.
        * apply Dec; [now left|]. cbv beta. destruct (Z.eqb_spec (j mod 2 ^ lgo) 0); [contradiction|ring].
  Qed.

  Lemma rows_ok_expo lgo m : 2 <= base2k -> 0 <= lgo -> (D - 1) * 2 ^ lgo < n -> 0 <= m < D ->
    cbt_rows_ok logn base2k dnum bb true ld lgo m = true.
  Proof.
    intros Hb2 Hl Hpk Hm. unfold cbt_rows_ok. apply forallb_forall. intros i Hi. apply in_zseq in Hi. rewrite Z2Nat.id in Hi by lia.
    destruct (row_ok_expo lgo m i Hb2 Hl Hpk Hm ltac:(lia)) as (q & -> & Hq).
    unfold poly_eqb. apply forallb_forall. intros j Hj. apply in_zseq in Hj.
    assert (0 < n) by (apply pow2_pos'; lia). fold n in Hj. rewrite Z2Nat.id in Hj by lia.
    apply Z.eqb_eq. apply Hq. lia.
  Qed.
End ConstGen.


Lemma asserts_bound base2k dnum bb expo ld : 1 <= dnum ->
  cb_asserts base2k dnum bb expo ld = true ->
  base2k * (dnum - 1) + lut_sc base2k dnum bb + (if expo then 0 else ld) <= 62.
Proof. intros Hd H. unfold cb_asserts in H. rewrite Z.max_r in H by lia. apply Z.ltb_lt in H. lia. Qed.

(* both modes, all parameter sets the code accepts *)
Theorem cbt_rows_ok_general : forall logn base2k dnum bb expo ld lgo m,
  1 <= dnum -> 0 <= ld -> ld + 1 <= base2k -> 2 <= base2k -> 1 <= bb ->
  cb_asserts base2k dnum bb expo ld = true ->
  2 * (2 ^ ld * next_pow2 dnum) <= 2 ^ logn -> 0 <= logn ->
  0 <= lgo -> (2 ^ ld - 1) * 2 ^ lgo < 2 ^ logn ->
  0 <= m < 2 ^ ld ->
  cbt_rows_ok logn base2k dnum bb expo ld lgo m = true.
Proof.
  intros logn base2k dnum bb expo ld lgo m Hd Hld Hldb Hb2 Hbb Hass Hroom Hlogn Hlgo Hpk Hm.
  pose proof (asserts_bound base2k dnum bb expo ld Hd Hass) as Hov.
  destruct (next_pow2_spec dnum Hd) as (a & Ha & Ea & Hda).
  assert (Hr : ld + a + 1 <= logn).
  { rewrite Ea in Hroom. rewrite <- Z.pow_add_r, <- Z.pow_succ_r in Hroom by lia. apply Z.pow_le_mono_r_iff in Hroom; lia. }
  destruct expo.
  - apply (rows_ok_expo logn base2k dnum bb ld a); auto; try lia.
  - apply (rows_ok_const logn base2k dnum bb ld a); auto; try lia.
Qed.

(* constant mode (the mode prepare uses) *)
Theorem cbt_rows_ok_constant_general : forall logn base2k dnum bb ld m,
  1 <= dnum -> 0 <= ld -> ld + 1 <= base2k -> 1 <= bb ->
  cb_asserts base2k dnum bb false ld = true ->
  2 * (2 ^ ld * next_pow2 dnum) <= 2 ^ logn -> 0 <= logn ->
  0 <= m < 2 ^ ld ->
  cbt_rows_ok logn base2k dnum bb false ld 0 m = true.
Proof.
  intros logn base2k dnum bb ld m Hd Hld Hldb Hbb Hass Hroom Hlogn Hm.
  pose proof (asserts_bound base2k dnum bb false ld Hd Hass) as Hov.
  destruct (next_pow2_spec dnum Hd) as (a & Ha & Ea & Hda).
  assert (Hr : ld + a + 1 <= logn).
  { rewrite Ea in Hroom. rewrite <- Z.pow_add_r, <- Z.pow_succ_r in Hroom by lia. apply Z.pow_le_mono_r_iff in Hroom; lia. }
  apply (rows_ok_const logn base2k dnum bb ld a); auto; try lia.
Qed.
