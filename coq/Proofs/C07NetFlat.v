(* C07 butterfly networks: the interleaved (flat, 4 u64 per coefficient) view is the per-prime view, column by column. *)
From PV Require Import Base.MachineInt Model.C07Ntt120 Model.C07NttNet Proofs.C07NetBase.
Open Scope Z_scope.

Lemma cols4_shape n : forall d, length d = (4 * n)%nat ->
  exists A B C E, cols4 d = [A; B; C; E] /\ length A = n /\ length B = n /\ length C = n /\ length E = n /\
    forall i, (i < n)%nat -> nth i A 0 = nth (4 * i) d 0 /\ nth i B 0 = nth (4 * i + 1) d 0 /\
                             nth i C 0 = nth (4 * i + 2) d 0 /\ nth i E 0 = nth (4 * i + 3) d 0.
Proof.
  induction n as [|n IH]; intros d Hd.
  - destruct d; [|cbn in Hd; lia]. exists [], [], [], []. cbn. repeat split; try reflexivity; lia.
  - destruct d as [|a [|b [|c [|e r]]]]; cbn [length] in Hd; try lia.
    destruct (IH r ltac:(lia)) as [A [B [C [E [Hc [HA [HB [HC [HE Hn]]]]]]]]].
    exists (a :: A), (b :: B), (c :: C), (e :: E). cbn [cols4]. rewrite Hc. cbn [length].
    split; [reflexivity|]. split; [lia|]. split; [lia|]. split; [lia|]. split; [lia|].
    intros i Hi. destruct i as [|i]; [repeat split; reflexivity|].
    destruct (Hn i ltac:(lia)) as [H0 [H1 [H2 H3]]].
    replace (4 * S i)%nat with (S (S (S (S (4 * i))))) by lia. cbn [nth Nat.add].
    exact (conj H0 (conj H1 (conj H2 H3))).
Qed.

Lemma nth_weave4 : forall A B C E p, length B = length A -> length C = length A -> length E = length A -> (p < length A)%nat ->
  nth (4 * p) (weave4 A B C E) 0 = nth p A 0 /\ nth (4 * p + 1) (weave4 A B C E) 0 = nth p B 0 /\
  nth (4 * p + 2) (weave4 A B C E) 0 = nth p C 0 /\ nth (4 * p + 3) (weave4 A B C E) 0 = nth p E 0.
Proof.
  induction A as [|a A IH]; intros [|b B] [|c C] [|e E] p HB HC HE Hp; cbn [length] in *; try lia.
  cbn [weave4]. destruct p as [|p]; [repeat split; reflexivity|].
  destruct (IH B C E p ltac:(lia) ltac:(lia) ltac:(lia) ltac:(lia)) as [H0 [H1 [H2 H3]]].
  replace (4 * S p)%nat with (S (S (S (S (4 * p))))) by lia. cbn [nth Nat.add].
  exact (conj H0 (conj H1 (conj H2 H3))).
Qed.

(* entry i of column k is entry 4i + k of the flat slice; entry 4p + k of the result is entry p of f k (column k) *)
Theorem colk_nth n d k i : length d = (4 * n)%nat -> (k < 4)%nat -> (i < n)%nat -> nth i (colk k d) 0 = nth (4 * i + k) d 0.
Proof.
  intros Hd Hk Hi. destruct (cols4_shape n d Hd) as [A [B [C [E [Hc [_ [_ [_ [_ Hn]]]]]]]]].
  unfold colk. rewrite Hc. destruct (Hn i Hi) as [H0 [H1 [H2 H3]]].
  destruct k as [|[|[|[|k]]]]; cbn [nth]; try lia; try assumption. rewrite Nat.add_0_r. exact H0.
Qed.
Lemma colk_length n d k : length d = (4 * n)%nat -> (k < 4)%nat -> length (colk k d) = n.
Proof.
  intros Hd Hk. destruct (cols4_shape n d Hd) as [A [B [C [E [Hc [HA [HB [HC [HE _]]]]]]]]].
  unfold colk. rewrite Hc. destruct k as [|[|[|[|k]]]]; cbn [nth]; try lia.
Qed.
Theorem per_prime_nth (f : nat -> list Z -> list Z) n d k p : length d = (4 * n)%nat ->
  (forall k, (k < 4)%nat -> length (f k (colk k d)) = n) -> (k < 4)%nat -> (p < n)%nat ->
  nth (4 * p + k) (per_prime f d) 0 = nth p (f k (colk k d)) 0.
Proof.
  intros Hd Hf Hk Hp. destruct (cols4_shape n d Hd) as [A [B [C [E [Hc [HA [HB [HC [HE _]]]]]]]]].
  pose proof (Hf 0%nat ltac:(lia)) as F0. pose proof (Hf 1%nat ltac:(lia)) as F1.
  pose proof (Hf 2%nat ltac:(lia)) as F2. pose proof (Hf 3%nat ltac:(lia)) as F3.
  unfold per_prime, colk in *. rewrite Hc in *. cbn [seq combine map fst snd nth] in *. unfold weave. cbn [nth].
  destruct (nth_weave4 (f 0%nat A) (f 1%nat B) (f 2%nat C) (f 3%nat E) p) as [H0 [H1 [H2 H3]]]; try lia.
  destruct k as [|[|[|[|k]]]]; try lia; try assumption. rewrite Nat.add_0_r. exact H0.
Qed.
